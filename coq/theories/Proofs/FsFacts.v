(** Facts about the filesystem model ([Fs/FsModel.v]) at the level of keys,
    for *resolved* paths ([Fs/FsSpec.v]: [abs_cleaned], [direct],
    [nolinkpar]).

    Contents:
    - A. keys and paths: [split_sep] / [strip_trailing_seps] of an absolute
      cleaned path, [kpath], [kprefixes], [key_prefixb] / [key_eqb],
      [has_children];
    - B. the walk on resolved paths: [walk_direct_found],
      [walk_direct_missing], [walk_nolink_notfound], [resolve_direct] (all
      cases in one equation), [resolve_nolinkpar_notfound];
    - C.14 lookup / frame lemmas for [touch_dir], [update_node], [add_entry],
      [remove_entry], [delete_subtree];
    - C. the primitives on direct paths as equations on the state, each as
      one [match] on [st_fs s !! comps p] plus the special cases by name;
    - C.15 [fs_mkdirall] on direct paths.

    The walk budget: [resolve f p] runs [walk] with the budget
    [walk_fuel + length p] ([walk_fuel = 4096]).  A walk that follows no
    symlink consumes one unit per element of [split_sep p] plus one, and
    [length (split_sep p) <= S (length p)] ([split_sep_length_le]): the
    lemmas about [resolve] and the primitives on [direct] / [nolinkpar]
    paths carry no budget hypothesis. *)
From stdpp Require Import gmap.
From BFS Require Import Fs.FsSpec Proofs.PathFacts.
Local Open Scope nat_scope.

(* ------------------------------------------------------------------ *)
(** * A.1 Absolute cleaned paths and their components *)

(** a component on which [walk] takes the plain lookup branch *)
Definition plain_comp (c : str) : Prop :=
  trivial_comp c = false /\ str_eqb c s_dotdot = false.

Lemma good_comp_not_trivial : forall c, good_comp c -> trivial_comp c = false.
Proof.
  intros c [H1 [H2 _]]. unfold trivial_comp. apply orb_false_iff.
  split; apply str_eqb_neq; assumption.
Qed.

Lemma abs_cleaned_eq : forall p, abs_cleaned p -> p = sep :: join_sep (comps p).
Proof.
  intros p [Hc Ha]. pose proof (cleaned_eq p Hc) as E. rewrite Ha in E. exact E.
Qed.

Lemma abs_cleaned_nonempty : forall p, abs_cleaned p -> p <> [].
Proof. intros p [Hc _]. apply cleaned_nonempty. exact Hc. Qed.

Lemma abs_comps_no_dotdot : forall p, is_abs p = true -> ~ In s_dotdot (comps p).
Proof.
  intros p Ha. apply normal_rooted_no_dotdot. rewrite <- Ha. apply comps_normal.
Qed.

(** every component of an absolute path's [comps]: non-empty, not ".", not
    "..", no separator *)
Lemma abs_comps_In : forall p c,
  is_abs p = true -> In c (comps p) ->
  c <> [] /\ c <> s_dot /\ c <> s_dotdot /\ nosep c.
Proof.
  intros p c Ha Hc. pose proof (comps_good p) as G.
  rewrite List.Forall_forall in G. destruct (G c Hc) as [G1 [G2 G3]].
  repeat split; try assumption.
  intro E. subst c. exact (abs_comps_no_dotdot p Ha Hc).
Qed.

Lemma abs_comps_plain : forall p, is_abs p = true -> Forall plain_comp (comps p).
Proof.
  intros p Ha. apply List.Forall_forall. intros c Hc.
  destruct (abs_comps_In p c Ha Hc) as [H1 [H2 [H3 H4]]]. split.
  - unfold trivial_comp. apply orb_false_iff. split; apply str_eqb_neq; assumption.
  - apply str_eqb_neq. exact H3.
Qed.

Lemma split_sep_root : split_sep [sep] = [[]; []].
Proof. reflexivity. Qed.

Lemma abs_cleaned_root : forall p, abs_cleaned p -> comps p = [] -> p = [sep].
Proof.
  intros p Hac E. pose proof (abs_cleaned_eq p Hac) as Ep. rewrite E in Ep. exact Ep.
Qed.

Lemma abs_cleaned_split : forall p,
  abs_cleaned p -> comps p <> [] -> split_sep p = [] :: comps p.
Proof.
  intros p Hac Hne. pose proof (abs_cleaned_eq p Hac) as Ep.
  rewrite Ep at 1.
  change (split_sep (sep :: join_sep (comps p))) with ([] :: split_sep (join_sep (comps p))).
  rewrite split_join; [reflexivity | exact Hne |].
  apply Forall_good_nosep. apply comps_good.
Qed.

(** both cases at once *)
Lemma abs_cleaned_split_gen : forall p,
  abs_cleaned p ->
  split_sep p = [] :: match comps p with [] => [[]] | _ => comps p end.
Proof.
  intros p Hac. destruct (comps p) as [|c r] eqn:E.
  - rewrite (abs_cleaned_root p Hac E). reflexivity.
  - rewrite <- E. apply abs_cleaned_split; [exact Hac|]. rewrite E. discriminate.
Qed.

Lemma count_sep_le_length : forall s, count_sep s <= length s.
Proof.
  induction s as [|c r IH]; simpl.
  - lia.
  - destruct (N.eqb c sep); lia.
Qed.

Lemma comps_length_le : forall p, abs_cleaned p -> length (comps p) <= length p.
Proof.
  intros p Hac. destruct (comps p) as [|c r] eqn:E.
  - simpl. lia.
  - rewrite <- E. destruct Hac as [Hc Ha].
    rewrite <- (cleaned_count_sep_abs p Hc Ha).
    + apply count_sep_le_length.
    + intro Hr. apply (cleaned_comps_nil_abs p Hc Ha) in Hr. rewrite Hr in E. discriminate E.
Qed.

Lemma walk_fuel_eq : walk_fuel = 4096.
Proof. reflexivity. Qed.

(** the walk-budget side condition of the lemmas below, from the string length *)
Lemma walk_budget_by_length : forall p,
  abs_cleaned p -> length p + 2 < walk_fuel -> length (comps p) + 2 < walk_fuel.
Proof. intros p Hac H. pose proof (comps_length_le p Hac) as Hle. lia. Qed.

(** [kpath] and [comps] are inverse on absolute cleaned paths / normal keys *)
Lemma kpath_comps : forall p, abs_cleaned p -> kpath (comps p) = p.
Proof. intros p Hac. symmetry. apply abs_cleaned_eq. exact Hac. Qed.

Lemma stk_ok_true_of_good : forall l,
  Forall good_comp l -> ~ In s_dotdot l -> stk_ok true l.
Proof.
  induction l as [|c l IH]; intros Hg Hnd.
  - constructor.
  - inversion Hg as [|c' l' Hc Hl]; subst. apply so_push.
    + exact Hc.
    + intro E. apply Hnd. left. exact E.
    + apply IH; [exact Hl|]. intro H. apply Hnd. right. exact H.
Qed.

Lemma normal_true_of_good : forall k,
  Forall good_comp k -> ~ In s_dotdot k -> normal true k.
Proof.
  intros k Hg Hnd. unfold normal. apply stk_ok_true_of_good.
  - apply List.Forall_forall. intros c Hc. rewrite List.Forall_forall in Hg.
    apply Hg. apply in_rev. exact Hc.
  - intro H. apply Hnd. apply in_rev. exact H.
Qed.

Lemma kpath_abs_cleaned : forall k,
  Forall good_comp k -> ~ In s_dotdot k -> abs_cleaned (kpath k).
Proof.
  intros k Hg Hnd. unfold kpath. split.
  - apply cleaned_render. apply normal_true_of_good; assumption.
  - apply is_abs_render. exact Hg.
Qed.

Lemma comps_kpath : forall k,
  Forall good_comp k -> ~ In s_dotdot k -> comps (kpath k) = k.
Proof.
  intros k Hg Hnd. unfold kpath. apply comps_render.
  apply normal_true_of_good; assumption.
Qed.

(** the last byte of a non-root absolute cleaned path is not a separator *)
Lemma join_sep_last_nosep : forall cs,
  Forall good_comp cs -> cs <> [] ->
  exists q x, join_sep cs = q ++ [x] /\ x <> sep.
Proof.
  induction cs as [|c cs IH]; intros Hg Hne.
  - contradiction Hne. reflexivity.
  - inversion Hg as [|c' cs' Hc Hcs]; subst.
    destruct cs as [|c2 cs].
    + destruct Hc as [H1 [_ H3]].
      destruct (exists_last H1) as [q [x Eq]]. exists q, x. split; [exact Eq|].
      intro Ex. apply H3. rewrite Eq. apply in_or_app. right. left. exact Ex.
    + destruct (IH Hcs) as [q [x [Eq Hx]]]; [discriminate|].
      exists (c ++ sep :: q), x. split; [|exact Hx].
      rewrite join_sep_cons by discriminate. rewrite Eq.
      rewrite <- app_assoc. reflexivity.
Qed.

Lemma strip_trailing_seps_snoc : forall q x,
  x <> sep -> strip_trailing_seps (q ++ [x]) = q ++ [x].
Proof.
  intros q x Hx. unfold strip_trailing_seps. rewrite rev_unit.
  simpl strip_trailing_sep_rev. apply N.eqb_neq in Hx. rewrite Hx.
  rewrite <- rev_unit. apply rev_involutive.
Qed.

Lemma strip_trailing_seps_root : strip_trailing_seps [sep] = [].
Proof. reflexivity. Qed.

Lemma strip_trailing_seps_abs_cleaned : forall p,
  abs_cleaned p -> comps p <> [] -> strip_trailing_seps p = p.
Proof.
  intros p Hac Hne. pose proof (abs_cleaned_eq p Hac) as Ep.
  destruct (join_sep_last_nosep (comps p) (comps_good p) Hne) as [q [x [Eq Hx]]].
  rewrite Ep. rewrite Eq.
  change (sep :: q ++ [x]) with ((sep :: q) ++ [x]).
  apply strip_trailing_seps_snoc. exact Hx.
Qed.

Lemma strip_or_self_abs_cleaned : forall p,
  abs_cleaned p -> match strip_trailing_seps p with [] => p | q => q end = p.
Proof.
  intros p Hac. destruct (comps p) as [|c cs] eqn:E.
  - pose proof (abs_cleaned_eq p Hac) as Ep. rewrite E in Ep. rewrite Ep. reflexivity.
  - rewrite strip_trailing_seps_abs_cleaned; [| exact Hac | rewrite E; discriminate].
    destruct p; reflexivity.
Qed.

(* ------------------------------------------------------------------ *)
(** * A.2 [kprefixes] *)

Lemma kprefixes_In : forall k k',
  In k' (kprefixes k) <-> exists r, r <> [] /\ k = k' ++ r.
Proof.
  induction k as [|c k IH]; intro k'; simpl.
  - split; [intros [] |].
    intros [r [Hr E]]. destruct k'; simpl in E; [|discriminate E].
    apply Hr. symmetry. exact E.
  - split.
    + intros [E|H].
      * subst k'. exists (c :: k). split; [discriminate | reflexivity].
      * apply in_map_iff in H. destruct H as [k0 [E H]]. subst k'.
        apply IH in H. destruct H as [r [Hr E]]. exists r. split; [exact Hr|].
        simpl. rewrite <- E. reflexivity.
    + intros [r [Hr E]]. destruct k' as [|c' k0].
      * left. reflexivity.
      * right. simpl in E. injection E as Ec Ek. subst c'.
        apply in_map. apply IH. exists r. split; assumption.
Qed.

Lemma kprefixes_snoc : forall k c, kprefixes (k ++ [c]) = kprefixes k ++ [k].
Proof.
  induction k as [|a k IH]; intro c; simpl.
  - reflexivity.
  - rewrite IH. rewrite map_app. reflexivity.
Qed.

Lemma kprefixes_nil_In : forall k, k <> [] -> In [] (kprefixes k).
Proof. intros [|c k] H; [contradiction H; reflexivity | left; reflexivity]. Qed.

Lemma kprefixes_length : forall k, length (kprefixes k) = length k.
Proof.
  induction k as [|c k IH]; simpl; [reflexivity|]. rewrite map_length. f_equal. exact IH.
Qed.

Lemma kprefixes_removelast_In : forall k, k <> [] -> In (removelast k) (kprefixes k).
Proof.
  intros k Hne. apply kprefixes_In. exists [last k []]. split; [discriminate|].
  apply app_removelast_last. exact Hne.
Qed.

Lemma Forall_kprefixes : forall (P : key -> Prop) k,
  Forall P (kprefixes k) <-> (forall pre r, r <> [] -> k = pre ++ r -> P pre).
Proof.
  intros P k. rewrite List.Forall_forall. split.
  - intros H pre r Hr E. apply H. apply kprefixes_In. exists r. split; assumption.
  - intros H pre Hin. apply kprefixes_In in Hin. destruct Hin as [r [Hr E]].
    eapply H; eassumption.
Qed.

Lemma removelast_neq : forall (A : Type) (k : list A), k <> [] -> removelast k <> k.
Proof.
  intros A k Hne E. destruct (exists_last Hne) as [q [x Eq]]. subst k.
  rewrite removelast_last in E. apply (f_equal (@length A)) in E.
  rewrite app_length in E. simpl in E. lia.
Qed.

Lemma snoc_neq : forall (A : Type) (k : list A) c, k ++ [c] <> k.
Proof.
  intros A k c E. apply (f_equal (@length A)) in E.
  rewrite app_length in E. simpl in E. lia.
Qed.

Lemma removelast_last_snoc : forall (A : Type) (k : list A) d,
  k <> [] -> removelast k ++ [last k d] = k.
Proof. intros A k d Hne. symmetry. apply app_removelast_last. exact Hne. Qed.

(* ------------------------------------------------------------------ *)
(** * A.3 [key_prefixb], [key_eqb] *)

Lemma key_prefixb_iff : forall a b, key_prefixb a b = true <-> exists r, b = a ++ r.
Proof.
  induction a as [|x a IH]; intros b; simpl.
  - split; [intros _; exists b; reflexivity | intros _; reflexivity].
  - destruct b as [|y b].
    + split; [intro H; discriminate H | intros [r Hr]; discriminate Hr].
    + rewrite andb_true_iff, str_eqb_eq, IH. split.
      * intros [E [r Hr]]. subst. exists r. reflexivity.
      * intros [r Hr]. injection Hr as E Hr. subst. split; [reflexivity|].
        exists r. reflexivity.
Qed.

Lemma key_prefixb_refl : forall a, key_prefixb a a = true.
Proof. intro a. apply key_prefixb_iff. exists []. rewrite app_nil_r. reflexivity. Qed.

Lemma key_prefixb_app : forall a r, key_prefixb a (a ++ r) = true.
Proof. intros a r. apply key_prefixb_iff. exists r. reflexivity. Qed.

Lemma key_eqb_eq : forall a b, key_eqb a b = true <-> a = b.
Proof.
  intros a b. unfold key_eqb. rewrite andb_true_iff, !key_prefixb_iff. split.
  - intros [[r1 E1] [r2 E2]]. rewrite E1 in E2.
    rewrite <- app_assoc in E2. rewrite <- (app_nil_r a) in E2 at 1.
    apply app_inv_head in E2. symmetry in E2. apply app_eq_nil in E2.
    destruct E2 as [E2 _]. subst r1. rewrite app_nil_r in E1. symmetry. exact E1.
  - intro E. subst b. split; exists []; rewrite app_nil_r; reflexivity.
Qed.

Lemma key_eqb_refl : forall a, key_eqb a a = true.
Proof. intro a. apply key_eqb_eq. reflexivity. Qed.

Lemma key_eqb_neq : forall a b, key_eqb a b = false <-> a <> b.
Proof.
  intros a b. split.
  - intros H E. apply key_eqb_eq in E. congruence.
  - intro H. destruct (key_eqb a b) eqn:E; [|reflexivity].
    apply key_eqb_eq in E. contradiction.
Qed.

(** [has_children], semantically *)
Lemma has_children_true_iff : forall (f : fs) k,
  has_children f k = true <->
  exists r n, r <> [] /\ f !! (k ++ r) = Some n.
Proof.
  intros f k. unfold has_children, entries.
  change (gmap_to_list f) with (map_to_list f). rewrite existsb_exists. split.
  - intros [[k' n] [Hin Hb]]. simpl in Hb.
    apply andb_true_iff in Hb. destruct Hb as [Hp Hn].
    apply key_prefixb_iff in Hp. destruct Hp as [r Er]. subst k'.
    apply negb_true_iff in Hn. apply key_eqb_neq in Hn.
    exists r, n. split.
    + intro E. subst r. apply Hn. rewrite app_nil_r. reflexivity.
    + apply elem_of_list_In in Hin. apply elem_of_map_to_list in Hin. exact Hin.
  - intros [r [n [Hr Hl]]]. exists (k ++ r, n). split.
    + apply elem_of_list_In. apply elem_of_map_to_list. exact Hl.
    + simpl. rewrite key_prefixb_app. simpl. apply negb_true_iff. apply key_eqb_neq.
      intro E. rewrite <- (app_nil_r k) in E at 1. apply app_inv_head in E.
      apply Hr. symmetry. exact E.
Qed.

Lemma has_children_false_iff : forall (f : fs) k,
  has_children f k = false <-> forall r, r <> [] -> f !! (k ++ r) = None.
Proof.
  intros f k. split.
  - intros H r Hr. destruct (f !! (k ++ r)) as [n|] eqn:E; [|reflexivity].
    assert (Ht : has_children f k = true).
    { apply has_children_true_iff. exists r, n. split; assumption. }
    rewrite H in Ht. discriminate Ht.
  - intro H. destruct (has_children f k) eqn:E; [|reflexivity].
    apply has_children_true_iff in E. destruct E as [r [n [Hr Hl]]].
    rewrite (H r Hr) in Hl. discriminate Hl.
Qed.

(* ------------------------------------------------------------------ *)
(** * B. The walk on resolved paths *)

(** every proper prefix of [cs], taken below [cur], is a directory
    (in particular [cur] itself when [cs <> []]) *)
Definition dirs_below (f : fs) (cur : key) (cs : list str) : Prop :=
  Forall (fun pre => is_dir_at f (cur ++ pre)) (kprefixes cs).

Definition nolinks_below (f : fs) (cur : key) (cs : list str) : Prop :=
  Forall (fun pre => not_link_at f (cur ++ pre)) (kprefixes cs).

Lemma Forall_below_cons : forall (Q : key -> Prop) cur c rest,
  Forall (fun pre => Q (cur ++ pre)) (kprefixes (c :: rest)) <->
  Q cur /\ Forall (fun pre => Q ((cur ++ [c]) ++ pre)) (kprefixes rest).
Proof.
  intros Q cur c rest. simpl kprefixes.
  rewrite Forall_cons_iff, List.Forall_map, app_nil_r.
  split; intros [H1 H2]; (split; [exact H1|]);
    (eapply List.Forall_impl; [|exact H2]); intros pre Hp; simpl in *.
  - rewrite <- app_assoc. exact Hp.
  - rewrite <- app_assoc in Hp. exact Hp.
Qed.

Lemma dirs_below_cons : forall f cur c rest,
  dirs_below f cur (c :: rest) <-> is_dir_at f cur /\ dirs_below f (cur ++ [c]) rest.
Proof. intros f cur c rest. apply Forall_below_cons. Qed.

Lemma nolinks_below_cons : forall f cur c rest,
  nolinks_below f cur (c :: rest) <-> not_link_at f cur /\ nolinks_below f (cur ++ [c]) rest.
Proof. intros f cur c rest. apply Forall_below_cons. Qed.

Lemma direct_iff : forall f p, direct f p <-> abs_cleaned p /\ dirs_below f [] (comps p).
Proof. intros f p. reflexivity. Qed.

Lemma nolinkpar_iff : forall f p, nolinkpar f p <-> abs_cleaned p /\ nolinks_below f [] (comps p).
Proof. intros f p. reflexivity. Qed.

Lemma direct_prefix_dir : forall f p pre r,
  direct f p -> r <> [] -> comps p = pre ++ r -> is_dir_at f pre.
Proof.
  intros f p pre r [_ Hd] Hr E.
  exact (proj1 (Forall_kprefixes _ _) Hd pre r Hr E).
Qed.

Lemma direct_parent_dir : forall f p,
  direct f p -> comps p <> [] -> is_dir_at f (removelast (comps p)).
Proof.
  intros f p [_ Hd] Hne. rewrite List.Forall_forall in Hd. apply Hd.
  apply kprefixes_removelast_In. exact Hne.
Qed.

Lemma direct_root_dir : forall f p, direct f p -> comps p <> [] -> is_dir_at f [].
Proof.
  intros f p [_ Hd] Hne. rewrite List.Forall_forall in Hd. apply Hd.
  apply kprefixes_nil_In. exact Hne.
Qed.

Lemma direct_nolinkpar : forall f p, direct f p -> nolinkpar f p.
Proof.
  intros f p [Hac Hd]. split; [exact Hac|].
  eapply List.Forall_impl; [|exact Hd].
  intros k [m Hm] m' t E. rewrite Hm in E. discriminate E.
Qed.

(** [key] / [str] versus [list _] in implicit arguments ([@lookup key ...] vs
    [@lookup (list str) ...]) block the syntactic matching of [rewrite H] with a
    closed [H]; [norm_keys] unfolds both everywhere. *)
Ltac norm_keys := unfold key, str in *.

(** one step of [walk], as an equation *)
Lemma walk_S : forall fuel f hops cur cs follow,
  walk (S fuel) f hops cur cs follow =
    match cs with
    | [] => match f !! cur with
            | Some n => WFound cur n
            | None => WErr ENOENT
            end
    | c :: rest =>
        if trivial_comp c then walk fuel f hops cur rest follow
        else if str_eqb c s_dotdot then walk fuel f hops (parent_key cur) rest follow
        else
          match f !! (cur ++ [c]) with
          | None =>
              if forallb trivial_comp rest
              then WMissing cur c (match rest with [] => false | _ => true end)
              else WErr ENOENT
          | Some (Dir m) => walk fuel f hops (cur ++ [c]) rest follow
          | Some (File m d) =>
              match rest with
              | [] => WFound (cur ++ [c]) (File m d)
              | _ => WErr ENOTDIR
              end
          | Some (Link m t) =>
              if (match rest with [] => true | _ => false end) && negb follow
              then WFound (cur ++ [c]) (Link m t)
              else if Nat.leb 40 hops then WErr ELOOP
              else walk fuel f (S hops) (if is_abs t then [] else cur)
                        (split_sep t ++ rest) follow
          end
    end.
Proof. reflexivity. Qed.

Lemma walk_nil : forall fuel f hops cur follow,
  walk (S fuel) f hops cur [] follow =
    match f !! cur with Some n => WFound cur n | None => WErr ENOENT end.
Proof. reflexivity. Qed.

Lemma walk_trivial : forall fuel f hops cur c rest follow,
  trivial_comp c = true ->
  walk (S fuel) f hops cur (c :: rest) follow = walk fuel f hops cur rest follow.
Proof. intros fuel f hops cur c rest follow H. rewrite walk_S. rewrite H. reflexivity. Qed.

Lemma walk_plain_dir : forall fuel f hops cur c rest follow m,
  plain_comp c -> f !! (cur ++ [c]) = Some (Dir m) ->
  walk (S fuel) f hops cur (c :: rest) follow = walk fuel f hops (cur ++ [c]) rest follow.
Proof.
  intros fuel f hops cur c rest follow m [Ht Hdd] Hm.
  rewrite walk_S. rewrite Ht, Hdd, Hm. reflexivity.
Qed.

(** walking down through directories *)
Lemma walk_dirs_app : forall f follow cs fuel hops cur rest,
  Forall plain_comp cs ->
  dirs_below f cur cs -> is_dir_at f (cur ++ cs) -> cs <> [] ->
  walk (length cs + fuel) f hops cur (cs ++ rest) follow =
  walk fuel f hops (cur ++ cs) rest follow.
Proof.
  intros f follow. induction cs as [|c cs IH]; intros fuel hops cur rest Hpl Hd Hend Hne.
  - contradiction Hne. reflexivity.
  - inversion Hpl as [|c' r' Hc Hpl']; subst.
    apply dirs_below_cons in Hd. destruct Hd as [Hcur Hd].
    assert (Hdir : is_dir_at f (cur ++ [c])).
    { destruct cs as [|c2 cs'].
      - exact Hend.
      - apply dirs_below_cons in Hd. exact (proj1 Hd). }
    destruct Hdir as [m Hm].
    change (length (c :: cs) + fuel) with (S (length cs + fuel)).
    change ((c :: cs) ++ rest) with (c :: (cs ++ rest)).
    rewrite (walk_plain_dir _ _ _ _ _ _ _ m Hc Hm).
    replace (cur ++ c :: cs) with ((cur ++ [c]) ++ cs) in *
      by (rewrite <- app_assoc; reflexivity).
    destruct cs as [|c2 cs'].
    + simpl. rewrite app_nil_r. reflexivity.
    + apply IH; [exact Hpl' | exact Hd | exact Hend | discriminate].
Qed.

Lemma walk_direct_found : forall f follow n cs fuel hops cur,
  Forall plain_comp cs -> dirs_below f cur cs -> length cs < fuel ->
  f !! (cur ++ cs) = Some n ->
  (cs = [] \/ follow = false \/ forall m t, n <> Link m t) ->
  walk fuel f hops cur cs follow = WFound (cur ++ cs) n.
Proof.
  intros f follow n. induction cs as [|c rest IH]; intros fuel hops cur Hpl Hd Hfuel Hn Hok.
  - destruct fuel as [|fuel]; [simpl in Hfuel; lia|].
    rewrite walk_nil. rewrite app_nil_r in *. norm_keys. rewrite Hn. reflexivity.
  - destruct fuel as [|fuel]; [lia|]. simpl in Hfuel.
    inversion Hpl as [|c' r' Hc Hpl']; subst.
    apply dirs_below_cons in Hd. destruct Hd as [Hcur Hd].
    destruct rest as [|c2 rest'].
    + destruct Hc as [Ht Hdd]. rewrite walk_S. norm_keys. rewrite Ht, Hdd, Hn.
      destruct n as [m|m d|m t].
      * destruct fuel as [|fuel]; [lia|]. rewrite walk_nil. norm_keys. rewrite Hn. reflexivity.
      * reflexivity.
      * destruct Hok as [H|[H|H]].
        -- discriminate H.
        -- subst follow. reflexivity.
        -- exfalso. eapply H. reflexivity.
    + assert (Hdir : is_dir_at f (cur ++ [c])).
      { apply dirs_below_cons in Hd. exact (proj1 Hd). }
      destruct Hdir as [m Hm].
      rewrite (walk_plain_dir _ _ _ _ _ _ _ m Hc Hm).
      replace (cur ++ c :: c2 :: rest') with ((cur ++ [c]) ++ c2 :: rest') in *
        by (rewrite <- app_assoc; reflexivity).
      apply IH; [exact Hpl' | exact Hd | lia | exact Hn |].
      destruct Hok as [H|H]; [discriminate H | right; exact H].
Qed.

Lemma walk_direct_missing : forall f follow cs fuel hops cur,
  Forall plain_comp cs -> dirs_below f cur cs -> length cs < fuel ->
  cs <> [] -> f !! (cur ++ cs) = None ->
  walk fuel f hops cur cs follow = WMissing (cur ++ removelast cs) (last cs []) false.
Proof.
  intros f follow. induction cs as [|c rest IH]; intros fuel hops cur Hpl Hd Hfuel Hne Hn.
  - contradiction Hne. reflexivity.
  - destruct fuel as [|fuel]; [lia|]. simpl in Hfuel.
    inversion Hpl as [|c' r' Hc Hpl']; subst.
    apply dirs_below_cons in Hd. destruct Hd as [Hcur Hd].
    destruct rest as [|c2 rest'].
    + destruct Hc as [Ht Hdd]. rewrite walk_S. norm_keys. rewrite Ht, Hdd, Hn.
      simpl. rewrite app_nil_r. reflexivity.
    + assert (Hdir : is_dir_at f (cur ++ [c])).
      { apply dirs_below_cons in Hd. exact (proj1 Hd). }
      destruct Hdir as [m Hm].
      rewrite (walk_plain_dir _ _ _ _ _ _ _ m Hc Hm).
      replace (cur ++ c :: c2 :: rest') with ((cur ++ [c]) ++ c2 :: rest') in *
        by (rewrite <- app_assoc; reflexivity).
      rewrite (IH fuel hops (cur ++ [c]) Hpl' Hd); [| lia | discriminate | exact Hn].
      change (removelast (c :: c2 :: rest')) with (c :: removelast (c2 :: rest')).
      change (last (c :: c2 :: rest') []) with (last (c2 :: rest') []).
      rewrite <- app_assoc. reflexivity.
Qed.

(** some proper ancestor is missing or a regular file: ENOENT / ENOTDIR *)
Lemma walk_nolink_notfound : forall f follow cs fuel hops cur,
  Forall plain_comp cs -> is_dir_at f cur ->
  nolinks_below f cur cs -> ~ dirs_below f cur cs -> length cs < fuel ->
  exists e, walk fuel f hops cur cs follow = WErr e /\ is_not_found e = true.
Proof.
  intros f follow. induction cs as [|c rest IH]; intros fuel hops cur Hpl Hcur Hnl Hnd Hfuel.
  - exfalso. apply Hnd. constructor.
  - destruct fuel as [|fuel]; [lia|]. simpl in Hfuel.
    inversion Hpl as [|c' r' Hc Hpl']; subst.
    apply nolinks_below_cons in Hnl. destruct Hnl as [_ Hnl].
    assert (Hnd' : ~ dirs_below f (cur ++ [c]) rest).
    { intro H. apply Hnd. apply dirs_below_cons. split; assumption. }
    destruct rest as [|c2 rest'].
    { exfalso. apply Hnd'. constructor. }
    pose proof Hc as [Ht Hdd]. rewrite walk_S. norm_keys. rewrite Ht, Hdd.
    destruct (f !! (cur ++ [c])) as [[m|m d|m t]|] eqn:El.
    + apply IH; [exact Hpl' | exists m; exact El | exact Hnl | exact Hnd' | lia].
    + exists ENOTDIR. split; reflexivity.
    + exfalso. apply nolinks_below_cons in Hnl. destruct Hnl as [Hnl _].
      exact (Hnl m t El).
    + inversion Hpl' as [|c2' r2' [Ht2 _] _]; subst.
      simpl forallb. rewrite Ht2. exists ENOENT. split; reflexivity.
Qed.

(** the budget of [resolve] covers every element of the split name *)
Lemma split_sep_nonempty : forall p, split_sep p <> [].
Proof.
  induction p as [|c r IH]; simpl.
  - discriminate.
  - destruct (N.eqb c sep); [discriminate|].
    destruct (split_sep r); discriminate.
Qed.

Lemma split_sep_length_le : forall p, length (split_sep p) <= S (length p).
Proof.
  induction p as [|c r IH]; simpl.
  - lia.
  - destruct (N.eqb c sep); [simpl; lia|].
    destruct (split_sep r) as [|h t] eqn:E; simpl in *; lia.
Qed.

(** [resolve] on an absolute cleaned path is the walk over its components *)
Lemma resolve_abs_cleaned : forall f p follow,
  abs_cleaned p ->
  exists fuel, length (comps p) < fuel /\
    resolve f p follow = walk fuel f 0 [] (comps p) follow.
Proof.
  intros f p follow Hac.
  pose proof (abs_cleaned_nonempty p Hac) as Hne.
  pose proof (abs_cleaned_split_gen p Hac) as Hs.
  pose proof (comps_length_le p Hac) as Hle.
  unfold resolve. destruct p as [|x p']; [contradiction Hne; reflexivity|].
  rewrite Hs. clear Hs.
  assert (Hlen : length (comps (x :: p')) + 2 < walk_fuel + length (x :: p')).
  { rewrite walk_fuel_eq. lia. }
  revert Hlen. generalize (walk_fuel + length (x :: p')). intros F Hlen.
  destruct F as [|F]; [lia|].
  rewrite walk_trivial by reflexivity.
  destruct (comps (x :: p')) as [|c r] eqn:E.
  - destruct F as [|F]; [simpl in Hlen; lia|].
    rewrite walk_trivial by reflexivity.
    exists F. split; [simpl in *; lia | reflexivity].
  - exists F. split; [simpl in *; lia | reflexivity].
Qed.

(** the walk of a direct path, all cases *)
Lemma resolve_direct : forall f p follow,
  direct f p ->
  (follow = false \/ not_link_at f (comps p)) ->
  resolve f p follow =
    match f !! comps p with
    | Some n => WFound (comps p) n
    | None =>
        match comps p with
        | [] => WErr ENOENT
        | _ => WMissing (removelast (comps p)) (last (comps p) []) false
        end
    end.
Proof.
  intros f p follow [Hac Hd] Hside.
  destruct (resolve_abs_cleaned f p follow Hac) as [fuel [Hfuel E]].
  rewrite E. clear E.
  pose proof (abs_comps_plain p (proj2 Hac)) as Hpl.
  destruct (f !! comps p) as [n|] eqn:El.
  - apply (walk_direct_found f follow n (comps p) fuel 0 []); try assumption.
    destruct Hside as [H|H]; [right; left; exact H|].
    right. right. intros m t En. subst n. exact (H m t El).
  - destruct (comps p) as [|c r] eqn:Ek.
    + destruct fuel as [|fuel]; [lia|]. rewrite walk_nil. norm_keys. rewrite El. reflexivity.
    + rewrite <- Ek in *.
      apply (walk_direct_missing f follow (comps p) fuel 0 []); try assumption.
      rewrite Ek. discriminate.
Qed.

Lemma resolve_direct_found : forall f p follow n,
  direct f p ->
  f !! comps p = Some n -> (forall m t, n <> Link m t) ->
  resolve f p follow = WFound (comps p) n.
Proof.
  intros f p follow n Hd Hn Hnl.
  rewrite resolve_direct; [rewrite Hn; reflexivity | exact Hd |].
  right. intros m t E. norm_keys. rewrite Hn in E. injection E as E. exact (Hnl m t E).
Qed.

Lemma resolve_direct_found_nofollow : forall f p n,
  direct f p ->
  f !! comps p = Some n ->
  resolve f p false = WFound (comps p) n.
Proof.
  intros f p n Hd Hn.
  rewrite resolve_direct; [rewrite Hn; reflexivity | exact Hd |].
  left. reflexivity.
Qed.

Lemma resolve_direct_missing : forall f p follow,
  direct f p ->
  comps p <> [] -> f !! comps p = None ->
  resolve f p follow = WMissing (removelast (comps p)) (last (comps p) []) false.
Proof.
  intros f p follow Hd Hne Hn.
  rewrite resolve_direct; [| exact Hd |].
  - rewrite Hn. destruct (comps p); [contradiction Hne; reflexivity | reflexivity].
  - right. intros m t E. norm_keys. rewrite Hn in E. discriminate E.
Qed.

Lemma resolve_direct_root_missing : forall f p follow,
  direct f p ->
  comps p = [] -> f !! comps p = None ->
  resolve f p follow = WErr ENOENT.
Proof.
  intros f p follow Hd Hk Hn.
  rewrite resolve_direct; [| exact Hd |].
  - rewrite Hn. rewrite Hk. reflexivity.
  - right. intros m t E. norm_keys. rewrite Hn in E. discriminate E.
Qed.

Lemma resolve_nolinkpar_notfound' : forall f p follow,
  is_dir_at f [] ->
  nolinkpar f p -> ~ direct f p ->
  exists e, resolve f p follow = WErr e /\ is_not_found e = true.
Proof.
  intros f p follow Hroot [Hac Hnl] Hnd.
  destruct (resolve_abs_cleaned f p follow Hac) as [fuel [Hfuel E]].
  rewrite E. clear E.
  apply walk_nolink_notfound; try assumption.
  - apply abs_comps_plain. exact (proj2 Hac).
  - intro H. apply Hnd. split; assumption.
Qed.

Lemma resolve_nolinkpar_notfound : forall f p follow,
  wf f ->
  nolinkpar f p -> ~ direct f p ->
  exists e, resolve f p follow = WErr e /\ is_not_found e = true.
Proof.
  intros f p follow [Hroot _]. apply resolve_nolinkpar_notfound'. exact Hroot.
Qed.

(** in a well-formed tree every proper prefix of a present key is a directory *)
Lemma wf_prefix_dir : forall f pre r n,
  wf f -> r <> [] -> f !! (pre ++ r) = Some n -> is_dir_at f pre.
Proof.
  intros f pre r. revert pre.
  induction r as [|x r IH] using rev_ind; intros pre n Hwf Hr Hn.
  - contradiction Hr. reflexivity.
  - destruct Hwf as [Hroot Hpar].
    assert (Hp : is_dir_at f (removelast (pre ++ r ++ [x]))).
    { apply (Hpar _ n Hn). intro E. apply app_eq_nil in E. destruct E as [_ E].
      apply app_eq_nil in E. destruct E as [_ E]. discriminate E. }
    rewrite app_assoc in Hp. rewrite removelast_last in Hp.
    destruct r as [|y r'].
    + rewrite app_nil_r in Hp. exact Hp.
    + destruct Hp as [m Hm]. apply (IH pre (Dir m)); [split; assumption | discriminate | exact Hm].
Qed.

Lemma wf_present_direct : forall f p n,
  wf f -> abs_cleaned p -> f !! comps p = Some n -> direct f p.
Proof.
  intros f p n Hwf Hac Hn. split; [exact Hac|].
  apply Forall_kprefixes. intros pre r Hr E. rewrite E in Hn.
  exact (wf_prefix_dir f pre r n Hwf Hr Hn).
Qed.

Lemma Forall_decidable : forall (A : Type) (P : A -> Prop) (l : list A),
  (forall x, P x \/ ~ P x) -> Forall P l \/ ~ Forall P l.
Proof.
  intros A P l Hdec. induction l as [|x l IH].
  - left. constructor.
  - destruct (Hdec x) as [Hx|Hx].
    + destruct IH as [Hl|Hl].
      * left. constructor; assumption.
      * right. intro H. inversion H; subst. contradiction.
    + right. intro H. inversion H; subst. contradiction.
Qed.

Lemma is_dir_at_decidable : forall (f : fs) k, is_dir_at f k \/ ~ is_dir_at f k.
Proof.
  intros f k. unfold is_dir_at. destruct (f !! k) as [[m|m d|m t]|].
  - left. exists m. reflexivity.
  - right. intros [m' E]. discriminate E.
  - right. intros [m' E]. discriminate E.
  - right. intros [m' E]. discriminate E.
Qed.

Lemma direct_decidable : forall f p, abs_cleaned p -> direct f p \/ ~ direct f p.
Proof.
  intros f p Hac.
  destruct (Forall_decidable key (is_dir_at f) (kprefixes (comps p)) (is_dir_at_decidable f)) as [H|H].
  - left. split; assumption.
  - right. intros [_ H']. contradiction.
Qed.

(* ------------------------------------------------------------------ *)
(** * C.14 Lookup / frame lemmas for the state transformers *)

Lemma tick_clock_eq : forall s,
  tick_clock s = (Now (st_clock s), mkFstate (st_fs s) (N.succ (st_clock s))).
Proof. reflexivity. Qed.

Lemma tick_clock_fs : forall s, st_fs (snd (tick_clock s)) = st_fs s.
Proof. reflexivity. Qed.

Lemma tick_clock_clock : forall s, st_clock (snd (tick_clock s)) = N.succ (st_clock s).
Proof. reflexivity. Qed.

(** ** [touch_dir] *)

Lemma touch_dir_lookup_ne : forall (f : fs) k t k',
  k' <> k -> touch_dir f k t !! k' = f !! k'.
Proof.
  intros f k t k' Hne. unfold touch_dir.
  destruct (f !! k) as [[m|m d|m l]|]; try reflexivity.
  apply lookup_insert_ne. congruence.
Qed.

Lemma touch_dir_lookup_eq : forall (f : fs) k t,
  touch_dir f k t !! k =
    match f !! k with
    | Some (Dir m) => Some (Dir (mkMeta (m_perm m) (m_uid m) (m_gid m) t))
    | o => o
    end.
Proof.
  intros f k t. unfold touch_dir.
  destruct (f !! k) as [[m|m d|m l]|] eqn:E; try exact E.
  apply lookup_insert.
Qed.

Lemma touch_dir_lookup_dir : forall (f : fs) k t m,
  f !! k = Some (Dir m) ->
  touch_dir f k t !! k = Some (Dir (mkMeta (m_perm m) (m_uid m) (m_gid m) t)).
Proof. intros f k t m H. rewrite touch_dir_lookup_eq. rewrite H. reflexivity. Qed.

Lemma touch_dir_nodir : forall (f : fs) k t,
  ~ is_dir_at f k -> touch_dir f k t = f.
Proof.
  intros f k t H. unfold touch_dir.
  destruct (f !! k) as [[m|m d|m l]|] eqn:E; try reflexivity.
  exfalso. apply H. exists m. exact E.
Qed.

Lemma touch_dir_lookup_None : forall (f : fs) k t k',
  touch_dir f k t !! k' = None <-> f !! k' = None.
Proof.
  intros f k t k'. destruct (decide (k' = k)) as [E|E].
  - subst k'. rewrite touch_dir_lookup_eq.
    destruct (f !! k) as [[m|m d|m l]|]; split; intro H; try discriminate H; reflexivity.
  - rewrite touch_dir_lookup_ne by exact E. reflexivity.
Qed.

(** ** [update_node] *)

Lemma update_node_fs : forall s k n, st_fs (update_node s k n) = <[ k := n ]> (st_fs s).
Proof. reflexivity. Qed.

Lemma update_node_clock : forall s k n, st_clock (update_node s k n) = st_clock s.
Proof. reflexivity. Qed.

Lemma update_node_lookup_eq : forall s k n, st_fs (update_node s k n) !! k = Some n.
Proof. intros s k n. apply lookup_insert. Qed.

Lemma update_node_lookup_ne : forall s k n k',
  k' <> k -> st_fs (update_node s k n) !! k' = st_fs s !! k'.
Proof. intros s k n k' Hne. apply lookup_insert_ne. congruence. Qed.

(** ** [add_entry] *)

Lemma add_entry_fs : forall s par name mk,
  st_fs (add_entry s par name mk) =
    touch_dir (<[ par ++ [name] := mk (Now (st_clock s)) (new_gid (st_fs s) par) ]> (st_fs s))
              par (Now (st_clock s)).
Proof. reflexivity. Qed.

Lemma add_entry_clock : forall s par name mk,
  st_clock (add_entry s par name mk) = N.succ (st_clock s).
Proof. reflexivity. Qed.

Lemma add_entry_lookup_new : forall s par name mk,
  st_fs (add_entry s par name mk) !! (par ++ [name]) =
    Some (mk (Now (st_clock s)) (new_gid (st_fs s) par)).
Proof.
  intros s par name mk. rewrite add_entry_fs.
  rewrite touch_dir_lookup_ne by apply snoc_neq. apply lookup_insert.
Qed.

Lemma add_entry_lookup_parent : forall s par name mk m,
  st_fs s !! par = Some (Dir m) ->
  st_fs (add_entry s par name mk) !! par =
    Some (Dir (mkMeta (m_perm m) (m_uid m) (m_gid m) (Now (st_clock s)))).
Proof.
  intros s par name mk m H. rewrite add_entry_fs.
  apply touch_dir_lookup_dir. rewrite lookup_insert_ne; [exact H|].
  apply snoc_neq.
Qed.

Lemma add_entry_lookup_other : forall s par name mk k',
  k' <> par ++ [name] -> k' <> par ->
  st_fs (add_entry s par name mk) !! k' = st_fs s !! k'.
Proof.
  intros s par name mk k' H1 H2. rewrite add_entry_fs.
  rewrite touch_dir_lookup_ne by exact H2. apply lookup_insert_ne. congruence.
Qed.

(** the same, phrased for the key [k] of the new entry (the form produced by
    the primitives: [add_entry s (removelast k) (last k []) mk]) *)
Lemma add_entry_last_lookup_new : forall s (k : key) mk,
  k <> [] ->
  st_fs (add_entry s (removelast k) (last k []) mk) !! k =
    Some (mk (Now (st_clock s)) (new_gid (st_fs s) (removelast k))).
Proof.
  intros s k mk Hne.
  pose proof (add_entry_lookup_new s (removelast k) (last k []) mk) as H.
  rewrite (removelast_last_snoc _ k [] Hne) in H. exact H.
Qed.

Lemma add_entry_last_lookup_parent : forall s (k : key) mk m,
  st_fs s !! removelast k = Some (Dir m) ->
  st_fs (add_entry s (removelast k) (last k []) mk) !! removelast k =
    Some (Dir (mkMeta (m_perm m) (m_uid m) (m_gid m) (Now (st_clock s)))).
Proof. intros s k mk m H. apply add_entry_lookup_parent. exact H. Qed.

Lemma add_entry_last_lookup_other : forall s (k : key) mk k',
  k <> [] -> k' <> k -> k' <> removelast k ->
  st_fs (add_entry s (removelast k) (last k []) mk) !! k' = st_fs s !! k'.
Proof.
  intros s k mk k' Hne H1 H2. apply add_entry_lookup_other; [|exact H2].
  rewrite (removelast_last_snoc _ k [] Hne). exact H1.
Qed.

(** ** [remove_entry] *)

Lemma remove_entry_fs : forall s k,
  st_fs (remove_entry s k) =
    touch_dir (base.delete k (st_fs s)) (removelast k) (Now (st_clock s)).
Proof. reflexivity. Qed.

Lemma remove_entry_clock : forall s k,
  st_clock (remove_entry s k) = N.succ (st_clock s).
Proof. reflexivity. Qed.

Lemma remove_entry_lookup_self : forall s k, st_fs (remove_entry s k) !! k = None.
Proof.
  intros s k. rewrite remove_entry_fs. apply touch_dir_lookup_None. apply lookup_delete.
Qed.

Lemma remove_entry_lookup_parent : forall s (k : key) m,
  k <> [] -> st_fs s !! removelast k = Some (Dir m) ->
  st_fs (remove_entry s k) !! removelast k =
    Some (Dir (mkMeta (m_perm m) (m_uid m) (m_gid m) (Now (st_clock s)))).
Proof.
  intros s k m Hne H. rewrite remove_entry_fs. apply touch_dir_lookup_dir.
  rewrite lookup_delete_ne; [exact H|]. intro E. symmetry in E. revert E.
  apply removelast_neq. exact Hne.
Qed.

Lemma remove_entry_lookup_other : forall s (k k' : key),
  k' <> k -> k' <> removelast k ->
  st_fs (remove_entry s k) !! k' = st_fs s !! k'.
Proof.
  intros s k k' H1 H2. rewrite remove_entry_fs.
  rewrite touch_dir_lookup_ne by exact H2. apply lookup_delete_ne. congruence.
Qed.

(** ** [delete_subtree] *)

Lemma delete_subtree_lookup : forall (f : fs) k k',
  delete_subtree f k !! k' = if key_prefixb k k' then None else f !! k'.
Proof.
  intros f k k'. unfold delete_subtree.
  destruct (key_prefixb k k') eqn:Ep.
  - apply map_filter_lookup_None. right. intros n _ H. simpl in H. congruence.
  - destruct (f !! k') as [n|] eqn:El.
    + apply map_filter_lookup_Some. split; [exact El | exact Ep].
    + apply map_filter_lookup_None. left. exact El.
Qed.

(* ------------------------------------------------------------------ *)
(** * C. Primitives on direct paths *)

(** ** C.8 [fs_lstat], [fs_stat] *)

Lemma fs_lstat_direct : forall s p,
  direct (st_fs s) p ->
  fs_lstat s p =
    match st_fs s !! comps p with
    | Some n => Ok (info_of (base p) n)
    | None => Err ENOENT
    end.
Proof.
  intros s p Hd. unfold fs_lstat.
  rewrite (resolve_direct _ p false Hd (or_introl eq_refl)).
  destruct (st_fs s !! comps p); [reflexivity|].
  destruct (comps p); reflexivity.
Qed.

Lemma fs_stat_direct : forall s p,
  direct (st_fs s) p ->
  not_link_at (st_fs s) (comps p) ->
  fs_stat s p =
    match st_fs s !! comps p with
    | Some n => Ok (info_of (base p) n)
    | None => Err ENOENT
    end.
Proof.
  intros s p Hd Hnl. unfold fs_stat.
  rewrite (resolve_direct _ p true Hd (or_intror Hnl)).
  destruct (st_fs s !! comps p); [reflexivity|].
  destruct (comps p); reflexivity.
Qed.

Lemma fs_lstat_nolinkpar_present : forall (f : fs) p n,
  wf f -> nolinkpar f p -> f !! comps p = Some n -> direct f p.
Proof. intros f p n Hwf [Hac _] Hn. exact (wf_present_direct f p n Hwf Hac Hn). Qed.

Lemma fs_lstat_nolinkpar_notfound : forall s p,
  wf (st_fs s) ->
  nolinkpar (st_fs s) p -> ~ direct (st_fs s) p ->
  exists e, fs_lstat s p = Err e /\ is_not_found e = true.
Proof.
  intros s p Hwf Hnl Hnd. unfold fs_lstat.
  destruct (resolve_nolinkpar_notfound (st_fs s) p false Hwf Hnl Hnd) as [e [E He]].
  rewrite E. exists e. split; [reflexivity | exact He].
Qed.

(** [Lstat] below link-free parents: the entry at the key, or a not-found error *)
Lemma fs_lstat_nolinkpar : forall s p,
  wf (st_fs s) -> nolinkpar (st_fs s) p ->
  match st_fs s !! comps p with
  | Some n => fs_lstat s p = Ok (info_of (base p) n)
  | None => exists e, fs_lstat s p = Err e /\ is_not_found e = true
  end.
Proof.
  intros s p Hwf Hnl.
  destruct (st_fs s !! comps p) as [n|] eqn:El.
  - pose proof (fs_lstat_nolinkpar_present _ p n Hwf Hnl El) as Hd.
    rewrite (fs_lstat_direct s p Hd). norm_keys. rewrite El. reflexivity.
  - destruct (direct_decidable (st_fs s) p (proj1 Hnl)) as [Hd|Hnd].
    + exists ENOENT. split; [|reflexivity].
      rewrite (fs_lstat_direct s p Hd). norm_keys. rewrite El. reflexivity.
    + apply fs_lstat_nolinkpar_notfound; assumption.
Qed.

(** ** C.9 [fs_readlink] *)

Lemma fs_readlink_direct : forall s p m t,
  direct (st_fs s) p ->
  st_fs s !! comps p = Some (Link m t) ->
  fs_readlink s p = Ok t.
Proof.
  intros s p m t Hd Hn. unfold fs_readlink.
  rewrite (resolve_direct_found_nofollow _ p _ Hd Hn). reflexivity.
Qed.

Lemma fs_readlink_direct_gen : forall s p,
  direct (st_fs s) p ->
  fs_readlink s p =
    match st_fs s !! comps p with
    | Some (Link _ t) => Ok t
    | Some _ => Err EINVAL
    | None => Err ENOENT
    end.
Proof.
  intros s p Hd. unfold fs_readlink.
  rewrite (resolve_direct _ p false Hd (or_introl eq_refl)).
  destruct (st_fs s !! comps p) as [[m|m d|m t]|]; try reflexivity.
  destruct (comps p); reflexivity.
Qed.

(** ** C.10 [fs_mkdir] *)

Lemma fs_mkdir_direct : forall s p perm,
  direct (st_fs s) p ->
  fs_mkdir s p perm =
    match st_fs s !! comps p with
    | Some _ => (Err EEXIST, s)
    | None =>
        match comps p with
        | [] => (Err ENOENT, s)
        | _ =>
            (Ok tt,
             add_entry s (removelast (comps p)) (last (comps p) [])
               (fun t g =>
                  Dir (mkMeta (N.lor (N.land perm 1023%N)
                                 (if parent_sgid (st_fs s) (removelast (comps p))
                                  then sgid_bit else 0%N)) 0%N g t)))
        end
    end.
Proof.
  intros s p perm Hd. unfold fs_mkdir.
  rewrite (strip_or_self_abs_cleaned p (proj1 Hd)).
  rewrite (resolve_direct _ p false Hd (or_introl eq_refl)).
  destruct (st_fs s !! comps p); [reflexivity|].
  destruct (comps p); reflexivity.
Qed.

Lemma fs_mkdir_direct_missing : forall s p perm,
  direct (st_fs s) p ->
  comps p <> [] -> st_fs s !! comps p = None ->
  fs_mkdir s p perm =
    (Ok tt,
     add_entry s (removelast (comps p)) (last (comps p) [])
       (fun t g =>
          Dir (mkMeta (N.lor (N.land perm 1023%N)
                         (if parent_sgid (st_fs s) (removelast (comps p))
                          then sgid_bit else 0%N)) 0%N g t))).
Proof.
  intros s p perm Hd Hne Hn. rewrite (fs_mkdir_direct s p perm Hd).
  rewrite Hn. destruct (comps p); [contradiction Hne; reflexivity | reflexivity].
Qed.

Lemma fs_mkdir_direct_exists : forall s p perm n,
  direct (st_fs s) p ->
  st_fs s !! comps p = Some n ->
  fs_mkdir s p perm = (Err EEXIST, s).
Proof.
  intros s p perm n Hd Hn. rewrite (fs_mkdir_direct s p perm Hd).
  rewrite Hn. reflexivity.
Qed.

(** ** C.11 [fs_symlink], [fs_chmod], [fs_chown], [fs_lchown], [fs_chtimes] *)

Lemma fs_symlink_direct : forall s target p,
  direct (st_fs s) p -> target <> [] ->
  fs_symlink s target p =
    match st_fs s !! comps p with
    | Some _ => (Err EEXIST, s)
    | None =>
        match comps p with
        | [] => (Err ENOENT, s)
        | _ =>
            (Ok tt,
             add_entry s (removelast (comps p)) (last (comps p) [])
               (fun t g => Link (mkMeta 511%N 0%N g t) target))
        end
    end.
Proof.
  intros s target p Hd Ht. unfold fs_symlink.
  destruct target as [|x target']; [contradiction Ht; reflexivity|].
  rewrite (strip_or_self_abs_cleaned p (proj1 Hd)).
  rewrite (resolve_direct _ p false Hd (or_introl eq_refl)).
  rewrite str_eqb_refl.
  destruct (st_fs s !! comps p); [reflexivity|].
  destruct (comps p); reflexivity.
Qed.

Lemma fs_symlink_direct_missing : forall s target p,
  direct (st_fs s) p -> target <> [] ->
  comps p <> [] -> st_fs s !! comps p = None ->
  fs_symlink s target p =
    (Ok tt,
     add_entry s (removelast (comps p)) (last (comps p) [])
       (fun t g => Link (mkMeta 511%N 0%N g t) target)).
Proof.
  intros s target p Hd Ht Hne Hn. rewrite (fs_symlink_direct s target p Hd Ht).
  rewrite Hn. destruct (comps p); [contradiction Hne; reflexivity | reflexivity].
Qed.

Lemma fs_symlink_direct_exists : forall s target p n,
  direct (st_fs s) p -> target <> [] ->
  st_fs s !! comps p = Some n ->
  fs_symlink s target p = (Err EEXIST, s).
Proof.
  intros s target p n Hd Ht Hn. rewrite (fs_symlink_direct s target p Hd Ht).
  rewrite Hn. reflexivity.
Qed.

Lemma fs_chmod_direct : forall s p mode,
  direct (st_fs s) p ->
  not_link_at (st_fs s) (comps p) ->
  fs_chmod s p mode =
    match st_fs s !! comps p with
    | Some n =>
        (Ok tt,
         update_node s (comps p)
           (set_meta n (mkMeta (N.land mode 4095%N) (m_uid (node_meta n))
                               (m_gid (node_meta n)) (m_mt (node_meta n)))))
    | None => (Err ENOENT, s)
    end.
Proof.
  intros s p mode Hd Hnl. unfold fs_chmod.
  rewrite (resolve_direct _ p true Hd (or_intror Hnl)).
  destruct (st_fs s !! comps p); [reflexivity|].
  destruct (comps p); reflexivity.
Qed.

Lemma fs_chown_direct : forall s p uid gid,
  direct (st_fs s) p ->
  not_link_at (st_fs s) (comps p) ->
  fs_chown s p uid gid =
    match st_fs s !! comps p with
    | Some n => (Ok tt, update_node s (comps p) (chown_node n uid gid))
    | None => (Err ENOENT, s)
    end.
Proof.
  intros s p uid gid Hd Hnl. unfold fs_chown, fs_chown_gen.
  rewrite (resolve_direct _ p true Hd (or_intror Hnl)).
  destruct (st_fs s !! comps p); [reflexivity|].
  destruct (comps p); reflexivity.
Qed.

Lemma fs_lchown_direct : forall s p uid gid,
  direct (st_fs s) p ->
  fs_lchown s p uid gid =
    match st_fs s !! comps p with
    | Some n => (Ok tt, update_node s (comps p) (chown_node n uid gid))
    | None => (Err ENOENT, s)
    end.
Proof.
  intros s p uid gid Hd. unfold fs_lchown, fs_chown_gen.
  rewrite (resolve_direct _ p false Hd (or_introl eq_refl)).
  destruct (st_fs s !! comps p); [reflexivity|].
  destruct (comps p); reflexivity.
Qed.

Lemma fs_chtimes_direct : forall s p t,
  direct (st_fs s) p ->
  not_link_at (st_fs s) (comps p) ->
  fs_chtimes s p t =
    match st_fs s !! comps p with
    | Some n =>
        (Ok tt,
         update_node s (comps p)
           (set_meta n (mkMeta (m_perm (node_meta n)) (m_uid (node_meta n))
                               (m_gid (node_meta n)) t)))
    | None => (Err ENOENT, s)
    end.
Proof.
  intros s p t Hd Hnl. unfold fs_chtimes.
  rewrite (resolve_direct _ p true Hd (or_intror Hnl)).
  destruct (st_fs s !! comps p); [reflexivity|].
  destruct (comps p); reflexivity.
Qed.

(** ** C.12 [fs_unlink], [fs_rmdir], [fs_remove], [fs_removeall] *)

Lemma slashed_link_abs_cleaned : forall s p, abs_cleaned p -> slashed_link s p = false.
Proof.
  intros s p Hac. unfold slashed_link. destruct (comps p) as [|c r] eqn:E.
  - rewrite (abs_cleaned_root p Hac E). reflexivity.
  - rewrite strip_trailing_seps_abs_cleaned; [| exact Hac | rewrite E; discriminate].
    rewrite str_eqb_refl. reflexivity.
Qed.

Lemma fs_unlink_direct : forall s p,
  direct (st_fs s) p ->
  fs_unlink s p =
    match st_fs s !! comps p with
    | Some (Dir _) => (Err EISDIR, s)
    | Some _ => (Ok tt, remove_entry s (comps p))
    | None => (Err ENOENT, s)
    end.
Proof.
  intros s p Hd. unfold fs_unlink.
  rewrite (slashed_link_abs_cleaned s p (proj1 Hd)).
  rewrite (resolve_direct _ p false Hd (or_introl eq_refl)).
  destruct (st_fs s !! comps p) as [[m|m d|m t]|]; try reflexivity.
  destruct (comps p); reflexivity.
Qed.

Lemma fs_rmdir_direct : forall s p,
  direct (st_fs s) p ->
  fs_rmdir s p =
    match st_fs s !! comps p with
    | Some (Dir _) =>
        match comps p with
        | [] => (Err EBUSY, s)
        | _ => if has_children (st_fs s) (comps p) then (Err ENOTEMPTY, s)
               else (Ok tt, remove_entry s (comps p))
        end
    | Some _ => (Err ENOTDIR, s)
    | None => (Err ENOENT, s)
    end.
Proof.
  intros s p Hd. unfold fs_rmdir.
  rewrite (slashed_link_abs_cleaned s p (proj1 Hd)).
  rewrite (resolve_direct _ p false Hd (or_introl eq_refl)).
  destruct (st_fs s !! comps p) as [[m|m d|m t]|]; try reflexivity.
  destruct (comps p); reflexivity.
Qed.

Lemma fs_remove_direct : forall s p,
  direct (st_fs s) p ->
  fs_remove s p =
    match st_fs s !! comps p with
    | Some (Dir _) =>
        match comps p with
        | [] => (Err EBUSY, s)
        | _ => if has_children (st_fs s) (comps p) then (Err ENOTEMPTY, s)
               else (Ok tt, remove_entry s (comps p))
        end
    | Some _ => (Ok tt, remove_entry s (comps p))
    | None => (Err ENOENT, s)
    end.
Proof.
  intros s p Hd. unfold fs_remove.
  rewrite (fs_unlink_direct s p Hd), (fs_rmdir_direct s p Hd).
  destruct (st_fs s !! comps p) as [[m|m d|m t]|]; try reflexivity.
  destruct (comps p) as [|c r]; [reflexivity|].
  destruct (has_children (st_fs s) (c :: r)); reflexivity.
Qed.

Lemma fs_remove_direct_nondir : forall s p n,
  direct (st_fs s) p ->
  st_fs s !! comps p = Some n -> is_dir n = false ->
  fs_remove s p = (Ok tt, remove_entry s (comps p)).
Proof.
  intros s p n Hd Hn Hnd. rewrite (fs_remove_direct s p Hd). rewrite Hn.
  destruct n; [discriminate Hnd | reflexivity | reflexivity].
Qed.

Lemma fs_remove_direct_emptydir : forall s p m,
  direct (st_fs s) p ->
  st_fs s !! comps p = Some (Dir m) -> comps p <> [] ->
  has_children (st_fs s) (comps p) = false ->
  fs_remove s p = (Ok tt, remove_entry s (comps p)).
Proof.
  intros s p m Hd Hn Hne Hc. rewrite (fs_remove_direct s p Hd). rewrite Hn.
  rewrite Hc. destruct (comps p); [contradiction Hne; reflexivity | reflexivity].
Qed.

Lemma fs_remove_direct_nonempty : forall s p m,
  direct (st_fs s) p ->
  st_fs s !! comps p = Some (Dir m) -> comps p <> [] ->
  has_children (st_fs s) (comps p) = true ->
  fs_remove s p = (Err ENOTEMPTY, s).
Proof.
  intros s p m Hd Hn Hne Hc. rewrite (fs_remove_direct s p Hd). rewrite Hn.
  rewrite Hc. destruct (comps p); [contradiction Hne; reflexivity | reflexivity].
Qed.

Lemma fs_remove_direct_missing : forall s p,
  direct (st_fs s) p ->
  st_fs s !! comps p = None ->
  fs_remove s p = (Err ENOENT, s).
Proof.
  intros s p Hd Hn. rewrite (fs_remove_direct s p Hd). rewrite Hn. reflexivity.
Qed.

Lemma fs_removeall_direct : forall s p,
  direct (st_fs s) p ->
  fs_removeall s p =
    match st_fs s !! comps p with
    | Some _ =>
        match comps p with
        | [] => (Err EBUSY, s)
        | _ =>
            (Ok tt,
             mkFstate (touch_dir (delete_subtree (st_fs s) (comps p))
                                 (removelast (comps p)) (Now (st_clock s)))
                      (N.succ (st_clock s)))
        end
    | None => (Ok tt, s)
    end.
Proof.
  intros s p Hd. unfold fs_removeall.
  pose proof (abs_cleaned_nonempty p (proj1 Hd)) as Hne.
  destruct p as [|x p']; [contradiction Hne; reflexivity|].
  rewrite (resolve_direct _ _ false Hd (or_introl eq_refl)).
  destruct (st_fs s !! comps (x :: p')); [|destruct (comps (x :: p')); reflexivity].
  destruct (comps (x :: p')); reflexivity.
Qed.

(** ** C.13 [fs_open] *)

Lemma open_slash_guard : forall p b,
  abs_cleaned p ->
  b && negb (str_eqb (strip_trailing_seps p) p)
    && negb (str_eqb (strip_trailing_seps p) []) = false.
Proof.
  intros p b Hac. destruct (comps p) as [|c r] eqn:E.
  - rewrite (abs_cleaned_root p Hac E). destruct b; reflexivity.
  - rewrite strip_trailing_seps_abs_cleaned; [| exact Hac | rewrite E; discriminate].
    rewrite str_eqb_refl. destruct b; reflexivity.
Qed.

Lemma fs_open_direct : forall s p fl perm,
  direct (st_fs s) p ->
  (o_creat fl && o_excl fl = true \/ not_link_at (st_fs s) (comps p)) ->
  fs_open s p fl perm =
    match st_fs s !! comps p with
    | Some n =>
        if o_creat fl && o_excl fl then (Err EEXIST, s)
        else
          match n with
          | Dir _ =>
              if o_wronly fl || o_rdwr fl || o_creat fl || o_trunc fl then (Err EISDIR, s)
              else (Ok (mkHandle (comps p) 0%N false true false true p), s)
          | File m c =>
              if o_trunc fl then
                (Ok (mkHandle (comps p) 0%N (o_wronly fl || o_rdwr fl) (negb (o_wronly fl))
                              (o_append fl) false p),
                 update_node (mkFstate (st_fs s) (N.succ (st_clock s))) (comps p)
                   (File (mkMeta (m_perm m) (m_uid m) (m_gid m) (Now (st_clock s))) []))
              else
                (Ok (mkHandle (comps p) 0%N (o_wronly fl || o_rdwr fl) (negb (o_wronly fl))
                              (o_append fl) false p), s)
          | Link _ _ => (Err ELOOP, s)
          end
    | None =>
        match comps p with
        | [] => (Err ENOENT, s)
        | _ =>
            if o_creat fl then
              (Ok (mkHandle (comps p) 0%N (o_wronly fl || o_rdwr fl) (negb (o_wronly fl))
                            (o_append fl) false p),
               add_entry s (removelast (comps p)) (last (comps p) [])
                 (fun t g => File (mkMeta (N.land perm 4095%N) 0%N g t) []))
            else (Err ENOENT, s)
        end
    end.
Proof.
  intros s p fl perm Hd Hside. unfold fs_open. cbv zeta.
  rewrite (open_slash_guard p (o_creat fl) (proj1 Hd)).
  assert (Hside' : negb (o_creat fl && o_excl fl) = false \/ not_link_at (st_fs s) (comps p)).
  { destruct Hside as [H|H]; [left; rewrite H; reflexivity | right; exact H]. }
  rewrite (resolve_direct _ p _ Hd Hside').
  destruct (st_fs s !! comps p) as [n|].
  - destruct (o_creat fl && o_excl fl); [reflexivity|].
    destruct n as [m|m c|m t]; reflexivity.
  - destruct (comps p) as [|c r] eqn:Ek; [reflexivity|].
    destruct (o_creat fl); [|reflexivity].
    rewrite (removelast_last_snoc _ (c :: r) []) by discriminate. reflexivity.
Qed.

(** [os.Create] / O_RDWR|O_CREATE|O_TRUNC *)
Lemma fs_open_direct_create_missing : forall s p perm,
  direct (st_fs s) p ->
  comps p <> [] -> st_fs s !! comps p = None ->
  fs_open s p 578%N perm =
    (Ok (mkHandle (comps p) 0%N true true false false p),
     add_entry s (removelast (comps p)) (last (comps p) [])
       (fun t g => File (mkMeta (N.land perm 4095%N) 0%N g t) [])).
Proof.
  intros s p perm Hd Hne Hn.
  rewrite (fs_open_direct s p 578%N perm Hd).
  - rewrite Hn. destruct (comps p); [contradiction Hne; reflexivity | reflexivity].
  - right. intros m t E. norm_keys. rewrite Hn in E. discriminate E.
Qed.

Lemma fs_open_direct_create_file : forall s p perm m c,
  direct (st_fs s) p ->
  st_fs s !! comps p = Some (File m c) ->
  fs_open s p 578%N perm =
    (Ok (mkHandle (comps p) 0%N true true false false p),
     update_node (mkFstate (st_fs s) (N.succ (st_clock s))) (comps p)
       (File (mkMeta (m_perm m) (m_uid m) (m_gid m) (Now (st_clock s))) [])).
Proof.
  intros s p perm m c Hd Hn.
  rewrite (fs_open_direct s p 578%N perm Hd).
  - rewrite Hn. reflexivity.
  - right. intros m' t E. norm_keys. rewrite Hn in E. discriminate E.
Qed.

Lemma fs_open_direct_create_dir : forall s p perm m,
  direct (st_fs s) p ->
  st_fs s !! comps p = Some (Dir m) ->
  fs_open s p 578%N perm = (Err EISDIR, s).
Proof.
  intros s p perm m Hd Hn.
  rewrite (fs_open_direct s p 578%N perm Hd).
  - rewrite Hn. reflexivity.
  - right. intros m' t E. norm_keys. rewrite Hn in E. discriminate E.
Qed.

(** [os.Open] / O_RDONLY *)
Lemma fs_open_direct_rdonly_file : forall s p perm m c,
  direct (st_fs s) p ->
  st_fs s !! comps p = Some (File m c) ->
  fs_open s p 0%N perm = (Ok (mkHandle (comps p) 0%N false true false false p), s).
Proof.
  intros s p perm m c Hd Hn.
  rewrite (fs_open_direct s p 0%N perm Hd).
  - rewrite Hn. reflexivity.
  - right. intros m' t E. norm_keys. rewrite Hn in E. discriminate E.
Qed.

Lemma fs_open_direct_rdonly_dir : forall s p perm m,
  direct (st_fs s) p ->
  st_fs s !! comps p = Some (Dir m) ->
  fs_open s p 0%N perm = (Ok (mkHandle (comps p) 0%N false true false true p), s).
Proof.
  intros s p perm m Hd Hn.
  rewrite (fs_open_direct s p 0%N perm Hd).
  - rewrite Hn. reflexivity.
  - right. intros m' t E. norm_keys. rewrite Hn in E. discriminate E.
Qed.

Lemma fs_open_direct_rdonly_missing : forall s p perm,
  direct (st_fs s) p ->
  st_fs s !! comps p = None ->
  fs_open s p 0%N perm = (Err ENOENT, s).
Proof.
  intros s p perm Hd Hn.
  rewrite (fs_open_direct s p 0%N perm Hd).
  - rewrite Hn. destruct (comps p); reflexivity.
  - right. intros m' t E. norm_keys. rewrite Hn in E. discriminate E.
Qed.

(* ------------------------------------------------------------------ *)
(** * C.15 [fs_mkdirall] on direct paths *)

Lemma join_sep_snoc : forall cs c,
  cs <> [] -> join_sep (cs ++ [c]) = join_sep cs ++ sep :: c.
Proof.
  induction cs as [|x cs IH]; intros c Hne.
  - contradiction Hne. reflexivity.
  - destruct cs as [|y cs].
    + reflexivity.
    + change ((x :: y :: cs) ++ [c]) with (x :: ((y :: cs) ++ [c])).
      rewrite join_sep_cons by (simpl; discriminate).
      rewrite IH by discriminate.
      rewrite (join_sep_cons x (y :: cs)) by discriminate.
      rewrite <- app_assoc. reflexivity.
Qed.

Lemma upto_last_sep_cons : forall c r,
  upto_last_sep (c :: r) =
    match upto_last_sep r with
    | [] => if N.eqb c sep then [c] else []
    | l => c :: l
    end.
Proof. reflexivity. Qed.

Lemma upto_last_sep_nosep : forall c, nosep c -> upto_last_sep c = [].
Proof.
  induction c as [|x c IH]; intro H.
  - reflexivity.
  - apply nosep_cons in H. destruct H as [Hx Hc].
    rewrite upto_last_sep_cons. rewrite (IH Hc).
    apply N.eqb_neq in Hx. rewrite Hx. reflexivity.
Qed.

Lemma upto_last_sep_app_sep : forall a c,
  nosep c -> upto_last_sep (a ++ sep :: c) = a ++ [sep].
Proof.
  induction a as [|x a IH]; intros c Hc.
  - change ([] ++ sep :: c) with (sep :: c). rewrite upto_last_sep_cons.
    rewrite (upto_last_sep_nosep c Hc). reflexivity.
  - change ((x :: a) ++ sep :: c) with (x :: (a ++ sep :: c)).
    rewrite upto_last_sep_cons. rewrite (IH c Hc).
    change ((x :: a) ++ [sep]) with (x :: (a ++ [sep])).
    destruct (a ++ [sep]) as [|y l] eqn:E; [|reflexivity].
    apply app_eq_nil in E. destruct E as [_ E]. discriminate E.
Qed.

(** the parent string [MkdirAll] recurses on: "/a/b/" for "/a/b/c", "/" for "/c" *)
Lemma upto_last_sep_abs_cleaned : forall p,
  abs_cleaned p -> comps p <> [] ->
  upto_last_sep p = sep :: join_sep (removelast (comps p) ++ [[]]).
Proof.
  intros p Hac Hne. pose proof (abs_cleaned_eq p Hac) as Ep.
  pose proof (comps_good p) as Hg.
  destruct (exists_last Hne) as [init [c Ek]].
  rewrite Ek in Ep, Hg. rewrite Ek. rewrite removelast_last.
  apply Forall_app in Hg. destruct Hg as [_ Hc].
  inversion Hc as [|c' l' [_ [_ Hns]] _]; subst c' l'.
  rewrite Ep. destruct init as [|x init].
  - change (sep :: join_sep ([] ++ [c])) with ([] ++ sep :: c).
    rewrite (upto_last_sep_app_sep [] c Hns). reflexivity.
  - rewrite !join_sep_snoc by discriminate.
    change (sep :: join_sep (x :: init) ++ sep :: c)
      with ((sep :: join_sep (x :: init)) ++ sep :: c).
    rewrite (upto_last_sep_app_sep _ c Hns). reflexivity.
Qed.

(** walking through directories to a directory, with a trailing separator *)
Lemma walk_dirs_slash : forall f follow cs fuel hops cur m,
  Forall plain_comp cs -> dirs_below f cur cs ->
  f !! (cur ++ cs) = Some (Dir m) -> length cs + 2 <= fuel ->
  walk fuel f hops cur (cs ++ [[]]) follow = WFound (cur ++ cs) (Dir m).
Proof.
  intros f follow cs fuel hops cur m Hpl Hd Hm Hfuel.
  destruct cs as [|c cs].
  - destruct fuel as [|[|fuel]]; [simpl in Hfuel; lia | simpl in Hfuel; lia |].
    change ([] ++ [[]]) with ([[]] : list str).
    rewrite walk_trivial by reflexivity. rewrite walk_nil.
    rewrite app_nil_r in *. norm_keys. rewrite Hm. reflexivity.
  - assert (Ef : fuel = length (c :: cs) + (fuel - length (c :: cs))) by lia.
    rewrite Ef.
    rewrite (walk_dirs_app f follow (c :: cs) _ hops cur [[]] Hpl Hd);
      [| exists m; exact Hm | discriminate].
    destruct (fuel - length (c :: cs)) as [|[|fuel']] eqn:E; [lia | lia |].
    rewrite walk_trivial by reflexivity. rewrite walk_nil.
    norm_keys. rewrite Hm. reflexivity.
Qed.

Lemma fs_mkdirall_aux_S : forall fuel s p perm,
  fs_mkdirall_aux (S fuel) s p perm =
    match fs_stat s p with
    | Ok fi => match fi_kind fi with KDir => (Ok tt, s) | _ => (Err ENOTDIR, s) end
    | Err _ =>
        let parent := removelast (upto_last_sep (strip_trailing_seps p)) in
        let '(r, s1) :=
          match parent with
          | [] => (Ok tt, s)
          | _ => fs_mkdirall_aux fuel s parent perm
          end in
        match r with
        | Err e => (Err e, s1)
        | Ok _ =>
            let '(r2, s2) := fs_mkdir s1 p perm in
            match r2 with
            | Ok _ => (Ok tt, s2)
            | Err e =>
                match fs_lstat s2 p with
                | Ok fi => match fi_kind fi with KDir => (Ok tt, s2) | _ => (Err e, s2) end
                | Err _ => (Err e, s2)
                end
            end
        end
    end.
Proof. reflexivity. Qed.

(** [Stat] of the parent string of a direct path *)
Lemma fs_stat_parent_string : forall s p,
  direct (st_fs s) p -> comps p <> [] ->
  exists m,
    fs_stat s (upto_last_sep p) = Ok (info_of (base (upto_last_sep p)) (Dir m)).
Proof.
  intros s p Hd Hne.
  pose proof (direct_parent_dir _ p Hd Hne) as [m Hm]. exists m.
  rewrite (upto_last_sep_abs_cleaned p (proj1 Hd) Hne).
  set (init := removelast (comps p)) in *.
  assert (Hk : comps p = init ++ [last (comps p) []]).
  { apply app_removelast_last. exact Hne. }
  assert (Hpl : Forall plain_comp init).
  { pose proof (abs_comps_plain p (proj2 (proj1 Hd))) as H. rewrite Hk in H.
    apply Forall_app in H. exact (proj1 H). }
  assert (Hdi : dirs_below (st_fs s) [] init).
  { destruct Hd as [_ Hd]. rewrite Hk in Hd. rewrite kprefixes_snoc in Hd.
    apply Forall_app in Hd. exact (proj1 Hd). }
  unfold fs_stat, resolve.
  assert (Es : split_sep (sep :: join_sep (init ++ [[]])) = [] :: init ++ [[]]).
  { change (split_sep (sep :: join_sep (init ++ [[]])))
      with ([] :: split_sep (join_sep (init ++ [[]]))).
    rewrite split_join; [reflexivity | |].
    - intro E. apply app_eq_nil in E. destruct E as [_ E]. discriminate E.
    - apply Forall_app. split.
      + pose proof (comps_good p) as Hg. rewrite Hk in Hg.
        apply Forall_app in Hg. apply Forall_good_nosep. exact (proj1 Hg).
      + constructor; [apply nosep_nil | constructor]. }
  assert (Hli : length init + 3 < walk_fuel + length (sep :: join_sep (init ++ [[]]))).
  { pose proof (split_sep_length_le (sep :: join_sep (init ++ [[]]))) as Hsl.
    rewrite Es in Hsl. simpl length in Hsl. rewrite app_length in Hsl. simpl in Hsl.
    rewrite walk_fuel_eq. simpl length. lia. }
  rewrite Es. clear Es.
  revert Hli. generalize (walk_fuel + length (sep :: join_sep (init ++ [[]]))). intros F Hli.
  destruct F as [|F]; [lia|].
  rewrite walk_trivial by reflexivity.
  rewrite (walk_dirs_slash (st_fs s) true init F 0 [] m Hpl Hdi Hm) by lia.
  reflexivity.
Qed.

Lemma fs_mkdirall_direct_dir : forall s p perm m,
  direct (st_fs s) p ->
  st_fs s !! comps p = Some (Dir m) ->
  fs_mkdirall s p perm = (Ok tt, s).
Proof.
  intros s p perm m Hd Hn. unfold fs_mkdirall. rewrite fs_mkdirall_aux_S.
  rewrite (fs_stat_direct s p Hd).
  - rewrite Hn. reflexivity.
  - intros m' t E. norm_keys. rewrite Hn in E. discriminate E.
Qed.

Lemma fs_mkdirall_direct_file : forall s p perm m c,
  direct (st_fs s) p ->
  st_fs s !! comps p = Some (File m c) ->
  fs_mkdirall s p perm = (Err ENOTDIR, s).
Proof.
  intros s p perm m c Hd Hn. unfold fs_mkdirall. rewrite fs_mkdirall_aux_S.
  rewrite (fs_stat_direct s p Hd).
  - rewrite Hn. reflexivity.
  - intros m' t E. norm_keys. rewrite Hn in E. discriminate E.
Qed.

(** the parent string [os.MkdirAll] recurses on (the name up to, not
    including, the last separator) *)
Lemma parent_string_abs_cleaned : forall p,
  abs_cleaned p -> comps p <> [] ->
  removelast (upto_last_sep p) =
    match removelast (comps p) with [] => [] | k => kpath k end.
Proof.
  intros p Hac Hne. rewrite (upto_last_sep_abs_cleaned p Hac Hne).
  destruct (removelast (comps p)) as [|x init] eqn:E.
  - reflexivity.
  - rewrite join_sep_snoc by discriminate.
    change (sep :: join_sep (x :: init) ++ sep :: [])
      with ((sep :: join_sep (x :: init)) ++ [sep]).
    rewrite removelast_last. reflexivity.
Qed.

Lemma direct_parent_direct : forall f p,
  direct f p -> comps p <> [] ->
  direct f (kpath (removelast (comps p))) /\
  comps (kpath (removelast (comps p))) = removelast (comps p).
Proof.
  intros f p Hd Hne.
  destruct (exists_last Hne) as [init [c Ek]].
  pose proof (comps_good p) as Hg. rewrite Ek in Hg. apply Forall_app in Hg.
  pose proof (abs_comps_no_dotdot p (proj2 (proj1 Hd))) as Hnd. rewrite Ek in Hnd.
  assert (Hnd' : ~ In s_dotdot init).
  { intro H. apply Hnd. apply in_or_app. left. exact H. }
  rewrite Ek. rewrite removelast_last.
  pose proof (comps_kpath init (proj1 Hg) Hnd') as Ec.
  split; [| exact Ec].
  split; [apply kpath_abs_cleaned; [exact (proj1 Hg) | exact Hnd'] |].
  rewrite Ec. destruct Hd as [_ Hd]. rewrite Ek in Hd. rewrite kprefixes_snoc in Hd.
  apply Forall_app in Hd. exact (proj1 Hd).
Qed.

(** all ancestors exist: [MkdirAll] is [Mkdir] *)
Lemma fs_mkdirall_direct_missing : forall s p perm,
  direct (st_fs s) p ->
  comps p <> [] -> st_fs s !! comps p = None ->
  fs_mkdirall s p perm = fs_mkdir s p perm.
Proof.
  intros s p perm Hd Hne Hn. unfold fs_mkdirall. rewrite fs_mkdirall_aux_S.
  rewrite (fs_stat_direct s p Hd);
    [| intros m' t E; norm_keys; rewrite Hn in E; discriminate E].
  rewrite Hn.
  rewrite (strip_trailing_seps_abs_cleaned p (proj1 Hd) Hne).
  cbv zeta.
  rewrite (parent_string_abs_cleaned p (proj1 Hd) Hne).
  pose proof (direct_parent_dir _ p Hd Hne) as [m Hm].
  destruct (direct_parent_direct _ p Hd Hne) as [Hdp Ecp].
  pose proof (abs_cleaned_nonempty p (proj1 Hd)) as Hpne.
  destruct p as [|y p']; [contradiction Hpne; reflexivity|].
  change (length (y :: p')) with (S (length p')).
  destruct (removelast (comps (y :: p'))) as [|x init] eqn:Ei.
  - rewrite (fs_mkdir_direct_missing s (y :: p') perm Hd Hne Hn). reflexivity.
  - pose proof (abs_cleaned_nonempty _ (proj1 Hdp)) as Hkne.
    destruct (kpath (x :: init)) as [|z q] eqn:Ek; [contradiction Hkne; reflexivity|].
    rewrite fs_mkdirall_aux_S.
    rewrite (fs_stat_direct s (z :: q) Hdp);
      [| intros m' t E; norm_keys; rewrite Ecp in E; rewrite Hm in E; discriminate E].
    norm_keys. rewrite Ecp. rewrite Hm. cbv iota beta. simpl fi_kind. cbv iota.
    rewrite (fs_mkdir_direct_missing s (y :: p') perm Hd Hne Hn). reflexivity.
Qed.

Lemma fs_mkdirall_direct_missing_eq : forall s p perm,
  direct (st_fs s) p ->
  comps p <> [] -> st_fs s !! comps p = None ->
  fs_mkdirall s p perm =
    (Ok tt,
     add_entry s (removelast (comps p)) (last (comps p) [])
       (fun t g =>
          Dir (mkMeta (N.lor (N.land perm 1023%N)
                         (if parent_sgid (st_fs s) (removelast (comps p))
                          then sgid_bit else 0%N)) 0%N g t))).
Proof.
  intros s p perm Hd Hne Hn.
  rewrite (fs_mkdirall_direct_missing s p perm Hd Hne Hn).
  apply fs_mkdir_direct_missing; assumption.
Qed.
