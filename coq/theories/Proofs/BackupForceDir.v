(** [ForceBackup] of a path that WAS a directory when the transaction began
    (property C17, the case excluded from Proofs/BackupForce.v by
    [orig_not_dir_cond]: "otherwise the walk branch runs").

    The property is about a path p that is not a directory at the moment of
    the ForceBackup call - but p may have been a directory when the
    transaction began: it is tracked as an existing directory, its copy in
    the backup is a directory with the copies of its former content below
    it, and p itself has been removed (or, recorded finding D13, replaced by
    a file or a symlink) since.  Then [try_remove_backup] takes its Walk
    branch: Lstat of the copy, Walk over the backup subtree removing every
    non-directory (and dropping its record) and collecting the directories,
    then RemoveAll and [delete_info] for each collected directory, deepest
    first.

    T1, [try_remove_backup_walk_spec] (over the laws of ONE filesystem
    [a] with view [V], next to another view [V']; no invariant needed): for
    p <> "/" recorded as existing whose entry in [V] is a directory,
    [try_remove_backup a p] does not halt; whatever it returns, there is a
    list [D] of entries at or below p that are gone from [V] together with
    their records, and nothing else has changed
    ([removed_with_records V V' w w' D]: quiet, [V w'] well formed and equal
    to [V w] outside [D] (directory timestamps aside), [V'] untouched, the
    records outside [D] as they were); when it returns nil, [D] is ALL the
    entries of [V w] at or below p.  In a state of a transaction
    ([try_remove_backup_dir_spec]) [D] consists of tracked originals, so:
    the records of p and of every tracked original below p are dropped; a
    record "did not exist" below p has no copy, the Walk never meets it, and
    it SURVIVES; the base view is untouched.  It can only fail with the error
    of a listing or when the Walk exceeds its budget ([tree_fuel] levels).

    T2, [force_backup_dir_spec] ([force_backup_dir_stmt],
    [force_backup_dir_concl]): in a state [w] with [InvD Vb Vk B0 p w] - the
    invariant [Inv] of Spec/Inv.v except that [inv_kind] is not asked of p
    itself ([Inv_InvD]: [Inv] implies it) - for a resolved p <> "/" tracked
    as an existing directory whose current entry is [entry_ok] (absent, a
    small file, an acceptable symlink: not a directory), ForceBackup(p) does
    not halt, leaves the base view alone, and
    - either fails with the error with which the removal of the old copies
      failed ([rm_failed]: only copies at or below p are gone, with their
      records),
    - or ends - nil or error - in a state that satisfies [Inv] OUTRIGHT for
      the new baseline

          [prune B0 p (Vb w !! p)]  =  B0 without everything at or below p,
                                       and the current entry (if any) at p,

      which is again well formed, [links_ok], [all_small].  Records outside
      the former subtree are kept, records "did not exist" are kept
      everywhere, no record of an original below p is left, new records
      appear on the chain root..p only; after nil p is tracked with its
      current entry (or as "did not exist") and its ancestors are tracked;
      nil is returned whenever the existing proper ancestors of p are
      directories.
    The surviving "did not exist" records below p are no problem for the
    invariant: the new baseline has nothing there ([inv_none]), the paths are
    resolved in the base ([inv_nolink]: an absent or non-link parent), and
    [inv_closed] only concerns records of existing originals.  In particular
    ForceBackup(p) REPAIRS the state of finding D13 at p ("directory removed,
    file created in its place": without it Rollback fails).

    Corollaries [c17_dir_spec] (from such a state), [c17_dir_initial_spec]
    (a whole transaction from an [initial] state): after ForceBackup(p)
    returned nil, any [good_run] and Rollback: Rollback returns nil, p is as
    at the moment of the call, every path outside the former subtree is as in
    [B0], the backup and the bookkeeping are empty - and the former content
    below p is NOT back (absent).  So "every other path is rolled back as
    usual" does not hold for the paths below a former directory p: a
    violation of the letter of C17 that cannot be repaired in Rollback (the
    content cannot be put back below an absent path or a file) - the reason
    why the oracle of the differential check skips the case.  Finding about
    the interface: ForceBackup of a removed directory silently discards the
    backup of everything that was in it.

    Hypotheses beyond [api_laws] (Section hypotheses, discharged into the
    statements; NOT axioms), both on the BACKUP filesystem:
    - [removeall_emptydir_law]: RemoveAll of a directory without children in
      the view removes it, like Remove ([law_remove_leaf] is about Remove,
      [law_removeall_leaf] about RemoveAll of a NON-directory).  It is all
      that is needed of RemoveAll: the collected directories are removed
      deepest first ([most_order]) after all non-directories below them, so
      each is empty when its turn comes.
    - [readdir_exact_law]: [law2_readdir] of Spec/Laws2.v with "exactly the
      entries directly in the directory, each once" in the place of "entries
      of the view below the directory".  Completeness is needed for the
      statement itself (a copy that is not listed is not removed and keeps
      its record; then the directory above it is not empty); "directly" and
      "once" for the order of the removals.  ([api_laws2] is not needed for
      the backup: the law includes the frame of [law2_readdir].)
    Both are proved for the concrete model: [osfs_removeall_emptydir],
    [osfs_readdir_exact] (generic layering), [removeall_emptydir_hidden],
    [readdir_exact_hidden] (documented layering), [removeall_emptydir_new],
    [readdir_exact_new] (New / NewWithFS); so the theorems are instantiated to
    closed ones: [force_backup_dir_concrete], [c17_dir_concrete],
    [c17_dir_initial_concrete], [..._documented], [..._new].  The file ends
    with a non-trivial instance of [c17_dir_initial_concrete] on the world
    of Proofs/ConcreteExample.v ([c17_dir_concrete_instance], and the same
    by running the model: [c17_dir_concrete_by_computation]).

    Not covered: p IS a directory at the moment of the call ([entry_ok]). *)
From stdpp Require Import gmap.
From BFS Require Import Spec.CopySpecs.
From BFS Require Import Path.PathSpec.
From BFS Require Import Proofs.PathFacts Proofs.C19Facts Proofs.RollbackFacts Proofs.FsFacts
                        Proofs.BackupCopy Proofs.BackupTry Proofs.BackupRollback Proofs.BackupC01
                        Proofs.BackupForce.

(* ------------------------------------------------------------------ *)
(** * Paths: the tree below a directory *)

(** [under p q] (Proofs/BackupTry.v): [q] is [p] or lies below it. *)

Lemma under_dec (p q : str) : {under p q} + {~ under p q}.
Proof.
  destruct (str_eq_dec q p) as [E | Hne]; [left; left; exact E |].
  destruct (in_dec str_eq_dec p (ancestors q)) as [Hin | Hnin]; [left; right; exact Hin |].
  right. intros [E | Hin]; [exact (Hne E) | exact (Hnin Hin)].
Qed.

Lemma under_refl (p : str) : under p p.
Proof. left. reflexivity. Qed.

Lemma ancestors_cleaned (p a : str) : cleaned p -> In a (ancestors p) -> cleaned a.
Proof. intros Hc Ha. exact (proj1 (proj1 (ancestors_spec p a Hc) Ha)). Qed.

(** no cycles *)
Lemma ancestors_asym (a b : str) : cleaned a -> In a (ancestors b) -> In b (ancestors a) -> False.
Proof.
  intros Ha Hab Hba.
  exact (ancestors_not_self a Ha (ancestors_trans a b a Ha Hba Hab)).
Qed.

Lemma under_trans (a b c : str) : cleaned c -> under a b -> under b c -> under a c.
Proof.
  intros Hc Hab [-> | Hbc]; [exact Hab |].
  exact (under_child a b c Hc Hab Hbc).
Qed.

(** [p] is not below something that lies strictly below it *)
Lemma under_antisym (p c : str) : cleaned p -> cleaned c -> In p (ancestors c) -> ~ under c p.
Proof.
  intros Hp Hc Hpc [E | Hcp].
  - subst c. exact (ancestors_not_self p Hp Hpc).
  - exact (ancestors_asym p c Hp Hpc Hcp).
Qed.

(** the members of a chain are comparable *)
Lemma anc_chain (x a b : str) :
  cleaned x -> In a (ancestors x) -> In b (ancestors x) ->
  a = b \/ In a (ancestors b) \/ In b (ancestors a).
Proof.
  intros Hx Ha Hb.
  apply (ancestors_spec x a Hx) in Ha. destruct Ha as [Hca (_ & [Haa [ra Hra]] & Hda)].
  apply (ancestors_spec x b Hx) in Hb. destruct Hb as [Hcb (_ & [Hab [rb Hrb]] & Hdb)].
  destruct (str_eq_dec a b) as [E | Hne]; [left; exact E | right].
  rewrite Hra in Hrb. apply app_eq_app in Hrb. destruct Hrb as [l [[E1 E2] | [E1 E2]]].
  - (* comps a = comps b ++ l *)
    right. apply (ancestors_spec a b Hca). split; [exact Hcb |].
    split; [congruence |]. split; [| exact Hdb].
    split; [congruence | exists l; exact E1].
  - left. apply (ancestors_spec b a Hcb). split; [exact Hca |].
    split; [exact Hne |]. split; [| exact Hda].
    split; [congruence | exists l; exact E1].
Qed.

(** [p] is the parent of [q]: the last of its proper ancestors *)
Definition child_of (p q : str) : Prop :=
  In p (ancestors q) /\ forall a, In a (ancestors q) -> a = p \/ In a (ancestors p).

Lemma child_under (p c : str) : child_of p c -> under p c.
Proof. intros [H _]. right. exact H. Qed.

(** the subtrees of two children of the same directory are disjoint *)
Lemma child_disjoint (p c1 c2 x : str) :
  cleaned p -> cleaned c1 -> cleaned c2 -> cleaned x ->
  child_of p c1 -> child_of p c2 -> c1 <> c2 -> under c1 x -> under c2 x -> False.
Proof.
  intros Hp Hc1 Hc2 Hx [Hp1 Hl1] [Hp2 Hl2] Hne H1 H2.
  assert (Hno : forall c c', cleaned c -> cleaned c' -> In p (ancestors c) -> In p (ancestors c') ->
                  (forall a, In a (ancestors c') -> a = p \/ In a (ancestors p)) ->
                  In c (ancestors c') -> False).
  { intros c c' Hc Hc' Hpc Hpc' Hl Hin. destruct (Hl c Hin) as [E | Hcp].
    - subst c. exact (ancestors_not_self p Hp Hpc).
    - exact (ancestors_asym p c Hp Hpc Hcp). }
  destruct H1 as [E1 | A1], H2 as [E2 | A2].
  - apply Hne. congruence.
  - subst x. exact (Hno c2 c1 Hc2 Hc1 Hp2 Hp1 Hl1 A2).
  - subst x. exact (Hno c1 c2 Hc1 Hc2 Hp1 Hp2 Hl2 A1).
  - destruct (anc_chain x c1 c2 Hx A1 A2) as [E | [H | H]].
    + exact (Hne E).
    + exact (Hno c1 c2 Hc1 Hc2 Hp1 Hp2 Hl2 H).
    + exact (Hno c2 c1 Hc2 Hc1 Hp2 Hp1 Hl1 H).
Qed.

(** in the root-first chain of [x], what comes before an element is above it *)
Lemma chain_before (x : str) (l1 l2 : list str) (a b : str) :
  cleaned x -> cands x = l1 ++ a :: l2 -> In b l2 -> In a (ancestors b).
Proof.
  intros Hx E Hb.
  destruct (chain_spec x Hx) as (Hnd & _ & _ & Hin).
  rewrite <- (cands_chain x Hx) in Hnd, Hin. rewrite E in Hnd.
  assert (Hain : In a (cands x)) by (rewrite E; apply in_or_app; right; left; reflexivity).
  assert (Hbin : In b (cands x)) by (rewrite E; apply in_or_app; right; right; exact Hb).
  assert (Hnab : a <> b).
  { intros ->. apply NoDup_remove_2 in Hnd. apply Hnd. apply in_or_app. right. exact Hb. }
  assert (Hbl1 : ~ In b l1).
  { intros Hb1. apply in_split in Hb. destruct Hb as (m1 & m2 & ->).
    rewrite app_comm_cons, app_assoc in Hnd. apply NoDup_remove_2 in Hnd.
    apply Hnd. apply in_or_app. left. apply in_or_app. left. exact Hb1. }
  assert (Hcmp : a = b \/ In a (ancestors b) \/ In b (ancestors a)).
  { rewrite (cands_last x Hx) in Hain, Hbin.
    apply in_app_or in Hain. apply in_app_or in Hbin.
    destruct Hain as [Ha | [Ea | []]], Hbin as [Hb' | [Eb | []]].
    - exact (anc_chain x a b Hx Ha Hb').
    - subst b. right. left. exact Ha.
    - subst a. right. right. exact Hb'.
    - left. congruence. }
  destruct Hcmp as [E' | [H | H]]; [contradiction | exact H |].
  exfalso. apply Hbl1. exact (cands_split_ancestors x l1 l2 a b Hx E H).
Qed.

(** below [p], every path lies at or below a child of [p] *)
Lemma descend (p x : str) :
  cleaned x -> In p (ancestors x) -> exists c, child_of p c /\ under c x.
Proof.
  intros Hx Hp.
  pose proof (cands_last x Hx) as El.
  apply in_split in Hp. destruct Hp as (pre & rest & Ea).
  rewrite Ea in El. rewrite <- app_assoc in El. cbn [app] in El.
  (* cands x = pre ++ p :: rest ++ [x] *)
  destruct (rest ++ [x]) as [|c rest'] eqn:Er.
  { destruct rest; discriminate Er. }
  assert (Hcin : In c (rest ++ [x])) by (rewrite Er; left; reflexivity).
  assert (Hcx : under c x).
  { apply in_app_or in Hcin. destruct Hcin as [H | [E | []]].
    - right. rewrite Ea. apply in_or_app. right. right. exact H.
    - left. exact E. }
  exists c. split; [| exact Hcx]. split.
  - apply (chain_before x pre (c :: rest') p c Hx El). left. reflexivity.
  - intros a Ha.
    assert (El' : cands x = (pre ++ [p]) ++ c :: rest').
    { rewrite El. rewrite <- app_assoc. reflexivity. }
    pose proof (cands_split_ancestors x (pre ++ [p]) rest' c a Hx El' Ha) as Hin.
    apply in_app_or in Hin. destruct Hin as [Hpre | [E | []]]; [right | left; symmetry; exact E].
    apply in_split in Hpre. destruct Hpre as (m1 & m2 & Em).
    assert (El2 : cands x = m1 ++ a :: (m2 ++ p :: c :: rest')).
    { rewrite El, Em. rewrite <- app_assoc. reflexivity. }
    apply (chain_before x m1 (m2 ++ p :: c :: rest') a p Hx El2).
    apply in_or_app. right. left. reflexivity.
Qed.

Lemma nodup_app_intro {A} (l1 l2 : list A) :
  NoDup l1 -> NoDup l2 -> (forall x, In x l1 -> In x l2 -> False) -> NoDup (l1 ++ l2).
Proof.
  induction l1 as [|y l1 IH]; intros H1 H2 Hd; [exact H2 |].
  cbn [app]. apply NoDup_cons_iff in H1. destruct H1 as [Hy H1]. apply NoDup_cons_iff. split.
  - intros Hin. apply in_app_or in Hin. destruct Hin as [Hin | Hin]; [exact (Hy Hin) |].
    exact (Hd y (or_introl eq_refl) Hin).
  - apply IH; [exact H1 | exact H2 |]. intros x Hx1 Hx2. exact (Hd x (or_intror Hx1) Hx2).
Qed.

(* ------------------------------------------------------------------ *)
(** * Two more laws (hypotheses of the theorems below, not axioms)

    [api_laws] has [law_remove_leaf] (Remove of an entry without children)
    and [law_removeall_leaf] (RemoveAll of a NON-directory is Remove);
    [api_laws2] has [law2_readdir] (the listed names are entries below the
    directory).  The Walk branch of tryRemoveBackup calls RemoveAll on
    directories (each of them empty when its turn comes) and relies on the
    listing being complete. *)

(** RemoveAll of a directory without children in the view removes it, like Remove *)
Definition removeall_emptydir_law (a : fsapi) (V V' : world -> store) : Prop :=
  forall w p m, quiet w -> swf (V w) -> snolinkpar (V w) p -> V w !! p = Some (Dir m) ->
    no_children (V w) p -> p <> s_root ->
    exists s', ok_step V V' (a_removeall a p) w tt s' /\ s' !! p = None /\
               store_eqv_except [p] s' (V w) /\ swf s'.

(** [law2_readdir] with "exactly" in the place of "among": listing a directory
    ([read_dir_names]: open, Readdirnames(-1), close) changes nothing, and a
    successful listing reports exactly the entries of the view directly in the
    directory, each once *)
Definition readdir_exact_law (a : fsapi) (V V' : world -> store) : Prop :=
  forall w p m, quiet w -> swf (V w) -> snolinkpar (V w) p -> V w !! p = Some (Dir m) ->
    exists r w', read_dir_names a p w = (r, w') /\ r <> MHalt /\ V w' = V w /\ same_rest V' w w' /\
      forall names, r = MOk names ->
        NoDup (map (join2 p) names) /\
        forall q, In q (map (join2 p) names) <-> (V w !! q <> None /\ child_of p q).

(* ------------------------------------------------------------------ *)
(** * The Walk branch of [try_remove_backup], over the laws of one filesystem *)

Section WalkBackup.
  Variable a : fsapi.
  Variables V V' : world -> store.
  Variable tn : str -> str.
  Variable accp : str -> str -> Prop.
  Variables rh wh : fhandle -> str -> nat -> Prop.
  Hypothesis HLa : api_laws a V V' tn accp rh wh nohid nohid.
  Hypothesis HV'i : forall w i, V' (with_infos w i) = V' w.
  Hypothesis Hrm : removeall_emptydir_law a V V'.
  Hypothesis Hrd : readdir_exact_law a V V'.

  Lemma HVi : forall w i, V (with_infos w i) = V w.
  Proof. exact (law_infos_indep _ _ _ _ _ _ _ _ _ HLa). Qed.

  (** the callback of the Walk: directories are collected, everything else is
      removed and its record dropped *)
  Definition rb_fn (accl : list str) (path : str) (info : finfo) : M (list str) :=
    if is_dir_info info then ret (accl ++ [path])
    else a_remove a path ;;; delete_info path ;;; ret accl.

  Definition rb_dir (d : str) : M unit := a_removeall a d ;;; delete_info d.

  Lemma try_remove_backup_eq (p : str) :
    try_remove_backup a p =
    (seen <- already_seen p ;;
     match seen with
     | None => ret tt
     | Some None => delete_info p
     | Some (Some _) =>
         r <- try_ (a_lstat a p) ;;
         match r with
         | Err e => if is_not_found e then delete_info p else fail e
         | Ok fi =>
             if negb (is_dir_info fi) then a_remove a p ;;; delete_info p
             else dirs <- walk_m a p rb_fn [] ;; miter rb_dir (sort_most dirs)
         end
     end).
  Proof. reflexivity. Qed.

  Section Fixed.
    (** [s0]: the view when the removals began; [sb]: the other view;
        [i0]: the bookkeeping at that moment *)
    Variables s0 sb : store.
    Variable i0 : infomap.
    Hypothesis Hwf0 : swf s0.

    (** [D]: the entries removed so far; their records are gone, the others are as they were *)
    Definition WI (D : list str) (w : world) : Prop :=
      RInv V V' s0 sb D w /\
      (forall q, In q D -> w_infos w !! q = None) /\
      (forall q, ~ In q D -> w_infos w !! q = i0 !! q).

    Lemma WI_read (D : list str) (w w' : world) :
      WI D w -> same_rest V' w w' -> V w' = V w -> WI D w'.
    Proof.
      intros (HR & Hin & Hout) Hsr HV. pose proof Hsr as (_ & Hi & _).
      split; [exact (RInv_read V V' s0 sb D w w' HR Hsr HV) |].
      rewrite Hi. split; assumption.
    Qed.

    (** the entry [x] was removed; its record is dropped *)
    Lemma WI_drop (D : list str) (w w1 : world) (x : str) :
      WI D w -> same_rest V' w w1 -> swf (V w1) -> V w1 !! x = None ->
      store_eqv_except [x] (V w1) (V w) ->
      WI (D ++ [x]) (with_infos w1 (base.delete x (w_infos w1))).
    Proof.
      intros (HR & Hin & Hout) Hsr Hwf1 Hx Heqv. pose proof Hsr as (_ & Hi & _).
      pose proof (RInv_removed V V' s0 sb D w w1 x HR Hsr Hwf1 Hx Heqv) as (Hq1 & Hwf1' & HV'1 & He1 & Hn1).
      split; [| split].
      - split; [exact Hq1 |]. rewrite HVi, HV'i.
        split; [exact Hwf1' | split; [exact HV'1 | split; [exact He1 | exact Hn1]]].
      - intros q Hq. cbn [w_infos with_infos]. destruct (str_eq_dec q x) as [-> | Hne].
        + apply lookup_delete.
        + rewrite lookup_delete_ne by congruence. rewrite Hi. apply Hin.
          apply in_app_or in Hq. destruct Hq as [Hq | [E | []]]; [exact Hq | congruence].
      - intros q Hq. cbn [w_infos with_infos].
        assert (Hne : q <> x) by (intros ->; apply Hq; apply in_or_app; right; left; reflexivity).
        rewrite lookup_delete_ne by congruence. rewrite Hi. apply Hout.
        intros Hd. apply Hq. apply in_or_app. left. exact Hd.
    Qed.

    Lemma WI_quiet D w : WI D w -> quiet w.
    Proof. intros ((Hq & _) & _). exact Hq. Qed.
    Lemma WI_swf D w : WI D w -> swf (V w).
    Proof. intros ((_ & Hwf & _) & _). exact Hwf. Qed.

    (** what was not removed is as it was *)
    Lemma WI_present (D : list str) (w : world) (x : str) (n : node) :
      WI D w -> ~ In x D -> s0 !! x = Some n ->
      exists n', V w !! x = Some n' /\ snode_eqv n' n.
    Proof.
      intros ((_ & _ & _ & Heqv & _) & _) Hx Hs. pose proof (Heqv x Hx) as He. rewrite Hs in He.
      exact (sonode_eqv_some_r _ _ He).
    Qed.

    Definition nondir0 (x : str) : Prop := exists n, s0 !! x = Some n /\ node_kind n <> KDir.

    Lemma s0_cleaned (x : str) : s0 !! x <> None -> cleaned x.
    Proof.
      intros H. destruct (s0 !! x) as [n|] eqn:E; [| contradiction H; reflexivity].
      exact (proj1 (proj1 (swf_lookup_sdirect s0 x n Hwf0 E))).
    Qed.

    Lemma sdir_not_nondir (x : str) : sdir s0 x -> nondir0 x -> False.
    Proof. intros [m Hm] (n & Hn & Hk). rewrite Hm in Hn. injection Hn as <-. apply Hk. reflexivity. Qed.

    Lemma s0_classify (x : str) (n : node) : s0 !! x = Some n -> sdir s0 x \/ nondir0 x.
    Proof.
      intros Hn. destruct n as [m | m c | m t].
      - left. exists m. exact Hn.
      - right. exists (File m c). split; [exact Hn | discriminate].
      - right. exists (Link m t). split; [exact Hn | discriminate].
    Qed.

    (** nothing lies below a non-directory *)
    Lemma leaf_only (path x : str) : nondir0 path -> under path x -> s0 !! x <> None -> x = path.
    Proof.
      intros Hnd [E | Hin] Hx; [exact E | exfalso].
      destruct (s0 !! x) as [n|] eqn:E; [| contradiction Hx; reflexivity].
      exact (sdir_not_nondir path (swf_below_dir s0 path x n Hwf0 E Hin) Hnd).
    Qed.

    (** Remove of a non-directory that is still there, then [delete_info] *)
    Lemma rb_remove {A} (D : list str) (w : world) (x : str) (n : node) (r : A) :
      WI D w -> V w !! x = Some n -> node_kind n <> KDir -> x <> s_root ->
      exists w', (a_remove a x ;;; delete_info x ;;; ret r) w = (MOk r, w') /\ WI (D ++ [x]) w'.
    Proof.
      intros HW Hx Hk Hne. pose proof (WI_quiet D w HW) as Hq. pose proof (WI_swf D w HW) as Hwf.
      assert (Hnc : no_children (V w) x).
      { intros q nq Hq' _ Hin. destruct (swf_below_dir (V w) x q nq Hwf Hq' Hin) as [m Hm].
        rewrite Hm in Hx. injection Hx as <-. apply Hk. reflexivity. }
      destruct (law_remove_leaf _ _ _ _ _ _ _ _ _ HLa w x n Hq Hwf
                  (swf_lookup_snolinkpar _ _ _ Hwf Hx) Hx Hnc Hne (not_nohid x))
        as (s' & (w1 & Hrun & HV1 & Hsr) & Hnone & Heqv & Hwf').
      subst s'. exists (with_infos w1 (base.delete x (w_infos w1))). split.
      - rewrite (bind_ok _ _ w w1 tt Hrun). reflexivity.
      - exact (WI_drop D w w1 x HW Hsr Hwf' Hnone Heqv).
    Qed.

    (** [x] lies at or below one of the paths of [l] *)
    Definition sub (l : list str) (x : str) : Prop := exists c, In c l /\ under c x.

    (** what a (partial) walk over the subtrees [S] has done: [D] grew by the
        non-directories of [S], the accumulator by its directories *)
    Definition walk_post (S : str -> Prop) (accl D : list str) (r : mres (list str)) (w' : world) : Prop :=
      r <> MHalt /\
      exists D', WI D' w' /\
        (forall x, In x D' -> In x D \/ (S x /\ s0 !! x <> None)) /\
        (forall acc', r = MOk acc' ->
           exists new, acc' = accl ++ new /\ NoDup new /\
             (forall x, In x new <-> S x /\ sdir s0 x) /\
             (forall x, In x D' <-> In x D \/ (S x /\ nondir0 x))).

    Lemma walk_post_err (S : str -> Prop) (accl D : list str) (e : errno) (w' : world) :
      WI D w' -> walk_post S accl D (MErr e) w'.
    Proof.
      intros HW. split; [discriminate |]. exists D. split; [exact HW |].
      split; [intros x Hx; left; exact Hx | intros acc' E; discriminate E].
    Qed.

    Lemma walk_k_spec : forall (fuel : nat) (path : str) (info : finfo) (accl D : list str)
                               (w : world) (n : node),
      WI D w -> s0 !! path = Some n -> path <> s_root -> fi_kind info = node_kind n ->
      (forall x, under path x -> s0 !! x <> None -> ~ In x D) ->
      exists r w', walk_fold fuel a path info rb_fn accl w = (r, w') /\
                   walk_post (under path) accl D r w'.
    Proof.
      induction fuel as [|fuel IH]; intros path info accl D w n HW Hn Hnr Hkind Hfresh.
      { exists (MErr EFUEL), w. split; [reflexivity | apply walk_post_err; exact HW]. }
      pose proof (WI_quiet D w HW) as Hq. pose proof (WI_swf D w HW) as Hwf.
      assert (Hex0 : s0 !! path <> None) by congruence.
      destruct (WI_present D w path n HW (Hfresh path (under_refl path) Hex0) Hn) as (n' & Hn' & Heq').
      pose proof (eqv_kind _ _ Heq') as Hk'.
      cbn [walk_fold]. destruct (is_dir_info info) eqn:Ed.
      2:{ (* not a directory: removed *)
        assert (Hknd : node_kind n <> KDir).
        { intros E. unfold is_dir_info in Ed. rewrite Hkind, E in Ed. discriminate Ed. }
        assert (Hnd0 : nondir0 path) by (exists n; split; assumption).
        destruct (rb_remove D w path n' accl HW Hn') as (w1 & Hrun1 & HW1); [congruence | exact Hnr |].
        assert (Hfn : rb_fn accl path info w = (MOk accl, w1)).
        { unfold rb_fn. rewrite Ed. exact Hrun1. }
        rewrite (bind_ok _ _ w w1 accl Hfn).
        exists (MOk accl), w1. split; [reflexivity |]. split; [discriminate |].
        exists (D ++ [path]). split; [exact HW1 |]. split.
        - intros x Hx. apply in_app_or in Hx. destruct Hx as [Hx | [<- | []]]; [left; exact Hx | right].
          split; [apply under_refl | congruence].
        - intros acc' E. injection E as <-. exists []. split; [symmetry; apply app_nil_r |].
          split; [constructor |]. split.
          + intros x. split; [intros [] |]. intros [Hu [m Hm]].
            assert (x = path) by (apply (leaf_only path x Hnd0 Hu); congruence). subst x.
            exact (sdir_not_nondir path (ex_intro _ m Hm) Hnd0).
          + intros x. rewrite in_app_iff. split.
            * intros [Hx | [<- | []]]; [left; exact Hx | right; split; [apply under_refl | exact Hnd0]].
            * intros [Hx | [Hu (nx & Hnx & _)]]; [left; exact Hx | right; left].
              symmetry. apply (leaf_only path x Hnd0 Hu). congruence. }
      (* a directory: collected, its entries walked *)
      assert (Hdir0 : sdir s0 path).
      { unfold is_dir_info in Ed. rewrite Hkind in Ed.
        destruct n as [m | m c | m t]; [exists m; exact Hn | discriminate Ed | discriminate Ed]. }
      assert (Hfn : rb_fn accl path info w = (MOk (accl ++ [path]), w)).
      { unfold rb_fn. rewrite Ed. reflexivity. }
      rewrite (bind_ok _ _ w w (accl ++ [path]) Hfn).
      assert (Hcp : cleaned path) by (apply s0_cleaned; congruence).
      destruct n' as [m' | m' c' | m' t'];
        [| destruct Hdir0 as [m0 Hm0]; rewrite Hm0 in Hn; injection Hn as <-; contradiction Heq'
         | destruct Hdir0 as [m0 Hm0]; rewrite Hm0 in Hn; injection Hn as <-; contradiction Heq'].
      pose proof (swf_lookup_snolinkpar _ _ _ Hwf Hn') as Hnlp.
      destruct (Hrd w path m' Hq Hwf Hnlp Hn')
        as (r2 & w2 & Hrun2 & Hnh2 & HV2 & Hsr2 & Hex2).
      pose proof (WI_read D w w2 HW Hsr2 HV2) as HW2.
      destruct r2 as [names | e |]; [| | contradiction Hnh2; reflexivity].
      2:{ rewrite (bind_err _ _ w w2 e Hrun2). exists (MErr e), w2. split; [reflexivity |].
          apply walk_post_err. exact HW2. }
      rewrite (bind_ok _ _ w w2 names Hrun2).
      destruct (Hex2 names eq_refl) as [Hndn Hch].
      set (kids := map (join2 path) names) in *.
      (* the listed entries are the children of [path] in [s0] *)
      assert (Hkids : forall c, In c kids <-> (s0 !! c <> None /\ child_of path c)).
      { intros c. rewrite (Hch c). split; intros [Hex Hc]; (split; [| exact Hc]).
        - destruct (V w !! c) as [nc|] eqn:Ec; [| contradiction Hex; reflexivity].
          destruct HW as (HR & _). destruct (RInv_some V V' s0 sb D w c nc HR Ec) as [_ (n0 & H0)]. congruence.
        - destruct (s0 !! c) as [n0|] eqn:E0; [| contradiction Hex; reflexivity].
          assert (Hcl : cleaned c) by (apply s0_cleaned; congruence).
          destruct (WI_present D w c n0 HW) as (nc & Hnc & _); [| exact E0 | congruence].
          apply Hfresh; [exact (child_under path c Hc) | congruence]. }
      assert (Hsub_under : forall x, s0 !! x <> None -> (sub kids x <-> under path x /\ x <> path)).
      { intros x Hx. pose proof (s0_cleaned x Hx) as Hcx. split.
        - intros (c & Hc & Hcx'). apply Hkids in Hc. destruct Hc as [Hc0 Hcc].
          pose proof (s0_cleaned c Hc0) as Hcc'.
          split; [exact (under_trans path c x Hcx (child_under path c Hcc) Hcx') |].
          intros ->. exact (under_antisym path c Hcp Hcc' (proj1 Hcc) Hcx').
        - intros [[E | Hin] Hne]; [contradiction |].
          destruct (descend path x Hcx Hin) as (c & Hcc & Hcx'). exists c. split; [| exact Hcx'].
          apply Hkids. split; [| exact Hcc].
          destruct Hcx' as [-> | Hin']; [exact Hx |].
          destruct (s0 !! x) as [nx|] eqn:Ex; [| contradiction Hx; reflexivity].
          destruct (swf_below_dir s0 c x nx Hwf0 Ex Hin') as [mc Hmc]. congruence. }
      (* the entries, one after the other *)
      assert (Hfold : forall (l : list str) (accn Dn : list str) (wn : world),
                WI Dn wn -> NoDup (map (join2 path) l) ->
                (forall c, In c (map (join2 path) l) -> s0 !! c <> None /\ child_of path c) ->
                (forall x, sub (map (join2 path) l) x -> s0 !! x <> None -> ~ In x Dn) ->
                exists r w', mfold (fun a0 name =>
                                      fi <- a_lstat a (join2 path name) ;;
                                      walk_fold fuel a (join2 path name) fi rb_fn a0) l accn wn = (r, w') /\
                             walk_post (sub (map (join2 path) l)) accn Dn r w').
      { induction l as [|nm rest IHl]; intros accn Dn wn HWn Hndl Hchl Hfr.
        { exists (MOk accn), wn. split; [reflexivity |]. split; [discriminate |].
          exists Dn. split; [exact HWn |]. split; [intros x Hx; left; exact Hx |].
          intros acc' E. injection E as <-. exists []. split; [symmetry; apply app_nil_r |].
          split; [constructor |]. split.
          - intros x. split; [intros [] | intros [(c & [] & _) _]].
          - intros x. split; [intros Hx; left; exact Hx | intros [Hx | [(c & [] & _) _]]; exact Hx]. }
        cbn [map] in *. set (c := join2 path nm) in *. cbn [mfold].
        apply NoDup_cons_iff in Hndl. destruct Hndl as [Hcrest Hndr].
        destruct (Hchl c (or_introl eq_refl)) as [Hc0 Hcc].
        destruct (s0 !! c) as [nc|] eqn:Ec; [| contradiction Hc0; reflexivity].
        assert (Hccl : cleaned c) by (apply s0_cleaned; congruence).
        assert (Hcfresh : forall x, under c x -> s0 !! x <> None -> ~ In x Dn).
        { intros x Hx. apply Hfr. exists c. split; [left; reflexivity | exact Hx]. }
        destruct (WI_present Dn wn c nc HWn (Hcfresh c (under_refl c) ltac:(congruence)) Ec) as (nc' & Hnc' & Heqc).
        pose proof (WI_quiet Dn wn HWn) as Hqn. pose proof (WI_swf Dn wn HWn) as Hwfn.
        destruct (law_lstat_some _ _ _ _ _ _ _ _ _ HLa wn c nc' Hqn Hwfn
                    (swf_lookup_snolinkpar _ _ _ Hwfn Hnc') Hnc')
          as (fi & (w1 & Hrun1 & HV1 & Hsr1) & Him & _).
        pose proof (WI_read Dn wn w1 HWn Hsr1 HV1) as HW1.
        destruct (IH c fi accn Dn w1 nc HW1 Ec) as (r3 & w3 & Hrun3 & Hp3).
        { exact (ancestors_not_root path c (proj1 Hcc)). }
        { rewrite (proj1 Him). exact (eqv_kind _ _ Heqc). }
        { exact Hcfresh. }
        assert (Hin : (fi <- a_lstat a c ;; walk_fold fuel a c fi rb_fn accn) wn = (r3, w3)).
        { rewrite (bind_ok _ _ wn w1 fi Hrun1). exact Hrun3. }
        destruct Hp3 as (Hnh3 & D3 & HW3 & Hfr3 & Hok3).
        destruct r3 as [acc3 | e |]; [| | contradiction Hnh3; reflexivity].
        2:{ rewrite (bind_err _ _ wn w3 e Hin). exists (MErr e), w3. split; [reflexivity |].
            split; [discriminate |]. exists D3. split; [exact HW3 |]. split.
            - intros x Hx. destruct (Hfr3 x Hx) as [H | [Hu Hs]]; [left; exact H | right].
              split; [exists c; split; [left; reflexivity | exact Hu] | exact Hs].
            - intros acc' E. discriminate E. }
        rewrite (bind_ok _ _ wn w3 acc3 Hin).
        destruct (Hok3 acc3 eq_refl) as (new3 & Eacc3 & Hnd3 & Hnew3 & HD3).
        (* siblings: nothing of the subtree of [c] lies in the subtree of another entry *)
        assert (Hsib : forall x, s0 !! x <> None -> under c x -> sub (map (join2 path) rest) x -> False).
        { intros x Hx Hcx (c' & Hc' & Hc'x).
          destruct (Hchl c' (or_intror Hc')) as [Hc'0 Hc'c].
          apply (child_disjoint path c c' x Hcp Hccl (s0_cleaned c' Hc'0) (s0_cleaned x Hx) Hcc Hc'c);
            [| exact Hcx | exact Hc'x].
          intros ->. exact (Hcrest Hc'). }
        destruct (IHl acc3 D3 w3 HW3 Hndr) as (r4 & w4 & Hrun4 & Hp4).
        { intros c' Hc'. exact (Hchl c' (or_intror Hc')). }
        { intros x Hx Hs0 Hd. apply HD3 in Hd. destruct Hd as [Hd | [Hu (nx & Hnx & _)]].
          - revert Hd. apply Hfr; [| exact Hs0].
            destruct Hx as (c' & Hc' & Hu'). exists c'. split; [right; exact Hc' | exact Hu'].
          - apply (Hsib x); [congruence | exact Hu | exact Hx]. }
        exists r4, w4. split; [exact Hrun4 |].
        destruct Hp4 as (Hnh4 & D4 & HW4 & Hfr4 & Hok4).
        split; [exact Hnh4 |]. exists D4. split; [exact HW4 |]. split.
        - intros x Hx. destruct (Hfr4 x Hx) as [H3 | [(c' & Hc' & Hu') Hs]].
          + destruct (Hfr3 x H3) as [H | [Hu Hs]]; [left; exact H | right].
            split; [exists c; split; [left; reflexivity | exact Hu] | exact Hs].
          + right. split; [exists c'; split; [right; exact Hc' | exact Hu'] | exact Hs].
        - intros acc' E. destruct (Hok4 acc' E) as (new4 & Eacc4 & Hnd4 & Hnew4 & HD4).
          exists (new3 ++ new4). split; [rewrite Eacc4, Eacc3; symmetry; apply app_assoc |].
          split; [| split].
          + apply nodup_app_intro; [exact Hnd3 | exact Hnd4 |].
            intros x H3 H4. apply Hnew3 in H3. apply Hnew4 in H4.
            destruct H3 as [Hu [m Hm]]. apply (Hsib x); [congruence | exact Hu | exact (proj1 H4)].
          + intros x. rewrite in_app_iff, (Hnew3 x), (Hnew4 x). split.
            * intros [[Hu Hs] | [(c' & Hc' & Hu') Hs]].
              -- split; [exists c; split; [left; reflexivity | exact Hu] | exact Hs].
              -- split; [exists c'; split; [right; exact Hc' | exact Hu'] | exact Hs].
            * intros [(c' & [<- | Hc'] & Hu') Hs]; [left; split; assumption | right].
              split; [exists c'; split; assumption | exact Hs].
          + intros x. rewrite (HD4 x), (HD3 x). split.
            * intros [[Hd | [Hu Hs]] | [(c' & Hc' & Hu') Hs]].
              -- left. exact Hd.
              -- right. split; [exists c; split; [left; reflexivity | exact Hu] | exact Hs].
              -- right. split; [exists c'; split; [right; exact Hc' | exact Hu'] | exact Hs].
            * intros [Hd | [(c' & [<- | Hc'] & Hu') Hs]].
              -- left. left. exact Hd.
              -- left. right. split; assumption.
              -- right. split; [exists c'; split; assumption | exact Hs]. }
      destruct (Hfold names (accl ++ [path]) D w2 HW2 Hndn) as (r5 & w5 & Hrun5 & Hp5).
      { intros c Hc. apply Hkids. exact Hc. }
      { intros x (c & Hc & Hu) Hs0. apply Hfresh; [| exact Hs0]. apply Hkids in Hc. destruct Hc as [Hc0 Hcc].
        exact (under_trans path c x (s0_cleaned x Hs0) (child_under path c Hcc) Hu). }
      exists r5, w5. split; [exact Hrun5 |].
      destruct Hp5 as (Hnh5 & D5 & HW5 & Hfr5 & Hok5).
      split; [exact Hnh5 |]. exists D5. split; [exact HW5 |]. split.
      - intros x Hx. destruct (Hfr5 x Hx) as [H | [Hs Hex]]; [left; exact H | right].
        split; [exact (proj1 (proj1 (Hsub_under x Hex) Hs)) | exact Hex].
      - intros acc' E. destruct (Hok5 acc' E) as (new5 & Eacc5 & Hnd5 & Hnew5 & HD5).
        exists (path :: new5). split; [rewrite Eacc5, <- app_assoc; reflexivity |].
        split; [| split].
        + apply NoDup_cons_iff. split; [| exact Hnd5].
          intros Hin. apply Hnew5 in Hin. destruct Hin as [Hs Hd].
          assert (Hex : s0 !! path <> None) by congruence.
          exact (proj2 (proj1 (Hsub_under path Hex) Hs) eq_refl).
        + intros x. cbn [In]. rewrite (Hnew5 x). split.
          * intros [<- | [Hs [m Hm]]]; [split; [apply under_refl | exact Hdir0] |].
            assert (Hex : s0 !! x <> None) by congruence.
            split; [exact (proj1 (proj1 (Hsub_under x Hex) Hs)) | exists m; exact Hm].
          * intros [Hu [m Hm]]. destruct (str_eq_dec x path) as [-> | Hne]; [left; reflexivity | right].
            assert (Hex : s0 !! x <> None) by congruence.
            split; [apply (Hsub_under x Hex); split; assumption | exists m; exact Hm].
        + intros x. rewrite (HD5 x). split.
          * intros [Hd | [Hs (nx & Hnx & Hk)]]; [left; exact Hd | right].
            assert (Hex : s0 !! x <> None) by congruence.
            split; [exact (proj1 (proj1 (Hsub_under x Hex) Hs)) | exists nx; split; assumption].
          * intros [Hd | [Hu (nx & Hnx & Hk)]]; [left; exact Hd | right].
            assert (Hex : s0 !! x <> None) by congruence.
            split; [| exists nx; split; assumption].
            apply (Hsub_under x Hex). split; [exact Hu |].
            intros ->. apply (sdir_not_nondir path Hdir0). exists nx. split; assumption.
    Qed.

    (** the collected directories, deepest first: each is empty when its turn comes *)
    Lemma dirs_loop (p0 : str) (Df dirs : list str) :
      p0 <> s_root -> NoDup dirs ->
      (forall x, In x dirs <-> under p0 x /\ sdir s0 x) ->
      (forall x, In x Df <-> under p0 x /\ nondir0 x) ->
      forall (todo done : list str) (w : world),
        sort_most dirs = done ++ todo -> WI (Df ++ done) w ->
        exists w', miter rb_dir todo w = (MOk tt, w') /\ WI (Df ++ sort_most dirs) w'.
    Proof.
      intros Hp0 Hnd Hdirs HDf.
      assert (Hcl : Forall cleaned dirs).
      { apply List.Forall_forall. intros x Hx. apply Hdirs in Hx. destruct Hx as [_ [m Hm]].
        apply s0_cleaned. congruence. }
      induction todo as [|d todo IHt]; intros done w E HW.
      { rewrite app_nil_r in E. exists w. split; [reflexivity |]. rewrite E. exact HW. }
      assert (Hdin : In d dirs).
      { apply (isort_in most). fold (sort_most dirs). rewrite E. apply in_or_app. right. left. reflexivity. }
      pose proof (proj1 (Hdirs d) Hdin) as [Hud [m0 Hm0]].
      assert (Hdfresh : ~ In d (Df ++ done)).
      { intros Hin. apply in_app_or in Hin. destruct Hin as [Hin | Hin].
        - apply HDf in Hin. exact (sdir_not_nondir d (ex_intro _ m0 Hm0) (proj2 Hin)).
        - pose proof (isort_nodup most dirs Hnd) as Hnds. fold (sort_most dirs) in Hnds. rewrite E in Hnds.
          exact (nodup_mid_notin d done todo Hnds Hin). }
      destruct (WI_present (Df ++ done) w d (Dir m0) HW Hdfresh Hm0) as (nd & Hnd' & Heqd).
      destruct nd as [md | md cd | md td]; [| contradiction Heqd | contradiction Heqd].
      pose proof (WI_quiet _ w HW) as Hq. pose proof (WI_swf _ w HW) as Hwf.
      assert (Hnc : no_children (V w) d).
      { intros q nq Hq' _ Hin. destruct HW as (HR & _).
        destruct (RInv_some V V' s0 sb (Df ++ done) w q nq HR Hq') as [Hnin (n0 & H0)].
        assert (Hcq : cleaned q) by (apply s0_cleaned; congruence).
        assert (Huq : under p0 q) by exact (under_child p0 d q Hcq Hud Hin).
        apply Hnin. apply in_or_app. destruct (s0_classify q n0 H0) as [Hd | Hn].
        - right. assert (Hqin : In q dirs) by (apply Hdirs; split; assumption).
          apply (most_order dirs done todo d q Hnd Hcl E Hdin Hqin).
          apply (ancestors_spec q d Hcq). exact Hin.
        - left. apply HDf. split; assumption. }
      destruct (Hrm w d md Hq Hwf (swf_lookup_snolinkpar _ _ _ Hwf Hnd') Hnd' Hnc
                  (under_not_root p0 d Hp0 Hud))
        as (s' & (w1 & Hrun & HV1 & Hsr) & Hnone & Heqv & Hwf').
      subst s'.
      pose proof (WI_drop (Df ++ done) w w1 d HW Hsr Hwf' Hnone Heqv) as HW2.
      rewrite <- app_assoc in HW2.
      destruct (IHt (done ++ [d]) _ ltac:(rewrite <- app_assoc; exact E) HW2) as (w' & Hrun' & HW').
      exists w'. split; [| exact HW']. cbn [miter].
      assert (Hd : rb_dir d w = (MOk tt, with_infos w1 (base.delete d (w_infos w1)))).
      { unfold rb_dir. rewrite (bind_ok _ _ w w1 tt Hrun). reflexivity. }
      rewrite (bind_ok _ _ w _ tt Hd). exact Hrun'.
    Qed.
  End Fixed.

  (** ** [try_remove_backup] of a path recorded as existing whose copy is a directory

      It never halts.  Whatever it returns, only entries at or below [p] were
      removed from the view, with their records, and nothing else changed;
      when it returns nil, these are ALL the entries at or below [p]. *)
  Definition removed_with_records (w w' : world) (D : list str) : Prop :=
    quiet w' /\ swf (V w') /\ V' w' = V' w /\
    store_eqv_except D (V w') (V w) /\
    (forall x, In x D -> V w' !! x = None /\ w_infos w' !! x = None) /\
    (forall x, ~ In x D -> w_infos w' !! x = w_infos w !! x).

  Lemma WI_removed (w w' : world) (D : list str) :
    WI (V w) (V' w) (w_infos w) D w' -> removed_with_records w w' D.
  Proof.
    intros ((Hq & Hwf & HV' & Heqv & Hnone) & Hin & Hout).
    split; [exact Hq | split; [exact Hwf | split; [exact HV' | split; [exact Heqv | split; [| exact Hout]]]]].
    intros x Hx. split; [exact (Hnone x Hx) | exact (Hin x Hx)].
  Qed.

  Lemma try_remove_backup_walk (w : world) (p : str) (fi0 : finfo) (mk : meta) :
    quiet w -> swf (V w) -> p <> s_root ->
    w_infos w !! p = Some (Some fi0) -> V w !! p = Some (Dir mk) ->
    exists r w' D, try_remove_backup a p w = (r, w') /\ r <> MHalt /\
      removed_with_records w w' D /\
      (forall x, In x D -> under p x /\ V w !! x <> None) /\
      (r = MOk tt -> forall x, under p x -> V w !! x <> None -> In x D).
  Proof.
    intros Hq Hwf Hne Hi Hp.
    set (s0 := V w). set (sb := V' w). set (i0 := w_infos w).
    assert (HW0 : WI s0 sb i0 [] w).
    { split; [| split; [intros q [] | intros q _; reflexivity]].
      split; [exact Hq | split; [exact Hwf | split; [reflexivity | split; [| intros q []]]]].
      intros q _. apply sonode_eqv_refl. }
    pose proof (swf_lookup_snolinkpar _ _ _ Hwf Hp) as Hnlp.
    rewrite try_remove_backup_eq.
    assert (Hseen : already_seen p w = (MOk (Some (Some fi0)), w)).
    { unfold already_seen, get_infos, bind, ret. rewrite Hi. reflexivity. }
    rewrite (bind_ok _ _ w w _ Hseen).
    destruct (law_lstat_some _ _ _ _ _ _ _ _ _ HLa w p (Dir mk) Hq Hwf Hnlp Hp)
      as (fi & (w1 & Hrun1 & HV1 & Hsr1) & Him & _).
    rewrite (bind_ok _ _ w w1 (Ok fi) (try_ok _ w w1 fi Hrun1)).
    assert (Hdi : is_dir_info fi = true) by (unfold is_dir_info; rewrite (proj1 Him); reflexivity).
    rewrite Hdi. cbn [negb].
    pose proof (WI_read s0 sb i0 [] w w1 HW0 Hsr1 HV1) as HW1.
    pose proof (WI_quiet _ _ _ _ _ HW1) as Hq1. pose proof (WI_swf _ _ _ _ _ HW1) as Hwf1.
    assert (Hp1 : V w1 !! p = Some (Dir mk)) by (rewrite HV1; exact Hp).
    destruct (law_lstat_some _ _ _ _ _ _ _ _ _ HLa w1 p (Dir mk) Hq1 Hwf1
                (swf_lookup_snolinkpar _ _ _ Hwf1 Hp1) Hp1)
      as (fi' & (w2 & Hrun2 & HV2 & Hsr2) & Him' & _).
    pose proof (WI_read s0 sb i0 [] w1 w2 HW1 Hsr2 HV2) as HW2.
    destruct (walk_k_spec s0 sb i0 Hwf tree_fuel p fi' [] [] w2 (Dir mk) HW2 Hp Hne (proj1 Him'))
      as (r3 & w3 & Hrun3 & Hnh3 & D3 & HW3 & Hfr3 & Hok3).
    { intros x _ _ []. }
    assert (Hwalk : walk_m a p rb_fn [] w1 = (r3, w3)).
    { unfold walk_m. rewrite (bind_ok _ _ w1 w2 fi' Hrun2). exact Hrun3. }
    assert (HD3 : forall x, In x D3 -> under p x /\ V w !! x <> None).
    { intros x Hx. destruct (Hfr3 x Hx) as [[] | H]. exact H. }
    destruct r3 as [dirs | e |]; [| | contradiction Hnh3; reflexivity].
    2:{ rewrite (bind_err _ _ w1 w3 e Hwalk). exists (MErr e), w3, D3.
        split; [reflexivity |]. split; [discriminate |].
        split; [exact (WI_removed w w3 D3 HW3) |]. split; [exact HD3 | intros E; discriminate E]. }
    rewrite (bind_ok _ _ w1 w3 dirs Hwalk).
    destruct (Hok3 dirs eq_refl) as (new & Enew & Hndnew & Hnew & HDf). cbn [app] in Enew. subst new.
    destruct (dirs_loop s0 sb i0 Hwf p D3 dirs Hne Hndnew Hnew) with (todo := sort_most dirs) (done := @nil str) (w := w3)
      as (w4 & Hrun4 & HW4).
    { intros x. rewrite (HDf x). split; [intros [[] | H]; exact H | intros H; right; exact H]. }
    { reflexivity. }
    { rewrite app_nil_r. exact HW3. }
    exists (MOk tt), w4, (D3 ++ sort_most dirs).
    split; [exact Hrun4 |]. split; [discriminate |].
    split; [exact (WI_removed w w4 _ HW4) |]. split.
    - intros x Hx. apply in_app_or in Hx. destruct Hx as [Hx | Hx]; [exact (HD3 x Hx) |].
      apply (proj1 (isort_in most dirs x)) in Hx. apply Hnew in Hx. destruct Hx as [Hu [m Hm]].
      split; [exact Hu |]. fold s0. congruence.
    - intros _ x Hu Hex. apply in_or_app. fold s0 in Hex.
      destruct (s0 !! x) as [nx|] eqn:Ex; [| contradiction Hex; reflexivity].
      destruct (s0_classify s0 x nx Ex) as [Hd | Hn].
      + right. apply (proj2 (isort_in most dirs x)). apply Hnew. split; assumption.
      + left. apply HDf. right. split; assumption.
  Qed.
End WalkBackup.

(* ------------------------------------------------------------------ *)
(** * The new baseline: [B0] without the former subtree *)

Definition underb (p q : str) : bool := if under_dec p q then true else false.

Lemma underb_true (p q : str) : underb p q = true <-> under p q.
Proof. unfold underb. destruct (under_dec p q); split; intros H; try reflexivity; try assumption; try discriminate; contradiction. Qed.

Lemma underb_false (p q : str) : underb p q = false <-> ~ under p q.
Proof. unfold underb. destruct (under_dec p q); split; intros H; try reflexivity; try assumption; try discriminate; contradiction. Qed.

(** [B0] with everything at or below [p] deleted, and [cur] put at [p] *)
Definition prune (B0 : store) (p : str) (cur : option node) : store :=
  rebase (base.filter (fun kv : str * node => underb p (fst kv) = false) B0) p cur.

Lemma prune_at (B0 : store) (p : str) (cur : option node) : prune B0 p cur !! p = cur.
Proof. apply rebase_at. Qed.

Lemma prune_below (B0 : store) (p : str) (cur : option node) (q : str) :
  under p q -> q <> p -> prune B0 p cur !! q = None.
Proof.
  intros Hu Hne. unfold prune. rewrite rebase_ne by exact Hne.
  apply map_filter_lookup_None_2. right. intros x _ H. cbn [fst] in H.
  apply underb_false in H. exact (H Hu).
Qed.

Lemma prune_out (B0 : store) (p : str) (cur : option node) (q : str) :
  ~ under p q -> prune B0 p cur !! q = B0 !! q.
Proof.
  intros Hu. unfold prune.
  assert (Hne : q <> p) by (intros ->; apply Hu; apply under_refl).
  rewrite rebase_ne by exact Hne.
  destruct (B0 !! q) as [n|] eqn:E.
  - apply map_filter_lookup_Some_2; [exact E |]. cbn [fst]. apply underb_false. exact Hu.
  - apply map_filter_lookup_None_2. left. exact E.
Qed.

Lemma not_under_root (p : str) : p <> s_root -> ~ under p s_root.
Proof.
  intros Hne [E | Hin]; [exact (Hne (eq_sym E)) |]. rewrite ancestors_root in Hin. exact Hin.
Qed.

(** an ancestor of [q] that lies at or below [p] puts [q] below [p] *)
Lemma not_under_anc (p q a : str) : cleaned q -> ~ under p q -> In a (ancestors q) -> ~ under p a.
Proof. intros Hc Hn Ha Hu. apply Hn. exact (under_child p a q Hc Hu Ha). Qed.

Lemma swf_prune (B0 : store) (p : str) (cur : option node) :
  swf B0 -> p <> s_root -> B0 !! p <> None -> (forall n, cur = Some n -> perm12 n) ->
  swf (prune B0 p cur).
Proof.
  intros Hwf Hne Hp Hcur. pose proof Hwf as [[mr Hroot] Hall].
  assert (Hpd : sdirect B0 p).
  { destruct (B0 !! p) as [n|] eqn:E; [| contradiction Hp; reflexivity].
    exact (swf_lookup_sdirect B0 p n Hwf E). }
  assert (Hkeep : forall q, sdirect B0 q -> ~ under p q \/ q = p -> sdirect (prune B0 p cur) q).
  { intros q [Hac Hf] Hq. split; [exact Hac |]. apply List.Forall_forall. intros a0 Ha.
    rewrite List.Forall_forall in Hf. destruct (Hf a0 Ha) as [m Hm]. exists m.
    rewrite prune_out; [exact Hm |].
    destruct Hq as [Hq | ->].
    - exact (not_under_anc p q a0 (proj1 Hac) Hq Ha).
    - apply under_antisym; [exact (ancestors_cleaned p a0 (proj1 Hac) Ha) | exact (proj1 Hac) | exact Ha]. }
  split.
  - exists mr. rewrite prune_out by exact (not_under_root p Hne). exact Hroot.
  - intros q n Hq. destruct (str_eq_dec q p) as [-> | Hqp].
    + rewrite prune_at in Hq. split; [| exact (Hcur n Hq)]. apply Hkeep; [exact Hpd | right; reflexivity].
    + destruct (under_dec p q) as [Hu | Hnu].
      * rewrite (prune_below B0 p cur q Hu Hqp) in Hq. discriminate Hq.
      * rewrite (prune_out B0 p cur q Hnu) in Hq. destruct (Hall q n Hq) as [Hd H12].
        split; [| exact H12]. apply Hkeep; [exact Hd | left; exact Hnu].
Qed.

Lemma all_small_prune (B0 : store) (p : str) (cur : option node) :
  all_small B0 -> (forall m c, cur = Some (File m c) -> small c) -> all_small (prune B0 p cur).
Proof.
  intros Hs Hcur q m c Hq. destruct (str_eq_dec q p) as [-> | Hqp].
  - rewrite prune_at in Hq. exact (Hcur m c Hq).
  - destruct (under_dec p q) as [Hu | Hnu].
    + rewrite (prune_below B0 p cur q Hu Hqp) in Hq. discriminate Hq.
    + rewrite (prune_out B0 p cur q Hnu) in Hq. exact (Hs q m c Hq).
Qed.

(* ------------------------------------------------------------------ *)
(** * The invariant with the exemption "the entry at [p] may have changed its type" *)

Section InvD.
  Variables Vb Vk : world -> store.
  Variable B0 : store.

  (** [Inv Vb Vk B0 w] (Spec/Inv.v) except that [inv_kind] is not asked of
      [p]: the state of a transaction in which the tracked directory [p] was
      removed and a file or symlink created in its place (recorded finding
      D13 at [p] alone) *)
  Record InvD (p : str) (w : world) : Prop := mkInvD {
    invd_quiet : quiet w;
    invd_wf_b : swf (Vb w);
    invd_wf_k : swf (Vk w);
    invd_untracked : forall q, w_infos w !! q = None -> sonode_eqv (Vb w !! q) (B0 !! q);
    invd_none : forall q, w_infos w !! q = Some None -> B0 !! q = None;
    invd_some : forall q fi, w_infos w !! q = Some (Some fi) ->
                  exists n0, B0 !! q = Some n0 /\ info_matches fi n0 /\
                             (q = s_root \/ exists nk, Vk w !! q = Some nk /\ copy_of n0 nk);
    invd_abs : forall q, tracked w q -> abs_cleaned q;
    invd_closed : forall q fi, w_infos w !! q = Some (Some fi) -> Forall (tracked w) (ancestors q);
    invd_nolink : forall q, tracked w q -> snolinkpar (Vb w) q;
    invd_backup_only : forall q, q <> s_root -> Vk w !! q <> None ->
                         exists fi, w_infos w !! q = Some (Some fi);
    invd_kind : forall q fi n, q <> p -> w_infos w !! q = Some (Some fi) -> Vb w !! q = Some n ->
                  node_kind n = fi_kind fi
  }.

  Lemma Inv_InvD (p : str) (w : world) : Inv Vb Vk B0 w -> InvD p w.
  Proof.
    intros [Hq Hwb Hwk Hun Hno Hso Hab Hcl Hnl Hbo Hki].
    constructor; try assumption. intros q fi n _. apply Hki.
  Qed.

  Lemma InvD_transfer (p : str) (w w' : world) : InvD p w -> same_all Vb Vk w w' -> InvD p w'.
  Proof.
    intros HI (HVb & HVk & Hi & Hc & Hf).
    destruct HI as [Hq Hwb Hwk Hun Hno Hso Hab Hcl Hnl Hbo Hki].
    constructor; unfold tracked in *; rewrite ?HVb, ?HVk, ?Hi; try assumption.
    destruct Hq as [Hq1 Hq2]. split; congruence.
  Qed.

  Hypothesis HwfB0 : swf B0.

  (** after the copy of the former directory [p] and of everything below it
      has been removed from the backup, with the records: the invariant
      holds, outright, for the baseline without the former subtree *)
  Lemma Inv_prune (w w' : world) (p : str) (fi0 : finfo) (D : list str) :
    InvD p w -> p <> s_root -> w_infos w !! p = Some (Some fi0) ->
    (forall m, Vb w !! p <> Some (Dir m)) ->
    removed_with_records Vk Vb w w' D ->
    (forall x, In x D <-> under p x /\ Vk w !! x <> None) ->
    Inv Vb Vk (prune B0 p (Vb w !! p)) w'.
  Proof.
    intros HI Hne Hip Hcur (Hq' & Hwfk' & HVb' & Heqv & Hrem & Hkeep) HD.
    assert (Hpk : Vk w !! p <> None).
    { destruct (invd_some _ _ HI p fi0 Hip) as (n0 & _ & _ & [E | (nk & Hnk & _)]); [contradiction | congruence]. }
    assert (Hlow : forall q, under p q -> q <> p -> Vb w !! q = None).
    { intros q [E | Hin] Hqp; [contradiction |].
      destruct (Vb w !! q) as [nq|] eqn:E; [| reflexivity]. exfalso.
      destruct (swf_below_dir (Vb w) p q nq (invd_wf_b _ _ HI) E Hin) as [m Hm]. exact (Hcur m Hm). }
    assert (HkU : forall q, under p q -> Vk w' !! q = None).
    { intros q Hu. destruct (in_dec str_eq_dec q D) as [Hin | Hnin]; [exact (proj1 (Hrem q Hin)) |].
      pose proof (Heqv q Hnin) as He.
      destruct (Vk w !! q) as [nq|] eqn:E.
      - exfalso. apply Hnin. apply HD. split; [exact Hu | congruence].
      - exact (sonode_eqv_none_r _ He). }
    assert (HkO : forall q, ~ under p q -> sonode_eqv (Vk w' !! q) (Vk w !! q)).
    { intros q Hnu. apply Heqv. intros Hin. apply HD in Hin. exact (Hnu (proj1 Hin)). }
    assert (HiO : forall q, ~ under p q -> w_infos w' !! q = w_infos w !! q).
    { intros q Hnu. apply Hkeep. intros Hin. apply HD in Hin. exact (Hnu (proj1 Hin)). }
    (* a record that is still there is the old one *)
    assert (Hold : forall q v, w_infos w' !! q = Some v -> w_infos w !! q = Some v).
    { intros q v Hv. destruct (in_dec str_eq_dec q D) as [Hin | Hnin].
      - rewrite (proj2 (Hrem q Hin)) in Hv. discriminate Hv.
      - rewrite <- (Hkeep q Hnin). exact Hv. }
    (* no record of an original at or below [p] is left *)
    assert (Hsome : forall q fi, w_infos w' !! q = Some (Some fi) -> ~ under p q).
    { intros q fi Hv Hu. pose proof (Hold q _ Hv) as Hv0.
      destruct (invd_some _ _ HI q fi Hv0) as (n0 & _ & _ & [E | (nk & Hnk & _)]).
      - subst q. exact (not_under_root p Hne Hu).
      - assert (Hin : In q D) by (apply HD; split; [exact Hu | congruence]).
        rewrite (proj2 (Hrem q Hin)) in Hv. discriminate Hv. }
    assert (Htr : forall q, tracked w' q -> tracked w q).
    { intros q Hq. unfold tracked in *. destruct (w_infos w' !! q) as [v|] eqn:E; [| contradiction Hq; reflexivity].
      rewrite (Hold q v E). discriminate. }
    constructor.
    - exact Hq'.
    - rewrite HVb'. exact (invd_wf_b _ _ HI).
    - exact Hwfk'.
    - intros q Hq. rewrite HVb'. destruct (str_eq_dec q p) as [-> | Hqp].
      + rewrite prune_at. apply sonode_eqv_refl.
      + destruct (under_dec p q) as [Hu | Hnu].
        * rewrite (prune_below B0 p _ q Hu Hqp), (Hlow q Hu Hqp). exact I.
        * rewrite (prune_out B0 p _ q Hnu). apply (invd_untracked _ _ HI). rewrite <- (HiO q Hnu). exact Hq.
    - intros q Hq. destruct (str_eq_dec q p) as [-> | Hqp].
      + assert (Hin : In p D) by (apply HD; split; [apply under_refl | exact Hpk]).
        rewrite (proj2 (Hrem p Hin)) in Hq. discriminate Hq.
      + destruct (under_dec p q) as [Hu | Hnu].
        * exact (prune_below B0 p _ q Hu Hqp).
        * rewrite (prune_out B0 p _ q Hnu). exact (invd_none _ _ HI q (Hold q _ Hq)).
    - intros q fi Hq. pose proof (Hsome q fi Hq) as Hnu. rewrite (prune_out B0 p _ q Hnu).
      destruct (invd_some _ _ HI q fi (Hold q _ Hq)) as (n0 & H0 & Him & Hk).
      exists n0. split; [exact H0 |]. split; [exact Him |].
      destruct Hk as [-> | (nk & Hnk & Hc)]; [left; reflexivity | right].
      pose proof (HkO q Hnu) as He. rewrite Hnk in He.
      destruct (sonode_eqv_some_r _ _ He) as (nk' & Hnk' & Hee).
      exists nk'. split; [exact Hnk' | exact (copy_of_eqv_r n0 nk nk' Hc Hee)].
    - intros q Hq. exact (invd_abs _ _ HI q (Htr q Hq)).
    - intros q fi Hq. pose proof (Hsome q fi Hq) as Hnu.
      pose proof (invd_closed _ _ HI q fi (Hold q _ Hq)) as Hf.
      assert (Hcq : cleaned q).
      { apply (invd_abs _ _ HI q). unfold tracked. rewrite (Hold q _ Hq). discriminate. }
      apply List.Forall_forall. intros a0 Ha. rewrite List.Forall_forall in Hf.
      unfold tracked. rewrite (HiO a0 (not_under_anc p q a0 Hcq Hnu Ha)). exact (Hf a0 Ha).
    - intros q Hq. rewrite HVb'. exact (invd_nolink _ _ HI q (Htr q Hq)).
    - intros q Hqr Hq. destruct (under_dec p q) as [Hu | Hnu]; [contradiction Hq; exact (HkU q Hu) |].
      pose proof (HkO q Hnu) as He.
      destruct (invd_backup_only _ _ HI q Hqr) as [fi Hfi].
      { intros E. rewrite E in He. apply Hq. exact (sonode_eqv_none_r _ He). }
      exists fi. rewrite (HiO q Hnu). exact Hfi.
    - intros q fi n Hq Hn. rewrite HVb' in Hn. pose proof (Hsome q fi Hq) as Hnu.
      apply (invd_kind _ _ HI q fi n); [| exact (Hold q _ Hq) | exact Hn].
      intros ->. apply Hnu. apply under_refl.
  Qed.
End InvD.

(* ------------------------------------------------------------------ *)
(** * ForceBackup of a path whose original was a directory *)

Section ForceDir.
  Variables base backup : fsapi.
  Variables Vb Vk : world -> store.
  Variables tnb tnk : str -> str.
  Variables accb acck : str -> str -> Prop.
  Variables rhb rhk whb whk : fhandle -> str -> nat -> Prop.
  Variables hid anc : str -> Prop.
  Variable B0 : store.

  Hypothesis HLb : base_laws base Vb Vk tnb accb rhb whb hid anc.
  Hypothesis HLk : backup_laws backup Vb Vk tnk acck rhk whk.
  (** the backup side of the Walk: the two extra laws *)
  Hypothesis Hrm : removeall_emptydir_law backup Vk Vb.
  Hypothesis Hrd : readdir_exact_law backup Vk Vb.
  Hypothesis Hlinks : links_ok tnb tnk accb acck B0.
  Hypothesis Hsmall : all_small B0.
  Hypothesis HwfB0 : swf B0.

  Let Lb : api_laws base Vb Vk tnb accb rhb whb hid anc := HLb.
  Let Lk : api_laws backup Vk Vb tnk acck rhk whk nohid nohid := HLk.

  Lemma Vb_inf : forall w i, Vb (with_infos w i) = Vb w.
  Proof. exact (law_infos_indep _ _ _ _ _ _ _ _ _ HLb). Qed.

  (** the copy of a directory original is a directory *)
  Lemma dir_copy (w : world) (p : str) (fi0 : finfo) :
    InvD Vb Vk B0 p w -> p <> s_root -> w_infos w !! p = Some (Some fi0) -> fi_kind fi0 = KDir ->
    (exists m0, B0 !! p = Some (Dir m0)) /\ exists mk, Vk w !! p = Some (Dir mk).
  Proof.
    intros HI Hne Hi Hk.
    destruct (invd_some _ _ _ _ _ HI p fi0 Hi) as (n0 & H0 & Him & [E | (nk & Hnk & Hc)]); [contradiction |].
    destruct n0 as [m0 | m0 c0 | m0 t0]; try (rewrite (proj1 Him) in Hk; discriminate Hk).
    split; [exists m0; exact H0 |]. destruct Hc as (mk & -> & _). exists mk. exact Hnk.
  Qed.

  (** ** T1, in a state of the transaction: which records go, which stay *)
  Lemma try_remove_backup_dir_spec (w : world) (p : str) (fi0 : finfo) :
    InvD Vb Vk B0 p w -> p <> s_root -> w_infos w !! p = Some (Some fi0) -> fi_kind fi0 = KDir ->
    exists r w' D, try_remove_backup backup p w = (r, w') /\ r <> MHalt /\
      removed_with_records Vk Vb w w' D /\
      (forall x, In x D -> under p x /\ exists fi, w_infos w !! x = Some (Some fi)) /\
      (r = MOk tt -> forall x, In x D <-> under p x /\ Vk w !! x <> None).
  Proof.
    intros HI Hne Hi Hk.
    destruct (dir_copy w p fi0 HI Hne Hi Hk) as [_ [mk Hmk]].
    destruct (try_remove_backup_walk backup Vk Vb tnk acck rhk whk Lk Vb_inf Hrm Hrd
                w p fi0 mk (invd_quiet _ _ _ _ _ HI) (invd_wf_k _ _ _ _ _ HI) Hne Hi Hmk)
      as (r & w' & D & Hrun & Hnh & Hrw & HD & Hall).
    exists r, w', D. split; [exact Hrun |]. split; [exact Hnh |]. split; [exact Hrw |]. split.
    - intros x Hx. destruct (HD x Hx) as [Hu Hex]. split; [exact Hu |].
      apply (invd_backup_only _ _ _ _ _ HI x); [exact (under_not_root p x Hne Hu) | exact Hex].
    - intros Hr x. split; [exact (HD x) | intros [Hu Hex]; exact (Hall Hr x Hu Hex)].
  Qed.

  (** the new baseline satisfies what the theorems ask of a baseline *)
  Lemma prune_ok (w : world) (p : str) (fi0 : finfo) :
    InvD Vb Vk B0 p w -> p <> s_root -> w_infos w !! p = Some (Some fi0) ->
    entry_ok tnb tnk accb acck p (Vb w !! p) ->
    swf (prune B0 p (Vb w !! p)) /\
    links_ok tnb tnk accb acck (prune B0 p (Vb w !! p)) /\
    all_small (prune B0 p (Vb w !! p)).
  Proof.
    intros HI Hne Hi Hcur.
    destruct (invd_some _ _ _ _ _ HI p fi0 Hi) as (n0 & H0 & _).
    split; [| split].
    - apply (swf_prune B0 p _ HwfB0 Hne); [congruence |].
      intros n Hn. exact (swf_lookup_perm12 _ _ _ (invd_wf_b _ _ _ _ _ HI) Hn).
    - intros q m t Hq. destruct (str_eq_dec q p) as [-> | Hqp].
      + rewrite prune_at in Hq. rewrite Hq in Hcur. exact Hcur.
      + destruct (under_dec p q) as [Hu | Hnu].
        * rewrite (prune_below B0 p _ q Hu Hqp) in Hq. discriminate Hq.
        * rewrite (prune_out B0 p _ q Hnu) in Hq. exact (Hlinks q m t Hq).
    - apply (all_small_prune B0 p _ Hsmall). intros m c Hc. rewrite Hc in Hcur. exact Hcur.
  Qed.

  Lemma force_backup_run_rm_err (w w1 w2 : world) (p : str) (e : errno) :
    real_path base p w = (MOk p, w1) -> try_remove_backup backup p w1 = (MErr e, w2) ->
    b_force_backup base backup p w = (MErr e, w2).
  Proof.
    intros H1 H2. unfold b_force_backup. rewrite (bind_ok _ _ w w1 p H1).
    assert (Hs : already_seen p w1 = (MOk (w_infos w1 !! p), w1)) by reflexivity.
    rewrite (bind_ok _ _ w1 w1 _ Hs).
    rewrite (bind_err _ _ w1 w2 e H2). reflexivity.
  Qed.

  (** ** T2: ForceBackup(p), [p] tracked as an existing directory, now
      absent or a file / an acceptable symlink.

      Either the removal of the old copy failed part way (a listing failed
      or the Walk ran out of its budget: the call returns that error; only
      copies at or below [p] were removed, with their records), or the state
      satisfies the invariant - outright - for the baseline
      [prune B0 p (Vb w !! p)]: [B0] without the former directory and its
      content, with the entry found at [p] now in its place. *)
  Definition rm_failed (w w' : world) (p : str) (r : mres unit) : Prop :=
    exists e D, r = MErr e /\ removed_with_records Vk Vb w w' D /\
                (forall x, In x D -> under p x /\ exists fi, w_infos w !! x = Some (Some fi)).

  Theorem force_backup_dir_specS (w : world) (p : str) (fi0 : finfo) :
    InvD Vb Vk B0 p w -> snolinkpar (Vb w) p -> p <> s_root ->
    w_infos w !! p = Some (Some fi0) -> fi_kind fi0 = KDir ->
    entry_ok tnb tnk accb acck p (Vb w !! p) ->
    exists r w', b_force_backup base backup p w = (r, w') /\ r <> MHalt /\ Vb w' = Vb w /\
      (rm_failed w w' p r \/
       (Inv Vb Vk (prune B0 p (Vb w !! p)) w' /\
        (* records outside the former subtree are kept; "did not exist" records are kept everywhere *)
        (forall q, ~ under p q -> w_infos w !! q <> None -> w_infos w' !! q = w_infos w !! q) /\
        (forall q, q <> p -> w_infos w !! q = Some None -> w_infos w' !! q = Some None) /\
        (* the records of the originals below [p] are gone *)
        (forall q fi, under p q -> q <> p -> w_infos w' !! q <> Some (Some fi)) /\
        (forall q, w_infos w' !! q <> None -> w_infos w !! q <> None \/ In q (cands p)) /\
        (r = MOk tt ->
           Forall (tracked w') (ancestors p) /\
           match Vb w !! p with
           | None => w_infos w' !! p = Some None
           | Some n => exists fi, w_infos w' !! p = Some (Some fi) /\ info_matches fi n
           end) /\
        ((forall q n, In q (ancestors p) -> Vb w !! q = Some n -> node_kind n = KDir) -> r = MOk tt))).
  Proof.
    intros HI Hnlp Hne Hi Hk Hcur.
    destruct (prune_ok w p fi0 HI Hne Hi Hcur) as (Hwf' & Hlinks' & Hsmall').
    (* resolve *)
    destruct (real_path_resolved_spec base Vb Vk tnb accb rhb whb hid anc Lb w p
                (invd_quiet _ _ _ _ _ HI) (invd_wf_b _ _ _ _ _ HI) Hnlp) as (w1 & Hrun1 & HVb1 & Hsr1).
    pose proof (same_all_base Vb Vk w w1 HVb1 Hsr1) as Hsa1.
    pose proof (InvD_transfer Vb Vk B0 p w w1 HI Hsa1) as HI1.
    pose proof Hsa1 as (_ & HVk1 & Hi1 & _ & _).
    (* drop the old copies *)
    destruct (try_remove_backup_dir_spec w1 p fi0 HI1 Hne) as (r2 & w2 & D & Hrun2 & Hnh2 & Hrw & HD & Hall).
    { rewrite Hi1. exact Hi. }
    { exact Hk. }
    assert (Hrw0 : removed_with_records Vk Vb w w2 D).
    { destruct Hrw as (A1 & A2 & A3 & A4 & A5 & A6).
      split; [exact A1 | split; [exact A2 | split; [congruence | split; [| split; [exact A5 |]]]]].
      - rewrite <- HVk1. exact A4.
      - intros x Hx. rewrite <- Hi1. exact (A6 x Hx). }
    assert (HD0 : forall x, In x D -> under p x /\ exists fi, w_infos w !! x = Some (Some fi)).
    { intros x Hx. rewrite <- Hi1. exact (HD x Hx). }
    pose proof Hrw0 as (_ & _ & HVb2 & _).
    destruct r2 as [[] | e |]; [| | contradiction Hnh2; reflexivity].
    2:{ exists (MErr e), w2. split; [exact (force_backup_run_rm_err w w1 w2 p e Hrun1 Hrun2) |].
        split; [discriminate |]. split; [exact HVb2 |]. left. exists e, D.
        split; [reflexivity | split; [exact Hrw0 | exact HD0]]. }
    assert (HDall : forall x, In x D <-> under p x /\ Vk w !! x <> None).
    { intros x. rewrite <- HVk1. exact (Hall eq_refl x). }
    assert (Hnd : forall m, Vb w !! p <> Some (Dir m)).
    { intros m Hm. rewrite Hm in Hcur. exact Hcur. }
    pose proof (Inv_prune Vb Vk B0 w w2 p fi0 D HI Hne Hi Hnd Hrw0 HDall) as HI2.
    (* back up again *)
    assert (Hnlp2 : snolinkpar (Vb w2) p) by (rewrite HVb2; exact Hnlp).
    destruct (try_backup_specS base backup Vb Vk tnb tnk accb acck rhb rhk whb whk hid anc
                (prune B0 p (Vb w !! p)) HLb HLk Hlinks' Hsmall' Hwf' w2 p HI2 Hnlp2)
      as (r & w' & Hrun3 & Hnh & HI' & (HVb' & Hm & Hd) & Htr & Hok).
    destruct Hrw0 as (_ & _ & _ & _ & Hrem & Hkeep).
    assert (Hrun : b_force_backup base backup p w = (r, w')).
    { destruct r as [[] | e |]; [| | contradiction Hnh; reflexivity].
      - exact (force_backup_run_ok base backup w w1 w2 w' p Hrun1 Hrun2 Hrun3).
      - apply (force_backup_run_err base backup w w1 w2 w' w' p e Hrun1 Hrun2 Hrun3).
        rewrite Hi1, Hi. reflexivity. }
    exists r, w'. split; [exact Hrun |]. split; [exact Hnh |]. split; [congruence |]. right.
    split; [exact HI' |]. split; [| split; [| split; [| split; [| split]]]].
    - intros q Hnu Hq.
      assert (E : w_infos w2 !! q = w_infos w !! q).
      { apply Hkeep. intros Hin. apply HDall in Hin. exact (Hnu (proj1 Hin)). }
      rewrite <- E. apply Hm. rewrite E. exact Hq.
    - intros q Hqp Hq.
      assert (E : w_infos w2 !! q = w_infos w !! q).
      { apply Hkeep. intros Hin. destruct (HD0 q Hin) as [_ [fi Hfi]]. congruence. }
      rewrite <- Hq, <- E. apply Hm. rewrite E, Hq. discriminate.
    - intros q fi Hu Hqp Hq.
      destruct (inv_some _ _ _ _ HI' q fi Hq) as (n0 & H0 & _).
      rewrite (prune_below B0 p _ q Hu Hqp) in H0. discriminate H0.
    - intros q Hq. destruct (Hd q Hq) as [H | H]; [left | right; exact H].
      destruct (in_dec str_eq_dec q D) as [Hin | Hnin].
      + rewrite (proj2 (Hrem q Hin)) in H. contradiction H. reflexivity.
      + rewrite <- (Hkeep q Hnin). exact H.
    - intros Hr. destruct (Htr Hr) as [Htp Hanc]. split; [exact Hanc |].
      unfold tracked in Htp.
      destruct (w_infos w' !! p) as [[fi|]|] eqn:Hip; [| | contradiction Htp; reflexivity].
      + destruct (inv_some _ _ _ _ HI' p fi Hip) as (n0 & H0 & Him & _).
        rewrite prune_at in H0. rewrite H0. exists fi. split; [reflexivity | exact Him].
      + pose proof (inv_none _ _ _ _ HI' p Hip) as H0. rewrite prune_at in H0. rewrite H0. reflexivity.
    - intros Hdirs. apply Hok. intros q n Hq Hn. rewrite HVb2 in Hn. exact (Hdirs q n Hq Hn).
  Qed.

  (** ** Rollback afterwards *)
  Hypothesis HLb2 : base_laws2 base Vb Vk tnb accb rhb whb.
  Hypothesis Hloc : loc_ok hid anc B0.

  Lemma loc_ok_prune (w : world) (p : str) :
    InvD Vb Vk B0 p w -> (forall m, Vb w !! p <> Some (Dir m)) ->
    loc_ok hid anc (prune B0 p (Vb w !! p)).
  Proof.
    intros HI Hnd. split.
    - intros q Hh. destruct (str_eq_dec q p) as [-> | Hqp].
      + rewrite prune_at. exact (law_hid_absent _ _ _ _ _ _ _ _ _ Lb w p Hh).
      + destruct (under_dec p q) as [Hu | Hnu]; [exact (prune_below B0 p _ q Hu Hqp) |].
        rewrite (prune_out B0 p _ q Hnu). exact (proj1 Hloc q Hh).
    - intros q Ha.
      destruct (law_anc_dir _ _ _ _ _ _ _ _ _ Lb w q Ha (invd_wf_b _ _ _ _ _ HI)) as [m Hm].
      destruct (str_eq_dec q p) as [-> | Hqp]; [exists m; rewrite prune_at; exact Hm |].
      destruct (under_dec p q) as [[E | Hin] | Hnu]; [contradiction | exfalso |].
      + destruct (swf_below_dir (Vb w) p q _ (invd_wf_b _ _ _ _ _ HI) Hm Hin) as [mp Hmp]. exact (Hnd mp Hmp).
      + destruct (proj2 Hloc q Ha) as [m0 Hm0]. exists m0. rewrite (prune_out B0 p _ q Hnu). exact Hm0.
  Qed.

  (** after a ForceBackup(p) that returned nil, covered operations and
      Rollback: [p] is as at the moment of the call, what lay below the
      former directory is NOT back, every path outside the former subtree
      is as in [B0] *)
  Theorem c17_dir_specS (w : world) (p : str) (fi0 : finfo) :
    InvD Vb Vk B0 p w -> snolinkpar (Vb w) p -> p <> s_root ->
    w_infos w !! p = Some (Some fi0) -> fi_kind fi0 = KDir ->
    entry_ok tnb tnk accb acck p (Vb w !! p) ->
    forall w1 ops w2,
      b_force_backup base backup p w = (MOk tt, w1) -> good_run base backup Vb w1 ops w2 ->
      exists w3, b_rollback base backup w2 = (MOk tt, w3) /\
                 sonode_eqv (Vb w3 !! p) (Vb w !! p) /\
                 (forall q, under p q -> q <> p -> Vb w3 !! q = None) /\
                 (forall q, ~ under p q -> q <> s_root -> sonode_eqv (Vb w3 !! q) (B0 !! q)) /\
                 (forall q, q <> s_root -> Vk w3 !! q = None) /\ w_infos w3 = ∅.
  Proof.
    intros HI Hnlp Hne Hi Hk Hcur w1 ops w2 Hrun Hgood.
    destruct (prune_ok w p fi0 HI Hne Hi Hcur) as (Hwf' & Hlinks' & Hsmall').
    assert (Hnd : forall m, Vb w !! p <> Some (Dir m)).
    { intros m Hm. rewrite Hm in Hcur. exact Hcur. }
    destruct (force_backup_dir_specS w p fi0 HI Hnlp Hne Hi Hk Hcur)
      as (r' & w1' & Hrun' & _ & _ & [(e & D & Er & _) | (HI1 & _)]);
      rewrite Hrun in Hrun'; injection Hrun' as <- <-; [discriminate Er |].
    pose proof (good_run_inv base backup Vb Vk tnb tnk accb acck rhb rhk whb whk hid anc _
                  HLb HLb2 HLk Hlinks' Hsmall' Hwf' w1 ops w2 Hgood HI1) as HI2.
    destruct (rollback_spec base backup Vb Vk tnb tnk accb acck rhb rhk whb whk hid anc _
                HLb HLk Hlinks' Hsmall' Hwf' (loc_ok_prune w p HI Hnd) w2 HI2) as (w3 & Hrb & _ & Hb & Hkk & Hi3).
    exists w3. split; [exact Hrb |]. split; [| split; [| split; [| split; [exact Hkk | exact Hi3]]]].
    - pose proof (Hb p Hne) as E. rewrite prune_at in E. exact E.
    - intros q Hu Hqp. pose proof (Hb q (under_not_root p q Hne Hu)) as E.
      rewrite (prune_below B0 p _ q Hu Hqp) in E. exact (sonode_eqv_none_r _ E).
    - intros q Hnu Hqr. pose proof (Hb q Hqr) as E. rewrite (prune_out B0 p _ q Hnu) in E. exact E.
  Qed.
End ForceDir.

(* ------------------------------------------------------------------ *)
(** * The theorems, fully quantified *)

(** T1: the Walk branch of [try_remove_backup] over the laws of one filesystem *)
Definition try_remove_backup_walk_stmt (a : fsapi) (V V' : world -> store) (tn : str -> str)
           (accp : str -> str -> Prop) (rh wh : fhandle -> str -> nat -> Prop) : Prop :=
  api_laws a V V' tn accp rh wh nohid nohid ->
  (forall w i, V' (with_infos w i) = V' w) ->
  removeall_emptydir_law a V V' -> readdir_exact_law a V V' ->
  forall w p fi0 mk, quiet w -> swf (V w) -> p <> s_root ->
  w_infos w !! p = Some (Some fi0) -> V w !! p = Some (Dir mk) ->
  exists r w' D, try_remove_backup a p w = (r, w') /\ r <> MHalt /\
    removed_with_records V V' w w' D /\
    (forall x, In x D -> under p x /\ V w !! x <> None) /\
    (r = MOk tt -> forall x, under p x -> V w !! x <> None -> In x D).

Theorem try_remove_backup_walk_spec :
  forall a V V' tn accp rh wh, try_remove_backup_walk_stmt a V V' tn accp rh wh.
Proof.
  intros a V V' tn accp rh wh. unfold try_remove_backup_walk_stmt.
  intros HLa HV'i Hrm Hrd w p fi0 mk Hq Hwf Hne Hi Hp.
  exact (try_remove_backup_walk a V V' tn accp rh wh HLa HV'i Hrm Hrd w p fi0 mk Hq Hwf Hne Hi Hp).
Qed.

(** T2: ForceBackup of a path tracked as an existing directory.  The conclusion: *)
Definition force_backup_dir_concl (base backup : fsapi) (Vb Vk : world -> store)
           (tnb tnk : str -> str) (accb acck : str -> str -> Prop) (B0 : store)
           (w : world) (p : str) : Prop :=
  let B0' := prune B0 p (Vb w !! p) in
  swf B0' /\ links_ok tnb tnk accb acck B0' /\ all_small B0' /\
  exists r w', b_force_backup base backup p w = (r, w') /\ r <> MHalt /\ Vb w' = Vb w /\
    (rm_failed Vb Vk w w' p r \/
     (Inv Vb Vk B0' w' /\
      (forall q, ~ under p q -> w_infos w !! q <> None -> w_infos w' !! q = w_infos w !! q) /\
      (forall q, q <> p -> w_infos w !! q = Some None -> w_infos w' !! q = Some None) /\
      (forall q fi, under p q -> q <> p -> w_infos w' !! q <> Some (Some fi)) /\
      (forall q, w_infos w' !! q <> None -> w_infos w !! q <> None \/ In q (cands p)) /\
      (r = MOk tt ->
         Forall (tracked w') (ancestors p) /\
         match Vb w !! p with
         | None => w_infos w' !! p = Some None
         | Some n => exists fi, w_infos w' !! p = Some (Some fi) /\ info_matches fi n
         end) /\
      ((forall q n, In q (ancestors p) -> Vb w !! q = Some n -> node_kind n = KDir) -> r = MOk tt))).

Definition force_backup_dir_stmt (base backup : fsapi) (Vb Vk : world -> store)
           (tnb tnk : str -> str) (accb acck : str -> str -> Prop)
           (rhb rhk whb whk : fhandle -> str -> nat -> Prop) (hid anc : str -> Prop) (B0 : store) : Prop :=
  base_laws base Vb Vk tnb accb rhb whb hid anc -> backup_laws backup Vb Vk tnk acck rhk whk ->
  removeall_emptydir_law backup Vk Vb -> readdir_exact_law backup Vk Vb ->
  links_ok tnb tnk accb acck B0 -> all_small B0 -> swf B0 ->
  forall w p fi0, InvD Vb Vk B0 p w -> snolinkpar (Vb w) p -> p <> s_root ->
  w_infos w !! p = Some (Some fi0) -> fi_kind fi0 = KDir ->
  entry_ok tnb tnk accb acck p (Vb w !! p) ->
  force_backup_dir_concl base backup Vb Vk tnb tnk accb acck B0 w p.

Theorem force_backup_dir_spec :
  forall base backup Vb Vk tnb tnk accb acck rhb rhk whb whk hid anc B0,
  force_backup_dir_stmt base backup Vb Vk tnb tnk accb acck rhb rhk whb whk hid anc B0.
Proof.
  intros base backup Vb Vk tnb tnk accb acck rhb rhk whb whk hid anc B0.
  unfold force_backup_dir_stmt.
  intros HLb HLk Hrm Hrd Hlinks Hsmall HwfB0 w p fi0 HI Hnlp Hne Hi Hk Hcur.
  unfold force_backup_dir_concl. cbv zeta.
  destruct (prune_ok Vb Vk tnb tnk accb acck B0 Hlinks Hsmall HwfB0 w p fi0 HI Hne Hi Hcur)
    as (Hwf' & Hlinks' & Hsmall').
  split; [exact Hwf' | split; [exact Hlinks' | split; [exact Hsmall' |]]].
  exact (force_backup_dir_specS base backup Vb Vk tnb tnk accb acck rhb rhk whb whk hid anc B0
           HLb HLk Hrm Hrd Hlinks Hsmall HwfB0 w p fi0 HI Hnlp Hne Hi Hk Hcur).
Qed.

(** Rollback after a ForceBackup(p) that returned nil *)
Definition c17_dir_stmt (base backup : fsapi) (Vb Vk : world -> store)
           (tnb tnk : str -> str) (accb acck : str -> str -> Prop)
           (rhb rhk whb whk : fhandle -> str -> nat -> Prop) (hid anc : str -> Prop) (B0 : store) : Prop :=
  base_laws base Vb Vk tnb accb rhb whb hid anc -> base_laws2 base Vb Vk tnb accb rhb whb ->
  backup_laws backup Vb Vk tnk acck rhk whk ->
  removeall_emptydir_law backup Vk Vb -> readdir_exact_law backup Vk Vb ->
  links_ok tnb tnk accb acck B0 -> all_small B0 -> swf B0 -> loc_ok hid anc B0 ->
  forall w p fi0, InvD Vb Vk B0 p w -> snolinkpar (Vb w) p -> p <> s_root ->
  w_infos w !! p = Some (Some fi0) -> fi_kind fi0 = KDir ->
  entry_ok tnb tnk accb acck p (Vb w !! p) ->
  forall w1 ops w2,
    b_force_backup base backup p w = (MOk tt, w1) -> good_run base backup Vb w1 ops w2 ->
    exists w3, b_rollback base backup w2 = (MOk tt, w3) /\
               sonode_eqv (Vb w3 !! p) (Vb w !! p) /\
               (forall q, under p q -> q <> p -> Vb w3 !! q = None) /\
               (forall q, ~ under p q -> q <> s_root -> sonode_eqv (Vb w3 !! q) (B0 !! q)) /\
               (forall q, q <> s_root -> Vk w3 !! q = None) /\ w_infos w3 = ∅.

Theorem c17_dir_spec :
  forall base backup Vb Vk tnb tnk accb acck rhb rhk whb whk hid anc B0,
  c17_dir_stmt base backup Vb Vk tnb tnk accb acck rhb rhk whb whk hid anc B0.
Proof.
  intros base backup Vb Vk tnb tnk accb acck rhb rhk whb whk hid anc B0. unfold c17_dir_stmt.
  intros HLb HLb2 HLk Hrm Hrd Hlinks Hsmall HwfB0 Hloc w p fi0 HI Hnlp Hne Hi Hk Hcur.
  exact (c17_dir_specS base backup Vb Vk tnb tnk accb acck rhb rhk whb whk hid anc B0
           HLb HLk Hrm Hrd Hlinks Hsmall HwfB0 HLb2 Hloc w p fi0 HI Hnlp Hne Hi Hk Hcur).
Qed.

(** the same for a whole transaction: initial state, covered operations (in
    which the directory [p] was backed up and removed), ForceBackup(p) -> nil,
    covered operations, Rollback.  In a state reached by covered operations
    [Inv] holds, so a tracked directory that is not a directory any more is
    absent. *)
Definition c17_dir_initial_stmt (base backup : fsapi) (Vb Vk : world -> store)
           (tnb tnk : str -> str) (accb acck : str -> str -> Prop)
           (rhb rhk whb whk : fhandle -> str -> nat -> Prop) (hid anc : str -> Prop) (B0 : store) : Prop :=
  base_laws base Vb Vk tnb accb rhb whb hid anc -> base_laws2 base Vb Vk tnb accb rhb whb ->
  backup_laws backup Vb Vk tnk acck rhk whk ->
  removeall_emptydir_law backup Vk Vb -> readdir_exact_law backup Vk Vb -> all_small B0 ->
  forall w0 ops1 w p fi0, initial Vb Vk tnb tnk accb acck B0 w0 -> good_run base backup Vb w0 ops1 w ->
  snolinkpar (Vb w) p -> p <> s_root ->
  w_infos w !! p = Some (Some fi0) -> fi_kind fi0 = KDir -> (forall m, Vb w !! p <> Some (Dir m)) ->
  forall w1 ops2 w2,
    b_force_backup base backup p w = (MOk tt, w1) -> good_run base backup Vb w1 ops2 w2 ->
    Vb w !! p = None /\
    exists w3, b_rollback base backup w2 = (MOk tt, w3) /\
               (forall q, under p q -> Vb w3 !! q = None) /\
               (forall q, ~ under p q -> q <> s_root -> sonode_eqv (Vb w3 !! q) (Vb w0 !! q)) /\
               (forall q, q <> s_root -> Vk w3 !! q = None) /\ w_infos w3 = ∅.

Theorem c17_dir_initial_spec :
  forall base backup Vb Vk tnb tnk accb acck rhb rhk whb whk hid anc B0,
  c17_dir_initial_stmt base backup Vb Vk tnb tnk accb acck rhb rhk whb whk hid anc B0.
Proof.
  intros base backup Vb Vk tnb tnk accb acck rhb rhk whb whk hid anc B0. unfold c17_dir_initial_stmt.
  intros HLb HLb2 HLk Hrm Hrd Hsmall w0 ops1 w p fi0 Hinit Hrun1 Hnlp Hne Hi Hk Hnd w1 ops2 w2 Hrun Hgood.
  pose proof Hinit as (_ & _ & HV0 & HwfB & Hlinks & _ & _).
  pose proof (initial_inv_spec Vb Vk tnb tnk accb acck B0 w0 Hinit) as HI0.
  pose proof (good_run_inv base backup Vb Vk tnb tnk accb acck rhb rhk whb whk hid anc B0
                HLb HLb2 HLk Hlinks Hsmall HwfB w0 ops1 w Hrun1 HI0) as HI.
  assert (Hnone : Vb w !! p = None).
  { destruct (Vb w !! p) as [n|] eqn:E; [| reflexivity]. exfalso.
    pose proof (inv_kind _ _ _ _ HI p fi0 n Hi E) as Hkn. rewrite Hk in Hkn.
    destruct n as [m | m c | m t]; [exact (Hnd m eq_refl) | discriminate Hkn | discriminate Hkn]. }
  split; [exact Hnone |].
  destruct (c17_dir_specS base backup Vb Vk tnb tnk accb acck rhb rhk whb whk hid anc B0
              HLb HLk Hrm Hrd Hlinks Hsmall HwfB HLb2
              (initial_loc_ok base Vb Vk tnb tnk accb acck rhb whb hid anc B0 HLb w0 Hinit)
              w p fi0 (Inv_InvD Vb Vk B0 p w HI) Hnlp Hne Hi Hk ltac:(rewrite Hnone; exact I) w1 ops2 w2 Hrun Hgood)
    as (w3 & Hrb & Hp & Hbelow & Hout & Hkk & Hi3).
  exists w3. split; [exact Hrb |]. split; [| split; [| split; [exact Hkk | exact Hi3]]].
  - intros q Hu. destruct (str_eq_dec q p) as [-> | Hqp]; [| exact (Hbelow q Hu Hqp)].
    rewrite Hnone in Hp. exact (sonode_eqv_none_r _ Hp).
  - intros q Hnu Hqr. rewrite HV0. exact (Hout q Hnu Hqr).
Qed.

Print Assumptions try_remove_backup_walk_spec.
Print Assumptions force_backup_dir_spec.
Print Assumptions c17_dir_spec.
Print Assumptions c17_dir_initial_spec.

(* ================================================================== *)
(** * The two extra laws hold in the concrete model

    [the_api tag pa = spy tag (prefixfs pa osfs)] with the view [Vp pa]
    (Proofs/LawsOsfs*.v, Theorem B). *)
From BFS Require Import Spec.ViewOsfs.
From BFS Require Import Proofs.LawsOsfsBase Proofs.LawsOsfsA Proofs.LawsOsfsB Proofs.LawsOsfs.
Local Open Scope nat_scope.

(** [child_of] at the level of components *)
Lemma child_of_comps (p q : str) : abs_cleaned p -> abs_cleaned q ->
  (child_of p q <-> exists c, comps q = comps p ++ [c]).
Proof.
  intros Hp Hq.
  pose proof (good_key_comps q (proj2 Hq)) as Hgq. pose proof (good_key_comps p (proj2 Hp)) as Hgp.
  split.
  - intros [Hin Hlast].
    apply (ancestors_In q p Hq) in Hin. destruct Hin as (k' & Hk' & Ep).
    apply kprefixes_In in Hk'. destruct Hk' as (r & Hr & Er).
    assert (Hgk' : good_key k') by (rewrite Er in Hgq; apply good_key_app in Hgq; tauto).
    assert (Ecp : comps p = k') by (rewrite Ep; apply comps_kpath_good; exact Hgk').
    destruct r as [|c r']; [contradiction Hr; reflexivity |].
    destruct r' as [|c2 r2]; [exists c; rewrite Ecp; exact Er | exfalso].
    assert (Hgkc : good_key (k' ++ [c])).
    { rewrite Er in Hgq. change (c :: c2 :: r2) with ([c] ++ c2 :: r2) in Hgq.
      rewrite app_assoc in Hgq. apply good_key_app in Hgq. tauto. }
    assert (Ha : In (kpath (k' ++ [c])) (ancestors q)).
    { apply (ancestors_In q _ Hq). exists (k' ++ [c]). split; [| reflexivity].
      apply kprefixes_In. exists (c2 :: r2). split; [discriminate |].
      rewrite Er, <- app_assoc. reflexivity. }
    destruct (Hlast _ Ha) as [E | Hanc].
    + rewrite Ep in E. apply kpath_inj_good in E; [| exact Hgkc | exact Hgk'].
      apply (f_equal (@length _)) in E. rewrite app_length in E. simpl in E. lia.
    + apply (ancestors_In p _ Hp) in Hanc. destruct Hanc as (k'' & Hk'' & E).
      rewrite Ecp in Hk''. apply kprefixes_In in Hk''. destruct Hk'' as (r'' & _ & Er'').
      assert (Hgk'' : good_key k'') by (rewrite Er'' in Hgk'; apply good_key_app in Hgk'; tauto).
      apply kpath_inj_good in E; [| exact Hgkc | exact Hgk''].
      rewrite <- E in Er''. apply (f_equal (@length _)) in Er''. rewrite !app_length in Er''. simpl in Er''. lia.
  - intros [c Ec]. split.
    + apply (ancestors_In q p Hq). exists (comps p). split; [| symmetry; apply kpath_comps; exact Hp].
      rewrite Ec, kprefixes_snoc. apply in_or_app. right. left. reflexivity.
    + intros a0 Ha. apply (ancestors_In q a0 Hq) in Ha. destruct Ha as (k' & Hk' & E).
      rewrite Ec, kprefixes_snoc in Hk'. apply in_app_or in Hk'. destruct Hk' as [Hk' | [<- | []]].
      * right. apply (ancestors_In p a0 Hp). exists k'. split; assumption.
      * left. rewrite E. apply kpath_comps. exact Hp.
Qed.

(** a listing has no duplicates *)
Lemma key_child (k k' : key) :
  key_prefixb k k' = true -> length k' = S (length k) -> k' = k ++ [last k' []].
Proof.
  intros H1 H2. apply key_prefixb_iff in H1. destruct H1 as [r ->].
  rewrite app_length in H2. destruct r as [|x [|y r]]; simpl in H2; try lia.
  rewrite last_last. reflexivity.
Qed.

Lemma child_names_NoDup (f : fs) (k : key) : NoDup (child_names f k).
Proof.
  unfold child_names.
  assert (Hfun : forall kv kv', In kv (entries f) -> In kv' (entries f) -> fst kv = fst kv' -> kv = kv').
  { intros [k1 n1] [k2 n2] H1 H2 E. simpl in E. subst k2.
    apply entries_In in H1. apply entries_In in H2. congruence. }
  assert (Hnd : NoDup (entries f)).
  { unfold entries. change (gmap_to_list f) with (map_to_list f).
    apply NoDup_ListNoDup. apply NoDup_map_to_list. }
  revert Hfun Hnd. generalize (entries f). intros l.
  set (F := fun (kv : key * node) (acc : list str) =>
              if key_prefixb k (fst kv) && Nat.eqb (length (fst kv)) (S (length k))
              then last (fst kv) [] :: acc else acc).
  assert (Hmem : forall (l : list (key * node)) c, In c (fold_right F [] l) ->
            exists kv, In kv l /\ key_prefixb k (fst kv) = true /\
                       length (fst kv) = S (length k) /\ c = last (fst kv) []).
  { induction l0 as [|kv l0 IH]; intros c Hc; [contradiction Hc |].
    simpl in Hc. unfold F at 1 in Hc.
    destruct (key_prefixb k (fst kv) && Nat.eqb (length (fst kv)) (S (length k))) eqn:E.
    - destruct Hc as [Hc | Hc].
      + apply andb_true_iff in E. destruct E as [E1 E2]. apply Nat.eqb_eq in E2.
        exists kv. split; [left; reflexivity | split; [exact E1 | split; [exact E2 | symmetry; exact Hc]]].
      + destruct (IH c Hc) as (kv' & Hin & H). exists kv'. split; [right; exact Hin | exact H].
    - destruct (IH c Hc) as (kv' & Hin & H). exists kv'. split; [right; exact Hin | exact H]. }
  induction l as [|kv l IH]; intros Hfun Hnd; [constructor |].
  apply NoDup_cons_iff in Hnd. destruct Hnd as [Hkv Hnd].
  assert (IH' : NoDup (fold_right F [] l)).
  { apply IH; [| exact Hnd]. intros a b Ha Hb. apply Hfun; right; assumption. }
  simpl. unfold F at 1.
  destruct (key_prefixb k (fst kv) && Nat.eqb (length (fst kv)) (S (length k))) eqn:E; [| exact IH'].
  apply NoDup_cons_iff. split; [| exact IH']. intros Hin.
  destruct (Hmem l _ Hin) as (kv' & Hin' & H1 & H2 & H3).
  apply andb_true_iff in E. destruct E as [E1 E2]. apply Nat.eqb_eq in E2.
  apply Hkv. rewrite (Hfun kv kv' (or_introl eq_refl) (or_intror Hin')); [exact Hin' |].
  rewrite (key_child k (fst kv) E1 E2), (key_child k (fst kv') H1 H2), H3. reflexivity.
Qed.

Lemma nodup_map_in {A B} (f : A -> B) (l : list A) :
  (forall x y, In x l -> In y l -> f x = f y -> x = y) -> NoDup l -> NoDup (map f l).
Proof.
  induction l as [|x l IH]; intros Hinj Hnd; [constructor |].
  apply NoDup_cons_iff in Hnd. destruct Hnd as [Hx Hnd]. simpl. apply NoDup_cons_iff. split.
  - intros Hin. apply in_map_iff in Hin. destruct Hin as (y & E & Hy).
    apply Hx. rewrite (Hinj x y (or_introl eq_refl) (or_intror Hy) (eq_sym E)). exact Hy.
  - apply IH; [| exact Hnd]. intros a b Ha Hb. apply Hinj; right; assumption.
Qed.


Section ConcreteWalkLaws.
  Variable tag : fstag.
  Variable pa : str.
  Hypothesis Ha : prefix_ok pa.

  (** how a listing runs: it succeeds with the sorted child names and leaves
      the filesystem state alone *)
  Lemma osfs_readdir_run (w : world) (p : str) (m : meta) :
    quiet w -> Vp pa w !! p = Some (Dir m) ->
    exists w2, read_dir_names (the_api tag pa) p w =
                 (MOk (sort_strings (child_names (st_fs (w_st w)) (wkey pa p))), w2) /\
               w_st w2 = w_st w /\ w_infos w2 = w_infos w /\
               w_crash w2 = w_crash w /\ w_faults w2 = w_faults w.
  Proof using Ha.
    intros Hq Hl.
    destruct (Vp_lookup_Some_inv pa w p _ Hl) as (Hok & Hac & nd & Hnd & En).
    symmetry in En. apply vnode_dir_inv in En. subst nd.
    pose proof (present_direct pa _ p _ Ha Hok (proj2 Hac) Hnd) as Hdir.
    assert (Hnlk : not_link_at (st_fs (w_st w)) (wkey pa p)).
    { intros m' t' E. norm_keys. congruence. }
    pose proof (run_open tag pa Ha w Hq p Hac Hdir Hnlk) as Hopen.
    revert Hopen. norm_keys. rewrite Hnd. rewrite finmap_ok. intros Hopen.
    unfold read_dir_names. unfold bind at 1. rewrite Hopen.
    match type of Hopen with _ = (MOk ?hh, ?ww) => set (h := hh); set (w1 := ww) end.
    assert (Hq1 : quiet w1) by (apply quiet_after; exact Hq).
    assert (Hs : fh_spy h = Some (tag, p)) by reflexivity.
    unfold bind at 1. unfold try_ at 1.
    rewrite (hreaddirnames_quiet tag h p w1 Hq1 Hs eq_refl).
    rewrite fs_readdirnames_eq. change (h_dir (fh h)) with true. cbv iota. rewrite fin_ok.
    unfold bind at 1. unfold try_ at 1.
    rewrite (hclose_quiet tag h p _ (proj2 (quiet_after _ _ _ _ _ _ _) Hq1) Hs).
    unfold ret. eexists. split; [reflexivity |]. repeat split.
  Qed.

  (** the listed names are exactly the children in the view, each once *)
  Lemma osfs_readdir_names_exact (w : world) (p : str) (m : meta) :
    Vp pa w !! p = Some (Dir m) ->
    let names := sort_strings (child_names (st_fs (w_st w)) (wkey pa p)) in
    List.NoDup (map (join2 p) names) /\
    forall q, In q (map (join2 p) names) <-> (Vp pa w !! q <> None /\ child_of p q).
  Proof using Ha.
    intros Hl. cbv zeta.
    destruct (Vp_lookup_Some_inv pa w p _ Hl) as (Hok & Hac & nd & Hnd & En).
    set (f := st_fs (w_st w)) in *. set (k := wkey pa p) in *.
    assert (Hnames : forall c, In c (sort_strings (child_names f k)) <-> In c (child_names f k)).
    { intros c. unfold sort_strings. apply isort_in. }
    assert (Hgood : forall c, In c (child_names f k) -> good_compb c = true).
    { intros c Hc. exact (proj1 (child_names_view pa f p c Ha Hok Hac Hc)). }
    split.
    - apply nodup_map_in.
      + intros x y Hx Hy E. apply Hnames in Hx. apply Hnames in Hy.
        apply (f_equal comps) in E.
        rewrite (comps_join2_child p x Hac (Hgood x Hx)), (comps_join2_child p y Hac (Hgood y Hy)) in E.
        apply app_inv_head in E. congruence.
      + unfold sort_strings. apply isort_nodup. apply child_names_NoDup.
    - intros q. rewrite in_map_iff. split.
      + intros (c & <- & Hc). apply Hnames in Hc.
        destruct (child_names_view pa f p c Ha Hok Hac Hc) as (Hg & Hex' & _).
        split; [rewrite (Vp_ok pa w Hok); exact Hex' |].
        apply (child_of_comps p (join2 p c) Hac (join2_child_abs_cleaned p c Hac Hg)).
        exists c. exact (comps_join2_child p c Hac Hg).
      + intros [Hex' Hch].
        destruct (Vp pa w !! q) as [nq|] eqn:Eq; [| contradiction Hex'; reflexivity].
        destruct (Vp_lookup_Some_inv pa w q nq Eq) as (_ & Hacq & ndq & Hndq & _).
        apply (child_of_comps p q Hac Hacq) in Hch. destruct Hch as [c Ec].
        assert (Hkq : wkey pa q = k ++ [c]).
        { unfold k, wkey. rewrite Ec. apply app_assoc. }
        assert (Hcin : In c (child_names f k)).
        { apply child_names_In. exists ndq. rewrite <- Hkq. exact Hndq. }
        exists c. split; [| apply Hnames; exact Hcin].
        rewrite (join2_child p c Hac (Hgood c Hcin)), <- Ec. apply kpath_comps. exact Hacq.
  Qed.

  (** [readdir_exact_law] next to any other view that is a function of the
      filesystem state *)
  Lemma osfs_readdir_exact_gen (V' : world -> store) :
    (forall w w', w_st w' = w_st w -> V' w' = V' w) ->
    readdir_exact_law (the_api tag pa) (Vp pa) V'.
  Proof using Ha.
    intros HV' w p m Hq Hwf Hnl Hl.
    destruct (osfs_readdir_run w p m Hq Hl) as (w2 & Hrun & Hst & Hi & Hc & Hf).
    eexists. exists w2. split; [exact Hrun |]. split; [discriminate |].
    split; [exact (Vp_st pa w w2 Hst) |].
    split; [split; [exact (HV' w w2 Hst) | split; [exact Hi | split; [exact Hc | exact Hf]]] |].
    intros names E. injection E as <-. exact (osfs_readdir_names_exact w p m Hl).
  Qed.
End ConcreteWalkLaws.

Section ConcreteDir.
  Variable tag : fstag.
  Variables pa pb : str.
  Hypothesis Ha : prefix_ok pa.
  Hypothesis Hb : prefix_ok pb.
  Hypothesis Hd : disjoint_prefixes pa pb.

  Theorem osfs_removeall_emptydir : removeall_emptydir_law (the_api tag pa) (Vp pa) (Vp pb).
  Proof using Ha Hb Hd.
    intros w p m Hq Hwf Hnl Hl Hnc Hne. unfold ok_step.
    destruct (Vp_lookup_Some_inv pa w p _ Hl) as (Hok & Hac & nd & Hnd & En).
    pose proof (world_okb_keys_good _ _ Hok) as Hg.
    pose proof (present_direct pa _ p nd Ha Hok (proj2 Hac) Hnd) as Hdir.
    rewrite (Vp_ok pa w Hok) in Hnc. apply (no_children_view pa _ p Ha Hg Hac) in Hnc.
    rewrite (run_removeall tag pa Ha w Hq p Hac Hdir). norm_keys. rewrite Hnd. rewrite fin_ok.
    set (s' := mkFstate _ _).
    assert (Es : st_fs s' = st_fs (remove_entry (w_st w) (wkey pa p))).
    { unfold s'. cbn [st_fs]. rewrite remove_entry_fs.
      rewrite (delete_subtree_leaf _ _ (proj1 (has_children_false_iff _ _) Hnc)). reflexivity. }
    destruct (removed_leaf_step pa pb Ha Hd tag (PM MRemoveAll) p [] None w s' p Hok Hac Hne Hdir Hnc Es)
      as (st & HV & Hsr & Hnone & Heqv & Hswf).
    exists st. split; [|split; [|split]]; try assumption.
    eexists. split; [reflexivity|]. split; assumption.
  Qed.

  Theorem osfs_readdir_exact : readdir_exact_law (the_api tag pa) (Vp pa) (Vp pb).
  Proof using Ha.
    apply (osfs_readdir_exact_gen tag pa Ha). intros w w' E. exact (Vp_st pb w w' E).
  Qed.
End ConcreteDir.

Print Assumptions osfs_removeall_emptydir.
Print Assumptions osfs_readdir_exact.

(** ** the theorems, closed, for the generic layering [gcfg pa pb]
    (base = PrefixFS([pa]), backup = PrefixFS([pb]), disjoint prefixes) *)
Section ConcreteForceDir.
  Variables pa pb : str.
  Hypothesis Ha : prefix_ok pa.
  Hypothesis Hb : prefix_ok pb.
  Hypothesis Hd : disjoint_prefixes pa pb.

  Let Lb := the_api_laws TBase pa pb Ha Hb Hd.
  Let Lb2 := the_api_laws2 TBase pa pb Ha Hb Hd.
  Let Lk := the_api_laws TBackup pb pa Hb Ha (disjoint_prefixes_sym pa pb Hd).
  Let Hrm := osfs_removeall_emptydir TBackup pb pa Hb Ha (disjoint_prefixes_sym pa pb Hd).
  Let Hrd := osfs_readdir_exact TBackup pb pa Hb.

  Theorem force_backup_dir_concrete :
    forall B0, links_ok clean clean (acc_p pa) (acc_p pb) B0 -> all_small B0 -> swf B0 ->
    forall w p fi0, InvD (Vp pa) (Vp pb) B0 p w -> snolinkpar (Vp pa w) p -> p <> s_root ->
    w_infos w !! p = Some (Some fi0) -> fi_kind fi0 = KDir ->
    entry_ok clean clean (acc_p pa) (acc_p pb) p (Vp pa w !! p) ->
    force_backup_dir_concl (cfg_base (gcfg pa pb)) (cfg_backup (gcfg pa pb)) (Vp pa) (Vp pb)
      clean clean (acc_p pa) (acc_p pb) B0 w p.
  Proof using Ha Hb Hd.
    intros B0 Hl Hs Hwf w p fi0 HI Hnlp Hne Hi Hk Hcur.
    exact (force_backup_dir_spec (the_api TBase pa) (the_api TBackup pb) (Vp pa) (Vp pb) clean clean
             (acc_p pa) (acc_p pb) (rh_p TBase pa) (rh_p TBackup pb) (wh_p TBase pa) (wh_p TBackup pb) nohid nohid
             B0 Lb Lk Hrm Hrd Hl Hs Hwf w p fi0 HI Hnlp Hne Hi Hk Hcur).
  Qed.

  Theorem c17_dir_concrete :
    forall B0, links_ok clean clean (acc_p pa) (acc_p pb) B0 -> all_small B0 -> swf B0 ->
    forall w p fi0, InvD (Vp pa) (Vp pb) B0 p w -> snolinkpar (Vp pa w) p -> p <> s_root ->
    w_infos w !! p = Some (Some fi0) -> fi_kind fi0 = KDir ->
    entry_ok clean clean (acc_p pa) (acc_p pb) p (Vp pa w !! p) ->
    forall w1 ops w2,
      b_force_backup (cfg_base (gcfg pa pb)) (cfg_backup (gcfg pa pb)) p w = (MOk tt, w1) ->
      good_run (cfg_base (gcfg pa pb)) (cfg_backup (gcfg pa pb)) (Vp pa) w1 ops w2 ->
      exists w3, b_rollback (cfg_base (gcfg pa pb)) (cfg_backup (gcfg pa pb)) w2 = (MOk tt, w3) /\
                 sonode_eqv (Vp pa w3 !! p) (Vp pa w !! p) /\
                 (forall q, under p q -> q <> p -> Vp pa w3 !! q = None) /\
                 (forall q, ~ under p q -> q <> s_root -> sonode_eqv (Vp pa w3 !! q) (B0 !! q)) /\
                 (forall q, q <> s_root -> Vp pb w3 !! q = None) /\ w_infos w3 = ∅.
  Proof using Ha Hb Hd.
    intros B0 Hl Hs Hwf w p fi0 HI Hnlp Hne Hi Hk Hcur w1 ops w2 Hrun Hgood.
    exact (c17_dir_spec (the_api TBase pa) (the_api TBackup pb) (Vp pa) (Vp pb) clean clean
             (acc_p pa) (acc_p pb) (rh_p TBase pa) (rh_p TBackup pb) (wh_p TBase pa) (wh_p TBackup pb) nohid nohid
             B0 Lb Lb2 Lk Hrm Hrd Hl Hs Hwf (loc_ok_nohid B0) w p fi0 HI Hnlp Hne Hi Hk Hcur w1 ops w2 Hrun Hgood).
  Qed.

  Theorem c17_dir_initial_concrete :
    forall B0, all_small B0 ->
    forall w0 ops1 w p fi0,
      initial (Vp pa) (Vp pb) clean clean (acc_p pa) (acc_p pb) B0 w0 ->
      good_run (cfg_base (gcfg pa pb)) (cfg_backup (gcfg pa pb)) (Vp pa) w0 ops1 w ->
      snolinkpar (Vp pa w) p -> p <> s_root ->
      w_infos w !! p = Some (Some fi0) -> fi_kind fi0 = KDir -> (forall m, Vp pa w !! p <> Some (Dir m)) ->
      forall w1 ops2 w2,
        b_force_backup (cfg_base (gcfg pa pb)) (cfg_backup (gcfg pa pb)) p w = (MOk tt, w1) ->
        good_run (cfg_base (gcfg pa pb)) (cfg_backup (gcfg pa pb)) (Vp pa) w1 ops2 w2 ->
        Vp pa w !! p = None /\
        exists w3, b_rollback (cfg_base (gcfg pa pb)) (cfg_backup (gcfg pa pb)) w2 = (MOk tt, w3) /\
                   (forall q, under p q -> Vp pa w3 !! q = None) /\
                   (forall q, ~ under p q -> q <> s_root -> sonode_eqv (Vp pa w3 !! q) (Vp pa w0 !! q)) /\
                   (forall q, q <> s_root -> Vp pb w3 !! q = None) /\ w_infos w3 = ∅.
  Proof using Ha Hb Hd.
    intros B0 Hs w0 ops1 w p fi0 Hinit Hrun1 Hnlp Hne Hi Hk Hnd w1 ops2 w2 Hrun Hgood.
    exact (c17_dir_initial_spec (the_api TBase pa) (the_api TBackup pb) (Vp pa) (Vp pb) clean clean
             (acc_p pa) (acc_p pb) (rh_p TBase pa) (rh_p TBackup pb) (wh_p TBase pa) (wh_p TBackup pb) nohid nohid
             B0 Lb Lb2 Lk Hrm Hrd Hs w0 ops1 w p fi0 Hinit Hrun1 Hnlp Hne Hi Hk Hnd w1 ops2 w2 Hrun Hgood).
  Qed.
End ConcreteForceDir.

Print Assumptions force_backup_dir_concrete.
Print Assumptions c17_dir_concrete.
Print Assumptions c17_dir_initial_concrete.

(* ================================================================== *)
(** * The documented layering and the layering of New / NewWithFS

    The backup filesystem is [the_api TBackup pk] with the view [Vp pk]; the
    other view is the base view that hides the location ([VpH pa h], [V0H q]).
    The two extra laws are re-framed like the laws of Proofs/LawsHiddenK.v /
    Proofs/LawsNewK.v: RemoveAll changes the world at the location only, a
    listing not at all. *)
From BFS Require Import Spec.ViewHidden Spec.ViewRoot.
From BFS Require Import Proofs.LawsHiddenBase Proofs.LawsHiddenView Proofs.LawsHiddenFrame
                        Proofs.LawsHiddenK Proofs.LawsHidden.
From BFS Require Import Proofs.LawsRootBase Proofs.LawsRootFrame Proofs.LawsNewK Proofs.LawsNew.

(** the footprint of RemoveAll of an entry without children *)
Lemma fpr_removeall_nochildren (tag : fstag) (pfx : str) (Hp : prefix_ok pfx)
      (w : world) (p : str) (nd : node) :
  quiet w -> world_okb pfx (st_fs (w_st w)) = true -> abs_cleaned p -> p <> s_root ->
  direct (st_fs (w_st w)) (wpath pfx p) ->
  st_fs (w_st w) !! wkey pfx p = Some nd -> has_children (st_fs (w_st w)) (wkey pfx p) = false ->
  fpr pfx [p] (a_removeall (the_api tag pfx) p w) w.
Proof.
  intros Hq Hok Hac Hne Hdir Hnd Hnc.
  assert (Hc : comps p <> []) by (intros E; apply Hne; apply (abs_cleaned_comps_nil p Hac); exact E).
  rewrite (run_removeall tag pfx Hp w Hq p Hac Hdir). norm_keys. rewrite Hnd. rewrite fin_ok.
  unfold fpr; cbn [snd]. eapply fpo_trans; [| apply (fpo_remove pfx [p] (w_st w) p); [left; reflexivity | exact Hc]].
  apply fpo_same. cbn [st_fs after w_st]. rewrite remove_entry_fs.
  rewrite (delete_subtree_leaf _ _ (proj1 (has_children_false_iff _ _) Hnc)). reflexivity.
Qed.

(** what the re-framing needs, for either base view *)
Lemma removeall_emptydir_reframe (tag : fstag) (pk pb1 : str) (V2 : world -> store) :
  prefix_ok pk -> prefix_ok pb1 -> disjoint_prefixes pk pb1 ->
  (forall (ps : list str) (m : M unit) (w : world) (s' : store),
     world_okb pk (st_fs (w_st w)) = true -> ok_step (Vp pk) (Vp pb1) m w tt s' -> swf s' ->
     fpr pk ps (m w) w -> ok_step (Vp pk) V2 m w tt s') ->
  removeall_emptydir_law (the_api tag pk) (Vp pk) V2.
Proof.
  intros Hk Hb1 Hd1 Hrf w p m Hq Hwf Hnl Hl Hnc Hne.
  destruct (osfs_removeall_emptydir tag pk pb1 Hk Hb1 Hd1 w p m Hq Hwf Hnl Hl Hnc Hne)
    as (s' & Hstep & Hp & He & Hs).
  exists s'. split; [| split; [exact Hp | split; [exact He | exact Hs]]].
  pose proof (swf_Vp_world_okb pk w Hwf) as Hok.
  apply (Hrf [p] _ w s' Hok Hstep Hs).
  destruct (Vp_lookup_Some_inv pk w p _ Hl) as (_ & Hac & nd & Hnd & _).
  apply (fpr_removeall_nochildren tag pk Hk w p nd Hq Hok Hac Hne); [| exact Hnd |].
  - exact (present_direct pk _ p nd Hk Hok (proj2 Hac) Hnd).
  - apply (no_children_view pk _ p Hk (world_okb_keys_good _ _ Hok) Hac).
    rewrite <- (Vp_ok pk w Hok). exact Hnc.
Qed.

Section DocumentedDir.
  Variables pa h : str.
  Hypothesis Ha : prefix_ok pa.
  Hypothesis Hh : hidden_ok h.

  Notation pk := (pk_h pa h).
  Notation dbase := (cfg_base (dcfg pa h)).
  Notation dbackup := (cfg_backup (dcfg pa h)).
  Notation Vb := (VpH pa h).
  Notation Vk := (Vp (pk_h pa h)).
  Notation accb := (acc_h pa h).
  Notation acck := (acc_p (pk_h pa h)).

  Theorem removeall_emptydir_hidden (tag : fstag) : removeall_emptydir_law (the_api tag pk) Vk Vb.
  Proof using Ha Hh.
    destruct (exists_disjoint_prefix pk (pk_ok pa h Ha Hh)) as (pb1 & Hb1 & Hd1).
    apply (removeall_emptydir_reframe tag pk pb1 Vb (pk_ok pa h Ha Hh) Hb1 Hd1).
    intros ps m w s' Hok Hstep Hs Hfp.
    exact (LawsHiddenK.rf_ok_new pa h pb1 Ha Hh ps m w tt s' Hok Hstep Hs Hfp).
  Qed.

  Theorem readdir_exact_hidden (tag : fstag) : readdir_exact_law (the_api tag pk) Vk Vb.
  Proof using Ha Hh.
    apply (osfs_readdir_exact_gen tag pk (pk_ok pa h Ha Hh)).
    intros w w' E. exact (LawsHiddenK.bk_st pa h w w' E).
  Qed.

  Let Lb := hid_api_laws TBase pa h Ha Hh.
  Let Lb2 := hid_api_laws2 TBase pa h Ha Hh.
  Let Lk := backup_laws_hidden TBackup pa h Ha Hh.
  Let Hrm := removeall_emptydir_hidden TBackup.
  Let Hrd := readdir_exact_hidden TBackup.

  Theorem force_backup_dir_documented :
    forall B0, links_ok clean clean accb acck B0 -> all_small B0 -> swf B0 ->
    forall w p fi0, InvD Vb Vk B0 p w -> snolinkpar (Vb w) p -> p <> s_root ->
    w_infos w !! p = Some (Some fi0) -> fi_kind fi0 = KDir ->
    entry_ok clean clean accb acck p (Vb w !! p) ->
    force_backup_dir_concl dbase dbackup Vb Vk clean clean accb acck B0 w p.
  Proof using Ha Hh.
    intros B0 Hl Hs Hwf w p fi0 HI Hnlp Hne Hi Hk Hcur.
    exact (force_backup_dir_spec (hid_api TBase pa h) (the_api TBackup pk) Vb Vk clean clean accb acck
             (rh_h TBase pa) (rh_p TBackup pk) (wh_h TBase pa) (wh_p TBackup pk) (hid_h h) (anc_h h)
             B0 Lb Lk Hrm Hrd Hl Hs Hwf w p fi0 HI Hnlp Hne Hi Hk Hcur).
  Qed.

  Theorem c17_dir_documented :
    forall B0, links_ok clean clean accb acck B0 -> all_small B0 -> swf B0 ->
    loc_ok (hid_h h) (anc_h h) B0 ->
    forall w p fi0, InvD Vb Vk B0 p w -> snolinkpar (Vb w) p -> p <> s_root ->
    w_infos w !! p = Some (Some fi0) -> fi_kind fi0 = KDir ->
    entry_ok clean clean accb acck p (Vb w !! p) ->
    forall w1 ops w2,
      b_force_backup dbase dbackup p w = (MOk tt, w1) -> good_run dbase dbackup Vb w1 ops w2 ->
      exists w3, b_rollback dbase dbackup w2 = (MOk tt, w3) /\
                 sonode_eqv (Vb w3 !! p) (Vb w !! p) /\
                 (forall q, under p q -> q <> p -> Vb w3 !! q = None) /\
                 (forall q, ~ under p q -> q <> s_root -> sonode_eqv (Vb w3 !! q) (B0 !! q)) /\
                 (forall q, q <> s_root -> Vk w3 !! q = None) /\ w_infos w3 = ∅.
  Proof using Ha Hh.
    intros B0 Hl Hs Hwf Hloc w p fi0 HI Hnlp Hne Hi Hk Hcur w1 ops w2 Hrun Hgood.
    exact (c17_dir_spec (hid_api TBase pa h) (the_api TBackup pk) Vb Vk clean clean accb acck
             (rh_h TBase pa) (rh_p TBackup pk) (wh_h TBase pa) (wh_p TBackup pk) (hid_h h) (anc_h h)
             B0 Lb Lb2 Lk Hrm Hrd Hl Hs Hwf Hloc w p fi0 HI Hnlp Hne Hi Hk Hcur w1 ops w2 Hrun Hgood).
  Qed.

  Theorem c17_dir_initial_documented :
    forall B0, all_small B0 ->
    forall w0 ops1 w p fi0,
      initial Vb Vk clean clean accb acck B0 w0 -> good_run dbase dbackup Vb w0 ops1 w ->
      snolinkpar (Vb w) p -> p <> s_root ->
      w_infos w !! p = Some (Some fi0) -> fi_kind fi0 = KDir -> (forall m, Vb w !! p <> Some (Dir m)) ->
      forall w1 ops2 w2,
        b_force_backup dbase dbackup p w = (MOk tt, w1) -> good_run dbase dbackup Vb w1 ops2 w2 ->
        Vb w !! p = None /\
        exists w3, b_rollback dbase dbackup w2 = (MOk tt, w3) /\
                   (forall q, under p q -> Vb w3 !! q = None) /\
                   (forall q, ~ under p q -> q <> s_root -> sonode_eqv (Vb w3 !! q) (Vb w0 !! q)) /\
                   (forall q, q <> s_root -> Vk w3 !! q = None) /\ w_infos w3 = ∅.
  Proof using Ha Hh.
    intros B0 Hs w0 ops1 w p fi0 Hinit Hrun1 Hnlp Hne Hi Hk Hnd w1 ops2 w2 Hrun Hgood.
    exact (c17_dir_initial_spec (hid_api TBase pa h) (the_api TBackup pk) Vb Vk clean clean accb acck
             (rh_h TBase pa) (rh_p TBackup pk) (wh_h TBase pa) (wh_p TBackup pk) (hid_h h) (anc_h h)
             B0 Lb Lb2 Lk Hrm Hrd Hs w0 ops1 w p fi0 Hinit Hrun1 Hnlp Hne Hi Hk Hnd w1 ops2 w2 Hrun Hgood).
  Qed.
End DocumentedDir.

Print Assumptions removeall_emptydir_hidden.
Print Assumptions readdir_exact_hidden.
Print Assumptions force_backup_dir_documented.
Print Assumptions c17_dir_documented.
Print Assumptions c17_dir_initial_documented.

Section NewDir.
  Variable q : str.
  Hypothesis Hq : hidden_ok q.

  Notation nbase := (cfg_base (ncfg q)).
  Notation nbackup := (cfg_backup (ncfg q)).
  Notation Vb := (V0H q).
  Notation Vk := (Vp q).
  Notation accb := (acc_0 q).
  Notation acck := (acc_p q).

  Theorem removeall_emptydir_new (tag : fstag) : removeall_emptydir_law (the_api tag q) Vk Vb.
  Proof using Hq.
    destruct (exists_disjoint_prefix q Hq) as (pb1 & Hb1 & Hd1).
    apply (removeall_emptydir_reframe tag q pb1 Vb Hq Hb1 Hd1).
    intros ps m w s' Hok Hstep Hs Hfp.
    exact (LawsNewK.rf_ok_new q pb1 Hq ps m w tt s' Hok Hstep Hs Hfp).
  Qed.

  Theorem readdir_exact_new (tag : fstag) : readdir_exact_law (the_api tag q) Vk Vb.
  Proof using Hq.
    apply (osfs_readdir_exact_gen tag q Hq).
    intros w w' E. exact (LawsNewK.bk_st q w w' E).
  Qed.

  Let Lb := hid_api0_laws TBase q Hq.
  Let Lb2 := hid_api0_laws2 TBase q Hq.
  Let Lk := backup_laws_new TBackup q Hq.
  Let Hrm := removeall_emptydir_new TBackup.
  Let Hrd := readdir_exact_new TBackup.

  Theorem force_backup_dir_new :
    forall B0, links_ok tn_0 clean accb acck B0 -> all_small B0 -> swf B0 ->
    forall w p fi0, InvD Vb Vk B0 p w -> snolinkpar (Vb w) p -> p <> s_root ->
    w_infos w !! p = Some (Some fi0) -> fi_kind fi0 = KDir ->
    entry_ok tn_0 clean accb acck p (Vb w !! p) ->
    force_backup_dir_concl nbase nbackup Vb Vk tn_0 clean accb acck B0 w p.
  Proof using Hq.
    intros B0 Hl Hs Hwf w p fi0 HI Hnlp Hne Hi Hk Hcur.
    exact (force_backup_dir_spec (hid_api0 TBase q) (the_api TBackup q) Vb Vk tn_0 clean accb acck
             (rh_0 TBase) (rh_p TBackup q) (wh_0 TBase) (wh_p TBackup q) (hid_h q) (anc_h q)
             B0 Lb Lk Hrm Hrd Hl Hs Hwf w p fi0 HI Hnlp Hne Hi Hk Hcur).
  Qed.

  Theorem c17_dir_new :
    forall B0, links_ok tn_0 clean accb acck B0 -> all_small B0 -> swf B0 ->
    loc_ok (hid_h q) (anc_h q) B0 ->
    forall w p fi0, InvD Vb Vk B0 p w -> snolinkpar (Vb w) p -> p <> s_root ->
    w_infos w !! p = Some (Some fi0) -> fi_kind fi0 = KDir ->
    entry_ok tn_0 clean accb acck p (Vb w !! p) ->
    forall w1 ops w2,
      b_force_backup nbase nbackup p w = (MOk tt, w1) -> good_run nbase nbackup Vb w1 ops w2 ->
      exists w3, b_rollback nbase nbackup w2 = (MOk tt, w3) /\
                 sonode_eqv (Vb w3 !! p) (Vb w !! p) /\
                 (forall q', under p q' -> q' <> p -> Vb w3 !! q' = None) /\
                 (forall q', ~ under p q' -> q' <> s_root -> sonode_eqv (Vb w3 !! q') (B0 !! q')) /\
                 (forall q', q' <> s_root -> Vk w3 !! q' = None) /\ w_infos w3 = ∅.
  Proof using Hq.
    intros B0 Hl Hs Hwf Hloc w p fi0 HI Hnlp Hne Hi Hk Hcur w1 ops w2 Hrun Hgood.
    exact (c17_dir_spec (hid_api0 TBase q) (the_api TBackup q) Vb Vk tn_0 clean accb acck
             (rh_0 TBase) (rh_p TBackup q) (wh_0 TBase) (wh_p TBackup q) (hid_h q) (anc_h q)
             B0 Lb Lb2 Lk Hrm Hrd Hl Hs Hwf Hloc w p fi0 HI Hnlp Hne Hi Hk Hcur w1 ops w2 Hrun Hgood).
  Qed.

  Theorem c17_dir_initial_new :
    forall B0, all_small B0 ->
    forall w0 ops1 w p fi0,
      initial Vb Vk tn_0 clean accb acck B0 w0 -> good_run nbase nbackup Vb w0 ops1 w ->
      snolinkpar (Vb w) p -> p <> s_root ->
      w_infos w !! p = Some (Some fi0) -> fi_kind fi0 = KDir -> (forall m, Vb w !! p <> Some (Dir m)) ->
      forall w1 ops2 w2,
        b_force_backup nbase nbackup p w = (MOk tt, w1) -> good_run nbase nbackup Vb w1 ops2 w2 ->
        Vb w !! p = None /\
        exists w3, b_rollback nbase nbackup w2 = (MOk tt, w3) /\
                   (forall q', under p q' -> Vb w3 !! q' = None) /\
                   (forall q', ~ under p q' -> q' <> s_root -> sonode_eqv (Vb w3 !! q') (Vb w0 !! q')) /\
                   (forall q', q' <> s_root -> Vk w3 !! q' = None) /\ w_infos w3 = ∅.
  Proof using Hq.
    intros B0 Hs w0 ops1 w p fi0 Hinit Hrun1 Hnlp Hne Hi Hk Hnd w1 ops2 w2 Hrun Hgood.
    exact (c17_dir_initial_spec (hid_api0 TBase q) (the_api TBackup q) Vb Vk tn_0 clean accb acck
             (rh_0 TBase) (rh_p TBackup q) (wh_0 TBase) (wh_p TBackup q) (hid_h q) (anc_h q)
             B0 Lb Lb2 Lk Hrm Hrd Hs w0 ops1 w p fi0 Hinit Hrun1 Hnlp Hne Hi Hk Hnd w1 ops2 w2 Hrun Hgood).
  Qed.
End NewDir.

Print Assumptions removeall_emptydir_new.
Print Assumptions readdir_exact_new.
Print Assumptions force_backup_dir_new.
Print Assumptions c17_dir_new.
Print Assumptions c17_dir_initial_new.

(** the two extra laws for the backup filesystem of the three layerings *)
Theorem extra_laws_concrete :
  forall pa pb, prefix_ok pa -> prefix_ok pb -> disjoint_prefixes pa pb ->
  removeall_emptydir_law (cfg_backup (gcfg pa pb)) (Vp pb) (Vp pa) /\
  readdir_exact_law (cfg_backup (gcfg pa pb)) (Vp pb) (Vp pa).
Proof.
  intros pa pb Ha Hb Hd. split.
  - exact (osfs_removeall_emptydir TBackup pb pa Hb Ha (disjoint_prefixes_sym pa pb Hd)).
  - exact (osfs_readdir_exact TBackup pb pa Hb).
Qed.

Theorem extra_laws_documented :
  forall pa h, prefix_ok pa -> hidden_ok h ->
  removeall_emptydir_law (cfg_backup (dcfg pa h)) (Vp (pk_h pa h)) (VpH pa h) /\
  readdir_exact_law (cfg_backup (dcfg pa h)) (Vp (pk_h pa h)) (VpH pa h).
Proof.
  intros pa h Ha Hh. split.
  - exact (removeall_emptydir_hidden pa h Ha Hh TBackup).
  - exact (readdir_exact_hidden pa h Ha Hh TBackup).
Qed.

Theorem extra_laws_new :
  forall q, hidden_ok q ->
  removeall_emptydir_law (cfg_backup (ncfg q)) (Vp q) (V0H q) /\
  readdir_exact_law (cfg_backup (ncfg q)) (Vp q) (V0H q).
Proof.
  intros q Hq. split.
  - exact (removeall_emptydir_new q Hq TBackup).
  - exact (readdir_exact_new q Hq TBackup).
Qed.

Print Assumptions extra_laws_concrete.
Print Assumptions extra_laws_documented.
Print Assumptions extra_laws_new.

(* ================================================================== *)
(** * Non-vacuity: an instance of the hypotheses of [c17_dir_initial_concrete]

    The world, the history and the state [w] of Proofs/ConcreteExample.v
    (base = PrefixFS("/base"), backup = PrefixFS("/backup")): the history ends
    with RemoveAll("/d"), so in [w] the path "/d" is tracked as an existing
    directory and absent, the backup holds copies of "/d" and "/d/g", and
    "/d/new" (created and removed in the transaction) is recorded as "did
    not exist".  ForceBackup("/d") returns nil, drops the two copies and the
    records of "/d" and "/d/g", keeps the record of "/d/new", and records "/d"
    as "did not exist"; then a FILE is created at "/d"; then Rollback.  The
    conclusion is obtained by applying the theorem and, a second time, by
    running the model. *)
From BFS Require Import Proofs.ConcreteExample.
Local Open Scope N_scope.

(** "/d": a directory with content when the transaction began, removed by
    the RemoveAll that ends [ops] ("/d/g" was removed before, "/d/new" created
    and removed with it: recorded as "did not exist") *)
Definition pdir : str := [47;100].
Definition rdir : mres unit := fst (b_force_backup cbase cbackup pdir w).
Definition wdir : world := snd (b_force_backup cbase cbackup pdir w).
(** afterwards: a FILE where the directory was *)
Definition opsdir : list op := [OCreate pdir [122;122]; OChmod pdir 420; ORemove [47;108;50]].
Definition wdir' : world := run_worlds cbase cbackup opsdir wdir.

Example force_backup_dir_result :
  rdir = MOk tt /\ fst (run_ops cbase cbackup opsdir wdir) = repeat (MOk ObUnit) 3 /\
  map fst (map_to_list (Vp pb w)) = [[47]; [47;100]; [47;102]; [47;100;47;103]; [47;108]] /\
  map fst (map_to_list (Vp pb wdir)) = [[47]; [47;102]; [47;108]] /\
  w_infos w !! pdir <> Some None /\ w_infos wdir !! pdir = Some None /\
  w_infos w !! [47;100;47;103] <> None /\ w_infos wdir !! [47;100;47;103] = None /\
  w_infos w !! [47;100;47;110;101;119] = Some None /\ w_infos wdir !! [47;100;47;110;101;119] = Some None.
Proof. vm_compute. repeat split; try reflexivity; discriminate. Qed.

Lemma opsdir_run_ok : run_okb cbase cbackup (Vp pa) opsdir wdir = true.
Proof. vm_compute. reflexivity. Qed.

Example c17_dir_concrete_instance :
  exists w3, b_rollback cbase cbackup wdir' = (MOk tt, w3) /\
             (forall q, under pdir q -> Vp pa w3 !! q = None) /\
             (forall q, ~ under pdir q -> q <> s_root -> sonode_eqv (Vp pa w3 !! q) (B0 !! q)) /\
             (forall q, q <> s_root -> Vp pb w3 !! q = None) /\ w_infos w3 = ∅.
Proof.
  assert (Hfi : exists fi0, w_infos w !! pdir = Some (Some fi0) /\ fi_kind fi0 = KDir).
  { vm_compute. eexists. split; reflexivity. }
  destruct Hfi as (fi0 & Hi & Hk).
  assert (Hnlp : snolinkpar (Vp pa w) pdir) by (apply snolinkparb_sound; vm_compute; reflexivity).
  assert (Hne : pdir <> s_root) by (intro H; discriminate H).
  assert (Hnd : forall m, Vp pa w !! pdir <> Some (Dir m)) by (intros m H; vm_compute in H; discriminate H).
  assert (Hrun : b_force_backup cbase cbackup pdir w = (MOk tt, wdir)).
  { assert (Er : rdir = MOk tt) by (vm_compute; reflexivity).
    rewrite <- Er. apply surjective_pairing. }
  destruct (c17_dir_initial_concrete pa pb pa_ok pb_ok pab_disjoint B0 B0_small w0 ops w pdir fi0
              w0_initial ops_good_run Hnlp Hne Hi Hk Hnd wdir opsdir wdir' Hrun
              (good_run_reflect cbase cbackup (Vp pa) opsdir wdir opsdir_run_ok))
    as (_ & w3 & H1 & H2 & H3 & H4 & H5).
  exists w3. split; [exact H1 | split; [exact H2 | split; [| split; [exact H4 | exact H5]]]].
  intros q Hu Hr. exact (H3 q Hu Hr).
Qed.

Example c17_dir_concrete_by_computation :
  let '(r, w3) := b_rollback cbase cbackup wdir' in
  r = MOk tt /\ w_infos w3 = ∅ /\
  map fst (map_to_list (Vp pa w3)) = [[47]; [47;102]; [47;108]] /\
  map fst (map_to_list B0) = [[47]; [47;100]; [47;102]; [47;100;47;103]; [47;108]] /\
  view_erased (Vp pa w3) = view_erased (base.delete [47;100;47;103] (base.delete pdir B0)) /\
  map fst (map_to_list (Vp pb w3)) = [s_root].
Proof.
  vm_compute. repeat split; reflexivity.
Qed.
Print Assumptions c17_dir_concrete_instance.
