(** Non-vacuity of the theorems for the DOCUMENTED layering
    (Proofs/LawsHidden.v): base = HiddenFS(["/v/bk"], PrefixFS("/base")),
    backup = PrefixFS("/base/v/bk") - the backup location lies inside the base
    tree, two levels below its root - over one OS filesystem.

    The history includes operations on the ANCESTOR "/v" of the location:
    RemoveAll("/v") removes everything in "/v" but the location, and its final
    Remove of "/v" itself fails (ENOTEMPTY: the operation returns an error);
    Rename("/v", "/w") is refused by HiddenFS; Mkdir below the location is
    refused as well.  All of them are covered operations.  The hypotheses of
    [c01_documented] are proved by boolean reflection (the checkers of
    Proofs/ConcreteExample.v evaluated by [vm_compute]); its conclusion is
    obtained by applying the theorem and, a second time, by running the
    model. *)
From stdpp Require Import gmap.
From BFS Require Import Spec.CopySpecs Spec.ViewOsfs Spec.ViewHidden.
From BFS Require Import Proofs.LawsOsfsBase Proofs.LawsOsfs Proofs.ConcreteExample.
From BFS Require Import Proofs.LawsHiddenBase Proofs.LawsHiddenView Proofs.LawsHidden.
Open Scope N_scope.

(* ------------------------------------------------------------------ *)
(** * 1. Reflection of [initial] for the documented layering *)

Definition acc_hb (pa h t p : str) : bool :=
  sym_accb pa t p &&
  match is_hidden (to_abs_symlink t p) [h] with Some false => true | _ => false end.

Definition links_okb_h (pa h : str) (s : store) : bool :=
  forallb (fun kv : str * node =>
             match snd kv with
             | Link m t =>
                 str_eqb (clean t) t && negb (str_eqb t []) && is_abs (fst kv) &&
                 acc_hb pa h t (fst kv) && sym_accb (pk_h pa h) t (fst kv) && N.eqb (m_perm m) 511
             | _ => true
             end)
          (map_to_list s).

Lemma links_okb_h_sound (pa h : str) (s : store) :
  prefix_ok pa -> hidden_ok h -> links_okb_h pa h s = true ->
  links_ok clean clean (acc_h pa h) (acc_p (pk_h pa h)) s.
Proof.
  intros Ha Hh H p m t Hp. pose proof (gmap_forallb s _ H p (Link m t) Hp) as C.
  cbv beta in C. simpl fst in C. simpl snd in C. rewrite !andb_true_iff in C.
  destruct C as [[[[[C1 C2] C3] C4] C5] C6].
  apply str_eqb_eq in C1. apply negb_true_iff in C2. apply str_eqb_neq in C2.
  apply N.eqb_eq in C6. unfold acc_hb in C4. apply andb_true_iff in C4. destruct C4 as [C4 C4'].
  split; [exact C1 | split; [exact C1 | split; [exact C2 | split; [| split; [| exact C6]]]]].
  - split; [apply (acc_p_iff pa t p Ha C3); exact C4 |].
    destruct (is_hidden (to_abs_symlink t p) [h]) as [[|]|]; try discriminate C4'. reflexivity.
  - apply (acc_p_iff (pk_h pa h) t p (pk_ok pa h Ha Hh) C3). exact C5.
Qed.

Definition initialb_h (pa h : str) (w : world) : bool :=
  world_okb pa (st_fs (w_st w)) && world_okb (pk_h pa h) (st_fs (w_st w)) &&
  sdirb (Vp pa w) h &&
  links_okb_h pa h (VpH pa h w) && only_rootb (Vp (pk_h pa h) w).

Lemma initialb_h_sound (pa h : str) (w : world) :
  prefix_ok pa -> hidden_ok h ->
  w_crash w = None -> w_faults w = [] -> w_infos w = ∅ ->
  initialb_h pa h w = true ->
  initial (VpH pa h) (Vp (pk_h pa h)) clean clean (acc_h pa h) (acc_p (pk_h pa h)) (VpH pa h w) w.
Proof.
  intros Ha Hh Hc Hf Hi H. unfold initialb_h in H. rewrite !andb_true_iff in H.
  destruct H as [[[[H1 H2] H3] H4] H5].
  split; [split; assumption |]. split; [exact Hi |]. split; [reflexivity |].
  split.
  { rewrite VpH_FH. apply (swf_FH h Hh); [apply (swf_Vp_iff pa w Ha); exact H1 | apply sdirb_sound; exact H3]. }
  split; [apply links_okb_h_sound; assumption |].
  split; [apply only_rootb_sound; exact H5 |].
  apply (swf_Vp_iff (pk_h pa h) w (pk_ok pa h Ha Hh)). exact H2.
Qed.

(* ------------------------------------------------------------------ *)
(** * 2. The instance *)

(** "/base", "/v/bk": the location is "/base/v/bk" *)
Definition dpa : str := [47;98;97;115;101].
Definition dh : str := [47;118;47;98;107].

Lemma dpa_ok : prefix_ok dpa.
Proof. split; [apply abs_cleanedb_sound; vm_compute; reflexivity | intro H; discriminate H]. Qed.
Lemma dh_ok : hidden_ok dh.
Proof. split; [apply abs_cleanedb_sound; vm_compute; reflexivity | intro H; discriminate H]. Qed.

(** the initial world:
<<
      /                 drwxr-xr-x 0:0
      /base             drwxr-xr-x 0:0
      /base/v           drwxr-xr-x 1000:1000
      /base/v/bk        drwx------ 0:0            the backup location (hidden from the base)
      /base/v/g         -rw-r--r-- 1000:1000      "gg"
      /base/v/d         drwxr-xr-x 1000:1000
      /base/v/d/x       -rw-r--r-- 1000:1000      "x"
      /base/f           -rwsr-xr-x 1000:1000      "hello"
      /base/l           lrwxrwxrwx 1000:1000      -> f
>> *)
Definition dw0 : world :=
  let w := init_dir init_world [47] 493 0 0 1 in
  let w := init_dir w dpa 493 0 0 2 in
  let w := init_dir w (dpa ++ [47;118]) 493 1000 1000 3 in
  let w := init_dir w (dpa ++ dh) 448 0 0 4 in
  let w := init_file w (dpa ++ [47;118;47;103]) 420 1000 1000 12 [103;103] in
  let w := init_dir w (dpa ++ [47;118;47;100]) 493 1000 1000 13 in
  let w := init_file w (dpa ++ [47;118;47;100;47;120]) 420 1000 1000 14 [120] in
  let w := init_file w (dpa ++ [47;102]) 2541 1000 1000 10 [104;101;108;108;111] in
  init_link w (dpa ++ [47;108]) 1000 1000 15 [102].

(** the base view when the transaction begins: everything below /base but the location *)
Definition dB0 : store := VpH dpa dh dw0.

Example dB0_keys :
  map fst (map_to_list dB0) =
    [[47]; [47;118;47;100]; [47;102]; [47;118;47;103]; [47;108]; [47;118]; [47;118;47;100;47;120]].
Proof. vm_compute. reflexivity. Qed.

Lemma dw0_initial :
  initial (VpH dpa dh) (Vp (pk_h dpa dh)) clean clean (acc_h dpa dh) (acc_p (pk_h dpa dh)) dB0 dw0.
Proof.
  apply (initialb_h_sound dpa dh dw0 dpa_ok dh_ok);
    [reflexivity | reflexivity | reflexivity | vm_compute; reflexivity].
Qed.

Lemma dB0_small : all_small dB0.
Proof. apply all_smallb_sound. vm_compute. reflexivity. Qed.

(** the history (names are paths of the base view):
      Chmod("/f", 0600)
      RemoveAll("/v")              the PARENT of the location: removes /v/g, /v/d/x, /v/d;
                                   the final Remove of /v fails (ENOTEMPTY)
      Rename("/v", "/w")           refused by HiddenFS (ErrHiddenPermission)
      Create("/v/new") + write "n"
      Mkdir("/v/bk/zz", 0755)      below the location: refused (ErrHiddenPermission)
      Remove("/l")                 a symlink *)
Definition dops : list op :=
  [OChmod [47;102] 384;
   ORemoveAll [47;118];
   ORename [47;118] [47;119];
   OCreate [47;118;47;110;101;119] [110];
   OMkdir [47;118;47;98;107;47;122;122] 493;
   ORemove [47;108]].

Notation dbase := (cfg_base (dcfg dpa dh)).
Notation dbackup := (cfg_backup (dcfg dpa dh)).

Definition dw : world := snd (run_history (dcfg dpa dh) dops dw0).

Example dops_results :
  fst (run_history (dcfg dpa dh) dops dw0) =
    [MOk ObUnit; MErr ENOTEMPTY; MErr (ELayer EHiddenPerm); MOk ObUnit; MErr (ELayer EHiddenPerm); MOk ObUnit].
Proof. vm_compute. reflexivity. Qed.

(** after the history: the base has lost /v/g, /v/d, /v/d/x, /l and gained /v/new;
    the backup (inside /base/v/bk) holds the originals *)
Example dw_base_view :
  map fst (map_to_list (VpH dpa dh dw)) = [[47]; [47;102]; [47;118]; [47;118;47;110;101;119]].
Proof. vm_compute. reflexivity. Qed.

Example dw_backup_view :
  map fst (map_to_list (Vp (pk_h dpa dh) dw)) =
    [[47]; [47;118;47;100]; [47;102]; [47;118;47;103]; [47;108]; [47;118]; [47;118;47;100;47;120]].
Proof. vm_compute. reflexivity. Qed.

Lemma dops_run_ok : run_okb dbase dbackup (VpH dpa dh) dops dw0 = true.
Proof. vm_compute. reflexivity. Qed.

Lemma dops_no_halt : forallb not_haltb (fst (run_history (dcfg dpa dh) dops dw0)) = true.
Proof. vm_compute. reflexivity. Qed.

Lemma dops_good_run : good_run dbase dbackup (VpH dpa dh) dw0 dops dw.
Proof. exact (good_run_history_reflect (dcfg dpa dh) (VpH dpa dh) dops dw0 dops_run_ok dops_no_halt). Qed.

(** ** C01 on the instance: by the theorem ... *)
Example c01_documented_instance :
  exists w', b_rollback dbase dbackup dw = (MOk tt, w') /\
             store_eqv (VpH dpa dh w') dB0 /\ (forall p, p <> s_root -> Vp (pk_h dpa dh) w' !! p = None) /\
             w_infos w' = ∅.
Proof.
  exact (c01_documented dpa dh dpa_ok dh_ok dB0 dB0_small dw0 dops dw dw0_initial dops_good_run).
Qed.

(** ** ... and by running the model *)
Example c01_documented_by_computation :
  let '(r, w') := b_rollback dbase dbackup dw in
  r = MOk tt /\ w_infos w' = ∅ /\
  (* the OS filesystem below /base - the (emptied) location included - is as in [dw0] *)
  region (comps dpa) w' = region (comps dpa) dw0 /\
  (* the same through the views the theorem speaks about *)
  view_erased (VpH dpa dh w') = view_erased dB0 /\
  map fst (map_to_list (Vp (pk_h dpa dh) w')) = [s_root] /\
  (* Rollback did something: before it the region differed *)
  region (comps dpa) dw <> region (comps dpa) dw0.
Proof.
  vm_compute.
  split; [reflexivity | split; [reflexivity | split; [reflexivity | split; [reflexivity |
  split; [reflexivity | intro H; discriminate H]]]]].
Qed.

(** ** C02 on the same instance *)
Example c02_documented_instance :
  (forall p n0, dB0 !! p = Some n0 -> p <> s_root ->
     sonode_eqv (VpH dpa dh dw !! p) (Some n0) \/
     exists nk, Vp (pk_h dpa dh) dw !! p = Some nk /\ copy_of n0 nk) /\
  (forall p, p <> s_root -> Vp (pk_h dpa dh) dw !! p <> None ->
     exists n0 nk, dB0 !! p = Some n0 /\ Vp (pk_h dpa dh) dw !! p = Some nk /\ copy_of n0 nk).
Proof.
  exact (c02_documented dpa dh dpa_ok dh_ok dB0 dB0_small dw0 dops dw dw0_initial dops_good_run).
Qed.

Print Assumptions c01_documented_instance.
Print Assumptions c01_documented_by_computation.
Print Assumptions c02_documented_instance.
