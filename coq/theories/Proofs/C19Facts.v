(** Proofs for [Props/C19.v]: [less] is a strict total order, ancestors sort
    before (after) their descendants, sorted permutations are unique,
    insertion sort is correct, [IterateDirTree] enumerates the ancestor chain,
    and the specification of the chain itself. *)
From BFS Require Import Base.Bytes Path.GoPath Path.PathSpec Path.Iterate Sort.Order.
From BFS Require Import Proofs.PathFacts.
Local Open Scope nat_scope.

(* ------------------------------------------------------------------ *)
(** * [less] is a strict total order *)

Lemma less_spec : forall a b,
  less a b = true <->
  (sep_rank a < sep_rank b)%Z \/ (sep_rank a = sep_rank b /\ str_ltb a b = true).
Proof.
  intros a b. unfold less.
  destruct (Z.eqb_spec (sep_rank a) (sep_rank b)) as [E|E].
  - split.
    + intro H. right. split; [exact E | exact H].
    + intros [H|[_ H]]; [lia | exact H].
  - rewrite Z.ltb_lt. split.
    + intro H. left. exact H.
    + intros [H|[H _]]; [exact H | contradiction].
Qed.

Lemma less_irrefl : forall a, less a a = false.
Proof. intro a. unfold less. rewrite Z.eqb_refl. apply str_ltb_irrefl. Qed.

Lemma less_trans : forall a b c,
  less a b = true -> less b c = true -> less a c = true.
Proof.
  intros a b c H1 H2. rewrite less_spec in *.
  destruct H1 as [H1|[E1 L1]]; destruct H2 as [H2|[E2 L2]].
  - left. lia.
  - left. lia.
  - left. lia.
  - right. split; [lia | eapply str_ltb_trans; eassumption].
Qed.

Lemma less_total : forall a b, a <> b -> less a b = true \/ less b a = true.
Proof.
  intros a b Hne. rewrite !less_spec.
  destruct (Z.lt_total (sep_rank a) (sep_rank b)) as [H|[H|H]].
  - left. left. exact H.
  - destruct (str_ltb_total a b Hne) as [L|L].
    + left. right. split; [exact H | exact L].
    + right. right. split; [symmetry; exact H | exact L].
  - right. left. exact H.
Qed.

Lemma less_asym : forall a b, less a b = true -> less b a = false.
Proof.
  intros a b H. destruct (less b a) eqn:E; [|reflexivity].
  pose proof (less_trans a b a H E) as C. rewrite less_irrefl in C. discriminate C.
Qed.

(** The derived comparison functions. *)
Lemma most_trans : forall x y z,
  most x y = true -> most y z = true -> most x z = true.
Proof.
  unfold most. intros x y z H1 H2.
  apply negb_true_iff in H1. apply negb_true_iff in H2. apply negb_true_iff.
  destruct (less x z) eqn:E; [|reflexivity]. exfalso.
  destruct (str_eq_dec y z) as [Eyz|Nyz].
  - subst z. congruence.
  - destruct (less_total z y) as [L|L].
    + intro F. apply Nyz. symmetry. exact F.
    + pose proof (less_trans x z y E L) as C. congruence.
    + congruence.
Qed.

Lemma most_connex : forall x y, x <> y -> most x y = false -> most y x = true.
Proof.
  unfold most. intros x y _ H. apply negb_false_iff in H. apply negb_true_iff.
  apply less_asym. exact H.
Qed.

Lemma most_antisym : forall x y,
  x <> y -> most x y = true -> most y x = true -> False.
Proof.
  unfold most. intros x y Hne H1 H2.
  apply negb_true_iff in H1. apply negb_true_iff in H2.
  destruct (less_total x y Hne) as [L|L]; congruence.
Qed.

Lemma least_trans : forall x y z,
  least x y = true -> least y z = true -> least x z = true.
Proof. exact less_trans. Qed.

Lemma least_connex : forall x y, x <> y -> least x y = false -> least y x = true.
Proof.
  unfold least. intros x y Hne H.
  destruct (less_total x y Hne) as [L|L]; [congruence | exact L].
Qed.

Lemma least_antisym : forall x y,
  x <> y -> least x y = true -> least y x = true -> False.
Proof.
  unfold least. intros x y _ H1 H2.
  pose proof (less_trans x y x H1 H2) as C. rewrite less_irrefl in C. discriminate C.
Qed.

(* ------------------------------------------------------------------ *)
(** * Generic facts about [StronglySorted], [before], and sorted permutations *)

Section SortedGeneric.
  Variable A : Type.
  Variable R : A -> A -> Prop.

  Lemma StronglySorted_app_r : forall l1 l2 : list A,
    StronglySorted R (l1 ++ l2) -> StronglySorted R l2.
  Proof.
    induction l1 as [|x l1 IH]; simpl; intros l2 H.
    - exact H.
    - inversion H as [|x' l' Hs Hf]; subst. apply IH. exact Hs.
  Qed.

  Lemma StronglySorted_split : forall (s1 s2 s3 : list A) (x y : A),
    StronglySorted R (s1 ++ x :: s2 ++ y :: s3) -> R x y.
  Proof.
    intros s1 s2 s3 x y H. apply StronglySorted_app_r in H.
    inversion H as [|x' l' Hs Hf]; subst.
    rewrite Forall_forall in Hf. apply Hf.
    apply in_or_app. right. left. reflexivity.
  Qed.

  Lemma StronglySorted_irrefl_NoDup : forall l : list A,
    (forall x, ~ R x x) -> StronglySorted R l -> NoDup l.
  Proof.
    intros l Hirr H. induction H as [|x l Hs IH Hf].
    - constructor.
    - constructor; [|exact IH].
      intro Hin. rewrite Forall_forall in Hf. apply (Hirr x). apply Hf. exact Hin.
  Qed.

  Lemma StronglySorted_map_in : forall (B : Type) (R' : B -> B -> Prop) (f : A -> B) (l : list A),
    (forall x y, In x l -> In y l -> R x y -> R' (f x) (f y)) ->
    StronglySorted R l -> StronglySorted R' (map f l).
  Proof.
    intros B R' f l Himp H. induction H as [|x l Hs IH Hf]; simpl.
    - constructor.
    - constructor.
      + apply IH. intros a b Ha Hb. apply Himp; right; assumption.
      + rewrite Forall_forall in *. intros b Hb.
        apply in_map_iff in Hb. destruct Hb as [a [Eb Ha]]. subst b.
        apply Himp; [left; reflexivity | right; exact Ha | apply Hf; exact Ha].
  Qed.

  (** A sorted permutation of a duplicate-free list is unique when no two
      distinct elements are related both ways. *)
  Lemma sorted_perm_unique_aux :
    (forall x y : A, {x = y} + {x <> y}) ->
    (forall x y, x <> y -> R x y -> R y x -> False) ->
    forall s1 s2 : list A,
      NoDup s1 -> Permutation s1 s2 ->
      StronglySorted R s1 -> StronglySorted R s2 -> s1 = s2.
  Proof.
    intros eq_dec Hanti.
    induction s1 as [|x s1 IH]; intros s2 Hnd Hp H1 H2.
    - apply Permutation_nil in Hp. symmetry. exact Hp.
    - destruct s2 as [|y s2].
      + apply Permutation_sym, Permutation_nil in Hp. discriminate Hp.
      + inversion H1 as [|x' l1 Hs1 Hf1]; subst.
        inversion H2 as [|y' l2 Hs2 Hf2]; subst.
        inversion Hnd as [|x' l1 Hnin Hnd1]; subst.
        rewrite Forall_forall in Hf1, Hf2.
        assert (Exy : x = y).
        { destruct (eq_dec x y) as [E|N]; [exact E|]. exfalso.
          assert (Hx : In x (y :: s2)).
          { eapply Permutation_in; [exact Hp | left; reflexivity]. }
          assert (Hy : In y (x :: s1)).
          { eapply Permutation_in; [apply Permutation_sym; exact Hp | left; reflexivity]. }
          destruct Hx as [Hx|Hx]; [apply N; symmetry; exact Hx|].
          destruct Hy as [Hy|Hy]; [apply N; exact Hy|].
          apply (Hanti x y N); [apply Hf1; exact Hy | apply Hf2; exact Hx]. }
        subst y. f_equal. apply IH.
        * exact Hnd1.
        * eapply Permutation_cons_inv. exact Hp.
        * exact Hs1.
        * exact Hs2.
  Qed.
End SortedGeneric.

Arguments StronglySorted_app_r {A R}.
Arguments StronglySorted_split {A R}.
Arguments StronglySorted_irrefl_NoDup {A R}.
Arguments StronglySorted_map_in {A R B R'}.
Arguments sorted_perm_unique_aux {A R}.

Lemma sorted_before : forall lt x y s, sorted_by lt s -> before x y s -> lt x y = true.
Proof.
  intros lt x y s Hs [s1 [s2 [s3 E]]]. subst s.
  unfold sorted_by in Hs. apply StronglySorted_split in Hs. exact Hs.
Qed.

Lemma before_or : forall x y s,
  In x s -> In y s -> x <> y -> before x y s \/ before y x s.
Proof.
  intros x y s Hx Hy Hne.
  apply in_split in Hx. destruct Hx as [l1 [l2 E]]. subst s.
  apply in_app_or in Hy. destruct Hy as [Hy|[Hy|Hy]].
  - right. apply in_split in Hy. destruct Hy as [m1 [m2 E]]. subst l1.
    exists m1, m2, l2. rewrite <- app_assoc. reflexivity.
  - contradiction Hne.
  - left. apply in_split in Hy. destruct Hy as [m1 [m2 E]]. subst l2.
    exists l1, m1, m2. reflexivity.
Qed.

Lemma sorted_perm_unique : forall lt,
  (forall x y, x <> y -> lt x y = true -> lt y x = true -> False) ->
  forall l s1 s2, NoDup l -> Permutation s1 l -> Permutation s2 l ->
  sorted_by lt s1 -> sorted_by lt s2 -> s1 = s2.
Proof.
  intros lt Hanti l s1 s2 Hnd P1 P2 H1 H2.
  apply (sorted_perm_unique_aux str_eq_dec Hanti).
  - eapply Permutation_NoDup; [apply Permutation_sym; exact P1 | exact Hnd].
  - eapply Permutation_trans; [exact P1 | apply Permutation_sym; exact P2].
  - exact H1.
  - exact H2.
Qed.

(* ------------------------------------------------------------------ *)
(** * Insertion sort *)

Lemma insert_perm : forall lt x l, Permutation (insert lt x l) (x :: l).
Proof.
  intros lt x l. induction l as [|y r IH]; simpl.
  - apply Permutation_refl.
  - destruct (lt x y).
    + apply Permutation_refl.
    + eapply Permutation_trans; [apply perm_skip; exact IH | apply perm_swap].
Qed.

Lemma isort_perm : forall lt l, Permutation (isort lt l) l.
Proof.
  intros lt l. induction l as [|x r IH]; simpl.
  - apply Permutation_refl.
  - eapply Permutation_trans; [apply insert_perm | apply perm_skip; exact IH].
Qed.

Lemma insert_sorted : forall lt,
  (forall x y z, lt x y = true -> lt y z = true -> lt x z = true) ->
  (forall x y, x <> y -> lt x y = false -> lt y x = true) ->
  forall x l, ~ In x l -> sorted_by lt l -> sorted_by lt (insert lt x l).
Proof.
  intros lt Htr Hcx x l. unfold sorted_by.
  induction l as [|y r IH]; intros Hnin Hs; simpl.
  - constructor; constructor.
  - inversion Hs as [|y' r' Hsr Hf]; subst.
    destruct (lt x y) eqn:E.
    + constructor; [exact Hs|].
      constructor; [exact E|].
      eapply Forall_impl; [|exact Hf]. intros z Hz. eapply Htr; eassumption.
    + constructor.
      * apply IH; [|exact Hsr]. intro F. apply Hnin. right. exact F.
      * rewrite Forall_forall in *. intros z Hz.
        apply (Permutation_in _ (insert_perm lt x r)) in Hz.
        destruct Hz as [Hz|Hz].
        -- subst z. apply Hcx; [|exact E]. intro F. apply Hnin. left. symmetry. exact F.
        -- apply Hf. exact Hz.
Qed.

Lemma isort_sorted : forall lt,
  (forall x y z, lt x y = true -> lt y z = true -> lt x z = true) ->
  (forall x y, x <> y -> lt x y = false -> lt y x = true) ->
  forall l, NoDup l -> sorted_by lt (isort lt l).
Proof.
  intros lt Htr Hcx l Hnd. induction Hnd as [|x r Hnin Hnd IH]; simpl.
  - constructor.
  - apply insert_sorted; [exact Htr | exact Hcx | | exact IH].
    intro F. apply Hnin. eapply Permutation_in; [apply isort_perm | exact F].
Qed.

Lemma sort_most_ok : forall l,
  NoDup l -> Permutation (sort_most l) l /\ sorted_by most (sort_most l).
Proof.
  intros l Hnd. unfold sort_most. split.
  - apply isort_perm.
  - apply isort_sorted; [exact most_trans | exact most_connex | exact Hnd].
Qed.

Lemma sort_least_ok : forall l,
  NoDup l -> Permutation (sort_least l) l /\ sorted_by least (sort_least l).
Proof.
  intros l Hnd. unfold sort_least. split.
  - apply isort_perm.
  - apply isort_sorted; [exact least_trans | exact least_connex | exact Hnd].
Qed.

Lemma most_sorted_unique : forall l s1 s2,
  NoDup l -> Permutation s1 l -> Permutation s2 l ->
  sorted_by most s1 -> sorted_by most s2 -> s1 = s2.
Proof. exact (sorted_perm_unique most most_antisym). Qed.

Lemma least_sorted_unique : forall l s1 s2,
  NoDup l -> Permutation s1 l -> Permutation s2 l ->
  sorted_by least s1 -> sorted_by least s2 -> s1 = s2.
Proof. exact (sorted_perm_unique least least_antisym). Qed.

(* ------------------------------------------------------------------ *)
(** * Separator rank of rendered component lists; ancestors are smaller *)

Lemma sep_rank_root : sep_rank s_root = (-1)%Z.
Proof. reflexivity. Qed.

Lemma sep_rank_not_root : forall a,
  a <> s_root -> sep_rank a = Z.of_nat (count_sep a).
Proof.
  intros a H. unfold sep_rank. apply str_eqb_neq in H. rewrite H. reflexivity.
Qed.

Lemma sep_rank_render_abs : forall cs,
  Forall good_comp cs -> cs <> [] ->
  sep_rank (render true cs) = Z.of_nat (length cs).
Proof.
  intros cs Hg Hne. rewrite sep_rank_not_root.
  - rewrite count_sep_render_abs by assumption. reflexivity.
  - intro E. apply Hne. apply (render_abs_root_iff cs Hg). exact E.
Qed.

Lemma sep_rank_render_rel : forall cs,
  Forall good_comp cs ->
  sep_rank (render false cs) = Z.of_nat (pred (length cs)).
Proof.
  intros cs Hg. rewrite sep_rank_not_root.
  - rewrite count_sep_render_rel by assumption. reflexivity.
  - apply render_rel_not_root. exact Hg.
Qed.

(** Core fact: rendering a proper prefix of a good component list gives a
    strictly smaller path. *)
Lemma render_less : forall ab x z,
  Forall good_comp (x ++ z) -> z <> [] -> (ab = true \/ x <> []) ->
  less (render ab x) (render ab (x ++ z)) = true.
Proof.
  intros ab x z Hg Hz Hx. apply less_spec. left.
  pose proof (neq_nil_length _ z Hz) as Lz.
  assert (Hgx : Forall good_comp x).
  { apply Forall_app in Hg. destruct Hg as [Hgx _]. exact Hgx. }
  assert (Hxz : x ++ z <> []).
  { intro E. apply app_eq_nil in E. destruct E as [_ E]. contradiction. }
  destruct ab.
  - rewrite (sep_rank_render_abs (x ++ z) Hg Hxz). rewrite app_length.
    destruct x as [|c x].
    + change (render true []) with s_root. rewrite sep_rank_root. lia.
    + rewrite (sep_rank_render_abs (c :: x) Hgx) by discriminate. simpl length. lia.
  - destruct Hx as [Hx|Hx]; [discriminate Hx|].
    pose proof (neq_nil_length _ x Hx) as Lx.
    rewrite (sep_rank_render_rel x Hgx), (sep_rank_render_rel (x ++ z) Hg).
    rewrite app_length. lia.
Qed.

Lemma ancestor_less : forall a p,
  cleaned a -> cleaned p -> ancestor a p -> less a p = true.
Proof.
  intros a p Ha Hp [Hne [[Habs [rest Hcs]] Hdot]].
  pose proof (cleaned_eq a Ha) as Ea.
  pose proof (cleaned_eq p Hp) as Ep.
  rewrite Ea, Ep. rewrite Hcs, <- Habs.
  apply render_less.
  - rewrite <- Hcs. apply comps_good.
  - intro E. subst rest. rewrite app_nil_r in Hcs.
    apply Hne. rewrite Ea, Ep. rewrite Hcs, Habs. reflexivity.
  - destruct (is_abs a) eqn:Eabs; [left; reflexivity | right].
    intro E. apply Hdot. rewrite Ea. rewrite E. reflexivity.
Qed.

Lemma most_sorted_ancestors : forall l s,
  NoDup l -> Forall cleaned l -> Permutation s l -> sorted_by most s ->
  forall a p, In a s -> In p s -> ancestor a p -> before p a s.
Proof.
  intros l s _ Hcl Hperm Hs a p Ha Hp Hanc.
  rewrite Forall_forall in Hcl.
  assert (Hlt : less a p = true).
  { apply ancestor_less; [| |exact Hanc]; apply Hcl; eapply Permutation_in; eassumption. }
  destruct Hanc as [Hne _].
  destruct (before_or a p s Ha Hp Hne) as [B|B]; [|exact B].
  exfalso. pose proof (sorted_before most a p s Hs B) as M.
  unfold most in M. rewrite Hlt in M. discriminate M.
Qed.

Lemma least_sorted_ancestors : forall l s,
  NoDup l -> Forall cleaned l -> Permutation s l -> sorted_by least s ->
  forall a p, In a s -> In p s -> ancestor a p -> before a p s.
Proof.
  intros l s _ Hcl Hperm Hs a p Ha Hp Hanc.
  rewrite Forall_forall in Hcl.
  assert (Hlt : less a p = true).
  { apply ancestor_less; [| |exact Hanc]; apply Hcl; eapply Permutation_in; eassumption. }
  destruct Hanc as [Hne _].
  destruct (before_or a p s Ha Hp Hne) as [B|B]; [exact B|].
  exfalso. pose proof (sorted_before least p a s Hs B) as M.
  unfold least in M. rewrite (less_asym a p Hlt) in M. discriminate M.
Qed.

(* ------------------------------------------------------------------ *)
(** * [prefixes_from] *)

Definition sprefix {A} (x y : list A) : Prop := exists z, z <> [] /\ y = x ++ z.

Lemma prefixes_from_app : forall (A : Type) (l acc : list A),
  prefixes_from acc l = map (app acc) (prefixes_from [] l).
Proof.
  intros A l. induction l as [|x r IH]; intro acc; simpl.
  - reflexivity.
  - f_equal. rewrite (IH (acc ++ [x])). rewrite (IH [x]). rewrite map_map.
    apply map_ext. intro y. rewrite app_assoc. reflexivity.
Qed.

Lemma prefixes_from_cons : forall (A : Type) (a : A) (l : list A),
  prefixes_from [a] l = map (cons a) (prefixes_from [] l).
Proof. intros A a l. rewrite prefixes_from_app. reflexivity. Qed.

Lemma prefixes_from_nil_cons : forall (A : Type) (c : A) (l : list A),
  prefixes_from [] (c :: l) = [c] :: map (cons c) (prefixes_from [] l).
Proof. intros A c l. simpl. rewrite prefixes_from_cons. reflexivity. Qed.

Lemma in_prefixes : forall (A : Type) (l x : list A),
  In x (prefixes_from [] l) <-> x <> [] /\ exists l2, l = x ++ l2.
Proof.
  intros A l. induction l as [|c r IH]; intro x.
  - simpl. split; [intros [] |].
    intros [Hne [l2 E]]. symmetry in E. apply app_eq_nil in E.
    destruct E as [E _]. contradiction.
  - rewrite prefixes_from_nil_cons. simpl. rewrite in_map_iff. split.
    + intros [E|[y [E Hy]]].
      * subst x. split; [discriminate|]. exists r. reflexivity.
      * subst x. split; [discriminate|]. apply IH in Hy.
        destruct Hy as [_ [l2 E]]. exists l2. rewrite E. reflexivity.
    + intros [Hne [l2 E]]. destruct x as [|c' y]; [contradiction Hne; reflexivity|].
      simpl in E. injection E as Ec E. subst c'.
      destruct y as [|d y].
      * left. reflexivity.
      * right. exists (d :: y). split; [reflexivity|]. apply IH.
        split; [discriminate|]. exists l2. exact E.
Qed.

Lemma prefixes_from_snoc : forall (A : Type) (l acc : list A),
  l <> [] -> exists l', prefixes_from acc l = l' ++ [acc ++ l].
Proof.
  intros A l. induction l as [|x r IH]; intros acc Hne.
  - contradiction Hne. reflexivity.
  - simpl. destruct r as [|y r].
    + exists []. reflexivity.
    + destruct (IH (acc ++ [x])) as [l' E]; [discriminate|].
      exists ((acc ++ [x]) :: l'). rewrite E. rewrite <- app_assoc. reflexivity.
Qed.

Lemma prefixes_sorted : forall (A : Type) (l : list A),
  StronglySorted sprefix (prefixes_from [] l).
Proof.
  intros A l. induction l as [|c r IH].
  - constructor.
  - rewrite prefixes_from_nil_cons. constructor.
    + apply (StronglySorted_map_in (R := sprefix)); [|exact IH].
      intros x y _ _ [z [Hz E]]. exists z. split; [exact Hz|].
      rewrite E. reflexivity.
    + rewrite Forall_forall. intros y Hy. apply in_map_iff in Hy.
      destruct Hy as [w [E Hw]]. subst y. apply in_prefixes in Hw.
      destruct Hw as [Hne _]. exists w. split; [exact Hne | reflexivity].
Qed.

(* ------------------------------------------------------------------ *)
(** * The chain in terms of components *)

Definition pchain (ab : bool) (cs : list str) : list str :=
  if ab then
    s_root :: map (fun x => sep :: join_sep x) (prefixes_from [] cs)
  else
    match cs with
    | [] => [s_dot]
    | c :: r => map join_sep (prefixes_from [] (c :: r))
    end.

Lemma chain_pchain : forall p, chain p = pchain (is_abs p) (comps p).
Proof. intro p. reflexivity. Qed.

Lemma pchain_abs : forall cs,
  pchain true cs = map (render true) ([] :: prefixes_from [] cs).
Proof. intro cs. reflexivity. Qed.

Lemma pchain_rel : forall cs,
  cs <> [] -> pchain false cs = map (render false) (prefixes_from [] cs).
Proof.
  intros cs Hne. destruct cs as [|c cs]; [contradiction Hne; reflexivity|].
  unfold pchain. apply map_ext_in. intros x Hx. apply in_prefixes in Hx.
  destruct Hx as [Hx _]. symmetry. apply render_rel_nonnil. exact Hx.
Qed.

Lemma pchain_in : forall ab cs a,
  In a (pchain ab cs) <->
  exists x l2, cs = x ++ l2 /\ a = render ab x /\ (x = [] -> ab = true \/ cs = []).
Proof.
  intros ab cs a. destruct ab.
  - rewrite pchain_abs. rewrite in_map_iff. split.
    + intros [x [E [Hx|Hx]]].
      * subst x. exists [], cs. split; [reflexivity|]. split; [symmetry; exact E|].
        intros _. left. reflexivity.
      * apply in_prefixes in Hx. destruct Hx as [Hne [l2 El]].
        exists x, l2. split; [exact El|]. split; [symmetry; exact E|].
        intros _. left. reflexivity.
    + intros [x [l2 [El [E _]]]]. exists x. split; [symmetry; exact E|].
      destruct x as [|c x].
      * left. reflexivity.
      * right. apply in_prefixes. split; [discriminate|]. exists l2. exact El.
  - destruct cs as [|c cs].
    + simpl. split.
      * intros [E|[]]. exists [], []. split; [reflexivity|].
        split; [symmetry; exact E|]. intros _. right. reflexivity.
      * intros [x [l2 [El [E _]]]]. left. symmetry in El.
        apply app_eq_nil in El. destruct El as [Ex _]. subst x. symmetry. exact E.
    + rewrite pchain_rel by discriminate. rewrite in_map_iff. split.
      * intros [x [E Hx]]. apply in_prefixes in Hx. destruct Hx as [Hne [l2 El]].
        exists x, l2. split; [exact El|]. split; [symmetry; exact E|].
        intro F. contradiction.
      * intros [x [l2 [El [E Hx]]]]. exists x. split; [symmetry; exact E|].
        apply in_prefixes. split; [|exists l2; exact El].
        intro F. destruct (Hx F) as [G|G]; discriminate G.
Qed.

Lemma pchain_last : forall ab cs, last (pchain ab cs) [] = render ab cs.
Proof.
  intros ab cs. destruct cs as [|c cs].
  - destruct ab; reflexivity.
  - destruct (prefixes_from_snoc _ (c :: cs) []) as [l' E]; [discriminate|].
    simpl app in E. destruct ab.
    + rewrite pchain_abs. rewrite E. rewrite app_comm_cons. rewrite map_app.
      simpl map at 2. apply last_last.
    + rewrite pchain_rel by discriminate. rewrite E. rewrite map_app.
      simpl map at 2. apply last_last.
Qed.

Lemma pchain_sorted : forall ab cs,
  Forall good_comp cs -> sorted_by least (pchain ab cs).
Proof.
  intros ab cs Hg. unfold sorted_by, least.
  assert (Hstep : forall x y, In x (prefixes_from [] cs) -> In y (prefixes_from [] cs) ->
            sprefix x y -> less (render ab x) (render ab y) = true).
  { intros x y Hx Hy [z [Hz E]]. subst y.
    apply in_prefixes in Hx. destruct Hx as [Hxne _].
    apply in_prefixes in Hy. destruct Hy as [_ [l2 El]].
    apply render_less; [|exact Hz|right; exact Hxne].
    rewrite El in Hg. apply Forall_app in Hg. destruct Hg as [Hg _]. exact Hg. }
  pose proof (StronglySorted_map_in (R' := fun a b => less a b = true)
                (render ab) _ Hstep (prefixes_sorted _ cs)) as Hs.
  destruct ab.
  - rewrite pchain_abs. simpl map. constructor; [exact Hs|].
    rewrite Forall_forall. intros b Hb. apply in_map_iff in Hb.
    destruct Hb as [y [E Hy]]. subst b.
    apply in_prefixes in Hy. destruct Hy as [Hyne [l2 El]].
    apply (render_less true [] y); [|exact Hyne|left; reflexivity].
    simpl. rewrite El in Hg. apply Forall_app in Hg. destruct Hg as [Hg _]. exact Hg.
  - destruct cs as [|c cs].
    + simpl. constructor; constructor.
    + rewrite pchain_rel by discriminate. exact Hs.
Qed.

Lemma pchain_NoDup : forall ab cs, Forall good_comp cs -> NoDup (pchain ab cs).
Proof.
  intros ab cs Hg.
  apply (StronglySorted_irrefl_NoDup _ (R := fun x y => least x y = true)).
  - intros x H. unfold least in H. rewrite less_irrefl in H. discriminate H.
  - apply pchain_sorted. exact Hg.
Qed.

(* ------------------------------------------------------------------ *)
(** * [cands] computes the chain *)

Lemma cands_from_cons2 : forall i c r name,
  r <> [] ->
  cands_from i (c :: r) name =
    if N.eqb c sep then firstn (Nat.max i 1) name :: cands_from (S i) r name
    else cands_from (S i) r name.
Proof. intros i c [|y r] name H; [contradiction H|]; reflexivity. Qed.

(** The last component: only the full name is produced. *)
Lemma cands_from_last : forall c pre name,
  c <> [] -> nosep c -> name = pre ++ c ->
  cands_from (length pre) c name = [name].
Proof.
  induction c as [|x c IH]; intros pre name Hne Hns E.
  - contradiction Hne. reflexivity.
  - apply nosep_cons in Hns. destruct Hns as [Hx Hc]. apply N.eqb_neq in Hx.
    destruct c as [|y c].
    + change (cands_from (length pre) [x] name) with [firstn (S (length pre)) name].
      rewrite <- (length_snoc _ pre x). rewrite E. rewrite firstn_all. reflexivity.
    + rewrite cands_from_cons2 by discriminate. rewrite Hx.
      rewrite <- (length_snoc _ pre x). apply IH.
      * discriminate.
      * exact Hc.
      * rewrite E. rewrite <- app_assoc. reflexivity.
Qed.

(** A component followed by a separator and more: the prefix up to the
    separator is produced, then the scan continues after the separator. *)
Lemma cands_from_comp : forall c pre rest name,
  nosep c -> rest <> [] -> pre ++ c <> [] -> name = pre ++ c ++ sep :: rest ->
  cands_from (length pre) (c ++ sep :: rest) name =
    (pre ++ c) :: cands_from (S (length (pre ++ c))) rest name.
Proof.
  induction c as [|x c IH]; intros pre rest name Hns Hrest Hpc E.
  - rewrite app_nil_r in *. simpl app in *.
    rewrite cands_from_cons2 by exact Hrest. rewrite eqb_sep_sep.
    f_equal. rewrite Nat.max_l.
    + rewrite E. apply firstn_length_app.
    + pose proof (neq_nil_length _ pre Hpc). lia.
  - apply nosep_cons in Hns. destruct Hns as [Hx Hc]. apply N.eqb_neq in Hx.
    change ((x :: c) ++ sep :: rest) with (x :: (c ++ sep :: rest)).
    rewrite cands_from_cons2 by (destruct c; discriminate). rewrite Hx.
    rewrite <- (length_snoc _ pre x).
    rewrite (IH (pre ++ [x]) rest name Hc Hrest).
    + rewrite <- app_assoc. reflexivity.
    + intro F. apply app_eq_nil in F. destruct F as [F _].
      apply app_eq_nil in F. destruct F as [_ F]. discriminate F.
    + rewrite E. rewrite <- app_assoc. reflexivity.
Qed.

Lemma cands_from_join : forall cs pre name,
  Forall good_comp cs -> cs <> [] -> name = pre ++ join_sep cs ->
  cands_from (length pre) (join_sep cs) name =
    map (fun x => pre ++ join_sep x) (prefixes_from [] cs).
Proof.
  induction cs as [|c cs IH]; intros pre name Hg Hne E.
  - contradiction Hne. reflexivity.
  - inversion Hg as [|c' cs' Hc Hcs]; subst c' cs'.
    destruct Hc as [Hc1 [_ Hc3]].
    destruct cs as [|c2 cs].
    + simpl. simpl in E. rewrite (cands_from_last c pre name Hc1 Hc3 E).
      rewrite E. reflexivity.
    + rewrite join_sep_cons in * by discriminate.
      assert (Hrest : join_sep (c2 :: cs) <> []).
      { apply join_sep_nonempty; [exact Hcs | discriminate]. }
      rewrite (cands_from_comp c pre _ name Hc3 Hrest); [| |exact E].
      2:{ intro F. apply app_eq_nil in F. destruct F as [_ F]. contradiction. }
      rewrite prefixes_from_nil_cons, map_cons, map_map.
      change (join_sep [c]) with c. f_equal.
      assert (El : S (length (pre ++ c)) = length (pre ++ c ++ [sep])).
      { rewrite app_assoc. rewrite length_snoc. reflexivity. }
      rewrite El. rewrite (IH (pre ++ c ++ [sep]) name Hcs).
      * apply map_ext_in. intros x Hx.
        apply in_prefixes in Hx. destruct Hx as [Hx _].
        rewrite join_sep_cons by exact Hx.
        rewrite <- !app_assoc. reflexivity.
      * discriminate.
      * rewrite E. rewrite <- !app_assoc. reflexivity.
Qed.

Lemma cands_render : forall ab cs,
  Forall good_comp cs -> cands (render ab cs) = pchain ab cs.
Proof.
  intros ab cs Hg. destruct cs as [|c cs].
  - destruct ab; reflexivity.
  - destruct ab.
    + rewrite render_abs. unfold cands.
      rewrite cands_from_cons2
        by (apply join_sep_nonempty; [exact Hg | discriminate]).
      rewrite eqb_sep_sep. unfold pchain. f_equal.
      apply (cands_from_join (c :: cs) [sep] (sep :: join_sep (c :: cs)) Hg).
      * discriminate.
      * reflexivity.
    + rewrite render_rel_cons. unfold cands.
      apply (cands_from_join (c :: cs) [] (join_sep (c :: cs)) Hg).
      * discriminate.
      * reflexivity.
Qed.

Lemma cands_chain : forall p, cleaned p -> cands p = chain p.
Proof.
  intros p Hp. rewrite chain_pchain.
  rewrite (cleaned_eq p Hp) at 1. apply cands_render. apply comps_good.
Qed.

(* ------------------------------------------------------------------ *)
(** * [visit] *)

Lemma visit_all : forall l, visit (fun _ => true) l = (l, false).
Proof.
  induction l as [|x r IH]; simpl.
  - reflexivity.
  - rewrite IH. reflexivity.
Qed.

Lemma visit_spec : forall v l,
  let '(vis, ab) := visit v l in
  (ab = false -> vis = l /\ Forall (fun x => v x = true) l) /\
  (ab = true -> exists pre x post, l = pre ++ x :: post /\ vis = pre ++ [x] /\
                 Forall (fun y => v y = true) pre /\ v x = false).
Proof.
  intros v l. induction l as [|x r IH]; simpl.
  - split.
    + intros _. split; constructor.
    + intro H. discriminate H.
  - destruct (v x) eqn:Ev.
    + destruct (visit v r) as [vis ab]. destruct IH as [IH1 IH2]. split.
      * intro Hab. destruct (IH1 Hab) as [E F]. split.
        -- rewrite E. reflexivity.
        -- constructor; [exact Ev | exact F].
      * intro Hab. destruct (IH2 Hab) as [pre [y [post [E1 [E2 [F Hy]]]]]].
        exists (x :: pre), y, post. split; [|split; [|split]].
        -- rewrite E1. reflexivity.
        -- rewrite E2. reflexivity.
        -- constructor; [exact Ev | exact F].
        -- exact Hy.
    + split.
      * intro H. discriminate H.
      * intros _. exists [], x, r. split; [|split; [|split]].
        -- reflexivity.
        -- reflexivity.
        -- constructor.
        -- exact Ev.
Qed.

Lemma iterate_all : forall p,
  cleaned p -> iterate_dir_tree p (fun _ => true) = (chain p, false).
Proof.
  intros p Hp. unfold iterate_dir_tree. rewrite (cands_chain p Hp). apply visit_all.
Qed.

Lemma iterate_stop : forall p v, cleaned p ->
  let '(vis, ab) := iterate_dir_tree p v in
  (ab = false -> vis = chain p /\ Forall (fun x => v x = true) (chain p)) /\
  (ab = true -> exists pre x post, chain p = pre ++ x :: post /\ vis = pre ++ [x] /\
                 Forall (fun y => v y = true) pre /\ v x = false).
Proof.
  intros p v Hp. unfold iterate_dir_tree. rewrite (cands_chain p Hp).
  apply visit_spec.
Qed.

(* ------------------------------------------------------------------ *)
(** * Specification of the chain *)

Lemma pchain_member_spec : forall ab cs p,
  normal ab cs -> p = render ab cs ->
  forall a, In a (pchain ab cs) <-> (cleaned a /\ (a = p \/ ancestor a p)).
Proof.
  intros ab cs p Hn Ep a.
  pose proof (normal_good _ _ Hn) as Hg.
  assert (Habs : is_abs p = ab) by (rewrite Ep; apply is_abs_render; exact Hg).
  assert (Hcs : comps p = cs) by (rewrite Ep; apply comps_render; exact Hn).
  rewrite pchain_in. split.
  - intros [x [l2 [El [Ea Hx]]]].
    assert (Hnx : normal ab x) by (rewrite El in Hn; eapply normal_app_l; exact Hn).
    pose proof (normal_good _ _ Hnx) as Hgx.
    split.
    + rewrite Ea. apply cleaned_render. exact Hnx.
    + destruct l2 as [|c l2].
      * left. rewrite app_nil_r in El. subst x. congruence.
      * right.
        assert (Hx' : ab = true \/ x <> []).
        { destruct x as [|d x]; [|right; discriminate].
          destruct (Hx eq_refl) as [G|G]; [left; exact G|].
          rewrite G in El. discriminate El. }
        assert (Hlt : less a p = true).
        { rewrite Ea, Ep, El. apply render_less.
          - rewrite <- El. exact Hg.
          - discriminate.
          - exact Hx'. }
        split; [|split].
        -- intro E. rewrite E in Hlt. rewrite less_irrefl in Hlt. discriminate Hlt.
        -- split.
           ++ rewrite Habs. rewrite Ea. apply is_abs_render. exact Hgx.
           ++ exists (c :: l2). rewrite Hcs. rewrite Ea.
              rewrite (comps_render _ _ Hnx). exact El.
        -- intro E. destruct Hx' as [G|G].
           ++ pose proof (is_abs_render ab x Hgx) as A. rewrite <- Ea, E, G in A.
              vm_compute in A. discriminate A.
           ++ apply G. rewrite <- (comps_render _ _ Hnx). rewrite <- Ea. rewrite E.
              vm_compute. reflexivity.
  - intros [Hca [E|[Hne [[Hab [rest Hrest]] Hdot]]]].
    + exists cs, []. split; [rewrite app_nil_r; reflexivity|].
      split; [congruence|]. intro F. right. exact F.
    + exists (comps a), rest. split; [rewrite <- Hcs; exact Hrest|].
      split.
      * rewrite <- Habs, <- Hab. apply cleaned_eq. exact Hca.
      * intro F. destruct ab; [left; reflexivity|]. exfalso. apply Hdot.
        rewrite (cleaned_eq a Hca). rewrite Hab, Habs, F. reflexivity.
Qed.

Lemma chain_spec : forall p, cleaned p ->
  NoDup (chain p) /\ last (chain p) [] = p /\ sorted_by least (chain p) /\
  (forall a, In a (chain p) <-> (cleaned a /\ (a = p \/ ancestor a p))).
Proof.
  intros p Hp. rewrite chain_pchain.
  pose proof (comps_normal p) as Hn. pose proof (comps_good p) as Hg.
  pose proof (cleaned_eq p Hp) as Ep.
  split; [|split; [|split]].
  - apply pchain_NoDup. exact Hg.
  - rewrite pchain_last. symmetry. exact Ep.
  - apply pchain_sorted. exact Hg.
  - apply pchain_member_spec; assumption.
Qed.
