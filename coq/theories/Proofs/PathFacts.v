(** Reusable facts about byte strings ([Base/Bytes.v]) and the path model
    ([Path/GoPath.v], [Path/PathSpec.v]).

    Contents:
    - [str_eqb] reflects equality; [str_ltb] is a strict total order;
    - [split_sep] / [join_sep] round trips, [count_sep] over [++] and [join_sep];
    - normal forms of component lists ([normal]), [norm] produces them and
      fixes them;
    - [render] / [comps] / [clean] on normal forms; the key fact
      [cleaned p -> p = render (is_abs p) (comps p)] and the resulting
      separator counts. *)
From BFS Require Import Base.Bytes Path.GoPath Path.PathSpec.
Local Open Scope nat_scope.

(* ------------------------------------------------------------------ *)
(** * Small list facts *)

Lemma firstn_length_app : forall (A : Type) (l1 l2 : list A),
  firstn (length l1) (l1 ++ l2) = l1.
Proof.
  intros A l1 l2. induction l1 as [|x l1 IH]; simpl.
  - reflexivity.
  - rewrite IH. reflexivity.
Qed.

Lemma length_snoc : forall (A : Type) (l : list A) (x : A),
  length (l ++ [x]) = S (length l).
Proof. intros A l x. rewrite app_length. simpl. lia. Qed.

Lemma neq_nil_length : forall (A : Type) (l : list A), l <> [] -> length l <> 0.
Proof. intros A [|x l] H; [contradiction | simpl; lia]. Qed.

(* ------------------------------------------------------------------ *)
(** * Bytes *)

Lemma sep_neq_dot : sep <> dot.
Proof. unfold sep, dot. intro H. discriminate H. Qed.

Lemma eqb_sep_sep : N.eqb sep sep = true.
Proof. apply N.eqb_refl. Qed.

(* ------------------------------------------------------------------ *)
(** * [str_eqb] *)

Lemma str_eqb_eq : forall a b, str_eqb a b = true <-> a = b.
Proof.
  induction a as [|x a IH]; intros [|y b]; simpl; split; intro H;
    try reflexivity; try discriminate H.
  - apply andb_true_iff in H. destruct H as [Hx Hr].
    apply N.eqb_eq in Hx. apply IH in Hr. subst. reflexivity.
  - injection H as Hx Hr. subst. rewrite N.eqb_refl. simpl.
    apply IH. reflexivity.
Qed.

Lemma str_eqb_refl : forall a, str_eqb a a = true.
Proof. intro a. apply str_eqb_eq. reflexivity. Qed.

Lemma str_eqb_neq : forall a b, str_eqb a b = false <-> a <> b.
Proof.
  intros a b. split.
  - intros H E. apply str_eqb_eq in E. congruence.
  - intro H. destruct (str_eqb a b) eqn:E; [|reflexivity].
    apply str_eqb_eq in E. contradiction.
Qed.

Lemma str_eqb_spec : forall a b, reflect (a = b) (str_eqb a b).
Proof.
  intros a b. destruct (str_eqb a b) eqn:E; constructor.
  - apply str_eqb_eq. exact E.
  - apply str_eqb_neq. exact E.
Qed.

Lemma str_eqb_sym : forall a b, str_eqb a b = str_eqb b a.
Proof.
  intros a b. destruct (str_eqb_spec a b) as [E|E]; symmetry.
  - apply str_eqb_eq. congruence.
  - apply str_eqb_neq. congruence.
Qed.

Lemma str_eq_dec : forall a b : str, {a = b} + {a <> b}.
Proof.
  intros a b. destruct (str_eqb a b) eqn:E.
  - left. apply str_eqb_eq. exact E.
  - right. apply str_eqb_neq. exact E.
Qed.

Lemma str_in_In : forall x l, str_in x l = true <-> In x l.
Proof.
  intros x l. unfold str_in. rewrite existsb_exists. split.
  - intros [y [Hy E]]. apply str_eqb_eq in E. subst. exact Hy.
  - intro H. exists x. split; [exact H | apply str_eqb_refl].
Qed.

(* ------------------------------------------------------------------ *)
(** * [str_ltb] is a strict total order *)

Lemma str_ltb_irrefl : forall a, str_ltb a a = false.
Proof.
  induction a as [|x a IH]; simpl.
  - reflexivity.
  - rewrite N.ltb_irrefl, N.eqb_refl. exact IH.
Qed.

Lemma str_ltb_trans : forall a b c,
  str_ltb a b = true -> str_ltb b c = true -> str_ltb a c = true.
Proof.
  induction a as [|x a IH]; intros [|y b] [|z c]; simpl; intros H1 H2;
    try discriminate H1; try discriminate H2; try reflexivity.
  destruct (N.ltb_spec x y) as [Hxy|Hxy]; destruct (N.eqb_spec x y) as [Exy|Exy];
  destruct (N.ltb_spec y z) as [Hyz|Hyz]; destruct (N.eqb_spec y z) as [Eyz|Eyz];
  destruct (N.ltb_spec x z) as [Hxz|Hxz]; destruct (N.eqb_spec x z) as [Exz|Exz];
    try discriminate H1; try discriminate H2; try reflexivity; try lia.
  eapply IH; eassumption.
Qed.

Lemma str_ltb_total : forall a b,
  a <> b -> str_ltb a b = true \/ str_ltb b a = true.
Proof.
  induction a as [|x a IH]; intros [|y b] Hne; simpl.
  - contradiction Hne. reflexivity.
  - left. reflexivity.
  - right. reflexivity.
  - destruct (N.ltb_spec x y) as [Hxy|Hxy]; [left; reflexivity|].
    destruct (N.ltb_spec y x) as [Hyx|Hyx]; [right; reflexivity|].
    assert (E : x = y) by lia. subst y.
    rewrite N.eqb_refl. apply IH. intro E. apply Hne. subst. reflexivity.
Qed.

Lemma str_ltb_asym : forall a b, str_ltb a b = true -> str_ltb b a = false.
Proof.
  intros a b H. destruct (str_ltb b a) eqn:E; [|reflexivity].
  pose proof (str_ltb_trans a b a H E) as C.
  rewrite str_ltb_irrefl in C. discriminate C.
Qed.

(* ------------------------------------------------------------------ *)
(** * [has_prefix] / [trim_prefix] *)

Lemma has_prefix_app : forall p r, has_prefix (p ++ r) p = true.
Proof.
  induction p as [|x p IH]; intro r; simpl.
  - destruct r; reflexivity.
  - rewrite N.eqb_refl. simpl. apply IH.
Qed.

Lemma has_prefix_iff : forall s p, has_prefix s p = true <-> exists r, s = p ++ r.
Proof.
  intros s p. revert s. induction p as [|y p IH]; intros s; simpl.
  - split; [intros _; exists s; reflexivity | intros _; destruct s; reflexivity].
  - destruct s as [|x s].
    + split; [intro H; discriminate H | intros [r Hr]; discriminate Hr].
    + simpl. rewrite andb_true_iff, N.eqb_eq, IH. split.
      * intros [E [r Hr]]. subst. exists r. reflexivity.
      * intros [r Hr]. injection Hr as E Hr. subst. split; [reflexivity|].
        exists r. reflexivity.
Qed.

Lemma trim_prefix_app : forall p r, trim_prefix (p ++ r) p = r.
Proof.
  intros p r. unfold trim_prefix. rewrite has_prefix_app.
  induction p as [|x p IH]; simpl; [reflexivity | exact IH].
Qed.

(* ------------------------------------------------------------------ *)
(** * [count_sep], [split_sep], [join_sep] *)

(** A string without separator byte. *)
Definition nosep (c : str) : Prop := ~ In sep c.

Lemma nosep_nil : nosep [].
Proof. intro H. exact H. Qed.

Lemma nosep_cons : forall x c, nosep (x :: c) <-> x <> sep /\ nosep c.
Proof.
  intros x c. unfold nosep. simpl. split.
  - intro H. split; intro E; apply H; [left; exact E | right; exact E].
  - intros [H1 H2] [E|E]; [apply H1; exact E | apply H2; exact E].
Qed.

Lemma count_sep_app : forall a b, count_sep (a ++ b) = count_sep a + count_sep b.
Proof.
  induction a as [|x a IH]; intro b; simpl.
  - reflexivity.
  - rewrite IH. destruct (N.eqb x sep); reflexivity.
Qed.

Lemma count_sep_nosep : forall c, nosep c -> count_sep c = 0.
Proof.
  induction c as [|x c IH]; intro H; simpl.
  - reflexivity.
  - apply nosep_cons in H. destruct H as [Hx Hc].
    apply N.eqb_neq in Hx. rewrite Hx. apply IH. exact Hc.
Qed.

Lemma count_sep_zero_nosep : forall c, count_sep c = 0 -> nosep c.
Proof.
  induction c as [|x c IH]; simpl; intro H.
  - apply nosep_nil.
  - destruct (N.eqb_spec x sep) as [E|E]; [discriminate H|].
    apply nosep_cons. split; [exact E | apply IH; exact H].
Qed.

Lemma count_sep_sep_cons : forall r, count_sep (sep :: r) = S (count_sep r).
Proof. intro r. reflexivity. Qed.

Lemma join_sep_cons : forall c cs,
  cs <> [] -> join_sep (c :: cs) = c ++ sep :: join_sep cs.
Proof. intros c [|c2 cs] H; [contradiction | reflexivity]. Qed.

Lemma join_sep_single : forall c, join_sep [c] = c.
Proof. reflexivity. Qed.

Lemma count_sep_join : forall cs,
  Forall nosep cs -> count_sep (join_sep cs) = pred (length cs).
Proof.
  induction cs as [|c cs IH]; intro H.
  - reflexivity.
  - inversion H as [|c' cs' Hc Hcs]; subst.
    destruct cs as [|c2 cs].
    + simpl. apply count_sep_nosep. exact Hc.
    + rewrite join_sep_cons by discriminate.
      rewrite count_sep_app. rewrite count_sep_sep_cons.
      rewrite (count_sep_nosep c Hc). rewrite (IH Hcs). reflexivity.
Qed.

Lemma split_sep_nonnil : forall s, split_sep s <> [].
Proof.
  intros [|c r]; simpl.
  - discriminate.
  - destruct (N.eqb c sep); [discriminate|].
    destruct (split_sep r); discriminate.
Qed.

Lemma split_sep_nosep : forall s, Forall nosep (split_sep s).
Proof.
  induction s as [|c r IH]; simpl.
  - constructor; [apply nosep_nil | constructor].
  - destruct (N.eqb_spec c sep) as [E|E].
    + constructor; [apply nosep_nil | exact IH].
    + destruct (split_sep r) as [|h t].
      * constructor; [|constructor].
        apply nosep_cons. split; [exact E | apply nosep_nil].
      * inversion IH as [|h' t' Hh Ht]; subst.
        constructor; [|exact Ht].
        apply nosep_cons. split; [exact E | exact Hh].
Qed.

(** Round trip 1: joining the split gives the string back. *)
Lemma join_split : forall s, join_sep (split_sep s) = s.
Proof.
  induction s as [|c r IH]; simpl.
  - reflexivity.
  - pose proof (split_sep_nonnil r) as Hnn.
    destruct (N.eqb_spec c sep) as [E|E].
    + rewrite join_sep_cons by exact Hnn. rewrite IH. subst c. reflexivity.
    + destruct (split_sep r) as [|h t]; [contradiction Hnn; reflexivity|].
      destruct t as [|h2 t].
      * simpl in IH. simpl. rewrite IH. reflexivity.
      * rewrite join_sep_cons by discriminate.
        rewrite join_sep_cons in IH by discriminate.
        rewrite <- IH. reflexivity.
Qed.

Lemma split_sep_app : forall c r,
  nosep c -> split_sep (c ++ sep :: r) = c :: split_sep r.
Proof.
  induction c as [|x c IH]; intros r H.
  - reflexivity.
  - apply nosep_cons in H. destruct H as [Hx Hc].
    apply N.eqb_neq in Hx.
    change ((x :: c) ++ sep :: r) with (x :: (c ++ sep :: r)).
    simpl split_sep. rewrite Hx. rewrite (IH r Hc). reflexivity.
Qed.

Lemma split_sep_nosep_id : forall c, nosep c -> split_sep c = [c].
Proof.
  induction c as [|x c IH]; intro H.
  - reflexivity.
  - apply nosep_cons in H. destruct H as [Hx Hc].
    apply N.eqb_neq in Hx. simpl. rewrite Hx. rewrite (IH Hc). reflexivity.
Qed.

(** Round trip 2: splitting a join of separator-free pieces gives the pieces. *)
Lemma split_join : forall cs,
  cs <> [] -> Forall nosep cs -> split_sep (join_sep cs) = cs.
Proof.
  induction cs as [|c cs IH]; intros Hne H.
  - contradiction Hne. reflexivity.
  - inversion H as [|c' cs' Hc Hcs]; subst.
    destruct cs as [|c2 cs].
    + simpl. apply split_sep_nosep_id. exact Hc.
    + rewrite join_sep_cons by discriminate.
      rewrite split_sep_app by exact Hc.
      rewrite IH; [reflexivity | discriminate | exact Hcs].
Qed.

Lemma count_sep_split : forall s, count_sep s = pred (length (split_sep s)).
Proof.
  intro s. rewrite <- (join_split s) at 1.
  apply count_sep_join. apply split_sep_nosep.
Qed.

(* ------------------------------------------------------------------ *)
(** * Components and normal forms *)

(** A component as it can occur in a normalised component list. *)
Definition good_comp (c : str) : Prop := c <> [] /\ c <> s_dot /\ nosep c.

Lemma good_comp_dotdot : good_comp s_dotdot.
Proof.
  unfold good_comp, s_dotdot, s_dot, nosep. repeat split.
  - discriminate.
  - discriminate.
  - simpl. intros [H|[H|[]]]; apply sep_neq_dot; symmetry; exact H.
Qed.

Lemma good_comp_nosep : forall c, good_comp c -> nosep c.
Proof. intros c [_ [_ H]]. exact H. Qed.

Lemma Forall_good_nosep : forall cs, Forall good_comp cs -> Forall nosep cs.
Proof. intros cs H. eapply Forall_impl; [|exact H]. exact good_comp_nosep. Qed.

Lemma good_comp_head : forall c, good_comp c -> exists x c', c = x :: c' /\ x <> sep.
Proof.
  intros [|x c'] [H1 [_ H3]].
  - contradiction H1. reflexivity.
  - exists x, c'. split; [reflexivity|].
    apply nosep_cons in H3. destruct H3 as [Hx _]. exact Hx.
Qed.

(** The normalisation stack (reversed component list): ".." may sit only on
    top of a stack consisting of ".." only, and only for relative paths. *)
Inductive stk_ok (rooted : bool) : list str -> Prop :=
| so_nil : stk_ok rooted []
| so_push : forall c stk,
    good_comp c -> c <> s_dotdot -> stk_ok rooted stk -> stk_ok rooted (c :: stk)
| so_dd : forall stk,
    rooted = false -> Forall (eq s_dotdot) stk -> stk_ok rooted (s_dotdot :: stk).

(** Normal form of a component list: every component is non-empty, is not ".",
    contains no separator; ".." occurs only as a leading run and only if the
    path is relative. *)
Definition normal (rooted : bool) (cs : list str) : Prop := stk_ok rooted (rev cs).

Lemma stk_ok_all_dd : forall stk,
  Forall (eq s_dotdot) stk -> stk_ok false stk.
Proof.
  intros stk H. induction H as [|c stk Hc Hstk IH].
  - constructor.
  - subst c. apply so_dd; [reflexivity | exact Hstk].
Qed.

Lemma stk_ok_app_r : forall rooted a b, stk_ok rooted (a ++ b) -> stk_ok rooted b.
Proof.
  intros rooted a b. induction a as [|c a IH]; simpl; intro H.
  - exact H.
  - inversion H as [|c' stk Hg Hnd Hok|stk Hr Hall]; subst.
    + apply IH. exact Hok.
    + apply Forall_app in Hall. destruct Hall as [_ Hb].
      apply stk_ok_all_dd. exact Hb.
Qed.

Lemma stk_ok_good : forall rooted stk, stk_ok rooted stk -> Forall good_comp stk.
Proof.
  intros rooted stk H. induction H as [|c stk Hg Hnd Hok IH|stk Hr Hall].
  - constructor.
  - constructor; assumption.
  - constructor; [apply good_comp_dotdot|].
    eapply Forall_impl; [|exact Hall].
    intros c E. subst c. apply good_comp_dotdot.
Qed.

Lemma stk_ok_rooted_no_dotdot : forall stk, stk_ok true stk -> ~ In s_dotdot stk.
Proof.
  intros stk H. induction H as [|c stk Hg Hnd Hok IH|stk Hr Hall].
  - intro F. exact F.
  - intros [E|F]; [apply Hnd; exact E | apply IH; exact F].
  - discriminate Hr.
Qed.

(** ".." in a relative normal stack: everything below it is ".." too. *)
Lemma stk_ok_dotdot_below : forall rooted a b,
  stk_ok rooted (a ++ s_dotdot :: b) -> rooted = false /\ Forall (eq s_dotdot) b.
Proof.
  intros rooted a b H. apply stk_ok_app_r in H.
  inversion H as [|c' stk Hg Hnd Hok|stk Hr Hall]; subst.
  - contradiction Hnd. reflexivity.
  - split; [reflexivity | assumption].
Qed.

Lemma normal_nil : forall rooted, normal rooted [].
Proof. intro rooted. unfold normal. simpl. constructor. Qed.

Lemma normal_app_l : forall rooted l1 l2, normal rooted (l1 ++ l2) -> normal rooted l1.
Proof.
  unfold normal. intros rooted l1 l2 H. rewrite rev_app_distr in H.
  eapply stk_ok_app_r. exact H.
Qed.

Lemma normal_good : forall rooted cs, normal rooted cs -> Forall good_comp cs.
Proof.
  unfold normal. intros rooted cs H. apply stk_ok_good in H.
  rewrite Forall_forall in *. intros c Hc. apply H. rewrite <- in_rev. exact Hc.
Qed.

Lemma normal_rooted_no_dotdot : forall cs, normal true cs -> ~ In s_dotdot cs.
Proof.
  unfold normal. intros cs H F. apply stk_ok_rooted_no_dotdot in H.
  apply H. rewrite <- in_rev. exact F.
Qed.

(** ".." only as a leading run, only when relative. *)
Lemma normal_dotdot_leading : forall rooted l1 l2,
  normal rooted (l1 ++ s_dotdot :: l2) -> rooted = false /\ Forall (eq s_dotdot) l1.
Proof.
  unfold normal. intros rooted l1 l2 H.
  rewrite rev_app_distr in H. simpl in H. rewrite <- app_assoc in H. simpl in H.
  apply stk_ok_dotdot_below in H. destruct H as [Hr Hall]. split; [exact Hr|].
  rewrite Forall_forall in *. intros c Hc. apply Hall. rewrite <- in_rev. exact Hc.
Qed.

(** One step of [norm], as an equation. *)
Lemma norm_cons : forall rooted c r stk,
  norm rooted (c :: r) stk =
    if str_eqb c [] || str_eqb c s_dot then norm rooted r stk
    else if str_eqb c s_dotdot then
      match stk with
      | t :: stk' =>
          if str_eqb t s_dotdot then norm rooted r (c :: stk)
          else norm rooted r stk'
      | [] => if rooted then norm rooted r [] else norm rooted r [c]
      end
    else norm rooted r (c :: stk).
Proof. reflexivity. Qed.

(** [norm] keeps the stack invariant, so its result is a normal form. *)
Lemma norm_ok : forall rooted cs stk,
  Forall nosep cs -> stk_ok rooted stk -> stk_ok rooted (rev (norm rooted cs stk)).
Proof.
  intros rooted cs. induction cs as [|c r IH]; intros stk Hns Hok.
  - simpl. rewrite rev_involutive. exact Hok.
  - inversion Hns as [|c' r' Hc Hr]; subst.
    rewrite norm_cons.
    destruct (str_eqb_spec c []) as [E1|E1]; simpl orb.
    { apply IH; assumption. }
    destruct (str_eqb_spec c s_dot) as [E2|E2].
    { apply IH; assumption. }
    destruct (str_eqb_spec c s_dotdot) as [E3|E3].
    + subst c. destruct stk as [|t stk'].
      * destruct rooted eqn:Er.
        -- apply IH; assumption.
        -- apply IH; [exact Hr|]. apply so_dd; [reflexivity | constructor].
      * destruct (str_eqb_spec t s_dotdot) as [E4|E4].
        -- subst t. apply IH; [exact Hr|].
           inversion Hok as [|c' stk Hg Hnd Hok'|stk Hroot Hall]; subst.
           ++ contradiction Hnd. reflexivity.
           ++ apply so_dd; [reflexivity|]. constructor; [reflexivity | exact Hall].
        -- apply IH; [exact Hr|].
           inversion Hok as [|c' stk Hg Hnd Hok'|stk Hroot Hall]; subst.
           ++ exact Hok'.
           ++ contradiction E4. reflexivity.
    + apply IH; [exact Hr|]. apply so_push; [|exact E3|exact Hok].
      split; [exact E1 | split; [exact E2 | exact Hc]].
Qed.

(** [norm] is the identity on normal forms. *)
Lemma norm_normal_id : forall rooted cs stk,
  stk_ok rooted (rev cs ++ stk) -> norm rooted cs stk = rev stk ++ cs.
Proof.
  intros rooted cs. induction cs as [|c r IH]; intros stk Hok.
  - simpl. rewrite app_nil_r. reflexivity.
  - simpl rev in Hok. rewrite <- app_assoc in Hok. simpl in Hok.
    pose proof (stk_ok_app_r _ _ _ Hok) as Hc.
    assert (Hgoal : rev (c :: stk) ++ r = rev stk ++ c :: r).
    { simpl. rewrite <- app_assoc. reflexivity. }
    rewrite norm_cons.
    inversion Hc as [|c' stk0 Hg Hnd Hok'|stk0 Hroot Hall]; subst.
    + destruct Hg as [G1 [G2 G3]].
      destruct (str_eqb_spec c []) as [E1|E1]; [contradiction|].
      destruct (str_eqb_spec c s_dot) as [E2|E2]; [contradiction|].
      destruct (str_eqb_spec c s_dotdot) as [E3|E3]; [contradiction|].
      simpl orb. cbv iota. rewrite (IH _ Hok). exact Hgoal.
    + change (str_eqb s_dotdot [] || str_eqb s_dotdot s_dot) with false.
      cbv iota. rewrite str_eqb_refl.
      destruct stk as [|t stk'].
      * rewrite (IH _ Hok). reflexivity.
      * inversion Hall as [|t' stk'' Ht Hall']; subst.
        rewrite str_eqb_refl. rewrite (IH _ Hok). exact Hgoal.
Qed.

Lemma norm_normal : forall rooted cs, normal rooted cs -> norm rooted cs [] = cs.
Proof.
  intros rooted cs H. rewrite norm_normal_id.
  - reflexivity.
  - rewrite app_nil_r. exact H.
Qed.

Lemma comps_normal : forall p, normal (is_abs p) (comps p).
Proof.
  intro p. unfold normal, comps. apply norm_ok.
  - apply split_sep_nosep.
  - constructor.
Qed.

Lemma comps_good : forall p, Forall good_comp (comps p).
Proof. intro p. eapply normal_good. apply comps_normal. Qed.

(* ------------------------------------------------------------------ *)
(** * [join_sep] and [render] on good components *)

Lemma join_sep_nonempty : forall cs,
  Forall good_comp cs -> cs <> [] -> join_sep cs <> [].
Proof.
  intros [|c cs] H Hne; [contradiction Hne; reflexivity|].
  inversion H as [|c' cs' Hc Hcs]; subst.
  destruct (good_comp_head c Hc) as [x [c' [E Hx]]]. subst c.
  destruct cs as [|c2 cs]; simpl; discriminate.
Qed.

Lemma is_abs_join : forall cs,
  Forall good_comp cs -> cs <> [] -> is_abs (join_sep cs) = false.
Proof.
  intros [|c cs] H Hne; [contradiction Hne; reflexivity|].
  inversion H as [|c' cs' Hc Hcs]; subst.
  destruct (good_comp_head c Hc) as [x [c' [E Hx]]]. subst c.
  apply N.eqb_neq in Hx.
  destruct cs as [|c2 cs]; simpl; exact Hx.
Qed.

Lemma render_rel_cons : forall c cs, render false (c :: cs) = join_sep (c :: cs).
Proof. reflexivity. Qed.

Lemma render_rel_nonnil : forall cs, cs <> [] -> render false cs = join_sep cs.
Proof. intros [|c cs] H; [contradiction H|]; reflexivity. Qed.

Lemma render_abs : forall cs, render true cs = sep :: join_sep cs.
Proof. reflexivity. Qed.

Lemma is_abs_render : forall rooted cs,
  Forall good_comp cs -> is_abs (render rooted cs) = rooted.
Proof.
  intros [|] cs H.
  - simpl. apply eqb_sep_sep.
  - destruct cs as [|c cs].
    + reflexivity.
    + rewrite render_rel_cons. apply is_abs_join; [exact H | discriminate].
Qed.

Lemma render_abs_root_iff : forall cs,
  Forall good_comp cs -> (render true cs = s_root <-> cs = []).
Proof.
  intros cs H. split.
  - intro E. rewrite render_abs in E. unfold s_root in E.
    injection E as E. destruct cs as [|c cs]; [reflexivity|].
    exfalso. eapply join_sep_nonempty; [exact H | discriminate | exact E].
  - intro E. subst. reflexivity.
Qed.

Lemma render_rel_not_root : forall cs,
  Forall good_comp cs -> render false cs <> s_root.
Proof.
  intros cs H E.
  pose proof (is_abs_render false cs H) as A. rewrite E in A.
  vm_compute in A. discriminate A.
Qed.

Lemma count_sep_render_abs : forall cs,
  Forall good_comp cs -> cs <> [] -> count_sep (render true cs) = length cs.
Proof.
  intros cs H Hne. rewrite render_abs. rewrite count_sep_sep_cons.
  rewrite count_sep_join by (apply Forall_good_nosep; exact H).
  destruct cs; [contradiction Hne|]; reflexivity.
Qed.

Lemma count_sep_render_rel : forall cs,
  Forall good_comp cs -> count_sep (render false cs) = pred (length cs).
Proof.
  intros [|c cs] H.
  - unfold render, s_dot. simpl.
    destruct (N.eqb_spec dot sep) as [E|E]; [|reflexivity].
    exfalso. apply sep_neq_dot. symmetry. exact E.
  - rewrite render_rel_cons. apply count_sep_join. apply Forall_good_nosep. exact H.
Qed.

Lemma comps_render : forall rooted cs,
  normal rooted cs -> comps (render rooted cs) = cs.
Proof.
  intros rooted cs Hn. pose proof (normal_good _ _ Hn) as Hg.
  unfold comps. rewrite (is_abs_render rooted cs Hg).
  destruct rooted.
  - rewrite render_abs. change (split_sep (sep :: join_sep cs)) with ([] :: split_sep (join_sep cs)).
    destruct cs as [|c cs].
    + reflexivity.
    + rewrite split_join; [|discriminate|apply Forall_good_nosep; exact Hg].
      change (norm true ([] :: c :: cs) []) with (norm true (c :: cs) []).
      apply norm_normal. exact Hn.
  - destruct cs as [|c cs].
    + vm_compute. reflexivity.
    + rewrite render_rel_cons.
      rewrite split_join; [|discriminate|apply Forall_good_nosep; exact Hg].
      apply norm_normal. exact Hn.
Qed.

Lemma clean_render : forall rooted cs,
  normal rooted cs -> clean (render rooted cs) = render rooted cs.
Proof.
  intros rooted cs Hn. unfold clean.
  rewrite (comps_render _ _ Hn).
  rewrite (is_abs_render _ _ (normal_good _ _ Hn)). reflexivity.
Qed.

Lemma cleaned_render : forall rooted cs, normal rooted cs -> cleaned (render rooted cs).
Proof. intros rooted cs Hn. unfold cleaned. apply clean_render. exact Hn. Qed.

(** [clean] is idempotent, i.e. its result is [cleaned]. *)
Lemma clean_idem : forall p, clean (clean p) = clean p.
Proof. intro p. unfold clean at 2 3. apply clean_render. apply comps_normal. Qed.

Lemma cleaned_clean : forall p, cleaned (clean p).
Proof. intro p. unfold cleaned. apply clean_idem. Qed.

(** The key fact about cleaned paths. *)
Lemma cleaned_eq : forall p, cleaned p -> p = render (is_abs p) (comps p).
Proof. intros p H. unfold cleaned, clean in H. symmetry. exact H. Qed.

Lemma cleanedb_iff : forall p, cleanedb p = true <-> cleaned p.
Proof. intro p. unfold cleanedb, cleaned. apply str_eqb_eq. Qed.

Lemma cleaned_nonempty : forall p, cleaned p -> p <> [].
Proof.
  intros p H E. subst p. unfold cleaned in H. vm_compute in H. discriminate H.
Qed.

Lemma cleaned_comps_nil_abs : forall p,
  cleaned p -> is_abs p = true -> (comps p = [] <-> p = s_root).
Proof.
  intros p Hc Ha. pose proof (cleaned_eq p Hc) as E. rewrite Ha in E. split.
  - intro H. rewrite H in E. exact E.
  - intro H. subst p. vm_compute. reflexivity.
Qed.

Lemma cleaned_comps_nil_rel : forall p,
  cleaned p -> is_abs p = false -> (comps p = [] <-> p = s_dot).
Proof.
  intros p Hc Ha. pose proof (cleaned_eq p Hc) as E. rewrite Ha in E. split.
  - intro H. rewrite H in E. exact E.
  - intro H. subst p. vm_compute. reflexivity.
Qed.

(** Separator counts of cleaned paths. *)
Lemma cleaned_count_sep_abs : forall p,
  cleaned p -> is_abs p = true -> p <> s_root ->
  count_sep p = length (comps p).
Proof.
  intros p Hc Ha Hr. pose proof (cleaned_eq p Hc) as E. rewrite Ha in E.
  rewrite E at 1. apply count_sep_render_abs.
  - apply comps_good.
  - intro H. apply Hr. apply (cleaned_comps_nil_abs p Hc Ha). exact H.
Qed.

Lemma cleaned_count_sep_rel : forall p,
  cleaned p -> is_abs p = false ->
  count_sep p = pred (length (comps p)).
Proof.
  intros p Hc Ha. pose proof (cleaned_eq p Hc) as E. rewrite Ha in E.
  rewrite E at 1. apply count_sep_render_rel. apply comps_good.
Qed.

(* ------------------------------------------------------------------ *)
(** * [inside] / [insideb] *)

Lemma list_prefixb_iff : forall a b,
  list_prefixb a b = true <-> exists rest, b = a ++ rest.
Proof.
  induction a as [|x a IH]; intros b; simpl.
  - split; [intros _; exists b; reflexivity | intros _; reflexivity].
  - destruct b as [|y b].
    + split; [intro H; discriminate H | intros [r Hr]; discriminate Hr].
    + rewrite andb_true_iff, str_eqb_eq, IH. split.
      * intros [E [r Hr]]. subst. exists r. reflexivity.
      * intros [r Hr]. injection Hr as E Hr. subst. split; [reflexivity|].
        exists r. reflexivity.
Qed.

Lemma insideb_iff : forall pfx p, insideb pfx p = true <-> inside pfx p.
Proof.
  intros pfx p. unfold insideb, inside.
  rewrite andb_true_iff, eqb_true_iff, list_prefixb_iff. reflexivity.
Qed.

Lemma inside_refl : forall p, inside p p.
Proof.
  intro p. split; [reflexivity|]. exists []. rewrite app_nil_r. reflexivity.
Qed.

Lemma inside_trans : forall a b c, inside a b -> inside b c -> inside a c.
Proof.
  intros a b c [H1 [r1 E1]] [H2 [r2 E2]]. split; [congruence|].
  exists (r1 ++ r2). rewrite E2, E1, app_assoc. reflexivity.
Qed.
