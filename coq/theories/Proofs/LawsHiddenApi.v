(** The methods of the base filesystem of the documented layering,
    [hid_api tag pa h = spy tag (hiddenfs [h] (prefixfs pa osfs))]
    (Spec/ViewHidden.v), against those of [the_api tag pa]:

    - on a name that is not at or below the location every method is the
      method of [the_api tag pa] (Open/OpenFile/Create: with the [hiddenFile]
      mark on the handle) - the transparency of Proofs/HiddenFacts.v lifted
      to the api;
    - on a name at or below the location every method is rejected, the world
      unchanged up to the spy's bookkeeping (Proofs/SealedFacts.v);
    - Rename of a proper ancestor of the location is rejected. *)
From stdpp Require Import gmap.
From BFS Require Import Spec.CopySpecs Spec.ViewOsfs Spec.ViewHidden.
From BFS Require Import Proofs.LawsOsfsBase Proofs.HiddenFacts Proofs.SealedFacts.
From BFS Require Import Proofs.LawsHiddenBase.
Local Open Scope nat_scope.

(** the [hiddenFile] mark *)
Definition mark (p : str) (hs : list str) (x : fhandle) : fhandle :=
  mkFh (fh x) (fh_name x) (fh_spy x) (Some (p, hs)).

Definition map_fst {A B C} (f : A -> B) (x : A * C) : B * C := (f (fst x), snd x).

(* ------------------------------------------------------------------ *)
(** * HiddenFS over any filesystem, on a name the check classifies as shown *)

Section Shown.
  Variable hs : list str.
  Variable b : fsapi.
  Let H := layered (hidden_layer hs) b.

  Ltac sh_unfold :=
    unfold H, layered, layered_with;
    cbn [a_lstat a_stat a_readlink a_open a_openfile a_create a_mkdir a_mkdirall a_remove
         a_removeall a_rename a_chmod a_chown a_lchown a_chtimes a_symlink
         hidden_layer l_call l_info l_handle l_link l_multi hiddenfs_call c_meth c_a c_b c_aux].

  Lemma bind_ret_id {A} (m : M A) : meq (x <- m ;; ret x) m.
  Proof. intros w. unfold bind, ret. destruct (m w) as [[a | e |] w']; reflexivity. Qed.

  Lemma sh_lstat p : is_hidden p hs = Some false -> meq (a_lstat H p) (a_lstat b p).
  Proof. intros Hs. sh_unfold. rewrite Hs. cbn [with_outcome dispatch_info c_meth c_a]. apply bind_ret_id. Qed.
  Lemma sh_stat p : is_hidden p hs = Some false -> meq (a_stat H p) (a_stat b p).
  Proof. intros Hs. sh_unfold. rewrite Hs. cbn [with_outcome dispatch_info c_meth c_a]. apply bind_ret_id. Qed.
  Lemma sh_readlink p : is_hidden p hs = Some false -> meq (a_readlink H p) (a_readlink b p).
  Proof. intros Hs. sh_unfold. rewrite Hs. cbn [with_outcome c_a]. apply bind_ret_id. Qed.

  Lemma sh_open p : is_hidden p hs = Some false ->
    meq (a_open H p) (x <- a_openfile b p 0 0 ;; ret (mark p hs x)).
  Proof. intros Hs w. sh_unfold. rewrite Hs. reflexivity. Qed.
  Lemma sh_openfile p fl perm : is_hidden p hs = Some false ->
    meq (a_openfile H p fl perm) (x <- a_openfile b p fl perm ;; ret (mark p hs x)).
  Proof.
    intros Hs w. sh_unfold. rewrite Hs.
    cbn [with_outcome dispatch_handle c_meth c_a aux0 aux1 c_aux nth]. rewrite !N2Z.id. reflexivity.
  Qed.
  Lemma sh_create p : is_hidden p hs = Some false ->
    meq (a_create H p) (x <- a_openfile b p 578 438 ;; ret (mark p hs x)).
  Proof. intros Hs w. sh_unfold. rewrite Hs. reflexivity. Qed.

  Lemma sh_mkdir p perm : is_hidden p hs = Some false -> meq (a_mkdir H p perm) (a_mkdir b p perm).
  Proof.
    intros Hs w. sh_unfold. rewrite Hs. cbn [with_outcome dispatch_unit c_meth c_a aux0 c_aux nth].
    rewrite N2Z.id. reflexivity.
  Qed.
  Lemma sh_mkdirall p perm : is_hidden p hs = Some false -> meq (a_mkdirall H p perm) (a_mkdirall b p perm).
  Proof.
    intros Hs w. sh_unfold. rewrite Hs. cbn [with_outcome dispatch_unit c_meth c_a aux0 c_aux nth].
    rewrite N2Z.id. reflexivity.
  Qed.
  Lemma sh_remove p : is_hidden p hs = Some false -> meq (a_remove H p) (a_remove b p).
  Proof. intros Hs w. sh_unfold. rewrite Hs. reflexivity. Qed.
  Lemma sh_chmod p m : is_hidden p hs = Some false -> meq (a_chmod H p m) (a_chmod b p m).
  Proof.
    intros Hs w. sh_unfold. rewrite Hs. cbn [with_outcome dispatch_unit c_meth c_a aux0 c_aux nth].
    rewrite N2Z.id. reflexivity.
  Qed.
  Lemma sh_chown p u g : is_hidden p hs = Some false -> meq (a_chown H p u g) (a_chown b p u g).
  Proof. intros Hs w. sh_unfold. rewrite Hs. reflexivity. Qed.
  Lemma sh_lchown p u g : is_hidden p hs = Some false -> meq (a_lchown H p u g) (a_lchown b p u g).
  Proof. intros Hs w. sh_unfold. rewrite Hs. reflexivity. Qed.
  Lemma sh_chtimes p t : is_hidden p hs = Some false -> meq (a_chtimes H p t) (a_chtimes b p t).
  Proof.
    intros Hs w. sh_unfold. rewrite Hs. cbn [with_outcome dispatch_unit c_meth c_a aux0 c_aux nth].
    rewrite z_to_mtime_to_z. reflexivity.
  Qed.
  Lemma sh_rename o n :
    is_hidden o hs = Some false -> is_hidden n hs = Some false -> is_parent_of_hidden o hs = Some false ->
    meq (a_rename H o n) (a_rename b o n).
  Proof. intros Ho Hn Hp w. sh_unfold. rewrite Ho, Hn, Hp. reflexivity. Qed.
  Lemma anc_rename o n :
    is_hidden o hs = Some false -> is_hidden n hs = Some false -> is_parent_of_hidden o hs = Some true ->
    meq (a_rename H o n) (hfail EHiddenPerm).
  Proof. intros Ho Hn Hp w. sh_unfold. rewrite Ho, Hn, Hp. reflexivity. Qed.
  Lemma sh_symlink t p :
    is_hidden (to_abs_symlink t p) hs = Some false -> is_hidden p hs = Some false ->
    meq (a_symlink H t p) (a_symlink b t p).
  Proof. intros Ht Hs w. sh_unfold. rewrite Ht, Hs. reflexivity. Qed.
  Lemma sh_removeall p : is_hidden p hs = Some false ->
    meq (a_removeall H p) (hidden_removeall hs b (layered_with (hidden_layer hs) b null_api) p).
  Proof. intros Hs w. sh_unfold. rewrite Hs. reflexivity. Qed.
End Shown.

(* ------------------------------------------------------------------ *)
(** * The spy *)

(** mapping the result of a spied call *)
Lemma spied_map {A B} (t : fstag) (m : pmeth) (p p2 : str) (op : M A) (k : A -> B) (w : world) :
  spied t m p p2 (x <- op ;; ret (k x)) w = map_fst (mres_map k) (spied t m p p2 op w).
Proof.
  unfold spied, map_fst, bind, ret.
  destruct (w_crash w) as [c|]; [destruct (N.leb c (w_ticks w)); [reflexivity |] |];
    (destruct (faulted _ t m p); [reflexivity |]);
    match goal with |- context [op ?w1] => destruct (op w1) as [[a | e |] w2] end; reflexivity.
Qed.

(** a rejected call: the spy's bookkeeping aside nothing happens *)
Lemma spied_fail_quiet {A} (t : fstag) (m : pmeth) (p p2 : str) (e : errno) (w : world) :
  quiet w -> @spied A t m p p2 (fail e) w = (MErr e, after t m p p2 (Some e) w (w_st w)).
Proof.
  intros Hq. rewrite (spied_quiet_run _ t m p p2 _ w (MErr e) (tickw w) Hq); [| reflexivity | discriminate].
  unfold after. cbn [err_of]. rewrite set_st_tickw_same. reflexivity.
Qed.

(* ------------------------------------------------------------------ *)
(** * PrefixFS: Open is OpenFile(O_RDONLY), Create is OpenFile(O_RDWR|O_CREATE|O_TRUNC, 0666) *)

Lemma prefixfs_open_openfile (pfx p : str) :
  meq (a_openfile (prefixfs pfx osfs) p 0 0) (a_open (prefixfs pfx osfs) p).
Proof.
  intros w. unfold prefixfs, layered, layered_with.
  cbn [a_open a_openfile prefix_layer l_call l_handle prefixfs_call c_meth c_a c_aux].
  destruct (prefix_path (clean pfx) p); reflexivity.
Qed.

Lemma prefixfs_create_openfile (pfx p : str) :
  meq (a_openfile (prefixfs pfx osfs) p 578 438) (a_create (prefixfs pfx osfs) p).
Proof.
  intros w. unfold prefixfs, layered, layered_with.
  cbn [a_create a_openfile prefix_layer l_call l_handle prefixfs_call c_meth c_a c_aux].
  destruct (prefix_path (clean pfx) p); reflexivity.
Qed.

(* ------------------------------------------------------------------ *)
(** * The base filesystem of the documented layering *)

Section HidApi.
  Variable tag : fstag.
  Variables pa h : str.
  Hypothesis Ha : prefix_ok pa.
  Hypothesis Hh : hidden_ok h.

  Notation AH := (hid_api tag pa h).
  Notation TA := (the_api tag pa).
  Notation B := (prefixfs pa osfs).
  Notation mk := (fun p => mark p [h]).

  Lemma hid_api_eq : AH = spy tag (layered (hidden_layer [h]) B).
  Proof. unfold hid_api. rewrite (hiddenfs_single h B (proj1 (proj1 Hh))). reflexivity. Qed.

  Ltac spy_unfold :=
    rewrite hid_api_eq; unfold the_api;
    cbn [spy a_lstat a_stat a_readlink a_open a_openfile a_create a_mkdir a_mkdirall a_remove
         a_removeall a_rename a_chmod a_chown a_lchown a_chtimes a_symlink].

  Section ShownName.
    Variable p : str.
    Hypothesis Hac : abs_cleaned p.
    Hypothesis Hs : shownb h p = true.

    Let Hish : is_hidden p [h] = Some false.
    Proof. rewrite (is_hidden_ac h Hh p Hac), Hs. reflexivity. Qed.

    Lemma AH_lstat w : a_lstat AH p w = a_lstat TA p w.
    Proof. spy_unfold. apply spied_ext. apply sh_lstat. exact Hish. Qed.
    Lemma AH_stat w : a_stat AH p w = a_stat TA p w.
    Proof. spy_unfold. apply spied_ext. apply sh_stat. exact Hish. Qed.
    Lemma AH_readlink w : a_readlink AH p w = a_readlink TA p w.
    Proof. spy_unfold. apply spied_ext. apply sh_readlink. exact Hish. Qed.
    Lemma AH_mkdir perm w : a_mkdir AH p perm w = a_mkdir TA p perm w.
    Proof. spy_unfold. apply spied_ext. apply sh_mkdir. exact Hish. Qed.
    Lemma AH_mkdirall perm w : a_mkdirall AH p perm w = a_mkdirall TA p perm w.
    Proof. spy_unfold. apply spied_ext. apply sh_mkdirall. exact Hish. Qed.
    Lemma AH_remove w : a_remove AH p w = a_remove TA p w.
    Proof. spy_unfold. apply spied_ext. apply sh_remove. exact Hish. Qed.
    Lemma AH_chmod m w : a_chmod AH p m w = a_chmod TA p m w.
    Proof. spy_unfold. apply spied_ext. apply sh_chmod. exact Hish. Qed.
    Lemma AH_chown u g w : a_chown AH p u g w = a_chown TA p u g w.
    Proof. spy_unfold. apply spied_ext. apply sh_chown. exact Hish. Qed.
    Lemma AH_lchown u g w : a_lchown AH p u g w = a_lchown TA p u g w.
    Proof. spy_unfold. apply spied_ext. apply sh_lchown. exact Hish. Qed.
    Lemma AH_chtimes t w : a_chtimes AH p t w = a_chtimes TA p t w.
    Proof. spy_unfold. apply spied_ext. apply sh_chtimes. exact Hish. Qed.

    (** the handle-returning methods: the handle of [the_api], marked *)
    Lemma mark_spy_handle x : spy_handle tag p (mark p [h] x) = mark p [h] (spy_handle tag p x).
    Proof. reflexivity. Qed.

    Lemma AH_handle_gen (pm : pmeth) (op1 op2 : M fhandle) :
      meq op1 (x <- op2 ;; ret (mark p [h] x)) ->
      forall w, spied tag pm p [] (x <- op1 ;; ret (spy_handle tag p x)) w =
                map_fst (mres_map (mark p [h])) (spied tag pm p [] (x <- op2 ;; ret (spy_handle tag p x)) w).
    Proof.
      intros Hop w.
      rewrite (spied_map tag pm p [] op2 (spy_handle tag p) w).
      assert (E : meq (x <- op1 ;; ret (spy_handle tag p x))
                      (x <- op2 ;; ret (mark p [h] (spy_handle tag p x)))).
      { intros w1. unfold bind. rewrite (Hop w1). unfold bind, ret.
        destruct (op2 w1) as [[a | e |] w2]; reflexivity. }
      rewrite (spied_ext tag pm p [] _ _ E w).
      rewrite (spied_map tag pm p [] op2 (fun x => mark p [h] (spy_handle tag p x)) w).
      unfold map_fst. cbn [fst snd]. destruct (spied tag pm p [] op2 w) as [[a | e |] w2]; reflexivity.
    Qed.

    Lemma AH_open w : a_open AH p w = map_fst (mres_map (mark p [h])) (a_open TA p w).
    Proof.
      spy_unfold. apply AH_handle_gen. intros w1. rewrite (sh_open [h] B p Hish w1).
      unfold bind. rewrite (prefixfs_open_openfile pa p w1). reflexivity.
    Qed.
    Lemma AH_openfile fl perm w :
      a_openfile AH p fl perm w = map_fst (mres_map (mark p [h])) (a_openfile TA p fl perm w).
    Proof. spy_unfold. apply AH_handle_gen. apply sh_openfile. exact Hish. Qed.
    Lemma AH_create w : a_create AH p w = map_fst (mres_map (mark p [h])) (a_create TA p w).
    Proof.
      spy_unfold. apply AH_handle_gen. intros w1. rewrite (sh_create [h] B p Hish w1).
      unfold bind. rewrite (prefixfs_create_openfile pa p w1). reflexivity.
    Qed.

    Lemma AH_symlink t w :
      is_hidden (to_abs_symlink t p) [h] = Some false -> a_symlink AH t p w = a_symlink TA t p w.
    Proof. intros Ht. spy_unfold. apply spied_ext. apply sh_symlink; [exact Ht | exact Hish]. Qed.

    Lemma AH_rename_shown pn w :
      abs_cleaned pn -> shownb h pn = true -> ~ anc_h h p -> a_rename AH p pn w = a_rename TA p pn w.
    Proof.
      intros Hacn Hsn Hna. spy_unfold. apply spied_ext. apply sh_rename.
      - exact Hish.
      - rewrite (is_hidden_ac h Hh pn Hacn), Hsn. reflexivity.
      - exact (is_parent_not_anc h Hh p Hac Hna).
    Qed.

    Lemma AH_rename_anc pn w :
      abs_cleaned pn -> shownb h pn = true -> anc_h h p ->
      a_rename AH p pn w = spied tag (PM MRename) p pn (hfail EHiddenPerm) w.
    Proof.
      intros Hacn Hsn Han. spy_unfold. apply spied_ext. apply anc_rename.
      - exact Hish.
      - rewrite (is_hidden_ac h Hh pn Hacn), Hsn. reflexivity.
      - exact (is_parent_anc h Hh p Hac Han).
    Qed.

    Lemma AH_removeall w :
      a_removeall AH p w =
      spied tag (PM MRemoveAll) p []
        (hidden_removeall [h] B (layered_with (hidden_layer [h]) B null_api) p) w.
    Proof. spy_unfold. apply spied_ext. apply sh_removeall. exact Hish. Qed.
  End ShownName.

  (** ** names at or below the location *)
  Section HiddenName.
    Variable p : str.
    Hypothesis Hac : abs_cleaned p.
    Hypothesis Hs : shownb h p = false.

    Let Hhid : hid [h] p.
    Proof. unfold hid. rewrite (is_hidden_ac h Hh p Hac), Hs. reflexivity. Qed.

    Lemma AH_lstat_hid w : a_lstat AH p w = spied tag (PM MLstat) p [] (hfail EHiddenNotExist) w.
    Proof. spy_unfold. apply spied_ext. apply hid_lstat. exact Hhid. Qed.
    Lemma AH_stat_hid w : a_stat AH p w = spied tag (PM MStat) p [] (hfail EHiddenNotExist) w.
    Proof. spy_unfold. apply spied_ext. apply hid_stat. exact Hhid. Qed.
    Lemma AH_readlink_hid w : a_readlink AH p w = spied tag (PM MReadlink) p [] (hfail EHiddenNotExist) w.
    Proof. spy_unfold. apply spied_ext. apply hid_readlink. exact Hhid. Qed.
    Lemma AH_mkdir_hid perm w : a_mkdir AH p perm w = spied tag (PM MMkdir) p [] (hfail EHiddenPerm) w.
    Proof. spy_unfold. apply spied_ext. apply hid_mkdir. exact Hhid. Qed.
    Lemma AH_mkdirall_hid perm w : a_mkdirall AH p perm w = spied tag (PM MMkdirAll) p [] (hfail EHiddenPerm) w.
    Proof. spy_unfold. apply spied_ext. apply hid_mkdirall. exact Hhid. Qed.
    Lemma AH_remove_hid w : a_remove AH p w = spied tag (PM MRemove) p [] (hfail EHiddenNotExist) w.
    Proof. spy_unfold. apply spied_ext. apply hid_remove. exact Hhid. Qed.
    Lemma AH_removeall_hid w : a_removeall AH p w = spied tag (PM MRemoveAll) p [] (hfail EHiddenNotExist) w.
    Proof. spy_unfold. apply spied_ext. apply hid_removeall. exact Hhid. Qed.
    Lemma AH_chmod_hid m w : a_chmod AH p m w = spied tag (PM MChmod) p [] (hfail EHiddenNotExist) w.
    Proof. spy_unfold. apply spied_ext. apply hid_chmod. exact Hhid. Qed.
    Lemma AH_chown_hid u g w : a_chown AH p u g w = spied tag (PM MChown) p [] (hfail EHiddenNotExist) w.
    Proof. spy_unfold. apply spied_ext. apply hid_chown. exact Hhid. Qed.
    Lemma AH_lchown_hid u g w : a_lchown AH p u g w = spied tag (PM MLchown) p [] (hfail EHiddenNotExist) w.
    Proof. spy_unfold. apply spied_ext. apply hid_lchown. exact Hhid. Qed.
    Lemma AH_chtimes_hid t w : a_chtimes AH p t w = spied tag (PM MChtimes) p [] (hfail EHiddenNotExist) w.
    Proof. spy_unfold. apply spied_ext. apply hid_chtimes. exact Hhid. Qed.

    Lemma bind_fail {A B} (e : errno) (k : A -> M B) : meq (x <- fail e ;; k x) (fail e).
    Proof. intros w. reflexivity. Qed.

    Lemma AH_open_hid w : a_open AH p w = spied tag (PM MOpen) p [] (hfail EHiddenNotExist) w.
    Proof.
      spy_unfold. apply spied_ext. intros w1. unfold bind. rewrite (hid_open [h] B p Hhid w1). reflexivity.
    Qed.
    Lemma AH_openfile_hid fl perm w : exists e,
      a_openfile AH p fl perm w = spied tag (PM MOpenFile) p [] (fail e) w.
    Proof.
      eexists. spy_unfold. apply spied_ext. intros w1. unfold bind.
      rewrite (hid_openfile [h] B p fl perm Hhid w1). reflexivity.
    Qed.
    Lemma AH_create_hid w : a_create AH p w = spied tag (PM MCreate) p [] (hfail EHiddenPerm) w.
    Proof.
      spy_unfold. apply spied_ext. intros w1. unfold bind. rewrite (hid_create [h] B p Hhid w1). reflexivity.
    Qed.

    Lemma AH_rename_old_hid pn w : exists e, a_rename AH p pn w = spied tag (PM MRename) p pn (fail e) w.
    Proof. eexists. spy_unfold. apply spied_ext. apply hid_rename. left. exact Hhid. Qed.
    Lemma AH_rename_new_hid po w : exists e, a_rename AH po p w = spied tag (PM MRename) po p (fail e) w.
    Proof. eexists. spy_unfold. apply spied_ext. apply hid_rename. right. exact Hhid. Qed.
    Lemma AH_symlink_hid t w : exists e, a_symlink AH t p w = spied tag (PM MSymlink) p t (fail e) w.
    Proof. eexists. spy_unfold. apply spied_ext. apply hid_symlink. left. exact Hhid. Qed.
  End HiddenName.

  (** Symlink at a shown location whose lexical target is not accepted *)
  Lemma AH_symlink_rej t p w :
    is_hidden (to_abs_symlink t p) [h] <> Some false ->
    exists e, a_symlink AH t p w = spied tag (PM MSymlink) p t (fail e) w.
  Proof.
    intros Hn. spy_unfold.
    unfold layered, layered_with. cbn [a_symlink hidden_layer l_call hiddenfs_call c_meth c_a c_b].
    destruct (is_hidden (to_abs_symlink t p) [h]) as [[|]|]; try (eexists; reflexivity).
    contradiction Hn. reflexivity.
  Qed.
End HidApi.
