(** Rollback restores the base view ([rollback_stmt] of Spec/CopySpecs.v),
    proved from the abstract filesystem laws (Spec/Laws.v) and the transaction
    invariant (Spec/Inv.v) alone.

    Structure: a generic loop rule for [collect_errs]; a generic "removal
    pass" over one filesystem (used for pass 1 on the base and for passes
    5-7 on the backup); the classification fold; the three restoring passes
    on the base under one progress invariant [Prog]; the assembly. *)
From stdpp Require Import gmap.
From BFS Require Import Spec.CopySpecs.
From BFS Require Import Path.PathSpec.
From BFS Require Import Proofs.PathFacts Proofs.C19Facts Proofs.RollbackFacts Proofs.BackupCopy.

(* ------------------------------------------------------------------ *)
(** * The loop rule for [collect_errs] *)

(** every element succeeds under an invariant indexed by the processed prefix *)
Lemma collect_errs_inv_aux {A} (f : A -> M unit) (P : list A -> world -> Prop) (l : list A) :
  (forall done x todo w, l = done ++ x :: todo -> P done w ->
     exists w', f x w = (MOk tt, w') /\ P (done ++ [x]) w') ->
  forall todo done w, l = done ++ todo -> P done w ->
    exists w', collect_errs f todo w = (MOk [], w') /\ P l w'.
Proof.
  intros Hstep. induction todo as [|x todo IH]; intros done w Hl HP.
  - exists w. split; [reflexivity |]. rewrite Hl, app_nil_r. exact HP.
  - destruct (Hstep done x todo w Hl HP) as (w1 & Hrun & HP1).
    destruct (IH (done ++ [x]) w1) as (w2 & Hrun2 & HP2).
    + rewrite <- app_assoc. exact Hl.
    + exact HP1.
    + exists w2. split; [| exact HP2]. simpl collect_errs.
      rewrite (bind_ok _ _ w w1 (Ok tt) (try_ok _ w w1 tt Hrun)).
      rewrite (bind_ok _ _ w1 w2 [] Hrun2). reflexivity.
Qed.

Lemma collect_errs_inv {A} (f : A -> M unit) (P : list A -> world -> Prop) (l : list A) (w : world) :
  (forall done x todo w, l = done ++ x :: todo -> P done w ->
     exists w', f x w = (MOk tt, w') /\ P (done ++ [x]) w') ->
  P [] w ->
  exists w', collect_errs f l w = (MOk [], w') /\ P l w'.
Proof.
  intros Hstep HP. exact (collect_errs_inv_aux f P l Hstep l [] w eq_refl HP).
Qed.

(* ------------------------------------------------------------------ *)
(** * Lists: positions in a duplicate-free list *)

Lemma nodup_split_unique {A} (x : A) (l1 : list A) : forall (l2 l1' l2' : list A),
  List.NoDup (l1 ++ x :: l2) -> l1 ++ x :: l2 = l1' ++ x :: l2' -> l1 = l1'.
Proof.
  induction l1 as [|a l1 IH]; intros l2 l1' l2' Hnd E.
  - destruct l1' as [|b l1']; [reflexivity |].
    simpl in E. injection E as Eb El. subst b.
    exfalso. simpl in Hnd. apply List.NoDup_cons_iff in Hnd. destruct Hnd as [Hnin _].
    apply Hnin. rewrite El. apply in_or_app. right. left. reflexivity.
  - destruct l1' as [|b l1'].
    + simpl in E. injection E as Ea El. subst a.
      exfalso. simpl in Hnd. apply List.NoDup_cons_iff in Hnd. destruct Hnd as [Hnin _].
      apply Hnin. apply in_or_app. right. left. reflexivity.
    + simpl in E. injection E as Ea El. subst b. f_equal.
      simpl in Hnd. apply List.NoDup_cons_iff in Hnd. destruct Hnd as [_ Hnd].
      exact (IH l2 l1' l2' Hnd El).
Qed.

Lemma before_in_done (q p : str) (done todo : list str) :
  List.NoDup (done ++ p :: todo) -> before q p (done ++ p :: todo) -> In q done.
Proof.
  intros Hnd (s1 & s2 & s3 & E).
  assert (E' : done ++ p :: todo = (s1 ++ q :: s2) ++ p :: s3).
  { rewrite E. rewrite <- app_assoc. reflexivity. }
  rewrite (nodup_split_unique p done todo (s1 ++ q :: s2) s3 Hnd E').
  apply in_or_app. right. left. reflexivity.
Qed.

Lemma nodup_mid_notin {A} (x : A) (l1 l2 : list A) :
  List.NoDup (l1 ++ x :: l2) -> ~ In x l1.
Proof.
  intros Hnd Hin. apply List.NoDup_remove_2 in Hnd. apply Hnd. apply in_or_app. left. exact Hin.
Qed.

(* ------------------------------------------------------------------ *)
(** * Stores *)

Lemma sonode_eqv_none_r (a : option node) : sonode_eqv a None -> a = None.
Proof. destruct a; simpl; [contradiction | reflexivity]. Qed.

Lemma sonode_eqv_none_l (b : option node) : sonode_eqv None b -> b = None.
Proof. destruct b; simpl; [contradiction | reflexivity]. Qed.

Lemma sonode_eqv_some_r (a : option node) (n : node) :
  sonode_eqv a (Some n) -> exists n', a = Some n' /\ snode_eqv n' n.
Proof. destruct a as [n'|]; simpl; [| contradiction]. intros H. exists n'. split; [reflexivity | exact H]. Qed.

Lemma sonode_eqv_some_l (b : option node) (n : node) :
  sonode_eqv (Some n) b -> exists n', b = Some n' /\ snode_eqv n n'.
Proof. destruct b as [n'|]; simpl; [| contradiction]. intros H. exists n'. split; [reflexivity | exact H]. Qed.

Lemma snode_eqv_kind (a b : node) : snode_eqv a b -> node_kind a = node_kind b.
Proof. destruct a, b; simpl; try contradiction; reflexivity. Qed.

(** a store that only lost entries or kept them up to equivalence has no new links *)
Lemma snolinkpar_mono (s s' : store) (p : str) :
  (forall a, s' !! a = None \/ sonode_eqv (s' !! a) (s !! a)) ->
  snolinkpar s p -> snolinkpar s' p.
Proof.
  intros Hrel [Hac Hf]. split; [exact Hac |].
  eapply List.Forall_impl; [| exact Hf].
  intros a Hnl m t Hl. destruct (Hrel a) as [Hn | He].
  - rewrite Hn in Hl. discriminate Hl.
  - rewrite Hl in He. apply sonode_eqv_some_l in He. destruct He as (n' & Hs & Hn').
    destruct n' as [m' | m' c' | m' t']; simpl in Hn'; try contradiction.
    destruct Hn' as [_ <-]. exact (Hnl m' t Hs).
Qed.

Lemma sdirect_eqv_except_self (s s' : store) (p : str) :
  sdirect s p -> store_eqv_except [p] s' s -> sdirect s' p.
Proof.
  intros [Hac Hf] Heqv. split; [exact Hac |].
  rewrite List.Forall_forall in *. intros a Ha.
  apply (sonode_eqv_dir s s' a); [| exact (Hf a Ha)].
  apply Heqv. intros [E | []]. subst a.
  exact (ancestors_not_self p (proj1 Hac) Ha).
Qed.

Lemma ancestors_not_root (p q : str) : In p (ancestors q) -> q <> s_root.
Proof. intros Hin E. subst q. vm_compute in Hin. exact Hin. Qed.

(** in a well-formed store, nothing lies below a non-directory *)
Lemma swf_below_dir (s : store) (p q : str) (n : node) :
  swf s -> s !! q = Some n -> In p (ancestors q) -> sdir s p.
Proof.
  intros Hwf Hq Hin. destruct (swf_lookup_sdirect s q n Hwf Hq) as [_ Hf].
  rewrite List.Forall_forall in Hf. exact (Hf p Hin).
Qed.

(* ------------------------------------------------------------------ *)
(** * A removal pass over one filesystem *)

Section Removal.
  Variable a : fsapi.
  Variables V V' : world -> store.
  Variable tn : str -> str.
  Variable acc : str -> str -> Prop.
  Variables rh wh : fhandle -> str -> nat -> Prop.
  Variables hid anc : str -> Prop.
  Hypothesis HLa : api_laws a V V' tn acc rh wh hid anc.

  (** [s0]: this filesystem's view when the removals began; [s']: the other
      view; [D]: the paths removed so far *)
  Definition RInv (s0 s' : store) (D : list str) (w : world) : Prop :=
    quiet w /\ swf (V w) /\ V' w = s' /\ store_eqv_except D (V w) s0 /\
    (forall p, In p D -> V w !! p = None).

  Lemma RInv_ext (s0 s' : store) (D D' : list str) (w : world) :
    (forall x, In x D <-> In x D') -> RInv s0 s' D w -> RInv s0 s' D' w.
  Proof.
    intros Hext (Hq & Hwf & HV' & Heqv & Hnone).
    split; [exact Hq | split; [exact Hwf | split; [exact HV' | split]]].
    - intros p Hp. apply Heqv. intros Hin. apply Hp. apply Hext. exact Hin.
    - intros p Hp. apply Hnone. apply Hext. exact Hp.
  Qed.

  Lemma RInv_rel (s0 s' : store) (D : list str) (w : world) :
    RInv s0 s' D w -> forall q, V w !! q = None \/ sonode_eqv (V w !! q) (s0 !! q).
  Proof.
    intros (_ & _ & _ & Heqv & Hnone) q.
    destruct (in_dec str_eq_dec q D) as [Hin | Hnin].
    - left. exact (Hnone q Hin).
    - right. exact (Heqv q Hnin).
  Qed.

  Lemma RInv_snolinkpar (s0 s' : store) (D : list str) (w : world) (p : str) :
    RInv s0 s' D w -> snolinkpar s0 p -> snolinkpar (V w) p.
  Proof. intros HR. apply snolinkpar_mono. exact (RInv_rel s0 s' D w HR). Qed.

  (** absent at the beginning: absent now *)
  Lemma RInv_none (s0 s' : store) (D : list str) (w : world) (p : str) :
    RInv s0 s' D w -> s0 !! p = None -> V w !! p = None.
  Proof.
    intros HR Hp. destruct (RInv_rel s0 s' D w HR p) as [H | H]; [exact H |].
    rewrite Hp in H. exact (sonode_eqv_none_r _ H).
  Qed.

  (** present now: present at the beginning, and not among the removed *)
  Lemma RInv_some (s0 s' : store) (D : list str) (w : world) (q : str) (n : node) :
    RInv s0 s' D w -> V w !! q = Some n -> ~ In q D /\ exists n0, s0 !! q = Some n0.
  Proof.
    intros (_ & _ & _ & Heqv & Hnone) Hq.
    assert (Hnin : ~ In q D).
    { intros Hin. rewrite (Hnone q Hin) in Hq. discriminate Hq. }
    split; [exact Hnin |].
    pose proof (Heqv q Hnin) as He. rewrite Hq in He.
    apply sonode_eqv_some_l in He. destruct He as (n0 & Hs & _). exists n0. exact Hs.
  Qed.

  (** what one successful removal does to the invariant *)
  Lemma RInv_removed (s0 s' : store) (D : list str) (w w' : world) (p : str) :
    RInv s0 s' D w -> same_rest V' w w' -> swf (V w') -> V w' !! p = None ->
    store_eqv_except [p] (V w') (V w) -> RInv s0 s' (D ++ [p]) w'.
  Proof.
    intros (Hq & Hwf & HV' & Heqv & Hnone) Hsr Hwf' Hp' Heqv'.
    split; [eapply quiet_same_rest; eassumption |].
    split; [exact Hwf' |].
    split; [rewrite (proj1 Hsr); exact HV' |].
    split.
    - intros q Hq'. eapply sonode_eqv_trans.
      + apply Heqv'. intros [E | []]. apply Hq'. apply in_or_app. right. left. exact E.
      + apply Heqv. intros Hin. apply Hq'. apply in_or_app. left. exact Hin.
    - intros q Hq'. destruct (str_eq_dec q p) as [E | E]; [subst q; exact Hp' |].
      apply in_app_or in Hq'. destruct Hq' as [Hin | [E' | []]]; [| congruence].
      assert (He : sonode_eqv (V w' !! q) (V w !! q)).
      { apply Heqv'. intros [E' | []]. congruence. }
      rewrite (Hnone q Hin) in He. exact (sonode_eqv_none_r _ He).
  Qed.

  Lemma RInv_read (s0 s' : store) (D : list str) (w w' : world) :
    RInv s0 s' D w -> same_rest V' w w' -> V w' = V w -> RInv s0 s' D w'.
  Proof.
    intros (Hq & Hwf & HV' & Heqv & Hnone) Hsr HV.
    split; [eapply quiet_same_rest; eassumption |].
    rewrite HV. split; [exact Hwf |].
    split; [rewrite (proj1 Hsr); exact HV' |].
    split; assumption.
  Qed.

  Lemma RInv_skip (s0 s' : store) (D : list str) (w : world) (p : str) :
    RInv s0 s' D w -> V w !! p = None -> RInv s0 s' (D ++ [p]) w.
  Proof.
    intros (Hq & Hwf & HV' & Heqv & Hnone) Hp.
    split; [exact Hq | split; [exact Hwf | split; [exact HV' | split]]].
    - intros q Hq'. apply Heqv. intros Hin. apply Hq'. apply in_or_app. left. exact Hin.
    - intros q Hq'. apply in_app_or in Hq'. destruct Hq' as [Hin | [E | []]].
      + exact (Hnone q Hin).
      + subst q. exact Hp.
  Qed.

  Lemma remove_step (s0 s' : store) (D : list str) (w : world) (p : str) (n : node) :
    RInv s0 s' D w -> p <> s_root -> snolinkpar s0 p -> V w !! p = Some n ->
    (forall q n0, s0 !! q = Some n0 -> In p (ancestors q) -> In q D) -> ~ anc p ->
    exists w', a_remove a p w = (MOk tt, w') /\ RInv s0 s' (D ++ [p]) w'.
  Proof.
    intros HR Hne Hnlp Hp Hbelow Hnanc.
    pose proof (RInv_snolinkpar s0 s' D w p HR Hnlp) as Hnlp'.
    assert (Hnc : no_children (V w) p).
    { intros q nq Hq _ Hin.
      destruct (RInv_some s0 s' D w q nq HR Hq) as [Hnin (n0 & Hs0)].
      apply Hnin. exact (Hbelow q n0 Hs0 Hin). }
    pose proof HR as (Hq & Hwf & _).
    destruct (law_remove_leaf _ _ _ _ _ _ _ _ _ HLa w p n Hq Hwf Hnlp' Hp Hnc Hne Hnanc)
      as (s1 & (w' & Hrun & HV & Hsr) & Hnone & Heqv & Hwf1).
    subst s1. exists w'. split; [exact Hrun |].
    eapply RInv_removed; eassumption.
  Qed.

  Definition try_rm (p : str) : M unit :=
    found <- lexists a p ;; if found then a_remove a p else ret tt.

  Lemma try_rm_step (s0 s' : store) (D : list str) (w : world) (p : str) :
    RInv s0 s' D w -> p <> s_root -> snolinkpar s0 p ->
    (forall q n0, s0 !! q = Some n0 -> In p (ancestors q) -> In q D) -> ~ anc p ->
    exists w', try_rm p w = (MOk tt, w') /\ RInv s0 s' (D ++ [p]) w'.
  Proof.
    intros HR Hne Hnlp Hbelow Hnanc.
    pose proof (RInv_snolinkpar s0 s' D w p HR Hnlp) as Hnlp'.
    pose proof HR as (Hq & Hwf & _).
    destruct (lexists_spec a V V' tn acc rh wh hid anc HLa w p Hq Hwf Hnlp') as (w1 & Hrun1 & HV1 & Hsr1).
    pose proof (RInv_read s0 s' D w w1 HR Hsr1 HV1) as HR1.
    unfold try_rm. rewrite (bind_ok _ _ w w1 _ Hrun1).
    destruct (V w !! p) as [n|] eqn:Hp.
    - assert (Hp1 : V w1 !! p = Some n) by (rewrite HV1; exact Hp).
      exact (remove_step s0 s' D w1 p n HR1 Hne Hnlp Hp1 Hbelow Hnanc).
    - exists w1. split; [reflexivity |].
      apply RInv_skip; [exact HR1 |]. rewrite HV1. exact Hp.
  Qed.

  (** the whole pass: [l] lists every path below one of its members before that member *)
  Lemma remove_pass (s0 s' : store) (D0 l : list str) (w : world) :
    RInv s0 s' D0 w -> List.NoDup l ->
    (forall p, In p l -> p <> s_root /\ snolinkpar s0 p /\ s0 !! p <> None /\ ~ In p D0) ->
    (forall done p todo q n0, l = done ++ p :: todo -> s0 !! q = Some n0 ->
       In p (ancestors q) -> In q (D0 ++ done)) ->
    (forall p, In p l -> ~ anc p) ->
    exists w', collect_errs (fun p => a_remove a p) l w = (MOk [], w') /\ RInv s0 s' (D0 ++ l) w'.
  Proof.
    intros HR Hnd Hl Hord Hna.
    apply (collect_errs_inv (fun p => a_remove a p) (fun done w' => RInv s0 s' (D0 ++ done) w') l w).
    - intros done p todo w1 El HR1.
      assert (Hin : In p l) by (rewrite El; apply in_or_app; right; left; reflexivity).
      destruct (Hl p Hin) as (Hne & Hnlp & Hex & HninD).
      assert (Hnin : ~ In p (D0 ++ done)).
      { intros Hi. apply in_app_or in Hi. destruct Hi as [Hi | Hi]; [exact (HninD Hi) |].
        rewrite El in Hnd. exact (nodup_mid_notin p done todo Hnd Hi). }
      assert (Hp : exists n, V w1 !! p = Some n).
      { destruct HR1 as (_ & _ & _ & Heqv & _). pose proof (Heqv p Hnin) as He.
        destruct (s0 !! p) as [n0|] eqn:Hs0; [| contradiction Hex; reflexivity].
        apply sonode_eqv_some_r in He. destruct He as (n' & Hn' & _). exists n'. exact Hn'. }
      destruct Hp as (n & Hp).
      destruct (remove_step s0 s' (D0 ++ done) w1 p n HR1 Hne Hnlp Hp) as (w2 & Hrun & HR2).
      + intros q n0 Hq Hanc. exact (Hord done p todo q n0 El Hq Hanc).
      + exact (Hna p Hin).
      + exists w2. split; [exact Hrun |]. rewrite app_assoc. exact HR2.
    - rewrite app_nil_r. exact HR.
  Qed.

  Lemma try_rm_pass (s0 s' : store) (D0 l : list str) (w : world) :
    RInv s0 s' D0 w ->
    (forall p, In p l -> p <> s_root /\ snolinkpar s0 p) ->
    (forall done p todo q n0, l = done ++ p :: todo -> s0 !! q = Some n0 ->
       In p (ancestors q) -> In q (D0 ++ done)) ->
    (forall p, In p l -> ~ anc p) ->
    exists w', collect_errs try_rm l w = (MOk [], w') /\ RInv s0 s' (D0 ++ l) w'.
  Proof.
    intros HR Hl Hord Hna.
    apply (collect_errs_inv try_rm (fun done w' => RInv s0 s' (D0 ++ done) w') l w).
    - intros done p todo w1 El HR1.
      assert (Hin : In p l) by (rewrite El; apply in_or_app; right; left; reflexivity).
      destruct (Hl p Hin) as (Hne & Hnlp).
      destruct (try_rm_step s0 s' (D0 ++ done) w1 p HR1 Hne Hnlp) as (w2 & Hrun & HR2).
      + intros q n0 Hq Hanc. exact (Hord done p todo q n0 El Hq Hanc).
      + exact (Hna p Hin).
      + exists w2. split; [exact Hrun |]. rewrite app_assoc. exact HR2.
    - rewrite app_nil_r. exact HR.
  Qed.
  (** [removeIfSymlink] (fix D23) where no link is: one Lstat, nothing changes *)
  Lemma remove_if_symlink_nolink (w : world) (p : str) :
    quiet w -> swf (V w) -> snolinkpar (V w) p ->
    (forall n, V w !! p = Some n -> node_kind n <> KLink) ->
    exists w', remove_if_symlink a p w = (MOk tt, w') /\ V w' = V w /\ same_rest V' w w'.
  Proof.
    intros Hq Hwf Hnlp Hnl. unfold remove_if_symlink.
    destruct (V w !! p) as [n|] eqn:Hp.
    - destruct (law_lstat_some _ _ _ _ _ _ _ _ _ HLa w p n Hq Hwf Hnlp Hp)
        as (fi & (w' & Hrun & HV & Hsr) & Him & _).
      exists w'. split; [| split; [exact HV | exact Hsr]].
      rewrite (bind_ok _ _ w w' (Ok fi) (try_ok _ w w' fi Hrun)). cbv beta iota.
      pose proof (Hnl n eq_refl) as Hk. rewrite <- (proj1 Him) in Hk.
      destruct (fi_kind fi); [reflexivity | reflexivity | contradiction Hk; reflexivity].
    - destruct (law_lstat_none _ _ _ _ _ _ _ _ _ HLa w p Hq Hwf Hnlp Hp)
        as (e & w' & Hrun & Hnf & HV & Hsr).
      exists w'. split; [| split; [exact HV | exact Hsr]].
      rewrite (bind_ok _ _ w w' (Err e) (try_err _ w w' e Hrun)). cbv beta iota.
      unfold not_found in Hnf. rewrite Hnf. reflexivity.
  Qed.
End Removal.

(* ------------------------------------------------------------------ *)
(** * Sorting: what the three orders give *)

Lemma most_order (l done todo : list str) (p q : str) :
  List.NoDup l -> Forall cleaned l -> sort_most l = done ++ p :: todo ->
  In p l -> In q l -> ancestor p q -> In q done.
Proof.
  intros Hnd Hcl E Hp Hq Hanc.
  destruct (sort_most_ok l Hnd) as [Hperm Hs].
  assert (Hnd' : List.NoDup (sort_most l)).
  { eapply Permutation_NoDup; [apply Permutation_sym; exact Hperm | exact Hnd]. }
  assert (Hb : before q p (sort_most l)).
  { apply (most_sorted_ancestors l (sort_most l) Hnd Hcl Hperm Hs p q); [| | exact Hanc];
      (eapply Permutation_in; [apply Permutation_sym; exact Hperm | assumption]). }
  rewrite E in Hnd', Hb. exact (before_in_done q p done todo Hnd' Hb).
Qed.

Lemma least_order (l done todo : list str) (p a : str) :
  List.NoDup l -> Forall cleaned l -> sort_least l = done ++ p :: todo ->
  In p l -> In a l -> ancestor a p -> In a done.
Proof.
  intros Hnd Hcl E Hp Ha Hanc.
  destruct (sort_least_ok l Hnd) as [Hperm Hs].
  assert (Hnd' : List.NoDup (sort_least l)).
  { eapply Permutation_NoDup; [apply Permutation_sym; exact Hperm | exact Hnd]. }
  assert (Hb : before a p (sort_least l)).
  { apply (least_sorted_ancestors l (sort_least l) Hnd Hcl Hperm Hs a p); [| | exact Hanc];
      (eapply Permutation_in; [apply Permutation_sym; exact Hperm | assumption]). }
  rewrite E in Hnd', Hb. exact (before_in_done a p done todo Hnd' Hb).
Qed.

Lemma isort_in (lt : str -> str -> bool) (l : list str) (x : str) : In x (isort lt l) <-> In x l.
Proof.
  split; intros H.
  - eapply Permutation_in; [apply isort_perm | exact H].
  - eapply Permutation_in; [apply Permutation_sym; apply isort_perm | exact H].
Qed.

Lemma isort_nodup (lt : str -> str -> bool) (l : list str) : List.NoDup l -> List.NoDup (isort lt l).
Proof.
  intros H. eapply Permutation_NoDup; [apply Permutation_sym; apply isort_perm | exact H].
Qed.

Lemma filter_cons_app {A} (f : A -> bool) (x : A) (l : list A) :
  List.filter f (x :: l) = (if f x then [x] else []) ++ List.filter f l.
Proof. simpl. destruct (f x); reflexivity. Qed.

(* ------------------------------------------------------------------ *)
(** * Rollback *)

Section Rollback.
  Variables base backup : fsapi.
  Variables Vb Vk : world -> store.
  Variables tnb tnk : str -> str.
  Variables accb acck : str -> str -> Prop.
  Variables rhb rhk whb whk : fhandle -> str -> nat -> Prop.
  Variables hid anc : str -> Prop.
  Variable B0 : store.
  Hypothesis HLb : api_laws base Vb Vk tnb accb rhb whb hid anc.
  Hypothesis HLk : api_laws backup Vk Vb tnk acck rhk whk nohid nohid.
  Hypothesis Hlinks : links_ok tnb tnk accb acck B0.
  Hypothesis Hsmall : all_small B0.
  Hypothesis HwfB : swf B0.
  Hypothesis Hloc : loc_ok hid anc B0.

  Variable w0 : world.
  Hypothesis Hinv : Inv Vb Vk B0 w0.

  Local Notation infos := (w_infos w0).

  (* ---------------------------------------------------------------- *)
  (** ** What the invariant says about tracked paths *)

  Lemma tracked_abs (p : str) : infos !! p <> None -> abs_cleaned p.
  Proof. intros H. exact (inv_abs Vb Vk B0 w0 Hinv p H). Qed.

  Lemma tracked_cleaned (p : str) : infos !! p <> None -> cleaned p.
  Proof. intros H. exact (proj1 (tracked_abs p H)). Qed.

  Lemma none_not_root (p : str) : infos !! p = Some None -> p <> s_root.
  Proof.
    intros H E. subst p. pose proof (inv_none Vb Vk B0 w0 Hinv _ H) as Hn.
    destruct HwfB as [[m Hm] _]. congruence.
  Qed.

  Lemma some_orig (p : str) (fi : finfo) :
    infos !! p = Some (Some fi) -> exists n0, B0 !! p = Some n0 /\ info_matches fi n0.
  Proof.
    intros H. destruct (inv_some Vb Vk B0 w0 Hinv p fi H) as (n0 & Hn0 & Him & _).
    exists n0. split; assumption.
  Qed.

  (** an original is not at or below a hidden location *)
  Lemma orig_not_hid (p : str) (n0 : node) : B0 !! p = Some n0 -> ~ hid p.
  Proof. intros Hn0 Hh. rewrite (proj1 Hloc p Hh) in Hn0. discriminate Hn0. Qed.

  (** what did not exist is not a proper ancestor of a hidden location *)
  Lemma none_not_anc (p : str) : B0 !! p = None -> ~ anc p.
  Proof. intros Hn Ha. destruct (proj2 Hloc p Ha) as [m Hm]. rewrite Hm in Hn. discriminate Hn. Qed.

  (** a tracked original that is not the root has its copy in the backup *)
  Lemma backup_node (p : str) (fi : finfo) :
    infos !! p = Some (Some fi) -> p <> s_root ->
    exists n0 nk, B0 !! p = Some n0 /\ info_matches fi n0 /\ Vk w0 !! p = Some nk /\ copy_of n0 nk.
  Proof.
    intros H Hne. destruct (inv_some Vb Vk B0 w0 Hinv p fi H) as (n0 & Hn0 & Him & [E | (nk & Hnk & Hc)]).
    - contradiction.
    - exists n0, nk. split; [exact Hn0 | split; [exact Him | split; [exact Hnk | exact Hc]]].
  Qed.

  Lemma copy_of_kind (n0 nk : node) : copy_of n0 nk -> node_kind nk = node_kind n0.
  Proof.
    destruct n0 as [m0 | m0 c0 | m0 t0]; simpl.
    - intros (mk & -> & _). reflexivity.
    - apply snode_eqv_kind.
    - apply snode_eqv_kind.
  Qed.

  (** the proper ancestors of a tracked original are tracked original directories *)
  Lemma anc_dir (p : str) (fi : finfo) (a : str) :
    infos !! p = Some (Some fi) -> In a (ancestors p) ->
    exists fa ma, infos !! a = Some (Some fa) /\ fi_kind fa = KDir /\ B0 !! a = Some (Dir ma).
  Proof.
    intros Hp Ha. destruct (some_orig p fi Hp) as (n0 & Hn0 & _).
    destruct (swf_below_dir B0 a p n0 HwfB Hn0 Ha) as [ma Hma].
    pose proof (inv_closed Vb Vk B0 w0 Hinv p fi Hp) as Hf.
    rewrite List.Forall_forall in Hf. pose proof (Hf a Ha) as Hta. unfold tracked in Hta.
    destruct (infos !! a) as [[fa|]|] eqn:Hia.
    - destruct (inv_some Vb Vk B0 w0 Hinv a fa Hia) as (na & Hna & Him & _).
      rewrite Hma in Hna. injection Hna as <-.
      exists fa, ma. split; [reflexivity | split; [exact (proj1 Him) | exact Hma]].
    - pose proof (inv_none Vb Vk B0 w0 Hinv a Hia) as Hn. congruence.
    - contradiction Hta. reflexivity.
  Qed.

  (** whatever exists below a tracked "did not exist" path is itself tracked "did not exist" *)
  Lemma desc_of_none (p q : str) (n : node) :
    infos !! p = Some None -> In p (ancestors q) -> Vb w0 !! q = Some n -> infos !! q = Some None.
  Proof.
    intros Hp Hanc Hq.
    pose proof (inv_none Vb Vk B0 w0 Hinv p Hp) as HpB.
    assert (HqB : B0 !! q = None).
    { destruct (B0 !! q) as [nq|] eqn:E; [| reflexivity].
      destruct (swf_below_dir B0 p q nq HwfB E Hanc) as [m Hm]. congruence. }
    destruct (infos !! q) as [[fq|]|] eqn:Hiq.
    - destruct (inv_some Vb Vk B0 w0 Hinv q fq Hiq) as (nq & Hnq & _). congruence.
    - reflexivity.
    - pose proof (inv_untracked Vb Vk B0 w0 Hinv q Hiq) as He.
      rewrite Hq, HqB in He. contradiction He.
  Qed.

  (* ---------------------------------------------------------------- *)
  (** ** The keys and the classification *)

  Definition rkeys : list str := sort_strings (map fst (map_to_list infos)).

  Lemma rkeys_in (p : str) : In p rkeys <-> infos !! p <> None.
  Proof.
    unfold rkeys, sort_strings. rewrite isort_in. rewrite in_map_iff. split.
    - intros ([q v] & E & Hin). simpl in E. subst q.
      apply elem_of_list_In in Hin. apply elem_of_map_to_list in Hin. congruence.
    - intros H. destruct (infos !! p) as [v|] eqn:E; [| contradiction H; reflexivity].
      exists (p, v). split; [reflexivity |].
      apply elem_of_list_In. apply elem_of_map_to_list. exact E.
  Qed.

  Lemma rkeys_nodup : List.NoDup rkeys.
  Proof.
    unfold rkeys, sort_strings. apply isort_nodup. apply NoDup_ListNoDup.
    exact (NoDup_fst_map_to_list infos).
  Qed.

  Definition is_rm (s : store) (p : str) : bool :=
    match infos !! p with
    | Some None => match s !! p with Some _ => true | None => false end
    | _ => false
    end.

  Definition kind_eqb (a b : kind) : bool :=
    match a, b with KDir, KDir | KFile, KFile | KLink, KLink => true | _, _ => false end.

  Definition is_k (k : kind) (p : str) : bool :=
    match infos !! p with
    | Some (Some fi) => negb (str_eqb p s_root) && kind_eqb (fi_kind fi) k
    | _ => false
    end.

  Definition classify_f (acc : list errno * list str * list str * list str * list str) (p : str)
    : M (list errno * list str * list str * list str * list str) :=
    let '(errs, rm, ds, fs, ls) := acc in
    match infos !! p with
    | Some None =>
        r <- try_ (lexists base p) ;;
        match r with
        | Err e => ret (errs ++ [e], rm, ds, fs, ls)
        | Ok true => ret (errs, rm ++ [p], ds, fs, ls)
        | Ok false => ret acc
        end
    | Some (Some fi) =>
        if str_eqb p s_root then ret acc
        else match fi_kind fi with
             | KDir => ret (errs, rm, ds ++ [p], fs, ls)
             | KFile => ret (errs, rm, ds, fs ++ [p], ls)
             | KLink => ret (errs, rm, ds, fs, ls ++ [p])
             end
    | None => ret acc
    end.

  Definition opt1 (b : bool) (p : str) : list str := if b then [p] else [].

  Lemma classify_step (p : str) (w : world) (errs : list errno) (rm ds fs ls : list str) :
    quiet w -> Vb w = Vb w0 ->
    exists w', classify_f (errs, rm, ds, fs, ls) p w =
                 (MOk (errs, rm ++ opt1 (is_rm (Vb w0) p) p, ds ++ opt1 (is_k KDir p) p,
                       fs ++ opt1 (is_k KFile p) p, ls ++ opt1 (is_k KLink p) p), w') /\
               quiet w' /\ Vb w' = Vb w0 /\ Vk w' = Vk w.
  Proof.
    intros Hq HV. unfold classify_f, is_rm, is_k.
    destruct (infos !! p) as [[fi|]|] eqn:Hip.
    - destruct (str_eqb p s_root) eqn:Er; simpl.
      + exists w. rewrite !app_nil_r.
        split; [reflexivity | split; [exact Hq | split; [exact HV | reflexivity]]].
      + destruct (fi_kind fi); simpl; rewrite !app_nil_r; exists w;
          (split; [reflexivity | split; [exact Hq | split; [exact HV | reflexivity]]]).
    - assert (Hwf : swf (Vb w)) by (rewrite HV; exact (inv_wf_b Vb Vk B0 w0 Hinv)).
      assert (Hnlp : snolinkpar (Vb w) p).
      { rewrite HV. apply (inv_nolink Vb Vk B0 w0 Hinv). congruence. }
      destruct (lexists_spec base Vb Vk tnb accb rhb whb hid anc HLb w p Hq Hwf Hnlp) as (w1 & Hrun & HV1 & Hsr).
      rewrite (bind_ok _ _ w w1 _ (try_ok _ w w1 _ Hrun)). rewrite HV.
      exists w1.
      split.
      + destruct (Vb w0 !! p); simpl; rewrite !app_nil_r; reflexivity.
      + split; [eapply quiet_same_rest; eassumption |].
        split; [rewrite HV1; exact HV | exact (proj1 Hsr)].
    - simpl. exists w. rewrite !app_nil_r.
      split; [reflexivity | split; [exact Hq | split; [exact HV | reflexivity]]].
  Qed.

  Lemma classify_spec : forall (l : list str) (w : world) (errs : list errno) (rm ds fs ls : list str),
    quiet w -> Vb w = Vb w0 ->
    exists w', mfold classify_f l (errs, rm, ds, fs, ls) w =
                 (MOk (errs, rm ++ List.filter (is_rm (Vb w0)) l, ds ++ List.filter (is_k KDir) l,
                       fs ++ List.filter (is_k KFile) l, ls ++ List.filter (is_k KLink) l), w') /\
               quiet w' /\ Vb w' = Vb w0 /\ Vk w' = Vk w.
  Proof.
    induction l as [|p l IH]; intros w errs rm ds fs ls Hq HV.
    - exists w. simpl. rewrite !app_nil_r.
      split; [reflexivity | split; [exact Hq | split; [exact HV | reflexivity]]].
    - destruct (classify_step p w errs rm ds fs ls Hq HV) as (w1 & Hrun1 & Hq1 & HV1 & HVk1).
      destruct (IH w1 errs (rm ++ opt1 (is_rm (Vb w0) p) p) (ds ++ opt1 (is_k KDir p) p)
                   (fs ++ opt1 (is_k KFile p) p) (ls ++ opt1 (is_k KLink p) p) Hq1 HV1)
        as (w2 & Hrun2 & Hq2 & HV2 & HVk2).
      exists w2. split; [| split; [exact Hq2 | split; [exact HV2 | congruence]]].
      cbn [mfold]. rewrite (bind_ok _ _ w w1 _ Hrun1). rewrite Hrun2.
      rewrite !filter_cons_app. unfold opt1. rewrite <- !app_assoc. reflexivity.
  Qed.

  Definition l_rm : list str := List.filter (is_rm (Vb w0)) rkeys.
  Definition l_ds : list str := List.filter (is_k KDir) rkeys.
  Definition l_fs : list str := List.filter (is_k KFile) rkeys.
  Definition l_ls : list str := List.filter (is_k KLink) rkeys.

  Lemma in_rm (p : str) : In p l_rm <-> infos !! p = Some None /\ Vb w0 !! p <> None.
  Proof.
    unfold l_rm. rewrite filter_In, rkeys_in. unfold is_rm. split.
    - intros [_ H]. destruct (infos !! p) as [[fi|]|]; try discriminate H.
      destruct (Vb w0 !! p); [| discriminate H]. split; [reflexivity | discriminate].
    - intros [Hi Hv]. rewrite Hi. split; [discriminate |].
      destruct (Vb w0 !! p); [reflexivity | contradiction Hv; reflexivity].
  Qed.

  Lemma kind_eqb_eq (a b : kind) : kind_eqb a b = true <-> a = b.
  Proof. destruct a, b; simpl; split; intros H; try reflexivity; discriminate H. Qed.

  Lemma in_k (k : kind) (p : str) :
    In p (List.filter (is_k k) rkeys) <->
    exists fi, infos !! p = Some (Some fi) /\ p <> s_root /\ fi_kind fi = k.
  Proof.
    rewrite filter_In, rkeys_in. unfold is_k. split.
    - intros [_ H]. destruct (infos !! p) as [[fi|]|]; try discriminate H.
      apply andb_true_iff in H. destruct H as [H1 H2].
      apply negb_true_iff in H1. apply str_eqb_neq in H1. apply kind_eqb_eq in H2.
      exists fi. split; [reflexivity | split; assumption].
    - intros (fi & Hi & Hne & Hk). rewrite Hi. split; [discriminate |].
      apply andb_true_iff. split.
      + apply negb_true_iff. apply str_eqb_neq. exact Hne.
      + apply kind_eqb_eq. exact Hk.
  Qed.

  Lemma some_classified (p : str) (fi : finfo) :
    infos !! p = Some (Some fi) -> p <> s_root -> In p l_ds \/ In p l_fs \/ In p l_ls.
  Proof.
    intros Hi Hne. unfold l_ds, l_fs, l_ls. rewrite !in_k.
    destruct (fi_kind fi) eqn:Hk; [left | right; left | right; right];
      exists fi; (split; [exact Hi | split; [exact Hne | exact Hk]]).
  Qed.

  Lemma l_k_nodup (k : kind) : List.NoDup (List.filter (is_k k) rkeys).
  Proof. apply List.NoDup_filter. exact rkeys_nodup. Qed.

  Lemma l_k_cleaned (k : kind) : Forall cleaned (List.filter (is_k k) rkeys).
  Proof.
    apply List.Forall_forall. intros p Hp. apply in_k in Hp. destruct Hp as (fi & Hi & _).
    apply tracked_cleaned. congruence.
  Qed.

  Lemma l_rm_nodup : List.NoDup l_rm.
  Proof. apply List.NoDup_filter. exact rkeys_nodup. Qed.

  Lemma l_rm_cleaned : Forall cleaned l_rm.
  Proof.
    apply List.Forall_forall. intros p Hp. apply in_rm in Hp. destruct Hp as (Hi & _).
    apply tracked_cleaned. congruence.
  Qed.

  (* ---------------------------------------------------------------- *)
  (** ** The restoring passes on the base *)

  Lemma meta_restored (fi : finfo) (m' : meta) (n0 : node) :
    meta_of_info fi m' -> info_matches fi n0 -> perm12 n0 ->
    meta_eq_nomt m' (node_meta n0).
  Proof.
    intros (Hp & Hu & Hg) (_ & Hp0 & Hu0 & Hg0 & _) H12. unfold perm12 in H12.
    split; [| split].
    - rewrite Hp, Hp0. exact H12.
    - apply N2Z.inj. rewrite Hu, Hu0. reflexivity.
    - apply N2Z.inj. rewrite Hg, Hg0. reflexivity.
  Qed.

  Lemma info_ids_nonneg (fi : finfo) (n0 : node) :
    info_matches fi n0 -> (0 <= fi_uid fi)%Z /\ (0 <= fi_gid fi)%Z.
  Proof.
    intros (_ & _ & Hu & Hg & _). rewrite Hu, Hg. split; apply N2Z.is_nonneg.
  Qed.

  Section Restore.
    (** [s1]: the base view after the first pass *)
    Variable s1 : store.
    Hypothesis Hs1_none : forall p, infos !! p = Some None -> s1 !! p = None.
    Hypothesis Hs1_keep : forall p, infos !! p <> Some None -> sonode_eqv (s1 !! p) (Vb w0 !! p).

    (** [R]: the paths restored so far *)
    Definition Prog (R : list str) (w : world) : Prop :=
      quiet w /\ swf (Vb w) /\ Vk w = Vk w0 /\
      (forall p, In p R -> sonode_eqv (Vb w !! p) (B0 !! p)) /\
      (forall p, ~ In p R -> sonode_eqv (Vb w !! p) (s1 !! p)).

    Lemma Prog_ext (R R' : list str) (w : world) :
      (forall x, In x R <-> In x R') -> Prog R w -> Prog R' w.
    Proof.
      intros Hext (Hq & Hwf & HVk & Hres & Hkeep).
      split; [exact Hq | split; [exact Hwf | split; [exact HVk | split]]].
      - intros p Hp. apply Hres. apply Hext. exact Hp.
      - intros p Hp. apply Hkeep. intros Hin. apply Hp. apply Hext. exact Hin.
    Qed.

    Lemma Prog_read (R : list str) (w w' : world) :
      Prog R w -> quiet w' -> Vb w' = Vb w -> Vk w' = Vk w -> Prog R w'.
    Proof.
      intros (Hq & Hwf & HVk & Hres & Hkeep) Hq' HV HVk'.
      split; [exact Hq' |]. rewrite HV. split; [exact Hwf |].
      split; [rewrite HVk'; exact HVk |]. split; assumption.
    Qed.

    Lemma Prog_step (R : list str) (w w' : world) (p : str) :
      Prog R w -> quiet w' -> swf (Vb w') -> Vk w' = Vk w0 ->
      store_eqv_except [p] (Vb w') (Vb w) -> sonode_eqv (Vb w' !! p) (B0 !! p) ->
      Prog (R ++ [p]) w'.
    Proof.
      intros (Hq & Hwf & HVk & Hres & Hkeep) Hq' Hwf' HVk' Heqv Hp.
      split; [exact Hq' | split; [exact Hwf' | split; [exact HVk' | split]]].
      - intros q Hin. destruct (str_eq_dec q p) as [E | E]; [subst q; exact Hp |].
        apply in_app_or in Hin. destruct Hin as [Hin | [E' | []]]; [| congruence].
        eapply sonode_eqv_trans; [| exact (Hres q Hin)].
        apply Heqv. intros [E' | []]. congruence.
      - intros q Hnin. eapply sonode_eqv_trans.
        + apply Heqv. intros [E' | []]. apply Hnin. apply in_or_app. right. left. exact E'.
        + apply Hkeep. intros Hin. apply Hnin. apply in_or_app. left. exact Hin.
    Qed.

    (** a not yet restored tracked original still has its type, if it exists *)
    Lemma prog_kind (R : list str) (w : world) (p : str) (fi : finfo) (n : node) :
      Prog R w -> ~ In p R -> infos !! p = Some (Some fi) -> Vb w !! p = Some n ->
      node_kind n = fi_kind fi.
    Proof.
      intros (_ & _ & _ & _ & Hkeep) Hnin Hi Hp.
      pose proof (Hkeep p Hnin) as He. rewrite Hp in He.
      apply sonode_eqv_some_l in He. destruct He as (n1 & Hn1 & He1).
      assert (Hnn : infos !! p <> Some None) by congruence.
      pose proof (Hs1_keep p Hnn) as He2. rewrite Hn1 in He2.
      apply sonode_eqv_some_l in He2. destruct He2 as (n2 & Hn2 & He2).
      rewrite (snode_eqv_kind _ _ He1), (snode_eqv_kind _ _ He2).
      exact (inv_kind Vb Vk B0 w0 Hinv p fi n2 Hi Hn2).
    Qed.

    (** once its ancestors are restored, a tracked original can be addressed directly *)
    Lemma prog_sdirect (R : list str) (w : world) (p : str) (fi : finfo) :
      Prog R w -> infos !! p = Some (Some fi) ->
      (forall a, In a (ancestors p) -> a <> s_root -> In a R) ->
      sdirect (Vb w) p.
    Proof.
      intros (_ & Hwf & _ & Hres & _) Hi Hanc.
      split; [apply tracked_abs; congruence |].
      apply List.Forall_forall. intros a Ha.
      destruct (str_eq_dec a s_root) as [E | E]; [subst a; exact (proj1 Hwf) |].
      destruct (anc_dir p fi a Hi Ha) as (fa & ma & _ & _ & Hma).
      apply (sonode_eqv_dir B0 (Vb w) a); [| exists ma; exact Hma].
      apply Hres. exact (Hanc a Ha E).
    Qed.

    (** *** directories *)
    Lemma dir_step (R : list str) (w : world) (p : str) (fi : finfo) :
      Prog R w -> infos !! p = Some (Some fi) -> p <> s_root -> fi_kind fi = KDir -> ~ In p R ->
      (forall a, In a (ancestors p) -> a <> s_root -> In a R) ->
      exists w', (remove_if_symlink base p ;;; copy_dir base p fi) w = (MOk tt, w') /\ Prog (R ++ [p]) w'.
    Proof.
      intros HP0 Hi Hne Hk Hnin Hanc.
      destruct (some_orig p fi Hi) as (n0 & Hn0 & Him).
      destruct (info_ids_nonneg fi n0 Him) as [Hu Hg].
      (* removeIfSymlink: the entry, if there is one, is a directory *)
      pose proof HP0 as (Hq0 & Hwf0 & _ & _ & _).
      destruct (remove_if_symlink_nolink base Vb Vk tnb accb rhb whb hid anc HLb w p Hq0 Hwf0
                  (sdirect_snolinkpar _ _ (prog_sdirect R w p fi HP0 Hi Hanc)))
        as (wr & Hris & HVr & Hsrr).
      { intros n Hp. rewrite (prog_kind R w p fi n HP0 Hnin Hi Hp), Hk. discriminate. }
      rewrite (bind_ok _ _ w wr tt Hris).
      pose proof (Prog_read R w wr HP0 (quiet_same_rest Vk w wr Hq0 Hsrr) HVr (proj1 Hsrr)) as HP.
      clear Hq0 Hwf0 Hris HVr Hsrr HP0 w. rename wr into w.
      pose proof (prog_sdirect R w p fi HP Hi Hanc) as Hdir.
      pose proof HP as (Hq & Hwf & HVk & _ & _).
      assert (Hcase : Vb w !! p = None \/ sdir (Vb w) p).
      { destruct (Vb w !! p) as [n|] eqn:Hp; [right | left; reflexivity].
        pose proof (prog_kind R w p fi n HP Hnin Hi Hp) as Hkn. rewrite Hk in Hkn.
        destruct n as [m | m c | m t]; simpl in Hkn; try discriminate Hkn.
        exists m. exact Hp. }
      destruct (copy_dir_spec base Vb Vk tnb accb rhb whb hid anc HLb w p fi Hq Hwf Hdir Hne Hk Hu Hg Hcase (orig_not_hid p n0 Hn0))
        as (w' & m' & Hrun & (Hsr & Hwf' & Heqv) & Hp' & Hmeta).
      exists w'. split; [exact Hrun |].
      apply (Prog_step R w w' p HP).
      - eapply quiet_same_rest; eassumption.
      - exact Hwf'.
      - rewrite (proj1 Hsr). exact HVk.
      - exact Heqv.
      - rewrite Hp', Hn0.
        assert (Hk0 : node_kind n0 = KDir) by (rewrite <- (proj1 Him); exact Hk).
        pose proof (meta_restored fi m' n0 Hmeta Him (swf_lookup_perm12 _ _ _ HwfB Hn0)) as Hm.
        destruct n0 as [m0 | m0 c0 | m0 t0]; simpl in Hk0; try discriminate Hk0.
        exact Hm.
    Qed.

    (** *** regular files *)
    Lemma file_step (R : list str) (w : world) (p : str) (fi : finfo) :
      Prog R w -> infos !! p = Some (Some fi) -> p <> s_root -> fi_kind fi = KFile -> ~ In p R ->
      (forall a, In a (ancestors p) -> a <> s_root -> In a R) ->
      exists w', restore_file base backup p fi w = (MOk tt, w') /\ Prog (R ++ [p]) w'.
    Proof.
      intros HP Hi Hne Hk Hnin Hanc.
      destruct (backup_node p fi Hi Hne) as (n0 & nk & Hn0 & Him & Hnk & Hcopy).
      destruct (info_ids_nonneg fi n0 Him) as [Hu Hg].
      assert (Hk0 : node_kind n0 = KFile) by (rewrite <- (proj1 Him); exact Hk).
      destruct n0 as [m0 | m0 c0 | m0 t0]; simpl in Hk0; try discriminate Hk0.
      simpl in Hcopy.
      destruct nk as [mk | mk ck | mk tk]; simpl in Hcopy; try contradiction.
      destruct Hcopy as [-> ->].
      pose proof HP as (Hq & Hwf & HVk & _ & _).
      pose proof (inv_wf_k Vb Vk B0 w0 Hinv) as Hwfk0.
      pose proof (swf_lookup_snolinkpar _ _ _ Hwfk0 Hnk) as Hnlpk0.
      (* Open on the backup *)
      assert (Hwfk : swf (Vk w)) by (rewrite HVk; exact Hwfk0).
      assert (Hpk : Vk w !! p = Some (File m0 c0)) by (rewrite HVk; exact Hnk).
      assert (Hnlpk : snolinkpar (Vk w) p) by (rewrite HVk; exact Hnlpk0).
      destruct (law_open_file _ _ _ _ _ _ _ _ _ HLk w p m0 c0 Hq Hwfk Hnlpk Hpk)
        as (h & (wa & Hopen & HVka & Hsra) & Hrh).
      pose proof (quiet_same_rest Vb w wa Hq Hsra) as Hqa.
      pose proof (Prog_read R w wa HP Hqa (proj1 Hsra) HVka) as HPa.
      (* Stat on the handle *)
      assert (Hpka : Vk wa !! p = Some (File m0 c0)) by (rewrite HVka; exact Hpk).
      destruct (law_hstat _ _ _ _ _ _ _ _ _ HLk wa h p 0%nat (File m0 c0) Hqa Hrh Hpka)
        as (fi2 & (wb & Hstat & HVkb & Hsrb) & Him2).
      pose proof (quiet_same_rest Vb wa wb Hqa Hsrb) as Hqb.
      pose proof (Prog_read R wa wb HPa Hqb (proj1 Hsrb) HVkb) as HPb.
      assert (Hk2 : fi_kind fi2 = KFile) by exact (proj1 Him2).
      (* removeIfSymlink on the base: the entry, if there is one, is a regular file *)
      pose proof HPb as (_ & Hwfb1 & _ & _ & _).
      destruct (remove_if_symlink_nolink base Vb Vk tnb accb rhb whb hid anc HLb wb p Hqb Hwfb1
                  (sdirect_snolinkpar _ _ (prog_sdirect R wb p fi HPb Hi Hanc)))
        as (wr & Hris & HVr & Hsrr).
      { intros n Hp. rewrite (prog_kind R wb p fi n HPb Hnin Hi Hp), Hk. discriminate. }
      pose proof (quiet_same_rest Vk wb wr Hqb Hsrr) as Hqr.
      pose proof (Prog_read R wb wr HPb Hqr HVr (proj1 Hsrr)) as HPr.
      (* the copy *)
      pose proof HPr as (_ & Hwfb & HVkb0 & _ & _).
      assert (Hwfkb : swf (Vk wr)) by (rewrite HVkb0; exact Hwfk0).
      assert (Hpkb : Vk wr !! p = Some (File m0 c0)) by (rewrite HVkb0; exact Hnk).
      pose proof (prog_sdirect R wr p fi HPr Hi Hanc) as Hdir.
      assert (Hcase : Vb wr !! p = None \/ exists m1 c1, Vb wr !! p = Some (File m1 c1)).
      { destruct (Vb wr !! p) as [n|] eqn:Hp; [right | left; reflexivity].
        pose proof (prog_kind R wr p fi n HPr Hnin Hi Hp) as Hkn. rewrite Hk in Hkn.
        destruct n as [m | m c | m t]; simpl in Hkn; try discriminate Hkn.
        exists m, c. reflexivity. }
      destruct (copy_file_spec base backup Vb Vk tnb tnk accb acck rhb rhk whb whk hid nohid anc nohid HLb HLk
                  wr p fi h p m0 c0 Hqr Hwfb Hwfkb Hdir Hk Hu Hg Hcase Hrh Hpkb (Hsmall p m0 c0 Hn0)
                  (orig_not_hid p _ Hn0))
        as (wc & m' & Hcp & (Hsrc & Hwfc & Heqvc) & Hpc & Hmeta & Hmt).
      pose proof (quiet_same_rest Vk wr wc Hqr Hsrc) as Hqc.
      (* Close *)
      destruct (law_hclose_r _ _ _ _ _ _ _ _ _ HLk wc h p 0%nat Hqc Hrh) as (wd & Hclose & HVkd & Hsrd).
      pose proof (quiet_same_rest Vb wc wd Hqc Hsrd) as Hqd.
      exists wd. split.
      - unfold restore_file.
        rewrite (bind_ok _ _ w wa (Ok h) (try_ok _ w wa h Hopen)). cbv beta iota.
        rewrite (bind_ok _ _ wa wb (Ok fi2) (try_ok _ wa wb fi2 Hstat)). cbv beta iota.
        rewrite Hk2.
        rewrite (bind_ok _ _ wb wb (Ok tt) eq_refl). cbv beta iota.
        rewrite (bind_ok _ _ wb wr (Ok tt) (try_ok _ wb wr tt Hris)). cbv beta iota.
        rewrite (bind_ok _ _ wr wc (Ok tt) (try_ok _ wr wc tt Hcp)).
        rewrite (bind_ok _ _ wc wd (Ok tt) (try_ok _ wc wd tt Hclose)).
        reflexivity.
      - apply (Prog_step R wr wd p HPr Hqd).
        + rewrite (proj1 Hsrd). exact Hwfc.
        + rewrite HVkd, (proj1 Hsrc). exact HVkb0.
        + rewrite (proj1 Hsrd). exact Heqvc.
        + rewrite (proj1 Hsrd), Hpc, Hn0. simpl. split; [| reflexivity].
          pose proof (meta_restored fi m' (File m0 c0) Hmeta Him (swf_lookup_perm12 _ _ _ HwfB Hn0))
            as (H1 & H2 & H3).
          destruct Him as (_ & _ & _ & _ & Hmt0). specialize (Hmt0 eq_refl).
          simpl in H1, H2, H3, Hmt0.
          destruct m' as [a1 a2 a3 a4], m0 as [b1 b2 b3 b4]; simpl in *. congruence.
    Qed.

    (** *** symbolic links *)
    Lemma link_step (R : list str) (w : world) (p : str) (fi : finfo) :
      Prog R w -> infos !! p = Some (Some fi) -> p <> s_root -> fi_kind fi = KLink -> ~ In p R ->
      (forall a, In a (ancestors p) -> a <> s_root -> In a R) ->
      exists w', restore_symlink base backup p fi w = (MOk tt, w') /\ Prog (R ++ [p]) w'.
    Proof.
      intros HP Hi Hne Hk Hnin Hanc.
      destruct (backup_node p fi Hi Hne) as (n0 & nk & Hn0 & Him & Hnk & Hcopy).
      destruct (info_ids_nonneg fi n0 Him) as [Hu Hg].
      assert (Hk0 : node_kind n0 = KLink) by (rewrite <- (proj1 Him); exact Hk).
      destruct n0 as [m0 | m0 c0 | m0 t0]; simpl in Hk0; try discriminate Hk0.
      simpl in Hcopy.
      destruct nk as [mk | mk ck | mk tk]; simpl in Hcopy; try contradiction.
      destruct Hcopy as [Hmk ->].
      destruct (Hlinks p m0 t0 Hn0) as (Htnb & _ & Htne & Haccb & _ & H511).
      pose proof HP as (Hq & Hwf & HVk & _ & _).
      pose proof (inv_wf_k Vb Vk B0 w0 Hinv) as Hwfk0.
      pose proof (swf_lookup_snolinkpar _ _ _ Hwfk0 Hnk) as Hnlpk0.
      (* Lstat on the backup *)
      assert (Hwfk : swf (Vk w)) by (rewrite HVk; exact Hwfk0).
      assert (Hnlpk : snolinkpar (Vk w) p) by (rewrite HVk; exact Hnlpk0).
      destruct (lexists_spec backup Vk Vb tnk acck rhk whk nohid nohid HLk w p Hq Hwfk Hnlpk)
        as (wa & Hex1 & HVka & Hsra).
      rewrite HVk, Hnk in Hex1.
      pose proof (quiet_same_rest Vb w wa Hq Hsra) as Hqa.
      pose proof (Prog_read R w wa HP Hqa (proj1 Hsra) HVka) as HPa.
      (* Lstat on the base *)
      pose proof (prog_sdirect R wa p fi HPa Hi Hanc) as Hdira.
      pose proof HPa as (_ & Hwfa & HVka0 & _ & _).
      destruct (lexists_spec base Vb Vk tnb accb rhb whb hid anc HLb wa p Hqa Hwfa (sdirect_snolinkpar _ _ Hdira))
        as (wb & Hex2 & HVb & Hsrb).
      pose proof (quiet_same_rest Vk wa wb Hqa Hsrb) as Hqb.
      pose proof (Prog_read R wa wb HPa Hqb HVb (proj1 Hsrb)) as HPb.
      pose proof HPb as (_ & Hwfb & HVkb0 & _ & _).
      pose proof (prog_sdirect R wb p fi HPb Hi Hanc) as Hdirb.
      (* RemoveAll of what is there *)
      assert (Hrm : exists wc,
                 (if match Vb wa !! p with Some _ => true | None => false end
                  then a_removeall base p else ret tt) wb = (MOk tt, wc) /\
                 quiet wc /\ swf (Vb wc) /\ Vk wc = Vk w0 /\ Vb wc !! p = None /\
                 store_eqv_except [p] (Vb wc) (Vb wb)).
      { rewrite <- HVb. destruct (Vb wb !! p) as [n|] eqn:Hp.
        - pose proof (prog_kind R wb p fi n HPb Hnin Hi Hp) as Hkn.
          assert (Hnd : node_kind n <> KDir) by (rewrite Hkn, Hk; discriminate).
          destruct (law_removeall_leaf _ _ _ _ _ _ _ _ _ HLb wb p n Hqb Hwfb
                      (sdirect_snolinkpar _ _ Hdirb) Hp Hnd Hne)
            as (s2 & (wc & Hrun & HVc & Hsrc) & Hnone & Heqv & Hwfc).
          subst s2. exists wc. split; [exact Hrun |].
          split; [eapply quiet_same_rest; eassumption |].
          split; [exact Hwfc |].
          split; [rewrite (proj1 Hsrc); exact HVkb0 |].
          split; [exact Hnone | exact Heqv].
        - exists wb. split; [reflexivity |].
          split; [exact Hqb | split; [exact Hwfb | split; [exact HVkb0 | split; [exact Hp |]]]].
          apply store_eqv_except_refl. }
      destruct Hrm as (wc & Hrmrun & Hqc & Hwfc & HVkc & Hpc & Heqvc).
      (* the copy *)
      assert (Hwfkc : swf (Vk wc)) by (rewrite HVkc; exact Hwfk0).
      assert (Hnlpkc : snolinkpar (Vk wc) p) by (rewrite HVkc; exact Hnlpk0).
      assert (Hpkc : Vk wc !! p = Some (Link mk t0)) by (rewrite HVkc; exact Hnk).
      pose proof (sdirect_eqv_except_self _ _ p Hdirb Heqvc) as Hdirc.
      destruct (copy_symlink_spec base backup Vb Vk tnb tnk accb acck rhb rhk whb whk hid nohid anc nohid HLb HLk
                  wc p fi mk t0 Hqc Hwfc Hwfkc Hnlpkc Hpkc Hdirc Hpc Hk Hu Hg Htne Haccb (orig_not_hid p _ Hn0))
        as (wd & m' & Hcs & (Hsrd & Hwfd & Heqvd) & Hpd & Hp511 & Huid & Hgid).
      exists wd. split.
      - unfold restore_symlink.
        rewrite (bind_ok _ _ w wa true Hex1). cbv beta iota.
        change (negb true) with false. cbv iota.
        rewrite (bind_ok _ _ wa wb _ Hex2). cbv beta.
        rewrite (bind_ok _ _ wb wc tt Hrmrun). exact Hcs.
      - apply (Prog_step R wb wd p HPb).
        + eapply quiet_same_rest; eassumption.
        + exact Hwfd.
        + rewrite (proj1 Hsrd). exact HVkc.
        + eapply store_eqv_except_trans; eassumption.
        + rewrite Hpd, Hn0, Htnb. simpl. split; [| reflexivity].
          destruct Him as (_ & _ & Hu0 & Hg0 & _). simpl in Hu0, Hg0.
          split; [| split].
          * rewrite Hp511, H511. reflexivity.
          * apply N2Z.inj. rewrite Huid, Hu0. reflexivity.
          * apply N2Z.inj. rewrite Hgid, Hg0. reflexivity.
    Qed.

    (** *** the three passes *)

    Lemma info_of_key_some (p : str) (fi : finfo) :
      infos !! p = Some (Some fi) -> info_of_key infos p = Some fi.
    Proof. intros H. unfold info_of_key. rewrite H. reflexivity. Qed.

    (** the non-root ancestors of a tracked original are in [l_ds] *)
    Lemma anc_in_ds (p : str) (fi : finfo) (a : str) :
      infos !! p = Some (Some fi) -> In a (ancestors p) -> a <> s_root -> In a l_ds.
    Proof.
      intros Hi Ha Hne. destruct (anc_dir p fi a Hi Ha) as (fa & ma & Hia & Hka & _).
      apply in_k. exists fa. split; [exact Hia | split; [exact Hne | exact Hka]].
    Qed.

    Lemma dirs_pass (w : world) :
      Prog [] w ->
      exists w', collect_errs (fun p => match info_of_key infos p with
                                        | Some fi => remove_if_symlink base p ;;; copy_dir base p fi
                                        | None => fail EOther end) (sort_least l_ds) w = (MOk [], w') /\
                 Prog l_ds w'.
    Proof.
      intros HP.
      destruct (collect_errs_inv
                  (fun p => match info_of_key infos p with
                            | Some fi => remove_if_symlink base p ;;; copy_dir base p fi
                            | None => fail EOther end)
                  (fun done w' => Prog done w') (sort_least l_ds) w) as (w' & Hrun & HP').
      - intros done p todo w1 El HP1.
        assert (Hin : In p (sort_least l_ds)) by (rewrite El; apply in_or_app; right; left; reflexivity).
        apply isort_in in Hin. pose proof Hin as Hin'. apply in_k in Hin'.
        destruct Hin' as (fi & Hi & Hne & Hk).
        rewrite (info_of_key_some p fi Hi).
        pose proof (isort_nodup least l_ds (l_k_nodup KDir)) as Hnd.
        fold (sort_least l_ds) in Hnd. rewrite El in Hnd.
        apply (dir_step done w1 p fi HP1 Hi Hne Hk (nodup_mid_notin p done todo Hnd)).
        intros a Ha Hane.
        apply (least_order l_ds done todo p a (l_k_nodup KDir) (l_k_cleaned KDir) El Hin
                 (anc_in_ds p fi a Hi Ha Hane)).
        apply (ancestors_spec p a); [apply tracked_cleaned; congruence | exact Ha].
      - exact HP.
      - exists w'. split; [exact Hrun |].
        apply (Prog_ext (sort_least l_ds) l_ds w'); [| exact HP'].
        intros x. apply isort_in.
    Qed.

    Lemma files_pass (w : world) :
      Prog l_ds w ->
      exists w', collect_errs (fun p => match info_of_key infos p with
                                        | Some fi => restore_file base backup p fi
                                        | None => fail EOther end) (sort_strings l_fs) w = (MOk [], w') /\
                 Prog (l_ds ++ l_fs) w'.
    Proof.
      intros HP.
      destruct (collect_errs_inv
                  (fun p => match info_of_key infos p with
                            | Some fi => restore_file base backup p fi
                            | None => fail EOther end)
                  (fun done w' => Prog (l_ds ++ done) w') (sort_strings l_fs) w) as (w' & Hrun & HP').
      - intros done p todo w1 El HP1.
        assert (Hin : In p (sort_strings l_fs)) by (rewrite El; apply in_or_app; right; left; reflexivity).
        apply isort_in in Hin. pose proof Hin as Hin'. apply in_k in Hin'.
        destruct Hin' as (fi & Hi & Hne & Hk).
        rewrite (info_of_key_some p fi Hi).
        pose proof (isort_nodup str_ltb l_fs (l_k_nodup KFile)) as Hnd.
        fold (sort_strings l_fs) in Hnd. rewrite El in Hnd.
        destruct (file_step (l_ds ++ done) w1 p fi HP1 Hi Hne Hk) as (w2 & Hrun2 & HP2).
        + intros Hc. apply in_app_or in Hc. destruct Hc as [Hc | Hc].
          * apply in_k in Hc. destruct Hc as (fi' & Hi' & _ & Hk'). congruence.
          * exact (nodup_mid_notin p done todo Hnd Hc).
        + intros a Ha Hane. apply in_or_app. left. exact (anc_in_ds p fi a Hi Ha Hane).
        + exists w2. split; [exact Hrun2 |]. rewrite app_assoc. exact HP2.
      - rewrite app_nil_r. exact HP.
      - exists w'. split; [exact Hrun |].
        apply (Prog_ext (l_ds ++ sort_strings l_fs) (l_ds ++ l_fs) w'); [| exact HP'].
        intros x. rewrite !in_app_iff. unfold sort_strings. rewrite isort_in. reflexivity.
    Qed.

    Lemma links_pass (w : world) :
      Prog (l_ds ++ l_fs) w ->
      exists w', collect_errs (fun p => match info_of_key infos p with
                                        | Some fi => restore_symlink base backup p fi
                                        | None => fail EOther end) (sort_strings l_ls) w = (MOk [], w') /\
                 Prog ((l_ds ++ l_fs) ++ l_ls) w'.
    Proof.
      intros HP.
      destruct (collect_errs_inv
                  (fun p => match info_of_key infos p with
                            | Some fi => restore_symlink base backup p fi
                            | None => fail EOther end)
                  (fun done w' => Prog ((l_ds ++ l_fs) ++ done) w') (sort_strings l_ls) w)
        as (w' & Hrun & HP').
      - intros done p todo w1 El HP1.
        assert (Hin : In p (sort_strings l_ls)) by (rewrite El; apply in_or_app; right; left; reflexivity).
        apply isort_in in Hin. pose proof Hin as Hin'. apply in_k in Hin'.
        destruct Hin' as (fi & Hi & Hne & Hk).
        rewrite (info_of_key_some p fi Hi).
        pose proof (isort_nodup str_ltb l_ls (l_k_nodup KLink)) as Hnd.
        fold (sort_strings l_ls) in Hnd. rewrite El in Hnd.
        destruct (link_step ((l_ds ++ l_fs) ++ done) w1 p fi HP1 Hi Hne Hk) as (w2 & Hrun2 & HP2).
        + intros Hc. apply in_app_or in Hc. destruct Hc as [Hc | Hc].
          * apply in_app_or in Hc. destruct Hc as [Hc | Hc];
              apply in_k in Hc; destruct Hc as (fi' & Hi' & _ & Hk'); congruence.
          * exact (nodup_mid_notin p done todo Hnd Hc).
        + intros a Ha Hane. apply in_or_app. left. apply in_or_app. left.
          exact (anc_in_ds p fi a Hi Ha Hane).
        + exists w2. split; [exact Hrun2 |]. rewrite app_assoc. exact HP2.
      - rewrite app_nil_r. exact HP.
      - exists w'. split; [exact Hrun |].
        apply (Prog_ext ((l_ds ++ l_fs) ++ sort_strings l_ls) ((l_ds ++ l_fs) ++ l_ls) w'); [| exact HP'].
        intros x. rewrite !in_app_iff. unfold sort_strings. rewrite isort_in. reflexivity.
    Qed.

    (** after the three passes the base is back *)
    Lemma prog_final (w : world) : Prog ((l_ds ++ l_fs) ++ l_ls) w -> store_eqv (Vb w) B0.
    Proof.
      intros (_ & _ & _ & Hres & Hkeep) p Hne.
      destruct (in_dec str_eq_dec p ((l_ds ++ l_fs) ++ l_ls)) as [Hin | Hnin].
      - exact (Hres p Hin).
      - eapply sonode_eqv_trans; [exact (Hkeep p Hnin) |].
        destruct (infos !! p) as [[fi|]|] eqn:Hi.
        + exfalso. apply Hnin. rewrite !in_app_iff.
          destruct (some_classified p fi Hi Hne) as [H | [H | H]]; tauto.
        + rewrite (Hs1_none p Hi), (inv_none Vb Vk B0 w0 Hinv p Hi). exact I.
        + eapply sonode_eqv_trans.
          * apply Hs1_keep. congruence.
          * exact (inv_untracked Vb Vk B0 w0 Hinv p Hi).
    Qed.
  End Restore.

  (* ---------------------------------------------------------------- *)
  (** ** The removal passes: side conditions *)

  Lemma rm_elem (p : str) :
    In p (sort_most l_rm) ->
    p <> s_root /\ snolinkpar (Vb w0) p /\ Vb w0 !! p <> None /\ ~ In p [].
  Proof.
    intros Hin. apply isort_in in Hin. apply in_rm in Hin. destruct Hin as [Hi Hex].
    split; [exact (none_not_root p Hi) |].
    split; [apply (inv_nolink Vb Vk B0 w0 Hinv); congruence |].
    split; [exact Hex | intros []].
  Qed.

  Lemma rm_not_anc (p : str) : In p (sort_most l_rm) -> ~ anc p.
  Proof.
    intros Hin. apply isort_in in Hin. apply in_rm in Hin. destruct Hin as [Hi _].
    exact (none_not_anc p (inv_none Vb Vk B0 w0 Hinv p Hi)).
  Qed.

  Lemma rm_order (done : list str) (p : str) (todo : list str) (q : str) (n0 : node) :
    sort_most l_rm = done ++ p :: todo -> Vb w0 !! q = Some n0 -> In p (ancestors q) ->
    In q ([] ++ done).
  Proof.
    intros El Hq Hanc. simpl.
    assert (Hin : In p l_rm).
    { apply (isort_in most). fold (sort_most l_rm). rewrite El. apply in_or_app. right. left. reflexivity. }
    pose proof Hin as Hin'. apply in_rm in Hin'. destruct Hin' as [Hi _].
    pose proof (desc_of_none p q n0 Hi Hanc Hq) as Hiq.
    assert (Hqin : In q l_rm) by (apply in_rm; split; [exact Hiq | congruence]).
    apply (most_order l_rm done todo p q l_rm_nodup l_rm_cleaned El Hin Hqin).
    apply (ancestors_spec q p); [apply tracked_cleaned; congruence | exact Hanc].
  Qed.

  Lemma bk_elem (k : kind) (p : str) :
    In p (sort_most (List.filter (is_k k) rkeys)) -> p <> s_root /\ snolinkpar (Vk w0) p.
  Proof.
    intros Hin. apply isort_in in Hin. apply in_k in Hin. destruct Hin as (fi & Hi & Hne & _).
    split; [exact Hne |].
    destruct (backup_node p fi Hi Hne) as (n0 & nk & _ & _ & Hnk & _).
    exact (swf_lookup_snolinkpar _ _ _ (inv_wf_k Vb Vk B0 w0 Hinv) Hnk).
  Qed.

  (** nothing lies below the backup copy of a file or link *)
  Lemma bk_leaf (k : kind) (p q : str) (n0 : node) :
    k <> KDir -> In p (List.filter (is_k k) rkeys) -> Vk w0 !! q = Some n0 ->
    In p (ancestors q) -> False.
  Proof.
    intros Hk Hin Hq Hanc. apply in_k in Hin. destruct Hin as (fi & Hi & Hne & Hfk).
    destruct (backup_node p fi Hi Hne) as (np & nk & _ & Him & Hnk & Hc).
    destruct (swf_below_dir (Vk w0) p q n0 (inv_wf_k Vb Vk B0 w0 Hinv) Hq Hanc) as [m Hm].
    rewrite Hm in Hnk. injection Hnk as <-.
    apply copy_of_kind in Hc. rewrite <- (proj1 Him), Hfk in Hc. simpl in Hc.
    apply Hk. symmetry. exact Hc.
  Qed.

  Lemma bk_leaf_order (k : kind) (D0 : list str) :
    k <> KDir -> forall (done : list str) (p : str) (todo : list str) (q : str) (n0 : node),
    sort_most (List.filter (is_k k) rkeys) = done ++ p :: todo ->
    Vk w0 !! q = Some n0 -> In p (ancestors q) -> In q (D0 ++ done).
  Proof.
    intros Hk done p todo q n0 El Hq Hanc. exfalso. apply (bk_leaf k p q n0 Hk); [| exact Hq | exact Hanc].
    apply (isort_in most). fold (sort_most (List.filter (is_k k) rkeys)). rewrite El.
    apply in_or_app. right. left. reflexivity.
  Qed.

  Lemma bk_dir_order (done : list str) (p : str) (todo : list str) (q : str) (n0 : node) :
    sort_most l_ds = done ++ p :: todo -> Vk w0 !! q = Some n0 -> In p (ancestors q) ->
    In q ((l_ls ++ l_fs) ++ done).
  Proof.
    intros El Hq Hanc.
    assert (Hin : In p l_ds).
    { apply (isort_in most). fold (sort_most l_ds). rewrite El. apply in_or_app. right. left. reflexivity. }
    assert (Hqne : q <> s_root) by exact (ancestors_not_root p q Hanc).
    destruct (inv_backup_only Vb Vk B0 w0 Hinv q Hqne) as (fq & Hiq); [congruence |].
    rewrite !in_app_iff.
    destruct (some_classified q fq Hiq Hqne) as [Hd | [Hf | Hl]]; [| tauto | tauto].
    right.
    apply (most_order l_ds done todo p q (l_k_nodup KDir) (l_k_cleaned KDir) El Hin Hd).
    apply (ancestors_spec q p); [apply tracked_cleaned; congruence | exact Hanc].
  Qed.

  (* ---------------------------------------------------------------- *)
  (** ** Assembly *)

  Theorem rollback_core :
    exists w7, b_rollback base backup w0 = (MOk tt, with_infos w7 ∅) /\ quiet w7 /\
               store_eqv (Vb w7) B0 /\ (forall p, p <> s_root -> Vk w7 !! p = None).
  Proof.
    pose proof (inv_quiet Vb Vk B0 w0 Hinv) as Hq0.
    pose proof (inv_wf_b Vb Vk B0 w0 Hinv) as Hwfb0.
    pose proof (inv_wf_k Vb Vk B0 w0 Hinv) as Hwfk0.
    (* classification *)
    destruct (classify_spec rkeys w0 [] [] [] [] [] Hq0 eq_refl) as (wc & Hcls & Hqc & HVc & HVkc).
    simpl app in Hcls. fold l_rm l_ds l_fs l_ls in Hcls.
    (* pass 1: remove what did not exist *)
    assert (HR0 : RInv Vb Vk (Vb w0) (Vk w0) [] wc).
    { split; [exact Hqc |]. rewrite HVc. split; [exact Hwfb0 |]. split; [exact HVkc |].
      split; [apply store_eqv_except_refl | intros p []]. }
    destruct (remove_pass base Vb Vk tnb accb rhb whb hid anc HLb (Vb w0) (Vk w0) [] (sort_most l_rm) wc HR0
                (isort_nodup most l_rm l_rm_nodup) rm_elem rm_order rm_not_anc) as (w1 & Hp1 & HR1).
    simpl app in HR1.
    pose proof HR1 as (Hq1 & Hwf1 & HVk1 & Heqv1 & Hnone1).
    assert (Hs1_none : forall p, infos !! p = Some None -> Vb w1 !! p = None).
    { intros p Hi. destruct (Vb w0 !! p) as [n|] eqn:Hp.
      - apply Hnone1. apply isort_in. apply in_rm. split; [exact Hi | congruence].
      - exact (RInv_none Vb Vk (Vb w0) (Vk w0) _ w1 p HR1 Hp). }
    assert (Hs1_keep : forall p, infos !! p <> Some None -> sonode_eqv (Vb w1 !! p) (Vb w0 !! p)).
    { intros p Hi. apply Heqv1. intros Hin. apply isort_in in Hin. apply in_rm in Hin.
      apply Hi. exact (proj1 Hin). }
    assert (HP1 : Prog (Vb w1) [] w1).
    { split; [exact Hq1 | split; [exact Hwf1 | split; [exact HVk1 | split]]].
      - intros p [].
      - intros p _. apply sonode_eqv_refl. }
    (* passes 2-4: restore directories, files, links *)
    destruct (dirs_pass (Vb w1) Hs1_keep w1 HP1) as (w2 & Hp2 & HP2).
    destruct (files_pass (Vb w1) Hs1_keep w2 HP2) as (w3 & Hp3 & HP3).
    destruct (links_pass (Vb w1) Hs1_keep w3 HP3) as (w4 & Hp4 & HP4).
    pose proof (prog_final (Vb w1) Hs1_none Hs1_keep w4 HP4) as Hfinal.
    pose proof HP4 as (Hq4 & Hwf4 & HVk4 & _ & _).
    (* passes 5-7: empty the backup *)
    assert (HRk0 : RInv Vk Vb (Vk w0) (Vb w4) [] w4).
    { split; [exact Hq4 |]. rewrite HVk4. split; [exact Hwfk0 |]. split; [reflexivity |].
      split; [apply store_eqv_except_refl | intros p []]. }
    assert (HneL : KLink <> KDir) by discriminate.
    assert (HneF : KFile <> KDir) by discriminate.
    destruct (try_rm_pass backup Vk Vb tnk acck rhk whk nohid nohid HLk (Vk w0) (Vb w4) [] (sort_most l_ls) w4 HRk0
                (bk_elem KLink) (bk_leaf_order KLink [] HneL) (fun p _ => not_nohid p)) as (w5 & Hp5 & HR5).
    apply (RInv_ext Vk Vb (Vk w0) (Vb w4) _ l_ls) in HR5;
      [| intros x; simpl; apply isort_in].
    destruct (try_rm_pass backup Vk Vb tnk acck rhk whk nohid nohid HLk (Vk w0) (Vb w4) l_ls (sort_most l_fs) w5 HR5
                (bk_elem KFile) (bk_leaf_order KFile l_ls HneF) (fun p _ => not_nohid p)) as (w6 & Hp6 & HR6).
    apply (RInv_ext Vk Vb (Vk w0) (Vb w4) _ (l_ls ++ l_fs)) in HR6;
      [| intros x; rewrite !in_app_iff; unfold sort_most; rewrite isort_in; reflexivity].
    destruct (try_rm_pass backup Vk Vb tnk acck rhk whk nohid nohid HLk (Vk w0) (Vb w4) (l_ls ++ l_fs)
                (sort_most l_ds) w6 HR6 (bk_elem KDir) bk_dir_order (fun p _ => not_nohid p)) as (w7 & Hp7 & HR7).
    pose proof HR7 as (Hq7 & _ & HVb7 & Heqv7 & Hnone7).
    exists w7. split; [| split; [exact Hq7 | split]].
    - unfold b_rollback.
      rewrite (bind_ok get_infos _ w0 w0 infos eq_refl). cbv beta zeta.
      rewrite (bind_ok _ _ w0 wc _ Hcls). cbv beta iota zeta.
      rewrite (bind_ok _ _ wc w1 [] Hp1). cbv beta iota zeta.
      rewrite (bind_ok _ _ w1 w2 [] Hp2). cbv beta iota zeta.
      rewrite (bind_ok _ _ w2 w3 [] Hp3). cbv beta iota zeta.
      rewrite (bind_ok _ _ w3 w4 [] Hp4). cbv beta iota zeta.
      unfold try_remove_backup_paths.
      rewrite (bind_ok _ _ w4 w5 [] Hp5). cbv beta iota zeta.
      rewrite (bind_ok _ _ w5 w6 [] Hp6). cbv beta iota zeta.
      rewrite (bind_ok _ _ w6 w7 [] Hp7). cbv beta iota zeta.
      rewrite (bind_ok (put_infos ∅) _ w7 (with_infos w7 ∅) tt eq_refl). reflexivity.
    - rewrite HVb7. exact Hfinal.
    - intros p Hne. destruct (Vk w0 !! p) as [n|] eqn:Hp.
      + apply Hnone7.
        destruct (inv_backup_only Vb Vk B0 w0 Hinv p Hne) as (fi & Hi); [congruence |].
        rewrite !in_app_iff. unfold sort_most. rewrite isort_in.
        destruct (some_classified p fi Hi Hne) as [H | [H | H]]; tauto.
      + exact (RInv_none Vk Vb (Vk w0) (Vb w4) _ w7 p HR7 Hp).
  Qed.
End Rollback.

(* ------------------------------------------------------------------ *)
(** * The theorems *)

(** Everything [rollback_stmt] claims, stated about the world [w7] just
    before the final [put_infos ∅]; the world Rollback returns is
    [with_infos w7 ∅]. *)
Theorem rollback_core_spec :
  forall base backup Vb Vk tnb tnk accb acck rhb rhk whb whk hid anc B0,
  base_laws base Vb Vk tnb accb rhb whb hid anc -> backup_laws backup Vb Vk tnk acck rhk whk ->
  links_ok tnb tnk accb acck B0 -> all_small B0 -> swf B0 -> loc_ok hid anc B0 ->
  forall w, Inv Vb Vk B0 w ->
  exists w7, b_rollback base backup w = (MOk tt, with_infos w7 ∅) /\ quiet w7 /\
             store_eqv (Vb w7) B0 /\ (forall p, p <> s_root -> Vk w7 !! p = None).
Proof.
  intros base backup Vb Vk tnb tnk accb acck rhb rhk whb whk hid anc B0 HLb HLk Hlinks Hsmall HwfB Hloc w Hinv.
  exact (rollback_core base backup Vb Vk tnb tnk accb acck rhb rhk whb whk hid anc B0
           HLb HLk Hlinks Hsmall HwfB Hloc w Hinv).
Qed.
(** [rollback_stmt] of Spec/CopySpecs.v: by [law_infos_indep] the final
    [put_infos ∅] changes neither view. *)
Theorem rollback_spec :
  forall base backup Vb Vk tnb tnk accb acck rhb rhk whb whk hid anc B0,
  rollback_stmt base backup Vb Vk tnb tnk accb acck rhb rhk whb whk hid anc B0.
Proof.
  intros base backup Vb Vk tnb tnk accb acck rhb rhk whb whk hid anc B0.
  unfold rollback_stmt. cbv zeta. intros HLb HLk Hlinks Hsmall HwfB Hloc w Hinv.
  destruct (rollback_core_spec base backup Vb Vk tnb tnk accb acck rhb rhk whb whk hid anc B0
              HLb HLk Hlinks Hsmall HwfB Hloc w Hinv) as (w7 & Hrun & Hq & Hb & Hk).
  exists (with_infos w7 ∅). split; [exact Hrun |].
  split; [exact Hq |].
  split; [rewrite (law_infos_indep _ _ _ _ _ _ _ _ _ HLb); exact Hb |].
  split; [intros p Hp; rewrite (law_infos_indep _ _ _ _ _ _ _ _ _ HLk); exact (Hk p Hp) | reflexivity].
Qed.

Print Assumptions rollback_core_spec.
Print Assumptions rollback_spec.
