(** Non-vacuity of the theorems for the layering of the Go constructors
    [New] / [NewWithFS] (Proofs/LawsNew.v): base = HiddenFS(["/var/bk"]) directly
    over the OS filesystem, backup = PrefixFS("/var/bk") over the same OS
    filesystem - [ncfg "/var/bk"].  The base view is the whole filesystem
    except the location.

    The history includes operations on the ANCESTOR "/var" of the location:
    RemoveAll("/var") removes everything in "/var" but the location, and its
    final Remove of "/var" itself fails (ENOTEMPTY: the operation returns an
    error); Rename("/var", "/w") is refused by HiddenFS; Mkdir below the
    location is refused as well.  All of them are covered operations.  The
    hypotheses of [c01_new] are proved by boolean reflection (the checkers of
    Proofs/ConcreteExample.v evaluated by [vm_compute]); its conclusion is
    obtained by applying the theorem and, a second time, by running the
    model. *)
From stdpp Require Import gmap.
From BFS Require Import Spec.CopySpecs Spec.ViewOsfs Spec.ViewHidden Spec.ViewRoot.
From BFS Require Import Proofs.LawsOsfsBase Proofs.LawsOsfs Proofs.ConcreteExample.
From BFS Require Import Proofs.LawsHiddenBase Proofs.LawsHiddenView.
From BFS Require Import Proofs.LawsRootBase Proofs.LawsRootFrame Proofs.LawsNew.
Open Scope N_scope.

(* ------------------------------------------------------------------ *)
(** * 1. Reflection of [initial] for the layering *)

Definition acc_0b (q t p : str) : bool :=
  match is_hidden (to_abs_symlink t p) [q] with Some false => true | _ => false end.

Definition links_okb_n (q : str) (s : store) : bool :=
  forallb (fun kv : str * node =>
             match snd kv with
             | Link m t =>
                 str_eqb (clean t) t && negb (str_eqb t []) && is_abs (fst kv) &&
                 acc_0b q t (fst kv) && sym_accb q t (fst kv) && N.eqb (m_perm m) 511
             | _ => true
             end)
          (map_to_list s).

Lemma links_okb_n_sound (q : str) (s : store) :
  hidden_ok q -> links_okb_n q s = true -> links_ok tn_0 clean (acc_0 q) (acc_p q) s.
Proof.
  intros Hh H p m t Hp. pose proof (gmap_forallb s _ H p (Link m t) Hp) as C.
  cbv beta in C. simpl fst in C. simpl snd in C. rewrite !andb_true_iff in C.
  destruct C as [[[[[C1 C2] C3] C4] C5] C6].
  apply str_eqb_eq in C1. apply negb_true_iff in C2. apply str_eqb_neq in C2.
  apply N.eqb_eq in C6. unfold acc_0b in C4.
  split; [reflexivity | split; [exact C1 | split; [exact C2 | split; [| split; [| exact C6]]]]].
  - unfold acc_0. destruct (is_hidden (to_abs_symlink t p) [q]) as [[|]|]; try discriminate C4. reflexivity.
  - apply (acc_p_iff q t p Hh C3). exact C5.
Qed.

Definition initialb_n (q : str) (w : world) : bool :=
  world_okb s_root (st_fs (w_st w)) && world_okb q (st_fs (w_st w)) &&
  sdirb (V0 w) q && links_okb_n q (V0H q w) && only_rootb (Vp q w).

Lemma initialb_n_sound (q : str) (w : world) :
  hidden_ok q -> w_crash w = None -> w_faults w = [] -> w_infos w = ∅ ->
  initialb_n q w = true ->
  initial (V0H q) (Vp q) tn_0 clean (acc_0 q) (acc_p q) (V0H q w) w.
Proof.
  intros Hh Hc Hf Hi H. unfold initialb_n in H. rewrite !andb_true_iff in H.
  destruct H as [[[[H1 H2] H3] H4] H5].
  split; [split; assumption |]. split; [exact Hi |]. split; [reflexivity |].
  split.
  { rewrite V0H_FH. apply (swf_FH q Hh); [apply (swf_V0_iff w); exact H1 | apply sdirb_sound; exact H3]. }
  split; [apply links_okb_n_sound; assumption |].
  split; [apply only_rootb_sound; exact H5 |].
  apply (swf_Vp_iff q w Hh). exact H2.
Qed.

(* ------------------------------------------------------------------ *)
(** * 2. The instance *)

(** the location "/var/bk" *)
Definition nq : str := [47;118;97;114;47;98;107].

Lemma nq_ok : hidden_ok nq.
Proof. split; [apply abs_cleanedb_sound; vm_compute; reflexivity | intro H; discriminate H]. Qed.

(** the initial world:
<<
      /                 drwxr-xr-x 0:0
      /var              drwxr-xr-x 0:0
      /var/bk           drwx------ 0:0            the backup location (hidden from the base)
      /var/g            -rw-r--r-- 1000:1000      "gg"
      /var/d            drwxr-xr-x 1000:1000
      /var/d/x          -rw-r--r-- 1000:1000      "x"
      /etc              drwxr-xr-x 0:0
      /etc/f            -rwsr-xr-x 1000:1000      "hello"
      /l                lrwxrwxrwx 1000:1000      -> etc/f
>> *)
Definition nw0 : world :=
  let w := init_dir init_world [47] 493 0 0 1 in
  let w := init_dir w [47;118;97;114] 493 0 0 2 in
  let w := init_dir w nq 448 0 0 4 in
  let w := init_file w [47;118;97;114;47;103] 420 1000 1000 12 [103;103] in
  let w := init_dir w [47;118;97;114;47;100] 493 1000 1000 13 in
  let w := init_file w [47;118;97;114;47;100;47;120] 420 1000 1000 14 [120] in
  let w := init_dir w [47;101;116;99] 493 0 0 3 in
  let w := init_file w [47;101;116;99;47;102] 2541 1000 1000 10 [104;101;108;108;111] in
  init_link w [47;108] 1000 1000 15 [101;116;99;47;102].

(** the base view when the transaction begins: the whole filesystem but the location *)
Definition nB0 : store := V0H nq nw0.

Example nB0_size : length (map_to_list nB0) = 8%nat.
Proof. vm_compute. reflexivity. Qed.

Example nB0_location_hidden : nB0 !! nq = None /\ V0 nw0 !! nq <> None.
Proof. vm_compute. split; [reflexivity | discriminate]. Qed.

Lemma nw0_initial : initial (V0H nq) (Vp nq) tn_0 clean (acc_0 nq) (acc_p nq) nB0 nw0.
Proof.
  apply (initialb_n_sound nq nw0 nq_ok);
    [reflexivity | reflexivity | reflexivity | vm_compute; reflexivity].
Qed.

Lemma nB0_small : all_small nB0.
Proof. apply all_smallb_sound. vm_compute. reflexivity. Qed.

(** the history (names are paths of the OS filesystem):
      Chmod("/etc/f", 0600)
      RemoveAll("/var")            the PARENT of the location: removes /var/g, /var/d/x, /var/d;
                                   the final Remove of /var fails (ENOTEMPTY)
      Rename("/var", "/w")         refused by HiddenFS (ErrHiddenPermission)
      Create("/var/new") + write "n"
      Mkdir("/var/bk/zz", 0755)    below the location: refused (ErrHiddenPermission)
      Remove("/l")                 a symlink
      Chmod("/var", 0700)          a proper ancestor of the location *)
Definition nops : list op :=
  [OChmod [47;101;116;99;47;102] 384;
   ORemoveAll [47;118;97;114];
   ORename [47;118;97;114] [47;119];
   OCreate [47;118;97;114;47;110;101;119] [110];
   OMkdir [47;118;97;114;47;98;107;47;122;122] 493;
   ORemove [47;108];
   OChmod [47;118;97;114] 448].

Notation nbase := (cfg_base (ncfg nq)).
Notation nbackup := (cfg_backup (ncfg nq)).

Definition nw : world := snd (run_history (ncfg nq) nops nw0).

Example nops_results :
  fst (run_history (ncfg nq) nops nw0) =
    [MOk ObUnit; MErr ENOTEMPTY; MErr (ELayer EHiddenPerm); MOk ObUnit; MErr (ELayer EHiddenPerm); MOk ObUnit; MOk ObUnit].
Proof. vm_compute. reflexivity. Qed.

(** after the history: the base has lost /var/g, /var/d, /var/d/x, /l and
    gained /var/new; the backup (inside /var/bk) holds the originals *)
Example nw_base_view :
  map fst (map_to_list (V0H nq nw)) =
    [[47]; [47;101;116;99]; [47;101;116;99;47;102]; [47;118;97;114]; [47;118;97;114;47;110;101;119]].
Proof. vm_compute. reflexivity. Qed.

Lemma nops_run_ok : run_okb nbase nbackup (V0H nq) nops nw0 = true.
Proof. vm_compute. reflexivity. Qed.

Lemma nops_no_halt : forallb not_haltb (fst (run_history (ncfg nq) nops nw0)) = true.
Proof. vm_compute. reflexivity. Qed.

Lemma nops_good_run : good_run nbase nbackup (V0H nq) nw0 nops nw.
Proof. exact (good_run_history_reflect (ncfg nq) (V0H nq) nops nw0 nops_run_ok nops_no_halt). Qed.

(** ** C01 on the instance: by the theorem ... *)
Example c01_new_instance :
  exists w', b_rollback nbase nbackup nw = (MOk tt, w') /\
             store_eqv (V0H nq w') nB0 /\ (forall p, p <> s_root -> Vp nq w' !! p = None) /\
             w_infos w' = ∅.
Proof. exact (c01_new nq nq_ok nB0 nB0_small nw0 nops nw nw0_initial nops_good_run). Qed.

(** ** ... and by running the model *)
Example c01_new_by_computation :
  let '(r, w') := b_rollback nbase nbackup nw in
  r = MOk tt /\ w_infos w' = ∅ /\
  (* the whole OS filesystem - the (emptied) location included - is as in [nw0] *)
  region [] w' = region [] nw0 /\
  (* the same through the views the theorem speaks about *)
  view_erased (V0H nq w') = view_erased nB0 /\
  map fst (map_to_list (Vp nq w')) = [s_root] /\
  (* Rollback did something: before it the filesystem differed *)
  region [] nw <> region [] nw0.
Proof.
  vm_compute.
  split; [reflexivity | split; [reflexivity | split; [reflexivity | split; [reflexivity |
  split; [reflexivity | intro H; discriminate H]]]]].
Qed.

(** ** C02 on the same instance *)
Example c02_new_instance :
  (forall p n0, nB0 !! p = Some n0 -> p <> s_root ->
     sonode_eqv (V0H nq nw !! p) (Some n0) \/
     exists nk, Vp nq nw !! p = Some nk /\ copy_of n0 nk) /\
  (forall p, p <> s_root -> Vp nq nw !! p <> None ->
     exists n0 nk, nB0 !! p = Some n0 /\ Vp nq nw !! p = Some nk /\ copy_of n0 nk).
Proof. exact (c02_new nq nq_ok nB0 nB0_small nw0 nops nw nw0_initial nops_good_run). Qed.

Print Assumptions c01_new_instance.
Print Assumptions c01_new_by_computation.
Print Assumptions c02_new_instance.
