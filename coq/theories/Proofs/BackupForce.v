(** [ForceBackup] re-baselines the path it names (property C17).

    [b_force_backup name]: [rn <- real_path name], look [rn] up in the
    bookkeeping, [try_remove_backup rn], [try_backup rn]; if that fails and
    [rn] had been recorded as "did not exist", the record is put back
    (Backup/BackupFS.v).  Proved from the abstract filesystem laws of
    Spec/Laws.v (Spec/Laws2.v on the base side for the runs of covered
    operations in the corollaries) alone, like Proofs/BackupTry.v.

    Main result, [force_backup_spec] ([force_backup_stmt]): in a state [w]
    that satisfies the transaction invariant [Inv Vb Vk B0 w], for a resolved
    name [p] other than the root whose current entry is not a directory
    ([entry_ok]: nothing, a regular file within the copy budget, or a symlink
    whose target both filesystems accept in normal form) and whose original
    was not a directory either, ForceBackup(p) does not halt, leaves the base
    view alone and ends - whether it returns nil or an error - in a state
    that satisfies the invariant for the *new baseline*

        [rebase B0 p (Vb w !! p)]  =  B0 with the entry at p replaced by the current one
                                      (removed, if there is none now),

    which is again well formed, [links_ok] and [all_small] (so that all the
    theorems about later operations and about Rollback apply to it).
    Bookkeeping at the other paths is kept, new bookkeeping appears on the
    chain root..p only; after nil, p and its ancestors are tracked; nil is
    returned whenever the proper ancestors of p that exist are directories.
    After a call that did not return nil on a path recorded as "did not
    exist", the record is there again and p does not exist (so the new
    baseline is the old one).

    Corollaries: [c17_spec] ([c17_stmt]): after ForceBackup(p) (whatever it
    returned) followed by any [good_run] of covered operations, Rollback
    returns nil, p is as it was at the moment of the ForceBackup call and
    every other path is as it was when the transaction began (that is, as in
    [B0]; directory/link timestamps and the root's own entry aside, as in
    C01); after a call that did not return nil, p is also as in [B0] unless
    it had been tracked as existing.  [c17_failed_spec]: that statement for a
    failed call on its own.  [c17_initial_spec]: [c17_spec] for a transaction
    that started in an [initial] state and reached the ForceBackup call by a
    [good_run].

    Also: [force_backup_untracked_spec]: on an untracked path (of any type)
    ForceBackup is [try_backup] (the invariant is kept for the same [B0]);
    [Inv_eqv]: the invariant only depends on [B0] up to [sonode_eqv];
    [try_remove_backup_spec]: what [try_remove_backup] does to a non-directory.

    Side conditions of [force_backup_spec] (see Props/C17.v):
    - the original at p was not a directory (otherwise the backup copy is a
      directory and [try_remove_backup] walks it: covered by Proofs/BackupForceDir.v);
    - [parents_original]: if p is tracked as "did not exist" and exists now,
      its parent directories existed when the transaction began.  If a parent
      was created in the transaction it is not in the backup and the copy of p
      is attempted below a directory that is missing there.  The laws of
      Spec/Laws.v are positive only: none says that such a call fails and
      changes nothing, so the outcome of [try_backup] is not determined by
      them in that case and the condition cannot be dropped at this level.
      (With a law "creating a file or a symlink below a missing directory
      fails and leaves the view alone" for the backup it could: the call
      fails, the record "did not exist" is put back - the repair of finding
      D22 - and the invariant holds for the unchanged [B0]; the regression
      example in Props/C17.v shows this in the concrete model.  Before the
      repair the failed call left p untracked and Rollback could not remove
      the new parent.)

    For a path recorded as "did not exist" [try_remove_backup] only drops the
    bookkeeping entry and does not consult the backup filesystem.  (Before
    the repair of finding D21 it did - [Lstat] of p on the backup could follow
    the backed-up copy of a symlink among the parents of p and delete the
    backup copy of another path - and the theorem needed the side condition
    that no proper ancestor of p is a symlink in the backup.) *)
From stdpp Require Import gmap.
From BFS Require Import Spec.CopySpecs.
From BFS Require Import Path.PathSpec.
From BFS Require Import Proofs.PathFacts Proofs.C19Facts Proofs.RollbackFacts Proofs.FsFacts
                        Proofs.BackupCopy Proofs.BackupTry Proofs.BackupRollback Proofs.BackupC01.

(* ------------------------------------------------------------------ *)
(** * The new baseline *)

(** [B0] with the entry at [p] replaced by [cur] *)
Definition rebase (B0 : store) (p : str) (cur : option node) : store :=
  match cur with Some n => <[p := n]> B0 | None => base.delete p B0 end.

Lemma rebase_at (B0 : store) (p : str) (cur : option node) : rebase B0 p cur !! p = cur.
Proof. destruct cur; simpl; [apply lookup_insert | apply lookup_delete]. Qed.

Lemma rebase_ne (B0 : store) (p : str) (cur : option node) (q : str) :
  q <> p -> rebase B0 p cur !! q = B0 !! q.
Proof.
  intros H. destruct cur; simpl; [apply lookup_insert_ne | apply lookup_delete_ne]; congruence.
Qed.

Lemma sdir_rebase (B0 : store) (p : str) (cur : option node) (q : str) :
  q <> p -> sdir B0 q -> sdir (rebase B0 p cur) q.
Proof. intros Hne [m Hm]. exists m. rewrite rebase_ne by exact Hne. exact Hm. Qed.

(** the new baseline is well formed: nothing lay below [p], and the parents
    of the new entry were directories *)
Lemma swf_rebase (B0 : store) (p : str) (cur : option node) :
  swf B0 -> p <> s_root -> (forall m, B0 !! p <> Some (Dir m)) ->
  (forall n, cur = Some n -> sdirect B0 p /\ perm12 n) -> swf (rebase B0 p cur).
Proof.
  intros Hwf Hne Hnd Hcur. pose proof Hwf as [Hroot Hall]. split.
  - apply sdir_rebase; [congruence | exact Hroot].
  - intros q n Hq. destruct (str_eq_dec q p) as [-> | Hqp].
    + rewrite rebase_at in Hq. destruct (Hcur n Hq) as [[Hac Hf] H12]. split; [| exact H12].
      split; [exact Hac |]. apply List.Forall_forall. intros a Ha. apply sdir_rebase.
      * intros ->. exact (ancestors_not_self p (proj1 Hac) Ha).
      * rewrite List.Forall_forall in Hf. exact (Hf a Ha).
    + rewrite rebase_ne in Hq by exact Hqp. destruct (Hall q n Hq) as [[Hac Hf] H12].
      split; [| exact H12]. split; [exact Hac |]. apply List.Forall_forall. intros a Ha.
      rewrite List.Forall_forall in Hf. destruct (Hf a Ha) as [m Hm].
      apply sdir_rebase; [| exists m; exact Hm]. intros ->. exact (Hnd m Hm).
Qed.

Lemma all_small_rebase (B0 : store) (p : str) (cur : option node) :
  all_small B0 -> (forall m c, cur = Some (File m c) -> small c) -> all_small (rebase B0 p cur).
Proof.
  intros Hs Hcur q m c Hq. destruct (str_eq_dec q p) as [-> | Hqp].
  - rewrite rebase_at in Hq. exact (Hcur m c Hq).
  - rewrite rebase_ne in Hq by exact Hqp. exact (Hs q m c Hq).
Qed.

Lemma snode_eqv_sym (a b : node) : snode_eqv a b -> snode_eqv b a.
Proof.
  destruct a as [ma | ma ca | ma ta], b as [mb | mb cb | mb tb]; simpl; try tauto.
  - intros (H1 & H2 & H3). repeat split; congruence.
  - intros [-> ->]. split; reflexivity.
  - intros [(H1 & H2 & H3) ->]. repeat split; congruence.
Qed.

Lemma sonode_eqv_sym (a b : option node) : sonode_eqv a b -> sonode_eqv b a.
Proof. destruct a, b; simpl; try tauto. apply snode_eqv_sym. Qed.

(* ------------------------------------------------------------------ *)
Section Force.
  Variables base backup : fsapi.
  Variables Vb Vk : world -> store.
  Variables tnb tnk : str -> str.
  Variables accb acck : str -> str -> Prop.
  Variables rhb rhk whb whk : fhandle -> str -> nat -> Prop.
  Variables hid anc : str -> Prop.

  (** what the entry found at [p] at the moment of the ForceBackup call has
      to look like: not a directory (the property is about non-directory
      paths); a regular file within the budget of the copy loop
      ([all_small]); a symlink as [links_ok] asks of the links of the initial
      tree (recorded findings K2/K3) *)
  Definition entry_ok (p : str) (cur : option node) : Prop :=
    match cur with
    | None => True
    | Some (Dir _) => False
    | Some (File _ c) => small c
    | Some (Link m t) =>
        tnb t = t /\ tnk t = t /\ t <> [] /\ accb t p /\ acck t p /\ m_perm m = 511
    end.

  Lemma links_ok_rebase (B0 : store) (p : str) (cur : option node) :
    links_ok tnb tnk accb acck B0 -> entry_ok p cur ->
    links_ok tnb tnk accb acck (rebase B0 p cur).
  Proof.
    intros Hl Hcur q m t Hq. destruct (str_eq_dec q p) as [-> | Hqp].
    - rewrite rebase_at in Hq. subst cur. exact Hcur.
    - rewrite rebase_ne in Hq by exact Hqp. exact (Hl q m t Hq).
  Qed.

  (** ** the invariant depends on [B0] up to [sonode_eqv] only *)
  Lemma Inv_eqv (B0 B1 : store) (w : world) :
    (forall q, sonode_eqv (B0 !! q) (B1 !! q)) -> Inv Vb Vk B0 w -> Inv Vb Vk B1 w.
  Proof.
    intros He HI. destruct HI as [Hq Hwb Hwk Hun Hno Hso Hab Hcl Hnl Hbo Hki].
    constructor; try assumption.
    - intros p Hp. eapply sonode_eqv_trans; [exact (Hun p Hp) | exact (He p)].
    - intros p Hp. pose proof (He p) as E. rewrite (Hno p Hp) in E.
      destruct (B1 !! p); [contradiction E | reflexivity].
    - intros p fi Hp. destruct (Hso p fi Hp) as (n0 & H0 & Him & Hk).
      pose proof (He p) as E. rewrite H0 in E.
      destruct (B1 !! p) as [n1|]; [| contradiction E]. simpl in E.
      exists n1. split; [reflexivity |]. split; [eapply info_matches_eqv; eassumption |].
      destruct Hk as [-> | (nk & Hnk & Hc)]; [left; reflexivity | right].
      exists nk. split; [exact Hnk | eapply copy_of_eqv_l; eassumption].
  Qed.

  Variable B0 : store.

  Hypothesis HLb : base_laws base Vb Vk tnb accb rhb whb hid anc.
  Hypothesis HLk : backup_laws backup Vb Vk tnk acck rhk whk.
  Hypothesis Hlinks : links_ok tnb tnk accb acck B0.
  Hypothesis Hsmall : all_small B0.
  Hypothesis HwfB0 : swf B0.

  Let Lb : api_laws base Vb Vk tnb accb rhb whb hid anc := HLb.
  Let Lk : api_laws backup Vk Vb tnk acck rhk whk nohid nohid := HLk.

  Lemma Vb_infos : forall w i, Vb (with_infos w i) = Vb w.
  Proof. exact (law_infos_indep _ _ _ _ _ _ _ _ _ HLb). Qed.

  Lemma Vk_infos : forall w i, Vk (with_infos w i) = Vk w.
  Proof. exact (law_infos_indep _ _ _ _ _ _ _ _ _ HLk). Qed.

  (** ** what is known about the original at [p] *)

  (** the original was not a directory *)
  Lemma orig_not_dir (w : world) (p : str) :
    Inv Vb Vk B0 w -> (forall m, Vb w !! p <> Some (Dir m)) ->
    (forall fi, w_infos w !! p = Some (Some fi) -> fi_kind fi <> KDir) ->
    forall m, B0 !! p <> Some (Dir m).
  Proof.
    intros HI Hcur Hfi m H0. destruct (w_infos w !! p) as [[fi|]|] eqn:Hi.
    - destruct (inv_some _ _ _ _ HI p fi Hi) as (n0 & H0' & Him & _).
      rewrite H0 in H0'. injection H0' as <-. apply (Hfi fi eq_refl). exact (proj1 Him).
    - rewrite (inv_none _ _ _ _ HI p Hi) in H0. discriminate H0.
    - pose proof (inv_untracked _ _ _ _ HI p Hi) as He. rewrite H0 in He.
      destruct (Vb w !! p) as [[m' | m' c' | m' t']|] eqn:Hb; simpl in He; try contradiction.
      exact (Hcur m' eq_refl).
  Qed.

  (** so no tracked original lay below it *)
  Lemma no_tracked_below (w : world) (p : str) :
    Inv Vb Vk B0 w -> (forall m, B0 !! p <> Some (Dir m)) ->
    forall q fi, w_infos w !! q = Some (Some fi) -> ~ In p (ancestors q).
  Proof.
    intros HI Hnd q fi Hq Hin.
    destruct (inv_some _ _ _ _ HI q fi Hq) as (n0 & H0 & _).
    destruct (swf_lookup_sdirect _ _ _ HwfB0 H0) as [_ Hf].
    rewrite List.Forall_forall in Hf. destruct (Hf p Hin) as [m Hm]. exact (Hnd m Hm).
  Qed.

  (** the parents of a path that can be addressed directly in the base are
      not symlinks in the backup (not needed any more since the repair of D21;
      kept as a fact about the invariant) *)
  Lemma backup_nolinkpar (w : world) (p : str) :
    Inv Vb Vk B0 w -> sdirect (Vb w) p -> snolinkpar (Vk w) p.
  Proof.
    intros HI [Hac Hf]. split; [exact Hac |].
    apply List.Forall_forall. intros a Ha m t Hl.
    rewrite List.Forall_forall in Hf. destruct (Hf a Ha) as [md Hmd].
    assert (Hne : a <> s_root).
    { intros ->. destruct (swf_root_dir _ (inv_wf_k _ _ _ _ HI)) as [mr Hmr].
      rewrite Hmr in Hl. discriminate Hl. }
    destruct (inv_backup_only _ _ _ _ HI a Hne) as [fi Hfi]; [rewrite Hl; discriminate |].
    destruct (inv_some _ _ _ _ HI a fi Hfi) as (n0 & H0 & Him & Hk).
    destruct Hk as [E | (nk & Hnk & Hc)]; [exact (Hne E) |].
    rewrite Hl in Hnk. injection Hnk as <-.
    pose proof (inv_kind _ _ _ _ HI a fi _ Hfi Hmd) as Hkd. simpl in Hkd.
    rewrite (proj1 Him) in Hkd.
    destruct n0 as [m0 | m0 c0 | m0 t0]; simpl in Hc, Hkd.
    - destruct Hc as (mk & E & _). discriminate E.
    - contradiction Hc.
    - discriminate Hkd.
  Qed.

  (** ** dropping the bookkeeping entry and the backup copy of a non-directory *)
  Lemma Inv_untrack (w w' : world) (p : str) :
    Inv Vb Vk B0 w -> (forall m, B0 !! p <> Some (Dir m)) ->
    Vb w' = Vb w -> w_infos w' = base.delete p (w_infos w) ->
    w_crash w' = w_crash w -> w_faults w' = w_faults w ->
    swf (Vk w') -> store_eqv_except [p] (Vk w') (Vk w) -> Vk w' !! p = None ->
    Inv Vb Vk (rebase B0 p (Vb w !! p)) w'.
  Proof.
    intros HI Hnd HVb Hinf Hcr Hfa Hwfk Heqv Hkp.
    assert (Hlk : forall q, q <> p -> w_infos w' !! q = w_infos w !! q).
    { intros q Hq. rewrite Hinf. apply lookup_delete_ne. congruence. }
    assert (Hlp : w_infos w' !! p = None) by (rewrite Hinf; apply lookup_delete).
    assert (Hother : forall q, q <> p -> sonode_eqv (Vk w' !! q) (Vk w !! q)).
    { intros q Hq. apply Heqv. intros [E | []]. apply Hq. symmetry. exact E. }
    assert (Hmono : forall q, q <> p -> tracked w q -> tracked w' q).
    { intros q Hne Hq. unfold tracked. rewrite Hlk by exact Hne. exact Hq. }
    constructor.
    - destruct (inv_quiet _ _ _ _ HI) as [H1 H2]. split; congruence.
    - rewrite HVb. exact (inv_wf_b _ _ _ _ HI).
    - exact Hwfk.
    - intros q Hq. rewrite HVb. destruct (str_eq_dec q p) as [-> | Hne].
      + rewrite rebase_at. apply sonode_eqv_refl.
      + rewrite rebase_ne by exact Hne. rewrite Hlk in Hq by exact Hne.
        exact (inv_untracked _ _ _ _ HI q Hq).
    - intros q Hq. destruct (str_eq_dec q p) as [-> | Hne].
      + rewrite Hlp in Hq. discriminate Hq.
      + rewrite Hlk in Hq by exact Hne. rewrite rebase_ne by exact Hne.
        exact (inv_none _ _ _ _ HI q Hq).
    - intros q fi Hq. destruct (str_eq_dec q p) as [-> | Hne].
      + rewrite Hlp in Hq. discriminate Hq.
      + rewrite Hlk in Hq by exact Hne. rewrite rebase_ne by exact Hne.
        destruct (inv_some _ _ _ _ HI q fi Hq) as (n0 & H0 & Him & Hk).
        exists n0. split; [exact H0 |]. split; [exact Him |].
        destruct Hk as [-> | (nk & Hnk & Hc)]; [left; reflexivity | right].
        pose proof (Hother q Hne) as He. rewrite Hnk in He.
        destruct (Vk w' !! q) as [nk'|]; [| contradiction He]. simpl in He.
        exists nk'. split; [reflexivity | eapply copy_of_eqv_r; eassumption].
    - intros q Hq. unfold tracked in Hq. destruct (str_eq_dec q p) as [-> | Hne].
      + contradiction Hq.
      + rewrite Hlk in Hq by exact Hne. exact (inv_abs _ _ _ _ HI q Hq).
    - intros q fi Hq. destruct (str_eq_dec q p) as [-> | Hne].
      + rewrite Hlp in Hq. discriminate Hq.
      + rewrite Hlk in Hq by exact Hne.
        pose proof (inv_closed _ _ _ _ HI q fi Hq) as Hf.
        apply List.Forall_forall. intros a Ha. rewrite List.Forall_forall in Hf.
        apply Hmono; [| exact (Hf a Ha)]. intros ->.
        exact (no_tracked_below w p HI Hnd q fi Hq Ha).
    - intros q Hq. rewrite HVb. unfold tracked in Hq. destruct (str_eq_dec q p) as [-> | Hne].
      + contradiction Hq.
      + rewrite Hlk in Hq by exact Hne. exact (inv_nolink _ _ _ _ HI q Hq).
    - intros q Hne Hq. destruct (str_eq_dec q p) as [-> | Hqp]; [contradiction Hq |].
      pose proof (Hother q Hqp) as He. destruct (Vk w !! q) as [nk|] eqn:E.
      + destruct (inv_backup_only _ _ _ _ HI q Hne) as [fi Hfi]; [rewrite E; discriminate |].
        exists fi. rewrite Hlk by exact Hqp. exact Hfi.
      + destruct (Vk w' !! q); [contradiction He | contradiction Hq; reflexivity].
    - intros q fi n Hq Hn. rewrite HVb in Hn. destruct (str_eq_dec q p) as [-> | Hne].
      + rewrite Hlp in Hq. discriminate Hq.
      + rewrite Hlk in Hq by exact Hne. exact (inv_kind _ _ _ _ HI q fi n Hq Hn).
  Qed.

  (** ** [try_remove_backup] *)

  Lemma already_seen_run (p : str) (w : world) : already_seen p w = (MOk (w_infos w !! p), w).
  Proof. reflexivity. Qed.

  Lemma delete_info_run (p : str) (w : world) :
    delete_info p w = (MOk tt, with_infos w (base.delete p (w_infos w))).
  Proof. reflexivity. Qed.

  (** on an untracked path it does nothing at all *)
  Lemma try_remove_backup_untracked (w : world) (p : str) :
    w_infos w !! p = None -> try_remove_backup backup p w = (MOk tt, w).
  Proof.
    intros Hi. unfold try_remove_backup.
    rewrite (bind_ok _ _ w w _ (already_seen_run p w)). rewrite Hi. reflexivity.
  Qed.

  (** a non-directory: the copy (if there is one) and the entry are dropped;
      the invariant then holds for the baseline with the current entry at [p] *)
  Lemma try_remove_backup_spec (w : world) (p : str) :
    Inv Vb Vk B0 w -> p <> s_root -> (forall m, Vb w !! p <> Some (Dir m)) ->
    (forall fi, w_infos w !! p = Some (Some fi) -> fi_kind fi <> KDir) ->
    exists w', try_remove_backup backup p w = (MOk tt, w') /\ Vb w' = Vb w /\
               w_infos w' = base.delete p (w_infos w) /\
               Inv Vb Vk (rebase B0 p (Vb w !! p)) w'.
  Proof.
    intros HI Hne Hcur Hfi.
    pose proof (orig_not_dir w p HI Hcur Hfi) as Hnd.
    destruct (w_infos w !! p) as [[fi0|]|] eqn:Hi.
    - (* tracked, existed: the copy is removed *)
      destruct (inv_some _ _ _ _ HI p fi0 Hi) as (n0 & H0 & Him & Hk).
      destruct Hk as [E | (nk & Hnk & Hc)]; [contradiction (Hne E) |].
      assert (Hknk : node_kind nk <> KDir).
      { intros Ek. apply (Hfi fi0 eq_refl). rewrite (proj1 Him).
        destruct n0 as [m0 | m0 c0 | m0 t0].
        - reflexivity.
        - simpl in Hc. rewrite (eqv_kind _ _ Hc) in Ek. discriminate Ek.
        - simpl in Hc. rewrite (eqv_kind _ _ Hc) in Ek. discriminate Ek. }
      pose proof (swf_lookup_snolinkpar _ _ _ (inv_wf_k _ _ _ _ HI) Hnk) as Hnlp.
      destruct (law_lstat_some _ _ _ _ _ _ _ _ _ Lk w p nk (inv_quiet _ _ _ _ HI) (inv_wf_k _ _ _ _ HI) Hnlp Hnk)
        as (fi & (w1 & Hrun1 & HV1 & Hsr1) & Himk & _).
      pose proof (same_all_backup Vb Vk w w1 HV1 Hsr1) as Hsa1.
      pose proof (Inv_transfer Vb Vk B0 w w1 HI Hsa1) as HI1.
      pose proof Hsr1 as (HVb1 & Hi1 & Hc1 & Hf1).
      assert (Hdi : is_dir_info fi = false).
      { unfold is_dir_info. rewrite (proj1 Himk).
        destruct nk; simpl in *; [contradiction Hknk; reflexivity | reflexivity | reflexivity]. }
      assert (Hnk1 : Vk w1 !! p = Some nk) by (rewrite HV1; exact Hnk).
      assert (Hnc : no_children (Vk w1) p).
      { intros q n Hq Hqp Hin.
        destruct (swf_lookup_sdirect _ _ _ (inv_wf_k _ _ _ _ HI1) Hq) as [_ Hf].
        rewrite List.Forall_forall in Hf. destruct (Hf p Hin) as [m Hm].
        rewrite Hm in Hnk1. injection Hnk1 as <-. apply Hknk. reflexivity. }
      destruct (law_remove_leaf _ _ _ _ _ _ _ _ _ Lk w1 p nk (inv_quiet _ _ _ _ HI1) (inv_wf_k _ _ _ _ HI1)
                  (swf_lookup_snolinkpar _ _ _ (inv_wf_k _ _ _ _ HI1) Hnk1) Hnk1 Hnc Hne (not_nohid _))
        as (s' & (w2 & Hrun2 & HV2 & Hsr2) & Hnone & Heqv & Hwf').
      pose proof Hsr2 as (HVb2 & Hi2 & Hc2 & Hf2).
      set (w3 := with_infos w2 (base.delete p (w_infos w2))).
      exists w3. split; [| split; [| split]].
      + unfold try_remove_backup.
        rewrite (bind_ok _ _ w w _ (already_seen_run p w)). rewrite Hi.
        rewrite (bind_ok _ _ w w1 (Ok fi) (try_ok _ w w1 fi Hrun1)).
        rewrite Hdi. cbn [negb].
        rewrite (bind_ok _ _ w1 w2 tt Hrun2). exact (delete_info_run p w2).
      + unfold w3. rewrite Vb_infos. congruence.
      + unfold w3. simpl. rewrite Hi2, Hi1. reflexivity.
      + apply (Inv_untrack w w3 p HI Hnd).
        * unfold w3. rewrite Vb_infos. congruence.
        * unfold w3. simpl. rewrite Hi2, Hi1. reflexivity.
        * simpl. congruence.
        * simpl. congruence.
        * unfold w3. rewrite Vk_infos, HV2. exact Hwf'.
        * unfold w3. rewrite Vk_infos, HV2. rewrite <- HV1. exact Heqv.
        * unfold w3. rewrite Vk_infos, HV2. exact Hnone.
    - (* tracked, did not exist: there is no copy; the backup is not consulted *)
      assert (Hknone : Vk w !! p = None).
      { destruct (Vk w !! p) as [nk|] eqn:E; [| reflexivity].
        destruct (inv_backup_only _ _ _ _ HI p Hne) as [fi Hfi']; [rewrite E; discriminate |].
        rewrite Hi in Hfi'. discriminate Hfi'. }
      set (w2 := with_infos w (base.delete p (w_infos w))).
      exists w2. split; [| split; [| split]].
      + unfold try_remove_backup.
        rewrite (bind_ok _ _ w w _ (already_seen_run p w)). rewrite Hi.
        exact (delete_info_run p w).
      + unfold w2. apply Vb_infos.
      + reflexivity.
      + apply (Inv_untrack w w2 p HI Hnd).
        * unfold w2. apply Vb_infos.
        * reflexivity.
        * reflexivity.
        * reflexivity.
        * unfold w2. rewrite Vk_infos. exact (inv_wf_k _ _ _ _ HI).
        * unfold w2. rewrite Vk_infos. apply store_eqv_except_refl.
        * unfold w2. rewrite Vk_infos. exact Hknone.
    - (* not tracked: nothing happens *)
      exists w. split; [exact (try_remove_backup_untracked w p Hi) |].
      split; [reflexivity |].
      split; [symmetry; apply delete_notin; exact Hi |].
      apply (Inv_untrack w w p HI Hnd); try reflexivity.
      + symmetry. apply delete_notin. exact Hi.
      + exact (inv_wf_k _ _ _ _ HI).
      + apply store_eqv_except_refl.
      + exact (untracked_backup_none Vb Vk B0 w p HI Hi Hne).
  Qed.

  (** ** the side conditions on the path handed to ForceBackup *)

  (** if [p] was created in the transaction, its parents were not *)
  Definition parents_original (w : world) (p : str) : Prop :=
    w_infos w !! p = Some None -> Vb w !! p <> None -> sdirect B0 p.

  Definition orig_not_dir_cond (w : world) (p : str) : Prop :=
    forall fi, w_infos w !! p = Some (Some fi) -> fi_kind fi <> KDir.

  Lemma entry_ok_not_dir (p : str) (cur : option node) :
    entry_ok p cur -> forall m, cur <> Some (Dir m).
  Proof. intros H m ->. exact H. Qed.

  (** the new baseline satisfies what the theorems ask of a baseline *)
  Lemma rebase_ok (w : world) (p : str) :
    Inv Vb Vk B0 w -> p <> s_root -> entry_ok p (Vb w !! p) -> orig_not_dir_cond w p ->
    parents_original w p ->
    swf (rebase B0 p (Vb w !! p)) /\
    links_ok tnb tnk accb acck (rebase B0 p (Vb w !! p)) /\
    all_small (rebase B0 p (Vb w !! p)).
  Proof.
    intros HI Hne Hcur Hfi Hpar0.
    pose proof (orig_not_dir w p HI (entry_ok_not_dir p _ Hcur) Hfi) as Hnd.
    split; [| split].
    - apply (swf_rebase B0 p _ HwfB0 Hne Hnd). intros n Hn.
      split; [| exact (swf_lookup_perm12 _ _ _ (inv_wf_b _ _ _ _ HI) Hn)].
      destruct (w_infos w !! p) as [[fi|]|] eqn:Hi.
      + destruct (inv_some _ _ _ _ HI p fi Hi) as (n0 & H0 & _).
        exact (swf_lookup_sdirect _ _ _ HwfB0 H0).
      + apply (Hpar0 Hi). rewrite Hn. discriminate.
      + pose proof (inv_untracked _ _ _ _ HI p Hi) as He. rewrite Hn in He.
        destruct (B0 !! p) as [n0|] eqn:E0; [| contradiction He].
        exact (swf_lookup_sdirect _ _ _ HwfB0 E0).
    - exact (links_ok_rebase B0 p _ Hlinks Hcur).
    - apply (all_small_rebase B0 p _ Hsmall). intros m c Hc. rewrite Hc in Hcur. exact Hcur.
  Qed.

  (** ** ForceBackup *)

  (** how [b_force_backup] runs once its stages are known *)
  Lemma force_backup_run_ok (w w1 w2 w' : world) (p : str) :
    real_path base p w = (MOk p, w1) -> try_remove_backup backup p w1 = (MOk tt, w2) ->
    try_backup base backup p w2 = (MOk tt, w') ->
    b_force_backup base backup p w = (MOk tt, w').
  Proof.
    intros H1 H2 H3. unfold b_force_backup. rewrite (bind_ok _ _ w w1 p H1).
    rewrite (bind_ok _ _ w1 w1 _ (already_seen_run p w1)).
    rewrite (bind_ok _ _ w1 w2 tt H2).
    rewrite (bind_ok _ _ w2 w' (Ok tt) (try_ok _ w2 w' tt H3)). reflexivity.
  Qed.

  Lemma force_backup_run_err (w w1 w2 w' w'' : world) (p : str) (e : errno) :
    real_path base p w = (MOk p, w1) -> try_remove_backup backup p w1 = (MOk tt, w2) ->
    try_backup base backup p w2 = (MErr e, w') ->
    (match w_infos w1 !! p with Some None => set_info_if_new p None | _ => ret tt end) w' = (MOk tt, w'') ->
    b_force_backup base backup p w = (MErr e, w'').
  Proof.
    intros H1 H2 H3 H4. unfold b_force_backup. rewrite (bind_ok _ _ w w1 p H1).
    rewrite (bind_ok _ _ w1 w1 _ (already_seen_run p w1)).
    rewrite (bind_ok _ _ w1 w2 tt H2).
    rewrite (bind_ok _ _ w2 w' (Err e) (try_err _ w2 w' e H3)).
    rewrite (bind_ok _ _ w' w'' tt H4). reflexivity.
  Qed.

  Theorem force_backup_specS (w : world) (p : str) :
    Inv Vb Vk B0 w -> snolinkpar (Vb w) p -> p <> s_root ->
    entry_ok p (Vb w !! p) -> orig_not_dir_cond w p ->
    parents_original w p ->
    exists r w', b_force_backup base backup p w = (r, w') /\ r <> MHalt /\ Vb w' = Vb w /\
                 Inv Vb Vk (rebase B0 p (Vb w !! p)) w' /\
                 (forall q, q <> p -> w_infos w !! q <> None -> w_infos w' !! q = w_infos w !! q) /\
                 (forall q, w_infos w' !! q <> None -> w_infos w !! q <> None \/ In q (cands p)) /\
                 (r = MOk tt -> tracked w' p /\ Forall (tracked w') (ancestors p)) /\
                 ((forall q n, In q (ancestors p) -> Vb w !! q = Some n -> node_kind n = KDir) ->
                  r = MOk tt) /\
                 (r <> MOk tt -> w_infos w !! p = Some None ->
                  w_infos w' !! p = Some None /\ Vb w !! p = None).
  Proof.
    intros HI Hnlp Hne Hcur Hfi Hpar0.
    destruct (rebase_ok w p HI Hne Hcur Hfi Hpar0) as (Hwf' & Hlinks' & Hsmall').
    (* resolve *)
    destruct (real_path_resolved_spec base Vb Vk tnb accb rhb whb hid anc Lb w p
                (inv_quiet _ _ _ _ HI) (inv_wf_b _ _ _ _ HI) Hnlp) as (w1 & Hrun1 & HVb1 & Hsr1).
    pose proof (same_all_base Vb Vk w w1 HVb1 Hsr1) as Hsa1.
    pose proof (Inv_transfer Vb Vk B0 w w1 HI Hsa1) as HI1.
    pose proof Hsa1 as (_ & HVk1 & Hi1 & _ & _).
    (* drop the old copy *)
    destruct (try_remove_backup_spec w1 p HI1 Hne) as (w2 & Hrun2 & HVb2 & Hi2 & HI2).
    { rewrite HVb1. exact (entry_ok_not_dir p _ Hcur). }
    { rewrite Hi1. exact Hfi. }
    rewrite HVb1 in HI2. rewrite Hi1 in Hi2.
    (* back up again *)
    assert (Hnlp2 : snolinkpar (Vb w2) p) by (rewrite HVb2, HVb1; exact Hnlp).
    destruct (try_backup_specS base backup Vb Vk tnb tnk accb acck rhb rhk whb whk hid anc
                (rebase B0 p (Vb w !! p)) HLb HLk Hlinks' Hsmall' Hwf' w2 p HI2 Hnlp2)
      as (r & w' & Hrun3 & Hnh & HI' & (HVb' & Hm & Hd) & Htr & Hok).
    assert (Hkeep : forall q, q <> p -> w_infos w !! q <> None -> w_infos w' !! q = w_infos w !! q).
    { intros q Hq Htq.
      assert (E : w_infos w2 !! q = w_infos w !! q) by (rewrite Hi2; apply lookup_delete_ne; congruence).
      rewrite <- E. apply Hm. rewrite E. exact Htq. }
    assert (Hnew : forall q, w_infos w' !! q <> None -> w_infos w !! q <> None \/ In q (cands p)).
    { intros q Hq. destruct (Hd q Hq) as [H | H]; [left | right; exact H].
      rewrite Hi2 in H. destruct (str_eq_dec q p) as [-> | Hqp].
      - rewrite lookup_delete in H. contradiction H. reflexivity.
      - rewrite lookup_delete_ne in H by congruence. exact H. }
    assert (Hok' : (forall q n, In q (ancestors p) -> Vb w !! q = Some n -> node_kind n = KDir) ->
                   r = MOk tt).
    { intros Hdirs. apply Hok. intros q n Hq Hn. rewrite HVb2, HVb1 in Hn. exact (Hdirs q n Hq Hn). }
    destruct r as [[] | e |]; [| | contradiction Hnh; reflexivity].
    { (* the new backup was taken *)
      exists (MOk tt), w'. split; [exact (force_backup_run_ok w w1 w2 w' p Hrun1 Hrun2 Hrun3) |].
      split; [discriminate |]. split; [congruence |]. split; [exact HI' |].
      split; [exact Hkeep |]. split; [exact Hnew |]. split; [exact Htr |]. split; [exact Hok' |].
      intros D. contradiction D. reflexivity. }
    (* it was not: the state after the repair of the record *)
    assert (Hfin : forall w'', Vb w'' = Vb w' -> Inv Vb Vk (rebase B0 p (Vb w !! p)) w'' ->
                     (forall q, q <> p -> w_infos w'' !! q = w_infos w' !! q) ->
                     (w_infos w !! p = Some None -> w_infos w'' !! p = Some None /\ Vb w !! p = None) ->
                     (match w_infos w1 !! p with Some None => set_info_if_new p None | _ => ret tt end) w'
                       = (MOk tt, w'') ->
                     exists r w', b_force_backup base backup p w = (r, w') /\ r <> MHalt /\ Vb w' = Vb w /\
                       Inv Vb Vk (rebase B0 p (Vb w !! p)) w' /\
                       (forall q, q <> p -> w_infos w !! q <> None -> w_infos w' !! q = w_infos w !! q) /\
                       (forall q, w_infos w' !! q <> None -> w_infos w !! q <> None \/ In q (cands p)) /\
                       (r = MOk tt -> tracked w' p /\ Forall (tracked w') (ancestors p)) /\
                       ((forall q n, In q (ancestors p) -> Vb w !! q = Some n -> node_kind n = KDir) ->
                        r = MOk tt) /\
                       (r <> MOk tt -> w_infos w !! p = Some None ->
                        w_infos w' !! p = Some None /\ Vb w !! p = None)).
    { intros w'' HV'' HI'' Hsame Hrec Hfix. exists (MErr e), w''.
      split; [exact (force_backup_run_err w w1 w2 w' w'' p e Hrun1 Hrun2 Hrun3 Hfix) |].
      split; [discriminate |]. split; [congruence |]. split; [exact HI'' |].
      split; [| split; [| split; [| split; [exact Hok' |]]]].
      - intros q Hq Htq. rewrite (Hsame q Hq). exact (Hkeep q Hq Htq).
      - intros q Hq. destruct (str_eq_dec q p) as [-> | Hqp].
        + right. apply self_in_cands. exact (proj1 (proj1 Hnlp)).
        + rewrite (Hsame q Hqp) in Hq. exact (Hnew q Hq).
      - intros D. discriminate D.
      - intros _ Hi. exact (Hrec Hi). }
    destruct (w_infos w !! p) as [[fi0|]|] eqn:Hi.
    - apply (Hfin w'); try reflexivity; try exact HI'.
      + intros D. discriminate D.
      + rewrite Hi1, Hi. reflexivity.
    - (* recorded as "did not exist": the record is put back *)
      assert (Hb : Vb w !! p = None).
      { destruct (Vb w !! p) as [n|] eqn:Hb; [| reflexivity]. exfalso.
        assert (D : MErr e = MOk tt :> mres unit); [| discriminate D].
        apply Hok'. intros q n' Hq Hn'.
        destruct (swf_lookup_sdirect _ _ _ (inv_wf_b _ _ _ _ HI) Hb) as [_ Hf].
        rewrite List.Forall_forall in Hf. destruct (Hf q Hq) as [md Hmd].
        rewrite Hmd in Hn'. injection Hn' as <-. reflexivity. }
      destruct (w_infos w' !! p) as [v|] eqn:Hi'.
      + (* [try_backup] had recorded it again before it failed *)
        assert (Ev : v = None).
        { destruct v as [fi|]; [| reflexivity]. exfalso.
          destruct (inv_some _ _ _ _ HI' p fi Hi') as (n0 & H0 & _).
          rewrite rebase_at, Hb in H0. discriminate H0. }
        subst v. apply (Hfin w'); try reflexivity; try exact HI'.
        * intros _. split; [exact Hi' | exact Hb].
        * rewrite Hi1, Hi. apply set_info_old. rewrite Hi'. discriminate.
      + set (w'' := with_infos w' (<[p := None]> (w_infos w'))).
        assert (Hkn : Vk w' !! p = None).
        { exact (untracked_backup_none Vb Vk _ w' p HI' Hi' Hne). }
        apply (Hfin w'').
        * unfold w''. apply Vb_infos.
        * apply (Inv_track Vb Vk _ w' w'' p None HI' Hi'); try reflexivity.
          -- unfold w''. apply Vb_infos.
          -- unfold w''. rewrite Vk_infos. exact (inv_wf_k _ _ _ _ HI').
          -- unfold w''. rewrite Vk_infos. apply store_eqv_except_refl.
          -- rewrite HVb', HVb2, HVb1. exact Hnlp.
          -- split; [rewrite HVb', HVb2, HVb1; exact Hb |].
             unfold w''. rewrite Vk_infos. exact Hkn.
        * intros q Hq. unfold w''. simpl. apply lookup_insert_ne. congruence.
        * intros _. split; [unfold w''; simpl; apply lookup_insert | exact Hb].
        * rewrite Hi1, Hi. exact (set_info_new p None w' Hi').
    - apply (Hfin w'); try reflexivity; try exact HI'.
      + intros D. discriminate D.
      + rewrite Hi1, Hi. reflexivity.
  Qed.

  (** on success the bookkeeping entry of [p] describes the entry found at the
      moment of the call *)
  Lemma force_backup_entry (w w' : world) (p : str) :
    Inv Vb Vk (rebase B0 p (Vb w !! p)) w' -> tracked w' p ->
    match Vb w !! p with
    | None => w_infos w' !! p = Some None
    | Some n => exists fi, w_infos w' !! p = Some (Some fi) /\ info_matches fi n
    end.
  Proof.
    intros HI' Htr. unfold tracked in Htr.
    destruct (w_infos w' !! p) as [[fi|]|] eqn:Hi; [| | contradiction Htr; reflexivity].
    - destruct (inv_some _ _ _ _ HI' p fi Hi) as (n0 & H0 & Him & _).
      rewrite rebase_at in H0. rewrite H0. exists fi. split; [reflexivity | exact Him].
    - pose proof (inv_none _ _ _ _ HI' p Hi) as H0. rewrite rebase_at in H0. rewrite H0. reflexivity.
  Qed.

  (** ** ForceBackup of an untracked path (of any type) is [try_backup] *)
  Lemma force_backup_untracked_specS (w : world) (p : str) :
    Inv Vb Vk B0 w -> snolinkpar (Vb w) p -> w_infos w !! p = None ->
    exists r w' w1, b_force_backup base backup p w = (r, w') /\
                    same_all Vb Vk w w1 /\ try_backup base backup p w1 = (r, w') /\
                    r <> MHalt /\ Inv Vb Vk B0 w' /\ Vb w' = Vb w /\
                    infos_ext w w' (cands p) /\
                    (r = MOk tt -> tracked w' p /\ Forall (tracked w') (ancestors p)).
  Proof.
    intros HI Hnlp Hi.
    destruct (real_path_resolved_spec base Vb Vk tnb accb rhb whb hid anc Lb w p
                (inv_quiet _ _ _ _ HI) (inv_wf_b _ _ _ _ HI) Hnlp) as (w1 & Hrun1 & HVb1 & Hsr1).
    pose proof (same_all_base Vb Vk w w1 HVb1 Hsr1) as Hsa1.
    pose proof (Inv_transfer Vb Vk B0 w w1 HI Hsa1) as HI1.
    pose proof Hsa1 as (_ & HVk1 & Hi1 & _ & _).
    assert (Hun1 : w_infos w1 !! p = None) by (rewrite Hi1; exact Hi).
    assert (Hnlp1 : snolinkpar (Vb w1) p) by (rewrite HVb1; exact Hnlp).
    destruct (try_backup_specS base backup Vb Vk tnb tnk accb acck rhb rhk whb whk hid anc
                B0 HLb HLk Hlinks Hsmall HwfB0 w1 p HI1 Hnlp1)
      as (r & w' & Hrun3 & Hnh & HI' & (HVb' & Hm & Hd) & Htr & _).
    exists r, w', w1. split; [| split; [exact Hsa1 | split; [exact Hrun3 | split; [exact Hnh |]]]].
    { pose proof (try_remove_backup_untracked w1 p Hun1) as Hrun2.
      destruct r as [[] | e |]; [| | contradiction Hnh; reflexivity].
      - exact (force_backup_run_ok w w1 w1 w' p Hrun1 Hrun2 Hrun3).
      - apply (force_backup_run_err w w1 w1 w' w' p e Hrun1 Hrun2 Hrun3).
        rewrite Hun1. reflexivity. }
    split; [exact HI' | split; [congruence | split; [| exact Htr]]].
    unfold infos_ext. rewrite <- Hi1. split; assumption.
  Qed.

  (** ** the property: Rollback after ForceBackup *)

  Hypothesis HLb2 : base_laws2 base Vb Vk tnb accb rhb whb.
  Hypothesis Hloc : loc_ok hid anc B0.

  (** the new baseline shows nothing hidden, and the ancestors of the hidden
      locations as directories: the current base view does *)
  Lemma loc_ok_rebase (w : world) (p : str) :
    Inv Vb Vk B0 w -> loc_ok hid anc (rebase B0 p (Vb w !! p)).
  Proof.
    intros HI. split.
    - intros q Hh. destruct (str_eq_dec q p) as [-> | Hqp].
      + rewrite rebase_at. exact (law_hid_absent _ _ _ _ _ _ _ _ _ Lb w p Hh).
      + rewrite rebase_ne by exact Hqp. exact (proj1 Hloc q Hh).
    - intros q Ha. destruct (str_eq_dec q p) as [-> | Hqp].
      + destruct (law_anc_dir _ _ _ _ _ _ _ _ _ Lb w p Ha (inv_wf_b _ _ _ _ HI)) as [m Hm].
        exists m. rewrite rebase_at. exact Hm.
      + apply sdir_rebase; [exact Hqp | exact (proj2 Hloc q Ha)].
  Qed.

  Lemma c17_specS (w : world) (p : str) :
    Inv Vb Vk B0 w -> snolinkpar (Vb w) p -> p <> s_root ->
    entry_ok p (Vb w !! p) -> orig_not_dir_cond w p ->
    parents_original w p ->
    forall r w1 ops w2,
      b_force_backup base backup p w = (r, w1) -> good_run base backup Vb w1 ops w2 ->
      exists w3, b_rollback base backup w2 = (MOk tt, w3) /\
                 sonode_eqv (Vb w3 !! p) (Vb w !! p) /\
                 (forall q, q <> p -> q <> s_root -> sonode_eqv (Vb w3 !! q) (B0 !! q)) /\
                 (forall q, q <> s_root -> Vk w3 !! q = None) /\ w_infos w3 = ∅ /\
                 (r <> MOk tt -> (forall fi, w_infos w !! p <> Some (Some fi)) ->
                  sonode_eqv (Vb w3 !! p) (B0 !! p)).
  Proof.
    intros HI Hnlp Hne Hcur Hfi Hpar0 r w1 ops w2 Hrun Hgood.
    destruct (rebase_ok w p HI Hne Hcur Hfi Hpar0) as (Hwf' & Hlinks' & Hsmall').
    destruct (force_backup_specS w p HI Hnlp Hne Hcur Hfi Hpar0)
      as (r' & w1' & Hrun' & _ & _ & HI1 & _ & _ & _ & _ & Hrec).
    rewrite Hrun in Hrun'. injection Hrun' as <- <-.
    pose proof (good_run_inv base backup Vb Vk tnb tnk accb acck rhb rhk whb whk hid anc _
                  HLb HLb2 HLk Hlinks' Hsmall' Hwf' w1 ops w2 Hgood HI1) as HI2.
    destruct (rollback_spec base backup Vb Vk tnb tnk accb acck rhb rhk whb whk hid anc _
                HLb HLk Hlinks' Hsmall' Hwf' (loc_ok_rebase w p HI) w2 HI2) as (w3 & Hrb & _ & Hb & Hk & Hi).
    assert (Hp : sonode_eqv (Vb w3 !! p) (Vb w !! p)).
    { pose proof (Hb p Hne) as E. rewrite rebase_at in E. exact E. }
    exists w3. split; [exact Hrb |]. split; [exact Hp |].
    split; [| split; [exact Hk | split; [exact Hi |]]].
    - intros q Hqp Hqr. pose proof (Hb q Hqr) as E. rewrite rebase_ne in E by exact Hqp. exact E.
    - (* a failed call lost the original of [p] only if it was tracked as existing *)
      intros Hr Hnt. destruct (w_infos w !! p) as [[fi|]|] eqn:Hip.
      + contradiction (Hnt fi). reflexivity.
      + destruct (Hrec Hr eq_refl) as [_ Hcn]. rewrite Hcn in Hp.
        rewrite (inv_none _ _ _ _ HI p Hip). exact Hp.
      + eapply sonode_eqv_trans; [exact Hp | exact (inv_untracked _ _ _ _ HI p Hip)].
  Qed.
End Force.

(* ------------------------------------------------------------------ *)
(** * The theorems, fully quantified *)

Definition force_backup_stmt (base backup : fsapi) (Vb Vk : world -> store)
           (tnb tnk : str -> str) (accb acck : str -> str -> Prop)
           (rhb rhk whb whk : fhandle -> str -> nat -> Prop) (hid anc : str -> Prop) (B0 : store) : Prop :=
  base_laws base Vb Vk tnb accb rhb whb hid anc -> backup_laws backup Vb Vk tnk acck rhk whk ->
  links_ok tnb tnk accb acck B0 -> all_small B0 -> swf B0 ->
  forall w p, Inv Vb Vk B0 w -> snolinkpar (Vb w) p -> p <> s_root ->
  entry_ok tnb tnk accb acck p (Vb w !! p) -> orig_not_dir_cond w p ->
  parents_original Vb B0 w p ->
  let B0' := rebase B0 p (Vb w !! p) in
  swf B0' /\ links_ok tnb tnk accb acck B0' /\ all_small B0' /\
  exists r w', b_force_backup base backup p w = (r, w') /\ r <> MHalt /\ Vb w' = Vb w /\
               Inv Vb Vk B0' w' /\
               (forall q, q <> p -> w_infos w !! q <> None -> w_infos w' !! q = w_infos w !! q) /\
               (forall q, w_infos w' !! q <> None -> w_infos w !! q <> None \/ In q (cands p)) /\
               (r = MOk tt ->
                  Forall (tracked w') (ancestors p) /\
                  match Vb w !! p with
                  | None => w_infos w' !! p = Some None
                  | Some n => exists fi, w_infos w' !! p = Some (Some fi) /\ info_matches fi n
                  end) /\
               ((forall q n, In q (ancestors p) -> Vb w !! q = Some n -> node_kind n = KDir) ->
                r = MOk tt) /\
               (r <> MOk tt -> w_infos w !! p = Some None ->
                w_infos w' !! p = Some None /\ Vb w !! p = None).

Theorem force_backup_spec :
  forall base backup Vb Vk tnb tnk accb acck rhb rhk whb whk hid anc B0,
  force_backup_stmt base backup Vb Vk tnb tnk accb acck rhb rhk whb whk hid anc B0.
Proof.
  intros base backup Vb Vk tnb tnk accb acck rhb rhk whb whk hid anc B0.
  unfold force_backup_stmt. intros HLb HLk Hlinks Hsmall HwfB0 w p HI Hnlp Hne Hcur Hfi Hpar0.
  cbv zeta.
  destruct (rebase_ok Vb Vk tnb tnk accb acck B0 Hlinks Hsmall HwfB0 w p HI Hne Hcur Hfi Hpar0)
    as (Hwf' & Hlinks' & Hsmall').
  split; [exact Hwf' | split; [exact Hlinks' | split; [exact Hsmall' |]]].
  destruct (force_backup_specS base backup Vb Vk tnb tnk accb acck rhb rhk whb whk hid anc B0
              HLb HLk Hlinks Hsmall HwfB0 w p HI Hnlp Hne Hcur Hfi Hpar0)
    as (r & w' & Hrun & Hnh & HVb & HI' & Hkeep & Hnew & Htr & Hok & Hrec).
  exists r, w'. split; [exact Hrun |]. split; [exact Hnh |]. split; [exact HVb |].
  split; [exact HI' |]. split; [exact Hkeep |]. split; [exact Hnew |].
  split; [| split; [exact Hok | exact Hrec]].
  intros Hr. destruct (Htr Hr) as [Htp Hanc]. split; [exact Hanc |].
  exact (force_backup_entry Vb Vk B0 w w' p HI' Htp).
Qed.

(** ForceBackup of an untracked path *)
Definition force_backup_untracked_stmt (base backup : fsapi) (Vb Vk : world -> store)
           (tnb tnk : str -> str) (accb acck : str -> str -> Prop)
           (rhb rhk whb whk : fhandle -> str -> nat -> Prop) (hid anc : str -> Prop) (B0 : store) : Prop :=
  base_laws base Vb Vk tnb accb rhb whb hid anc -> backup_laws backup Vb Vk tnk acck rhk whk ->
  links_ok tnb tnk accb acck B0 -> all_small B0 -> swf B0 ->
  forall w p, Inv Vb Vk B0 w -> snolinkpar (Vb w) p -> w_infos w !! p = None ->
  exists r w' w1, b_force_backup base backup p w = (r, w') /\
                  same_all Vb Vk w w1 /\ try_backup base backup p w1 = (r, w') /\
                  r <> MHalt /\ Inv Vb Vk B0 w' /\ Vb w' = Vb w /\
                  infos_ext w w' (cands p) /\
                  (r = MOk tt -> tracked w' p /\ Forall (tracked w') (ancestors p)).

Theorem force_backup_untracked_spec :
  forall base backup Vb Vk tnb tnk accb acck rhb rhk whb whk hid anc B0,
  force_backup_untracked_stmt base backup Vb Vk tnb tnk accb acck rhb rhk whb whk hid anc B0.
Proof.
  intros base backup Vb Vk tnb tnk accb acck rhb rhk whb whk hid anc B0.
  unfold force_backup_untracked_stmt. intros HLb HLk Hlinks Hsmall HwfB0 w p HI Hnlp Hi.
  exact (force_backup_untracked_specS base backup Vb Vk tnb tnk accb acck rhb rhk whb whk hid anc B0
           HLb HLk Hlinks Hsmall HwfB0 w p HI Hnlp Hi).
Qed.

(** C17: ForceBackup, then covered operations, then Rollback *)
Definition c17_stmt (base backup : fsapi) (Vb Vk : world -> store)
           (tnb tnk : str -> str) (accb acck : str -> str -> Prop)
           (rhb rhk whb whk : fhandle -> str -> nat -> Prop) (hid anc : str -> Prop) (B0 : store) : Prop :=
  base_laws base Vb Vk tnb accb rhb whb hid anc -> base_laws2 base Vb Vk tnb accb rhb whb ->
  backup_laws backup Vb Vk tnk acck rhk whk ->
  links_ok tnb tnk accb acck B0 -> all_small B0 -> swf B0 -> loc_ok hid anc B0 ->
  forall w p, Inv Vb Vk B0 w -> snolinkpar (Vb w) p -> p <> s_root ->
  entry_ok tnb tnk accb acck p (Vb w !! p) -> orig_not_dir_cond w p ->
  parents_original Vb B0 w p ->
  forall r w1 ops w2,
    b_force_backup base backup p w = (r, w1) -> good_run base backup Vb w1 ops w2 ->
    exists w3, b_rollback base backup w2 = (MOk tt, w3) /\
               sonode_eqv (Vb w3 !! p) (Vb w !! p) /\
               (forall q, q <> p -> q <> s_root -> sonode_eqv (Vb w3 !! q) (B0 !! q)) /\
               (forall q, q <> s_root -> Vk w3 !! q = None) /\ w_infos w3 = ∅ /\
               (r <> MOk tt -> (forall fi, w_infos w !! p <> Some (Some fi)) ->
                sonode_eqv (Vb w3 !! p) (B0 !! p)).

Theorem c17_spec :
  forall base backup Vb Vk tnb tnk accb acck rhb rhk whb whk hid anc B0,
  c17_stmt base backup Vb Vk tnb tnk accb acck rhb rhk whb whk hid anc B0.
Proof.
  intros base backup Vb Vk tnb tnk accb acck rhb rhk whb whk hid anc B0.
  unfold c17_stmt. intros HLb HLb2 HLk Hlinks Hsmall HwfB0 Hloc w p HI Hnlp Hne Hcur Hfi Hpar0.
  exact (c17_specS base backup Vb Vk tnb tnk accb acck rhb rhk whb whk hid anc B0
           HLb HLk Hlinks Hsmall HwfB0 HLb2 Hloc w p HI Hnlp Hne Hcur Hfi Hpar0).
Qed.

(** the same for a whole transaction: initial state, covered operations,
    ForceBackup(p), covered operations, Rollback *)
Definition c17_initial_stmt (base backup : fsapi) (Vb Vk : world -> store)
           (tnb tnk : str -> str) (accb acck : str -> str -> Prop)
           (rhb rhk whb whk : fhandle -> str -> nat -> Prop) (hid anc : str -> Prop) (B0 : store) : Prop :=
  base_laws base Vb Vk tnb accb rhb whb hid anc -> base_laws2 base Vb Vk tnb accb rhb whb ->
  backup_laws backup Vb Vk tnk acck rhk whk -> all_small B0 ->
  forall w0 ops1 w p, initial Vb Vk tnb tnk accb acck B0 w0 -> good_run base backup Vb w0 ops1 w ->
  snolinkpar (Vb w) p -> p <> s_root ->
  entry_ok tnb tnk accb acck p (Vb w !! p) -> orig_not_dir_cond w p ->
  parents_original Vb B0 w p ->
  forall r w1 ops2 w2,
    b_force_backup base backup p w = (r, w1) -> good_run base backup Vb w1 ops2 w2 ->
    exists w3, b_rollback base backup w2 = (MOk tt, w3) /\
               sonode_eqv (Vb w3 !! p) (Vb w !! p) /\
               (forall q, q <> p -> q <> s_root -> sonode_eqv (Vb w3 !! q) (Vb w0 !! q)) /\
               (forall q, q <> s_root -> Vk w3 !! q = None) /\ w_infos w3 = ∅ /\
               (r <> MOk tt -> (forall fi, w_infos w !! p <> Some (Some fi)) ->
                sonode_eqv (Vb w3 !! p) (Vb w0 !! p)).

Theorem c17_initial_spec :
  forall base backup Vb Vk tnb tnk accb acck rhb rhk whb whk hid anc B0,
  c17_initial_stmt base backup Vb Vk tnb tnk accb acck rhb rhk whb whk hid anc B0.
Proof.
  intros base backup Vb Vk tnb tnk accb acck rhb rhk whb whk hid anc B0.
  unfold c17_initial_stmt.
  intros HLb HLb2 HLk Hsmall w0 ops1 w p Hinit Hrun1 Hnlp Hne Hcur Hfi Hpar0.
  pose proof Hinit as (_ & _ & HV0 & HwfB & Hlinks & _ & _).
  pose proof (initial_inv_spec Vb Vk tnb tnk accb acck B0 w0 Hinit) as HI0.
  pose proof (good_run_inv base backup Vb Vk tnb tnk accb acck rhb rhk whb whk hid anc B0
                HLb HLb2 HLk Hlinks Hsmall HwfB w0 ops1 w Hrun1 HI0) as HI.
  rewrite HV0.
  exact (c17_specS base backup Vb Vk tnb tnk accb acck rhb rhk whb whk hid anc B0
           HLb HLk Hlinks Hsmall HwfB HLb2
           (initial_loc_ok base Vb Vk tnb tnk accb acck rhb whb hid anc B0 HLb w0 Hinit)
           w p HI Hnlp Hne Hcur Hfi Hpar0).
Qed.

(** a ForceBackup that failed: the transaction stays intact; the original of
    [p] is lost (replaced by the current entry) only if [p] was tracked as
    existing - the old copy is dropped before the new one is attempted *)
Definition c17_failed_stmt (base backup : fsapi) (Vb Vk : world -> store)
           (tnb tnk : str -> str) (accb acck : str -> str -> Prop)
           (rhb rhk whb whk : fhandle -> str -> nat -> Prop) (hid anc : str -> Prop) (B0 : store) : Prop :=
  base_laws base Vb Vk tnb accb rhb whb hid anc -> base_laws2 base Vb Vk tnb accb rhb whb ->
  backup_laws backup Vb Vk tnk acck rhk whk ->
  links_ok tnb tnk accb acck B0 -> all_small B0 -> swf B0 -> loc_ok hid anc B0 ->
  forall w p, Inv Vb Vk B0 w -> snolinkpar (Vb w) p -> p <> s_root ->
  entry_ok tnb tnk accb acck p (Vb w !! p) -> orig_not_dir_cond w p ->
  parents_original Vb B0 w p ->
  forall e w1 ops w2,
    b_force_backup base backup p w = (MErr e, w1) -> good_run base backup Vb w1 ops w2 ->
    exists w3, b_rollback base backup w2 = (MOk tt, w3) /\
               (forall q, q <> p -> q <> s_root -> sonode_eqv (Vb w3 !! q) (B0 !! q)) /\
               sonode_eqv (Vb w3 !! p) (Vb w !! p) /\
               ((forall fi, w_infos w !! p <> Some (Some fi)) -> sonode_eqv (Vb w3 !! p) (B0 !! p)) /\
               (forall q, q <> s_root -> Vk w3 !! q = None) /\ w_infos w3 = ∅.

Theorem c17_failed_spec :
  forall base backup Vb Vk tnb tnk accb acck rhb rhk whb whk hid anc B0,
  c17_failed_stmt base backup Vb Vk tnb tnk accb acck rhb rhk whb whk hid anc B0.
Proof.
  intros base backup Vb Vk tnb tnk accb acck rhb rhk whb whk hid anc B0.
  unfold c17_failed_stmt.
  intros HLb HLb2 HLk Hlinks Hsmall HwfB0 Hloc w p HI Hnlp Hne Hcur Hfi Hpar0 e w1 ops w2 Hrun Hgood.
  destruct (c17_specS base backup Vb Vk tnb tnk accb acck rhb rhk whb whk hid anc B0
              HLb HLk Hlinks Hsmall HwfB0 HLb2 Hloc w p HI Hnlp Hne Hcur Hfi Hpar0
              (MErr e) w1 ops w2 Hrun Hgood) as (w3 & Hrb & Hp & Hq & Hk & Hi & Hf).
  exists w3. split; [exact Hrb |]. split; [exact Hq |]. split; [exact Hp |].
  split; [| split; [exact Hk | exact Hi]].
  apply Hf. discriminate.
Qed.

Print Assumptions force_backup_spec.
Print Assumptions force_backup_untracked_spec.
Print Assumptions c17_spec.
Print Assumptions c17_initial_spec.
Print Assumptions c17_failed_spec.
