(** Non-vacuity of the concrete theorems of Proofs/LawsOsfs.v.

    [c01_concrete] (and [c02_concrete], [c17_concrete]) quantify over worlds
    [w0] that are [initial] and over histories that are [good_run]s.  This file
    exhibits a non-trivial instance: base = PrefixFS("/base"), backup =
    PrefixFS("/backup") over one OS filesystem holding a setuid file, a
    directory with a file in it and a relative symlink; a history of nine
    operations of eight kinds (all returning nil).  The hypotheses of
    [c01_concrete] are proved for it by boolean reflection ([coveredb],
    [kind_stableb], [links_okb], ... evaluated by [vm_compute]); its conclusion
    is obtained by *applying the theorem* ([c01_concrete_instance]) and, a
    second time, by *running the model* ([c01_concrete_by_computation]): the
    theorem and the executable model agree on this instance.  The same run
    instantiates [c02_concrete]; continued with ForceBackup of a path created
    in the transaction, four more operations and Rollback it instantiates
    [c17_concrete] ([c17_concrete_instance], [c17_concrete_by_computation]).

    Part 1 (reflection) is generic: sound (not complete) boolean versions of
    [covered], [kind_stable], [links_ok], [all_small], [initial] over a finite
    view, and of a whole [good_run].  Part 2 is the instance. *)
From stdpp Require Import gmap.
From BFS Require Import Spec.CopySpecs Spec.ViewOsfs.
From BFS Require Import Proofs.LawsOsfsBase Proofs.LawsOsfs.
From BFS Require Import Proofs.BackupCopy Proofs.BackupTry Proofs.BackupRollback Proofs.BackupC01
                        Proofs.BackupForce.
Open Scope N_scope.

(* ------------------------------------------------------------------ *)
(** * 1. Boolean reflection of the side conditions on a finite view *)

(** a boolean check that holds of every entry of the computed list of
    entries holds of every entry of the map *)
Lemma gmap_forallb {A : Type} (m : gmap str A) (chk : str * A -> bool) :
  forallb chk (map_to_list m) = true -> forall p x, m !! p = Some x -> chk (p, x) = true.
Proof.
  intros H p x Hp. rewrite forallb_forall in H. apply H.
  apply elem_of_list_In. apply elem_of_map_to_list. exact Hp.
Qed.

Definition notlinkb (s : store) (a : str) : bool :=
  match s !! a with Some (Link _ _) => false | _ => true end.

Lemma notlinkb_sound (s : store) (a : str) : notlinkb s a = true -> snotlink s a.
Proof. intros H m t E. unfold notlinkb in H. rewrite E in H. discriminate H. Qed.

Definition abs_cleanedb (p : str) : bool := cleanedb p && is_abs p.

Lemma abs_cleanedb_sound (p : str) : abs_cleanedb p = true -> abs_cleaned p.
Proof.
  unfold abs_cleanedb. rewrite andb_true_iff. intros [Hc Ha].
  split; [apply cleanedb_iff; exact Hc | exact Ha].
Qed.

Definition snolinkparb (s : store) (n : str) : bool :=
  abs_cleanedb n && forallb (notlinkb s) (ancestors n).

Lemma snolinkparb_sound (s : store) (n : str) : snolinkparb s n = true -> snolinkpar s n.
Proof.
  unfold snolinkparb. rewrite andb_true_iff. intros [Hac Hf]. split.
  - apply abs_cleanedb_sound. exact Hac.
  - apply List.Forall_forall. intros a Ha. apply notlinkb_sound.
    rewrite forallb_forall in Hf. exact (Hf a Ha).
Qed.

Definition no_childrenb (s : store) (p : str) : bool :=
  forallb (fun kv : str * node =>
             str_eqb (fst kv) p || negb (existsb (str_eqb p) (ancestors (fst kv))))
          (map_to_list s).

Lemma no_childrenb_sound (s : store) (p : str) : no_childrenb s p = true -> no_children s p.
Proof.
  intros H q n Hq Hne Hin.
  pose proof (gmap_forallb s _ H q n Hq) as C. cbv beta in C. simpl fst in C.
  apply orb_true_iff in C. destruct C as [C | C].
  - apply str_eqb_eq in C. contradiction.
  - apply negb_true_iff in C.
    assert (E : existsb (str_eqb p) (ancestors q) = true).
    { apply existsb_exists. exists p. split; [exact Hin | apply str_eqb_refl]. }
    rewrite E in C. discriminate C.
Qed.

Definition simple_opb (o : op) : bool :=
  match o with
  | OForceBackup _ | ORealPath _ | ORollback | OPersist
  | OExtWrite _ _ | OExtMkdirAll _ | OExtRemoveAll _ | OExtSymlink _ _ => false
  | _ => true
  end.

Lemma simple_opb_sound (o : op) : simple_opb o = true -> simple_op o.
Proof. destruct o; intro H; try discriminate H; constructor. Qed.

Definition rename_leafb (s : store) (o : op) : bool :=
  match o with ORename old _ => no_childrenb s old | _ => true end.

Definition not_rootb (o : op) : bool :=
  match o with ORemoveAll n | ORemove n => negb (str_eqb n s_root) | _ => true end.

(** [covered] of Spec/Inv.v, as a boolean function of the current base view *)
Definition coveredb (s : store) (o : op) : bool :=
  simple_opb o && forallb (snolinkparb s) (op_names o) &&
  (negb (follows o) || forallb (notlinkb s) (op_names o)) &&
  rename_leafb s o && not_rootb o.

Lemma coveredb_sound (Vb : world -> store) (o : op) (w : world) :
  coveredb (Vb w) o = true -> covered Vb o w.
Proof.
  unfold coveredb. rewrite !andb_true_iff. intros [[[[H1 H2] H3] H4] H5].
  split; [| split; [| split; [| split]]].
  - apply simple_opb_sound. exact H1.
  - apply List.Forall_forall. intros n Hn. unfold resolved. apply snolinkparb_sound.
    rewrite forallb_forall in H2. exact (H2 n Hn).
  - intros Hf. rewrite Hf in H3. simpl in H3.
    apply List.Forall_forall. intros n Hn. apply notlinkb_sound.
    rewrite forallb_forall in H3. exact (H3 n Hn).
  - destruct o; try exact I. simpl in H4 |- *. apply no_childrenb_sound. exact H4.
  - destruct o; try exact I; simpl in H5 |- *; apply negb_true_iff in H5;
      apply str_eqb_neq; exact H5.
Qed.

Definition kind_eqb (a b : kind) : bool :=
  match a, b with KDir, KDir | KFile, KFile | KLink, KLink => true | _, _ => false end.

Lemma kind_eqb_eq (a b : kind) : kind_eqb a b = true -> a = b.
Proof. destruct a, b; intro H; try discriminate H; reflexivity. Qed.

(** [kind_stable] of Spec/Inv.v, as a boolean function of view and bookkeeping *)
Definition kind_stableb (s : store) (i : infomap) : bool :=
  forallb (fun kv : str * option finfo =>
             snolinkparb s (fst kv) &&
             match snd kv, s !! fst kv with
             | Some fi, Some n => kind_eqb (node_kind n) (fi_kind fi)
             | _, _ => true
             end)
          (map_to_list i).

Lemma kind_stableb_sound (Vb : world -> store) (w : world) :
  kind_stableb (Vb w) (w_infos w) = true -> kind_stable Vb w.
Proof.
  intros H. split.
  - intros p fi n Hi Hn. pose proof (gmap_forallb _ _ H p (Some fi) Hi) as C.
    cbv beta in C. simpl fst in C. simpl snd in C.
    apply andb_true_iff in C. destruct C as [_ C]. rewrite Hn in C.
    apply kind_eqb_eq. exact C.
  - intros p Hp. destruct (w_infos w !! p) as [x|] eqn:E; [| contradiction Hp; reflexivity].
    pose proof (gmap_forallb _ _ H p x E) as C. cbv beta in C. simpl fst in C.
    apply andb_true_iff in C. destruct C as [C _]. apply snolinkparb_sound. exact C.
Qed.

(** a whole run: the worlds the model computes, and the check that every step
    is covered and ends in a kind-stable state *)
Section RunReflect.
  Variables base backup : fsapi.
  Variable Vb : world -> store.

  Fixpoint run_worlds (ops : list op) (w : world) : world :=
    match ops with
    | [] => w
    | o :: r => run_worlds r (snd (step base backup o w))
    end.

  Fixpoint run_okb (ops : list op) (w : world) : bool :=
    match ops with
    | [] => true
    | o :: r =>
        let w1 := snd (step base backup o w) in
        coveredb (Vb w) o && kind_stableb (Vb w1) (w_infos w1) && run_okb r w1
    end.

  Lemma good_run_reflect (ops : list op) (w : world) :
    run_okb ops w = true -> good_run base backup Vb w ops (run_worlds ops w).
  Proof.
    revert w. induction ops as [| o r IH]; intros w H.
    - apply gr_nil.
    - simpl in H. rewrite !andb_true_iff in H. destruct H as [[Hc Hk] Hr].
      apply (gr_cons base backup Vb w o r (fst (step base backup o w))
               (snd (step base backup o w)) (run_worlds (o :: r) w)).
      + apply coveredb_sound. exact Hc.
      + apply surjective_pairing.
      + apply kind_stableb_sound. exact Hk.
      + simpl. apply IH. exact Hr.
  Qed.

  (** a history without crash point: [run_ops] ends in [run_worlds] *)
  Lemma run_ops_worlds (ops : list op) (w : world) :
    Forall (fun r => r <> MHalt) (fst (run_ops base backup ops w)) ->
    snd (run_ops base backup ops w) = run_worlds ops w.
  Proof.
    revert w. induction ops as [| o r IH]; intros w H; [reflexivity|].
    simpl in H |- *. destruct (step base backup o w) as [x w1] eqn:E. simpl snd.
    specialize (IH w1).
    destruct x as [v | e |];
      try (destruct (run_ops base backup r w1) as [xs w2] eqn:E2; simpl in H |- *;
           apply IH; inversion H; assumption).
    simpl in H. inversion H as [| ? ? Hh _]. contradiction Hh. reflexivity.
  Qed.

  Definition not_haltb {A : Type} (r : mres A) : bool :=
    match r with MHalt => false | _ => true end.

  (** the same with the world [run_ops] ends in *)
  Lemma good_run_ops_reflect (ops : list op) (w : world) :
    run_okb ops w = true -> forallb not_haltb (fst (run_ops base backup ops w)) = true ->
    good_run base backup Vb w ops (snd (run_ops base backup ops w)).
  Proof.
    intros H Hh. rewrite run_ops_worlds; [apply good_run_reflect; exact H |].
    apply List.Forall_forall. intros r Hr. rewrite forallb_forall in Hh.
    specialize (Hh r Hr). intros ->. discriminate Hh.
  Qed.
End RunReflect.

(** for a layering: [run_history c] is [run_ops (cfg_base c) (cfg_backup c)] *)
Lemma good_run_history_reflect (c : config) (Vb : world -> store) (ops : list op) (w : world) :
  run_okb (cfg_base c) (cfg_backup c) Vb ops w = true ->
  forallb not_haltb (fst (run_history c ops w)) = true ->
  good_run (cfg_base c) (cfg_backup c) Vb w ops (snd (run_history c ops w)).
Proof. exact (good_run_ops_reflect (cfg_base c) (cfg_backup c) Vb ops w). Qed.

(** [links_ok], [all_small], "nothing but the root" *)
Definition links_okb (pa pb : str) (s : store) : bool :=
  forallb (fun kv : str * node =>
             match snd kv with
             | Link m t =>
                 str_eqb (clean t) t && negb (str_eqb t []) && is_abs (fst kv) &&
                 sym_accb pa t (fst kv) && sym_accb pb t (fst kv) && N.eqb (m_perm m) 511
             | _ => true
             end)
          (map_to_list s).

Lemma links_okb_sound (pa pb : str) (s : store) :
  prefix_ok pa -> prefix_ok pb -> links_okb pa pb s = true ->
  links_ok clean clean (acc_p pa) (acc_p pb) s.
Proof.
  intros Ha Hb H p m t Hp. pose proof (gmap_forallb s _ H p (Link m t) Hp) as C.
  cbv beta in C. simpl fst in C. simpl snd in C. rewrite !andb_true_iff in C.
  destruct C as [[[[[C1 C2] C3] C4] C5] C6].
  apply str_eqb_eq in C1. apply negb_true_iff in C2. apply str_eqb_neq in C2.
  apply N.eqb_eq in C6.
  split; [exact C1 | split; [exact C1 | split; [exact C2 | split; [| split; [| exact C6]]]]].
  - apply (acc_p_iff pa t p Ha C3). exact C4.
  - apply (acc_p_iff pb t p Hb C3). exact C5.
Qed.

Lemma smallb_sound (c : list N) : Nat.ltb (length c) chunk_size = true -> small c.
Proof.
  intros C. apply Nat.ltb_lt in C.
  unfold small. eapply Nat.lt_le_trans; [exact C|].
  rewrite <- (Nat.mul_1_r chunk_size) at 1. apply Nat.mul_le_mono_l.
  apply Nat.leb_le. reflexivity.
Qed.

Definition sdirb (s : store) (a : str) : bool :=
  match s !! a with Some (Dir _) => true | _ => false end.

Lemma sdirb_sound (s : store) (a : str) : sdirb s a = true -> sdir s a.
Proof.
  unfold sdirb, sdir. destruct (s !! a) as [[m | m c | m t] |]; intro H; try discriminate H.
  exists m. reflexivity.
Qed.

Definition sdirectb (s : store) (p : str) : bool :=
  abs_cleanedb p && forallb (sdirb s) (ancestors p).

Lemma sdirectb_sound (s : store) (p : str) : sdirectb s p = true -> sdirect s p.
Proof.
  unfold sdirectb. rewrite andb_true_iff. intros [Hac Hf]. split.
  - apply abs_cleanedb_sound. exact Hac.
  - apply List.Forall_forall. intros a Ha. apply sdirb_sound.
    rewrite forallb_forall in Hf. exact (Hf a Ha).
Qed.

Definition all_smallb (s : store) : bool :=
  forallb (fun kv : str * node =>
             match snd kv with File _ c => Nat.ltb (length c) chunk_size | _ => true end)
          (map_to_list s).

Lemma all_smallb_sound (s : store) : all_smallb s = true -> all_small s.
Proof.
  intros H p m c Hp. pose proof (gmap_forallb s _ H p (File m c) Hp) as C.
  cbv beta in C. simpl snd in C. apply smallb_sound. exact C.
Qed.

Definition only_rootb (s : store) : bool :=
  forallb (fun kv : str * node => str_eqb (fst kv) s_root) (map_to_list s).

Lemma only_rootb_sound (s : store) :
  only_rootb s = true -> forall p, p <> s_root -> s !! p = None.
Proof.
  intros H p Hne. destruct (s !! p) as [n|] eqn:E; [| reflexivity].
  pose proof (gmap_forallb s _ H p n E) as C. cbv beta in C. simpl fst in C.
  apply str_eqb_eq in C. contradiction.
Qed.

(** the state in which a transaction begins, for the concrete layering *)
Definition initialb (pa pb : str) (w : world) : bool :=
  world_okb pa (st_fs (w_st w)) && world_okb pb (st_fs (w_st w)) &&
  links_okb pa pb (Vp pa w) && only_rootb (Vp pb w).

Lemma initialb_sound (pa pb : str) (w : world) :
  prefix_ok pa -> prefix_ok pb ->
  w_crash w = None -> w_faults w = [] -> w_infos w = ∅ ->
  initialb pa pb w = true ->
  initial (Vp pa) (Vp pb) clean clean (acc_p pa) (acc_p pb) (Vp pa w) w.
Proof.
  intros Ha Hb Hc Hf Hi H. unfold initialb in H. rewrite !andb_true_iff in H.
  destruct H as [[[H1 H2] H3] H4].
  split; [split; assumption |]. split; [exact Hi |]. split; [reflexivity |].
  split; [apply (swf_Vp_iff pa w Ha); exact H1 |].
  split; [apply links_okb_sound; assumption |].
  split; [apply only_rootb_sound; exact H4 |].
  apply (swf_Vp_iff pb w Hb). exact H2.
Qed.

(* ------------------------------------------------------------------ *)
(** * 2. The instance *)

(** "/base", "/backup" *)
Definition pa : str := [47;98;97;115;101].
Definition pb : str := [47;98;97;99;107;117;112].

Lemma pa_ok : prefix_ok pa.
Proof. split; [apply abs_cleanedb_sound; vm_compute; reflexivity | intro H; discriminate H]. Qed.
Lemma pb_ok : prefix_ok pb.
Proof. split; [apply abs_cleanedb_sound; vm_compute; reflexivity | intro H; discriminate H]. Qed.
Lemma pab_disjoint : disjoint_prefixes pa pb.
Proof. split; vm_compute; reflexivity. Qed.

(** the initial world:
<<
      /                 drwxr-xr-x 0:0
      /base             drwxr-xr-x 0:0
      /backup           drwx------ 0:0
      /base/f           -rwsr-xr-x 1000:1000 (04755)  "hello"
      /base/d           drwxr-xr-x 1000:1000
      /base/d/g         -rw-r--r-- 1000:1000          "gg"
      /base/l           lrwxrwxrwx 1000:1000          -> f
>> *)
Definition w0 : world :=
  let w := init_dir init_world [47] 493 0 0 1 in
  let w := init_dir w pa 493 0 0 2 in
  let w := init_dir w pb 448 0 0 3 in
  let w := init_file w (pa ++ [47;102]) 2541 1000 1000 10 [104;101;108;108;111] in
  let w := init_dir w (pa ++ [47;100]) 493 1000 1000 11 in
  let w := init_file w (pa ++ [47;100;47;103]) 420 1000 1000 12 [103;103] in
  init_link w (pa ++ [47;108]) 1000 1000 13 [102].

(** the base view when the transaction begins *)
Definition B0 : store := Vp pa w0.

(** what it contains: "/", "/d", "/f", "/d/g", "/l" -> "f" *)
Example B0_entries :
  map_to_list B0 =
    [([47], Dir (mkMeta 493 0 0 (Preset 2)));
     ([47;100], Dir (mkMeta 493 1000 1000 (Preset 11)));
     ([47;102], File (mkMeta 2541 1000 1000 (Preset 10)) [104;101;108;108;111]);
     ([47;100;47;103], File (mkMeta 420 1000 1000 (Preset 12)) [103;103]);
     ([47;108], Link (mkMeta 511 1000 1000 (Preset 13)) [102])].
Proof. vm_compute. reflexivity. Qed.

Lemma w0_initial : initial (Vp pa) (Vp pb) clean clean (acc_p pa) (acc_p pb) B0 w0.
Proof.
  apply (initialb_sound pa pb w0 pa_ok pb_ok);
    [reflexivity | reflexivity | reflexivity | vm_compute; reflexivity].
Qed.

Lemma B0_small : all_small B0.
Proof. apply all_smallb_sound. vm_compute. reflexivity. Qed.

(** the history (names are paths of the base view, i.e. below /base):
      Chmod("/f", 0600)            a setuid file loses its special bit
      Create("/d/new") + write "x"
      Remove("/d/g")
      MkdirAll("/n1/n2", 0755)     two missing levels
      Rename("/f", "/f2")
      Symlink("f2", "/l2")
      Remove("/l")                 a symlink
      Chown("/d", 1001, 1001)
      RemoveAll("/d")              a directory with content *)
Definition ops : list op :=
  [OChmod [47;102] 384;
   OCreate [47;100;47;110;101;119] [120];
   ORemove [47;100;47;103];
   OMkdirAll [47;110;49;47;110;50] 493;
   ORename [47;102] [47;102;50];
   OSymlink [102;50] [47;108;50];
   ORemove [47;108];
   OChown [47;100] 1001 1001;
   ORemoveAll [47;100]].

Notation cbase := (cfg_base (gcfg pa pb)).
Notation cbackup := (cfg_backup (gcfg pa pb)).

(** the world the model computes *)
Definition w : world := snd (run_history (gcfg pa pb) ops w0).

(** every operation returns nil *)
Example ops_results : fst (run_history (gcfg pa pb) ops w0) = repeat (MOk ObUnit) 9.
Proof. vm_compute. reflexivity. Qed.

(** what the base view, the backup view and the bookkeeping look like after
    the history (before Rollback): the base has lost /f, /d, /l and gained
    /f2 (mode 0600), /l2, /n1, /n1/n2; the backup holds the originals *)
Example w_base_view :
  map fst (map_to_list (Vp pa w)) =
    [[47]; [47;110;49]; [47;102;50]; [47;108;50]; [47;110;49;47;110;50]].
Proof. vm_compute. reflexivity. Qed.

Example w_backup_view :
  map fst (map_to_list (Vp pb w)) = [[47]; [47;100]; [47;102]; [47;100;47;103]; [47;108]].
Proof. vm_compute. reflexivity. Qed.

Lemma ops_run_ok : run_okb cbase cbackup (Vp pa) ops w0 = true.
Proof. vm_compute. reflexivity. Qed.

Lemma ops_no_halt : forallb not_haltb (fst (run_history (gcfg pa pb) ops w0)) = true.
Proof. vm_compute. reflexivity. Qed.

Lemma ops_good_run : good_run cbase cbackup (Vp pa) w0 ops w.
Proof. exact (good_run_history_reflect (gcfg pa pb) (Vp pa) ops w0 ops_run_ok ops_no_halt). Qed.

(** ** C01 on the instance: by the theorem ... *)
Example c01_concrete_instance :
  exists w', b_rollback cbase cbackup w = (MOk tt, w') /\
             store_eqv (Vp pa w') B0 /\ (forall p, p <> s_root -> Vp pb w' !! p = None) /\
             w_infos w' = ∅.
Proof.
  exact (c01_concrete pa pb pa_ok pb_ok pab_disjoint B0 B0_small w0 ops w w0_initial ops_good_run).
Qed.

(** ** ... and by running the model *)

(** nodes up to what [snode_eqv] exempts: timestamps of directories and links *)
Definition erase_mt (n : node) : node :=
  match n with
  | Dir m => Dir (mkMeta (m_perm m) (m_uid m) (m_gid m) (Preset 0))
  | Link m t => Link (mkMeta (m_perm m) (m_uid m) (m_gid m) (Preset 0)) t
  | File m c => File m c
  end.

(** the part of the OS filesystem at and below the key [k] *)
Definition region (k : key) (x : world) : list (key * node) :=
  map (fun kv => (fst kv, erase_mt (snd kv)))
      (List.filter (fun kv : key * node => key_prefixb k (fst kv)) (dump_fs x)).

Definition view_erased (s : store) : list (str * node) :=
  map (fun kv => (fst kv, erase_mt (snd kv))) (map_to_list s).

Example c01_concrete_by_computation :
  let '(r, w') := b_rollback cbase cbackup w in
  r = MOk tt /\ w_infos w' = ∅ /\
  (* the OS filesystem below /base and below /backup is as in [w0] *)
  region (comps pa) w' = region (comps pa) w0 /\
  region (comps pb) w' = region (comps pb) w0 /\
  (* the same through the views the theorem speaks about *)
  view_erased (Vp pa w') = view_erased B0 /\
  map fst (map_to_list (Vp pb w')) = [s_root] /\
  (* Rollback did something: before it the regions differed *)
  region (comps pa) w <> region (comps pa) w0.
Proof.
  vm_compute.
  split; [reflexivity | split; [reflexivity | split; [reflexivity | split; [reflexivity |
  split; [reflexivity | split; [reflexivity | intro H; discriminate H]]]]]].
Qed.

(** ** C02 on the same instance: after the nine operations every original is
    intact in the base view or copied at the same path of the backup view *)
Example c02_concrete_instance :
  (forall p n0, B0 !! p = Some n0 -> p <> s_root ->
     sonode_eqv (Vp pa w !! p) (Some n0) \/
     exists nk, Vp pb w !! p = Some nk /\ copy_of n0 nk) /\
  (forall p, p <> s_root -> Vp pb w !! p <> None ->
     exists n0 nk, B0 !! p = Some n0 /\ Vp pb w !! p = Some nk /\ copy_of n0 nk).
Proof.
  exact (c02_concrete pa pb pa_ok pb_ok pab_disjoint B0 B0_small w0 ops w w0_initial ops_good_run).
Qed.

(** ** C17 on the instance.  In the state [w] reached above, ForceBackup("/f2")
    ("/f2": created in the transaction by Rename, mode 0600, content "hello",
    recorded as "did not exist") returns nil; then Create("/f2")+write "zz",
    Chmod("/f2", 0644), Remove("/l2"), Mkdir("/d", 0700); then Rollback. *)
Definition p17 : str := [47;102;50].
Definition r17 : mres unit := fst (b_force_backup cbase cbackup p17 w).
Definition w17 : world := snd (b_force_backup cbase cbackup p17 w).
Definition ops17 : list op :=
  [OCreate p17 [122;122]; OChmod p17 420; ORemove [47;108;50]; OMkdir [47;100] 448].
Definition w17' : world := run_worlds cbase cbackup ops17 w17.

Example force_backup_result :
  r17 = MOk tt /\ fst (run_ops cbase cbackup ops17 w17) = repeat (MOk ObUnit) 4.
Proof. vm_compute. split; reflexivity. Qed.

Lemma w_inv : Inv (Vp pa) (Vp pb) B0 w.
Proof.
  exact (inv_concrete pa pb pa_ok pb_ok pab_disjoint B0 B0_small w0 ops w w0_initial ops_good_run).
Qed.

Lemma p17_entry : Vp pa w !! p17 = Some (File (mkMeta 384 1000 1000 (Preset 10)) [104;101;108;108;111]).
Proof. vm_compute. reflexivity. Qed.

Lemma p17_tracked : w_infos w !! p17 = Some None.
Proof. vm_compute. reflexivity. Qed.

Lemma ops17_run_ok : run_okb cbase cbackup (Vp pa) ops17 w17 = true.
Proof. vm_compute. reflexivity. Qed.

Example c17_concrete_instance :
  exists w3, b_rollback cbase cbackup w17' = (MOk tt, w3) /\
             (* "/f2": as at the moment of the ForceBackup call *)
             sonode_eqv (Vp pa w3 !! p17) (Vp pa w !! p17) /\
             (* every other path: as when the transaction began *)
             (forall q, q <> p17 -> q <> s_root -> sonode_eqv (Vp pa w3 !! q) (B0 !! q)) /\
             (forall q, q <> s_root -> Vp pb w3 !! q = None) /\ w_infos w3 = ∅.
Proof.
  pose proof w0_initial as (_ & _ & _ & HwfB & Hlinks & _ & _).
  destruct (c17_concrete pa pb pa_ok pb_ok pab_disjoint B0 Hlinks B0_small HwfB w p17 w_inv)
    with (r := r17) (w1 := w17) (ops := ops17) (w2 := w17')
    as (w3 & H1 & H2 & H3 & H4 & H5 & _).
  - apply snolinkparb_sound. vm_compute. reflexivity.
  - intro H. discriminate H.
  - rewrite p17_entry. simpl. apply smallb_sound. vm_compute. reflexivity.
  - intros fi H. rewrite p17_tracked in H. discriminate H.
  - intros _ _. apply sdirectb_sound. vm_compute. reflexivity.
  - apply surjective_pairing.
  - exact (good_run_reflect cbase cbackup (Vp pa) ops17 w17 ops17_run_ok).
  - exists w3. split; [exact H1 | split; [exact H2 | split; [exact H3 | split; [exact H4 | exact H5]]]].
Qed.

(** the same by running the model: "/f2" is back with mode 0600 and content
    "hello" (not "zz"/0644, and not absent as when the transaction began);
    everything else is as in [B0] *)
Example c17_concrete_by_computation :
  let '(r, w3) := b_rollback cbase cbackup w17' in
  r = MOk tt /\ w_infos w3 = ∅ /\
  Vp pa w3 !! p17 = Vp pa w !! p17 /\
  view_erased (base.delete p17 (Vp pa w3)) = view_erased B0 /\
  map fst (map_to_list (Vp pb w3)) = [s_root].
Proof.
  vm_compute.
  split; [reflexivity | split; [reflexivity | split; [reflexivity | split; reflexivity]]].
Qed.

Print Assumptions c01_concrete_instance.
Print Assumptions c01_concrete_by_computation.
Print Assumptions c02_concrete_instance.
Print Assumptions c17_concrete_instance.
Print Assumptions c17_concrete_by_computation.
