(** Laws of Spec/Laws.v for the concrete layered model, part A: the reading
    calls, the handle operations and the precise calls copies are made of
    (all but the ones already proved as examples in Proofs/LawsOsfsBase.v and
    the Remove / RemoveAll / user_* laws of Proofs/LawsOsfsB.v).

    Every lemma [osfs_law_X] is the field [law_X] of [api_laws] for
    [a := the_api tag pa], [V := Vp pa], [V' := Vp pb], [tnorm := clean],
    [accepts := acc_p pa], [rh := rh_p tag pa], [wh := wh_p tag pa], with
    exactly the hypotheses of the field. *)
From stdpp Require Import gmap.
From BFS Require Export Proofs.LawsOsfsBase.
Local Open Scope nat_scope.

Section LawsA.
  Variable tag : fstag.
  Variables pa pb : str.
  Hypothesis Ha : prefix_ok pa.
  Hypothesis Hb : prefix_ok pb.
  Hypothesis Hd : disjoint_prefixes pa pb.
  Notation A := (the_api tag pa).
  Notation V := (Vp pa).
  Notation V' := (Vp pb).

  (* ---------------------------------------------------------------- *)
  (** ** helpers *)

  (** a call that left the state alone *)
  Lemma step_same : forall m p p2 e w,
    V (after tag m p p2 e w (w_st w)) = V w /\ same_rest V' w (after tag m p p2 e w (w_st w)).
  Proof. intros m p p2 e w. split; [apply Vp_after_same | apply same_rest_after_same]. Qed.

  (** a present entry of the view, in the world *)
  Lemma present_inv : forall w p n, V w !! p = Some n ->
    world_okb pa (st_fs (w_st w)) = true /\ abs_cleaned p /\
    exists nd, st_fs (w_st w) !! wkey pa p = Some nd /\ n = vnode pa nd /\
               direct (st_fs (w_st w)) (wpath pa p).
  Proof.
    intros w p n Hl. destruct (Vp_lookup_Some_inv pa w p n Hl) as (Hok & Hac & nd & Hnd & En).
    split; [exact Hok|]. split; [exact Hac|]. exists nd. split; [exact Hnd|]. split; [exact En|].
    exact (present_direct pa _ p nd Ha Hok (proj2 Hac) Hnd).
  Qed.

  Lemma not_link_at_present : forall (f : fs) k nd,
    f !! k = Some nd -> (forall m t, nd <> Link m t) -> not_link_at f k.
  Proof. intros f k nd H Hn m t E. norm_keys. rewrite H in E. injection E as E. exact (Hn m t E). Qed.

  Lemma not_link_at_absent : forall (f : fs) k, f !! k = None -> not_link_at f k.
  Proof. intros f k H m t E. norm_keys. rewrite H in E. discriminate E. Qed.

  Lemma not_is_link_vnode : forall nd, ~ is_link (vnode pa nd) -> forall m t, nd <> Link m t.
  Proof. intros nd H m t E. apply H. subst nd. exists m, (vtarget pa t). reflexivity. Qed.

  (** the world after replacing the node at [wkey pa p] (the clock may have advanced) *)
  Lemma step_update : forall w p s1 nd n' m p2 e,
    world_okb pa (st_fs (w_st w)) = true -> abs_cleaned p ->
    st_fs s1 = st_fs (w_st w) ->
    st_fs (w_st w) !! wkey pa p = Some nd ->
    (is_dir nd = true -> is_dir n' = true) -> perm12 n' ->
    V (after tag m p p2 e w (update_node s1 (wkey pa p) n')) = <[p := vnode pa n']> (V w) /\
    same_rest V' w (after tag m p p2 e w (update_node s1 (wkey pa p) n')).
  Proof.
    intros w p s1 nd n' m p2 e Hok Hac Es Hnd Hdir Hperm.
    assert (Hok1 : world_okb pa (st_fs s1) = true) by (rewrite Es; exact Hok).
    assert (Hnd1 : st_fs s1 !! wkey pa p = Some nd) by (rewrite Es; exact Hnd).
    assert (Hok' : world_okb pa (st_fs (update_node s1 (wkey pa p) n')) = true).
    { exact (world_okb_update_node pa s1 _ nd n' Hok1 Hnd1 Hdir Hperm). }
    split.
    - rewrite (Vp_after_ok pa _ _ _ _ _ _ _ Hok').
      rewrite (view_update_node pa s1 p n' Ha (world_okb_keys_good _ _ Hok1) Hac).
      rewrite (Vp_ok pa w Hok), Es. reflexivity.
    - apply (same_rest_after pa pb); try assumption.
      pose proof (same_outside_update_node_wkey pa s1 p n') as H. rewrite Es in H. exact H.
  Qed.

  (* ---------------------------------------------------------------- *)
  (** ** the view does not look at BackupFS's bookkeeping *)

  Lemma osfs_law_infos_indep : forall w i, V (with_infos w i) = V w.
  Proof. intros w i. apply Vp_with_infos. Qed.

  (* ---------------------------------------------------------------- *)
  (** ** reading *)

  Lemma osfs_law_readlink : forall w p m t, quiet w -> swf (V w) -> snolinkpar (V w) p -> V w !! p = Some (Link m t) ->
    ok_step V V' (a_readlink A p) w t (V w).
  Proof.
    intros w p m t Hq Hwf Hnl Hl. unfold ok_step.
    destruct (present_inv w p _ Hl) as (Hok & Hac & nd & Hnd & En & Hdir).
    symmetry in En. apply vnode_link_inv in En. destruct En as [t0 [En Et]]. subst nd t.
    rewrite (run_readlink tag pa Ha w Hq p Hac Hdir). norm_keys. rewrite Hnd. cbv beta iota.
    rewrite fin_ok. eexists. split; [reflexivity | apply step_same].
  Qed.

  Lemma osfs_law_open_file : forall w p m c, quiet w -> swf (V w) -> snolinkpar (V w) p -> V w !! p = Some (File m c) ->
    exists h, ok_step V V' (a_open A p) w h (V w) /\ rh_p tag pa h p 0.
  Proof.
    intros w p m c Hq Hwf Hnl Hl. unfold ok_step.
    destruct (present_inv w p _ Hl) as (Hok & Hac & nd & Hnd & En & Hdir).
    symmetry in En. apply vnode_file_inv in En. subst nd.
    assert (Hnlk : not_link_at (st_fs (w_st w)) (wkey pa p)).
    { apply (not_link_at_present _ _ _ Hnd). intros m' t' E. discriminate E. }
    rewrite (run_open tag pa Ha w Hq p Hac Hdir Hnlk). norm_keys. rewrite Hnd. cbv beta iota.
    rewrite finmap_ok. eexists. split.
    - eexists. split; [reflexivity | apply step_same].
    - apply the_handle_rh.
  Qed.

  Lemma osfs_law_open_err : forall w p, quiet w -> swf (V w) -> snolinkpar (V w) p -> V w !! p = None ->
    err_step V V' (a_open A p) w not_found.
  Proof.
    intros w p Hq Hwf Hnl Hl. unfold err_step.
    pose proof (swf_Vp_world_okb pa w Hwf) as Hok.
    pose proof (proj1 Hnl) as Hac.
    rewrite (Vp_ok pa w Hok) in Hnl, Hl.
    destruct (wpath_direct_or_unresolvable pa _ p Ha Hok Hac Hnl) as [Hdir|[Hun Hnone]].
    - pose proof (view_lookup_None_inv pa _ p Hok Hac Hl) as Hnone.
      pose proof (not_link_at_absent _ _ Hnone) as Hnlk.
      rewrite (run_open tag pa Ha w Hq p Hac Hdir Hnlk). norm_keys. rewrite Hnone. cbv beta iota.
      rewrite finmap_err. exists ENOENT. eexists. split; [reflexivity|]. split; [reflexivity|].
      apply step_same.
    - destruct (run_open_unresolvable tag pa Ha w Hq p Hac Hun) as [e [E Hnf]].
      exists e. eexists. split; [exact E|]. split; [exact Hnf | apply step_same].
  Qed.

  Lemma osfs_law_hread : forall w h p pos m c, quiet w -> rh_p tag pa h p pos -> V w !! p = Some (File m c) ->
    match skipn pos c with
    | [] => exists h', ok_step V V' (hread h) w (None, h') (V w)
    | rest => exists h', ok_step V V' (hread h) w (Some (firstn chunk_size rest), h') (V w) /\
                         rh_p tag pa h' p (pos + length (firstn chunk_size rest))
    end.
  Proof.
    intros w h p pos m c Hq Hrh Hl.
    destruct (present_inv w p _ Hl) as (Hok & Hac & nd & Hnd & En & Hdir).
    symmetry in En. apply vnode_file_inv in En. subst nd.
    pose proof (hread_quiet tag pa h p pos w m c Hq Hrh Hnd) as E.
    unfold ok_step. destruct (skipn pos c) as [|x rest].
    - eexists. eexists. split; [exact E | apply step_same].
    - eexists. split.
      + eexists. split; [exact E | apply step_same].
      + apply rh_p_advance. exact Hrh.
  Qed.

  Lemma osfs_law_hstat : forall w h p pos n, quiet w -> rh_p tag pa h p pos -> V w !! p = Some n ->
    exists fi, ok_step V V' (hstat h) w fi (V w) /\ info_matches fi n.
  Proof.
    intros w h p pos n Hq Hrh Hl.
    destruct (present_inv w p _ Hl) as (Hok & Hac & nd & Hnd & En & Hdir).
    destruct Hrh as (H1 & H2 & _).
    eexists. split.
    - unfold ok_step. eexists. split; [exact (hstat_quiet tag pa h p w nd Hq H1 H2 Hnd) | apply step_same].
    - subst n. apply info_matches_vnode. unfold info_matches, info_of. simpl. tauto.
  Qed.

  Lemma osfs_law_hclose_r : forall w h p pos, quiet w -> rh_p tag pa h p pos -> ok_step V V' (hclose h) w tt (V w).
  Proof.
    intros w h p pos Hq Hrh. unfold ok_step. eexists.
    split; [exact (hclose_quiet tag h p w Hq (rh_p_spy _ _ _ _ _ Hrh)) | apply step_same].
  Qed.

  (* ---------------------------------------------------------------- *)
  (** ** the calls copies are made of *)

  Lemma osfs_law_mkdirall_dir : forall w p perm m, quiet w -> swf (V w) -> sdirect (V w) p -> V w !! p = Some (Dir m) ->
    ok_step V V' (a_mkdirall A p perm) w tt (V w).
  Proof.
    intros w p perm m Hq Hwf Hsd Hl. unfold ok_step.
    destruct (present_inv w p _ Hl) as (Hok & Hac & nd & Hnd & En & Hdir).
    symmetry in En. apply vnode_dir_inv in En. subst nd.
    assert (Hnlk : not_link_at (st_fs (w_st w)) (wkey pa p)).
    { apply (not_link_at_present _ _ _ Hnd). intros m' t' E. discriminate E. }
    rewrite (run_mkdirall tag pa Ha w Hq p Hac Hdir perm Hnlk). norm_keys. rewrite Hnd. cbv beta iota.
    rewrite fin_ok. eexists. split; [reflexivity | apply step_same].
  Qed.

  Lemma osfs_law_chtimes : forall w p t n, quiet w -> swf (V w) -> snolinkpar (V w) p -> V w !! p = Some n -> ~ is_link n ->
    ok_step V V' (a_chtimes A p t) w tt (<[ p := with_meta n (set_mt t) ]> (V w)).
  Proof.
    intros w p t n Hq Hwf Hnl Hl Hnlk. unfold ok_step.
    destruct (present_inv w p _ Hl) as (Hok & Hac & nd & Hnd & En & Hdir). subst n.
    pose proof (not_link_at_present _ _ _ Hnd (not_is_link_vnode nd Hnlk)) as Hnl'.
    rewrite (run_chtimes tag pa Ha w Hq p Hac Hdir t Hnl'). norm_keys. rewrite Hnd. cbv beta iota.
    rewrite fin_ok. eexists. split; [reflexivity|].
    rewrite <- vnode_with_meta.
    apply (step_update w p (w_st w) nd _ _ _ _ Hok Hac eq_refl Hnd).
    - unfold with_meta. rewrite is_dir_set_meta. tauto.
    - apply perm12_set_mt. exact (world_okb_perm12 pa _ _ _ Hok Hnd).
  Qed.

  Lemma osfs_law_chown : forall w p u g n, quiet w -> swf (V w) -> snolinkpar (V w) p -> V w !! p = Some n -> ~ is_link n ->
    ok_step V V' (a_chown A p u g) w tt (<[ p := chown_node n u g ]> (V w)).
  Proof.
    intros w p u g n Hq Hwf Hnl Hl Hnlk. unfold ok_step.
    destruct (present_inv w p _ Hl) as (Hok & Hac & nd & Hnd & En & Hdir). subst n.
    pose proof (not_link_at_present _ _ _ Hnd (not_is_link_vnode nd Hnlk)) as Hnl'.
    rewrite (run_chown tag pa Ha w Hq p Hac Hdir u g Hnl'). norm_keys. rewrite Hnd. cbv beta iota.
    rewrite fin_ok. eexists. split; [reflexivity|].
    rewrite <- vnode_chown_node.
    apply (step_update w p (w_st w) nd _ _ _ _ Hok Hac eq_refl Hnd).
    - rewrite is_dir_chown_node. tauto.
    - apply perm12_chown_node. exact (world_okb_perm12 pa _ _ _ Hok Hnd).
  Qed.

  Lemma osfs_law_lchown : forall w p u g n, quiet w -> swf (V w) -> snolinkpar (V w) p -> V w !! p = Some n ->
    ok_step V V' (a_lchown A p u g) w tt (<[ p := chown_node n u g ]> (V w)).
  Proof.
    intros w p u g n Hq Hwf Hnl Hl. unfold ok_step.
    destruct (present_inv w p _ Hl) as (Hok & Hac & nd & Hnd & En & Hdir). subst n.
    rewrite (run_lchown tag pa Ha w Hq p Hac Hdir u g). norm_keys. rewrite Hnd. cbv beta iota.
    rewrite fin_ok. eexists. split; [reflexivity|].
    rewrite <- vnode_chown_node.
    apply (step_update w p (w_st w) nd _ _ _ _ Hok Hac eq_refl Hnd).
    - rewrite is_dir_chown_node. tauto.
    - apply perm12_chown_node. exact (world_okb_perm12 pa _ _ _ Hok Hnd).
  Qed.

  Lemma osfs_law_openfile_new : forall w p perm, quiet w -> swf (V w) -> sdirect (V w) p -> V w !! p = None ->
    exists h m' s', ok_step V V' (a_openfile A p 578 perm) w h s' /\ wh_p tag pa h p 0 /\ s' !! p = Some (File m' []) /\
                    store_eqv_except [p] s' (V w) /\ swf s'.
  Proof.
    intros w p perm Hq Hwf Hsd Hl. unfold ok_step.
    pose proof (swf_Vp_world_okb pa w Hwf) as Hok.
    destruct (sdirect_Vp pa w p Ha Hok Hsd) as [Hac Hdir].
    pose proof (view_lookup_None_inv pa _ p Hok Hac) as Hnone. rewrite <- (Vp_ok pa w Hok) in Hnone.
    specialize (Hnone Hl).
    assert (Hne : p <> s_root).
    { intro E. subst p. rewrite wkey_root in Hnone. destruct (world_okb_prefix_dir _ _ Hok) as [m Hm].
      norm_keys. rewrite Hm in Hnone. discriminate Hnone. }
    assert (Hc : comps (wpath pa p) <> []).
    { rewrite (comps_wpath pa p Ha (proj2 Hac)). apply wkey_nonnil. exact Ha. }
    pose proof (direct_parent_dir _ _ Hdir Hc) as Hpd.
    rewrite (comps_wpath pa p Ha (proj2 Hac)) in Hpd.
    pose proof (not_link_at_absent _ _ Hnone) as Hnlk.
    rewrite (run_openfile_create tag pa Ha w Hq p Hac Hdir perm Hnlk). norm_keys. rewrite Hnone. cbv beta iota.
    rewrite finmap_ok.
    set (mk := fun (t : mtime) (g : N) => File _ []).
    assert (Hok' : world_okb pa (st_fs (add_entry (w_st w) (removelast (wkey pa p)) (last (wkey pa p) []) mk)) = true).
    { apply (world_okb_add_entry_wkey pa (w_st w) p mk Ha Hok Hac Hne Hpd Hnone).
      intros t g. unfold mk. apply perm12_newfile. }
    destruct Hpd as [md Hmd].
    eexists. eexists. eexists. split; [|split; [|split; [|split]]].
    - eexists. split; [reflexivity|]. split; [apply (Vp_after_ok pa _ _ _ _ _ _ _ Hok')|].
      apply (same_rest_after pa pb); try assumption. apply same_outside_add_entry_wkey.
      intro E. apply Hne. apply (abs_cleaned_comps_nil p Hac). exact E.
    - apply the_handle_wh.
    - rewrite (view_add_entry pa (w_st w) p mk md Ha (world_okb_keys_good _ _ Hok) Hac Hne Hmd).
      rewrite lookup_insert_ne, lookup_insert; [reflexivity|].
      apply vparent_ne; assumption.
    - rewrite (Vp_ok pa w Hok).
      apply (view_add_entry_eqv pa (w_st w) p mk _ eq_refl Ha); try assumption;
        eapply world_okb_keys_good; eassumption.
    - apply swf_view; assumption.
  Qed.

  Lemma osfs_law_openfile_trunc : forall w p perm m c, quiet w -> swf (V w) -> snolinkpar (V w) p -> V w !! p = Some (File m c) ->
    exists h t', ok_step V V' (a_openfile A p 578 perm) w h (<[ p := File (set_mt t' m) [] ]> (V w)) /\ wh_p tag pa h p 0.
  Proof.
    intros w p perm m c Hq Hwf Hnl Hl. unfold ok_step.
    destruct (present_inv w p _ Hl) as (Hok & Hac & nd & Hnd & En & Hdir).
    symmetry in En. apply vnode_file_inv in En. subst nd.
    assert (Hnlk : not_link_at (st_fs (w_st w)) (wkey pa p)).
    { apply (not_link_at_present _ _ _ Hnd). intros m' t' E. discriminate E. }
    rewrite (run_openfile_create tag pa Ha w Hq p Hac Hdir perm Hnlk). norm_keys. rewrite Hnd. cbv beta iota.
    rewrite finmap_ok.
    eexists. exists (Now (st_clock (w_st w))). split; [|apply the_handle_wh].
    eexists. split; [reflexivity|].
    change (File (set_mt (Now (st_clock (w_st w))) m) [])
      with (vnode pa (File (mkMeta (m_perm m) (m_uid m) (m_gid m) (Now (st_clock (w_st w)))) [])).
    apply (step_update w p (mkFstate (st_fs (w_st w)) (N.succ (st_clock (w_st w)))) (File m c)
             (File (mkMeta (m_perm m) (m_uid m) (m_gid m) (Now (st_clock (w_st w)))) [])
             (PM MOpenFile) [] None Hok Hac eq_refl Hnd).
    - intro H. discriminate H.
    - exact (world_okb_perm12 pa _ _ _ Hok Hnd).
  Qed.

  Lemma osfs_law_hclose_w : forall w h p pos, quiet w -> wh_p tag pa h p pos -> ok_step V V' (hclose h) w tt (V w).
  Proof.
    intros w h p pos Hq Hwh. unfold ok_step. eexists.
    split; [exact (hclose_quiet tag h p w Hq (wh_p_spy _ _ _ _ _ Hwh)) | apply step_same].
  Qed.

  (* ---------------------------------------------------------------- *)
  (** ** link targets *)

  Lemma osfs_law_tnorm_idem : forall t, clean (clean t) = clean t.
  Proof. exact clean_idem. Qed.
End LawsA.

Print Assumptions osfs_law_infos_indep.
Print Assumptions osfs_law_readlink.
Print Assumptions osfs_law_open_file.
Print Assumptions osfs_law_open_err.
Print Assumptions osfs_law_hread.
Print Assumptions osfs_law_hstat.
Print Assumptions osfs_law_hclose_r.
Print Assumptions osfs_law_mkdirall_dir.
Print Assumptions osfs_law_chtimes.
Print Assumptions osfs_law_chown.
Print Assumptions osfs_law_lchown.
Print Assumptions osfs_law_openfile_new.
Print Assumptions osfs_law_openfile_trunc.
Print Assumptions osfs_law_hclose_w.
Print Assumptions osfs_law_tnorm_idem.
