(** C01 for the covered operations: a transaction that starts in an
    [initial] state, performs covered operations ([covered] of Spec/Inv.v,
    each leaving no tracked path with another type) and is then rolled back,
    restores the base view and empties the backup ([c01_stmt] of
    Spec/CopySpecs.v).  The base filesystem has to satisfy the reading laws of
    Spec/Laws2.v next to those of Spec/Laws.v.

    [initial_inv_spec]: the initial state satisfies the invariant.
    [good_run_inv]: the invariant is kept along a [good_run] ([step_spec]).
    [c01_spec]: [rollback_spec] from the state the run ends in. *)
From stdpp Require Import gmap.
From BFS Require Import Spec.CopySpecs.
From BFS Require Import Proofs.BackupCopy Proofs.BackupTry Proofs.BackupRollback.

(** the initial state satisfies the invariant *)
Theorem initial_inv_spec :
  forall Vb Vk tnb tnk accb acck B0,
  initial_inv_stmt Vb Vk tnb tnk accb acck B0.
Proof.
  intros Vb Vk tnb tnk accb acck B0.
  unfold initial_inv_stmt. cbv zeta.
  intros w0 (Hq & Hi & HVb & HwfB & _ & Hk & Hwfk).
  assert (Hnone : forall p, w_infos w0 !! p = None).
  { intros p. rewrite Hi. apply lookup_empty. }
  constructor.
  - exact Hq.
  - rewrite HVb. exact HwfB.
  - exact Hwfk.
  - intros p _. rewrite HVb. apply sonode_eqv_refl.
  - intros p Hp. rewrite Hnone in Hp. discriminate Hp.
  - intros p fi Hp. rewrite Hnone in Hp. discriminate Hp.
  - intros p Hp. contradiction Hp. apply Hnone.
  - intros p fi Hp. rewrite Hnone in Hp. discriminate Hp.
  - intros p Hp. contradiction Hp. apply Hnone.
  - intros p Hne Hp. contradiction Hp. exact (Hk p Hne).
  - intros p fi n Hp _. rewrite Hnone in Hp. discriminate Hp.
Qed.

(** the store a transaction begins with shows nothing at or below a hidden
    location of the base, and the proper ancestors of such a location as
    directories ([law_hid_absent], [law_anc_dir] at the initial state) *)
Lemma initial_loc_ok :
  forall base Vb Vk tnb tnk accb acck rhb whb hid anc B0,
  base_laws base Vb Vk tnb accb rhb whb hid anc ->
  forall w0, initial Vb Vk tnb tnk accb acck B0 w0 -> loc_ok hid anc B0.
Proof.
  intros base Vb Vk tnb tnk accb acck rhb whb hid anc B0 HLb w0 (_ & _ & HVb & HwfB & _).
  split.
  - intros p Hh. rewrite <- HVb. exact (law_hid_absent _ _ _ _ _ _ _ _ _ HLb w0 p Hh).
  - intros p Ha. rewrite <- HVb. apply (law_anc_dir _ _ _ _ _ _ _ _ _ HLb w0 p Ha).
    rewrite HVb. exact HwfB.
Qed.

(** the invariant is kept along a good run *)
Lemma good_run_inv :
  forall base backup Vb Vk tnb tnk accb acck rhb rhk whb whk hid anc B0,
  base_laws base Vb Vk tnb accb rhb whb hid anc -> base_laws2 base Vb Vk tnb accb rhb whb ->
  backup_laws backup Vb Vk tnk acck rhk whk ->
  links_ok tnb tnk accb acck B0 -> all_small B0 -> swf B0 ->
  forall w ops w', good_run base backup Vb w ops w' -> Inv Vb Vk B0 w -> Inv Vb Vk B0 w'.
Proof.
  intros base backup Vb Vk tnb tnk accb acck rhb rhk whb whk hid anc B0 HLb HLb2 HLk Hlinks Hsmall HwfB
         w ops w' Hrun.
  induction Hrun as [w | w o ops r w1 w2 Hcov Hstep Hks Hrest IH]; intros HI.
  - exact HI.
  - apply IH.
    destruct (step_spec base backup Vb Vk tnb tnk accb acck rhb rhk whb whk hid anc B0
                HLb HLb2 HLk Hlinks Hsmall HwfB o w HI Hcov) as (r' & w1' & Hstep' & _ & Hinv & _).
    rewrite Hstep in Hstep'. injection Hstep' as Er Ew. subst r' w1'.
    exact (Hinv Hks).
Qed.

Theorem c01_spec :
  forall base backup Vb Vk tnb tnk accb acck rhb rhk whb whk hid anc B0,
  c01_stmt base backup Vb Vk tnb tnk accb acck rhb rhk whb whk hid anc B0.
Proof.
  intros base backup Vb Vk tnb tnk accb acck rhb rhk whb whk hid anc B0.
  unfold c01_stmt. cbv zeta. intros HLb HLb2 HLk Hsmall w0 ops w Hinit Hrun.
  pose proof Hinit as (_ & _ & _ & HwfB & Hlinks & _ & _).
  pose proof (initial_inv_spec Vb Vk tnb tnk accb acck B0 w0 Hinit) as HI0.
  pose proof (good_run_inv base backup Vb Vk tnb tnk accb acck rhb rhk whb whk hid anc B0
                HLb HLb2 HLk Hlinks Hsmall HwfB w0 ops w Hrun HI0) as HI.
  destruct (rollback_spec base backup Vb Vk tnb tnk accb acck rhb rhk whb whk hid anc B0
              HLb HLk Hlinks Hsmall HwfB
              (initial_loc_ok base Vb Vk tnb tnk accb acck rhb whb hid anc B0 HLb w0 Hinit) w HI)
    as (w' & Hrb & _ & Hb & Hk & Hi).
  exists w'. split; [exact Hrb |]. split; [exact Hb |]. split; [exact Hk | exact Hi].
Qed.

Print Assumptions initial_inv_spec.
Print Assumptions initial_loc_ok.
Print Assumptions good_run_inv.
Print Assumptions c01_spec.
