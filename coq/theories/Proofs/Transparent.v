(** C03, the mutating half: an operation issued through BackupFS IS the
    base filesystem's own operation on the resolved name, run in the state the
    backup step left - and the backup step does not change what the base
    shows.

    Part 1 (structure; every [base backup : fsapi], every world, no law):
    [b_X_is_base] (X = create, mkdir, mkdirall, openfile, remove, chmod,
    chown, lchown, chtimes, symlink), [b_rename_is_base]; at the level of the
    observable operation: [step_mut1_cases], [step_rename_cases] (every
    course: resolution fails / backup fails / [step_direct base] with the
    resolved name(s) in the world the backup left).

    Part 2 (from the laws of Spec/Laws.v, under the transaction invariant of
    Spec/Inv.v, for resolved names and the operations of [covered]):
    - [backup_phase]: the backup step of a resolved name leaves the base
      view, the crash point and the fault plan alone, keeps the invariant,
      does not halt, and can fail only if an existing proper ancestor of the
      name is not a directory;
    - [direct_framed]: the direct operation on the base changes the base view
      at the named entry only (the frame laws);
    - [mut1_transparent], [rename_transparent]: through BackupFS = directly on
      the base in a world with the same base view (or: the backup step's
      error, base view unchanged), with the frame;
    - [removeall_absent_transparent], [removeall_leaf_transparent],
      [removeall_frame] (the walk of RemoveAll replayed with the frame
      [outside n]: nothing changes that is not at or below [n]);
    - [meta_op_same], [remove_same]: where the laws are precise the comparison
      is with the direct operation in the SAME world;
    - [covered_frame]: "exactly the entry the caller named".
    Part 3: the statements as predicates of a layering ([..._stmt],
    [c03_mutating_stmt]), [c03_mutating_spec] (from the laws) and the closed
    instances [c03_mutating_concrete] (generic layering [gcfg pa pb]) and
    [c03_mutating_documented] (documented layering [dcfg pa h]). *)
From stdpp Require Import gmap.
From BFS Require Import Spec.CopySpecs.
From BFS Require Import Path.PathSpec.
From BFS Require Import Proofs.PathFacts Proofs.C19Facts Proofs.RollbackFacts Proofs.FsFacts
                        Proofs.BackupCopy Proofs.BackupTry.

(* ------------------------------------------------------------------ *)
(** * Part 1: structure *)

(** resolve, back up, one call: the three possible courses *)
Lemma seq3_cases {A} (rp : M str) (tb : str -> M unit) (k : str -> M A) (w : world) :
  (rn <- rp ;; tb rn ;;; k rn) w =
  match rp w with
  | (MOk rn, w1) =>
      match tb rn w1 with
      | (MOk _, w2) => k rn w2
      | (MErr e, w2) => (MErr e, w2)
      | (MHalt, w2) => (MHalt, w2)
      end
  | (MErr e, w1) => (MErr e, w1)
  | (MHalt, w1) => (MHalt, w1)
  end.
Proof.
  unfold bind. destruct (rp w) as [[rn | e |] w1]; [| reflexivity | reflexivity].
  destruct (tb rn w1) as [[[] | e |] w2]; reflexivity.
Qed.

Lemma seq3_ok {A} (rp : M str) (tb : str -> M unit) (k : str -> M A) (w w1 w2 : world) (rn : str) :
  rp w = (MOk rn, w1) -> tb rn w1 = (MOk tt, w2) ->
  (rn <- rp ;; tb rn ;;; k rn) w = k rn w2.
Proof. intros H1 H2. rewrite seq3_cases, H1, H2. reflexivity. Qed.

Section Structure.
  Variables base backup : fsapi.

  (** the backup step of a single-name operation succeeded *)
  Definition backed_up (n rn : str) (w w2 : world) : Prop :=
    exists w1, real_path base n w = (MOk rn, w1) /\ try_backup base backup rn w1 = (MOk tt, w2).

  Theorem b_create_is_base : forall n rn w w2, backed_up n rn w w2 ->
    b_create base backup n w = a_create base rn w2.
  Proof. intros n rn w w2 (w1 & H1 & H2). exact (seq3_ok _ _ _ w w1 w2 rn H1 H2). Qed.

  Theorem b_mkdir_is_base : forall n perm rn w w2, backed_up n rn w w2 ->
    b_mkdir base backup n perm w = a_mkdir base rn perm w2.
  Proof. intros n perm rn w w2 (w1 & H1 & H2). exact (seq3_ok _ _ _ w w1 w2 rn H1 H2). Qed.

  Theorem b_mkdirall_is_base : forall n perm rn w w2, backed_up n rn w w2 ->
    b_mkdirall base backup n perm w = a_mkdirall base rn perm w2.
  Proof. intros n perm rn w w2 (w1 & H1 & H2). exact (seq3_ok _ _ _ w w1 w2 rn H1 H2). Qed.

  (** OpenFile with any flag other than O_RDONLY (= 0) *)
  Theorem b_openfile_is_base : forall n fl perm rn w w2, fl <> 0%N -> backed_up n rn w w2 ->
    b_openfile base backup n fl perm w = a_openfile base rn fl perm w2.
  Proof.
    intros n fl perm rn w w2 Hfl (w1 & H1 & H2). unfold b_openfile.
    apply N.eqb_neq in Hfl. rewrite Hfl. exact (seq3_ok _ _ _ w w1 w2 rn H1 H2).
  Qed.

  Theorem b_remove_is_base : forall n rn w w2, backed_up n rn w w2 ->
    b_remove base backup n w = a_remove base rn w2.
  Proof. intros n rn w w2 (w1 & H1 & H2). exact (seq3_ok _ _ _ w w1 w2 rn H1 H2). Qed.

  Theorem b_chmod_is_base : forall n mode rn w w2, backed_up n rn w w2 ->
    b_chmod base backup n mode w = a_chmod base rn mode w2.
  Proof. intros n mode rn w w2 (w1 & H1 & H2). exact (seq3_ok _ _ _ w w1 w2 rn H1 H2). Qed.

  Theorem b_chown_is_base : forall n u g rn w w2, backed_up n rn w w2 ->
    b_chown base backup n u g w = a_chown base rn u g w2.
  Proof. intros n u g rn w w2 (w1 & H1 & H2). exact (seq3_ok _ _ _ w w1 w2 rn H1 H2). Qed.

  Theorem b_lchown_is_base : forall n u g rn w w2, backed_up n rn w w2 ->
    b_lchown base backup n u g w = a_lchown base rn u g w2.
  Proof. intros n u g rn w w2 (w1 & H1 & H2). exact (seq3_ok _ _ _ w w1 w2 rn H1 H2). Qed.

  Theorem b_chtimes_is_base : forall n t rn w w2, backed_up n rn w w2 ->
    b_chtimes base backup n t w = a_chtimes base rn t w2.
  Proof. intros n t rn w w2 (w1 & H1 & H2). exact (seq3_ok _ _ _ w w1 w2 rn H1 H2). Qed.

  (** [Symlink target name]: the resolved and backed-up name is the location;
      the target string is handed on as it is *)
  Theorem b_symlink_is_base : forall t n rn w w2, backed_up n rn w w2 ->
    b_symlink base backup t n w = a_symlink base t rn w2.
  Proof. intros t n rn w w2 (w1 & H1 & H2). exact (seq3_ok _ _ _ w w1 w2 rn H1 H2). Qed.

  (** Rename: both names are resolved (the old one first), both are backed up
      (the new one first), then the base renames *)
  Definition backed_up2 (o n ro rn : str) (w w4 : world) : Prop :=
    exists w1 w2 w3,
      real_path base o w = (MOk ro, w1) /\ real_path base n w1 = (MOk rn, w2) /\
      try_backup base backup rn w2 = (MOk tt, w3) /\ try_backup base backup ro w3 = (MOk tt, w4).

  Lemma b_rename_cases (o n : str) (w : world) :
    b_rename base backup o n w =
    match real_path base o w with
    | (MOk ro, w1) =>
        match real_path base n w1 with
        | (MOk rn, w2) =>
            match try_backup base backup rn w2 with
            | (MOk _, w3) =>
                match try_backup base backup ro w3 with
                | (MOk _, w4) => a_rename base ro rn w4
                | (MErr e, w4) => (MErr e, w4)
                | (MHalt, w4) => (MHalt, w4)
                end
            | (MErr e, w3) => (MErr e, w3)
            | (MHalt, w3) => (MHalt, w3)
            end
        | (MErr e, w2) => (MErr e, w2)
        | (MHalt, w2) => (MHalt, w2)
        end
    | (MErr e, w1) => (MErr e, w1)
    | (MHalt, w1) => (MHalt, w1)
    end.
  Proof.
    unfold b_rename, bind.
    destruct (real_path base o w) as [[ro | e |] w1]; [| reflexivity | reflexivity].
    destruct (real_path base n w1) as [[rn | e |] w2]; [| reflexivity | reflexivity].
    destruct (try_backup base backup rn w2) as [[[] | e |] w3]; [| reflexivity | reflexivity].
    destruct (try_backup base backup ro w3) as [[[] | e |] w4]; reflexivity.
  Qed.

  Theorem b_rename_is_base : forall o n ro rn w w4, backed_up2 o n ro rn w w4 ->
    b_rename base backup o n w = a_rename base ro rn w4.
  Proof.
    intros o n ro rn w w4 (w1 & w2 & w3 & H1 & H2 & H3 & H4).
    rewrite b_rename_cases, H1, H2, H3, H4. reflexivity.
  Qed.

  (** ** the same at the level of [step] / [step_direct]
      (Create and OpenFile: the data is written through the handle and the
      handle closed on both sides) *)

  (** the single-name mutating operations that resolve, back up and call *)
  Inductive mut1 : op -> Prop :=
    | M1Create n d : mut1 (OCreate n d)
    | M1OpenWrite n fl perm d : fl <> 0%N -> mut1 (OOpenWrite n fl perm d)
    | M1Mkdir n perm : mut1 (OMkdir n perm)
    | M1MkdirAll n perm : mut1 (OMkdirAll n perm)
    | M1Remove n : mut1 (ORemove n)
    | M1Symlink t n : mut1 (OSymlink t n)
    | M1Chmod n m : mut1 (OChmod n m)
    | M1Chown n u g : mut1 (OChown n u g)
    | M1Lchown n u g : mut1 (OLchown n u g)
    | M1Chtimes n t : mut1 (OChtimes n t).

  (** the operation with its name replaced *)
  Definition with_name (o : op) (rn : str) : op :=
    match o with
    | OCreate _ d => OCreate rn d
    | OOpenWrite _ fl perm d => OOpenWrite rn fl perm d
    | OMkdir _ perm => OMkdir rn perm
    | OMkdirAll _ perm => OMkdirAll rn perm
    | ORemove _ => ORemove rn
    | ORemoveAll _ => ORemoveAll rn
    | OSymlink t _ => OSymlink t rn
    | OChmod _ m => OChmod rn m
    | OChown _ u g => OChown rn u g
    | OLchown _ u g => OLchown rn u g
    | OChtimes _ t => OChtimes rn t
    | _ => o
    end.

  Lemma with_name_same (o : op) : mut1 o -> with_name o (op_name o) = o.
  Proof. intros []; reflexivity. Qed.

  (** every course of a single-name mutating operation: the name does not
      resolve - that failure; the backup fails - that failure, in the world
      the backup step left; otherwise: the operation issued directly on the
      base, with the resolved name, in the world the backup step left *)
  Theorem step_mut1_cases : forall o w, mut1 o ->
    step base backup o w =
    match real_path base (op_name o) w with
    | (MOk rn, w1) =>
        match try_backup base backup rn w1 with
        | (MOk _, w2) => step_direct base (with_name o rn) w2
        | (MErr e, w2) => (MErr e, w2)
        | (MHalt, w2) => (MHalt, w2)
        end
    | (MErr e, w1) => (MErr e, w1)
    | (MHalt, w1) => (MHalt, w1)
    end.
  Proof.
    intros o w Hm.
    assert (Hgen : forall (A : Type) (k : str -> M A) (f : A -> M obs) (n : str),
              (x <- (rn <- real_path base n ;; try_backup base backup rn ;;; k rn) ;; f x) w =
              match real_path base n w with
              | (MOk rn, w1) =>
                  match try_backup base backup rn w1 with
                  | (MOk _, w2) => (x <- k rn ;; f x) w2
                  | (MErr e, w2) => (MErr e, w2)
                  | (MHalt, w2) => (MHalt, w2)
                  end
              | (MErr e, w1) => (MErr e, w1)
              | (MHalt, w1) => (MHalt, w1)
              end).
    { intros A k f n. unfold bind.
      destruct (real_path base n w) as [[rn | e |] w1]; [| reflexivity | reflexivity].
      destruct (try_backup base backup rn w1) as [[[] | e |] w2]; reflexivity. }
    destruct Hm as [n d | n fl perm d Hfl | n perm | n perm | n | t n | n m | n u g | n u g | n t];
      cbn [step op_name op_names with_name step_direct].
    - exact (Hgen _ (fun rn => a_create base rn) _ n).
    - unfold b_openfile. apply N.eqb_neq in Hfl. rewrite Hfl.
      exact (Hgen _ (fun rn => a_openfile base rn fl perm) _ n).
    - exact (Hgen _ (fun rn => a_mkdir base rn perm) _ n).
    - exact (Hgen _ (fun rn => a_mkdirall base rn perm) _ n).
    - exact (Hgen _ (fun rn => a_remove base rn) _ n).
    - exact (Hgen _ (fun rn => a_symlink base t rn) _ n).
    - exact (Hgen _ (fun rn => a_chmod base rn m) _ n).
    - exact (Hgen _ (fun rn => a_chown base rn u g) _ n).
    - exact (Hgen _ (fun rn => a_lchown base rn u g) _ n).
    - exact (Hgen _ (fun rn => a_chtimes base rn (Preset t)) _ n).
  Qed.

  Theorem step_mut1_is_direct : forall o rn w w2, mut1 o -> backed_up (op_name o) rn w w2 ->
    step base backup o w = step_direct base (with_name o rn) w2.
  Proof.
    intros o rn w w2 Hm (w1 & H1 & H2). rewrite (step_mut1_cases o w Hm), H1, H2. reflexivity.
  Qed.

  Theorem step_rename_cases : forall o n w,
    step base backup (ORename o n) w =
    match real_path base o w with
    | (MOk ro, w1) =>
        match real_path base n w1 with
        | (MOk rn, w2) =>
            match try_backup base backup rn w2 with
            | (MOk _, w3) =>
                match try_backup base backup ro w3 with
                | (MOk _, w4) => step_direct base (ORename ro rn) w4
                | (MErr e, w4) => (MErr e, w4)
                | (MHalt, w4) => (MHalt, w4)
                end
            | (MErr e, w3) => (MErr e, w3)
            | (MHalt, w3) => (MHalt, w3)
            end
        | (MErr e, w2) => (MErr e, w2)
        | (MHalt, w2) => (MHalt, w2)
        end
    | (MErr e, w1) => (MErr e, w1)
    | (MHalt, w1) => (MHalt, w1)
    end.
  Proof.
    intros o n w. cbn [step step_direct]. unfold bind at 1. rewrite b_rename_cases.
    destruct (real_path base o w) as [[ro | e |] w1]; [| reflexivity | reflexivity].
    destruct (real_path base n w1) as [[rn | e |] w2]; [| reflexivity | reflexivity].
    destruct (try_backup base backup rn w2) as [[[] | e |] w3]; [| reflexivity | reflexivity].
    destruct (try_backup base backup ro w3) as [[[] | e |] w4]; reflexivity.
  Qed.

  Theorem step_rename_is_direct : forall o n ro rn w w4, backed_up2 o n ro rn w w4 ->
    step base backup (ORename o n) w = step_direct base (ORename ro rn) w4.
  Proof.
    intros o n ro rn w w4 (w1 & w2 & w3 & H1 & H2 & H3 & H4).
    rewrite step_rename_cases, H1, H2, H3, H4. reflexivity.
  Qed.
End Structure.

(* ------------------------------------------------------------------ *)
(** * Part 2: from the laws *)

Lemma snode_eqv_sym (a b : node) : snode_eqv a b -> snode_eqv b a.
Proof.
  destruct a as [ma | ma ca | ma ta], b as [mb | mb cb | mb tb]; simpl; try contradiction.
  - intros (H1 & H2 & H3). repeat split; congruence.
  - intros [-> ->]. split; reflexivity.
  - intros [(H1 & H2 & H3) ->]. repeat split; congruence.
Qed.

Lemma sonode_eqv_sym (a b : option node) : sonode_eqv a b -> sonode_eqv b a.
Proof. destruct a as [x|], b as [y|]; simpl; try contradiction; [apply snode_eqv_sym | trivial]. Qed.

(** the paths an operation may change in the base view *)
Definition op_frame (o : op) : list str :=
  match o with
  | OMkdirAll n _ => cands n
  | _ => op_names o
  end.

(** the mutating operations of [covered] *)
Definition mutating (o : op) : Prop :=
  mut1 o \/ (exists a b, o = ORename a b) \/ (exists n, o = ORemoveAll n).

(** the two stores agree (directory timestamps aside) everywhere but at [n]
    and below it *)
Definition outside (n : str) (s t : store) : Prop :=
  forall p, ~ under n p -> sonode_eqv (s !! p) (t !! p).

Lemma outside_refl (n : str) (s : store) : outside n s s.
Proof. intros p _. apply sonode_eqv_refl. Qed.

Lemma outside_trans (n : str) (s1 s2 s3 : store) : outside n s1 s2 -> outside n s2 s3 -> outside n s1 s3.
Proof. intros H1 H2 p Hp. eapply sonode_eqv_trans; [exact (H1 p Hp) | exact (H2 p Hp)]. Qed.

Definition changes_only (o : op) (s' s : store) : Prop :=
  match o with
  | ORemoveAll n => outside n s' s
  | _ => store_eqv_except (op_frame o) s' s
  end.

Section Transparent.
  Variables base backup : fsapi.
  Variables Vb Vk : world -> store.
  Variables tnb tnk : str -> str.
  Variables accb acck : str -> str -> Prop.
  Variables rhb rhk whb whk : fhandle -> str -> nat -> Prop.
  Variables hid anc : str -> Prop.
  Variable B0 : store.

  Hypothesis HLb : base_laws base Vb Vk tnb accb rhb whb hid anc.
  Hypothesis HLk : backup_laws backup Vb Vk tnk acck rhk whk.
  Hypothesis Hlinks : links_ok tnb tnk accb acck B0.
  Hypothesis Hsmall : all_small B0.
  Hypothesis HwfB0 : swf B0.

  Let Lb : api_laws base Vb Vk tnb accb rhb whb hid anc := HLb.

  (** ** the backup step of a resolved name: the name resolves to itself;
      the backup may fail (only if a proper ancestor is not a directory) but
      never halts; the base view, the crash point and the fault plan are
      untouched, the invariant is kept, bookkeeping is added on the chain from
      the root to the name only *)
  Lemma backup_phase (w : world) (n : str) :
    Inv Vb Vk B0 w -> snolinkpar (Vb w) n ->
    exists w1 r w2, real_path base n w = (MOk n, w1) /\ try_backup base backup n w1 = (r, w2) /\
      r <> MHalt /\ Inv Vb Vk B0 w2 /\ ext Vb w w2 (cands n) /\
      (r = MOk tt -> tracked w2 n /\ Forall (tracked w2) (ancestors n)) /\
      (all_dirs Vb w n -> r = MOk tt).
  Proof using HLb HLk Hlinks Hsmall HwfB0.
    intros HI Hnlp.
    destruct (real_path_resolved_spec base Vb Vk tnb accb rhb whb hid anc Lb w n
                (inv_quiet _ _ _ _ HI) (inv_wf_b _ _ _ _ HI) Hnlp) as (w1 & Hrun1 & HVb1 & Hsr1).
    pose proof (same_all_base Vb Vk w w1 HVb1 Hsr1) as Hsa1.
    pose proof (Inv_transfer Vb Vk B0 w w1 HI Hsa1) as HI1.
    assert (Hnlp1 : snolinkpar (Vb w1) n) by (rewrite HVb1; exact Hnlp).
    destruct (try_backup_specS base backup Vb Vk tnb tnk accb acck rhb rhk whb whk hid anc B0
                HLb HLk Hlinks Hsmall HwfB0 w1 n HI1 Hnlp1)
      as (r2 & w2 & Hrun2 & Hnh2 & HI2 & Hext2 & Htr2 & Hok2).
    exists w1, r2, w2. split; [exact Hrun1 |]. split; [exact Hrun2 |]. split; [exact Hnh2 |].
    split; [exact HI2 |]. split; [| split; [exact Htr2 |]].
    - eapply ext_trans; [exact (same_all_ext Vb Vk w w1 (cands n) Hsa1) | exact Hext2
                        | apply incl_refl | apply incl_refl].
    - intros Hd. apply Hok2. intros q m Hq Hm. rewrite HVb1 in Hm. exact (Hd q m Hq Hm).
  Qed.

  Lemma quiet_eq (w w2 : world) : quiet w -> quiet w2 -> w_crash w2 = w_crash w /\ w_faults w2 = w_faults w.
  Proof. intros [H1 H2] [H3 H4]. split; congruence. Qed.

  (** ** the direct operation on the base is framed (from the frame laws):
      whatever it does, it changes the base view at the named entry only
      (MkdirAll: on the chain from the root to it), does not halt, and leaves
      the backup view and the bookkeeping alone *)
  Lemma framed_unit (m : M unit) (w : world) (l : list str) :
    framed Vb Vk m w l ->
    exists r w', (m ;;; ret ObUnit) w = (r, w') /\ r <> MHalt /\ fr Vb Vk w w' l.
  Proof.
    intros Hf. destruct (framed_fr Vb Vk m w l Hf) as (r & w' & Hrun & Hnh & Hfr).
    destruct r as [[] | e |]; [| | contradiction Hnh; reflexivity].
    - exists (MOk ObUnit), w'. split; [rewrite (bind_ok _ _ w w' tt Hrun); reflexivity |].
      split; [discriminate | exact Hfr].
    - exists (MErr e), w'. split; [rewrite (bind_err _ _ w w' e Hrun); reflexivity |].
      split; [discriminate | exact Hfr].
  Qed.

  Lemma framed_handle (call : M fhandle) (w : world) (n : str) (d : list N) :
    quiet w -> swf (Vb w) -> snolinkpar (Vb w) n -> snotlink (Vb w) n ->
    framed Vb Vk call w [n] ->
    (forall r w', call w = (r, w') ->
       (exists fl perm, a_openfile base n fl perm w = (r, w')) \/ a_create base n w = (r, w')) ->
    exists r w', (h <- call ;; write_close h d ;;; ret ObUnit) w = (r, w') /\ r <> MHalt /\
                 fr Vb Vk w w' [n].
  Proof using HLb.
    intros Hq Hwf Hnlp Hnl Hf Hwhich.
    destruct (framed_fr Vb Vk call w [n] Hf) as (r & w1 & Hrun & Hnh & Hfr).
    destruct r as [h | e |]; [| | contradiction Hnh; reflexivity].
    2:{ exists (MErr e), w1. split; [rewrite (bind_err _ _ w w1 e Hrun); reflexivity |].
        split; [discriminate | exact Hfr]. }
    pose proof Hfr as (_ & Hwf1 & _).
    destruct (framed_unit (write_close h d) w1 [n]
                (law_user_handle _ _ _ _ _ _ _ _ _ Lb w n (MOk h) w1 Hq Hwf Hnlp Hnl
                   (Hwhich (MOk h) w1 Hrun) h d eq_refl (fr_quiet Vb Vk w w1 [n] Hq Hfr) Hwf1))
      as (r2 & w2 & Hrun2 & Hnh2 & Hfr2).
    exists r2, w2. split; [rewrite (bind_ok _ _ w w1 h Hrun); exact Hrun2 |].
    split; [exact Hnh2 | exact (fr_trans Vb Vk w w1 w2 [n] Hfr Hfr2)].
  Qed.

  Lemma direct_framed (o : op) (w : world) :
    mut1 o -> quiet w -> swf (Vb w) -> snolinkpar (Vb w) (op_name o) ->
    (follows o = true -> snotlink (Vb w) (op_name o)) -> removeall_not_root o ->
    exists r w', step_direct base o w = (r, w') /\ r <> MHalt /\ fr Vb Vk w w' (op_frame o).
  Proof using HLb.
    intros Hm Hq Hwf Hn Hfol Hrm.
    destruct Hm as [n d | n fl perm d Hfl | n perm | n perm | n | t n | n m | n u g | n u g | n t];
      cbn [step_direct op_name op_names op_frame follows removeall_not_root] in *.
    - apply (framed_handle (a_create base n) w n d Hq Hwf Hn (Hfol eq_refl)).
      + exact (law_user_create _ _ _ _ _ _ _ _ _ Lb w n Hq Hwf Hn (Hfol eq_refl)).
      + intros r w' Hc. right. exact Hc.
    - assert (Hnl : snotlink (Vb w) n).
      { apply Hfol. apply N.eqb_neq in Hfl. rewrite Hfl. reflexivity. }
      apply (framed_handle (a_openfile base n fl perm) w n d Hq Hwf Hn Hnl).
      + exact (law_user_openfile _ _ _ _ _ _ _ _ _ Lb w n fl perm Hq Hwf Hn Hnl).
      + intros r w' Hc. left. exists fl, perm. exact Hc.
    - apply framed_unit. exact (law_user_mkdir _ _ _ _ _ _ _ _ _ Lb w n perm Hq Hwf Hn).
    - apply framed_unit. exact (law_user_mkdirall _ _ _ _ _ _ _ _ _ Lb w n perm Hq Hwf Hn).
    - apply framed_unit. exact (law_user_remove _ _ _ _ _ _ _ _ _ Lb w n Hq Hwf Hn Hrm).
    - apply framed_unit. exact (law_user_symlink _ _ _ _ _ _ _ _ _ Lb w t n Hq Hwf Hn).
    - apply framed_unit. exact (law_user_chmod _ _ _ _ _ _ _ _ _ Lb w n m Hq Hwf Hn (Hfol eq_refl)).
    - apply framed_unit. exact (law_user_chown _ _ _ _ _ _ _ _ _ Lb w n u g Hq Hwf Hn (Hfol eq_refl)).
    - apply framed_unit. exact (law_user_lchown _ _ _ _ _ _ _ _ _ Lb w n u g Hq Hwf Hn).
    - apply framed_unit. exact (law_user_chtimes _ _ _ _ _ _ _ _ _ Lb w n (Preset t) Hq Hwf Hn (Hfol eq_refl)).
  Qed.

  Lemma covered_name (o : op) (w : world) :
    mut1 o -> covered Vb o w ->
    snolinkpar (Vb w) (op_name o) /\ (follows o = true -> snotlink (Vb w) (op_name o)).
  Proof.
    intros Hm (_ & Hres & Hfol & _ & _).
    destruct Hm; cbn [op_name op_names] in *;
      (split; [exact (List.Forall_inv Hres) | intros Hf; exact (List.Forall_inv (Hfol Hf))]).
  Qed.

  (** ** T2 + T3 for the single-name mutating operations.

      There is a world [w2] - the one the backup step leaves - that shows the
      same base view as [w] (and has the same crash point and fault plan, and
      again satisfies the invariant), such that
      - either the backup step failed (possible only when a proper ancestor
        of the name is not a directory): the operation returns that error,
        in [w2]: the base view is unchanged;
      - or the operation is the operation issued directly on the base in
        [w2]: same result, same resulting world.
      In both cases the base view changes at most at the named entry
      (MkdirAll: on the chain from the root to it; directory timestamps
      aside), and the call on the base leaves the backup view and the
      bookkeeping as the backup step left them. *)
  Theorem mut1_transparent (o : op) (w : world) :
    Inv Vb Vk B0 w -> covered Vb o w -> mut1 o ->
    exists w2 r w',
      Vb w2 = Vb w /\ w_crash w2 = w_crash w /\ w_faults w2 = w_faults w /\ Inv Vb Vk B0 w2 /\
      infos_ext w w2 (cands (op_name o)) /\
      step base backup o w = (r, w') /\ r <> MHalt /\
      swf (Vb w') /\ store_eqv_except (op_frame o) (Vb w') (Vb w) /\ same_rest Vk w2 w' /\
      (((exists e, r = MErr e) /\ w' = w2 /\ ~ all_dirs Vb w (op_name o)) \/
       step_direct base o w2 = (r, w')).
  Proof using HLb HLk Hlinks Hsmall HwfB0.
    intros HI Hcov Hm. destruct (covered_name o w Hm Hcov) as [Hn Hfol].
    pose proof Hcov as (_ & _ & _ & _ & Hrm).
    destruct (backup_phase w (op_name o) HI Hn) as (w1 & r2 & w2 & Hrun1 & Hrun2 & Hnh2 & HI2 & Hext & _ & Hok).
    pose proof Hext as (HVb2 & Hie).
    destruct (quiet_eq w w2 (inv_quiet _ _ _ _ HI) (inv_quiet _ _ _ _ HI2)) as [Hc2 Hf2].
    assert (Hstep : step base backup o w =
                    match r2 with
                    | MOk _ => step_direct base o w2
                    | MErr e => (MErr e, w2)
                    | MHalt => (MHalt, w2)
                    end).
    { rewrite (step_mut1_cases base backup o w Hm), Hrun1, Hrun2.
      rewrite (with_name_same o Hm). destruct r2 as [[] | e |]; reflexivity. }
    destruct r2 as [[] | e |]; [| | contradiction Hnh2; reflexivity].
    - destruct (direct_framed o w2 Hm (inv_quiet _ _ _ _ HI2) (inv_wf_b _ _ _ _ HI2)) as (r & w' & Hrun & Hnh & Hfr).
      { rewrite HVb2. exact Hn. }
      { rewrite HVb2. exact Hfol. }
      { exact Hrm. }
      destruct Hfr as (Hsr & Hwf' & Heqv). rewrite HVb2 in Heqv.
      exists w2, r, w'. split; [exact HVb2 |]. split; [exact Hc2 |]. split; [exact Hf2 |].
      split; [exact HI2 |]. split; [exact Hie |].
      split; [rewrite Hstep; exact Hrun |]. split; [exact Hnh |]. split; [exact Hwf' |].
      split; [exact Heqv |]. split; [exact Hsr |]. right. exact Hrun.
    - exists w2, (MErr e), w2. split; [exact HVb2 |]. split; [exact Hc2 |]. split; [exact Hf2 |].
      split; [exact HI2 |]. split; [exact Hie |].
      split; [exact Hstep |]. split; [discriminate |]. split; [exact (inv_wf_b _ _ _ _ HI2) |].
      split; [rewrite HVb2; apply store_eqv_except_refl |]. split; [apply same_rest_refl |].
      left. split; [exists e; reflexivity |]. split; [reflexivity |].
      intros Hd. specialize (Hok Hd). discriminate Hok.
  Qed.

  (** ** Rename (source without children in the view): both names *)
  Theorem rename_transparent (o n : str) (w : world) :
    Inv Vb Vk B0 w -> covered Vb (ORename o n) w ->
    exists w2 r w',
      Vb w2 = Vb w /\ w_crash w2 = w_crash w /\ w_faults w2 = w_faults w /\ Inv Vb Vk B0 w2 /\
      infos_ext w w2 (cands o ++ cands n) /\
      step base backup (ORename o n) w = (r, w') /\ r <> MHalt /\
      swf (Vb w') /\ store_eqv_except [o; n] (Vb w') (Vb w) /\ same_rest Vk w2 w' /\
      (((exists e, r = MErr e) /\ w' = w2 /\ ~ (all_dirs Vb w o /\ all_dirs Vb w n)) \/
       step_direct base (ORename o n) w2 = (r, w')).
  Proof using HLb HLk Hlinks Hsmall HwfB0.
    intros HI (_ & Hres & _ & Hleaf & _). cbn [op_names rename_source_leaf] in Hres, Hleaf.
    pose proof (List.Forall_inv Hres) as Hnlo.
    pose proof (List.Forall_inv (List.Forall_inv_tail Hres)) as Hnln. unfold resolved in Hnlo, Hnln.
    destruct (real_path_resolved_spec base Vb Vk tnb accb rhb whb hid anc Lb w o
                (inv_quiet _ _ _ _ HI) (inv_wf_b _ _ _ _ HI) Hnlo) as (w1 & Hrun1 & HVb1 & Hsr1).
    pose proof (same_all_base Vb Vk w w1 HVb1 Hsr1) as Hsa1.
    pose proof (Inv_transfer Vb Vk B0 w w1 HI Hsa1) as HI1.
    assert (Hnln1 : snolinkpar (Vb w1) n) by (rewrite HVb1; exact Hnln).
    destruct (real_path_resolved_spec base Vb Vk tnb accb rhb whb hid anc Lb w1 n
                (inv_quiet _ _ _ _ HI1) (inv_wf_b _ _ _ _ HI1) Hnln1) as (w2 & Hrun2 & HVb2 & Hsr2).
    pose proof (same_all_trans Vb Vk w w1 w2 Hsa1 (same_all_base Vb Vk w1 w2 HVb2 Hsr2)) as Hsa2.
    pose proof (Inv_transfer Vb Vk B0 w w2 HI Hsa2) as HI2.
    pose proof Hsa2 as (HVb02 & _).
    assert (Hnln2 : snolinkpar (Vb w2) n) by (rewrite HVb02; exact Hnln).
    (* the new name *)
    destruct (try_backup_specS base backup Vb Vk tnb tnk accb acck rhb rhk whb whk hid anc B0
                HLb HLk Hlinks Hsmall HwfB0 w2 n HI2 Hnln2)
      as (r3 & w3 & Hrun3 & Hnh3 & HI3 & Hext3 & _ & Hok3).
    assert (Hext03 : ext Vb w w3 (cands o ++ cands n)).
    { eapply ext_trans; [exact (same_all_ext Vb Vk w w2 (cands n) Hsa2) | exact Hext3 | |];
        intros q Hq; apply in_or_app; right; exact Hq. }
    pose proof Hext03 as (HVb03 & Hie03).
    rewrite step_rename_cases, Hrun1, Hrun2, Hrun3.
    destruct r3 as [[] | e |]; [| | contradiction Hnh3; reflexivity].
    2:{ destruct (quiet_eq w w3 (inv_quiet _ _ _ _ HI) (inv_quiet _ _ _ _ HI3)) as [Hc3 Hf3].
        exists w3, (MErr e), w3. split; [exact HVb03 |]. split; [exact Hc3 |]. split; [exact Hf3 |].
        split; [exact HI3 |]. split; [exact Hie03 |]. split; [reflexivity |]. split; [discriminate |].
        split; [exact (inv_wf_b _ _ _ _ HI3) |].
        split; [rewrite HVb03; apply store_eqv_except_refl |]. split; [apply same_rest_refl |].
        left. split; [exists e; reflexivity |]. split; [reflexivity |].
        intros [_ Hd]. assert (D : MErr e = MOk tt); [| discriminate D].
        apply Hok3. intros q m Hq Hm. rewrite HVb02 in Hm. exact (Hd q m Hq Hm). }
    (* the old name *)
    assert (Hnlo3 : snolinkpar (Vb w3) o) by (rewrite HVb03; exact Hnlo).
    destruct (try_backup_specS base backup Vb Vk tnb tnk accb acck rhb rhk whb whk hid anc B0
                HLb HLk Hlinks Hsmall HwfB0 w3 o HI3 Hnlo3)
      as (r4 & w4 & Hrun4 & Hnh4 & HI4 & Hext4 & _ & Hok4).
    assert (Hext04 : ext Vb w w4 (cands o ++ cands n)).
    { eapply ext_trans; [exact Hext03 | exact Hext4 | apply incl_refl |].
      intros q Hq. apply in_or_app. left. exact Hq. }
    pose proof Hext04 as (HVb04 & Hie04).
    destruct (quiet_eq w w4 (inv_quiet _ _ _ _ HI) (inv_quiet _ _ _ _ HI4)) as [Hc4 Hf4].
    rewrite Hrun4.
    destruct r4 as [[] | e |]; [| | contradiction Hnh4; reflexivity].
    2:{ exists w4, (MErr e), w4. split; [exact HVb04 |]. split; [exact Hc4 |]. split; [exact Hf4 |].
        split; [exact HI4 |]. split; [exact Hie04 |]. split; [reflexivity |]. split; [discriminate |].
        split; [exact (inv_wf_b _ _ _ _ HI4) |].
        split; [rewrite HVb04; apply store_eqv_except_refl |]. split; [apply same_rest_refl |].
        left. split; [exists e; reflexivity |]. split; [reflexivity |].
        intros [Hd _]. assert (D : MErr e = MOk tt); [| discriminate D].
        apply Hok4. intros q m Hq Hm. rewrite HVb03 in Hm. exact (Hd q m Hq Hm). }
    (* the call *)
    assert (Hfrm : framed Vb Vk (a_rename base o n) w4 [o; n]).
    { apply (law_user_rename _ _ _ _ _ _ _ _ _ Lb w4 o n (inv_quiet _ _ _ _ HI4) (inv_wf_b _ _ _ _ HI4));
        rewrite HVb04; assumption. }
    destruct (framed_unit (a_rename base o n) w4 [o; n] Hfrm) as (r5 & w5 & Hrun5 & Hnh5 & Hsr5 & Hwf5 & Heqv5).
    rewrite HVb04 in Heqv5.
    exists w4, r5, w5. split; [exact HVb04 |]. split; [exact Hc4 |]. split; [exact Hf4 |].
    split; [exact HI4 |]. split; [exact Hie04 |]. split; [exact Hrun5 |]. split; [exact Hnh5 |].
    split; [exact Hwf5 |]. split; [exact Heqv5 |]. split; [exact Hsr5 |]. right. exact Hrun5.
  Qed.

  (** ** RemoveAll *)

  (** of a path that does not exist: succeeds; nothing changes - not the
      base view, not the backup view, not the bookkeeping (BackupFS looks at
      the path with Lstat and returns nil on "not found") *)
  Theorem removeall_absent_transparent (w : world) (n : str) :
    Inv Vb Vk B0 w -> snolinkpar (Vb w) n -> Vb w !! n = None ->
    exists w', b_removeall base backup n w = (MOk tt, w') /\
               step base backup (ORemoveAll n) w = (MOk ObUnit, w') /\ same_all Vb Vk w w'.
  Proof using HLb.
    intros HI Hnlp Hb.
    destruct (real_path_resolved_spec base Vb Vk tnb accb rhb whb hid anc Lb w n
                (inv_quiet _ _ _ _ HI) (inv_wf_b _ _ _ _ HI) Hnlp) as (w1 & Hrun1 & HVb1 & Hsr1).
    pose proof (same_all_base Vb Vk w w1 HVb1 Hsr1) as Hsa1.
    pose proof (Inv_transfer Vb Vk B0 w w1 HI Hsa1) as HI1.
    assert (Hnlp1 : snolinkpar (Vb w1) n) by (rewrite HVb1; exact Hnlp).
    assert (Hb1 : Vb w1 !! n = None) by (rewrite HVb1; exact Hb).
    destruct (law_lstat_none _ _ _ _ _ _ _ _ _ Lb w1 n (inv_quiet _ _ _ _ HI1) (inv_wf_b _ _ _ _ HI1) Hnlp1 Hb1)
      as (e & w2 & Hrun2 & Hnf & HV2 & Hsr2).
    pose proof (same_all_trans Vb Vk w w1 w2 Hsa1 (same_all_base Vb Vk w1 w2 HV2 Hsr2)) as Hsa2.
    assert (Hra : b_removeall base backup n w = (MOk tt, w2)).
    { rewrite b_removeall_eq. rewrite (bind_ok _ _ w w1 n Hrun1).
      rewrite (bind_ok _ _ w1 w2 (Err e) (try_err _ w1 w2 e Hrun2)).
      unfold not_found in Hnf. rewrite Hnf. reflexivity. }
    exists w2. split; [exact Hra |]. split; [| exact Hsa2].
    cbn [step]. rewrite (bind_ok _ _ w w2 tt Hra). reflexivity.
  Qed.

  Lemma leaf_no_children (s : store) (n : str) (nd : node) :
    swf s -> s !! n = Some nd -> node_kind nd <> KDir -> no_children s n.
  Proof.
    intros Hwf Hn Hk q x Hq _ Hin.
    destruct (swf_lookup_sdirect s q x Hwf Hq) as [_ Hf]. rewrite List.Forall_forall in Hf.
    destruct (Hf n Hin) as [m Hm]. rewrite Hn in Hm. injection Hm as ->. apply Hk. reflexivity.
  Qed.

  Lemma present_all_dirs (w : world) (n : str) (nd : node) :
    swf (Vb w) -> Vb w !! n = Some nd -> all_dirs Vb w n.
  Proof.
    intros Hwf Hn q m Hq Hm.
    destruct (swf_lookup_sdirect (Vb w) n nd Hwf Hn) as [_ Hf]. rewrite List.Forall_forall in Hf.
    destruct (Hf q Hq) as [m' Hm']. rewrite Hm in Hm'. injection Hm' as ->. reflexivity.
  Qed.

  (** of a file or a symlink: BackupFS issues the base's Remove (after the
      backup step, which cannot fail here); it succeeds, the entry is gone,
      nothing else changed; the base's own RemoveAll, issued directly,
      succeeds as well and leaves the same view (directory timestamps aside) *)
  Theorem removeall_leaf_transparent (w : world) (n : str) (nd : node) :
    Inv Vb Vk B0 w -> snolinkpar (Vb w) n -> n <> s_root ->
    Vb w !! n = Some nd -> node_kind nd <> KDir ->
    exists w2 w' wd,
      Vb w2 = Vb w /\ w_crash w2 = w_crash w /\ w_faults w2 = w_faults w /\ Inv Vb Vk B0 w2 /\
      infos_ext w w2 (cands n) /\
      step base backup (ORemoveAll n) w = (MOk ObUnit, w') /\
      step_direct base (ORemove n) w2 = (MOk ObUnit, w') /\
      step_direct base (ORemoveAll n) w = (MOk ObUnit, wd) /\
      Vb w' !! n = None /\ Vb wd !! n = None /\
      store_eqv_except [n] (Vb w') (Vb w) /\ store_eqv_except [n] (Vb wd) (Vb w) /\
      dir_mt_only (Vb w') (Vb wd) /\ swf (Vb w') /\ same_rest Vk w2 w'.
  Proof using HLb HLk Hlinks Hsmall HwfB0.
    intros HI Hnlp Hnr Hb Hk.
    pose proof (inv_quiet _ _ _ _ HI) as Hq. pose proof (inv_wf_b _ _ _ _ HI) as Hwf.
    (* the direct RemoveAll *)
    destruct (law_removeall_leaf _ _ _ _ _ _ _ _ _ Lb w n nd Hq Hwf Hnlp Hb Hk Hnr)
      as (sd & (wd & Hrund & HVd & _) & Hnoned & Heqvd & _).
    (* through BackupFS: resolve, Lstat *)
    destruct (real_path_resolved_spec base Vb Vk tnb accb rhb whb hid anc Lb w n Hq Hwf Hnlp)
      as (w1 & Hrun1 & HVb1 & Hsr1).
    pose proof (same_all_base Vb Vk w w1 HVb1 Hsr1) as Hsa1.
    pose proof (Inv_transfer Vb Vk B0 w w1 HI Hsa1) as HI1.
    assert (Hnlp1 : snolinkpar (Vb w1) n) by (rewrite HVb1; exact Hnlp).
    assert (Hb1 : Vb w1 !! n = Some nd) by (rewrite HVb1; exact Hb).
    destruct (law_lstat_some _ _ _ _ _ _ _ _ _ Lb w1 n nd (inv_quiet _ _ _ _ HI1) (inv_wf_b _ _ _ _ HI1) Hnlp1 Hb1)
      as (fi & (w1' & Hrun1' & HV1' & Hsr1') & Him & _).
    pose proof (same_all_trans Vb Vk w w1 w1' Hsa1 (same_all_base Vb Vk w1 w1' HV1' Hsr1')) as Hsa1'.
    pose proof (Inv_transfer Vb Vk B0 w w1' HI Hsa1') as HI1'. pose proof Hsa1' as (HVb01' & _).
    assert (Ed : is_dir_info fi = false).
    { unfold is_dir_info. rewrite (proj1 Him). destruct (node_kind nd); [contradiction Hk |..]; reflexivity. }
    (* the Remove: backup step, then the base's Remove *)
    assert (Hnlp1'' : snolinkpar (Vb w1') n) by (rewrite HVb01'; exact Hnlp).
    destruct (backup_phase w1' n HI1' Hnlp1'')
      as (w1b & r2 & w2 & Hrunp & Hrunb & _ & HI2 & Hext2 & _ & Hok2).
    assert (Er2 : r2 = MOk tt).
    { apply Hok2. apply (present_all_dirs w1' n nd (inv_wf_b _ _ _ _ HI1')). rewrite HVb01'. exact Hb. }
    subst r2.
    assert (Hext : ext Vb w w2 (cands n)).
    { eapply ext_trans; [exact (same_all_ext Vb Vk w w1' (cands n) Hsa1') | exact Hext2
                        | apply incl_refl | apply incl_refl]. }
    pose proof Hext as (HVb2 & Hie).
    pose proof (inv_quiet _ _ _ _ HI2) as Hq2. pose proof (inv_wf_b _ _ _ _ HI2) as Hwf2.
    assert (Hnlp2 : snolinkpar (Vb w2) n) by (rewrite HVb2; exact Hnlp).
    assert (Hb2 : Vb w2 !! n = Some nd) by (rewrite HVb2; exact Hb).
    assert (Hnanc : ~ anc n).
    { intros Ha. destruct (law_anc_dir _ _ _ _ _ _ _ _ _ Lb w2 n Ha Hwf2) as [m Hm].
      rewrite Hb2 in Hm. injection Hm as ->. apply Hk. reflexivity. }
    destruct (law_remove_leaf _ _ _ _ _ _ _ _ _ Lb w2 n nd Hq2 Hwf2 Hnlp2 Hb2
                (leaf_no_children (Vb w2) n nd Hwf2 Hb2 Hk) Hnr Hnanc)
      as (s' & (w' & Hrun' & HV' & Hsr') & Hnone' & Heqv' & Hwf').
    assert (Hrm : b_remove base backup n w1' = (MOk tt, w')).
    { rewrite (b_remove_is_base base backup n n w1' w2); [exact Hrun' |].
      exists w1b. split; [exact Hrunp | exact Hrunb]. }
    assert (Hra : b_removeall base backup n w = (MOk tt, w')).
    { rewrite b_removeall_eq. rewrite (bind_ok _ _ w w1 n Hrun1).
      rewrite (bind_ok _ _ w1 w1' (Ok fi) (try_ok _ w1 w1' fi Hrun1')).
      rewrite Ed. cbn [negb]. exact Hrm. }
    destruct (quiet_eq w w2 Hq Hq2) as [Hc2 Hf2].
    rewrite HVb2 in Heqv'.
    exists w2, w', wd. split; [exact HVb2 |]. split; [exact Hc2 |]. split; [exact Hf2 |].
    split; [exact HI2 |]. split; [exact Hie |].
    split; [cbn [step]; rewrite (bind_ok _ _ w w' tt Hra); reflexivity |].
    split; [cbn [step_direct]; rewrite (bind_ok _ _ w2 w' tt Hrun'); reflexivity |].
    split; [cbn [step_direct]; rewrite (bind_ok _ _ w wd tt Hrund); reflexivity |].
    rewrite HV', HVd.
    split; [exact Hnone' |]. split; [exact Hnoned |]. split; [exact Heqv' |]. split; [exact Heqvd |].
    split; [| split; [exact Hwf' | exact Hsr']].
    intros p. destruct (str_eq_dec p n) as [-> | Hp].
    - rewrite Hnone', Hnoned. exact I.
    - assert (Hni : ~ In p [n]) by (intros [E | []]; exact (Hp (eq_sym E))).
      eapply sonode_eqv_trans; [exact (Heqv' p Hni) | apply sonode_eqv_sym; exact (Heqvd p Hni)].
  Qed.

  (** of a directory: the walk removes entry by entry; every Remove it
      issues is the base's own Remove of an entry at or below [n]
      ([mut1_transparent]), so nothing outside [n] changes; moreover the base
      view only loses entries, and the final state satisfies the invariant
      outright.  (The base has to satisfy the reading laws of Spec/Laws2.v:
      the walk lists directories.) *)
  Hypothesis HLb2 : base_laws2 base Vb Vk tnb accb rhb whb.
  Let Lb2 : api_laws2 base Vb Vk tnb accb rhb whb := HLb2.

  Definition keptF {A} (n : str) (w : world) (r : mres A) (w' : world) : Prop :=
    kept Vb Vk B0 (below_chain n) w r w' /\ outside n (Vb w') (Vb w).

  Lemma keptF_same {A} (n : str) (w w' : world) (r : mres A) :
    r <> MHalt -> Inv Vb Vk B0 w -> same_all Vb Vk w w' -> keptF n w r w'.
  Proof.
    intros Hnh HI Hsa. split; [exact (kept_same Vb Vk B0 _ w w' r Hnh HI Hsa) |].
    destruct Hsa as (HV & _). rewrite HV. apply outside_refl.
  Qed.

  Lemma keptF_trans {A B} (n : str) (w w1 w2 : world) (r1 : mres A) (r2 : mres B) :
    keptF n w r1 w1 -> keptF n w1 r2 w2 -> keptF n w r2 w2.
  Proof.
    intros [Hk1 Ho1] [Hk2 Ho2]. split; [exact (kept_trans Vb Vk B0 _ w w1 w2 r1 r2 Hk1 Hk2) |].
    exact (outside_trans n _ _ _ Ho2 Ho1).
  Qed.

  Lemma keptF_result {A B} (n : str) (w : world) (r : mres A) (r' : mres B) (w' : world) :
    r' <> MHalt -> keptF n w r w' -> keptF n w r' w'.
  Proof. intros Hnh [Hk Ho]. split; [exact (kept_result Vb Vk B0 _ w r r' w' Hnh Hk) | exact Ho]. Qed.

  Lemma remove_underF (n : str) (w : world) (d : str) :
    n <> s_root -> Inv Vb Vk B0 w -> okd Vb n w d ->
    exists r w', b_remove base backup d w = (r, w') /\ keptF n w r w'.
  Proof using HLb HLk Hlinks Hsmall HwfB0.
    intros Hnr HI Hd. pose proof Hd as [Hnlp Hun].
    destruct (remove_under base backup Vb Vk tnb tnk accb acck rhb rhk whb whk hid anc B0
                HLb HLk Hlinks Hsmall HwfB0 n w d Hnr HI Hd) as (r & w' & Hrun & Hk).
    exists r, w'. split; [exact Hrun |]. split; [exact Hk |].
    assert (Hcov : covered Vb (ORemove d) w).
    { split; [constructor |]. split; [constructor; [exact Hnlp | constructor] |].
      split; [intros D; discriminate D |]. split; [exact I |].
      exact (under_not_root n d Hnr Hun). }
    destruct (mut1_transparent (ORemove d) w HI Hcov (M1Remove d))
      as (w2 & r' & w'' & _ & _ & _ & _ & _ & Hstep & _ & _ & Heqv & _).
    cbn [step op_frame op_names] in Hstep, Heqv. unfold bind in Hstep. rewrite Hrun in Hstep.
    assert (Ew : w'' = w') by (destruct r as [[] | e |]; injection Hstep as _ E; exact (eq_sym E)).
    subst w''. intros p Hp. apply Heqv. intros [E | []]. apply Hp. rewrite <- E. exact Hun.
  Qed.

  Lemma walk_specF (n : str) : n <> s_root ->
    forall (fuel : nat) (path : str) (info : finfo) (acc : list str) (w : world),
    Inv Vb Vk B0 w -> okd Vb n w path -> (is_dir_info info = true -> sdir (Vb w) path) ->
    Forall (okd Vb n w) acc ->
    exists r w', walk_fold fuel base path info (ra_fn base backup) acc w = (r, w') /\ keptF n w r w' /\
                 forall acc', r = MOk acc' -> Forall (okd Vb n w') acc'.
  Proof using HLb HLk Hlinks Hsmall HwfB0 HLb2.
    intros Hnr. induction fuel as [|fuel IH]; intros path info acc w HI Hpath Hdir Hacc.
    { exists (MErr EFUEL), w. split; [reflexivity |].
      split; [apply keptF_same; [discriminate | exact HI | apply same_all_refl] | intros acc' D; discriminate D]. }
    cbn [walk_fold]. destruct (is_dir_info info) eqn:Ed.
    2:{ (* not a directory: removed *)
      destruct (remove_underF n w path Hnr HI Hpath) as (r1 & w1 & Hrun1 & Hk1).
      destruct r1 as [[] | e |]; [| | destruct Hk1 as [[Hnh _] _]; contradiction Hnh; reflexivity].
      - assert (Hfn : ra_fn base backup acc path info w = (MOk acc, w1)).
        { unfold ra_fn. rewrite Ed. rewrite (bind_ok _ _ w w1 tt Hrun1). reflexivity. }
        rewrite (bind_ok _ _ w w1 acc Hfn).
        exists (MOk acc), w1. split; [reflexivity |].
        split; [apply (keptF_result n w (MOk tt) (MOk acc) w1); [discriminate | exact Hk1] |].
        intros acc' E. injection E as <-. destruct Hk1 as [(_ & _ & _ & Hsh) _].
        exact (okd_shrinks Vb n w w1 acc Hsh Hacc).
      - assert (Hfn : ra_fn base backup acc path info w = (MErr e, w1)).
        { unfold ra_fn. rewrite Ed. rewrite (bind_err _ _ w w1 e Hrun1). reflexivity. }
        rewrite (bind_err _ _ w w1 e Hfn).
        exists (MErr e), w1. split; [reflexivity |].
        split; [apply (keptF_result n w (MErr e : mres unit) (MErr e) w1); [discriminate | exact Hk1] |].
        intros acc' D. discriminate D. }
    (* a directory: collected, its entries walked *)
    assert (Hfn : ra_fn base backup acc path info w = (MOk (acc ++ [path]), w)).
    { unfold ra_fn. rewrite Ed. reflexivity. }
    rewrite (bind_ok _ _ w w (acc ++ [path]) Hfn).
    destruct (Hdir eq_refl) as [m Hm]. destruct Hpath as [Hnlp Hun].
    destruct (law2_readdir _ _ _ _ _ _ _ Lb2 w path m (inv_quiet _ _ _ _ HI) (inv_wf_b _ _ _ _ HI) Hnlp Hm)
      as (r2 & w2 & Hrun2 & Hnh2 & HV2 & Hsr2 & Hnames).
    pose proof (same_all_base Vb Vk w w2 HV2 Hsr2) as Hsa2.
    destruct r2 as [names | e |]; [| | contradiction Hnh2; reflexivity].
    2:{ rewrite (bind_err _ _ w w2 e Hrun2). exists (MErr e), w2. split; [reflexivity |].
        split; [apply keptF_same; [discriminate | exact HI | exact Hsa2] | intros acc' D; discriminate D]. }
    rewrite (bind_ok _ _ w w2 names Hrun2).
    pose proof (Inv_transfer Vb Vk B0 w w2 HI Hsa2) as HI2.
    assert (Hacc2 : Forall (okd Vb n w2) (acc ++ [path])).
    { apply (okd_shrinks Vb n w w2); [apply shrinks_eq; exact HV2 |].
      apply Forall_app. split; [exact Hacc |]. constructor; [split; assumption | constructor]. }
    assert (Hnm2 : Forall (okd Vb n w2) (map (join2 path) names)).
    { specialize (Hnames names eq_refl). apply List.Forall_forall. intros f Hf.
      apply in_map_iff in Hf. destruct Hf as (nm & <- & Hnm).
      rewrite List.Forall_forall in Hnames. destruct (Hnames nm Hnm) as [Hex Hpar].
      destruct (Vb w !! join2 path nm) as [nd|] eqn:Hb; [| contradiction Hex; reflexivity].
      pose proof (swf_lookup_snolinkpar _ _ _ (inv_wf_b _ _ _ _ HI) Hb) as Hnlf.
      split; [rewrite HV2; exact Hnlf |].
      exact (under_child n path _ (proj1 (proj1 Hnlf)) Hun Hpar). }
    (* the entries, one after the other *)
    assert (Hfold : forall (l : list str) (acc0 : list str) (w0 : world),
              Inv Vb Vk B0 w0 -> Forall (okd Vb n w0) (map (join2 path) l) -> Forall (okd Vb n w0) acc0 ->
              exists r w', mfold (fun a name =>
                                    fi <- a_lstat base (join2 path name) ;;
                                    walk_fold fuel base (join2 path name) fi (ra_fn base backup) a) l acc0 w0 = (r, w') /\
                           keptF n w0 r w' /\
                           forall acc', r = MOk acc' -> Forall (okd Vb n w') acc').
    { induction l as [|nm rest IHl]; intros acc0 w0 HI0 Hl0 Hacc0.
      { exists (MOk acc0), w0. split; [reflexivity |].
        split; [apply keptF_same; [discriminate | exact HI0 | apply same_all_refl] |].
        intros acc' E. injection E as <-. exact Hacc0. }
      cbn [mfold]. cbn [map] in Hl0.
      pose proof (List.Forall_inv Hl0) as [Hnlf Hunf]. pose proof (List.Forall_inv_tail Hl0) as Hrest.
      pose proof (inv_quiet _ _ _ _ HI0) as Hq0. pose proof (inv_wf_b _ _ _ _ HI0) as Hwf0.
      destruct (Vb w0 !! join2 path nm) as [nd|] eqn:Hb.
      2:{ destruct (law_lstat_none _ _ _ _ _ _ _ _ _ Lb w0 _ Hq0 Hwf0 Hnlf Hb) as (e & w1 & Hrun1 & _ & HV1 & Hsr1).
          assert (Hin : (fi <- a_lstat base (join2 path nm) ;;
                         walk_fold fuel base (join2 path nm) fi (ra_fn base backup) acc0) w0 = (MErr e, w1)).
          { rewrite (bind_err _ _ w0 w1 e Hrun1). reflexivity. }
          rewrite (bind_err _ _ w0 w1 e Hin). exists (MErr e), w1. split; [reflexivity |].
          split; [apply keptF_same; [discriminate | exact HI0 | exact (same_all_base Vb Vk w0 w1 HV1 Hsr1)] |].
          intros acc' D. discriminate D. }
      destruct (law_lstat_some _ _ _ _ _ _ _ _ _ Lb w0 _ nd Hq0 Hwf0 Hnlf Hb)
        as (fi & (w1 & Hrun1 & HV1 & Hsr1) & Him & _).
      pose proof (same_all_base Vb Vk w0 w1 HV1 Hsr1) as Hsa1.
      pose proof (Inv_transfer Vb Vk B0 w0 w1 HI0 Hsa1) as HI1.
      destruct (IH (join2 path nm) fi acc0 w1 HI1) as (r3 & w3 & Hrun3 & Hk3 & Hacc3).
      { split; [rewrite HV1; exact Hnlf | exact Hunf]. }
      { intros Edf. rewrite HV1. unfold is_dir_info in Edf. rewrite (proj1 Him) in Edf.
        destruct nd as [md | md cd | md td]; [exists md; exact Hb | discriminate Edf | discriminate Edf]. }
      { apply (okd_shrinks Vb n w0 w1); [apply shrinks_eq; exact HV1 | exact Hacc0]. }
      assert (Hk03 : keptF n w0 r3 w3).
      { eapply keptF_trans; [| exact Hk3].
        apply (keptF_same n w0 w1 (MOk tt)); [discriminate | exact HI0 | exact Hsa1]. }
      assert (Hin : (fi <- a_lstat base (join2 path nm) ;;
                     walk_fold fuel base (join2 path nm) fi (ra_fn base backup) acc0) w0 = (r3, w3)).
      { rewrite (bind_ok _ _ w0 w1 fi Hrun1). exact Hrun3. }
      destruct r3 as [acc3 | e |]; [| | destruct Hk3 as [[Hnh _] _]; contradiction Hnh; reflexivity].
      2:{ rewrite (bind_err _ _ w0 w3 e Hin). exists (MErr e), w3. split; [reflexivity |].
          split; [exact Hk03 | intros acc' D; discriminate D]. }
      rewrite (bind_ok _ _ w0 w3 acc3 Hin).
      pose proof Hk03 as [(_ & HI3 & _ & Hsh03) _].
      destruct (IHl acc3 w3 HI3 (okd_shrinks Vb n w0 w3 _ Hsh03 Hrest) (Hacc3 acc3 eq_refl))
        as (r4 & w4 & Hrun4 & Hk4 & Hacc4).
      exists r4, w4. split; [exact Hrun4 |]. split; [exact (keptF_trans n w0 w3 w4 _ r4 Hk03 Hk4) | exact Hacc4]. }
    destruct (Hfold names (acc ++ [path]) w2 HI2 Hnm2 Hacc2) as (r5 & w5 & Hrun5 & Hk5 & Hacc5).
    exists r5, w5. split; [exact Hrun5 |]. split; [| exact Hacc5].
    eapply keptF_trans; [| exact Hk5].
    apply (keptF_same n w w2 (MOk tt)); [discriminate | exact HI | exact Hsa2].
  Qed.

  Lemma miter_removeF (n : str) : n <> s_root -> forall (l : list str) (w : world),
    Inv Vb Vk B0 w -> Forall (okd Vb n w) l ->
    exists r w', miter (b_remove base backup) l w = (r, w') /\ keptF n w r w'.
  Proof using HLb HLk Hlinks Hsmall HwfB0.
    intros Hnr. induction l as [|d rest IHl]; intros w HI Hl.
    { exists (MOk tt), w. split; [reflexivity |].
      apply keptF_same; [discriminate | exact HI | apply same_all_refl]. }
    cbn [miter].
    destruct (remove_underF n w d Hnr HI (List.Forall_inv Hl)) as (r1 & w1 & Hrun1 & Hk1).
    destruct r1 as [[] | e |]; [| | destruct Hk1 as [[Hnh _] _]; contradiction Hnh; reflexivity].
    - rewrite (bind_ok _ _ w w1 tt Hrun1). pose proof Hk1 as [(_ & HI1 & _ & Hsh1) _].
      destruct (IHl w1 HI1 (okd_shrinks Vb n w w1 rest Hsh1 (List.Forall_inv_tail Hl))) as (r2 & w2 & Hrun2 & Hk2).
      exists r2, w2. split; [exact Hrun2 | exact (keptF_trans n w w1 w2 _ r2 Hk1 Hk2)].
    - rewrite (bind_err _ _ w w1 e Hrun1). exists (MErr e), w1. split; [reflexivity | exact Hk1].
  Qed.

  (** RemoveAll of anything but the root (nothing, a file, a symlink, a
      directory with whatever lies below it): no halt; the base view changes
      at and below [n] only; it only loses entries; the invariant holds again;
      bookkeeping is added on the chains from the root to [n] and to entries
      below [n] only *)
  Theorem removeall_frame (w : world) (n : str) :
    Inv Vb Vk B0 w -> snolinkpar (Vb w) n -> n <> s_root ->
    exists r w', step base backup (ORemoveAll n) w = (r, w') /\ r <> MHalt /\
                 outside n (Vb w') (Vb w) /\ shrinks (Vb w) (Vb w') /\ Inv Vb Vk B0 w' /\
                 infos_ext_in w w' (below_chain n).
  Proof using HLb HLk Hlinks Hsmall HwfB0 HLb2.
    intros HI Hnlp Hnr.
    assert (Hmain : exists r w', b_removeall base backup n w = (r, w') /\ keptF n w r w').
    { rewrite b_removeall_eq.
      destruct (real_path_resolved_spec base Vb Vk tnb accb rhb whb hid anc Lb w n
                  (inv_quiet _ _ _ _ HI) (inv_wf_b _ _ _ _ HI) Hnlp) as (w1 & Hrun1 & HVb1 & Hsr1).
      pose proof (same_all_base Vb Vk w w1 HVb1 Hsr1) as Hsa1.
      pose proof (Inv_transfer Vb Vk B0 w w1 HI Hsa1) as HI1.
      assert (Hnlp1 : snolinkpar (Vb w1) n) by (rewrite HVb1; exact Hnlp).
      rewrite (bind_ok _ _ w w1 n Hrun1).
      destruct (Vb w !! n) as [nd|] eqn:Hb.
      2:{ assert (Hb1 : Vb w1 !! n = None) by (rewrite HVb1; exact Hb).
          destruct (law_lstat_none _ _ _ _ _ _ _ _ _ Lb w1 n (inv_quiet _ _ _ _ HI1) (inv_wf_b _ _ _ _ HI1) Hnlp1 Hb1)
            as (e & w2 & Hrun2 & Hnf & HV2 & Hsr2).
          pose proof (same_all_trans Vb Vk w w1 w2 Hsa1 (same_all_base Vb Vk w1 w2 HV2 Hsr2)) as Hsa2.
          rewrite (bind_ok _ _ w1 w2 (Err e) (try_err _ w1 w2 e Hrun2)).
          unfold not_found in Hnf. rewrite Hnf.
          exists (MOk tt), w2. split; [reflexivity |].
          apply keptF_same; [discriminate | exact HI | exact Hsa2]. }
      assert (Hb1 : Vb w1 !! n = Some nd) by (rewrite HVb1; exact Hb).
      destruct (law_lstat_some _ _ _ _ _ _ _ _ _ Lb w1 n nd (inv_quiet _ _ _ _ HI1) (inv_wf_b _ _ _ _ HI1) Hnlp1 Hb1)
        as (fi & (w2 & Hrun2 & HV2 & Hsr2) & Him & _).
      pose proof (same_all_trans Vb Vk w w1 w2 Hsa1 (same_all_base Vb Vk w1 w2 HV2 Hsr2)) as Hsa2.
      pose proof (Inv_transfer Vb Vk B0 w w2 HI Hsa2) as HI2. pose proof Hsa2 as (HVb02 & _).
      rewrite (bind_ok _ _ w1 w2 (Ok fi) (try_ok _ w1 w2 fi Hrun2)).
      assert (Hnlp2 : snolinkpar (Vb w2) n) by (rewrite HVb02; exact Hnlp).
      destruct (is_dir_info fi) eqn:Ed; cbn [negb].
      2:{ destruct (remove_underF n w2 n Hnr HI2 (conj Hnlp2 (or_introl eq_refl))) as (r3 & w3 & Hrun3 & Hk3).
          exists r3, w3. split; [exact Hrun3 |].
          eapply keptF_trans; [| exact Hk3].
          apply (keptF_same n w w2 (MOk tt)); [discriminate | exact HI | exact Hsa2]. }
      assert (Hb2 : Vb w2 !! n = Some nd) by (rewrite HVb02; exact Hb).
      destruct (law_lstat_some _ _ _ _ _ _ _ _ _ Lb w2 n nd (inv_quiet _ _ _ _ HI2) (inv_wf_b _ _ _ _ HI2) Hnlp2 Hb2)
        as (fi' & (w3 & Hrun3 & HV3 & Hsr3) & Him' & _).
      pose proof (same_all_trans Vb Vk w w2 w3 Hsa2 (same_all_base Vb Vk w2 w3 HV3 Hsr3)) as Hsa3.
      pose proof (Inv_transfer Vb Vk B0 w w3 HI Hsa3) as HI3. pose proof Hsa3 as (HVb03 & _).
      destruct (walk_specF n Hnr tree_fuel n fi' [] w3 HI3) as (r4 & w4 & Hrun4 & Hk4 & Hacc4).
      { split; [rewrite HVb03; exact Hnlp | left; reflexivity]. }
      { intros Edf. rewrite HVb03. unfold is_dir_info in Edf. rewrite (proj1 Him') in Edf.
        destruct nd as [md | md cd | md td]; [exists md; exact Hb | discriminate Edf | discriminate Edf]. }
      { constructor. }
      assert (Hk04 : keptF n w r4 w4).
      { eapply keptF_trans; [| exact Hk4].
        apply (keptF_same n w w3 (MOk tt)); [discriminate | exact HI | exact Hsa3]. }
      assert (Hwalk : walk_m base n (ra_fn base backup) [] w2 = (r4, w4)).
      { unfold walk_m. rewrite (bind_ok _ _ w2 w3 fi' Hrun3). exact Hrun4. }
      destruct r4 as [dirs | e |]; [| | destruct Hk4 as [[Hnh _] _]; contradiction Hnh; reflexivity].
      2:{ rewrite (bind_err _ _ w2 w4 e Hwalk). exists (MErr e), w4. split; [reflexivity |].
          apply (keptF_result n w (MErr e : mres (list str)) (MErr e) w4); [discriminate | exact Hk04]. }
      rewrite (bind_ok _ _ w2 w4 dirs Hwalk).
      pose proof Hk04 as [(_ & HI4 & _ & _) _].
      assert (Hsorted : Forall (okd Vb n w4) (sort_most dirs)).
      { specialize (Hacc4 dirs eq_refl). apply List.Forall_forall. intros d Hd.
        rewrite List.Forall_forall in Hacc4. apply Hacc4.
        unfold sort_most in Hd. exact (Permutation_in d (isort_perm most dirs) Hd). }
      destruct (miter_removeF n Hnr (sort_most dirs) w4 HI4 Hsorted) as (r5 & w5 & Hrun5 & Hk5).
      exists r5, w5. split; [exact Hrun5 |].
      exact (keptF_trans n w w4 w5 _ r5 Hk04 Hk5). }
    destruct Hmain as (r & w' & Hrun & [(Hnh & HI' & Hie & Hsh) Hout]).
    destruct r as [[] | e |]; [| | contradiction Hnh; reflexivity].
    - exists (MOk ObUnit), w'. split; [cbn [step]; rewrite (bind_ok _ _ w w' tt Hrun); reflexivity |].
      split; [discriminate |]. split; [exact Hout |]. split; [exact Hsh |]. split; [exact HI' | exact Hie].
    - exists (MErr e), w'. split; [cbn [step]; rewrite (bind_err _ _ w w' e Hrun); reflexivity |].
      split; [discriminate |]. split; [exact Hout |]. split; [exact Hsh |]. split; [exact HI' | exact Hie].
  Qed.

  (** ** where the laws say precisely what the base does, the comparison can
      be made with the direct operation IN THE SAME WORLD (not only in the
      world the backup step left): same success or failure, same resulting
      base view *)
  Lemma ok_unit (m : M unit) (w : world) (s' : store) :
    ok_step Vb Vk m w tt s' ->
    exists w', (m ;;; ret ObUnit) w = (MOk ObUnit, w') /\ Vb w' = s'.
  Proof.
    intros (w' & Hrun & HV & _). exists w'. split; [| exact HV].
    rewrite (bind_ok _ _ w w' tt Hrun). reflexivity.
  Qed.

  Lemma err_unit (m : M unit) (w : world) (P : errno -> Prop) :
    err_step Vb Vk m w P ->
    exists e w', (m ;;; ret ObUnit) w = (MErr e, w') /\ P e /\ Vb w' = Vb w.
  Proof.
    intros (e & w' & Hrun & HP & HV & _). exists e, w'. split; [| split; [exact HP | exact HV]].
    rewrite (bind_err _ _ w w' e Hrun). reflexivity.
  Qed.

  (** Chmod, Chown, Lchown, Chtimes of an existing entry *)
  Inductive meta_op : op -> Prop :=
    | MoChmod n m : meta_op (OChmod n m)
    | MoChown n u g : meta_op (OChown n u g)
    | MoLchown n u g : meta_op (OLchown n u g)
    | MoChtimes n t : meta_op (OChtimes n t).

  Definition meta_result (o : op) (nd : node) : node :=
    match o with
    | OChmod _ m => with_meta nd (set_perm m)
    | OChown _ u g | OLchown _ u g => chown_node nd u g
    | OChtimes _ t => with_meta nd (set_mt (Preset t))
    | _ => nd
    end.

  Theorem meta_op_same (o : op) (w : world) (nd : node) :
    Inv Vb Vk B0 w -> covered Vb o w -> meta_op o -> Vb w !! op_name o = Some nd ->
    exists w' wd,
      step base backup o w = (MOk ObUnit, w') /\ step_direct base o w = (MOk ObUnit, wd) /\
      Vb w' = Vb wd /\ Vb w' = <[ op_name o := meta_result o nd ]> (Vb w).
  Proof using HLb HLk Hlinks Hsmall HwfB0.
    intros HI Hcov Hmo Hb.
    assert (Hm : mut1 o) by (destruct Hmo; constructor).
    destruct (covered_name o w Hm Hcov) as [Hn Hfol].
    assert (Hprec : forall w0, quiet w0 -> swf (Vb w0) -> Vb w0 = Vb w ->
              exists w3, step_direct base o w0 = (MOk ObUnit, w3) /\
                         Vb w3 = <[ op_name o := meta_result o nd ]> (Vb w)).
    { intros w0 Hq0 Hwf0 HV0.
      assert (Hn0 : snolinkpar (Vb w0) (op_name o)) by (rewrite HV0; exact Hn).
      assert (Hb0 : Vb w0 !! op_name o = Some nd) by (rewrite HV0; exact Hb).
      assert (Hnl : follows o = true -> ~ is_link nd).
      { intros Hf (m & t & ->). exact (Hfol Hf m t Hb). }
      destruct Hmo as [n m | n u g | n u g | n t];
        cbn [step_direct op_name op_names meta_result follows] in *; rewrite <- HV0.
      - exact (ok_unit _ w0 _ (law_chmod _ _ _ _ _ _ _ _ _ Lb w0 n m nd Hq0 Hwf0 Hn0 Hb0 (Hnl eq_refl))).
      - exact (ok_unit _ w0 _ (law_chown _ _ _ _ _ _ _ _ _ Lb w0 n u g nd Hq0 Hwf0 Hn0 Hb0 (Hnl eq_refl))).
      - exact (ok_unit _ w0 _ (law_lchown _ _ _ _ _ _ _ _ _ Lb w0 n u g nd Hq0 Hwf0 Hn0 Hb0)).
      - exact (ok_unit _ w0 _ (law_chtimes _ _ _ _ _ _ _ _ _ Lb w0 n (Preset t) nd Hq0 Hwf0 Hn0 Hb0 (Hnl eq_refl))). }
    destruct (mut1_transparent o w HI Hcov Hm)
      as (w2 & r & w' & HVb2 & _ & _ & HI2 & _ & Hstep & _ & _ & _ & _ & [(_ & _ & Hnd) | Hdir]).
    { exfalso. apply Hnd. exact (present_all_dirs w _ nd (inv_wf_b _ _ _ _ HI) Hb). }
    destruct (Hprec w2 (inv_quiet _ _ _ _ HI2) (inv_wf_b _ _ _ _ HI2) HVb2) as (w3 & Hrun3 & HV3).
    destruct (Hprec w (inv_quiet _ _ _ _ HI) (inv_wf_b _ _ _ _ HI) eq_refl) as (wd & Hrund & HVd).
    rewrite Hdir in Hrun3. injection Hrun3 as -> ->.
    exists w3, wd. split; [exact Hstep |]. split; [exact Hrund |]. split; [congruence | exact HV3].
  Qed.

  (** Remove of a resolved name all of whose existing proper ancestors are
      directories (so that the backup step cannot fail): it succeeds through
      BackupFS iff it succeeds directly - an entry without children in the
      view (not a proper ancestor of a hidden location) is gone afterwards,
      otherwise both fail and change nothing (a missing entry: both report
      "not found") - and the resulting base views agree *)
  Theorem remove_same (w : world) (n : str) :
    Inv Vb Vk B0 w -> snolinkpar (Vb w) n -> n <> s_root -> all_dirs Vb w n ->
    exists r w' rd wd,
      step base backup (ORemove n) w = (r, w') /\ step_direct base (ORemove n) w = (rd, wd) /\
      dir_mt_only (Vb w') (Vb wd) /\
      ((r = MOk ObUnit /\ rd = MOk ObUnit /\ Vb w' !! n = None /\ Vb wd !! n = None /\
        store_eqv_except [n] (Vb w') (Vb w)) \/
       (exists e ed, r = MErr e /\ rd = MErr ed /\ Vb w' = Vb w /\ Vb wd = Vb w /\
          (Vb w !! n = None -> is_not_found e = true /\ is_not_found ed = true))).
  Proof using HLb HLk Hlinks Hsmall HwfB0.
    intros HI Hn Hnr Hdirs.
    assert (Hcov : covered Vb (ORemove n) w).
    { split; [constructor |]. split; [constructor; [exact Hn | constructor] |].
      split; [intros D; discriminate D |]. split; [exact I | exact Hnr]. }
    destruct (mut1_transparent (ORemove n) w HI Hcov (M1Remove n))
      as (w2 & r & w' & HVb2 & _ & _ & HI2 & _ & Hstep & _ & _ & _ & _ & [(_ & _ & Hnd) | Hdir]).
    { exfalso. exact (Hnd Hdirs). }
    pose proof (inv_quiet _ _ _ _ HI) as Hq. pose proof (inv_wf_b _ _ _ _ HI) as Hwf.
    pose proof (inv_quiet _ _ _ _ HI2) as Hq2. pose proof (inv_wf_b _ _ _ _ HI2) as Hwf2.
    assert (Hcase :
      (forall w0, quiet w0 -> swf (Vb w0) -> Vb w0 = Vb w ->
         exists w3, step_direct base (ORemove n) w0 = (MOk ObUnit, w3) /\
                    Vb w3 !! n = None /\ store_eqv_except [n] (Vb w3) (Vb w)) \/
      (forall w0, quiet w0 -> swf (Vb w0) -> Vb w0 = Vb w ->
         exists e w3, step_direct base (ORemove n) w0 = (MErr e, w3) /\ Vb w3 = Vb w /\
                      (Vb w !! n = None -> is_not_found e = true))).
    { destruct (law_anc_dec _ _ _ _ _ _ _ _ _ Lb n) as [Hanc | Hnanc].
      { right. intros w0 Hq0 Hwf0 HV0. cbn [step_direct].
        destruct (err_unit _ w0 _ (law_remove_anc _ _ _ _ _ _ _ _ _ Lb w0 n Hq0 Hwf0 Hanc)) as (e & w3 & Hrun & _ & HV3).
        exists e, w3. split; [exact Hrun |]. split; [congruence |].
        intros Hnone. destruct (law_anc_dir _ _ _ _ _ _ _ _ _ Lb w n Hanc Hwf) as [m Hm].
        rewrite Hnone in Hm. discriminate Hm. }
      destruct (Vb w !! n) as [nd|] eqn:Hb.
      2:{ right. intros w0 Hq0 Hwf0 HV0. cbn [step_direct].
          assert (Hn0 : snolinkpar (Vb w0) n) by (rewrite HV0; exact Hn).
          assert (Hb0 : Vb w0 !! n = None) by (rewrite HV0; exact Hb).
          destruct (err_unit _ w0 _ (law_remove_none _ _ _ _ _ _ _ _ _ Lb w0 n Hq0 Hwf0 Hn0 Hb0)) as (e & w3 & Hrun & Hnf & HV3).
          exists e, w3. split; [exact Hrun |]. split; [congruence | intros _; exact Hnf]. }
      destruct (no_children_dec (Vb w) n) as [Hnc | Hnnc].
      - left. intros w0 Hq0 Hwf0 HV0. cbn [step_direct].
        assert (Hn0 : snolinkpar (Vb w0) n) by (rewrite HV0; exact Hn).
        assert (Hb0 : Vb w0 !! n = Some nd) by (rewrite HV0; exact Hb).
        assert (Hnc0 : no_children (Vb w0) n) by (rewrite HV0; exact Hnc).
        destruct (law_remove_leaf _ _ _ _ _ _ _ _ _ Lb w0 n nd Hq0 Hwf0 Hn0 Hb0 Hnc0 Hnr Hnanc)
          as (s' & Hok & Hnone & Heqv & _).
        destruct (ok_unit _ w0 _ Hok) as (w3 & Hrun & HV3).
        exists w3. split; [exact Hrun |]. rewrite HV3. split; [exact Hnone |]. rewrite <- HV0. exact Heqv.
      - right. intros w0 Hq0 Hwf0 HV0. cbn [step_direct].
        assert (Hn0 : snolinkpar (Vb w0) n) by (rewrite HV0; exact Hn).
        assert (Hb0 : Vb w0 !! n = Some nd) by (rewrite HV0; exact Hb).
        assert (Hnnc0 : ~ no_children (Vb w0) n) by (rewrite HV0; exact Hnnc).
        destruct (err_unit _ w0 _ (law_remove_nonempty _ _ _ _ _ _ _ _ _ Lb w0 n nd Hq0 Hwf0 Hn0 Hb0 Hnnc0))
          as (e & w3 & Hrun & _ & HV3).
        exists e, w3. split; [exact Hrun |]. split; [congruence | intros D; discriminate D]. }
    destruct Hcase as [Hok | Herr].
    - destruct (Hok w2 Hq2 Hwf2 HVb2) as (w3 & Hrun3 & Hnone3 & Heqv3).
      destruct (Hok w Hq Hwf eq_refl) as (wd & Hrund & Hnoned & Heqvd).
      rewrite Hdir in Hrun3. injection Hrun3 as -> ->.
      exists (MOk ObUnit), w3, (MOk ObUnit), wd. split; [exact Hstep |]. split; [exact Hrund |]. split.
      + intros p. destruct (str_eq_dec p n) as [-> | Hp].
        * rewrite Hnone3, Hnoned. exact I.
        * assert (Hni : ~ In p [n]) by (intros [E | []]; exact (Hp (eq_sym E))).
          eapply sonode_eqv_trans; [exact (Heqv3 p Hni) | apply sonode_eqv_sym; exact (Heqvd p Hni)].
      + left. repeat (split; [first [reflexivity | assumption] |]). exact Heqv3.
    - destruct (Herr w2 Hq2 Hwf2 HVb2) as (e & w3 & Hrun3 & HV3 & Hnf3).
      destruct (Herr w Hq Hwf eq_refl) as (ed & wd & Hrund & HVd & Hnfd).
      rewrite Hdir in Hrun3. injection Hrun3 as -> ->.
      exists (MErr e), w3, (MErr ed), wd. split; [exact Hstep |]. split; [exact Hrund |]. split.
      + intros p. rewrite HV3, HVd. apply sonode_eqv_refl.
      + right. exists e, ed. split; [reflexivity |]. split; [reflexivity |]. split; [exact HV3 |].
        split; [exact HVd |]. intros Hnone. split; [exact (Hnf3 Hnone) | exact (Hnfd Hnone)].
  Qed.

  (** ** T3 in one statement: a covered mutating operation changes the base
      view at the entry (entries) the caller named only - MkdirAll: on the
      chain from the root to the name; RemoveAll: at and below the name -
      directory timestamps aside; never a sibling, never (MkdirAll aside) a
      parent *)
  Theorem covered_frame (o : op) (w : world) (r : mres obs) (w' : world) :
    Inv Vb Vk B0 w -> covered Vb o w -> mutating o ->
    step base backup o w = (r, w') ->
    r <> MHalt /\ swf (Vb w') /\ changes_only o (Vb w') (Vb w).
  Proof using HLb HLk Hlinks Hsmall HwfB0 HLb2.
    intros HI Hcov [Hm | [(a & b & ->) | (n & ->)]] Hstep.
    - destruct (mut1_transparent o w HI Hcov Hm)
        as (w2 & r0 & w0 & _ & _ & _ & _ & _ & Hrun & Hnh & Hwf & Heqv & _).
      rewrite Hstep in Hrun. injection Hrun as -> ->.
      split; [exact Hnh |]. split; [exact Hwf |]. destruct Hm; exact Heqv.
    - destruct (rename_transparent a b w HI Hcov)
        as (w2 & r0 & w0 & _ & _ & _ & _ & _ & Hrun & Hnh & Hwf & Heqv & _).
      rewrite Hstep in Hrun. injection Hrun as -> ->.
      split; [exact Hnh |]. split; [exact Hwf | exact Heqv].
    - pose proof Hcov as (_ & Hres & _ & _ & Hnr). cbn [op_names removeall_not_root] in Hres, Hnr.
      destruct (removeall_frame w n HI (List.Forall_inv Hres) Hnr)
        as (r0 & w0 & Hrun & Hnh & Hout & _ & HI' & _).
      rewrite Hstep in Hrun. injection Hrun as -> ->.
      split; [exact Hnh |]. split; [exact (inv_wf_b _ _ _ _ HI') | exact Hout].
  Qed.
End Transparent.

Print Assumptions step_mut1_cases.
Print Assumptions step_rename_cases.
Print Assumptions mut1_transparent.
Print Assumptions rename_transparent.
Print Assumptions removeall_absent_transparent.
Print Assumptions removeall_leaf_transparent.
Print Assumptions removeall_frame.
Print Assumptions covered_frame.
Print Assumptions meta_op_same.
Print Assumptions remove_same.

(* ------------------------------------------------------------------ *)
(** * The statements, as predicates of a layering (its two filesystems, their
      views, the base view [B0] the transaction began with) *)

Definition mut1_transparent_stmt (base backup : fsapi) (Vb Vk : world -> store) (B0 : store) : Prop :=
  forall o w, Inv Vb Vk B0 w -> covered Vb o w -> mut1 o ->
  exists w2 r w',
    Vb w2 = Vb w /\ w_crash w2 = w_crash w /\ w_faults w2 = w_faults w /\ Inv Vb Vk B0 w2 /\
    infos_ext w w2 (cands (op_name o)) /\
    step base backup o w = (r, w') /\ r <> MHalt /\
    swf (Vb w') /\ store_eqv_except (op_frame o) (Vb w') (Vb w) /\ same_rest Vk w2 w' /\
    (((exists e, r = MErr e) /\ w' = w2 /\ ~ all_dirs Vb w (op_name o)) \/
     step_direct base o w2 = (r, w')).

Definition rename_transparent_stmt (base backup : fsapi) (Vb Vk : world -> store) (B0 : store) : Prop :=
  forall o n w, Inv Vb Vk B0 w -> covered Vb (ORename o n) w ->
  exists w2 r w',
    Vb w2 = Vb w /\ w_crash w2 = w_crash w /\ w_faults w2 = w_faults w /\ Inv Vb Vk B0 w2 /\
    infos_ext w w2 (cands o ++ cands n) /\
    step base backup (ORename o n) w = (r, w') /\ r <> MHalt /\
    swf (Vb w') /\ store_eqv_except [o; n] (Vb w') (Vb w) /\ same_rest Vk w2 w' /\
    (((exists e, r = MErr e) /\ w' = w2 /\ ~ (all_dirs Vb w o /\ all_dirs Vb w n)) \/
     step_direct base (ORename o n) w2 = (r, w')).

Definition removeall_absent_stmt (base backup : fsapi) (Vb Vk : world -> store) (B0 : store) : Prop :=
  forall w n, Inv Vb Vk B0 w -> snolinkpar (Vb w) n -> Vb w !! n = None ->
  exists w', b_removeall base backup n w = (MOk tt, w') /\
             step base backup (ORemoveAll n) w = (MOk ObUnit, w') /\ same_all Vb Vk w w'.

Definition removeall_leaf_stmt (base backup : fsapi) (Vb Vk : world -> store) (B0 : store) : Prop :=
  forall w n nd, Inv Vb Vk B0 w -> snolinkpar (Vb w) n -> n <> s_root ->
  Vb w !! n = Some nd -> node_kind nd <> KDir ->
  exists w2 w' wd,
    Vb w2 = Vb w /\ w_crash w2 = w_crash w /\ w_faults w2 = w_faults w /\ Inv Vb Vk B0 w2 /\
    infos_ext w w2 (cands n) /\
    step base backup (ORemoveAll n) w = (MOk ObUnit, w') /\
    step_direct base (ORemove n) w2 = (MOk ObUnit, w') /\
    step_direct base (ORemoveAll n) w = (MOk ObUnit, wd) /\
    Vb w' !! n = None /\ Vb wd !! n = None /\
    store_eqv_except [n] (Vb w') (Vb w) /\ store_eqv_except [n] (Vb wd) (Vb w) /\
    dir_mt_only (Vb w') (Vb wd) /\ swf (Vb w') /\ same_rest Vk w2 w'.

Definition removeall_frame_stmt (base backup : fsapi) (Vb Vk : world -> store) (B0 : store) : Prop :=
  forall w n, Inv Vb Vk B0 w -> snolinkpar (Vb w) n -> n <> s_root ->
  exists r w', step base backup (ORemoveAll n) w = (r, w') /\ r <> MHalt /\
               outside n (Vb w') (Vb w) /\ shrinks (Vb w) (Vb w') /\ Inv Vb Vk B0 w' /\
               infos_ext_in w w' (below_chain n).

Definition covered_frame_stmt (base backup : fsapi) (Vb Vk : world -> store) (B0 : store) : Prop :=
  forall o w r w', Inv Vb Vk B0 w -> covered Vb o w -> mutating o ->
  step base backup o w = (r, w') ->
  r <> MHalt /\ swf (Vb w') /\ changes_only o (Vb w') (Vb w).

Definition meta_op_same_stmt (base backup : fsapi) (Vb Vk : world -> store) (B0 : store) : Prop :=
  forall o w nd, Inv Vb Vk B0 w -> covered Vb o w -> meta_op o -> Vb w !! op_name o = Some nd ->
  exists w' wd,
    step base backup o w = (MOk ObUnit, w') /\ step_direct base o w = (MOk ObUnit, wd) /\
    Vb w' = Vb wd /\ Vb w' = <[ op_name o := meta_result o nd ]> (Vb w).

Definition remove_same_stmt (base backup : fsapi) (Vb Vk : world -> store) (B0 : store) : Prop :=
  forall w n, Inv Vb Vk B0 w -> snolinkpar (Vb w) n -> n <> s_root -> all_dirs Vb w n ->
  exists r w' rd wd,
    step base backup (ORemove n) w = (r, w') /\ step_direct base (ORemove n) w = (rd, wd) /\
    dir_mt_only (Vb w') (Vb wd) /\
    ((r = MOk ObUnit /\ rd = MOk ObUnit /\ Vb w' !! n = None /\ Vb wd !! n = None /\
      store_eqv_except [n] (Vb w') (Vb w)) \/
     (exists e ed, r = MErr e /\ rd = MErr ed /\ Vb w' = Vb w /\ Vb wd = Vb w /\
        (Vb w !! n = None -> is_not_found e = true /\ is_not_found ed = true))).

(** the direct operation, on any filesystem satisfying the laws, is framed
    (this is about the base alone: no BackupFS involved) *)
Definition direct_framed_stmt (base : fsapi) (Vb Vk : world -> store) : Prop :=
  forall o w, mut1 o -> quiet w -> swf (Vb w) -> snolinkpar (Vb w) (op_name o) ->
  (follows o = true -> snotlink (Vb w) (op_name o)) -> removeall_not_root o ->
  exists r w', step_direct base o w = (r, w') /\ r <> MHalt /\
               same_rest Vk w w' /\ swf (Vb w') /\ store_eqv_except (op_frame o) (Vb w') (Vb w).

(** all of them *)
Definition c03_mutating_stmt (base backup : fsapi) (Vb Vk : world -> store) (B0 : store) : Prop :=
  mut1_transparent_stmt base backup Vb Vk B0 /\
  rename_transparent_stmt base backup Vb Vk B0 /\
  removeall_absent_stmt base backup Vb Vk B0 /\
  removeall_leaf_stmt base backup Vb Vk B0 /\
  removeall_frame_stmt base backup Vb Vk B0 /\
  covered_frame_stmt base backup Vb Vk B0 /\
  direct_framed_stmt base Vb Vk /\
  meta_op_same_stmt base backup Vb Vk B0 /\
  remove_same_stmt base backup Vb Vk B0.

(** from the laws *)
Theorem c03_mutating_spec :
  forall base backup Vb Vk tnb tnk accb acck rhb rhk whb whk hid anc B0,
  base_laws base Vb Vk tnb accb rhb whb hid anc -> base_laws2 base Vb Vk tnb accb rhb whb ->
  backup_laws backup Vb Vk tnk acck rhk whk ->
  links_ok tnb tnk accb acck B0 -> all_small B0 -> swf B0 ->
  c03_mutating_stmt base backup Vb Vk B0.
Proof.
  intros base backup Vb Vk tnb tnk accb acck rhb rhk whb whk hid anc B0 HLb HLb2 HLk Hl Hs Hwf.
  split; [| split; [| split; [| split; [| split; [| split; [| split; [| split]]]]]]].
  - exact (mut1_transparent base backup Vb Vk tnb tnk accb acck rhb rhk whb whk hid anc B0 HLb HLk Hl Hs Hwf).
  - exact (rename_transparent base backup Vb Vk tnb tnk accb acck rhb rhk whb whk hid anc B0 HLb HLk Hl Hs Hwf).
  - exact (removeall_absent_transparent base backup Vb Vk tnb accb rhb whb hid anc B0 HLb).
  - exact (removeall_leaf_transparent base backup Vb Vk tnb tnk accb acck rhb rhk whb whk hid anc B0 HLb HLk Hl Hs Hwf).
  - exact (removeall_frame base backup Vb Vk tnb tnk accb acck rhb rhk whb whk hid anc B0 HLb HLk Hl Hs Hwf HLb2).
  - intros o w r w'.
    exact (covered_frame base backup Vb Vk tnb tnk accb acck rhb rhk whb whk hid anc B0 HLb HLk Hl Hs Hwf HLb2 o w r w').
  - exact (direct_framed base Vb Vk tnb accb rhb whb hid anc HLb).
  - exact (meta_op_same base backup Vb Vk tnb tnk accb acck rhb rhk whb whk hid anc B0 HLb HLk Hl Hs Hwf).
  - exact (remove_same base backup Vb Vk tnb tnk accb acck rhb rhk whb whk hid anc B0 HLb HLk Hl Hs Hwf).
Qed.

Print Assumptions c03_mutating_spec.

(* ------------------------------------------------------------------ *)
(** * Part 3: the two concrete layerings, closed *)
From BFS Require Import Spec.ViewOsfs Spec.ViewHidden Proofs.LawsOsfsBase Proofs.LawsOsfs Proofs.LawsHidden.

(** the generic layering [gcfg pa pb]: base = PrefixFS([pa]) over the OS
    filesystem, backup = PrefixFS([pb]) over the same OS filesystem, the two
    prefixes disjoint *)
Theorem c03_mutating_concrete : forall pa pb,
  prefix_ok pa -> prefix_ok pb -> disjoint_prefixes pa pb ->
  forall B0, links_ok clean clean (acc_p pa) (acc_p pb) B0 -> all_small B0 -> swf B0 ->
  c03_mutating_stmt (cfg_base (gcfg pa pb)) (cfg_backup (gcfg pa pb)) (Vp pa) (Vp pb) B0.
Proof.
  intros pa pb Ha Hb Hd B0 Hl Hs Hwf.
  exact (c03_mutating_spec (the_api TBase pa) (the_api TBackup pb) (Vp pa) (Vp pb) clean clean
           (acc_p pa) (acc_p pb) (rh_p TBase pa) (rh_p TBackup pb) (wh_p TBase pa) (wh_p TBackup pb)
           nohid nohid B0
           (the_api_laws TBase pa pb Ha Hb Hd) (the_api_laws2 TBase pa pb Ha Hb Hd)
           (the_api_laws TBackup pb pa Hb Ha (disjoint_prefixes_sym pa pb Hd)) Hl Hs Hwf).
Qed.

(** the documented layering [dcfg pa h]: base = HiddenFS([h]) over
    PrefixFS([pa]), the backup location [pa ++ h] inside the base tree *)
Theorem c03_mutating_documented : forall pa h,
  prefix_ok pa -> hidden_ok h ->
  forall B0, links_ok clean clean (acc_h pa h) (acc_p (pk_h pa h)) B0 -> all_small B0 -> swf B0 ->
  c03_mutating_stmt (cfg_base (dcfg pa h)) (cfg_backup (dcfg pa h)) (VpH pa h) (Vp (pk_h pa h)) B0.
Proof.
  intros pa h Ha Hh B0 Hl Hs Hwf.
  exact (c03_mutating_spec (hid_api TBase pa h) (the_api TBackup (pk_h pa h)) (VpH pa h) (Vp (pk_h pa h))
           clean clean (acc_h pa h) (acc_p (pk_h pa h))
           (rh_h TBase pa) (rh_p TBackup (pk_h pa h)) (wh_h TBase pa) (wh_p TBackup (pk_h pa h))
           (hid_h h) (anc_h h) B0
           (hid_api_laws TBase pa h Ha Hh) (hid_api_laws2 TBase pa h Ha Hh)
           (backup_laws_hidden TBackup pa h Ha Hh) Hl Hs Hwf).
Qed.

Print Assumptions c03_mutating_concrete.
Print Assumptions c03_mutating_documented.
