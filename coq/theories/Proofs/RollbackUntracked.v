(** C13, first clause, as a consequence of Theorem A: Rollback leaves every
    path that the transaction does not track as it finds it.

    [Proofs/Footprint.v] shows which NAMES Rollback hands to the filesystems
    (only tracked ones).  This file shows what that means for the CONTENT of
    the base view: an entry whose path is not a key of [baseInfos] when
    Rollback starts is the same entry afterwards — whatever the transaction
    did before, in particular when it put a symlink pointing at that entry in
    the place of a tracked file or directory (seeded change S-C13-7 removes
    exactly the guard this rests on). *)
From stdpp Require Import gmap.
From BFS Require Import Spec.CopySpecs Spec.ViewOsfs.
From BFS Require Import Proofs.LawsOsfsBase Proofs.LawsOsfsA Proofs.LawsOsfsB.
From BFS Require Import Proofs.BackupCopy Proofs.BackupTry Proofs.BackupRollback Proofs.BackupC01 Proofs.BackupForce.
From BFS Require Import Proofs.LawsOsfs.
From BFS Require Import Spec.ViewHidden Spec.ViewRoot Proofs.LawsHidden Proofs.LawsNew.

(** the invariant pins untracked paths to the baseline; a restored view equals
    the baseline: together, untracked paths are untouched *)
Lemma untracked_unchanged (Vb Vk : world -> store) (B0 : store) (w w' : world) :
  Inv Vb Vk B0 w -> store_eqv (Vb w') B0 ->
  forall p, p <> s_root -> w_infos w !! p = None -> sonode_eqv (Vb w' !! p) (Vb w !! p).
Proof.
  intros HI He p Hp Hu.
  eapply sonode_eqv_trans; [exact (He p Hp) |].
  apply sonode_eqv_sym. exact (inv_untracked _ _ _ _ HI p Hu).
Qed.

(** law level: any two filesystems satisfying the laws, any state satisfying
    the transaction invariant *)
Theorem rollback_untracked_spec :
  forall base backup Vb Vk tnb tnk accb acck rhb rhk whb whk hid anc B0,
  base_laws base Vb Vk tnb accb rhb whb hid anc -> backup_laws backup Vb Vk tnk acck rhk whk ->
  links_ok tnb tnk accb acck B0 -> all_small B0 -> swf B0 -> loc_ok hid anc B0 ->
  forall w, Inv Vb Vk B0 w ->
  exists w', b_rollback base backup w = (MOk tt, w') /\
    forall p, p <> s_root -> w_infos w !! p = None -> sonode_eqv (Vb w' !! p) (Vb w !! p).
Proof.
  intros base backup Vb Vk tnb tnk accb acck rhb rhk whb whk hid anc B0 HLb HLk Hl Hs Hwf Hloc w HI.
  destruct (rollback_spec base backup Vb Vk tnb tnk accb acck rhb rhk whb whk hid anc B0
              HLb HLk Hl Hs Hwf Hloc w HI) as (w' & Hrun & _ & Heq & _ & _).
  exists w'. split; [exact Hrun |].
  exact (untracked_unchanged Vb Vk B0 w w' HI Heq).
Qed.

(** closed, for the generic layering (two disjoint PrefixFS over the OS model) *)
Theorem rollback_untracked_concrete :
  forall pa pb, prefix_ok pa -> prefix_ok pb -> disjoint_prefixes pa pb ->
  forall B0, links_ok clean clean (acc_p pa) (acc_p pb) B0 -> all_small B0 -> swf B0 ->
  forall w, Inv (Vp pa) (Vp pb) B0 w ->
  exists w', b_rollback (cfg_base (gcfg pa pb)) (cfg_backup (gcfg pa pb)) w = (MOk tt, w') /\
    forall p, p <> s_root -> w_infos w !! p = None -> sonode_eqv (Vp pa w' !! p) (Vp pa w !! p).
Proof.
  intros pa pb Ha Hb Hd B0 Hl Hs Hwf w HI.
  destruct (rollback_concrete pa pb Ha Hb Hd B0 Hl Hs Hwf w HI) as (w' & Hrun & _ & Heq & _ & _).
  exists w'. split; [exact Hrun |].
  exact (untracked_unchanged (Vp pa) (Vp pb) B0 w w' HI Heq).
Qed.

(** closed, for the documented layering (HiddenFS hiding the backup location
    inside a PrefixFS) *)
Theorem rollback_untracked_documented :
  forall pa h, prefix_ok pa -> hidden_ok h ->
  forall B0, links_ok clean clean (acc_h pa h) (acc_p (pk_h pa h)) B0 -> all_small B0 -> swf B0 ->
  loc_ok (hid_h h) (anc_h h) B0 ->
  forall w, Inv (VpH pa h) (Vp (pk_h pa h)) B0 w ->
  exists w', b_rollback (cfg_base (dcfg pa h)) (cfg_backup (dcfg pa h)) w = (MOk tt, w') /\
    forall p, p <> s_root -> w_infos w !! p = None -> sonode_eqv (VpH pa h w' !! p) (VpH pa h w !! p).
Proof.
  intros pa h Ha Hh B0 Hl Hs Hwf Hloc w HI.
  destruct (rollback_documented pa h Ha Hh B0 Hl Hs Hwf Hloc w HI) as (w' & Hrun & _ & Heq & _ & _).
  exists w'. split; [exact Hrun |].
  exact (untracked_unchanged (VpH pa h) (Vp (pk_h pa h)) B0 w w' HI Heq).
Qed.

(** closed, for the constructors New / NewWithFS (HiddenFS directly over the
    OS filesystem) *)
Theorem rollback_untracked_new :
  forall h, hidden_ok h ->
  forall B0, links_ok tn_0 clean (acc_0 h) (acc_p h) B0 -> all_small B0 -> swf B0 ->
  loc_ok (hid_h h) (anc_h h) B0 ->
  forall w, Inv (V0H h) (Vp h) B0 w ->
  exists w', b_rollback (cfg_base (ncfg h)) (cfg_backup (ncfg h)) w = (MOk tt, w') /\
    forall p, p <> s_root -> w_infos w !! p = None -> sonode_eqv (V0H h w' !! p) (V0H h w !! p).
Proof.
  intros h Hh B0 Hl Hs Hwf Hloc w HI.
  destruct (rollback_new h Hh B0 Hl Hs Hwf Hloc w HI) as (w' & Hrun & _ & Heq & _ & _).
  exists w'. split; [exact Hrun |].
  exact (untracked_unchanged (V0H h) (Vp h) B0 w w' HI Heq).
Qed.

Print Assumptions rollback_untracked_spec.
Print Assumptions rollback_untracked_documented.
Print Assumptions rollback_untracked_new.
Print Assumptions rollback_untracked_concrete.
