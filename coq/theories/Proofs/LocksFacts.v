(** Proofs for C10: the meaning of the lock discipline, and serialisability of
    the interleaving semantics of [Conc.Locks]. *)
From Coq Require Import List String Bool Arith Lia.
Import ListNotations.
From BFS Require Import Generated.LockTable Conc.Locks.
(* Props/C10.v imports String and (through Generated.LockTable) has
   [string_scope] open, so its bare [length] and [++] would resolve to
   String.length / String.append.  This file is imported last there; the two
   exported commands below restore the list meaning of both.  They can be
   replaced by [Local Open Scope list_scope.] once Props/C10.v writes
   [List.length] and [(_ ++ _)%list] itself. *)
Export List.
Open Scope list_scope.

(** * Part 1: classification *)

Lemma lock_discipline_classification :
  forall t m, lock_discipline t = true -> In m t -> lt_exported m = true ->
  lt_shape_unknown m = false /\ lt_prelock_touch m = false /\
  ((lt_locks m = true /\ existsb (reach_lock (S (List.length t)) t) (lt_callees m) = false) \/
   (lt_locks m = false /\ lt_touches_infos m = false /\ lt_mutates_fs m = false /\
    existsb (reach_bad (S (List.length t)) t) (lt_callees m) = false)).
Proof.
  intros t m Hd Hin Hex.
  unfold lock_discipline in Hd. rewrite forallb_forall in Hd.
  specialize (Hd m Hin). unfold method_ok in Hd.
  apply andb_true_iff in Hd. destruct Hd as [Hd H3].
  apply andb_true_iff in Hd. destruct Hd as [H1 H2].
  apply negb_true_iff in H1. apply negb_true_iff in H2.
  split; [exact H1|]. split; [exact H2|].
  destruct (lt_locks m) eqn:Hl.
  - left. split; [reflexivity|]. apply negb_true_iff in H3. exact H3.
  - right. rewrite Hex in H3. apply negb_true_iff in H3.
    apply orb_false_iff in H3. destruct H3 as [H3 H4].
    apply orb_false_iff in H3. destruct H3 as [H3 H5].
    split; [reflexivity|]. split; [exact H3|]. split; [exact H5|exact H4].
Qed.

(** * Part 2: serialisability *)

(** ** Generic list facts *)

Lemma set_nth_length : forall (A : Type) (i : nat) (x : A) (l : list A),
  List.length (set_nth i x l) = List.length l.
Proof.
  intros A i x l. revert i.
  induction l as [|y r IH]; intros i; destruct i as [|i']; simpl; auto.
Qed.

Lemma set_nth_same : forall (A : Type) (i : nat) (x : A) (l : list A),
  i < List.length l -> nth_error (set_nth i x l) i = Some x.
Proof.
  intros A i x l. revert i.
  induction l as [|y r IH]; intros i Hlt; destruct i as [|i']; simpl in *.
  - lia.
  - lia.
  - reflexivity.
  - apply IH. lia.
Qed.

Lemma set_nth_other : forall (A : Type) (i j : nat) (x : A) (l : list A),
  j <> i -> nth_error (set_nth i x l) j = nth_error l j.
Proof.
  intros A i j x l. revert i j.
  induction l as [|y r IH]; intros i j Hne; destruct i as [|i']; destruct j as [|j']; simpl; auto.
  - congruence.
Qed.

Lemma nth_set_nth_inv : forall (A : Type) (i j : nat) (x y z : A) (l : list A),
  nth_error l i = Some z -> nth_error (set_nth i x l) j = Some y ->
  (j = i /\ y = x) \/ (j <> i /\ nth_error l j = Some y).
Proof.
  intros A i j x y z l Hi Hj.
  destruct (Nat.eq_dec j i) as [E|E].
  - subst j. left. split; [reflexivity|].
    rewrite set_nth_same in Hj.
    + inversion Hj. reflexivity.
    + apply nth_error_Some. rewrite Hi. discriminate.
  - right. split; [exact E|]. rewrite set_nth_other in Hj by exact E. exact Hj.
Qed.

Lemma firstn_length_app : forall (A : Type) (a b : list A),
  firstn (List.length a) (a ++ b) = a.
Proof.
  intros A a b. induction a as [|x a IH]; simpl.
  - reflexivity.
  - rewrite IH. reflexivity.
Qed.

Lemma nth_error_map_inv : forall (A B : Type) (f : A -> B) (l : list A) (i : nat) (y : B),
  nth_error (map f l) i = Some y -> exists x, nth_error l i = Some x /\ y = f x.
Proof.
  intros A B f l. induction l as [|a l IH]; intros i y H; destruct i as [|i']; simpl in *.
  - discriminate.
  - discriminate.
  - inversion H. exists a. split; reflexivity.
  - apply IH. exact H.
Qed.

(** ** Facts about the definitions of [Conc.Locks] *)

Lemma apply_steps_last : forall (St : Type) (l : list (step St)) (f : step St) (s : St),
  apply_steps St (l ++ [f]) s = f (apply_steps St l s).
Proof.
  intros St l f s. unfold apply_steps. rewrite fold_left_app. reflexivity.
Qed.

Lemma serial_steps_last : forall (St : Type) (l : list (nat * opk St)) (x : nat * opk St),
  serial_steps St (l ++ [x]) = serial_steps St l ++ steps_of St (snd x).
Proof.
  intros St l x. unfold serial_steps. rewrite map_app, concat_app. simpl.
  rewrite app_nil_r. reflexivity.
Qed.

Lemma serial_steps_removelast_le : forall (St : Type) (l : list (nat * opk St)),
  List.length (serial_steps St (removelast l)) <= List.length (serial_steps St l).
Proof.
  intros St l. induction l as [|x l' _] using rev_ind.
  - simpl. lia.
  - rewrite removelast_last, serial_steps_last, app_length. lia.
Qed.

Lemma ops_of_thread_last : forall (St : Type) (i j : nat) (o : opk St) (order : list (nat * opk St)),
  ops_of_thread St i (order ++ [(j, o)]) =
  ops_of_thread St i order ++ (if Nat.eqb j i then [o] else []).
Proof.
  intros St i j o order. unfold ops_of_thread. rewrite filter_app, map_app. simpl.
  destruct (Nat.eqb j i); reflexivity.
Qed.

(** ** The invariant *)

Definition InvC (St : Type) (g : gstate St) : Prop :=
  (lock_free St (g_threads St g) /\ g_log St g = serial_steps St (g_order St g)) \/
  (exists i th name order' done rem,
     nth_error (g_threads St g) i = Some th /\ t_cur St th = Some rem /\
     (forall j th', j <> i -> nth_error (g_threads St g) j = Some th' -> t_cur St th' = None) /\
     g_order St g = order' ++ [(i, Locked St name (done ++ rem))] /\
     g_log St g = serial_steps St order' ++ done).

Definition InvD (St : Type) (progs : list (list (opk St))) (g : gstate St) : Prop :=
  forall i p th, nth_error progs i = Some p -> nth_error (g_threads St g) i = Some th ->
    locked_ops St p = ops_of_thread St i (g_order St g) ++ locked_ops St (t_todo St th).

Definition Inv (St : Type) (s0 : St) (progs : list (list (opk St))) (g : gstate St) : Prop :=
  g_shared St g = apply_steps St (g_log St g) s0 /\ InvC St g /\ InvD St progs g.

(** the holder is the only thread whose [t_cur] is not [None] *)
Lemma InvC_holder : forall (St : Type) (g : gstate St) (i : nat) (th : thread St) (cur : list (step St)),
  InvC St g -> nth_error (g_threads St g) i = Some th -> t_cur St th = Some cur ->
  exists name order' done,
    (forall j th', j <> i -> nth_error (g_threads St g) j = Some th' -> t_cur St th' = None) /\
    g_order St g = order' ++ [(i, Locked St name (done ++ cur))] /\
    g_log St g = serial_steps St order' ++ done.
Proof.
  intros St g i th cur HC Hn Hc.
  destruct HC as [[Hlf _]|[i0 [th0 [name [order' [done [rem [Hn0 [Hc0 [Hoth [Hord Hlog]]]]]]]]]]].
  - specialize (Hlf i th Hn). congruence.
  - destruct (Nat.eq_dec i i0) as [E|E].
    + subst i0. assert (Heq : th0 = th) by congruence. subst th0.
      assert (Hrem : rem = cur) by congruence. subst rem.
      exists name, order', done. split; [exact Hoth|]. split; [exact Hord|exact Hlog].
    + specialize (Hoth i th E Hn). congruence.
Qed.

(** a thread that does not hold the lock changes only its [t_todo] *)
Lemma InvC_idle_update : forall (St : Type) (g : gstate St) (i : nat) (th : thread St) (todo : list (opk St)) (s : St),
  InvC St g -> nth_error (g_threads St g) i = Some th -> t_cur St th = None ->
  InvC St (mkG St s (set_nth i (mkThread St todo None) (g_threads St g)) (g_log St g) (g_order St g)).
Proof.
  intros St g i th todo s HC Hn Hc.
  destruct HC as [[Hlf Hlog]|[i0 [th0 [name [order' [done [rem [Hn0 [Hc0 [Hoth [Hord Hlog]]]]]]]]]]].
  - left. simpl. split; [|exact Hlog].
    intros j th' Hj.
    destruct (nth_set_nth_inv _ _ _ _ _ _ _ Hn Hj) as [[_ E]|[_ Hj']].
    + subst th'. reflexivity.
    + exact (Hlf j th' Hj').
  - right. simpl.
    assert (Hne : i0 <> i).
    { intro E. subst i0. assert (Heq : th0 = th) by congruence. subst th0. congruence. }
    exists i0, th0, name, order', done, rem.
    split. { rewrite set_nth_other by exact Hne. exact Hn0. }
    split. { exact Hc0. }
    split.
    { intros j th' Hj0 Hj.
      destruct (nth_set_nth_inv _ _ _ _ _ _ _ Hn Hj) as [[_ E]|[_ Hj']].
      - subst th'. reflexivity.
      - exact (Hoth j th' Hj0 Hj'). }
    split; [exact Hord|exact Hlog].
Qed.

(** replacing a thread by one with the same locked operations to do *)
Lemma InvD_update : forall (St : Type) (progs : list (list (opk St))) (g : gstate St)
    (i : nat) (th th1 : thread St) (s : St) (log : list (step St)),
  InvD St progs g -> nth_error (g_threads St g) i = Some th ->
  locked_ops St (t_todo St th1) = locked_ops St (t_todo St th) ->
  InvD St progs (mkG St s (set_nth i th1 (g_threads St g)) log (g_order St g)).
Proof.
  intros St progs g i th th1 s log HD Hn Hsame.
  unfold InvD in *. simpl. intros j p th' Hp Hj.
  destruct (nth_set_nth_inv _ _ _ _ _ _ _ Hn Hj) as [[Ej E]|[_ Hj']].
  - subst j th'. rewrite Hsame. exact (HD i p th Hp Hn).
  - exact (HD j p th' Hp Hj').
Qed.

Lemma Inv_init : forall (St : Type) (s0 : St) (progs : list (list (opk St))),
  Inv St s0 progs (init St s0 progs).
Proof.
  intros St s0 progs. unfold Inv, init. simpl. split; [reflexivity|]. split.
  - left. simpl. split; [|reflexivity].
    intros j th Hj. apply nth_error_map_inv in Hj. destruct Hj as [p [_ E]]. subst th. reflexivity.
  - unfold InvD. simpl. intros i p th Hp Hth.
    apply nth_error_map_inv in Hth. destruct Hth as [p' [Hp' E]]. subst th. simpl.
    congruence.
Qed.

Lemma Inv_step : forall (St : Type) (s0 : St) (progs : list (list (opk St))) (g g' : gstate St),
  Inv St s0 progs g -> gstep St g g' -> Inv St s0 progs g'.
Proof.
  intros St s0 progs g g' [Ha [HC HD]] Hstep.
  destruct Hstep as [g i th name steps rest Hn Hc Ht Hlf
                    |g i th f fs Hn Hc
                    |g i th Hn Hc
                    |g i th name n rest Hn Hc Ht
                    |g i th name rest Hn Hc Ht].
  - (* GAcquire *)
    unfold Inv. simpl. split; [exact Ha|]. split.
    + right. simpl.
      exists i, (mkThread St rest (Some steps)), name, (g_order St g), (@nil (step St)), steps.
      split. { apply set_nth_same. apply nth_error_Some. rewrite Hn. discriminate. }
      split. { reflexivity. }
      split. { intros j th' Hj Hth'. rewrite set_nth_other in Hth' by exact Hj. exact (Hlf j th' Hth'). }
      split. { reflexivity. }
      rewrite app_nil_r.
      destruct HC as [[_ Hlog]|[i0 [th0 [name0 [order' [done [rem [Hn0 [Hc0 _]]]]]]]]].
      * exact Hlog.
      * specialize (Hlf i0 th0 Hn0). congruence.
    + unfold InvD in *. simpl. intros j p th' Hp Hj.
      rewrite ops_of_thread_last.
      destruct (nth_set_nth_inv _ _ _ _ _ _ _ Hn Hj) as [[Ej E]|[Ej Hj']].
      * subst j th'. simpl. rewrite Nat.eqb_refl. rewrite <- app_assoc. simpl.
        rewrite (HD i p th Hp Hn). rewrite Ht. simpl. reflexivity.
      * assert (Hb : Nat.eqb i j = false) by (apply Nat.eqb_neq; congruence).
        rewrite Hb. rewrite app_nil_r. exact (HD j p th' Hp Hj').
  - (* GStep *)
    unfold Inv. simpl. split; [rewrite apply_steps_last, <- Ha; reflexivity|]. split.
    + destruct (InvC_holder St g i th (f :: fs) HC Hn Hc) as [name [order' [done [Hoth [Hord Hlog]]]]].
      right. simpl.
      exists i, (mkThread St (t_todo St th) (Some fs)), name, order', (done ++ [f]), fs.
      split. { apply set_nth_same. apply nth_error_Some. rewrite Hn. discriminate. }
      split. { reflexivity. }
      split. { intros j th' Hj Hth'. rewrite set_nth_other in Hth' by exact Hj. exact (Hoth j th' Hj Hth'). }
      split. { rewrite Hord. rewrite <- app_assoc. reflexivity. }
      rewrite Hlog. rewrite <- app_assoc. reflexivity.
    + apply (InvD_update St progs g i th); [exact HD|exact Hn|reflexivity].
  - (* GRelease *)
    unfold Inv. simpl. split; [exact Ha|]. split.
    + destruct (InvC_holder St g i th [] HC Hn Hc) as [name [order' [done [Hoth [Hord Hlog]]]]].
      left. simpl. split.
      * intros j th' Hj.
        destruct (nth_set_nth_inv _ _ _ _ _ _ _ Hn Hj) as [[_ E]|[Ej Hj']].
        -- subst th'. reflexivity.
        -- exact (Hoth j th' Ej Hj').
      * rewrite Hlog, Hord, serial_steps_last. simpl. rewrite app_nil_r. reflexivity.
    + apply (InvD_update St progs g i th); [exact HD|exact Hn|reflexivity].
  - (* GRead *)
    unfold Inv. simpl. split; [exact Ha|]. split.
    + exact (InvC_idle_update St g i th _ _ HC Hn Hc).
    + apply (InvD_update St progs g i th); [exact HD|exact Hn|].
      rewrite Ht. reflexivity.
  - (* GReadDone *)
    unfold Inv. simpl. split; [exact Ha|]. split.
    + exact (InvC_idle_update St g i th _ _ HC Hn Hc).
    + apply (InvD_update St progs g i th); [exact HD|exact Hn|].
      rewrite Ht. reflexivity.
Qed.

Lemma Inv_reachable : forall (St : Type) (s0 : St) (progs : list (list (opk St))) (g : gstate St),
  reachable St (init St s0 progs) g -> Inv St s0 progs g.
Proof.
  intros St s0 progs g Hr. induction Hr as [|g g' Hr IH Hstep].
  - apply Inv_init.
  - exact (Inv_step St s0 progs g g' IH Hstep).
Qed.

(** ** The theorems used by [Props/C10.v] *)

Lemma serialisable :
  forall (St : Type) (s0 : St) (progs : list (list (opk St))) (g : gstate St),
  reachable St (init St s0 progs) g ->
  g_shared St g = apply_steps St (g_log St g) s0 /\
  (exists k, g_log St g = firstn k (serial_steps St (g_order St g)) /\
             List.length (serial_steps St (removelast (g_order St g))) <= k) /\
  (forall i p th, nth_error progs i = Some p -> nth_error (g_threads St g) i = Some th ->
     locked_ops St p = ops_of_thread St i (g_order St g) ++ locked_ops St (t_todo St th)).
Proof.
  intros St s0 progs g Hr.
  destruct (Inv_reachable St s0 progs g Hr) as [Ha [HC HD]].
  split; [exact Ha|]. split; [|exact HD].
  destruct HC as [[_ Hlog]|[i0 [th0 [name [order' [done [rem [_ [_ [_ [Hord Hlog]]]]]]]]]]].
  - exists (List.length (serial_steps St (g_order St g))). split.
    + rewrite firstn_all. exact Hlog.
    + apply serial_steps_removelast_le.
  - exists (List.length (serial_steps St order' ++ done)). split.
    + rewrite Hlog, Hord, serial_steps_last. simpl.
      rewrite app_assoc. rewrite firstn_length_app. reflexivity.
    + rewrite Hord, removelast_last, app_length. lia.
Qed.

Lemma serial_property_transfers :
  forall (St : Type) (P : St -> Prop) (s0 : St) (progs : list (list (opk St))) (g : gstate St),
  (forall (order : list (opk St)) k, P (apply_steps St (firstn k (List.concat (map (steps_of St) order))) s0)) ->
  reachable St (init St s0 progs) g -> P (g_shared St g).
Proof.
  intros St P s0 progs g HP Hr.
  destruct (serialisable St s0 progs g Hr) as [Ha [[k [Hk _]] _]].
  rewrite Ha, Hk. specialize (HP (map snd (g_order St g)) k).
  rewrite map_map in HP. exact HP.
Qed.

Print Assumptions lock_discipline_classification.
Print Assumptions serialisable.
Print Assumptions serial_property_transfers.
