(** Footprint theorems by API restriction.

    Everything here holds for EVERY pair of filesystems [base backup : fsapi]
    and EVERY world (fault plans and crash points included): no law about the
    two filesystems is assumed.

    The technique: run the model on a restricted filesystem whose forbidden
    methods stop the whole computation ([MHalt] is never caught and [bind]
    stops at it).  An equation [f (restricted base) backup w = f base backup w]
    for all [w] therefore says that [f] never invokes a forbidden method of
    [base]: if it did, the left side would stop at that call with [MHalt] and
    the world of that moment, whereas the right side continues.  (For a [base]
    whose own method behaves exactly like the trap the call is unobservable,
    but the statements are for all [base].)

    Restrictions:
      [trap_api]     every method traps
      [ro a]         the mutating methods of [a] trap (OpenFile included)
      [ro0 a]        as [ro a] but OpenFile with flag 0 (O_RDONLY) is allowed
      [guard_api P a]    a method traps unless its path argument(s) satisfy [P]
      [only_methods ms a]    a method traps unless it is in the set [ms]

    Not covered: operations on open handles ([hread], [hwrite], [hclose], ...)
    are global functions of the model, not methods of an [fsapi]; which handles
    are written to is visible in the model text ([write_file] writes to the
    handle returned by [a_openfile fsys] and closes it, [try_backup] calls it
    with [fsys := backup]; the handle returned by [a_open base] is only read
    and closed) but is not stated as a theorem. *)
From stdpp Require Import gmap.
From BFS Require Import Backup.History.

(** * The restricted filesystems *)

Definition mhalt {A} : M A := fun w => (MHalt, w).

Definition trap_api : fsapi := {|
  a_lstat _ := mhalt; a_stat _ := mhalt; a_readlink _ := mhalt;
  a_open _ := mhalt; a_openfile _ _ _ := mhalt; a_create _ := mhalt;
  a_mkdir _ _ := mhalt; a_mkdirall _ _ := mhalt; a_remove _ := mhalt;
  a_removeall _ := mhalt; a_rename _ _ := mhalt; a_chmod _ _ := mhalt;
  a_chown _ _ _ := mhalt; a_lchown _ _ _ := mhalt; a_chtimes _ _ := mhalt;
  a_symlink _ _ := mhalt |}.

(** every mutating method traps *)
Definition ro (a : fsapi) : fsapi := {|
  a_lstat := a_lstat a; a_stat := a_stat a; a_readlink := a_readlink a;
  a_open := a_open a;
  a_openfile _ _ _ := mhalt; a_create _ := mhalt;
  a_mkdir _ _ := mhalt; a_mkdirall _ _ := mhalt; a_remove _ := mhalt;
  a_removeall _ := mhalt; a_rename _ _ := mhalt; a_chmod _ _ := mhalt;
  a_chown _ _ _ := mhalt; a_lchown _ _ _ := mhalt; a_chtimes _ _ := mhalt;
  a_symlink _ _ := mhalt |}.

(** as [ro], but [OpenFile(name, O_RDONLY, _)] is let through *)
Definition ro0 (a : fsapi) : fsapi := {|
  a_lstat := a_lstat a; a_stat := a_stat a; a_readlink := a_readlink a;
  a_open := a_open a;
  a_openfile p fl perm := if N.eqb fl 0 then a_openfile a p fl perm else mhalt;
  a_create _ := mhalt;
  a_mkdir _ _ := mhalt; a_mkdirall _ _ := mhalt; a_remove _ := mhalt;
  a_removeall _ := mhalt; a_rename _ _ := mhalt; a_chmod _ _ := mhalt;
  a_chown _ _ _ := mhalt; a_lchown _ _ _ := mhalt; a_chtimes _ _ := mhalt;
  a_symlink _ _ := mhalt |}.

(** a call traps unless its path satisfies [P] (Rename: both names;
    Symlink: the location of the link, not its target text) *)
Definition guard_api (P : str -> bool) (a : fsapi) : fsapi := {|
  a_lstat p := if P p then a_lstat a p else mhalt;
  a_stat p := if P p then a_stat a p else mhalt;
  a_readlink p := if P p then a_readlink a p else mhalt;
  a_open p := if P p then a_open a p else mhalt;
  a_openfile p fl perm := if P p then a_openfile a p fl perm else mhalt;
  a_create p := if P p then a_create a p else mhalt;
  a_mkdir p perm := if P p then a_mkdir a p perm else mhalt;
  a_mkdirall p perm := if P p then a_mkdirall a p perm else mhalt;
  a_remove p := if P p then a_remove a p else mhalt;
  a_removeall p := if P p then a_removeall a p else mhalt;
  a_rename o n := if P o && P n then a_rename a o n else mhalt;
  a_chmod p m := if P p then a_chmod a p m else mhalt;
  a_chown p u g := if P p then a_chown a p u g else mhalt;
  a_lchown p u g := if P p then a_lchown a p u g else mhalt;
  a_chtimes p t := if P p then a_chtimes a p t else mhalt;
  a_symlink t p := if P p then a_symlink a t p else mhalt |}.

(** a method traps unless it belongs to [ms] *)
Definition only_methods (ms : meth -> bool) (a : fsapi) : fsapi := {|
  a_lstat p := if ms MLstat then a_lstat a p else mhalt;
  a_stat p := if ms MStat then a_stat a p else mhalt;
  a_readlink p := if ms MReadlink then a_readlink a p else mhalt;
  a_open p := if ms MOpen then a_open a p else mhalt;
  a_openfile p fl perm := if ms MOpenFile then a_openfile a p fl perm else mhalt;
  a_create p := if ms MCreate then a_create a p else mhalt;
  a_mkdir p perm := if ms MMkdir then a_mkdir a p perm else mhalt;
  a_mkdirall p perm := if ms MMkdirAll then a_mkdirall a p perm else mhalt;
  a_remove p := if ms MRemove then a_remove a p else mhalt;
  a_removeall p := if ms MRemoveAll then a_removeall a p else mhalt;
  a_rename o n := if ms MRename then a_rename a o n else mhalt;
  a_chmod p m := if ms MChmod then a_chmod a p m else mhalt;
  a_chown p u g := if ms MChown then a_chown a p u g else mhalt;
  a_lchown p u g := if ms MLchown then a_lchown a p u g else mhalt;
  a_chtimes p t := if ms MChtimes then a_chtimes a p t else mhalt;
  a_symlink t p := if ms MSymlink then a_symlink a t p else mhalt |}.

Ltac api_simpl :=
  cbn [guard_api only_methods ro ro0 trap_api
       a_lstat a_stat a_readlink a_open a_openfile a_create a_mkdir a_mkdirall
       a_remove a_removeall a_rename a_chmod a_chown a_lchown a_chtimes a_symlink].

(** * Pointwise congruence lemmas (no functional extensionality) *)

Lemma bind_ext {A B} (m m' : M A) (f f' : A -> M B) (w : world) :
  m w = m' w ->
  (forall a w', m' w = (MOk a, w') -> f a w' = f' a w') ->
  bind m f w = bind m' f' w.
Proof.
  intros Hm Hf. unfold bind. rewrite Hm.
  destruct (m' w) as [[a|e|] w'] eqn:E; [apply Hf; reflexivity | reflexivity | reflexivity].
Qed.

Lemma try_ext {A} (m m' : M A) (w : world) : m w = m' w -> try_ m w = try_ m' w.
Proof. intros Hm. unfold try_. rewrite Hm. reflexivity. Qed.

Lemma mfold_ext {A B} (f f' : B -> A -> M B) (l : list A) :
  (forall b x w, f b x w = f' b x w) ->
  forall b w, mfold f l b w = mfold f' l b w.
Proof.
  intros Hf. induction l as [|x r IH]; intros b w; [reflexivity|].
  cbn [mfold]. apply bind_ext; [apply Hf | intros b' w' _; apply IH].
Qed.

Lemma mfold_inv {A B} (I : B -> Prop) (f : B -> A -> M B) (l : list A) :
  (forall b x w b' w', I b -> f b x w = (MOk b', w') -> I b') ->
  forall b w b' w', I b -> mfold f l b w = (MOk b', w') -> I b'.
Proof.
  intros Hf. induction l as [|x r IH]; intros b w b' w' Hb Hrun.
  - cbn in Hrun. injection Hrun as <- _. exact Hb.
  - cbn [mfold] in Hrun. unfold bind in Hrun.
    destruct (f b x w) as [[b1|e|] w1] eqn:E; [|discriminate Hrun|discriminate Hrun].
    eapply IH; [eapply Hf; [exact Hb | exact E] | exact Hrun].
Qed.

Lemma miter_ext {A} (Q : A -> Prop) (f f' : A -> M unit) (l : list A) :
  Forall Q l -> (forall x w, Q x -> f x w = f' x w) ->
  forall w, miter f l w = miter f' l w.
Proof.
  intros HQ Hf. induction HQ as [|x r Hx Hr IH]; intros w; [reflexivity|].
  cbn [miter]. apply bind_ext; [apply Hf; exact Hx | intros u w' _; apply IH].
Qed.

Lemma collect_errs_ext {A} (Q : A -> Prop) (f f' : A -> M unit) (l : list A) :
  Forall Q l -> (forall x w, Q x -> f x w = f' x w) ->
  forall w, collect_errs f l w = collect_errs f' l w.
Proof.
  intros HQ Hf. induction HQ as [|x r Hx Hr IH]; intros w; [reflexivity|].
  cbn [collect_errs]. apply bind_ext; [apply try_ext; apply Hf; exact Hx|].
  intros e w' _. apply bind_ext; [apply IH | intros es w'' _; reflexivity].
Qed.

Lemma insert_Forall (Q : str -> Prop) (lt : str -> str -> bool) (x : str) (l : list str) :
  Q x -> Forall Q l -> Forall Q (insert lt x l).
Proof.
  intros Hx Hl. induction Hl as [|y r Hy Hr IH]; cbn [insert].
  - constructor; [exact Hx | constructor].
  - destruct (lt x y); constructor; try assumption. constructor; assumption.
Qed.

Lemma isort_Forall (Q : str -> Prop) (lt : str -> str -> bool) (l : list str) :
  Forall Q l -> Forall Q (isort lt l).
Proof.
  intros Hl. induction Hl as [|y r Hy Hr IH]; cbn [isort]; [constructor|].
  apply insert_Forall; assumption.
Qed.

(** * C08-a: taking a backup and resolving a path never call a mutating
      method of the base.  (The two sides are even convertible: the model text
      of these functions mentions only [a_lstat], [a_readlink] and [a_open] of
      [base].) *)

Theorem resolve_path_with_info_ro : forall base p w,
  resolve_path_with_info (ro base) p w = resolve_path_with_info base p w.
Proof. reflexivity. Qed.

Theorem real_path_ro : forall base name w,
  real_path (ro base) name w = real_path base name w.
Proof. reflexivity. Qed.

Theorem real_path_found_ro : forall base name w,
  real_path_found (ro base) name w = real_path_found base name w.
Proof. reflexivity. Qed.

Theorem backup_required_ro : forall base p w,
  backup_required (ro base) p w = backup_required base p w.
Proof. reflexivity. Qed.

Theorem backup_dirs_ro : forall base backup d w,
  backup_dirs (ro base) backup d w = backup_dirs base backup d w.
Proof. reflexivity. Qed.

Theorem try_backup_ro : forall base backup p w,
  try_backup (ro base) backup p w = try_backup base backup p w.
Proof. reflexivity. Qed.

(** which base methods they use at all *)
Definition ms_resolve (m : meth) : bool :=
  match m with MLstat | MReadlink => true | _ => false end.
Definition ms_backup_base (m : meth) : bool :=
  match m with MLstat | MReadlink | MOpen => true | _ => false end.
(** and which backup methods: everything [copy_dir]/[copy_file]/[copy_symlink]
    need, plus Remove for the clean-up after a failed copy *)
Definition ms_backup_backup (m : meth) : bool :=
  match m with
  | MLstat | MMkdirAll | MChmod | MChtimes | MChown | MOpenFile | MSymlink | MLchown | MRemove => true
  | _ => false
  end.

Theorem real_path_only : forall base name w,
  real_path (only_methods ms_resolve base) name w = real_path base name w.
Proof. reflexivity. Qed.

Theorem try_backup_only : forall base backup p w,
  try_backup (only_methods ms_backup_base base) (only_methods ms_backup_backup backup) p w
  = try_backup base backup p w.
Proof. reflexivity. Qed.

(** * C08-b: a failed backup stops the operation at once.

    Every mutating operation has the shape
    [rn <- real_path name ;; try_backup rn ;;; <one mutating call on base>].
    If [try_backup] fails (error or crash), the operation returns that very
    failure and the world is the one [try_backup] left: nothing is called
    afterwards.  Since [real_path] and [try_backup] never call a mutating
    method of the base (C08-a), the whole failing operation runs identically on
    [ro base]. *)

Lemma seq3_err {A} (rp : M str) (tb : str -> M unit) (k : str -> M A) w rn w1 e w2 :
  rp w = (MOk rn, w1) -> tb rn w1 = (MErr e, w2) ->
  (rn <- rp ;; tb rn ;;; k rn) w = (MErr e, w2).
Proof. intros H1 H2. unfold bind. rewrite H1, H2. reflexivity. Qed.

Lemma seq3_halt {A} (rp : M str) (tb : str -> M unit) (k : str -> M A) w rn w1 w2 :
  rp w = (MOk rn, w1) -> tb rn w1 = (MHalt, w2) ->
  (rn <- rp ;; tb rn ;;; k rn) w = (MHalt, w2).
Proof. intros H1 H2. unfold bind. rewrite H1, H2. reflexivity. Qed.

(** an operation [op] on the name [name] is fail-stop w.r.t. its backup step *)
Definition fail_stop {A} (base backup : fsapi) (name : str) (op : fsapi -> fsapi -> M A) : Prop :=
  forall w rn w1 w2,
    real_path base name w = (MOk rn, w1) ->
    (forall e, try_backup base backup rn w1 = (MErr e, w2) ->
       op base backup w = (MErr e, w2) /\ op (ro base) backup w = (MErr e, w2)) /\
    (try_backup base backup rn w1 = (MHalt, w2) ->
       op base backup w = (MHalt, w2) /\ op (ro base) backup w = (MHalt, w2)).

Lemma fail_stop_seq3 {A} (base backup : fsapi) (name : str) (k : fsapi -> str -> M A) :
  fail_stop base backup name
    (fun b bk => rn <- real_path b name ;; try_backup b bk rn ;;; k b rn).
Proof.
  intros w rn w1 w2 Hrp. split.
  - intros e Htb. split.
    + apply (seq3_err _ _ _ w rn w1 e w2 Hrp Htb).
    + apply (seq3_err (real_path (ro base) name) (try_backup (ro base) backup) _ w rn w1 e w2 Hrp Htb).
  - intros Htb. split.
    + apply (seq3_halt _ _ _ w rn w1 w2 Hrp Htb).
    + apply (seq3_halt (real_path (ro base) name) (try_backup (ro base) backup) _ w rn w1 w2 Hrp Htb).
Qed.

Theorem b_create_fail_stop : forall base backup name,
  fail_stop base backup name (fun b bk => b_create b bk name).
Proof. intros base backup name. exact (fail_stop_seq3 base backup name (fun b rn => a_create b rn)). Qed.

Theorem b_mkdir_fail_stop : forall base backup name perm,
  fail_stop base backup name (fun b bk => b_mkdir b bk name perm).
Proof. intros base backup name perm. exact (fail_stop_seq3 base backup name (fun b rn => a_mkdir b rn perm)). Qed.

Theorem b_mkdirall_fail_stop : forall base backup name perm,
  fail_stop base backup name (fun b bk => b_mkdirall b bk name perm).
Proof. intros base backup name perm. exact (fail_stop_seq3 base backup name (fun b rn => a_mkdirall b rn perm)). Qed.

(** [OpenFile] with any flag other than O_RDONLY (= 0) *)
Theorem b_openfile_fail_stop : forall base backup name fl perm, fl <> 0%N ->
  fail_stop base backup name (fun b bk => b_openfile b bk name fl perm).
Proof.
  intros base backup name fl perm Hfl.
  pose proof (fail_stop_seq3 base backup name (fun b rn => a_openfile b rn fl perm)) as H.
  unfold fail_stop, b_openfile in *. apply N.eqb_neq in Hfl. rewrite Hfl. exact H.
Qed.

Theorem b_remove_fail_stop : forall base backup name,
  fail_stop base backup name (fun b bk => b_remove b bk name).
Proof. intros base backup name. exact (fail_stop_seq3 base backup name (fun b rn => a_remove b rn)). Qed.

Theorem b_chmod_fail_stop : forall base backup name mode,
  fail_stop base backup name (fun b bk => b_chmod b bk name mode).
Proof. intros base backup name mode. exact (fail_stop_seq3 base backup name (fun b rn => a_chmod b rn mode)). Qed.

Theorem b_chown_fail_stop : forall base backup name uid gid,
  fail_stop base backup name (fun b bk => b_chown b bk name uid gid).
Proof. intros base backup name uid gid. exact (fail_stop_seq3 base backup name (fun b rn => a_chown b rn uid gid)). Qed.

Theorem b_lchown_fail_stop : forall base backup name uid gid,
  fail_stop base backup name (fun b bk => b_lchown b bk name uid gid).
Proof. intros base backup name uid gid. exact (fail_stop_seq3 base backup name (fun b rn => a_lchown b rn uid gid)). Qed.

Theorem b_chtimes_fail_stop : forall base backup name t,
  fail_stop base backup name (fun b bk => b_chtimes b bk name t).
Proof. intros base backup name t. exact (fail_stop_seq3 base backup name (fun b rn => a_chtimes b rn t)). Qed.

(** [Symlink oldname newname]: the backed-up name is the location [newname] *)
Theorem b_symlink_fail_stop : forall base backup oldname newname,
  fail_stop base backup newname (fun b bk => b_symlink b bk oldname newname).
Proof. intros base backup oldname newname. exact (fail_stop_seq3 base backup newname (fun b rn => a_symlink b oldname rn)). Qed.

(** if the path cannot be resolved the operation stops there as well *)
Theorem real_path_fail_stop : forall base backup name w r w1,
  real_path base name w = (r, w1) -> (forall rn, r <> MOk rn) ->
  forall (A : Type) (k : fsapi -> str -> M A) (r' : mres A),
    r' = match r with MErr e => MErr e | _ => MHalt end ->
    (rn <- real_path base name ;; try_backup base backup rn ;;; k base rn) w = (r', w1) /\
    (rn <- real_path (ro base) name ;; try_backup (ro base) backup rn ;;; k (ro base) rn) w = (r', w1).
Proof.
  intros base backup name w r w1 Hrp Hr A k r' ->.
  assert (forall b, real_path b name w = (r, w1) ->
            (rn <- real_path b name ;; try_backup b backup rn ;;; k b rn) w =
            (match r with MErr e => MErr e | _ => MHalt end, w1)) as Hgen.
  { intros b Hb. unfold bind at 1. rewrite Hb. destruct r as [rn|e|]; [exfalso; exact (Hr rn eq_refl) | reflexivity | reflexivity]. }
  split; [apply Hgen; exact Hrp | apply Hgen; exact Hrp].
Qed.

(** Rename: two names, two backups (new name first, as in the Go source).
    The first component: the backup of the new name fails; the second: it
    succeeds and the backup of the old name fails. *)
Theorem b_rename_fail_stop : forall base backup oldname newname w ro_ w1 rn w2,
  real_path base oldname w = (MOk ro_, w1) ->
  real_path base newname w1 = (MOk rn, w2) ->
  (forall r w3, try_backup base backup rn w2 = (r, w3) -> r <> MOk tt ->
     b_rename base backup oldname newname w = (r, w3) /\
     b_rename (ro base) backup oldname newname w = (r, w3)) /\
  (forall w3 r w4, try_backup base backup rn w2 = (MOk tt, w3) ->
     try_backup base backup ro_ w3 = (r, w4) -> r <> MOk tt ->
     b_rename base backup oldname newname w = (r, w4) /\
     b_rename (ro base) backup oldname newname w = (r, w4)).
Proof.
  intros base backup oldname newname w ro_ w1 rn w2 H1 H2.
  assert (forall b, real_path b oldname w = (MOk ro_, w1) -> real_path b newname w1 = (MOk rn, w2) ->
            (forall p w', try_backup b backup p w' = try_backup base backup p w') ->
            (forall r w3, try_backup base backup rn w2 = (r, w3) -> r <> MOk tt ->
               b_rename b backup oldname newname w = (r, w3)) /\
            (forall w3 r w4, try_backup base backup rn w2 = (MOk tt, w3) ->
               try_backup base backup ro_ w3 = (r, w4) -> r <> MOk tt ->
               b_rename b backup oldname newname w = (r, w4))) as Hgen.
  { intros b Hb1 Hb2 Htb. split.
    - intros r w3 Hr Hne. unfold b_rename, bind. rewrite Hb1, Hb2, Htb, Hr.
      destruct r as [[]|e|]; [exfalso; apply Hne; reflexivity | reflexivity | reflexivity].
    - intros w3 r w4 Hr1 Hr2 Hne. unfold b_rename, bind. rewrite Hb1, Hb2, Htb, Hr1, Htb, Hr2.
      destruct r as [[]|e|]; [exfalso; apply Hne; reflexivity | reflexivity | reflexivity]. }
  destruct (Hgen base H1 H2 (fun p w' => eq_refl)) as [Ha1 Ha2].
  destruct (Hgen (ro base) H1 H2 (fun p w' => eq_refl)) as [Hb1 Hb2].
  split.
  - intros r w3 Hr Hne. split; [exact (Ha1 r w3 Hr Hne) | exact (Hb1 r w3 Hr Hne)].
  - intros w3 r w4 Hr1 Hr2 Hne. split; [exact (Ha2 w3 r w4 Hr1 Hr2 Hne) | exact (Hb2 w3 r w4 Hr1 Hr2 Hne)].
Qed.

(** * C08-b for RemoveAll.

    [b_removeall] walks the tree through read-only base methods and calls
    [b_remove] on every entry (files during the walk, directories afterwards,
    deepest first).  Stated with the walk generalised over the filesystem it
    walks ([wb]) and over the removal it performs ([rm]):
    - [b_removeall] is [removeall_gen base (b_remove base backup)];
    - the walk itself never calls a mutating method: [removeall_gen (ro wb) rm]
      = [removeall_gen wb rm], so every mutating call happens inside one of
      the [b_remove]s, each of which is fail-stop (above);
    - no failure of [rm] is ever caught or ignored: turning every error of
      [rm] into an immediate stop ([halt_on_err]) leads to the same world, with
      an error where the stopped run has the stop.  So the first failing
      [b_remove] (in particular: one whose backup failed) ends RemoveAll with
      an error in exactly the world that [b_remove] left. *)

Definition removeall_gen (wb : fsapi) (rm : str -> M unit) (name : str) : M unit :=
  rn <- real_path wb name ;;
  r <- try_ (a_lstat wb rn) ;;
  match r with
  | Err e => if is_not_found e then ret tt else fail e
  | Ok fi =>
      if negb (is_dir_info fi) then rm rn
      else
        dirs <- walk_m wb rn
                  (fun (acc : list str) sub info =>
                     if is_dir_info info then ret (acc ++ [sub])
                     else rm sub ;;; ret acc) [] ;;
        miter rm (sort_most dirs)
  end.

Theorem b_removeall_as_gen : forall base backup name w,
  b_removeall base backup name w = removeall_gen base (b_remove base backup) name w.
Proof. intros base backup name w. unfold b_removeall, removeall_gen. reflexivity. Qed.

(** the tree walk (walk.go) uses only Lstat and Open of the filesystem it walks *)
Lemma walk_fold_ro {A} (b : fsapi) (fn : A -> str -> finfo -> M A) :
  forall fuel path info acc w,
    walk_fold fuel (ro b) path info fn acc w = walk_fold fuel b path info fn acc w.
Proof.
  induction fuel as [|fuel IH]; intros path info acc w; [reflexivity|].
  cbn [walk_fold]. apply bind_ext; [reflexivity|]. intros acc1 w1 _.
  destruct (is_dir_info info); [|reflexivity].
  apply bind_ext; [reflexivity|]. intros names w2 _.
  apply mfold_ext. intros a name w3.
  apply bind_ext; [reflexivity|]. intros fi w4 _. apply IH.
Qed.

Lemma walk_m_ro {A} (b : fsapi) (root : str) (fn : A -> str -> finfo -> M A) (acc : A) (w : world) :
  walk_m (ro b) root fn acc w = walk_m b root fn acc w.
Proof.
  unfold walk_m. apply bind_ext; [reflexivity|]. intros info w1 _. apply walk_fold_ro.
Qed.

Theorem removeall_gen_ro : forall wb rm name w,
  removeall_gen (ro wb) rm name w = removeall_gen wb rm name w.
Proof.
  intros wb rm name w. unfold removeall_gen.
  apply bind_ext; [reflexivity|]. intros rn w1 _.
  apply bind_ext; [reflexivity|]. intros r w2 _.
  destruct r as [fi|e]; [|reflexivity].
  destruct (negb (is_dir_info fi)); [reflexivity|].
  apply bind_ext; [apply walk_m_ro | intros dirs w3 _; reflexivity].
Qed.

Definition halt_on_err {A} (m : M A) : M A :=
  fun w => match m w with
           | (MErr _, w') => (MHalt, w')
           | r => r
           end.

(** [r'] is [r], except that [r'] may be a stop where [r] is an error, in the same world *)
Definition stops_like {A} (r r' : mres A * world) : Prop :=
  r = r' \/ exists e w2, r = (MErr e, w2) /\ r' = (MHalt, w2).

Lemma stops_refl {A} (r : mres A * world) : stops_like r r.
Proof. left. reflexivity. Qed.

Lemma stops_halt_on_err {A} (m : M A) (w : world) : stops_like (m w) (halt_on_err m w).
Proof.
  unfold halt_on_err. destruct (m w) as [[a|e|] w'].
  - left. reflexivity.
  - right. exists e, w'. split; reflexivity.
  - left. reflexivity.
Qed.

Lemma stops_bind {A B} (m m' : M A) (f f' : A -> M B) (w : world) :
  stops_like (m w) (m' w) ->
  (forall a w', stops_like (f a w') (f' a w')) ->
  stops_like (bind m f w) (bind m' f' w).
Proof.
  intros [Heq | (e & w2 & H1 & H2)] Hf; unfold bind.
  - rewrite Heq. destruct (m' w) as [[a|e|] w']; [apply Hf | apply stops_refl | apply stops_refl].
  - rewrite H1, H2. right. exists e, w2. split; reflexivity.
Qed.

Lemma stops_mfold {A B} (f f' : B -> A -> M B) (l : list A) :
  (forall b x w, stops_like (f b x w) (f' b x w)) ->
  forall b w, stops_like (mfold f l b w) (mfold f' l b w).
Proof.
  intros Hf. induction l as [|x r IH]; intros b w; [apply stops_refl|].
  cbn [mfold]. apply stops_bind; [apply Hf | intros b' w'; apply IH].
Qed.

Lemma stops_miter {A} (f f' : A -> M unit) (l : list A) :
  (forall x w, stops_like (f x w) (f' x w)) ->
  forall w, stops_like (miter f l w) (miter f' l w).
Proof.
  intros Hf. induction l as [|x r IH]; intros w; [apply stops_refl|].
  cbn [miter]. apply stops_bind; [apply Hf | intros u w'; apply IH].
Qed.

Lemma stops_walk_fold {A} (b : fsapi) (fn fn' : A -> str -> finfo -> M A) :
  (forall a p i w, stops_like (fn a p i w) (fn' a p i w)) ->
  forall fuel path info acc w,
    stops_like (walk_fold fuel b path info fn acc w) (walk_fold fuel b path info fn' acc w).
Proof.
  intros Hfn. induction fuel as [|fuel IH]; intros path info acc w; [apply stops_refl|].
  cbn [walk_fold]. apply stops_bind; [apply Hfn|]. intros acc1 w1.
  destruct (is_dir_info info); [|apply stops_refl].
  apply stops_bind; [apply stops_refl|]. intros names w2.
  apply stops_mfold. intros a name w3.
  apply stops_bind; [apply stops_refl|]. intros fi w4. apply IH.
Qed.

Theorem removeall_gen_fail_stop : forall wb rm name w,
  stops_like (removeall_gen wb rm name w)
             (removeall_gen wb (fun n => halt_on_err (rm n)) name w).
Proof.
  intros wb rm name w. unfold removeall_gen.
  apply stops_bind; [apply stops_refl|]. intros rn w1.
  apply stops_bind; [apply stops_refl|]. intros r w2.
  destruct r as [fi|e]; [|apply stops_refl].
  destruct (negb (is_dir_info fi)); [apply stops_halt_on_err|].
  apply stops_bind.
  - unfold walk_m. apply stops_bind; [apply stops_refl|]. intros info w3.
    apply stops_walk_fold. intros a p i w4.
    destruct (is_dir_info i); [apply stops_refl|].
    apply stops_bind; [apply stops_halt_on_err | intros u w5; apply stops_refl].
  - intros dirs w3. apply stops_miter. intros x w4. apply stops_halt_on_err.
Qed.

(** the same for the backup step proper: [b_removeall] with [try_backup]
    replaced by a version that stops on error *)
Definition remove_with (base : fsapi) (tb : str -> M unit) (name : str) : M unit :=
  rn <- real_path base name ;; tb rn ;;; a_remove base rn.

Theorem b_remove_as_with : forall base backup name w,
  b_remove base backup name w = remove_with base (try_backup base backup) name w.
Proof. reflexivity. Qed.

Theorem b_removeall_backup_fail_stop : forall base backup name w,
  stops_like (b_removeall base backup name w)
             (removeall_gen base
                (remove_with base (fun p => halt_on_err (try_backup base backup p))) name w).
Proof.
  intros base backup name w.
  change (b_removeall base backup name w)
    with (removeall_gen base (remove_with base (try_backup base backup)) name w).
  assert (forall n w', stops_like (remove_with base (try_backup base backup) n w')
                         (remove_with base (fun p => halt_on_err (try_backup base backup p)) n w')) as Hrm.
  { intros n w'. unfold remove_with. apply stops_bind; [apply stops_refl|]. intros rn w1.
    apply stops_bind; [apply stops_halt_on_err | intros u w2; apply stops_refl]. }
  unfold removeall_gen.
  apply stops_bind; [apply stops_refl|]. intros rn w1.
  apply stops_bind; [apply stops_refl|]. intros r w2.
  destruct r as [fi|e]; [|apply stops_refl].
  destruct (negb (is_dir_info fi)); [apply Hrm|].
  apply stops_bind.
  - unfold walk_m. apply stops_bind; [apply stops_refl|]. intros info w3.
    apply stops_walk_fold. intros a p i w4.
    destruct (is_dir_info i); [apply stops_refl|].
    apply stops_bind; [apply Hrm | intros u w5; apply stops_refl].
  - intros dirs w3. apply stops_miter. intros x w4. apply Hrm.
Qed.

(** * C03: the read-only operations.

    [Lstat], [Stat], [Readlink] are one call of the same method of the base
    with the unresolved name, and nothing else; [Open] and [OpenFile] with
    flag O_RDONLY (= 0) are one call [base.OpenFile(name, O_RDONLY, 0)].
    Note that [Open] goes through the base's *OpenFile* method, not its Open:
    under the strict [ro] (OpenFile trapped) it would stop, hence [ro0]. *)

Theorem b_lstat_delegates : forall base n w, b_lstat base n w = a_lstat base n w.
Proof. reflexivity. Qed.
Theorem b_stat_delegates : forall base n w, b_stat base n w = a_stat base n w.
Proof. reflexivity. Qed.
Theorem b_readlink_delegates : forall base n w, b_readlink base n w = a_readlink base n w.
Proof. reflexivity. Qed.
Theorem b_open_delegates : forall base backup n w, b_open base backup n w = a_openfile base n 0 0 w.
Proof. reflexivity. Qed.
Theorem b_openfile_rdonly_delegates : forall base backup n perm w,
  b_openfile base backup n 0 perm w = a_openfile base n 0 0 w.
Proof. reflexivity. Qed.

Theorem b_lstat_ro : forall base n w, b_lstat (ro base) n w = b_lstat base n w.
Proof. reflexivity. Qed.
Theorem b_stat_ro : forall base n w, b_stat (ro base) n w = b_stat base n w.
Proof. reflexivity. Qed.
Theorem b_readlink_ro : forall base n w, b_readlink (ro base) n w = b_readlink base n w.
Proof. reflexivity. Qed.
Theorem b_open_ro : forall base backup n w,
  b_open (ro0 base) trap_api n w = b_open base backup n w.
Proof. reflexivity. Qed.
Theorem b_openfile_rdonly_ro : forall base backup n perm w,
  b_openfile (ro0 base) trap_api n 0 perm w = b_openfile base backup n 0 perm w.
Proof. reflexivity. Qed.

(** the single methods used *)
Definition ms_one (m0 : meth) (m : meth) : bool :=
  match m0, m with
  | MLstat, MLstat | MStat, MStat | MReadlink, MReadlink | MOpenFile, MOpenFile => true
  | _, _ => false
  end.

Theorem b_lstat_only : forall base n w, b_lstat (only_methods (ms_one MLstat) base) n w = b_lstat base n w.
Proof. reflexivity. Qed.
Theorem b_stat_only : forall base n w, b_stat (only_methods (ms_one MStat) base) n w = b_stat base n w.
Proof. reflexivity. Qed.
Theorem b_readlink_only : forall base n w, b_readlink (only_methods (ms_one MReadlink) base) n w = b_readlink base n w.
Proof. reflexivity. Qed.
Theorem b_open_only : forall base backup n w,
  b_open (only_methods (ms_one MOpenFile) base) trap_api n w = b_open base backup n w.
Proof. reflexivity. Qed.

(** consequently the bookkeeping ([w_infos]) after a read-only operation is
    whatever the one base call leaves; it is unchanged whenever the base's own
    methods do not touch it (BackupFS itself performs no [put_infos] here) *)
Theorem readonly_infos_unchanged : forall base backup : fsapi,
  (forall p w r w', a_lstat base p w = (r, w') -> w_infos w' = w_infos w) ->
  (forall p w r w', a_stat base p w = (r, w') -> w_infos w' = w_infos w) ->
  (forall p w r w', a_readlink base p w = (r, w') -> w_infos w' = w_infos w) ->
  (forall p w r w', a_openfile base p 0 0 w = (r, w') -> w_infos w' = w_infos w) ->
  (forall n w r w', b_lstat base n w = (r, w') -> w_infos w' = w_infos w) /\
  (forall n w r w', b_stat base n w = (r, w') -> w_infos w' = w_infos w) /\
  (forall n w r w', b_readlink base n w = (r, w') -> w_infos w' = w_infos w) /\
  (forall n w r w', b_open base backup n w = (r, w') -> w_infos w' = w_infos w) /\
  (forall n perm w r w', b_openfile base backup n 0 perm w = (r, w') -> w_infos w' = w_infos w).
Proof.
  intros base backup Hl Hs Hr Ho.
  split; [exact Hl | split; [exact Hs | split; [exact Hr | split; [exact Ho | intros n perm; exact (Ho n)]]]].
Qed.

(** * C13: Rollback stays within the footprint of the transaction.

    Every call that [b_rollback] makes on either filesystem has as its path
    argument a key of [baseInfos] as it was when Rollback started (for
    Symlink: the link location).  No call is made on a parent or on any other
    derived path: parents are only touched *inside* [base.MkdirAll(p)] /
    [base.RemoveAll(p)], i.e. by the base filesystem itself. *)

Definition tracked (w : world) (p : str) : bool := bool_decide (is_Some (w_infos w !! p)).

Definition cls_ok (Q : str -> Prop)
    (c : list errno * list str * list str * list str * list str) : Prop :=
  let '(_, rm, ds, fs, ls) := c in Forall Q rm /\ Forall Q ds /\ Forall Q fs /\ Forall Q ls.

Lemma info_of_key_tracked (i : infomap) (p : str) (fi : finfo) :
  info_of_key i p = Some fi -> is_Some (i !! p).
Proof.
  unfold info_of_key. intros H. destruct (i !! p) as [[fi'|]|]; [eexists; reflexivity | discriminate H | discriminate H].
Qed.

Section Guard.
  Variable P : str -> bool.

  Lemma lexists_guard (a : fsapi) (p : str) (w : world) :
    P p = true -> lexists (guard_api P a) p w = lexists a p w.
  Proof. intros HP. unfold lexists. api_simpl. rewrite HP. reflexivity. Qed.

  Lemma copy_dir_guard (a : fsapi) (p : str) (fi : finfo) (w : world) :
    P p = true -> copy_dir (guard_api P a) p fi w = copy_dir a p fi w.
  Proof. intros HP. unfold copy_dir, chown_to. api_simpl. rewrite HP. reflexivity. Qed.

  Lemma remove_if_symlink_guard (a : fsapi) (p : str) (w : world) :
    P p = true -> remove_if_symlink (guard_api P a) p w = remove_if_symlink a p w.
  Proof. intros HP. unfold remove_if_symlink. api_simpl. rewrite HP. reflexivity. Qed.

  Lemma restore_file_guard (base backup : fsapi) (p : str) (fi : finfo) (w : world) :
    P p = true ->
    restore_file (guard_api P base) (guard_api P backup) p fi w = restore_file base backup p fi w.
  Proof.
    intros HP. unfold restore_file, remove_if_symlink, copy_file, write_file, chown_to.
    api_simpl. rewrite HP. reflexivity.
  Qed.

  Lemma restore_symlink_guard (base backup : fsapi) (p : str) (fi : finfo) (w : world) :
    P p = true ->
    restore_symlink (guard_api P base) (guard_api P backup) p fi w = restore_symlink base backup p fi w.
  Proof.
    intros HP. unfold restore_symlink, lexists, copy_symlink. api_simpl. rewrite HP. reflexivity.
  Qed.

  Lemma try_remove_backup_paths_guard (backup : fsapi) (paths : list str) (w : world) :
    Forall (fun p => P p = true) paths ->
    try_remove_backup_paths (guard_api P backup) paths w = try_remove_backup_paths backup paths w.
  Proof.
    intros HQ. unfold try_remove_backup_paths.
    apply (collect_errs_ext (fun p => P p = true)); [apply isort_Forall; exact HQ|].
    intros x wx Hx. apply bind_ext; [apply lexists_guard; exact Hx|].
    intros found w1 _. destruct found; [|reflexivity]. api_simpl. rewrite Hx. reflexivity.
  Qed.

  Theorem b_rollback_guard : forall (base backup : fsapi) (w : world),
    (forall p, is_Some (w_infos w !! p) -> P p = true) ->
    b_rollback (guard_api P base) (guard_api P backup) w = b_rollback base backup w.
  Proof.
    intros base backup w HT. unfold b_rollback.
    apply bind_ext; [reflexivity|]. intros infos w0 Hget.
    unfold get_infos in Hget. injection Hget as Hinfos Hw0. subst infos w0.
    apply bind_ext.
    { apply mfold_ext. intros acc p w1. destruct acc as [[[[errs rm] ds] fs] ls].
      cbv beta iota.
      destruct (w_infos w !! p) as [[fi|]|] eqn:E; [reflexivity| |reflexivity].
      apply bind_ext; [|intros r w2 _; reflexivity].
      apply try_ext. apply lexists_guard. apply HT. rewrite E. eexists; reflexivity. }
    intros cls w1 Hcls.
    assert (cls_ok (fun p => P p = true) cls) as Hok.
    { eapply (mfold_inv (cls_ok (fun p => P p = true))); [| |exact Hcls].
      - intros b x wa b' wb Hb Hstep. destruct b as [[[[errs rm] ds] fs] ls].
        destruct Hb as (Hrm & Hds & Hfs & Hls). cbv beta iota in Hstep.
        assert (forall l, Forall (fun p => P p = true) l -> is_Some (w_infos w !! x) ->
                          Forall (fun p => P p = true) (l ++ [x])) as Hadd.
        { intros l Hl Hx. apply Forall_app. split; [exact Hl|].
          constructor; [apply HT; exact Hx | constructor]. }
        destruct (w_infos w !! x) as [[fi|]|] eqn:E.
        + assert (is_Some (Some (Some fi) : option (option finfo))) as Hs by (eexists; reflexivity).
          destruct (str_eqb x s_root).
          * injection Hstep as <- _. repeat split; assumption.
          * destruct (fi_kind fi); injection Hstep as <- _; repeat split;
              try assumption; apply Hadd; assumption.
        + assert (is_Some (Some None : option (option finfo))) as Hs by (eexists; reflexivity).
          unfold bind in Hstep.
          destruct (try_ (lexists base x) wa) as [[r|e|] wc]; [|discriminate Hstep|discriminate Hstep].
          destruct r as [[|]|e]; injection Hstep as <- _; repeat split;
            try assumption; apply Hadd; assumption.
        + injection Hstep as <- _. repeat split; assumption.
      - repeat split; constructor. }
    destruct cls as [[[[errs0 rm] ds] fs] ls]. destruct Hok as (Hrm & Hds & Hfs & Hls).
    cbv beta iota.
    apply bind_ext.
    { apply (collect_errs_ext (fun p => P p = true)); [apply isort_Forall; exact Hrm|].
      intros x wx Hx. api_simpl. rewrite Hx. reflexivity. }
    intros e1 w2 _.
    apply bind_ext.
    { apply (collect_errs_ext (fun _ => True)); [apply Forall_true; intros x; exact I|].
      intros x wx _. destruct (info_of_key (w_infos w) x) as [fi|] eqn:E; [|reflexivity].
      assert (P x = true) as HPx by (apply HT; exact (info_of_key_tracked _ _ _ E)).
      apply bind_ext; [apply remove_if_symlink_guard; exact HPx|].
      intros u wy _. apply copy_dir_guard. exact HPx. }
    intros e2 w3 _.
    apply bind_ext.
    { apply (collect_errs_ext (fun _ => True)); [apply Forall_true; intros x; exact I|].
      intros x wx _. destruct (info_of_key (w_infos w) x) as [fi|] eqn:E; [|reflexivity].
      apply restore_file_guard. apply HT. exact (info_of_key_tracked _ _ _ E). }
    intros e3 w4 _.
    apply bind_ext.
    { apply (collect_errs_ext (fun _ => True)); [apply Forall_true; intros x; exact I|].
      intros x wx _. destruct (info_of_key (w_infos w) x) as [fi|] eqn:E; [|reflexivity].
      apply restore_symlink_guard. apply HT. exact (info_of_key_tracked _ _ _ E). }
    intros e4 w5 _.
    apply bind_ext; [apply try_remove_backup_paths_guard; exact Hls|]. intros e5 w6 _.
    apply bind_ext; [apply try_remove_backup_paths_guard; exact Hfs|]. intros e6 w7 _.
    apply bind_ext; [apply try_remove_backup_paths_guard; exact Hds|]. intros e7 w8 _.
    reflexivity.
  Qed.
End Guard.

Theorem b_rollback_tracked_only : forall base backup w,
  b_rollback (guard_api (tracked w) base) (guard_api (tracked w) backup) w = b_rollback base backup w.
Proof.
  intros base backup w. apply b_rollback_guard. intros p Hp.
  unfold tracked. apply bool_decide_eq_true. exact Hp.
Qed.

(** which methods Rollback uses: on the backup only Lstat, Open, Readlink and
    Remove (never RemoveAll, Rename or any other mutator); on the base never
    Rename, Create, Mkdir, Open, Stat, Readlink.  [base.RemoveAll] IS used: by
    [restore_file] when the backup copy is not a regular file and by
    [restore_symlink] when something exists at the link's place. *)
Definition ms_rollback_backup (m : meth) : bool :=
  match m with MLstat | MOpen | MReadlink | MRemove => true | _ => false end.
Definition ms_rollback_base (m : meth) : bool :=
  match m with
  | MLstat | MRemove | MRemoveAll | MMkdirAll | MChmod | MChtimes | MChown
  | MOpenFile | MSymlink | MLchown => true
  | _ => false
  end.

Theorem b_rollback_methods : forall base backup w,
  b_rollback (only_methods ms_rollback_base base) (only_methods ms_rollback_backup backup) w
  = b_rollback base backup w.
Proof. intros base backup w. unfold b_rollback. reflexivity. Qed.

(** both restrictions at once *)
Theorem b_rollback_footprint : forall base backup w,
  b_rollback (guard_api (tracked w) (only_methods ms_rollback_base base))
             (guard_api (tracked w) (only_methods ms_rollback_backup backup)) w
  = b_rollback base backup w.
Proof.
  intros base backup w.
  rewrite (b_rollback_tracked_only (only_methods ms_rollback_base base)
             (only_methods ms_rollback_backup backup) w).
  apply b_rollback_methods.
Qed.

(** * ForceBackup (C17/C07), optional part.

    [b_force_backup name] is: resolve, look the resolved path up in the
    bookkeeping, [try_remove_backup] of the resolved path, [try_backup] of the
    resolved path; if that fails and the path had been recorded as "did not
    exist", the record is put back ([set_info_if_new], bookkeeping only).  It
    never calls a mutating method of the base.  [try_remove_backup p] does not
    mention the base at all (it is
    a function of [backup] only), does nothing when [p] is not tracked, uses
    only Lstat, Open, Remove and RemoveAll of the backup, and every path it
    calls the backup with is [p] or obtained from [p] by joining directory
    entry names ([join2]) below it. *)

Theorem b_force_backup_unfold : forall base backup name w,
  b_force_backup base backup name w
  = (rn <- real_path base name ;;
     prev <- already_seen rn ;;
     try_remove_backup backup rn ;;;
     r <- try_ (try_backup base backup rn) ;;
     match r with
     | Ok _ => ret tt
     | Err e => (match prev with Some None => set_info_if_new rn None | _ => ret tt end) ;;; fail e
     end) w.
Proof. reflexivity. Qed.

Theorem b_force_backup_ro : forall base backup name w,
  b_force_backup (ro base) backup name w = b_force_backup base backup name w.
Proof. intros base backup name w. unfold b_force_backup. reflexivity. Qed.

Theorem try_remove_backup_untracked : forall backup p w,
  w_infos w !! p = None -> try_remove_backup backup p w = (MOk tt, w).
Proof.
  intros backup p w Hn. unfold try_remove_backup, already_seen, get_infos, bind, ret.
  rewrite Hn. reflexivity.
Qed.

Lemma read_dir_names_ext (b b' : fsapi) (d : str) (w : world) :
  a_open b d w = a_open b' d w -> read_dir_names b d w = read_dir_names b' d w.
Proof. intros Ho. unfold read_dir_names. apply bind_ext; [exact Ho | intros h w1 _; reflexivity]. Qed.

(** the walk on two filesystems that agree (on the paths in [Q], closed under
    joining entry names) on Lstat and Open, with callbacks that agree on [Q] *)
Lemma walk_fold_ext {A} (Q : str -> Prop) (b b' : fsapi) (fn fn' : A -> str -> finfo -> M A) :
  (forall q n, Q q -> Q (join2 q n)) ->
  (forall p w, Q p -> a_lstat b p w = a_lstat b' p w) ->
  (forall p w, Q p -> a_open b p w = a_open b' p w) ->
  (forall a p i w, Q p -> fn a p i w = fn' a p i w) ->
  forall fuel path info acc w, Q path ->
    walk_fold fuel b path info fn acc w = walk_fold fuel b' path info fn' acc w.
Proof.
  intros Hj Hl Ho Hfn. induction fuel as [|fuel IH]; intros path info acc w HQ; [reflexivity|].
  cbn [walk_fold]. apply bind_ext; [apply Hfn; exact HQ|]. intros acc1 w1 _.
  destruct (is_dir_info info); [|reflexivity].
  apply bind_ext; [apply read_dir_names_ext; apply Ho; exact HQ|]. intros names w2 _.
  apply mfold_ext. intros a name w3.
  apply bind_ext; [apply Hl; apply Hj; exact HQ|]. intros fi w4 _. apply IH. apply Hj. exact HQ.
Qed.

Lemma walk_fold_inv {A} (I : A -> Prop) (Q : str -> Prop) (b : fsapi) (fn : A -> str -> finfo -> M A) :
  (forall q n, Q q -> Q (join2 q n)) ->
  (forall a p i w a' w', Q p -> I a -> fn a p i w = (MOk a', w') -> I a') ->
  forall fuel path info acc w acc' w', Q path -> I acc ->
    walk_fold fuel b path info fn acc w = (MOk acc', w') -> I acc'.
Proof.
  intros Hj Hfn. induction fuel as [|fuel IH]; intros path info acc w acc' w' HQ HI Hrun;
    [discriminate Hrun|].
  cbn [walk_fold] in Hrun. unfold bind at 1 in Hrun.
  destruct (fn acc path info w) as [[acc1|e|] w1] eqn:E1; [|discriminate Hrun|discriminate Hrun].
  assert (I acc1) as HI1 by (eapply Hfn; [exact HQ | exact HI | exact E1]).
  destruct (is_dir_info info); [|injection Hrun as <- _; exact HI1].
  unfold bind at 1 in Hrun.
  destruct (read_dir_names b path w1) as [[names|e|] w2]; [|discriminate Hrun|discriminate Hrun].
  eapply (mfold_inv I); [|exact HI1|exact Hrun].
  intros a name wa a' wb Ha Hstep. unfold bind in Hstep.
  destruct (a_lstat b (join2 path name) wa) as [[fi|e|] wc]; [|discriminate Hstep|discriminate Hstep].
  eapply IH; [apply Hj; exact HQ | exact Ha | exact Hstep].
Qed.

Definition ms_remove_backup (m : meth) : bool :=
  match m with MLstat | MOpen | MRemove | MRemoveAll => true | _ => false end.

Theorem try_remove_backup_methods : forall backup p w,
  try_remove_backup (only_methods ms_remove_backup backup) p w = try_remove_backup backup p w.
Proof.
  intros backup p w. unfold try_remove_backup.
  apply bind_ext; [reflexivity|]. intros seen w1 _.
  destruct seen as [[i|]|]; [|reflexivity|reflexivity].
  apply bind_ext; [reflexivity|]. intros r w2 _.
  destruct r as [fi|e]; [|reflexivity].
  destruct (negb (is_dir_info fi)); [reflexivity|].
  apply bind_ext; [|intros dirs w3 _; reflexivity].
  unfold walk_m. apply bind_ext; [reflexivity|]. intros info w3 _.
  apply (walk_fold_ext (fun _ => True)); try (intros; reflexivity); try (intros; exact I).
Qed.

Section GuardRemoveBackup.
  Variable P : str -> bool.
  Hypothesis P_join : forall q n, P q = true -> P (join2 q n) = true.

  Theorem try_remove_backup_guard : forall backup p w, P p = true ->
    try_remove_backup (guard_api P backup) p w = try_remove_backup backup p w.
  Proof.
    intros backup p w HP. unfold try_remove_backup.
    apply bind_ext; [reflexivity|]. intros seen w1 _.
    destruct seen as [[i|]|]; [|reflexivity|reflexivity].
    apply bind_ext; [api_simpl; rewrite HP; reflexivity|]. intros r w2 _.
    destruct r as [fi|e]; [|reflexivity].
    destruct (negb (is_dir_info fi)); [api_simpl; rewrite HP; reflexivity|].
    assert (forall (a : list str) (q : str) (i0 : finfo) (wq : world), P q = true ->
              (if is_dir_info i0 then ret (a ++ [q])
               else a_remove (guard_api P backup) q ;;; delete_info q ;;; ret a) wq =
              (if is_dir_info i0 then ret (a ++ [q])
               else a_remove backup q ;;; delete_info q ;;; ret a) wq) as Hfn.
    { intros a q i0 wq Hq. destruct (is_dir_info i0); [reflexivity|].
      api_simpl. rewrite Hq. reflexivity. }
    apply bind_ext.
    { unfold walk_m. apply bind_ext; [api_simpl; rewrite HP; reflexivity|]. intros info w3 _.
      apply (walk_fold_ext (fun q => P q = true)).
      - exact P_join.
      - intros q wq Hq. api_simpl. rewrite Hq. reflexivity.
      - intros q wq Hq. api_simpl. rewrite Hq. reflexivity.
      - exact Hfn.
      - exact HP. }
    intros dirs w3 Hwalk.
    assert (Forall (fun q => P q = true) dirs) as Hdirs.
    { unfold walk_m, bind in Hwalk.
      destruct (a_lstat backup p w2) as [[info|e|] w4]; [|discriminate Hwalk|discriminate Hwalk].
      eapply (walk_fold_inv (Forall (fun q => P q = true)) (fun q => P q = true));
        [exact P_join | | exact HP | constructor | exact Hwalk].
      intros a q i0 wq a' wq' Hq Ha Hstep. cbv beta in Hstep. destruct (is_dir_info i0).
      - cbv beta iota in Hstep. injection Hstep as <- _. apply Forall_app. split; [exact Ha | constructor; [exact Hq | constructor]].
      - cbv beta iota in Hstep. unfold bind in Hstep.
        destruct (a_remove backup q wq) as [[u|e|] wr]; [|discriminate Hstep|discriminate Hstep].
        destruct (delete_info q wr) as [[u'|e|] wr']; [|discriminate Hstep|discriminate Hstep].
        injection Hstep as <- _. exact Ha. }
    apply (miter_ext (fun q => P q = true)); [apply isort_Forall; exact Hdirs|].
    intros d wd Hd. api_simpl. rewrite Hd. reflexivity.
  Qed.
End GuardRemoveBackup.

(** * Sanity: the restriction does detect a mutating call.  When resolution
      and backup succeed, [b_create] on [ro base] stops at the [base.Create]
      call, in the world the successful backup left. *)
Example ro_detects_create : forall base backup name w rn w1 w2,
  real_path base name w = (MOk rn, w1) ->
  try_backup base backup rn w1 = (MOk tt, w2) ->
  b_create (ro base) backup name w = (MHalt, w2).
Proof.
  intros base backup name w rn w1 w2 Hrp Htb.
  change (b_create (ro base) backup name w)
    with ((rn <- real_path base name ;; try_backup base backup rn ;;; @mhalt fhandle) w).
  unfold bind. rewrite Hrp, Htb. reflexivity.
Qed.
