(** Laws of Spec/Laws.v and Spec/Laws2.v for the concrete layered model
    [the_api tag pa = spy tag (prefixfs pa osfs)] with the view [Vp pa] (and
    the other view [Vp pb]), part B: the removal laws, the frames of the
    user's own mutations, and the reading laws of [api_laws2].  Built on
    Proofs/LawsOsfsBase.v; same instantiation as its [Section Examples]
    ([tnorm := clean], [accepts := acc_p pa], [rh := rh_p tag pa],
    [wh := wh_p tag pa]).

    Every lemma [osfs_<field>] has, syntactically, the statement of the field
    [<field>] of [api_laws] / [api_laws2] (checked by [statements_match] at
    the end of the section) and takes the arguments
    [tag pa pb (Ha : prefix_ok pa) (Hb : prefix_ok pb) (Hd : disjoint_prefixes pa pb)].

    One field is NOT provable as stated: [law_user_remove].  For [p = s_root]
    and a view that consists of the empty root directory, [Remove] removes the
    directory of the prefix itself and the view of the resulting world is not
    well formed ([law_user_remove_fails_at_empty_root]).  The strongest true
    variant is [osfs_law_user_remove_variant] (side condition
    [p <> s_root \/ ~ no_children (V w) p]); [osfs_law_user_remove_nonroot]
    is the form with [p <> s_root].

    Contents: model facts; [framed] on the returned pair ([framed_res]) and
    the three shapes of a change at a view path ([shape_update], [shape_add],
    [shape_remove]); Chmod/Chown/Lchown/Chtimes; Symlink; Create/OpenFile;
    Remove/RemoveAll (precise laws); Stat/Readlink/read-only OpenFile; the
    frame of Remove; state-preserving steps ([pure_step]); [write_close] and
    the handle laws; read-only handles; directory listing; MkdirAll
    ([mk_inv], [fs_mkdirall_aux_inv]). *)
From stdpp Require Import gmap.
From BFS Require Export Proofs.LawsOsfsBase Spec.Laws2.
Local Open Scope nat_scope.

(* ------------------------------------------------------------------ *)
(** * Facts about the POSIX model that do not mention the view *)

(** opening read-only never changes the state, and the handle cannot write *)
Lemma fs_open_ro : forall s q,
  snd (fs_open s q 0 0) = s /\
  forall hh, fst (fs_open s q 0 0) = Ok hh -> h_write hh = false.
Proof.
  intros s q. unfold fs_open.
  change (o_creat 0) with false. change (o_trunc 0) with false. change (o_excl 0) with false.
  change (o_wronly 0) with false. change (o_rdwr 0) with false. change (o_append 0) with false.
  cbn [andb orb negb].
  destruct (resolve (st_fs s) q true) as [k [m|m c|m t]|par name sl|e]; cbn [fst snd];
    (split; [reflexivity|]); intros hh H; try discriminate H; injection H as H; subst hh; reflexivity.
Qed.

(** [fs_symlink] with an empty target *)
Lemma fs_symlink_nil : forall s q, fs_symlink s [] q = (Err ENOENT, s).
Proof. reflexivity. Qed.

Lemma node_eqv_is_dir : forall a b, node_eqv a b -> is_dir a = is_dir b.
Proof. intros [ma|ma ca|ma ta] [mb|mb cb|mb tb] H; simpl in H; try discriminate H; try contradiction; reflexivity. Qed.

Lemma onode_eqv_None_l : forall o, onode_eqv None o -> o = None.
Proof. intros [n|] H; [contradiction | reflexivity]. Qed.

Lemma onode_eqv_is_dir_at : forall (f f' : fs) k,
  onode_eqv (f' !! k) (f !! k) -> (is_dir_at f k <-> is_dir_at f' k).
Proof.
  intros f f' k H. unfold is_dir_at. destruct (f' !! k) as [a|], (f !! k) as [b|]; simpl in H; try contradiction.
  - pose proof (node_eqv_is_dir a b H) as E. split; intros [m Hm]; injection Hm as Hm; subst.
    + destruct a; try discriminate E. eexists; reflexivity.
    + destruct b; try discriminate E. eexists; reflexivity.
  - split; intros [m Hm]; discriminate Hm.
Qed.

Lemma onode_eqv_not_link_at : forall (f f' : fs) k,
  onode_eqv (f' !! k) (f !! k) -> not_link_at f k -> not_link_at f' k.
Proof.
  intros f f' k H Hn m t E. rewrite E in H. destruct (f !! k) as [b|] eqn:Eb; simpl in H; [|contradiction].
  destruct b as [mb|mb cb|mb tb]; simpl in H; try discriminate H; try contradiction.
  exact (Hn mb tb Eb).
Qed.

Section LawsB.
  Variable tag : fstag.
  Variables pa pb : str.
  Hypothesis Ha : prefix_ok pa.
  Hypothesis Hb : prefix_ok pb.
  Hypothesis Hd : disjoint_prefixes pa pb.
  Notation A := (the_api tag pa).
  Notation V := (Vp pa).
  Notation V' := (Vp pb).

  (* ---------------------------------------------------------------- *)
  (** ** [framed], on the pair a call returns *)

  Definition framed_res {X} (rw : mres X * world) (w : world) (touched : list str) : Prop :=
    exists r w', rw = (r, w') /\ r <> MHalt /\ same_rest V' w w' /\ swf (V w') /\
                 store_eqv_except touched (V w') (V w).

  Lemma framed_res_same : forall X (r : mres X) t m p p2 e w touched,
    r <> MHalt -> swf (V w) -> framed_res (r, after t m p p2 e w (w_st w)) w touched.
  Proof.
    intros X r t m p p2 e w touched Hr Hwf. exists r. eexists. split; [reflexivity|]. split; [exact Hr|].
    split; [apply same_rest_after_same|]. split; [exact Hwf | apply store_eqv_except_refl].
  Qed.

  Lemma framed_res_after : forall X (r : mres X) t m p p2 e w s' touched,
    r <> MHalt -> world_okb pa (st_fs (w_st w)) = true -> world_okb pa (st_fs s') = true ->
    same_outside pa (st_fs s') (st_fs (w_st w)) ->
    store_eqv_except touched (view_of pa (st_fs s')) (view_of pa (st_fs (w_st w))) ->
    framed_res (r, after t m p p2 e w s') w touched.
  Proof.
    intros X r t m p p2 e w s' touched Hr Hok Hok' Hso Heq.
    exists r. eexists. split; [reflexivity|]. split; [exact Hr|]. split; [|split].
    - apply (same_rest_after pa pb); assumption.
    - rewrite (Vp_after_ok pa _ _ _ _ _ _ _ Hok'). apply swf_view; assumption.
    - rewrite (Vp_after_ok pa _ _ _ _ _ _ _ Hok'), (Vp_ok pa w Hok). exact Heq.
  Qed.

  (** the three shapes of a change at the view path [p] *)
  Lemma shape_update : forall X (r : mres X) t m q q2 e w s1 p nd n',
    r <> MHalt -> world_okb pa (st_fs (w_st w)) = true -> abs_cleaned p ->
    st_fs s1 = st_fs (w_st w) ->
    st_fs (w_st w) !! wkey pa p = Some nd ->
    (is_dir nd = true -> is_dir n' = true) -> perm12 n' ->
    framed_res (r, after t m q q2 e w (update_node s1 (wkey pa p) n')) w [p].
  Proof.
    intros X r t m q q2 e w s1 p nd n' Hr Hok Hac Es Hnd Hdir Hperm.
    assert (Hok1 : world_okb pa (st_fs s1) = true) by (rewrite Es; exact Hok).
    assert (Hnd1 : st_fs s1 !! wkey pa p = Some nd) by (rewrite Es; exact Hnd).
    assert (Hok' : world_okb pa (st_fs (update_node s1 (wkey pa p) n')) = true).
    { exact (world_okb_update_node pa s1 _ nd n' Hok1 Hnd1 Hdir Hperm). }
    apply framed_res_after; try assumption.
    - rewrite <- Es. apply same_outside_update_node_wkey.
    - rewrite <- Es. apply (view_update_node_eqv pa s1 p n' _ eq_refl); try assumption;
        eapply world_okb_keys_good; eassumption.
  Qed.

  Lemma lookup_none_not_root : forall w p,
    world_okb pa (st_fs (w_st w)) = true -> st_fs (w_st w) !! wkey pa p = None -> p <> s_root.
  Proof.
    intros w p Hok Hnone E. subst p. rewrite wkey_root in Hnone.
    destruct (world_okb_prefix_dir _ _ Hok) as [m Hm]. norm_keys. rewrite Hm in Hnone. discriminate Hnone.
  Qed.

  Lemma shape_add : forall X (r : mres X) t m q q2 e w p mk,
    r <> MHalt -> world_okb pa (st_fs (w_st w)) = true -> abs_cleaned p ->
    direct (st_fs (w_st w)) (wpath pa p) ->
    st_fs (w_st w) !! wkey pa p = None ->
    (forall t0 g, perm12 (mk t0 g)) ->
    framed_res (r, after t m q q2 e w
                     (add_entry (w_st w) (removelast (wkey pa p)) (last (wkey pa p) []) mk)) w [p].
  Proof.
    intros X r t m q q2 e w p mk Hr Hok Hac Hdir Hnd Hperm.
    pose proof (lookup_none_not_root w p Hok Hnd) as Hne.
    assert (Hc : comps (wpath pa p) <> []).
    { rewrite (comps_wpath pa p Ha (proj2 Hac)). apply wkey_nonnil. exact Ha. }
    pose proof (direct_parent_dir _ _ Hdir Hc) as Hpd.
    rewrite (comps_wpath pa p Ha (proj2 Hac)) in Hpd.
    assert (Hok' : world_okb pa (st_fs (add_entry (w_st w) (removelast (wkey pa p)) (last (wkey pa p) []) mk)) = true).
    { exact (world_okb_add_entry_wkey pa (w_st w) p mk Ha Hok Hac Hne Hpd Hnd Hperm). }
    apply framed_res_after; try assumption.
    - apply same_outside_add_entry_wkey.
      intro E. apply Hne. apply (abs_cleaned_comps_nil p Hac). exact E.
    - apply (view_add_entry_eqv pa (w_st w) p mk _ eq_refl Ha); try assumption;
        eapply world_okb_keys_good; eassumption.
  Qed.

  Lemma shape_remove : forall X (r : mres X) t m q q2 e w p,
    r <> MHalt -> world_okb pa (st_fs (w_st w)) = true -> abs_cleaned p -> p <> s_root ->
    has_children (st_fs (w_st w)) (wkey pa p) = false ->
    framed_res (r, after t m q q2 e w (remove_entry (w_st w) (wkey pa p))) w [p].
  Proof.
    intros X r t m q q2 e w p Hr Hok Hac Hne Hnc.
    assert (Hok' : world_okb pa (st_fs (remove_entry (w_st w) (wkey pa p))) = true).
    { apply world_okb_remove_entry_wkey; assumption. }
    apply framed_res_after; try assumption.
    - apply same_outside_remove_entry_wkey.
      intro E. apply Hne. apply (abs_cleaned_comps_nil p Hac). exact E.
    - apply (view_remove_entry_eqv pa (w_st w) p _ eq_refl); try assumption;
        eapply world_okb_keys_good; eassumption.
  Qed.

  (** what the hypotheses of a law give about the world *)
  Lemma snl_setup : forall w p, swf (V w) -> snolinkpar (V w) p ->
    world_okb pa (st_fs (w_st w)) = true /\ abs_cleaned p /\
    (direct (st_fs (w_st w)) (wpath pa p) \/
     (unresolvable (st_fs (w_st w)) (wpath pa p) /\ st_fs (w_st w) !! wkey pa p = None)).
  Proof.
    intros w p Hwf Hnl. pose proof (swf_Vp_world_okb pa w Hwf) as Hok.
    pose proof (proj1 Hnl) as Hac. rewrite (Vp_ok pa w Hok) in Hnl.
    split; [exact Hok|]. split; [exact Hac|].
    exact (wpath_direct_or_unresolvable pa _ p Ha Hok Hac Hnl).
  Qed.

  Ltac same_tac Hwf :=
    unfold fin, finmap; cbn [fst snd];
    apply framed_res_same;
    [ first [ discriminate | apply mres_of_not_halt | apply mres_map_not_halt; apply mres_of_not_halt ]
    | exact Hwf ].

  (* ---------------------------------------------------------------- *)
  (** ** the user's own mutations of metadata *)

  Lemma osfs_law_user_chmod : forall w p mode, quiet w -> swf (V w) -> snolinkpar (V w) p -> snotlink (V w) p ->
    framed V V' (a_chmod A p mode) w [p].
  Proof using Ha Hb Hd.
    intros w p mode Hq Hwf Hnl Hsl.
    destruct (snl_setup w p Hwf Hnl) as (Hok & Hac & [Hdir|[Hun Hnone]]).
    - apply (snotlink_Vp pa w p Hok Hac) in Hsl.
      change (framed_res (a_chmod A p mode w) w [p]).
      rewrite (run_chmod tag pa Ha w Hq p Hac Hdir mode Hsl).
      dlook pa p as [nd|] eqn:Hnd; [|same_tac Hwf].
      unfold fin; cbn [fst snd].
      apply (shape_update _ _ _ _ _ _ _ w (w_st w) p nd); try assumption; try reflexivity.
      + discriminate.
      + destruct nd; simpl; intro H; try discriminate H; reflexivity.
      + apply perm12_set_perm.
    - change (framed_res (a_chmod A p mode w) w [p]).
      destruct (run_chmod_unresolvable tag pa Ha w Hq p Hac Hun mode) as [e [E _]]. rewrite E.
      same_tac Hwf.
  Qed.

  Ltac nh := first [ discriminate | apply mres_of_not_halt | apply mres_map_not_halt; apply mres_of_not_halt ].

  Lemma osfs_law_user_chown : forall w p u g, quiet w -> swf (V w) -> snolinkpar (V w) p -> snotlink (V w) p ->
    framed V V' (a_chown A p u g) w [p].
  Proof using Ha Hb Hd.
    intros w p u g Hq Hwf Hnl Hsl.
    destruct (snl_setup w p Hwf Hnl) as (Hok & Hac & [Hdir|[Hun Hnone]]).
    - apply (snotlink_Vp pa w p Hok Hac) in Hsl.
      change (framed_res (a_chown A p u g w) w [p]).
      rewrite (run_chown tag pa Ha w Hq p Hac Hdir u g Hsl).
      dlook pa p as [nd|] eqn:Hnd; [|same_tac Hwf].
      unfold fin; cbn [fst snd].
      apply (shape_update _ _ _ _ _ _ _ w (w_st w) p nd); try assumption; try reflexivity.
      + discriminate.
      + rewrite is_dir_chown_node. tauto.
      + apply perm12_chown_node. exact (world_okb_perm12 pa _ _ _ Hok Hnd).
    - change (framed_res (a_chown A p u g w) w [p]).
      destruct (run_chown_unresolvable tag pa Ha w Hq p Hac Hun u g) as [e [E _]]. rewrite E.
      same_tac Hwf.
  Qed.

  Lemma osfs_law_user_lchown : forall w p u g, quiet w -> swf (V w) -> snolinkpar (V w) p ->
    framed V V' (a_lchown A p u g) w [p].
  Proof using Ha Hb Hd.
    intros w p u g Hq Hwf Hnl.
    destruct (snl_setup w p Hwf Hnl) as (Hok & Hac & [Hdir|[Hun Hnone]]).
    - change (framed_res (a_lchown A p u g w) w [p]).
      rewrite (run_lchown tag pa Ha w Hq p Hac Hdir u g).
      dlook pa p as [nd|] eqn:Hnd; [|same_tac Hwf].
      unfold fin; cbn [fst snd].
      apply (shape_update _ _ _ _ _ _ _ w (w_st w) p nd); try assumption; try reflexivity.
      + discriminate.
      + rewrite is_dir_chown_node. tauto.
      + apply perm12_chown_node. exact (world_okb_perm12 pa _ _ _ Hok Hnd).
    - change (framed_res (a_lchown A p u g w) w [p]).
      destruct (run_lchown_unresolvable tag pa Ha w Hq p Hac Hun u g) as [e [E _]]. rewrite E.
      same_tac Hwf.
  Qed.

  Lemma osfs_law_user_chtimes : forall w p t, quiet w -> swf (V w) -> snolinkpar (V w) p -> snotlink (V w) p ->
    framed V V' (a_chtimes A p t) w [p].
  Proof using Ha Hb Hd.
    intros w p t Hq Hwf Hnl Hsl.
    destruct (snl_setup w p Hwf Hnl) as (Hok & Hac & [Hdir|[Hun Hnone]]).
    - apply (snotlink_Vp pa w p Hok Hac) in Hsl.
      change (framed_res (a_chtimes A p t w) w [p]).
      rewrite (run_chtimes tag pa Ha w Hq p Hac Hdir t Hsl).
      dlook pa p as [nd|] eqn:Hnd; [|same_tac Hwf].
      unfold fin; cbn [fst snd].
      apply (shape_update _ _ _ _ _ _ _ w (w_st w) p nd); try assumption; try reflexivity.
      + discriminate.
      + destruct nd; simpl; intro H; try discriminate H; reflexivity.
      + apply perm12_set_mt. exact (world_okb_perm12 pa _ _ _ Hok Hnd).
    - change (framed_res (a_chtimes A p t w) w [p]).
      destruct (run_chtimes_unresolvable tag pa Ha w Hq p Hac Hun t) as [e [E _]]. rewrite E.
      same_tac Hwf.
  Qed.

  (* ---------------------------------------------------------------- *)
  (** ** Symlink (any target, also the empty one) *)

  Lemma run_symlink_nil : forall w p, quiet w -> abs_cleaned p ->
    exists e, a_symlink A [] p w = (MErr e, after tag (PM MSymlink) p [] (Some e) w (w_st w)).
  Proof.
    intros w p Hq Hac. rewrite (the_api_symlink tag pa Ha [] p (proj2 Hac)). destruct (sym_accb pa [] p).
    - exists ENOENT. rewrite (spied_fs_upd_fin _ tag (PM MSymlink) p [] _ w Hq). reflexivity.
    - exists (ELayer EPERM).
      rewrite (spied_quiet_run _ tag (PM MSymlink) p [] _ w (MErr (ELayer EPERM)) (tickw w) Hq);
        [| reflexivity | discriminate].
      unfold after. cbn [err_of]. rewrite set_st_tickw_same. reflexivity.
  Qed.

  Lemma osfs_law_user_symlink : forall w t p, quiet w -> swf (V w) -> snolinkpar (V w) p ->
    framed V V' (a_symlink A t p) w [p].
  Proof using Ha Hb Hd.
    intros w t p Hq Hwf Hnl.
    destruct (snl_setup w p Hwf Hnl) as (Hok & Hac & Hcases).
    change (framed_res (a_symlink A t p w) w [p]).
    destruct t as [|x t'].
    { destruct (run_symlink_nil w p Hq Hac) as [e E]. rewrite E. same_tac Hwf. }
    destruct Hcases as [Hdir|[Hun Hnone]].
    - rewrite (run_symlink tag pa Ha w Hq p Hac Hdir (x :: t')) by discriminate.
      destruct (sym_accb pa (x :: t') p); [|same_tac Hwf].
      dlook pa p as [nd|] eqn:Hnd; [same_tac Hwf|].
      unfold fin; cbn [fst snd].
      apply shape_add; try assumption; [discriminate|].
      intros t0 g. apply perm12_newlink.
    - destruct (run_symlink_unresolvable tag pa Ha w Hq p Hac Hun (x :: t')) as [e E]. rewrite E.
      same_tac Hwf.
  Qed.

  (* ---------------------------------------------------------------- *)
  (** ** Create, OpenFile *)

  Lemma perm12_file_mt : forall m c t c',
    perm12 (File m c) -> perm12 (File (mkMeta (m_perm m) (m_uid m) (m_gid m) t) c').
  Proof. intros m c t c' H. exact H. Qed.

  Lemma osfs_law_user_create : forall w p, quiet w -> swf (V w) -> snolinkpar (V w) p -> snotlink (V w) p ->
    framed V V' (a_create A p) w [p].
  Proof using Ha Hb Hd.
    intros w p Hq Hwf Hnl Hsl.
    destruct (snl_setup w p Hwf Hnl) as (Hok & Hac & [Hdir|[Hun Hnone]]).
    - apply (snotlink_Vp pa w p Hok Hac) in Hsl.
      change (framed_res (a_create A p w) w [p]).
      rewrite (run_create tag pa Ha w Hq p Hac Hdir Hsl).
      dlook pa p as [[m|m c|m t]|] eqn:Hnd; try (same_tac Hwf).
      + unfold finmap; cbn [fst snd].
        apply (shape_update _ _ _ _ _ _ _ w _ p (File m c)); try assumption; try reflexivity.
        * discriminate.
        * intro H; discriminate H.
        * apply (perm12_file_mt m c). exact (world_okb_perm12 pa _ _ _ Hok Hnd).
      + unfold finmap; cbn [fst snd].
        apply shape_add; try assumption; [discriminate|].
        intros t0 g. apply perm12_newfile.
    - change (framed_res (a_create A p w) w [p]).
      destruct (run_create_unresolvable tag pa Ha w Hq p Hac Hun) as [e [E _]]. rewrite E.
      same_tac Hwf.
  Qed.

  Lemma osfs_law_user_openfile : forall w p fl perm, quiet w -> swf (V w) -> snolinkpar (V w) p -> snotlink (V w) p ->
    framed V V' (a_openfile A p fl perm) w [p].
  Proof using Ha Hb Hd.
    intros w p fl perm Hq Hwf Hnl Hsl.
    destruct (snl_setup w p Hwf Hnl) as (Hok & Hac & [Hdir|[Hun Hnone]]).
    - apply (snotlink_Vp pa w p Hok Hac) in Hsl.
      change (framed_res (a_openfile A p fl perm w) w [p]).
      rewrite (run_openfile tag pa Ha w Hq p Hac Hdir fl perm (or_intror Hsl)).
      dlook pa p as [nd|] eqn:Hnd.
      + destruct (o_creat fl && o_excl fl); [same_tac Hwf|].
        destruct nd as [m|m c|m t].
        * destruct (o_wronly fl || o_rdwr fl || o_creat fl || o_trunc fl); same_tac Hwf.
        * destruct (o_trunc fl); [|same_tac Hwf].
          unfold finmap; cbn [fst snd].
          apply (shape_update _ _ _ _ _ _ _ w _ p (File m c)); try assumption; try reflexivity.
          -- discriminate.
          -- intro H; discriminate H.
          -- apply (perm12_file_mt m c). exact (world_okb_perm12 pa _ _ _ Hok Hnd).
        * same_tac Hwf.
      + destruct (o_creat fl); [|same_tac Hwf].
        unfold finmap; cbn [fst snd].
        apply shape_add; try assumption; [discriminate|].
        intros t0 g. apply perm12_newfile.
    - change (framed_res (a_openfile A p fl perm w) w [p]).
      destruct (run_openfile_unresolvable tag pa Ha w Hq p Hac Hun fl perm) as [e [E _]]. rewrite E.
      same_tac Hwf.
  Qed.

  (* ---------------------------------------------------------------- *)
  (** ** Remove, RemoveAll: the precise laws *)

  Lemma osfs_law_remove_none : forall w p, quiet w -> swf (V w) -> snolinkpar (V w) p -> V w !! p = None ->
    err_step V V' (a_remove A p) w not_found.
  Proof using Ha Hb Hd.
    intros w p Hq Hwf Hnl Hl. unfold err_step.
    destruct (snl_setup w p Hwf Hnl) as (Hok & Hac & [Hdir|[Hun Hnone]]).
    - rewrite (run_remove tag pa Ha w Hq p Hac Hdir).
      rewrite (Vp_ok pa w Hok) in Hl. pose proof (view_lookup_None_inv pa _ p Hok Hac Hl) as Hn.
      norm_keys. rewrite Hn. rewrite fin_err. exists ENOENT. eexists. split; [reflexivity|].
      split; [reflexivity|]. split; [reflexivity | apply same_rest_after_same].
    - destruct (run_remove_unresolvable tag pa Ha w Hq p Hac Hun) as [e [E Hnf]]. rewrite E.
      exists e. eexists. split; [reflexivity|]. split; [exact Hnf|].
      split; [reflexivity | apply same_rest_after_same].
  Qed.

  Lemma osfs_law_remove_nonempty : forall w p n, quiet w -> swf (V w) -> snolinkpar (V w) p -> V w !! p = Some n ->
    ~ no_children (V w) p -> err_step V V' (a_remove A p) w any_err.
  Proof using Ha Hb Hd.
    intros w p n Hq Hwf Hnl Hl Hnc. unfold err_step.
    destruct (Vp_lookup_Some_inv pa w p n Hl) as (Hok & Hac & nd & Hnd & En).
    pose proof (world_okb_keys_good _ _ Hok) as Hg.
    pose proof (present_direct pa _ p nd Ha Hok (proj2 Hac) Hnd) as Hdir.
    rewrite (Vp_ok pa w Hok) in Hnc.
    assert (Hch : has_children (st_fs (w_st w)) (wkey pa p) = true).
    { destruct (has_children (st_fs (w_st w)) (wkey pa p)) eqn:E; [reflexivity|].
      exfalso. apply Hnc. apply (no_children_view pa _ p Ha Hg Hac). exact E. }
    assert (Hisd : exists m, nd = Dir m).
    { apply has_children_true_iff in Hch. destruct Hch as (r & n' & Hr & Hn').
      destruct (wf_prefix_dir _ _ r n' (world_okb_wf _ _ Hok) Hr Hn') as [m Hm].
      exists m. norm_keys. congruence. }
    destruct Hisd as [m Em]. subst nd.
    rewrite (run_remove tag pa Ha w Hq p Hac Hdir). norm_keys. rewrite Hnd, Hch. rewrite fin_err.
    exists ENOTEMPTY. eexists. split; [reflexivity|]. split; [exact I|].
    split; [reflexivity | apply same_rest_after_same].
  Qed.

  (** the world after an entry without children was removed (whatever else
      the resulting state [s'] records: only its tree matters) *)
  Lemma removed_leaf_step : forall t m q q2 e w s' p,
    world_okb pa (st_fs (w_st w)) = true -> abs_cleaned p -> p <> s_root ->
    direct (st_fs (w_st w)) (wpath pa p) ->
    has_children (st_fs (w_st w)) (wkey pa p) = false ->
    st_fs s' = st_fs (remove_entry (w_st w) (wkey pa p)) ->
    exists st, V (after t m q q2 e w s') = st /\ same_rest V' w (after t m q q2 e w s') /\
               st !! p = None /\ store_eqv_except [p] st (V w) /\ swf st.
  Proof.
    intros t m q q2 e w s' p Hok Hac Hne Hdir Hnc Es.
    pose proof (world_okb_keys_good _ _ Hok) as Hg.
    assert (Hc : comps (wpath pa p) <> []).
    { rewrite (comps_wpath pa p Ha (proj2 Hac)). apply wkey_nonnil. exact Ha. }
    pose proof (direct_parent_dir _ _ Hdir Hc) as [md Hmd].
    rewrite (comps_wpath pa p Ha (proj2 Hac)) in Hmd.
    assert (Hok' : world_okb pa (st_fs s') = true).
    { rewrite Es. apply world_okb_remove_entry_wkey; assumption. }
    eexists. split; [apply (Vp_after_ok pa _ _ _ _ _ _ _ Hok')|]. split; [|split; [|split]].
    - apply (same_rest_after pa pb); try assumption. rewrite Es. apply same_outside_remove_entry_wkey.
      intro E'. apply Hne. apply (abs_cleaned_comps_nil p Hac). exact E'.
    - rewrite Es. rewrite (view_remove_entry pa (w_st w) p md Ha Hg Hac Hne Hmd).
      rewrite lookup_insert_ne, lookup_delete; [reflexivity | apply vparent_ne; assumption].
    - rewrite (Vp_ok pa w Hok), Es.
      apply (view_remove_entry_eqv pa (w_st w) p _ eq_refl); try assumption.
      rewrite <- Es. eapply world_okb_keys_good; eassumption.
    - apply swf_view; assumption.
  Qed.

  Lemma osfs_law_removeall_leaf : forall w p n, quiet w -> swf (V w) -> snolinkpar (V w) p -> V w !! p = Some n ->
    node_kind n <> KDir -> p <> s_root ->
    exists s', ok_step V V' (a_removeall A p) w tt s' /\ s' !! p = None /\ store_eqv_except [p] s' (V w) /\ swf s'.
  Proof using Ha Hb Hd.
    intros w p n Hq Hwf Hnl Hl Hk Hne. unfold ok_step.
    destruct (Vp_lookup_Some_inv pa w p n Hl) as (Hok & Hac & nd & Hnd & En).
    pose proof (present_direct pa _ p nd Ha Hok (proj2 Hac) Hnd) as Hdir.
    assert (Hnd' : is_dir nd = false).
    { subst n. rewrite vnode_kind in Hk. destruct nd; [exfalso; apply Hk; reflexivity | reflexivity | reflexivity]. }
    pose proof (wf_nondir_no_children _ _ nd (world_okb_wf _ _ Hok) Hnd Hnd') as Hnc.
    rewrite (run_removeall tag pa Ha w Hq p Hac Hdir). norm_keys. rewrite Hnd. rewrite fin_ok.
    set (s' := mkFstate _ _).
    assert (Es : st_fs s' = st_fs (remove_entry (w_st w) (wkey pa p))).
    { unfold s'. cbn [st_fs]. rewrite remove_entry_fs.
      rewrite (delete_subtree_leaf _ _ (proj1 (has_children_false_iff _ _) Hnc)). reflexivity. }
    destruct (removed_leaf_step tag (PM MRemoveAll) p [] None w s' p Hok Hac Hne Hdir Hnc Es)
      as (st & HV & Hsr & Hnone & Heqv & Hswf).
    exists st. split; [|split; [|split]]; try assumption.
    eexists. split; [reflexivity|]. split; assumption.
  Qed.

  (* ---------------------------------------------------------------- *)
  (** ** Stat, Readlink, read-only OpenFile change nothing *)

  Lemma osfs_law2_stat : forall w p, quiet w -> swf (V w) -> snolinkpar (V w) p ->
    framed V V' (a_stat A p) w [].
  Proof using Ha Hb Hd.
    intros w p Hq Hwf Hnl. pose proof (proj1 Hnl) as Hac.
    change (framed_res (a_stat A p w) w []).
    rewrite (the_api_stat tag pa Ha p (proj2 Hac)).
    rewrite (spied_fs_get_map_quiet _ _ tag (PM MStat) p [] _ _ w Hq).
    apply framed_res_same; [nh | exact Hwf].
  Qed.

  Lemma osfs_law2_readlink : forall w p, quiet w -> swf (V w) -> snolinkpar (V w) p ->
    framed V V' (a_readlink A p) w [].
  Proof using Ha Hb Hd.
    intros w p Hq Hwf Hnl. pose proof (proj1 Hnl) as Hac.
    change (framed_res (a_readlink A p w) w []).
    rewrite (the_api_readlink tag pa Ha p (proj2 Hac)).
    rewrite (spied_fs_get_map_quiet _ _ tag (PM MReadlink) p [] _ _ w Hq).
    apply framed_res_same; [nh | exact Hwf].
  Qed.

  (** the read-only open in one step *)
  Lemma run_open_ro : forall w p, quiet w -> abs_cleaned p ->
    a_openfile A p 0 0 w =
      (mres_map (the_handle tag pa p) (mres_of (fst (fs_open (w_st w) (wpath pa p) 0 0))),
       after tag (PM MOpenFile) p [] (err_of (mres_of (fst (fs_open (w_st w) (wpath pa p) 0 0)))) w (w_st w)).
  Proof.
    intros w p Hq Hac. rewrite (the_api_openfile tag pa Ha p 0 0 w (proj2 Hac)).
    rewrite (spied_fs_upd_finmap _ _ _ tag (PM MOpenFile) p [] _ w Hq). unfold finmap.
    rewrite (proj1 (fs_open_ro (w_st w) (wpath pa p))). reflexivity.
  Qed.

  Lemma osfs_law2_open_ro : forall w p, quiet w -> swf (V w) -> snolinkpar (V w) p ->
    framed V V' (a_openfile A p 0 0) w [].
  Proof using Ha Hb Hd.
    intros w p Hq Hwf Hnl. pose proof (proj1 Hnl) as Hac.
    change (framed_res (a_openfile A p 0 0 w) w []).
    rewrite (run_open_ro w p Hq Hac). apply framed_res_same; [nh | exact Hwf].
  Qed.

  (* ---------------------------------------------------------------- *)
  (** ** Remove: the frame.  NOT provable as stated in [api_laws]: for
      [p = s_root] and a view that consists of the root directory only,
      [Remove] removes the directory of the prefix itself; the view of the
      resulting world is not well formed any more (see
      [law_user_remove_fails_at_empty_root]).  The strongest true variant
      excludes exactly that case. *)

  Lemma osfs_law_user_remove_variant : forall w p, quiet w -> swf (V w) -> snolinkpar (V w) p ->
    (p <> s_root \/ ~ no_children (V w) p) ->
    framed V V' (a_remove A p) w [p].
  Proof using Ha Hb Hd.
    intros w p Hq Hwf Hnl Hside.
    destruct (snl_setup w p Hwf Hnl) as (Hok & Hac & [Hdir|[Hun Hnone]]).
    - change (framed_res (a_remove A p w) w [p]).
      pose proof (world_okb_keys_good _ _ Hok) as Hg.
      rewrite (run_remove tag pa Ha w Hq p Hac Hdir).
      dlook pa p as [[m|m c|m t]|] eqn:Hnd; try (same_tac Hwf).
      + destruct (has_children (st_fs (w_st w)) (wkey pa p)) eqn:Hch; [same_tac Hwf|].
        unfold fin; cbn [fst snd]. apply shape_remove; try assumption; [discriminate|].
        destruct Hside as [Hne|Hnc]; [exact Hne|]. intro E. apply Hnc.
        rewrite (Vp_ok pa w Hok). apply (no_children_view pa _ p Ha Hg Hac). exact Hch.
      + unfold fin; cbn [fst snd]. apply shape_remove; try assumption; [discriminate | |].
        * intro E. subst p. rewrite wkey_root in Hnd. destruct (world_okb_prefix_dir _ _ Hok) as [m' Hm'].
          norm_keys. rewrite Hm' in Hnd. discriminate Hnd.
        * exact (wf_nondir_no_children _ _ _ (world_okb_wf _ _ Hok) Hnd eq_refl).
      + unfold fin; cbn [fst snd]. apply shape_remove; try assumption; [discriminate | |].
        * intro E. subst p. rewrite wkey_root in Hnd. destruct (world_okb_prefix_dir _ _ Hok) as [m' Hm'].
          norm_keys. rewrite Hm' in Hnd. discriminate Hnd.
        * exact (wf_nondir_no_children _ _ _ (world_okb_wf _ _ Hok) Hnd eq_refl).
    - change (framed_res (a_remove A p w) w [p]).
      destruct (run_remove_unresolvable tag pa Ha w Hq p Hac Hun) as [e [E _]]. rewrite E.
      same_tac Hwf.
  Qed.

  (** the field [law_user_remove] fails in *every* quiet well-formed world
      whose view is an empty root directory *)
  Lemma law_user_remove_fails_at_empty_root : forall w, quiet w -> swf (V w) -> no_children (V w) s_root ->
    ~ framed V V' (a_remove A s_root) w [s_root].
  Proof using Ha Hb Hd.
    intros w Hq Hwf Hnc (r & w' & Hrun & _ & _ & Hswf' & _).
    pose proof (swf_Vp_world_okb pa w Hwf) as Hok.
    pose proof (world_okb_keys_good _ _ Hok) as Hg.
    assert (Hdir : direct (st_fs (w_st w)) (wpath pa s_root)).
    { rewrite (wpath_root pa Ha). exact (world_okb_direct_prefix pa _ Ha Hok). }
    rewrite (Vp_ok pa w Hok) in Hnc. apply (no_children_view pa _ s_root Ha Hg abs_cleaned_root_ac) in Hnc.
    rewrite (run_remove tag pa Ha w Hq s_root abs_cleaned_root_ac Hdir) in Hrun.
    destruct (world_okb_prefix_dir _ _ Hok) as [m Hm]. rewrite <- (wkey_root pa) in Hm.
    revert Hrun. norm_keys. rewrite Hm, Hnc. rewrite fin_ok. intros Hrun. injection Hrun as _ Ew. subst w'.
    apply (swf_Vp_world_okb pa) in Hswf'. apply world_okb_prefix_dir in Hswf'.
    destruct Hswf' as [m' Hm']. rewrite w_st_after in Hm'. rewrite <- (wkey_root pa) in Hm'.
    rewrite remove_entry_lookup_self in Hm'. discriminate Hm'.
  Qed.

  (* ---------------------------------------------------------------- *)
  (** ** calls that leave the state alone, composed *)

  Definition pure_step (w w' : world) : Prop :=
    w_st w' = w_st w /\ w_infos w' = w_infos w /\ w_crash w' = w_crash w /\ w_faults w' = w_faults w.

  Lemma pure_step_refl : forall w, pure_step w w.
  Proof. intros w. repeat split. Qed.

  Lemma pure_step_trans : forall w1 w2 w3, pure_step w1 w2 -> pure_step w2 w3 -> pure_step w1 w3.
  Proof. intros w1 w2 w3 (A1 & A2 & A3 & A4) (B1 & B2 & B3 & B4). repeat split; congruence. Qed.

  Lemma pure_step_after : forall t m p p2 e w, pure_step w (after t m p p2 e w (w_st w)).
  Proof. intros. repeat split. Qed.

  Lemma pure_step_quiet : forall w w', pure_step w w' -> quiet w -> quiet w'.
  Proof. intros w w' (_ & _ & E1 & E2) [H1 H2]. split; congruence. Qed.

  Lemma pure_step_V : forall pfx w w', pure_step w w' -> Vp pfx w' = Vp pfx w.
  Proof. intros pfx w w' (E & _). apply Vp_st. exact E. Qed.

  Lemma pure_step_same_rest : forall w w', pure_step w w' -> same_rest V' w w'.
  Proof.
    intros w w' H. pose proof (pure_step_V pb w w' H) as E. destruct H as (_ & E1 & E2 & E3).
    split; [exact E | split; [exact E1 | split; [exact E2 | exact E3]]].
  Qed.

  Lemma framed_res_pure : forall X (r : mres X) w w' touched,
    r <> MHalt -> swf (V w) -> pure_step w w' -> framed_res (r, w') w touched.
  Proof.
    intros X r w w' touched Hr Hwf Hps. exists r, w'. split; [reflexivity|]. split; [exact Hr|].
    split; [apply pure_step_same_rest; exact Hps|].
    rewrite (pure_step_V pa w w' Hps). split; [exact Hwf | apply store_eqv_except_refl].
  Qed.

  (** a change of the state, for an arbitrary resulting world *)
  Lemma framed_res_gen : forall X (r : mres X) w w' touched,
    r <> MHalt -> world_okb pa (st_fs (w_st w)) = true -> world_okb pa (st_fs (w_st w')) = true ->
    same_outside pa (st_fs (w_st w')) (st_fs (w_st w)) ->
    store_eqv_except touched (view_of pa (st_fs (w_st w'))) (view_of pa (st_fs (w_st w))) ->
    w_infos w' = w_infos w -> w_crash w' = w_crash w -> w_faults w' = w_faults w ->
    framed_res (r, w') w touched.
  Proof.
    intros X r w w' touched Hr Hok Hok' Hso Heq E1 E2 E3.
    exists r, w'. split; [reflexivity|]. split; [exact Hr|]. split; [|split].
    - split; [|split; [exact E1 | split; [exact E2 | exact E3]]].
      exact (Vp_frame pa pb w w' Hd Hok Hok' Hso).
    - rewrite (Vp_ok pa w' Hok'). apply swf_view; assumption.
    - rewrite (Vp_ok pa w' Hok'), (Vp_ok pa w Hok). exact Heq.
  Qed.

  Lemma shape_update_gen : forall X (r : mres X) w w' s1 p nd n',
    r <> MHalt -> world_okb pa (st_fs (w_st w)) = true -> abs_cleaned p ->
    st_fs s1 = st_fs (w_st w) ->
    st_fs (w_st w) !! wkey pa p = Some nd ->
    (is_dir nd = true -> is_dir n' = true) -> perm12 n' ->
    w_st w' = update_node s1 (wkey pa p) n' ->
    w_infos w' = w_infos w -> w_crash w' = w_crash w -> w_faults w' = w_faults w ->
    framed_res (r, w') w [p].
  Proof.
    intros X r w w' s1 p nd n' Hr Hok Hac Es Hnd Hdir Hperm Ew E1 E2 E3.
    assert (Hok1 : world_okb pa (st_fs s1) = true) by (rewrite Es; exact Hok).
    assert (Hnd1 : st_fs s1 !! wkey pa p = Some nd) by (rewrite Es; exact Hnd).
    assert (Hok' : world_okb pa (st_fs (update_node s1 (wkey pa p) n')) = true).
    { exact (world_okb_update_node pa s1 _ nd n' Hok1 Hnd1 Hdir Hperm). }
    apply framed_res_gen; try assumption; rewrite Ew; try assumption.
    - rewrite <- Es. apply same_outside_update_node_wkey.
    - rewrite <- Es. apply (view_update_node_eqv pa s1 p n' _ eq_refl); try assumption;
        eapply world_okb_keys_good; eassumption.
  Qed.

  (* ---------------------------------------------------------------- *)
  (** ** [write_close], unfolded *)

  Lemma write_close_nil : forall h w,
    write_close h [] w =
      match hclose h w with
      | (MOk _, w') => (MOk tt, w')
      | (MErr e, w') => (MErr e, w')
      | (MHalt, w') => (MHalt, w')
      end.
  Proof.
    intros h w. unfold write_close, bind, try_, ret, fail.
    destruct (hclose h w) as [[[]|e|] w']; reflexivity.
  Qed.

  Lemma write_close_cons : forall h x d w,
    write_close h (x :: d) w =
      match hwrite h (x :: d) w with
      | (MOk _, w2) =>
          match hclose h w2 with
          | (MOk _, w3) => (MOk tt, w3)
          | (MErr e, w3) => (MErr e, w3)
          | (MHalt, w3) => (MHalt, w3)
          end
      | (MErr e, w2) =>
          match hclose h w2 with
          | (MOk _, w3) => (MErr e, w3)
          | (MErr _, w3) => (MErr e, w3)
          | (MHalt, w3) => (MHalt, w3)
          end
      | (MHalt, w2) => (MHalt, w2)
      end.
  Proof.
    intros h x d w. unfold write_close, bind, try_, ret, fail.
    destruct (hwrite h (x :: d) w) as [[h'|e|] w2]; [| |reflexivity];
      destruct (hclose h w2) as [[[]|e'|] w3]; reflexivity.
  Qed.

  (** writing through (and closing) a handle of [the_api] on the view path [p] touches at most [p] *)
  Lemma write_close_framed : forall h p data w,
    quiet w -> swf (V w) -> abs_cleaned p ->
    fh_spy h = Some (tag, p) -> h_key (fh h) = wkey pa p ->
    framed V V' (write_close h data) w [p].
  Proof.
    intros h p data w Hq Hwf Hac Hs Hk.
    pose proof (swf_Vp_world_okb pa w Hwf) as Hok.
    change (framed_res (write_close h data w) w [p]).
    destruct data as [|x d].
    - rewrite write_close_nil, (hclose_quiet tag h p w Hq Hs). apply framed_res_same; [discriminate | exact Hwf].
    - rewrite write_close_cons.
      destruct (hwrite_quiet_gen tag h p w (x :: d) Hq Hs) as [[e E]|(m & c & c' & h' & Hl & _ & _ & E)]; rewrite E.
      + rewrite (hclose_quiet tag h p _ (proj2 (quiet_after _ _ _ _ _ _ _) Hq) Hs).
        apply framed_res_pure; [discriminate | exact Hwf | repeat split].
      + rewrite (hclose_quiet tag h p _ (proj2 (quiet_after _ _ _ _ _ _ _) Hq) Hs).
        rewrite Hk in Hl.
        apply (shape_update_gen _ _ w _ (mkFstate (st_fs (w_st w)) (N.succ (st_clock (w_st w)))) p (File m c)
                 (File (mkMeta (m_perm m) (m_uid m) (m_gid m) (Now (st_clock (w_st w)))) c'));
          try assumption; try reflexivity.
        * discriminate.
        * intro H; discriminate H.
        * apply (perm12_file_mt m c). exact (world_okb_perm12 pa _ _ _ Hok Hl).
        * rewrite <- Hk. reflexivity.
  Qed.

  (** the handle [OpenFile] / [Create] return for a view path *)
  Lemma openfile_handle : forall w p fl perm h w1,
    quiet w -> swf (V w) -> snolinkpar (V w) p -> snotlink (V w) p ->
    a_openfile A p fl perm w = (MOk h, w1) ->
    fh_spy h = Some (tag, p) /\ h_key (fh h) = wkey pa p.
  Proof.
    intros w p fl perm h w1 Hq Hwf Hnl Hsl Hrun.
    destruct (snl_setup w p Hwf Hnl) as (Hok & Hac & [Hdir|[Hun Hnone]]).
    - apply (snotlink_Vp pa w p Hok Hac) in Hsl.
      revert Hrun. rewrite (run_openfile tag pa Ha w Hq p Hac Hdir fl perm (or_intror Hsl)). unfold finmap.
      dlook pa p as [nd|].
      + destruct (o_creat fl && o_excl fl); [intro H; discriminate H|].
        destruct nd as [m|m c|m t].
        * destruct (o_wronly fl || o_rdwr fl || o_creat fl || o_trunc fl); intro H; [discriminate H|].
          cbn [fst snd mres_of mres_map] in H. injection H as H _. subst h. split; reflexivity.
        * destruct (o_trunc fl); intro H; cbn [fst snd mres_of mres_map] in H;
            injection H as H _; subst h; split; reflexivity.
        * intro H; discriminate H.
      + destruct (o_creat fl); intro H; [|discriminate H].
        cbn [fst snd mres_of mres_map] in H. injection H as H _. subst h. split; reflexivity.
    - destruct (run_openfile_unresolvable tag pa Ha w Hq p Hac Hun fl perm) as [e [E _]].
      rewrite E in Hrun. discriminate Hrun.
  Qed.

  Lemma create_handle : forall w p h w1,
    quiet w -> swf (V w) -> snolinkpar (V w) p -> snotlink (V w) p ->
    a_create A p w = (MOk h, w1) ->
    fh_spy h = Some (tag, p) /\ h_key (fh h) = wkey pa p.
  Proof.
    intros w p h w1 Hq Hwf Hnl Hsl Hrun.
    destruct (snl_setup w p Hwf Hnl) as (Hok & Hac & [Hdir|[Hun Hnone]]).
    - apply (snotlink_Vp pa w p Hok Hac) in Hsl.
      revert Hrun. rewrite (run_create tag pa Ha w Hq p Hac Hdir Hsl). unfold finmap.
      dlook pa p as [[m|m c|m t]|]; intro H; try discriminate H;
        cbn [fst snd mres_of mres_map] in H; injection H as H _; subst h; split; reflexivity.
    - destruct (run_create_unresolvable tag pa Ha w Hq p Hac Hun) as [e [E _]].
      rewrite E in Hrun. discriminate Hrun.
  Qed.

  Lemma osfs_law_user_handle : forall w p r w1, quiet w -> swf (V w) -> snolinkpar (V w) p -> snotlink (V w) p ->
    (exists fl perm, a_openfile A p fl perm w = (r, w1)) \/ a_create A p w = (r, w1) ->
    forall h data, r = MOk h -> quiet w1 -> swf (V w1) -> framed V V' (write_close h data) w1 [p].
  Proof using Ha Hb Hd.
    intros w p r w1 Hq Hwf Hnl Hsl Hopen h data Er Hq1 Hwf1. subst r.
    assert (Hh : fh_spy h = Some (tag, p) /\ h_key (fh h) = wkey pa p).
    { destruct Hopen as [(fl & perm & Hrun)|Hrun].
      - exact (openfile_handle w p fl perm h w1 Hq Hwf Hnl Hsl Hrun).
      - exact (create_handle w p h w1 Hq Hwf Hnl Hsl Hrun). }
    destruct Hh as [Hs Hk].
    exact (write_close_framed h p data w1 Hq1 Hwf1 (proj1 Hnl) Hs Hk).
  Qed.

  (* ---------------------------------------------------------------- *)
  (** ** handles opened read-only *)

  Lemma read_all_pure : forall fuel h p acc w, quiet w -> fh_spy h = Some (tag, p) ->
    exists r w', read_all fuel h acc w = (r, w') /\ r <> MHalt /\ pure_step w w'.
  Proof.
    induction fuel as [|fuel IH]; intros h p acc w Hq Hs.
    - exists (MErr EFUEL), w. split; [reflexivity|]. split; [discriminate | apply pure_step_refl].
    - cbn [read_all]. unfold bind.
      destruct (hread_quiet_gen tag h p w Hq Hs) as (r0 & E & Hnh & Hprops). rewrite E.
      destruct r0 as [[d h']|e|]; [| |contradiction].
      + destruct (Hprops d h' eq_refl) as (Hs' & _). cbn [fst snd].
        destruct d as [ch|].
        * match goal with |- context [read_all fuel h' (acc ++ ch) ?ww] =>
            destruct (IH h' p (acc ++ ch) ww (proj2 (quiet_after _ _ _ _ _ _ _) Hq) (eq_trans Hs' Hs))
              as (r & w' & E' & Hnh' & Hps)
          end.
          exists r, w'. split; [exact E'|]. split; [exact Hnh'|].
          eapply pure_step_trans; [apply pure_step_after | exact Hps].
        * eexists. eexists. split; [reflexivity|]. split; [discriminate | apply pure_step_after].
      + eexists. eexists. split; [reflexivity|]. split; [discriminate | apply pure_step_after].
  Qed.

  Lemma write_close_ro_pure : forall h p d w,
    quiet w -> fh_spy h = Some (tag, p) -> h_write (fh h) = false ->
    exists r w', write_close h d w = (r, w') /\ r <> MHalt /\ pure_step w w'.
  Proof.
    intros h p d w Hq Hs Hw. destruct d as [|x d].
    - rewrite write_close_nil, (hclose_quiet tag h p w Hq Hs). eexists. eexists.
      split; [reflexivity|]. split; [discriminate | apply pure_step_after].
    - rewrite write_close_cons, (hwrite_readonly tag h p w (x :: d) Hq Hs Hw).
      rewrite (hclose_quiet tag h p _ (proj2 (quiet_after _ _ _ _ _ _ _) Hq) Hs).
      eexists. eexists. split; [reflexivity|]. split; [discriminate | repeat split].
  Qed.

  Lemma osfs_law2_ro_handle : forall w p h w1, quiet w -> swf (V w) -> snolinkpar (V w) p ->
    a_openfile A p 0 0 w = (MOk h, w1) ->
    forall w2, quiet w2 -> swf (V w2) ->
      (forall acc, framed V V' (read_all tree_fuel h acc) w2 []) /\
      framed V V' (hreaddirnames h) w2 [] /\
      framed V V' (hclose h) w2 [] /\
      (forall d, framed V V' (write_close h d) w2 []).
  Proof using Ha Hb Hd.
    intros w p h w1 Hq Hwf Hnl Hrun w2 Hq2 Hwf2. pose proof (proj1 Hnl) as Hac.
    rewrite (run_open_ro w p Hq Hac) in Hrun.
    destruct (fs_open_ro (w_st w) (wpath pa p)) as [_ Hw].
    destruct (fst (fs_open (w_st w) (wpath pa p) 0 0)) as [hh|e] eqn:Ef;
      cbn [mres_of mres_map] in Hrun; [|discriminate Hrun].
    injection Hrun as Eh _. subst h. specialize (Hw hh eq_refl).
    assert (Hs : fh_spy (the_handle tag pa p hh) = Some (tag, p)) by reflexivity.
    split; [|split; [|split]].
    - intros acc. destruct (read_all_pure tree_fuel _ p acc w2 Hq2 Hs) as (r & w' & E & Hnh & Hps).
      change (framed_res (read_all tree_fuel (the_handle tag pa p hh) acc w2) w2 []). rewrite E.
      apply framed_res_pure; assumption.
    - change (framed_res (hreaddirnames (the_handle tag pa p hh) w2) w2 []).
      rewrite (hreaddirnames_quiet tag _ p w2 Hq2 Hs eq_refl). same_tac Hwf2.
    - change (framed_res (hclose (the_handle tag pa p hh) w2) w2 []).
      rewrite (hclose_quiet tag _ p w2 Hq2 Hs). apply framed_res_same; [discriminate | exact Hwf2].
    - intros d. destruct (write_close_ro_pure _ p d w2 Hq2 Hs Hw) as (r & w' & E & Hnh & Hps).
      change (framed_res (write_close (the_handle tag pa p hh) d w2) w2 []). rewrite E.
      apply framed_res_pure; assumption.
  Qed.

  (* ---------------------------------------------------------------- *)
  (** ** listing a directory *)

  Lemma osfs_law2_readdir : forall w p m, quiet w -> swf (V w) -> snolinkpar (V w) p -> V w !! p = Some (Dir m) ->
    exists r w', read_dir_names A p w = (r, w') /\ r <> MHalt /\ V w' = V w /\ same_rest V' w w' /\
      forall names, r = MOk names ->
        Forall (fun nm => V w !! join2 p nm <> None /\ In p (ancestors (join2 p nm))) names.
  Proof using Ha Hb Hd.
    intros w p m Hq Hwf Hnl Hl.
    destruct (Vp_lookup_Some_inv pa w p _ Hl) as (Hok & Hac & nd & Hnd & En).
    symmetry in En. apply vnode_dir_inv in En. subst nd.
    pose proof (present_direct pa _ p _ Ha Hok (proj2 Hac) Hnd) as Hdir.
    assert (Hnlk : not_link_at (st_fs (w_st w)) (wkey pa p)).
    { intros m' t' E. norm_keys. congruence. }
    pose proof (run_open tag pa Ha w Hq p Hac Hdir Hnlk) as Hopen.
    revert Hopen. norm_keys. rewrite Hnd. rewrite finmap_ok. intros Hopen.
    unfold read_dir_names. unfold bind at 1. rewrite Hopen.
    match type of Hopen with _ = (MOk ?hh, ?ww) => set (h := hh); set (w1 := ww) end.
    assert (Hq1 : quiet w1) by (apply quiet_after; exact Hq).
    assert (Hs : fh_spy h = Some (tag, p)) by reflexivity.
    unfold bind at 1. unfold try_ at 1.
    rewrite (hreaddirnames_quiet tag h p w1 Hq1 Hs eq_refl).
    rewrite fs_readdirnames_eq. change (h_dir (fh h)) with true. cbv iota. rewrite fin_ok.
    unfold bind at 1. unfold try_ at 1.
    rewrite (hclose_quiet tag h p _ (proj2 (quiet_after _ _ _ _ _ _ _) Hq1) Hs).
    unfold ret. eexists. eexists. split; [reflexivity|]. split; [discriminate|].
    split; [reflexivity|]. split; [repeat split|].
    intros names E. injection E as E. subst names.
    apply List.Forall_forall. intros nm Hin.
    apply (Permutation_in nm (isort_perm str_ltb _)) in Hin.
    change (h_key (fh h)) with (wkey pa p) in Hin. change (w_st w1) with (w_st w) in Hin.
    destruct (child_names_view pa _ p nm Ha Hok Hac Hin) as (_ & H1 & H2).
    rewrite (Vp_ok pa w Hok). split; assumption.
  Qed.

  (* ---------------------------------------------------------------- *)
  (** ** MkdirAll: creates the missing directories on the way to [p] *)

  (** [s'] differs from [s] by new directories at prefixes of [k] (and by
      directory timestamps) *)
  Definition mk_inv (s s' : fstate) (k : key) : Prop :=
    world_okb pa (st_fs s') = true /\ same_outside pa (st_fs s') (st_fs s) /\
    forall k' : key,
      onode_eqv (st_fs s' !! k') (st_fs s !! k') \/
      (st_fs s !! k' = None /\ is_dir_at (st_fs s') k' /\ exists r, k = k' ++ r).

  Lemma mk_inv_refl : forall s k, world_okb pa (st_fs s) = true -> mk_inv s s k.
  Proof.
    intros s k H. split; [exact H|]. split; [apply same_outside_refl|].
    intros k'. left. apply onode_eqv_refl.
  Qed.

  Lemma mk_inv_weaken : forall s s' k0 k x, k = k0 ++ x -> mk_inv s s' k0 -> mk_inv s s' k.
  Proof.
    intros s s' k0 k x E (H1 & H2 & H3). split; [exact H1|]. split; [exact H2|].
    intros k'. destruct (H3 k') as [H|(Hn & Hdr & r & Er)]; [left; exact H|].
    right. split; [exact Hn|]. split; [exact Hdr|]. exists (r ++ x). rewrite E, Er, app_assoc. reflexivity.
  Qed.

  Lemma mk_inv_nolinkpar : forall s s' k q,
    mk_inv s s' k -> nolinkpar (st_fs s) q -> nolinkpar (st_fs s') q.
  Proof.
    intros s s' k q (_ & _ & H3) [Hac Hnl]. split; [exact Hac|].
    eapply List.Forall_impl; [|exact Hnl]. intros k' Hk'.
    destruct (H3 k') as [H|(_ & Hdr & _)].
    - exact (onode_eqv_not_link_at _ _ k' H Hk').
    - apply is_dir_not_link. exact Hdr.
  Qed.

  Lemma fs_mkdirall_aux_step : forall fuel s q perm e par,
    fs_stat s q = Err e -> removelast (upto_last_sep (strip_trailing_seps q)) = par -> par <> [] ->
    fs_mkdirall_aux (S fuel) s q perm =
      let '(r, s1) := fs_mkdirall_aux fuel s par perm in
      match r with
      | Err e1 => (Err e1, s1)
      | Ok _ =>
          let '(r2, s2) := fs_mkdir s1 q perm in
          match r2 with
          | Ok _ => (Ok tt, s2)
          | Err e2 =>
              match fs_lstat s2 q with
              | Ok fi => match fi_kind fi with KDir => (Ok tt, s2) | _ => (Err e2, s2) end
              | Err _ => (Err e2, s2)
              end
          end
      end.
  Proof.
    intros fuel s q perm e par Est Epar Hne. rewrite fs_mkdirall_aux_S, Est. cbv zeta. rewrite Epar.
    destruct par; [contradiction | reflexivity].
  Qed.

  Lemma mkdirall_parent_string : forall p, abs_cleaned p -> p <> s_root ->
    removelast (upto_last_sep (strip_trailing_seps (wpath pa p))) = wpath pa (vparent p).
  Proof.
    intros p Hac Hne.
    pose proof (wpath_abs_cleaned pa p Ha (proj2 Hac)) as WAC.
    assert (Hcp : comps p <> []) by (intro E; apply Hne; apply (abs_cleaned_comps_nil p Hac); exact E).
    assert (Hc : comps (wpath pa p) <> []).
    { rewrite (comps_wpath pa p Ha (proj2 Hac)). apply wkey_nonnil. exact Ha. }
    rewrite (strip_trailing_seps_abs_cleaned _ WAC Hc), (parent_string_abs_cleaned _ WAC Hc).
    rewrite (comps_wpath pa p Ha (proj2 Hac)), <- (wkey_vparent pa p (proj2 Hac) Hcp).
    destruct (wkey pa (vparent p)) eqn:E; [exfalso; exact (wkey_nonnil pa _ Ha E)|].
    rewrite <- E. reflexivity.
  Qed.

  Lemma fs_stat_prefix_root : forall s, world_okb pa (st_fs s) = true ->
    exists fi, fs_stat s (wpath pa s_root) = Ok fi.
  Proof.
    intros s Hok. rewrite (wpath_root pa Ha).
    pose proof (world_okb_direct_prefix pa _ Ha Hok) as Hdir.
    pose proof (world_okb_prefix_dir _ _ Hok) as Hpd.
    rewrite (fs_stat_direct s pa Hdir (is_dir_not_link _ _ Hpd)).
    destruct Hpd as [m Hm]. unfold kp in Hm. norm_keys. rewrite Hm. eexists. reflexivity.
  Qed.

  Lemma fs_mkdirall_aux_inv : forall fuel perm s p,
    world_okb pa (st_fs s) = true -> abs_cleaned p -> nolinkpar (st_fs s) (wpath pa p) ->
    exists r s', fs_mkdirall_aux fuel s (wpath pa p) perm = (r, s') /\ mk_inv s s' (wkey pa p).
  Proof.
    induction fuel as [|fuel IH]; intros perm s p Hok Hac Hnl.
    - exists (Err EFUEL), s. split; [reflexivity | apply mk_inv_refl; exact Hok].
    - destruct (fs_stat s (wpath pa p)) as [fi|e] eqn:Est.
      + rewrite fs_mkdirall_aux_S, Est.
        destruct (fi_kind fi); eexists; eexists; (split; [reflexivity | apply mk_inv_refl; exact Hok]).
      + assert (Hne : p <> s_root).
        { intro E. subst p. destruct (fs_stat_prefix_root s Hok) as [fi Efi]. rewrite Efi in Est. discriminate Est. }
        assert (Hcp : comps p <> []) by (intro E; apply Hne; apply (abs_cleaned_comps_nil p Hac); exact E).
        pose proof (vparent_abs_cleaned p (proj2 Hac)) as Hpac.
        pose proof (wpath_abs_cleaned pa p Ha (proj2 Hac)) as WAC.
        pose proof (comps_wpath pa p Ha (proj2 Hac)) as CW.
        assert (Hc : comps (wpath pa p) <> []) by (rewrite CW; apply wkey_nonnil; exact Ha).
        assert (Hkk : wkey pa p = wkey pa (vparent p) ++ [last (wkey pa p) []]).
        { rewrite (wkey_vparent pa p (proj2 Hac) Hcp). symmetry. apply wkey_split. exact Ha. }
        assert (Hnlp : nolinkpar (st_fs s) (wpath pa (vparent p))).
        { split; [apply wpath_abs_cleaned; [exact Ha | exact (proj2 Hpac)]|].
          rewrite (comps_wpath pa _ Ha (proj2 Hpac)).
          destruct Hnl as [_ Hnl]. rewrite CW, Hkk, kprefixes_snoc in Hnl.
          apply List.Forall_app in Hnl. exact (proj1 Hnl). }
        rewrite (fs_mkdirall_aux_step fuel s _ perm e _ Est (mkdirall_parent_string p Hac Hne) (wpath_nonempty pa _)).
        destruct (IH perm s (vparent p) Hok Hpac Hnlp) as (r1 & s1 & E1 & Hinv1). rewrite E1.
        pose proof (mk_inv_weaken s s1 _ _ _ Hkk Hinv1) as Hinv1'.
        destruct r1 as [[]|e1]; [|eexists; eexists; split; [reflexivity | exact Hinv1']].
        pose proof Hinv1' as (Hok1 & Hso1 & Hk1).
        pose proof (mk_inv_nolinkpar s s1 _ _ Hinv1' Hnl) as Hnl1.
        destruct (direct_decidable (st_fs s1) (wpath pa p) WAC) as [Hdir1|Hnd1].
        * destruct (st_fs s1 !! wkey pa p) as [n1|] eqn:Hn1.
          -- rewrite (fs_mkdir_direct_exists s1 (wpath pa p) perm n1 Hdir1) by (rewrite CW; exact Hn1).
             cbv beta iota.
             destruct (fs_lstat s1 (wpath pa p)) as [fi|e2]; [destruct (fi_kind fi)|];
               eexists; eexists; (split; [reflexivity | exact Hinv1']).
          -- rewrite (fs_mkdir_direct_missing s1 (wpath pa p) perm Hdir1 Hc) by (rewrite CW; exact Hn1).
             rewrite CW. cbv beta iota.
             pose proof (direct_parent_dir _ _ Hdir1 Hc) as Hpd. rewrite CW in Hpd.
             eexists. eexists. split; [reflexivity|].
             set (mk := fun (t : mtime) (g : N) => Dir _).
             split; [|split].
             ++ apply (world_okb_add_entry_wkey pa s1 p mk Ha Hok1 Hac Hne Hpd Hn1).
                intros t g. unfold mk. apply perm12_mkdir.
             ++ eapply same_outside_trans; [apply same_outside_add_entry_wkey; exact Hcp | exact Hso1].
             ++ intros k'. destruct (list_eq_dec str_eq_dec k' (wkey pa p)) as [Ek|Ek].
                ** subst k'. right. split; [|split].
                   --- destruct (Hk1 (wkey pa p)) as [H|(Hn & _)]; [|exact Hn].
                       norm_keys. rewrite Hn1 in H. exact (onode_eqv_None_l _ H).
                   --- unfold is_dir_at.
                       rewrite (add_entry_last_lookup_new s1 (wkey pa p) mk (wkey_nonnil pa p Ha)).
                       unfold mk. eexists. reflexivity.
                   --- exists []. rewrite app_nil_r. reflexivity.
                ** assert (Hadd : onode_eqv (st_fs (add_entry s1 (removelast (wkey pa p)) (last (wkey pa p) []) mk) !! k')
                                            (st_fs s1 !! k')).
                   { apply add_entry_onode_eqv. rewrite (wkey_split pa p Ha). exact Ek. }
                   destruct (Hk1 k') as [H|(Hn & Hdr & r & Er)].
                   --- left. eapply onode_eqv_trans; eassumption.
                   --- right. split; [exact Hn|]. split; [|exists r; exact Er].
                       apply (onode_eqv_is_dir_at _ _ k' Hadd). exact Hdr.
        * destruct (fs_mkdir_unresolvable s1 (wpath pa p) WAC
                      (nolinkpar_unresolvable _ _ (world_okb_wf _ _ Hok1) Hnl1 Hnd1) perm) as [e2 [E2 _]].
          rewrite E2. cbv beta iota.
          destruct (fs_lstat s1 (wpath pa p)) as [fi|e3]; [destruct (fi_kind fi)|];
            eexists; eexists; (split; [reflexivity | exact Hinv1']).
  Qed.

  Lemma cands_abs_cleaned : forall p, abs_cleaned p -> Forall abs_cleaned (cands p).
  Proof.
    intros p Hac. rewrite (cands_kprefixes p Hac). apply List.Forall_app. split.
    - apply List.Forall_forall. intros a Hin. apply in_map_iff in Hin. destruct Hin as [k' [E Hk']]. subst a.
      apply kpath_good_abs_cleaned. eapply kprefixes_good; [|exact Hk']. apply good_key_comps. exact (proj2 Hac).
    - constructor; [exact Hac | constructor].
  Qed.

  Lemma osfs_law_user_mkdirall : forall w p perm, quiet w -> swf (V w) -> snolinkpar (V w) p ->
    framed V V' (a_mkdirall A p perm) w (cands p).
  Proof using Ha Hb Hd.
    intros w p perm Hq Hwf Hnl.
    pose proof (swf_Vp_world_okb pa w Hwf) as Hok. pose proof (proj1 Hnl) as Hac.
    rewrite (Vp_ok pa w Hok) in Hnl. apply (snolinkpar_view pa _ p Ha Hok Hac) in Hnl.
    change (framed_res (a_mkdirall A p perm w) w (cands p)).
    rewrite (the_api_mkdirall tag pa Ha p perm (proj2 Hac)).
    rewrite (spied_fs_upd_fin _ tag (PM MMkdirAll) p [] _ w Hq). unfold fs_mkdirall.
    destruct (fs_mkdirall_aux_inv (S (length (wpath pa p))) perm (w_st w) p Hok Hac Hnl)
      as (r & s' & E & Hok' & Hso & Hk).
    rewrite E. unfold fin; cbn [fst snd].
    apply framed_res_after; try assumption; [apply mres_of_not_halt|].
    apply view_eqv_except; try (eapply world_okb_keys_good; eassumption); [apply cands_abs_cleaned; exact Hac|].
    intros k Hpre Hk'. destruct (Hk k) as [H|(Hn & Hdr & r0 & Er)]; [exact H|]. exfalso.
    apply key_prefixb_iff in Hpre. destruct Hpre as [x Ex]. subst k.
    unfold wkey in Er. rewrite <- app_assoc in Er. apply app_inv_head in Er.
    assert (Gx : good_key x).
    { pose proof (good_key_comps p (proj2 Hac)) as G. rewrite Er in G. apply good_key_app in G. tauto. }
    apply (Hk' (kpath x)).
    - rewrite (cands_kprefixes p Hac). apply in_or_app.
      destruct (list_eq_dec str_eq_dec r0 []) as [E0|E0].
      + right. left. subst r0. rewrite app_nil_r in Er. rewrite <- Er. symmetry. apply kpath_comps. exact Hac.
      + left. apply in_map. apply kprefixes_In. exists r0. split; assumption.
    - unfold wkey. rewrite (comps_kpath_good x Gx). reflexivity.
  Qed.

  Corollary osfs_law_user_remove_nonroot : forall w p, quiet w -> swf (V w) -> snolinkpar (V w) p ->
    p <> s_root -> framed V V' (a_remove A p) w [p].
  Proof using Ha Hb Hd.
    intros w p Hq Hwf Hnl Hne. apply osfs_law_user_remove_variant; try assumption. left. exact Hne.
  Qed.

  (* ---------------------------------------------------------------- *)
  (** ** the statements above are, syntactically, the fields of the records *)

  Ltac same_statement field proof :=
    let T := type of field in
    let U := type of proof in
    first [ constr_eq T U | fail 1 "statement differs from the field:" U ].

  Lemma statements_match :
    api_laws A V V' clean (acc_p pa) (rh_p tag pa) (wh_p tag pa) nohid nohid ->
    api_laws2 A V V' clean (acc_p pa) (rh_p tag pa) (wh_p tag pa) -> True.
  Proof.
    intros L L2.
    same_statement (law_removeall_leaf _ _ _ _ _ _ _ _ _ L) osfs_law_removeall_leaf.
    same_statement (law_remove_none _ _ _ _ _ _ _ _ _ L) osfs_law_remove_none.
    same_statement (law_remove_nonempty _ _ _ _ _ _ _ _ _ L) osfs_law_remove_nonempty.
    same_statement (law_user_create _ _ _ _ _ _ _ _ _ L) osfs_law_user_create.
    same_statement (law_user_openfile _ _ _ _ _ _ _ _ _ L) osfs_law_user_openfile.
    same_statement (law_user_handle _ _ _ _ _ _ _ _ _ L) osfs_law_user_handle.
    same_statement (law_user_mkdirall _ _ _ _ _ _ _ _ _ L) osfs_law_user_mkdirall.
    same_statement (law_user_chmod _ _ _ _ _ _ _ _ _ L) osfs_law_user_chmod.
    same_statement (law_user_chown _ _ _ _ _ _ _ _ _ L) osfs_law_user_chown.
    same_statement (law_user_chtimes _ _ _ _ _ _ _ _ _ L) osfs_law_user_chtimes.
    same_statement (law_user_lchown _ _ _ _ _ _ _ _ _ L) osfs_law_user_lchown.
    same_statement (law_user_symlink _ _ _ _ _ _ _ _ _ L) osfs_law_user_symlink.
    same_statement (law2_stat _ _ _ _ _ _ _ L2) osfs_law2_stat.
    same_statement (law2_readlink _ _ _ _ _ _ _ L2) osfs_law2_readlink.
    same_statement (law2_open_ro _ _ _ _ _ _ _ L2) osfs_law2_open_ro.
    same_statement (law2_ro_handle _ _ _ _ _ _ _ L2) osfs_law2_ro_handle.
    same_statement (law2_readdir _ _ _ _ _ _ _ L2) osfs_law2_readdir.
    exact I.
  Qed.
End LawsB.

Print Assumptions osfs_law_removeall_leaf.
Print Assumptions osfs_law_remove_none.
Print Assumptions osfs_law_remove_nonempty.
Print Assumptions osfs_law_user_create.
Print Assumptions osfs_law_user_openfile.
Print Assumptions osfs_law_user_handle.
Print Assumptions osfs_law_user_mkdirall.
Print Assumptions osfs_law_user_remove_variant.
Print Assumptions osfs_law_user_remove_nonroot.
Print Assumptions law_user_remove_fails_at_empty_root.
Print Assumptions osfs_law_user_chmod.
Print Assumptions osfs_law_user_chown.
Print Assumptions osfs_law_user_chtimes.
Print Assumptions osfs_law_user_lchown.
Print Assumptions osfs_law_user_symlink.
Print Assumptions osfs_law2_stat.
Print Assumptions osfs_law2_readlink.
Print Assumptions osfs_law2_open_ro.
Print Assumptions osfs_law2_ro_handle.
Print Assumptions osfs_law2_readdir.
