(** Operations that only read and replace the filesystem state ([stop]): they
    neither halt nor count nor look at the crash point, the fault plan, the
    trace or the bookkeeping.  Every method of HiddenFS over PrefixFS over the
    OS filesystem - HiddenFS.RemoveAll with its walk included - is such an
    operation; wrapped in the spy it is therefore one primitive call in the
    sense of Spec/Always.v ([atomic]) and of Spec/Faults.v ([fcall]). *)
From stdpp Require Import gmap.
From BFS Require Import Spec.Always Spec.Faults Spec.ViewOsfs Spec.ViewHidden.
From BFS Require Import Proofs.LawsOsfsBase Proofs.AlwaysLib Proofs.FaultLib.
Local Open Scope nat_scope.

Definition stop {A} (op : M A) : Prop :=
  forall w r w', op w = (r, w') ->
    r <> MHalt /\ w' = set_st w (w_st w') /\
    forall w2, w_st w2 = w_st w -> op w2 = (r, set_st w2 (w_st w')).

Lemma stop_plainop {A} (op : M A) : stop op -> plainop op.
Proof.
  intros H w r w' E. destruct (H w r w' E) as (Hnh & Ew & Hind). split; [exact Hnh |].
  split; [rewrite Ew; reflexivity |]. split; [rewrite Ew; reflexivity |].
  intros c. rewrite (Hind (set_crash w c) eq_refl). rewrite Ew at 2. reflexivity.
Qed.

Lemma stop_fplain {A} (op : M A) : stop op -> fplain op.
Proof.
  intros H w r w' E. destruct (H w r w' E) as (Hnh & Ew & Hind). split; [exact Hnh |].
  split; [rewrite Ew; reflexivity |]. split; [rewrite Ew; reflexivity |]. split; [rewrite Ew; reflexivity |].
  intros fl. rewrite (Hind (set_faults w fl) eq_refl). rewrite Ew at 2. reflexivity.
Qed.

Lemma set_st_set_st (w : world) (s1 s2 : fstate) : set_st (set_st w s1) s2 = set_st w s2.
Proof. reflexivity. Qed.

Lemma stop_ret {A} (a : A) : stop (ret a).
Proof.
  intros w r w' E. injection E as <- <-. split; [discriminate |]. split; [destruct w; reflexivity |].
  intros w2 E2. unfold ret. rewrite <- E2. destruct w2; reflexivity.
Qed.

Lemma stop_fail {A} (e : errno) : stop (@fail A e).
Proof.
  intros w r w' E. injection E as <- <-. split; [discriminate |]. split; [destruct w; reflexivity |].
  intros w2 E2. unfold fail. rewrite <- E2. destruct w2; reflexivity.
Qed.

(** sequencing, with what is known about the values the first part returns *)
Lemma stop_bind_post {A B} (Q : A -> Prop) (m : M A) (f : A -> M B) :
  (forall w a w', m w = (MOk a, w') -> Q a) -> stop m -> (forall a, Q a -> stop (f a)) -> stop (bind m f).
Proof.
  intros HQ Hm Hf w r w' E. unfold bind in E |- *.
  destruct (m w) as [[a | e |] w1] eqn:Em.
  - destruct (Hm w _ w1 Em) as (_ & Ew1 & Hind1).
    destruct (Hf a (HQ w a w1 Em) w1 r w' E) as (Hnh & Ew' & Hind2).
    split; [exact Hnh |]. split; [rewrite Ew', Ew1 at 1; reflexivity |].
    intros w2 E2. rewrite (Hind1 w2 E2). rewrite (Hind2 (set_st w2 (w_st w1)) eq_refl). reflexivity.
  - injection E as <- <-. destruct (Hm w _ w1 Em) as (_ & Ew1 & Hind1).
    split; [discriminate |]. split; [exact Ew1 |]. intros w2 E2. rewrite (Hind1 w2 E2). reflexivity.
  - destruct (Hm w _ w1 Em) as (Hnh & _). contradiction Hnh. reflexivity.
Qed.

Lemma stop_bind {A B} (m : M A) (f : A -> M B) : stop m -> (forall a, stop (f a)) -> stop (bind m f).
Proof. intros Hm Hf. apply (stop_bind_post (fun _ => True)); [intros; exact I | exact Hm | intros a _; apply Hf]. Qed.

Lemma stop_try {A} (m : M A) : stop m -> stop (try_ m).
Proof.
  intros Hm w r w' E. unfold try_ in E |- *. destruct (m w) as [[a | e |] w1] eqn:Em.
  - injection E as <- <-. destruct (Hm w _ w1 Em) as (_ & Ew1 & Hind1).
    split; [discriminate |]. split; [exact Ew1 |]. intros w2 E2. rewrite (Hind1 w2 E2). reflexivity.
  - injection E as <- <-. destruct (Hm w _ w1 Em) as (_ & Ew1 & Hind1).
    split; [discriminate |]. split; [exact Ew1 |]. intros w2 E2. rewrite (Hind1 w2 E2). reflexivity.
  - destruct (Hm w _ w1 Em) as (Hnh & _). contradiction Hnh. reflexivity.
Qed.

Lemma stop_lift_res {A} (r : res A) : stop (lift_res r).
Proof. destruct r; [apply stop_ret | apply stop_fail]. Qed.

Lemma stop_fs_get {A} (g : fstate -> res A) : stop (fs_get g).
Proof.
  intros w r w' E. unfold fs_get in E |- *.
  destruct (stop_lift_res (g (w_st w)) w r w' E) as (Hnh & Ew & Hind).
  split; [exact Hnh |]. split; [exact Ew |]. intros w2 E2. rewrite E2. apply Hind. exact E2.
Qed.

Lemma stop_fs_upd {A} (g : fstate -> res A * fstate) : stop (fs_upd g).
Proof.
  intros w r w' E. unfold fs_upd in E |- *. destruct (g (w_st w)) as [r0 s'] eqn:Eg.
  destruct r0 as [a | e]; cbn [lift_res] in E; injection E as <- <-;
    (split; [discriminate |]); (split; [reflexivity |]);
    intros w2 E2; rewrite E2, Eg; reflexivity.
Qed.

Lemma stop_with_outcome {A} (o : outcome) (k : call -> M A) (multi : M A) :
  (forall c, stop (k c)) -> stop multi -> stop (with_outcome o k multi).
Proof. intros Hk Hm. destruct o; [apply Hk | apply stop_fail | exact Hm]. Qed.

Lemma stop_mfold {A B} (f : B -> A -> M B) (l : list A) :
  (forall b a, stop (f b a)) -> forall b, stop (mfold f l b).
Proof.
  intros Hf. induction l as [| x l IH]; intros b; cbn [mfold]; [apply stop_ret |].
  apply stop_bind; [apply Hf | exact IH].
Qed.

Lemma stop_miter {A} (f : A -> M unit) (l : list A) : (forall a, stop (f a)) -> stop (miter f l).
Proof.
  intros Hf. induction l as [| x l IH]; cbn [miter]; [apply stop_ret |].
  apply stop_bind; [apply Hf | intros _; exact IH].
Qed.

(* ------------------------------------------------------------------ *)
(** * The OS filesystem and the layers *)

Lemma stop_os_openfile (p : str) (fl perm : N) : stop (os_openfile p fl perm).
Proof. unfold os_openfile. apply stop_bind; [apply stop_fs_upd | intros x; apply stop_ret]. Qed.

Lemma stop_dispatch_unit_osfs (c : call) : stop (dispatch_unit osfs c).
Proof. unfold dispatch_unit. destruct (c_meth c); cbn [osfs a_mkdir a_mkdirall a_remove a_removeall a_rename
  a_chmod a_chown a_lchown a_chtimes a_symlink]; try apply stop_fs_upd; apply stop_fail. Qed.

Lemma stop_dispatch_info_osfs (c : call) : stop (dispatch_info osfs c).
Proof. unfold dispatch_info. destruct (c_meth c); cbn [osfs a_stat a_lstat]; try apply stop_fs_get; apply stop_fail. Qed.

Lemma stop_dispatch_handle_osfs (c : call) : stop (dispatch_handle osfs c).
Proof. unfold dispatch_handle. destruct (c_meth c); cbn [osfs a_open a_create a_openfile];
  try apply stop_os_openfile; apply stop_fail. Qed.

(** every method of a filesystem is such an operation *)
Record stop_api (b : fsapi) : Prop := {
  sa_lstat : forall p, stop (a_lstat b p);
  sa_stat : forall p, stop (a_stat b p);
  sa_readlink : forall p, stop (a_readlink b p);
  sa_open : forall p, stop (a_open b p);
  sa_openfile : forall p fl perm, stop (a_openfile b p fl perm);
  sa_create : forall p, stop (a_create b p);
  sa_mkdir : forall p perm, stop (a_mkdir b p perm);
  sa_mkdirall : forall p perm, stop (a_mkdirall b p perm);
  sa_remove : forall p, stop (a_remove b p);
  sa_removeall : forall p, stop (a_removeall b p);
  sa_rename : forall o n, stop (a_rename b o n);
  sa_chmod : forall p m, stop (a_chmod b p m);
  sa_chown : forall p u g, stop (a_chown b p u g);
  sa_lchown : forall p u g, stop (a_lchown b p u g);
  sa_chtimes : forall p t, stop (a_chtimes b p t);
  sa_symlink : forall t p, stop (a_symlink b t p);
  (** the handles it opens are not spied *)
  sa_open_nospy : forall p w x w', a_open b p w = (MOk x, w') -> fh_spy x = None;
  sa_openfile_nospy : forall p fl perm w x w', a_openfile b p fl perm w = (MOk x, w') -> fh_spy x = None;
  sa_create_nospy : forall p w x w', a_create b p w = (MOk x, w') -> fh_spy x = None
}.

Lemma stop_dispatch_unit (b : fsapi) (c : call) : stop_api b -> stop (dispatch_unit b c).
Proof. intros Hb. unfold dispatch_unit. destruct (c_meth c); try apply stop_fail; apply Hb. Qed.
Lemma stop_dispatch_info (b : fsapi) (c : call) : stop_api b -> stop (dispatch_info b c).
Proof. intros Hb. unfold dispatch_info. destruct (c_meth c); try apply stop_fail; apply Hb. Qed.
Lemma stop_dispatch_handle (b : fsapi) (c : call) : stop_api b -> stop (dispatch_handle b c).
Proof. intros Hb. unfold dispatch_handle. destruct (c_meth c); try apply stop_fail; apply Hb. Qed.

Lemma dispatch_handle_nospy (b : fsapi) (c : call) (w : world) (x : fhandle) (w' : world) :
  stop_api b -> dispatch_handle b c w = (MOk x, w') -> fh_spy x = None.
Proof.
  intros Hb. unfold dispatch_handle. destruct (c_meth c); try (intros E; discriminate E).
  - exact (sa_create_nospy b Hb _ w x w').
  - exact (sa_open_nospy b Hb _ w x w').
  - exact (sa_openfile_nospy b Hb _ _ _ w x w').
Qed.

Lemma os_openfile_nospy (p : str) (fl perm : N) (w : world) (x : fhandle) (w' : world) :
  os_openfile p fl perm w = (MOk x, w') -> fh_spy x = None.
Proof.
  unfold os_openfile, bind, ret. destruct (fs_upd _ w) as [[hh | e |] w1]; intros E; try discriminate E.
  injection E as <- _. reflexivity.
Qed.

Lemma osfs_stop : stop_api osfs.
Proof.
  constructor; cbn [osfs a_lstat a_stat a_readlink a_open a_openfile a_create a_mkdir a_mkdirall a_remove
    a_removeall a_rename a_chmod a_chown a_lchown a_chtimes a_symlink]; intros;
    try apply stop_fs_get; try apply stop_fs_upd; try apply stop_os_openfile;
    eapply os_openfile_nospy; eassumption.
Qed.

(** a layer over such a filesystem, when its multi-call method is such an operation *)
Lemma layered_with_stop (l : layer) (b self : fsapi) :
  stop_api b -> (forall c, stop (l_multi l b self c)) ->
  (forall name p x, fh_spy (l_handle l name p x) = fh_spy x) ->
  stop_api (layered_with l b self).
Proof.
  intros Hb Hmulti Hspy. unfold layered_with.
  assert (Hns : forall (o : outcome) name w x w',
            with_outcome o (fun c' => h0 <- dispatch_handle b c' ;; ret (l_handle l name (c_a c') h0)) (fail EOther) w
              = (MOk x, w') -> fh_spy x = None).
  { intros o name w x w'. destruct o as [c' | e |]; cbn [with_outcome]; try (intros E; discriminate E).
    unfold bind, ret. destruct (dispatch_handle b c' w) as [[x0 | e |] w1] eqn:Ed; intros E; try discriminate E.
    injection E as <- _. rewrite Hspy. exact (dispatch_handle_nospy b c' w x0 w1 Hb Ed). }
  constructor; cbn [a_lstat a_stat a_readlink a_open a_openfile a_create a_mkdir a_mkdirall a_remove
    a_removeall a_rename a_chmod a_chown a_lchown a_chtimes a_symlink]; intros;
    try (eapply Hns; eassumption);
    try (apply stop_with_outcome; [intros c' | first [apply stop_fail | apply Hmulti]]);
    try (apply stop_dispatch_unit; exact Hb);
    try (apply stop_bind; [first [apply stop_dispatch_info | apply stop_dispatch_handle | apply Hb]; try exact Hb
                          | intros y; apply stop_ret]).
Qed.

Lemma prefixfs_stop (pfx : str) : stop_api (prefixfs pfx osfs).
Proof.
  unfold prefixfs, layered.
  assert (H1 : stop_api (layered_with (prefix_layer (clean pfx)) osfs null_api)).
  { apply layered_with_stop; [exact osfs_stop | intros c; apply stop_fail | reflexivity]. }
  apply layered_with_stop; [exact osfs_stop | intros c; apply stop_fail | reflexivity].
Qed.

(* ------------------------------------------------------------------ *)
(** * HiddenFS.RemoveAll *)

Lemma stop_hreaddirnames_nospy (x : fhandle) : fh_spy x = None -> stop (hreaddirnames x).
Proof.
  intros Hs. unfold hreaddirnames, spy_h. rewrite Hs.
  apply stop_bind; [apply stop_fs_get |]. intros names.
  destruct (fh_hidden x) as [[dirp hs] |]; [| apply stop_ret].
  destruct (fst (hidden_list dirp hs (-1) names)); [apply stop_ret | apply stop_ret | apply stop_fail].
Qed.

Lemma stop_hclose_nospy (x : fhandle) : fh_spy x = None -> stop (hclose x).
Proof. intros Hs. unfold hclose, spy_h. rewrite Hs. apply stop_ret. Qed.

Lemma stop_read_dir_names (b : fsapi) (d : str) : stop_api b -> stop (read_dir_names b d).
Proof.
  intros Hb. unfold read_dir_names.
  apply (stop_bind_post (fun x => fh_spy x = None)).
  - intros w x w' E. exact (sa_open_nospy b Hb d w x w' E).
  - apply Hb.
  - intros x Hx. apply stop_bind; [apply stop_try; apply stop_hreaddirnames_nospy; exact Hx |]. intros r.
    apply stop_bind; [apply stop_try; apply stop_hclose_nospy; exact Hx |]. intros _.
    destruct r; [apply stop_ret | apply stop_fail].
Qed.

Lemma stop_walk_fold {A} (b : fsapi) (fn : A -> str -> finfo -> M A) :
  stop_api b -> (forall a p fi, stop (fn a p fi)) ->
  forall fuel path info acc, stop (walk_fold fuel b path info fn acc).
Proof.
  intros Hb Hfn. induction fuel as [| fuel IH]; intros path info acc; cbn [walk_fold]; [apply stop_fail |].
  apply stop_bind; [apply Hfn |]. intros acc1.
  destruct (is_dir_info info); [| apply stop_ret].
  apply stop_bind; [apply stop_read_dir_names; exact Hb |]. intros names.
  apply stop_mfold. intros a name. apply stop_bind; [apply Hb |]. intros fi. apply IH.
Qed.

Lemma stop_hidden_removeall (hs : list str) (b self : fsapi) (name : str) :
  stop_api b -> stop_api self -> stop (hidden_removeall hs b self name).
Proof.
  intros Hb Hself. unfold hidden_removeall.
  apply stop_bind; [apply stop_try; apply Hself |]. intros r.
  destruct r as [fi | e]; [| destruct (is_enoent e); [apply stop_ret | apply stop_fail]].
  destruct (negb (is_dir_info fi)); [apply Hself |].
  apply stop_bind.
  - unfold walk_m. apply stop_bind; [apply Hb |]. intros info. apply stop_walk_fold; [exact Hb |].
    intros dirs path fi'. unfold hidden_walk_fn.
    destruct (is_hidden path hs) as [[|] |]; [apply stop_ret | | apply stop_fail].
    destruct (is_dir_info fi'); [apply stop_ret |]. apply stop_bind; [apply Hself | intros _; apply stop_ret].
  - intros dirs. apply stop_miter. intros d.
    destruct (is_parent_of_hidden d hs) as [[|] |]; [apply stop_ret | apply Hb | apply stop_fail].
Qed.

Lemma null_api_stop : stop_api null_api.
Proof.
  constructor; cbn [null_api a_lstat a_stat a_readlink a_open a_openfile a_create a_mkdir a_mkdirall a_remove
    a_removeall a_rename a_chmod a_chown a_lchown a_chtimes a_symlink]; intros; try apply stop_fail;
    discriminate H.
Qed.

Lemma hiddenfs_stop (hs0 : list str) (b : fsapi) : stop_api b -> stop_api (hiddenfs hs0 b).
Proof.
  intros Hb. unfold hiddenfs, layered.
  assert (H1 : stop_api (layered_with (hidden_layer (hidden_norm hs0)) b null_api)).
  { apply layered_with_stop; [exact Hb | | reflexivity].
    intros c. cbn [hidden_layer l_multi]. apply stop_hidden_removeall; [exact Hb | exact null_api_stop]. }
  apply layered_with_stop; [exact Hb | | reflexivity].
  intros c. cbn [hidden_layer l_multi]. apply stop_hidden_removeall; [exact Hb | exact H1].
Qed.
