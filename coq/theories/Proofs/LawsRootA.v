(** The laws of Spec/Laws.v and Spec/Laws2.v for the OS filesystem itself,
    [spy tag osfs] (no PrefixFS), with the view [V0] of the whole filesystem
    (Spec/ViewRoot.v): view paths are the absolute cleaned paths of the
    entries, link targets are shown as stored ([tnorm] is the identity), every
    link target is accepted.  The counterpart of Proofs/LawsOsfsA.v,
    Proofs/LawsOsfsB.v and of Section Examples of Proofs/LawsOsfsBase.v "for
    the root as prefix"; the other view is the constant empty view [Vnone]
    (the frames for a real second filesystem come from the footprints of
    Proofs/LawsRootFrame.v).

    Root-specific points: [Remove "/"] and [Rename "/" _] fail with EBUSY,
    [Rename _ "/"] fails as well (the target is an existing directory), the
    state is unchanged in all three cases. *)
From stdpp Require Import gmap.
From BFS Require Import Spec.CopySpecs Spec.ViewOsfs Spec.ViewRoot Spec.Laws2.
From BFS Require Import Proofs.LawsOsfsBase Proofs.LawsOsfsA Proofs.LawsOsfsB Proofs.BackupCopy.
From BFS Require Import Proofs.LawsHiddenBase Proofs.LawsHiddenView Proofs.LawsHiddenFrame Proofs.LawsRootBase.
Local Open Scope nat_scope.

Definition Vnone (w : world) : store := ∅.
Definition acc_r (t p : str) : Prop := True.

Section LawsRoot.
  Variable tag : fstag.
  Notation A := (spy tag osfs).
  Notation V := V0.
  Notation V' := Vnone.
  Notation rh := (rh_p tag s_root).
  Notation wh := (wh_p tag s_root).

  (* ---------------------------------------------------------------- *)
  (** ** helpers *)

  Lemma sr_after (t : fstag) m p p2 e w s : same_rest V' w (after t m p p2 e w s).
  Proof. repeat split. Qed.

  Lemma sr_any (w w' : world) :
    w_infos w' = w_infos w -> w_crash w' = w_crash w -> w_faults w' = w_faults w -> same_rest V' w w'.
  Proof. intros E1 E2 E3. split; [reflexivity | split; [exact E1 | split; [exact E2 | exact E3]]]. Qed.

  Lemma step_same m p p2 e w :
    V (after tag m p p2 e w (w_st w)) = V w /\ same_rest V' w (after tag m p p2 e w (w_st w)).
  Proof. split; [reflexivity | apply sr_after]. Qed.

  (** a present entry of the view, in the world *)
  Lemma present_inv w p n : V w !! p = Some n ->
    rok (st_fs (w_st w)) /\ abs_cleaned p /\ st_fs (w_st w) !! comps p = Some n /\
    direct (st_fs (w_st w)) p.
  Proof.
    intros Hl. destruct (V0_lookup_Some_inv w p n Hl) as (Hok & Hac & Hnd).
    split; [exact Hok | split; [exact Hac | split; [exact Hnd |]]].
    exact (present_direct0 _ p n Hok Hac Hnd).
  Qed.

  Lemma absent_inv w p : rok (st_fs (w_st w)) -> abs_cleaned p -> V w !! p = None ->
    st_fs (w_st w) !! comps p = None.
  Proof. intros Hok Hac Hl. rewrite (V0_lookup w p Hok Hac) in Hl. exact Hl. Qed.

  Lemma not_is_link_node (nd : node) : ~ is_link nd -> forall m t, nd <> Link m t.
  Proof. intros H m t E. apply H. subst nd. exists m, t. reflexivity. Qed.

  (** the world after replacing the node at [comps p] (the clock may have advanced) *)
  Lemma step_update w p s1 nd n' m p2 e :
    rok (st_fs (w_st w)) -> abs_cleaned p -> st_fs s1 = st_fs (w_st w) ->
    st_fs (w_st w) !! comps p = Some nd ->
    (is_dir nd = true -> is_dir n' = true) -> perm12 n' ->
    V (after tag m p p2 e w (update_node s1 (comps p) n')) = <[p := n']> (V w) /\
    same_rest V' w (after tag m p p2 e w (update_node s1 (comps p) n')).
  Proof.
    intros Hok Hac Es Hnd Hdir Hperm.
    assert (Hok1 : rok (st_fs s1)) by (rewrite Es; exact Hok).
    assert (Hnd1 : st_fs s1 !! comps p = Some nd) by (rewrite Es; exact Hnd).
    assert (Hok' : rok (st_fs (update_node s1 (comps p) n'))).
    { exact (world_okb_update_node s_root s1 _ nd n' Hok1 Hnd1 Hdir Hperm). }
    split; [| apply sr_after].
    rewrite (V0_after_ok _ _ _ _ _ _ _ Hok'), (rview_update_node s1 p n' (rok_keys_good _ Hok1) Hac).
    rewrite (V0_ok w Hok), Es. reflexivity.
  Qed.

  (** the world after a new entry at [comps p] *)
  Lemma step_add w p mk m p2 e :
    rok (st_fs (w_st w)) -> abs_cleaned p -> direct (st_fs (w_st w)) p ->
    st_fs (w_st w) !! comps p = None -> (forall t g, perm12 (mk t g)) ->
    let s' := add_entry (w_st w) (removelast (comps p)) (last (comps p) []) mk in
    rok (st_fs s') /\
    V (after tag m p p2 e w s') !! p =
      Some (mk (Now (st_clock (w_st w))) (new_gid (st_fs (w_st w)) (removelast (comps p)))) /\
    store_eqv_except [p] (V (after tag m p p2 e w s')) (V w) /\ swf (V (after tag m p p2 e w s')).
  Proof.
    intros Hok Hac Hdir Hnone Hperm s'.
    pose proof (none_comps_ne _ _ Hok Hnone) as Hc.
    assert (Hne : p <> s_root) by (intros ->; apply Hc; apply comps_root).
    pose proof (direct_parent_dir _ _ Hdir Hc) as Hpd.
    assert (Hok' : rok (st_fs s')) by (apply rok_add_entry; assumption).
    split; [exact Hok' |].
    rewrite (V0_after_ok _ _ _ _ _ _ _ Hok'). split; [| split].
    - rewrite (rview_lookup_ac _ p (rok_keys_good _ Hok') Hac). unfold s'.
      apply add_entry_last_lookup_new. exact Hc.
    - rewrite (V0_ok w Hok). apply rview_add_entry_eqv; try assumption; apply rok_keys_good; assumption.
    - apply swf_rview. exact Hok'.
  Qed.

  (** the world after the entry at [comps p], without children, was removed *)
  Lemma step_remove w p s' m p2 e :
    rok (st_fs (w_st w)) -> abs_cleaned p -> p <> s_root ->
    has_children (st_fs (w_st w)) (comps p) = false ->
    st_fs s' = st_fs (remove_entry (w_st w) (comps p)) ->
    rok (st_fs s') /\ V (after tag m p p2 e w s') !! p = None /\
    store_eqv_except [p] (V (after tag m p p2 e w s')) (V w) /\ swf (V (after tag m p p2 e w s')).
  Proof.
    intros Hok Hac Hne Hnc Es.
    assert (Hok' : rok (st_fs s')) by (rewrite Es; apply rok_remove_entry; assumption).
    split; [exact Hok' |]. rewrite (V0_after_ok _ _ _ _ _ _ _ Hok'). split; [| split].
    - rewrite (rview_lookup_ac _ p (rok_keys_good _ Hok') Hac), Es. apply remove_entry_lookup_self.
    - rewrite (V0_ok w Hok), Es. apply rview_remove_entry_eqv; try assumption; [apply rok_keys_good; exact Hok |].
      rewrite <- Es. apply rok_keys_good. exact Hok'.
    - apply swf_rview. exact Hok'.
  Qed.

  (* ---------------------------------------------------------------- *)
  (** ** the view does not look at BackupFS's bookkeeping *)
  Lemma r_law_infos_indep w i : V (with_infos w i) = V w.
  Proof. reflexivity. Qed.

  (* ---------------------------------------------------------------- *)
  (** ** reading *)
  Lemma r_law_lstat_some w p n : quiet w -> swf (V w) -> snolinkpar (V w) p -> V w !! p = Some n ->
    exists fi, ok_step V V' (a_lstat A p) w fi (V w) /\ info_matches fi n /\ fi_mt fi = m_mt (node_meta n) /\
               fi_name fi = GoPath.base p.
  Proof.
    intros Hq Hwf Hnl Hl. destruct (present_inv w p n Hl) as (Hok & Hac & Hnd & Hdir).
    unfold ok_step. rewrite (run0_lstat tag w Hq Hok p Hac Hdir). norm_keys. rewrite Hnd. rewrite fin_ok.
    eexists. split; [| split; [| split]].
    - eexists. split; [reflexivity | apply step_same].
    - unfold info_matches, info_of. simpl. tauto.
    - reflexivity.
    - reflexivity.
  Qed.

  Lemma r_law_lstat_none w p : quiet w -> swf (V w) -> snolinkpar (V w) p -> V w !! p = None ->
    err_step V V' (a_lstat A p) w not_found.
  Proof.
    intros Hq Hwf Hnl Hl. unfold err_step.
    destruct (snl_setup0 w p Hwf Hnl) as (Hok & Hac & [Hdir | [Hun Hnone]]).
    - pose proof (absent_inv w p Hok Hac Hl) as Hnone.
      rewrite (run0_lstat tag w Hq Hok p Hac Hdir). norm_keys. rewrite Hnone. rewrite fin_err.
      exists ENOENT. eexists. split; [reflexivity |]. split; [reflexivity | apply step_same].
    - destruct (run0_lstat_un tag w Hq Hok p Hac Hun) as [e [E Hnf]]. rewrite E.
      exists e. eexists. split; [reflexivity |]. split; [exact Hnf | apply step_same].
  Qed.

  Lemma r_law_readlink w p m t : quiet w -> swf (V w) -> snolinkpar (V w) p -> V w !! p = Some (Link m t) ->
    ok_step V V' (a_readlink A p) w t (V w).
  Proof.
    intros Hq Hwf Hnl Hl. destruct (present_inv w p _ Hl) as (Hok & Hac & Hnd & Hdir).
    unfold ok_step. rewrite (run0_readlink tag w Hq Hok p Hac Hdir). norm_keys. rewrite Hnd. rewrite fin_ok.
    eexists. split; [reflexivity | apply step_same].
  Qed.

  Lemma not_link_at_present0 (f : fs) k nd :
    f !! k = Some nd -> (forall m t, nd <> Link m t) -> not_link_at f k.
  Proof. intros H Hn m t E. norm_keys. rewrite H in E. injection E as E. exact (Hn m t E). Qed.

  Lemma not_link_at_absent0 (f : fs) k : f !! k = None -> not_link_at f k.
  Proof. intros H m t E. norm_keys. rewrite H in E. discriminate E. Qed.

  Lemma the_handle0_rh p hname : rh (the_handle0 tag p (mkHandle (comps p) 0%N false true false false hname)) p 0.
  Proof. repeat split. Qed.

  Lemma the_handle0_wh p rd hname : wh (the_handle0 tag p (mkHandle (comps p) 0%N true rd false false hname)) p 0.
  Proof. repeat split. Qed.

  Lemma r_law_open_file w p m c : quiet w -> swf (V w) -> snolinkpar (V w) p -> V w !! p = Some (File m c) ->
    exists h, ok_step V V' (a_open A p) w h (V w) /\ rh h p 0.
  Proof.
    intros Hq Hwf Hnl Hl. destruct (present_inv w p _ Hl) as (Hok & Hac & Hnd & Hdir). unfold ok_step.
    assert (Hnlk : not_link_at (st_fs (w_st w)) (comps p)).
    { apply (not_link_at_present0 _ _ _ Hnd). intros m' t' E. discriminate E. }
    rewrite (run0_open tag w Hq Hok p Hac Hdir Hnlk). norm_keys. rewrite Hnd. rewrite finmap_ok.
    eexists. split.
    - eexists. split; [reflexivity | apply step_same].
    - apply the_handle0_rh.
  Qed.

  Lemma r_law_open_err w p : quiet w -> swf (V w) -> snolinkpar (V w) p -> V w !! p = None ->
    err_step V V' (a_open A p) w not_found.
  Proof.
    intros Hq Hwf Hnl Hl. unfold err_step.
    destruct (snl_setup0 w p Hwf Hnl) as (Hok & Hac & [Hdir | [Hun Hnone]]).
    - pose proof (absent_inv w p Hok Hac Hl) as Hnone.
      rewrite (run0_open tag w Hq Hok p Hac Hdir (not_link_at_absent0 _ _ Hnone)). norm_keys. rewrite Hnone.
      rewrite finmap_err. exists ENOENT. eexists. split; [reflexivity |]. split; [reflexivity | apply step_same].
    - destruct (run0_open_un tag w Hq Hok p Hac Hun) as [e [E Hnf]].
      exists e. eexists. split; [exact E |]. split; [exact Hnf | apply step_same].
  Qed.

  Lemma r_law_hread w h p pos m c : quiet w -> rh h p pos -> V w !! p = Some (File m c) ->
    match skipn pos c with
    | [] => exists h', ok_step V V' (hread h) w (None, h') (V w)
    | rest => exists h', ok_step V V' (hread h) w (Some (firstn chunk_size rest), h') (V w) /\
                         rh h' p (pos + length (firstn chunk_size rest))
    end.
  Proof.
    intros Hq Hrh Hl. destruct (present_inv w p _ Hl) as (Hok & Hac & Hnd & Hdir).
    pose proof (hread_quiet tag s_root h p pos w m c Hq Hrh Hnd) as E.
    unfold ok_step. destruct (skipn pos c) as [| x rest].
    - eexists. eexists. split; [exact E | apply step_same].
    - eexists. split.
      + eexists. split; [exact E | apply step_same].
      + apply rh_p_advance. exact Hrh.
  Qed.

  Lemma r_law_hstat w h p pos n : quiet w -> rh h p pos -> V w !! p = Some n ->
    exists fi, ok_step V V' (hstat h) w fi (V w) /\ info_matches fi n.
  Proof.
    intros Hq Hrh Hl. destruct (present_inv w p _ Hl) as (Hok & Hac & Hnd & Hdir).
    destruct Hrh as (H1 & H2 & _). eexists. split.
    - unfold ok_step. eexists. split; [exact (hstat_quiet tag s_root h p w n Hq H1 H2 Hnd) | apply step_same].
    - unfold info_matches, info_of. simpl. tauto.
  Qed.

  Lemma r_law_hclose_r w h p pos : quiet w -> rh h p pos -> ok_step V V' (hclose h) w tt (V w).
  Proof.
    intros Hq Hrh. unfold ok_step. eexists.
    split; [exact (hclose_quiet tag h p w Hq (rh_p_spy _ _ _ _ _ Hrh)) | apply step_same].
  Qed.

  Lemma r_law_hclose_w w h p pos : quiet w -> wh h p pos -> ok_step V V' (hclose h) w tt (V w).
  Proof.
    intros Hq Hwh. unfold ok_step. eexists.
    split; [exact (hclose_quiet tag h p w Hq (wh_p_spy _ _ _ _ _ Hwh)) | apply step_same].
  Qed.
  (* ---------------------------------------------------------------- *)
  (** ** the calls copies are made of *)

  Lemma r_law_mkdirall_dir w p perm m : quiet w -> swf (V w) -> sdirect (V w) p -> V w !! p = Some (Dir m) ->
    ok_step V V' (a_mkdirall A p perm) w tt (V w).
  Proof.
    intros Hq Hwf Hsd Hl. destruct (present_inv w p _ Hl) as (Hok & Hac & Hnd & Hdir). unfold ok_step.
    assert (Hnlk : not_link_at (st_fs (w_st w)) (comps p)).
    { apply (not_link_at_present0 _ _ _ Hnd). intros m' t' E. discriminate E. }
    rewrite (run0_mkdirall tag w Hq Hok p Hac Hdir perm Hnlk). norm_keys. rewrite Hnd. rewrite fin_ok.
    eexists. split; [reflexivity | apply step_same].
  Qed.

  Lemma r_law_mkdirall_new w p perm : quiet w -> swf (V w) -> sdirect (V w) p -> V w !! p = None ->
    exists m' s', ok_step V V' (a_mkdirall A p perm) w tt s' /\ s' !! p = Some (Dir m') /\
                  store_eqv_except [p] s' (V w) /\ swf s'.
  Proof.
    intros Hq Hwf Hsd Hl. pose proof (swf_V0_rok w Hwf) as Hok.
    destruct (sdirect_V0 w p Hok Hsd) as [Hac Hdir]. pose proof (absent_inv w p Hok Hac Hl) as Hnone.
    unfold ok_step.
    rewrite (run0_mkdirall tag w Hq Hok p Hac Hdir perm (not_link_at_absent0 _ _ Hnone)). norm_keys. rewrite Hnone.
    rewrite fin_ok.
    match goal with |- context [add_entry _ _ _ ?f] => set (mk := f) end.
    destruct (step_add w p mk (PM MMkdirAll) [] None Hok Hac Hdir Hnone) as (Hok' & Hp & Heqv & Hswf).
    { intros t g. unfold mk. apply perm12_mkdir. }
    eexists. eexists. split; [| split; [exact Hp | split; [exact Heqv | exact Hswf]]].
    eexists. split; [reflexivity |]. split; [reflexivity | apply sr_after].
  Qed.

  Lemma r_law_chmod w p mode n : quiet w -> swf (V w) -> snolinkpar (V w) p -> V w !! p = Some n -> ~ is_link n ->
    ok_step V V' (a_chmod A p mode) w tt (<[ p := with_meta n (set_perm mode) ]> (V w)).
  Proof.
    intros Hq Hwf Hnl Hl Hnlk. destruct (present_inv w p _ Hl) as (Hok & Hac & Hnd & Hdir). unfold ok_step.
    pose proof (not_link_at_present0 _ _ _ Hnd (not_is_link_node n Hnlk)) as Hnl'.
    rewrite (run0_chmod tag w Hq Hok p Hac Hdir mode Hnl'). norm_keys. rewrite Hnd. rewrite fin_ok.
    eexists. split; [reflexivity |].
    apply (step_update w p (w_st w) n _ _ _ _ Hok Hac eq_refl Hnd).
    - destruct n; simpl; intro H; try discriminate H; reflexivity.
    - apply perm12_set_perm.
  Qed.

  Lemma r_law_chtimes w p t n : quiet w -> swf (V w) -> snolinkpar (V w) p -> V w !! p = Some n -> ~ is_link n ->
    ok_step V V' (a_chtimes A p t) w tt (<[ p := with_meta n (set_mt t) ]> (V w)).
  Proof.
    intros Hq Hwf Hnl Hl Hnlk. destruct (present_inv w p _ Hl) as (Hok & Hac & Hnd & Hdir). unfold ok_step.
    pose proof (not_link_at_present0 _ _ _ Hnd (not_is_link_node n Hnlk)) as Hnl'.
    rewrite (run0_chtimes tag w Hq Hok p Hac Hdir t Hnl'). norm_keys. rewrite Hnd. rewrite fin_ok.
    eexists. split; [reflexivity |].
    apply (step_update w p (w_st w) n _ _ _ _ Hok Hac eq_refl Hnd).
    - unfold with_meta. rewrite is_dir_set_meta. tauto.
    - apply perm12_set_mt. exact (world_okb_perm12 s_root _ _ _ Hok Hnd).
  Qed.

  Lemma r_law_chown w p u g n : quiet w -> swf (V w) -> snolinkpar (V w) p -> V w !! p = Some n -> ~ is_link n ->
    ok_step V V' (a_chown A p u g) w tt (<[ p := chown_node n u g ]> (V w)).
  Proof.
    intros Hq Hwf Hnl Hl Hnlk. destruct (present_inv w p _ Hl) as (Hok & Hac & Hnd & Hdir). unfold ok_step.
    pose proof (not_link_at_present0 _ _ _ Hnd (not_is_link_node n Hnlk)) as Hnl'.
    rewrite (run0_chown tag w Hq Hok p Hac Hdir u g Hnl'). norm_keys. rewrite Hnd. rewrite fin_ok.
    eexists. split; [reflexivity |].
    apply (step_update w p (w_st w) n _ _ _ _ Hok Hac eq_refl Hnd).
    - rewrite is_dir_chown_node. tauto.
    - apply perm12_chown_node. exact (world_okb_perm12 s_root _ _ _ Hok Hnd).
  Qed.

  Lemma r_law_lchown w p u g n : quiet w -> swf (V w) -> snolinkpar (V w) p -> V w !! p = Some n ->
    ok_step V V' (a_lchown A p u g) w tt (<[ p := chown_node n u g ]> (V w)).
  Proof.
    intros Hq Hwf Hnl Hl. destruct (present_inv w p _ Hl) as (Hok & Hac & Hnd & Hdir). unfold ok_step.
    rewrite (run0_lchown tag w Hq Hok p Hac Hdir u g). norm_keys. rewrite Hnd. rewrite fin_ok.
    eexists. split; [reflexivity |].
    apply (step_update w p (w_st w) n _ _ _ _ Hok Hac eq_refl Hnd).
    - rewrite is_dir_chown_node. tauto.
    - apply perm12_chown_node. exact (world_okb_perm12 s_root _ _ _ Hok Hnd).
  Qed.

  Lemma r_law_symlink w t p : quiet w -> swf (V w) -> sdirect (V w) p -> V w !! p = None ->
    t <> [] -> acc_r t p ->
    exists m' s', ok_step V V' (a_symlink A t p) w tt s' /\ s' !! p = Some (Link m' (tn_0 t)) /\
                  m_perm m' = 511%N /\ store_eqv_except [p] s' (V w) /\ swf s'.
  Proof.
    intros Hq Hwf Hsd Hl Ht _. pose proof (swf_V0_rok w Hwf) as Hok.
    destruct (sdirect_V0 w p Hok Hsd) as [Hac Hdir]. pose proof (absent_inv w p Hok Hac Hl) as Hnone.
    unfold ok_step. rewrite (run0_symlink tag w Hq Hok p Hac Hdir t Ht). norm_keys. rewrite Hnone. rewrite fin_ok.
    match goal with |- context [add_entry _ _ _ ?f] => set (mk := f) end.
    destruct (step_add w p mk (PM MSymlink) t None Hok Hac Hdir Hnone) as (Hok' & Hp & Heqv & Hswf).
    { intros t0 g. unfold mk. apply perm12_newlink. }
    eexists. eexists. split; [| split; [exact Hp | split; [reflexivity | split; [exact Heqv | exact Hswf]]]].
    eexists. split; [reflexivity |]. split; [reflexivity | apply sr_after].
  Qed.

  Lemma r_law_openfile_new w p perm : quiet w -> swf (V w) -> sdirect (V w) p -> V w !! p = None ->
    exists h m' s', ok_step V V' (a_openfile A p 578 perm) w h s' /\ wh h p 0 /\ s' !! p = Some (File m' []) /\
                    store_eqv_except [p] s' (V w) /\ swf s'.
  Proof.
    intros Hq Hwf Hsd Hl. pose proof (swf_V0_rok w Hwf) as Hok.
    destruct (sdirect_V0 w p Hok Hsd) as [Hac Hdir]. pose proof (absent_inv w p Hok Hac Hl) as Hnone.
    unfold ok_step.
    rewrite (run0_openfile_create tag w Hq Hok p Hac Hdir perm (not_link_at_absent0 _ _ Hnone)).
    norm_keys. rewrite Hnone. rewrite finmap_ok.
    match goal with |- context [add_entry _ _ _ ?f] => set (mk := f) end.
    destruct (step_add w p mk (PM MOpenFile) [] None Hok Hac Hdir Hnone) as (Hok' & Hp & Heqv & Hswf).
    { intros t g. unfold mk. apply perm12_newfile. }
    eexists. eexists. eexists. split; [| split; [apply the_handle0_wh | split; [exact Hp | split; [exact Heqv | exact Hswf]]]].
    eexists. split; [reflexivity |]. split; [reflexivity | apply sr_after].
  Qed.

  Lemma r_law_openfile_trunc w p perm m c : quiet w -> swf (V w) -> snolinkpar (V w) p -> V w !! p = Some (File m c) ->
    exists h t', ok_step V V' (a_openfile A p 578 perm) w h (<[ p := File (set_mt t' m) [] ]> (V w)) /\ wh h p 0.
  Proof.
    intros Hq Hwf Hnl Hl. destruct (present_inv w p _ Hl) as (Hok & Hac & Hnd & Hdir). unfold ok_step.
    assert (Hnlk : not_link_at (st_fs (w_st w)) (comps p)).
    { apply (not_link_at_present0 _ _ _ Hnd). intros m' t' E. discriminate E. }
    rewrite (run0_openfile_create tag w Hq Hok p Hac Hdir perm Hnlk). norm_keys. rewrite Hnd. rewrite finmap_ok.
    eexists. exists (Now (st_clock (w_st w))). split; [| apply the_handle0_wh].
    eexists. split; [reflexivity |].
    apply (step_update w p (mkFstate (st_fs (w_st w)) (N.succ (st_clock (w_st w)))) (File m c)
             (File (mkMeta (m_perm m) (m_uid m) (m_gid m) (Now (st_clock (w_st w)))) [])
             (PM MOpenFile) [] None Hok Hac eq_refl Hnd).
    - intro H. discriminate H.
    - exact (world_okb_perm12 s_root _ _ _ Hok Hnd).
  Qed.

  Lemma r_law_hwrite w h p pos m c data : quiet w -> wh h p pos -> V w !! p = Some (File m c) -> length c = pos ->
    exists h' t', ok_step V V' (hwrite h data) w h' (<[ p := File (set_mt t' m) (c ++ data) ]> (V w)) /\
                  wh h' p (pos + length data).
  Proof.
    intros Hq Hwh Hl Hlen. destruct (present_inv w p _ Hl) as (Hok & Hac & Hnd & Hdir). unfold ok_step.
    rewrite (hwrite_quiet tag s_root h p pos w m c data Hq Hwh Hnd), (write_at_end c data pos Hlen).
    eexists. exists (Now (st_clock (w_st w))). split; [| apply (wh_p_seek tag s_root h p pos _ Hwh)].
    eexists. split; [reflexivity |].
    apply (step_update w p (mkFstate (st_fs (w_st w)) (N.succ (st_clock (w_st w)))) (File m c)
             (File (mkMeta (m_perm m) (m_uid m) (m_gid m) (Now (st_clock (w_st w)))) (c ++ data))
             PWrite [] None Hok Hac eq_refl Hnd).
    - intro H. discriminate H.
    - exact (world_okb_perm12 s_root _ _ _ Hok Hnd).
  Qed.

  (* ---------------------------------------------------------------- *)
  (** ** Remove, RemoveAll *)

  Lemma no_children_V0 w p : rok (st_fs (w_st w)) -> abs_cleaned p ->
    (no_children (V w) p <-> has_children (st_fs (w_st w)) (comps p) = false).
  Proof. intros Hok Hac. rewrite (V0_ok w Hok). apply no_children_rview; [apply rok_keys_good; exact Hok | exact Hac]. Qed.

  Lemma r_law_remove_leaf w p n : quiet w -> swf (V w) -> snolinkpar (V w) p -> V w !! p = Some n ->
    no_children (V w) p -> p <> s_root ->
    exists s', ok_step V V' (a_remove A p) w tt s' /\ s' !! p = None /\ store_eqv_except [p] s' (V w) /\ swf s'.
  Proof.
    intros Hq Hwf Hnl Hl Hnc Hne. destruct (present_inv w p _ Hl) as (Hok & Hac & Hnd & Hdir). unfold ok_step.
    apply (no_children_V0 w p Hok Hac) in Hnc. pose proof (comps_ne_root p Hac Hne) as Hc.
    rewrite (run0_remove tag w Hq Hok p Hac Hdir Hc). norm_keys. rewrite Hnd.
    assert (E : (match n with
                 | Dir _ => if has_children (st_fs (w_st w)) (comps p) then (Err ENOTEMPTY, w_st w)
                            else (Ok tt, remove_entry (w_st w) (comps p))
                 | _ => (Ok tt, remove_entry (w_st w) (comps p))
                 end) = (Ok tt, remove_entry (w_st w) (comps p))).
    { destruct n; try rewrite Hnc; reflexivity. }
    rewrite E, fin_ok.
    destruct (step_remove w p (remove_entry (w_st w) (comps p)) (PM MRemove) [] None Hok Hac Hne Hnc eq_refl)
      as (Hok' & Hp & Heqv & Hswf).
    eexists. split; [| split; [exact Hp | split; [exact Heqv | exact Hswf]]].
    eexists. split; [reflexivity |]. split; [reflexivity | apply sr_after].
  Qed.

  Lemma r_law_removeall_leaf w p n : quiet w -> swf (V w) -> snolinkpar (V w) p -> V w !! p = Some n ->
    node_kind n <> KDir -> p <> s_root ->
    exists s', ok_step V V' (a_removeall A p) w tt s' /\ s' !! p = None /\ store_eqv_except [p] s' (V w) /\ swf s'.
  Proof.
    intros Hq Hwf Hnl Hl Hk Hne. destruct (present_inv w p _ Hl) as (Hok & Hac & Hnd & Hdir). unfold ok_step.
    pose proof (comps_ne_root p Hac Hne) as Hc.
    assert (Hnd' : is_dir n = false).
    { destruct n; [exfalso; apply Hk; reflexivity | reflexivity | reflexivity]. }
    pose proof (wf_nondir_no_children _ _ n (world_okb_wf _ _ Hok) Hnd Hnd') as Hnc.
    rewrite (run0_removeall tag w Hq Hok p Hac Hdir Hc). norm_keys. rewrite Hnd. rewrite fin_ok.
    set (s' := mkFstate _ _).
    assert (Es : st_fs s' = st_fs (remove_entry (w_st w) (comps p))).
    { unfold s'. cbn [st_fs]. rewrite remove_entry_fs.
      rewrite (delete_subtree_leaf _ _ (proj1 (has_children_false_iff _ _) Hnc)). reflexivity. }
    destruct (step_remove w p s' (PM MRemoveAll) [] None Hok Hac Hne Hnc Es) as (Hok' & Hp & Heqv & Hswf).
    eexists. split; [| split; [exact Hp | split; [exact Heqv | exact Hswf]]].
    eexists. split; [reflexivity |]. split; [reflexivity | apply sr_after].
  Qed.

  Lemma r_law_remove_none w p : quiet w -> swf (V w) -> snolinkpar (V w) p -> V w !! p = None ->
    err_step V V' (a_remove A p) w not_found.
  Proof.
    intros Hq Hwf Hnl Hl. unfold err_step.
    destruct (snl_setup0 w p Hwf Hnl) as (Hok & Hac & [Hdir | [Hun Hnone]]).
    - pose proof (absent_inv w p Hok Hac Hl) as Hnone.
      rewrite (run0_remove tag w Hq Hok p Hac Hdir (none_comps_ne _ _ Hok Hnone)). norm_keys. rewrite Hnone.
      rewrite fin_err. exists ENOENT. eexists. split; [reflexivity |]. split; [reflexivity | apply step_same].
    - destruct (run0_remove_un tag w Hq Hok p Hac Hun) as [e [E Hnf]]. rewrite E.
      exists e. eexists. split; [reflexivity |]. split; [exact Hnf | apply step_same].
  Qed.

  (** Remove of the root: EBUSY *)
  Lemma run0_remove_root w : quiet w -> rok (st_fs (w_st w)) ->
    a_remove A s_root w = (MErr EBUSY, after tag (PM MRemove) s_root [] (Some EBUSY) w (w_st w)).
  Proof.
    intros Hq Hok. cbn [spy osfs a_remove]. rewrite (spied_fs_upd_fin _ tag (PM MRemove) s_root [] _ w Hq).
    rewrite (fs_remove_direct (w_st w) s_root (direct_root _ Hok)). rewrite comps_root.
    destruct (root_dir _ Hok) as [m Hm]. norm_keys. rewrite Hm. destruct (has_children (st_fs (w_st w)) []); reflexivity.
  Qed.

  Lemma r_law_remove_nonempty w p n : quiet w -> swf (V w) -> snolinkpar (V w) p -> V w !! p = Some n ->
    ~ no_children (V w) p -> err_step V V' (a_remove A p) w any_err.
  Proof.
    intros Hq Hwf Hnl Hl Hnc. destruct (present_inv w p _ Hl) as (Hok & Hac & Hnd & Hdir). unfold err_step.
    destruct (str_eq_dec p s_root) as [-> | Hne].
    { rewrite (run0_remove_root w Hq Hok). exists EBUSY. eexists. split; [reflexivity |]. split; [exact I | apply step_same]. }
    assert (Hch : has_children (st_fs (w_st w)) (comps p) = true).
    { destruct (has_children (st_fs (w_st w)) (comps p)) eqn:E; [reflexivity |].
      exfalso. apply Hnc. apply (no_children_V0 w p Hok Hac). exact E. }
    assert (Hisd : exists m, n = Dir m).
    { apply has_children_true_iff in Hch. destruct Hch as (r & n' & Hr & Hn').
      destruct (wf_prefix_dir _ _ r n' (world_okb_wf _ _ Hok) Hr Hn') as [m Hm].
      exists m. norm_keys. congruence. }
    destruct Hisd as [m ->].
    rewrite (run0_remove tag w Hq Hok p Hac Hdir (comps_ne_root p Hac Hne)). norm_keys. rewrite Hnd, Hch. rewrite fin_err.
    exists ENOTEMPTY. eexists. split; [reflexivity |]. split; [exact I | apply step_same].
  Qed.
  (* ---------------------------------------------------------------- *)
  (** ** [framed], on the pair a call returns *)

  Definition framed_res0 {X} (rw : mres X * world) (w : world) (touched : list str) : Prop :=
    exists r w', rw = (r, w') /\ r <> MHalt /\ same_rest V' w w' /\ swf (V w') /\
                 store_eqv_except touched (V w') (V w).

  Lemma framed_res0_same X (r : mres X) (t : fstag) m p p2 e w touched :
    r <> MHalt -> swf (V w) -> framed_res0 (r, after t m p p2 e w (w_st w)) w touched.
  Proof.
    intros Hr Hwf. exists r. eexists. split; [reflexivity |]. split; [exact Hr |].
    split; [apply sr_after |]. split; [exact Hwf | apply store_eqv_except_refl].
  Qed.

  Lemma framed_res0_gen X (r : mres X) w w' touched :
    r <> MHalt -> rok (st_fs (w_st w)) -> rok (st_fs (w_st w')) ->
    store_eqv_except touched (rview (st_fs (w_st w'))) (rview (st_fs (w_st w))) ->
    w_infos w' = w_infos w -> w_crash w' = w_crash w -> w_faults w' = w_faults w ->
    framed_res0 (r, w') w touched.
  Proof.
    intros Hr Hok Hok' Heq E1 E2 E3. exists r, w'. split; [reflexivity |]. split; [exact Hr |].
    split; [apply sr_any; assumption |]. rewrite (V0_ok w' Hok'), (V0_ok w Hok).
    split; [apply swf_rview; exact Hok' | exact Heq].
  Qed.

  Lemma framed_res0_after X (r : mres X) (t : fstag) m p p2 e w s' touched :
    r <> MHalt -> rok (st_fs (w_st w)) -> rok (st_fs s') ->
    store_eqv_except touched (rview (st_fs s')) (rview (st_fs (w_st w))) ->
    framed_res0 (r, after t m p p2 e w s') w touched.
  Proof. intros Hr Hok Hok' Heq. apply framed_res0_gen; try assumption; reflexivity. Qed.

  Lemma framed_res0_pure X (r : mres X) w w' touched :
    r <> MHalt -> swf (V w) -> pure_step w w' -> framed_res0 (r, w') w touched.
  Proof.
    intros Hr Hwf (E & E1 & E2 & E3). exists r, w'. split; [reflexivity |]. split; [exact Hr |].
    split; [apply sr_any; assumption |]. rewrite (V0_st w w' E).
    split; [exact Hwf | apply store_eqv_except_refl].
  Qed.

  (** the three shapes of a change at the view path [p] *)
  Lemma shape0_update_gen X (r : mres X) w w' s1 p nd n' :
    r <> MHalt -> rok (st_fs (w_st w)) -> abs_cleaned p -> st_fs s1 = st_fs (w_st w) ->
    st_fs (w_st w) !! comps p = Some nd -> (is_dir nd = true -> is_dir n' = true) -> perm12 n' ->
    w_st w' = update_node s1 (comps p) n' ->
    w_infos w' = w_infos w -> w_crash w' = w_crash w -> w_faults w' = w_faults w ->
    framed_res0 (r, w') w [p].
  Proof.
    intros Hr Hok Hac Es Hnd Hdir Hperm Ew E1 E2 E3.
    assert (Hok1 : rok (st_fs s1)) by (rewrite Es; exact Hok).
    assert (Hnd1 : st_fs s1 !! comps p = Some nd) by (rewrite Es; exact Hnd).
    assert (Hok' : rok (st_fs (update_node s1 (comps p) n'))).
    { exact (world_okb_update_node s_root s1 _ nd n' Hok1 Hnd1 Hdir Hperm). }
    apply framed_res0_gen; try assumption; rewrite Ew; try assumption.
    rewrite <- Es. apply rview_update_node_eqv; try assumption; apply rok_keys_good; assumption.
  Qed.

  Lemma shape0_update X (r : mres X) (t : fstag) m q q2 e w s1 p nd n' :
    r <> MHalt -> rok (st_fs (w_st w)) -> abs_cleaned p -> st_fs s1 = st_fs (w_st w) ->
    st_fs (w_st w) !! comps p = Some nd -> (is_dir nd = true -> is_dir n' = true) -> perm12 n' ->
    framed_res0 (r, after t m q q2 e w (update_node s1 (comps p) n')) w [p].
  Proof.
    intros Hr Hok Hac Es Hnd Hdir Hperm.
    apply (shape0_update_gen X r w _ s1 p nd n'); try assumption; reflexivity.
  Qed.

  Lemma shape0_add X (r : mres X) (t : fstag) m q q2 e w p mk :
    r <> MHalt -> rok (st_fs (w_st w)) -> abs_cleaned p -> direct (st_fs (w_st w)) p ->
    st_fs (w_st w) !! comps p = None -> (forall t0 g, perm12 (mk t0 g)) ->
    framed_res0 (r, after t m q q2 e w (add_entry (w_st w) (removelast (comps p)) (last (comps p) []) mk)) w [p].
  Proof.
    intros Hr Hok Hac Hdir Hnd Hperm.
    pose proof (none_comps_ne _ _ Hok Hnd) as Hc.
    assert (Hne : p <> s_root) by (intros ->; apply Hc; apply comps_root).
    pose proof (direct_parent_dir _ _ Hdir Hc) as Hpd.
    assert (Hok' : rok (st_fs (add_entry (w_st w) (removelast (comps p)) (last (comps p) []) mk))).
    { apply rok_add_entry; assumption. }
    apply framed_res0_after; try assumption.
    apply rview_add_entry_eqv; try assumption; apply rok_keys_good; assumption.
  Qed.

  Lemma shape0_remove X (r : mres X) (t : fstag) m q q2 e w p :
    r <> MHalt -> rok (st_fs (w_st w)) -> abs_cleaned p -> p <> s_root ->
    has_children (st_fs (w_st w)) (comps p) = false ->
    framed_res0 (r, after t m q q2 e w (remove_entry (w_st w) (comps p))) w [p].
  Proof.
    intros Hr Hok Hac Hne Hnc.
    assert (Hok' : rok (st_fs (remove_entry (w_st w) (comps p)))) by (apply rok_remove_entry; assumption).
    apply framed_res0_after; try assumption.
    apply rview_remove_entry_eqv; try assumption; apply rok_keys_good; assumption.
  Qed.

  Ltac nh := first [ discriminate | apply mres_of_not_halt | apply mres_map_not_halt; apply mres_of_not_halt ].
  Ltac same_tac Hwf := unfold fin, finmap; cbn [fst snd]; apply framed_res0_same; [ nh | exact Hwf ].

  (* ---------------------------------------------------------------- *)
  (** ** the user's own mutations of metadata *)

  Lemma r_law_user_chmod w p mode : quiet w -> swf (V w) -> snolinkpar (V w) p -> snotlink (V w) p ->
    framed V V' (a_chmod A p mode) w [p].
  Proof.
    intros Hq Hwf Hnl Hsl. destruct (snl_setup0 w p Hwf Hnl) as (Hok & Hac & [Hdir | [Hun Hnone]]).
    - apply (snotlink_V0 w p Hok Hac) in Hsl. change (framed_res0 (a_chmod A p mode w) w [p]).
      rewrite (run0_chmod tag w Hq Hok p Hac Hdir mode Hsl). dl0 p as [nd |] eqn:Hnd; [| same_tac Hwf].
      unfold fin; cbn [fst snd].
      apply (shape0_update _ _ _ _ _ _ _ w (w_st w) p nd); try assumption; try reflexivity.
      + discriminate.
      + destruct nd; simpl; intro H; try discriminate H; reflexivity.
      + apply perm12_set_perm.
    - change (framed_res0 (a_chmod A p mode w) w [p]).
      destruct (run0_chmod_un tag w Hq Hok p Hac Hun mode) as [e E]. rewrite E. same_tac Hwf.
  Qed.

  Lemma r_law_user_chown w p u g : quiet w -> swf (V w) -> snolinkpar (V w) p -> snotlink (V w) p ->
    framed V V' (a_chown A p u g) w [p].
  Proof.
    intros Hq Hwf Hnl Hsl. destruct (snl_setup0 w p Hwf Hnl) as (Hok & Hac & [Hdir | [Hun Hnone]]).
    - apply (snotlink_V0 w p Hok Hac) in Hsl. change (framed_res0 (a_chown A p u g w) w [p]).
      rewrite (run0_chown tag w Hq Hok p Hac Hdir u g Hsl). dl0 p as [nd |] eqn:Hnd; [| same_tac Hwf].
      unfold fin; cbn [fst snd].
      apply (shape0_update _ _ _ _ _ _ _ w (w_st w) p nd); try assumption; try reflexivity.
      + discriminate.
      + rewrite is_dir_chown_node. tauto.
      + apply perm12_chown_node. exact (world_okb_perm12 s_root _ _ _ Hok Hnd).
    - change (framed_res0 (a_chown A p u g w) w [p]).
      destruct (run0_chown_un tag w Hq Hok p Hac Hun u g) as [e E]. rewrite E. same_tac Hwf.
  Qed.

  Lemma r_law_user_lchown w p u g : quiet w -> swf (V w) -> snolinkpar (V w) p ->
    framed V V' (a_lchown A p u g) w [p].
  Proof.
    intros Hq Hwf Hnl. destruct (snl_setup0 w p Hwf Hnl) as (Hok & Hac & [Hdir | [Hun Hnone]]).
    - change (framed_res0 (a_lchown A p u g w) w [p]).
      rewrite (run0_lchown tag w Hq Hok p Hac Hdir u g). dl0 p as [nd |] eqn:Hnd; [| same_tac Hwf].
      unfold fin; cbn [fst snd].
      apply (shape0_update _ _ _ _ _ _ _ w (w_st w) p nd); try assumption; try reflexivity.
      + discriminate.
      + rewrite is_dir_chown_node. tauto.
      + apply perm12_chown_node. exact (world_okb_perm12 s_root _ _ _ Hok Hnd).
    - change (framed_res0 (a_lchown A p u g w) w [p]).
      destruct (run0_lchown_un tag w Hq Hok p Hac Hun u g) as [e E]. rewrite E. same_tac Hwf.
  Qed.

  Lemma r_law_user_chtimes w p t : quiet w -> swf (V w) -> snolinkpar (V w) p -> snotlink (V w) p ->
    framed V V' (a_chtimes A p t) w [p].
  Proof.
    intros Hq Hwf Hnl Hsl. destruct (snl_setup0 w p Hwf Hnl) as (Hok & Hac & [Hdir | [Hun Hnone]]).
    - apply (snotlink_V0 w p Hok Hac) in Hsl. change (framed_res0 (a_chtimes A p t w) w [p]).
      rewrite (run0_chtimes tag w Hq Hok p Hac Hdir t Hsl). dl0 p as [nd |] eqn:Hnd; [| same_tac Hwf].
      unfold fin; cbn [fst snd].
      apply (shape0_update _ _ _ _ _ _ _ w (w_st w) p nd); try assumption; try reflexivity.
      + discriminate.
      + destruct nd; simpl; intro H; try discriminate H; reflexivity.
      + apply perm12_set_mt. exact (world_okb_perm12 s_root _ _ _ Hok Hnd).
    - change (framed_res0 (a_chtimes A p t w) w [p]).
      destruct (run0_chtimes_un tag w Hq Hok p Hac Hun t) as [e E]. rewrite E. same_tac Hwf.
  Qed.

  (* ---------------------------------------------------------------- *)
  (** ** Symlink (any target, also the empty one), Mkdir *)

  Lemma run0_symlink_nil w p : quiet w ->
    a_symlink A [] p w = (MErr ENOENT, after tag (PM MSymlink) p [] (Some ENOENT) w (w_st w)).
  Proof. intros Hq. cbn [spy osfs a_symlink]. rewrite (spied_fs_upd_fin _ tag (PM MSymlink) p [] _ w Hq). reflexivity. Qed.

  Lemma r_law_user_symlink w t p : quiet w -> swf (V w) -> snolinkpar (V w) p ->
    framed V V' (a_symlink A t p) w [p].
  Proof.
    intros Hq Hwf Hnl. destruct (snl_setup0 w p Hwf Hnl) as (Hok & Hac & Hcases).
    change (framed_res0 (a_symlink A t p w) w [p]).
    destruct t as [| x t'].
    { rewrite (run0_symlink_nil w p Hq). same_tac Hwf. }
    destruct Hcases as [Hdir | [Hun Hnone]].
    - rewrite (run0_symlink tag w Hq Hok p Hac Hdir (x :: t')) by discriminate.
      dl0 p as [nd |] eqn:Hnd; [same_tac Hwf |].
      unfold fin; cbn [fst snd]. apply shape0_add; try assumption; [discriminate |].
      intros t0 g. apply perm12_newlink.
    - destruct (run0_symlink_un tag w Hq Hok p Hac Hun (x :: t')) as [e E]. rewrite E. same_tac Hwf.
  Qed.

  Lemma r_law_user_mkdir w p perm : quiet w -> swf (V w) -> snolinkpar (V w) p ->
    framed V V' (a_mkdir A p perm) w [p].
  Proof.
    intros Hq Hwf Hnl. destruct (snl_setup0 w p Hwf Hnl) as (Hok & Hac & [Hdir | [Hun Hnone]]).
    - change (framed_res0 (a_mkdir A p perm w) w [p]).
      rewrite (run0_mkdir tag w Hq Hok p Hac Hdir perm). dl0 p as [nd |] eqn:Hnd; [same_tac Hwf |].
      unfold fin; cbn [fst snd]. apply shape0_add; try assumption; [discriminate |].
      intros t0 g. apply perm12_mkdir.
    - change (framed_res0 (a_mkdir A p perm w) w [p]).
      destruct (run0_mkdir_un tag w Hq Hok p Hac Hun perm) as [e E]. rewrite E. same_tac Hwf.
  Qed.

  (* ---------------------------------------------------------------- *)
  (** ** Create, OpenFile *)

  Lemma r_law_user_create w p : quiet w -> swf (V w) -> snolinkpar (V w) p -> snotlink (V w) p ->
    framed V V' (a_create A p) w [p].
  Proof.
    intros Hq Hwf Hnl Hsl. destruct (snl_setup0 w p Hwf Hnl) as (Hok & Hac & [Hdir | [Hun Hnone]]).
    - apply (snotlink_V0 w p Hok Hac) in Hsl. change (framed_res0 (a_create A p w) w [p]).
      rewrite (run0_create tag w Hq Hok p Hac Hdir Hsl).
      dl0 p as [[m | m c | m t] |] eqn:Hnd; try (same_tac Hwf).
      + unfold finmap; cbn [fst snd].
        apply (shape0_update _ _ _ _ _ _ _ w _ p (File m c)); try assumption; try reflexivity.
        * discriminate.
        * intro H; discriminate H.
        * exact (world_okb_perm12 s_root _ _ _ Hok Hnd).
      + unfold finmap; cbn [fst snd]. apply shape0_add; try assumption; [discriminate |].
        intros t0 g. apply perm12_newfile.
    - change (framed_res0 (a_create A p w) w [p]).
      destruct (run0_create_un tag w Hq Hok p Hac Hun) as [e E]. rewrite E. same_tac Hwf.
  Qed.

  Lemma r_law_user_openfile w p fl perm : quiet w -> swf (V w) -> snolinkpar (V w) p -> snotlink (V w) p ->
    framed V V' (a_openfile A p fl perm) w [p].
  Proof.
    intros Hq Hwf Hnl Hsl. destruct (snl_setup0 w p Hwf Hnl) as (Hok & Hac & [Hdir | [Hun Hnone]]).
    - apply (snotlink_V0 w p Hok Hac) in Hsl. change (framed_res0 (a_openfile A p fl perm w) w [p]).
      rewrite (run0_openfile tag w Hq Hok p Hac Hdir fl perm (or_intror Hsl)).
      dl0 p as [nd |] eqn:Hnd.
      + destruct (o_creat fl && o_excl fl); [same_tac Hwf |].
        destruct nd as [m | m c | m t].
        * destruct (o_wronly fl || o_rdwr fl || o_creat fl || o_trunc fl); same_tac Hwf.
        * destruct (o_trunc fl); [| same_tac Hwf].
          unfold finmap; cbn [fst snd].
          apply (shape0_update _ _ _ _ _ _ _ w _ p (File m c)); try assumption; try reflexivity.
          -- discriminate.
          -- intro H; discriminate H.
          -- exact (world_okb_perm12 s_root _ _ _ Hok Hnd).
        * same_tac Hwf.
      + destruct (o_creat fl); [| same_tac Hwf].
        unfold finmap; cbn [fst snd]. apply shape0_add; try assumption; [discriminate |].
        intros t0 g. apply perm12_newfile.
    - change (framed_res0 (a_openfile A p fl perm w) w [p]).
      destruct (run0_openfile_un tag w Hq Hok p Hac Hun fl perm) as [e [E _]]. rewrite E. same_tac Hwf.
  Qed.

  (* ---------------------------------------------------------------- *)
  (** ** Remove: the frame *)
  Lemma r_law_user_remove w p : quiet w -> swf (V w) -> snolinkpar (V w) p -> p <> s_root ->
    framed V V' (a_remove A p) w [p].
  Proof.
    intros Hq Hwf Hnl Hne. destruct (snl_setup0 w p Hwf Hnl) as (Hok & Hac & [Hdir | [Hun Hnone]]).
    - change (framed_res0 (a_remove A p w) w [p]).
      rewrite (run0_remove tag w Hq Hok p Hac Hdir (comps_ne_root p Hac Hne)).
      dl0 p as [[m | m c | m t] |] eqn:Hnd; try (same_tac Hwf).
      + destruct (has_children (st_fs (w_st w)) (comps p)) eqn:Hch; [same_tac Hwf |].
        unfold fin; cbn [fst snd]. apply shape0_remove; try assumption. discriminate.
      + unfold fin; cbn [fst snd]. apply shape0_remove; try assumption; [discriminate |].
        exact (wf_nondir_no_children _ _ _ (world_okb_wf _ _ Hok) Hnd eq_refl).
      + unfold fin; cbn [fst snd]. apply shape0_remove; try assumption; [discriminate |].
        exact (wf_nondir_no_children _ _ _ (world_okb_wf _ _ Hok) Hnd eq_refl).
    - change (framed_res0 (a_remove A p w) w [p]).
      destruct (run0_remove_un tag w Hq Hok p Hac Hun) as [e [E _]]. rewrite E. same_tac Hwf.
  Qed.
  (* ---------------------------------------------------------------- *)
  (** ** Rename of an entry without children *)
  Lemma r_law_user_rename w po pn : quiet w -> swf (V w) -> snolinkpar (V w) po -> snolinkpar (V w) pn ->
    no_children (V w) po -> framed V V' (a_rename A po pn) w [po; pn].
  Proof.
    intros Hq Hwf Hnlo Hnln Hnc.
    destruct (snl_setup0 w po Hwf Hnlo) as (Hok & Ho & Hco).
    destruct (snl_setup0 w pn Hwf Hnln) as (_ & Hn & Hcn).
    pose proof (world_okb_wf _ _ Hok) as Hwff.
    apply (no_children_V0 w po Hok Ho) in Hnc.
    change (framed_res0 (a_rename A po pn w) w [po; pn]).
    destruct Hco as [Hdo | [Huo _]].
    2:{ destruct (run0_rename_un tag w Hq Hok po pn Ho Hn (or_introl Huo)) as [e E]. rewrite E. same_tac Hwf. }
    destruct Hcn as [Hdn | [Hun _]].
    2:{ destruct (run0_rename_un tag w Hq Hok po pn Ho Hn (or_intror Hun)) as [e E]. rewrite E. same_tac Hwf. }
    destruct (list_eq_dec str_eq_dec (comps po) []) as [Eo | Eo].
    { destruct (run0_rename_root tag w Hq Hok po pn Ho Hn Hdo (or_introl Eo)) as [e E]. rewrite E. same_tac Hwf. }
    destruct (list_eq_dec str_eq_dec (comps pn) []) as [En | En].
    { destruct (run0_rename_root tag w Hq Hok po pn Ho Hn Hdo (or_intror En)) as [e E]. rewrite E. same_tac Hwf. }
    rewrite (run0_rename_leaf tag w Hq Hok po pn Ho Hn Hdo Hdn Eo En Hnc).
    dl0 po as [no |] eqn:Eno; [| same_tac Hwf].
    assert (Hmoved : key_prefixb (comps po) (comps pn) = false -> po <> pn ->
              (st_fs (w_st w) !! comps pn = None \/
               exists nn, st_fs (w_st w) !! comps pn = Some nn /\ is_dir nn = false) ->
              framed_res0 (MOk tt, after tag (PM MRename) po pn None w
                                     (moved_leaf (w_st w) (comps po) (comps pn) no)) w [po; pn]).
    { intros Hpre Hne Hkn.
      pose proof (direct_parent_dir _ _ Hdn En) as Hpd.
      assert (Hok' : rok (st_fs (moved_leaf (w_st w) (comps po) (comps pn) no))).
      { apply world_okb_moved_leaf; try assumption.
        - intro E. apply Hne. exact (comps_inj_ac po pn Ho Hn E).
        - pose proof (good_key_comps pn (proj2 Hn)) as G. apply forallb_good_compb_spec in G.
          rewrite forallb_forall in G. apply G.
          rewrite <- (comps_split pn En) at 2. apply in_or_app. right. left. reflexivity. }
      apply framed_res0_after; try assumption; [discriminate |].
      apply rview_eqv_except; try (apply rok_keys_good; assumption).
      - constructor; [exact Ho | constructor; [exact Hn | constructor]].
      - intros k Hk. apply moved_leaf_onode_eqv; apply Hk; [left | right; left]; reflexivity. }
    dl0 pn as [nn |] eqn:Enn.
    - destruct (is_dir nn) eqn:Edn; [same_tac Hwf |].
      destruct (str_eqb po pn) eqn:Eeq; [same_tac Hwf |].
      destruct (is_dir no) eqn:Edo.
      + destruct (key_prefixb (comps po) (comps pn)); same_tac Hwf.
      + unfold fin; cbn [fst snd mres_of err_of]. apply str_eqb_neq in Eeq.
        apply Hmoved; [| exact Eeq | right; exists nn; split; [reflexivity | exact Edn]].
        apply key_prefixb_false_iff. intros [r Hr].
        destruct (list_eq_dec str_eq_dec r []) as [E | E].
        * subst r. rewrite app_nil_r in Hr. apply Eeq. symmetry. exact (comps_inj_ac pn po Hn Ho Hr).
        * pose proof (wf_nondir_no_children _ _ no Hwff Eno Edo) as Hn0.
          pose proof (proj1 (has_children_false_iff _ _) Hn0 r E) as Hn1. norm_keys. rewrite <- Hr in Hn1. congruence.
    - destruct (is_dir no && key_prefixb (comps po) (comps pn)) eqn:Eb; [same_tac Hwf |].
      unfold fin; cbn [fst snd mres_of err_of]. apply Hmoved; [| | left; reflexivity].
      + apply key_prefixb_false_iff. intros [r Hr].
        destruct (list_eq_dec str_eq_dec r []) as [E | E].
        * subst r. rewrite app_nil_r in Hr. norm_keys. rewrite Hr in Enn. congruence.
        * assert (Hdir : is_dir_at (st_fs (w_st w)) (comps po)).
          { exact (direct_prefix_dir _ pn (comps po) r Hdn E Hr). }
          destruct Hdir as [m Hm]. norm_keys. rewrite Hm in Eno. injection Eno as Eno. subst no.
          assert (Hk : key_prefixb (comps po) (comps pn) = true) by (apply key_prefixb_iff; exists r; exact Hr).
          rewrite Hk in Eb. discriminate Eb.
      + intro E. subst pn. norm_keys. congruence.
  Qed.

  (* ---------------------------------------------------------------- *)
  (** ** [write_close] and the handles the user obtains *)
  Lemma write_close_framed0 h p data w :
    quiet w -> swf (V w) -> abs_cleaned p -> fh_spy h = Some (tag, p) -> h_key (fh h) = comps p ->
    framed V V' (write_close h data) w [p].
  Proof.
    intros Hq Hwf Hac Hs Hk. pose proof (swf_V0_rok w Hwf) as Hok.
    change (framed_res0 (write_close h data w) w [p]).
    destruct data as [| x d].
    - rewrite write_close_nil, (hclose_quiet tag h p w Hq Hs). apply framed_res0_same; [discriminate | exact Hwf].
    - rewrite write_close_cons.
      destruct (hwrite_quiet_gen tag h p w (x :: d) Hq Hs) as [[e E] | (m & c & c' & h' & Hl & _ & _ & E)]; rewrite E.
      + rewrite (hclose_quiet tag h p _ (proj2 (quiet_after _ _ _ _ _ _ _) Hq) Hs).
        apply framed_res0_pure; [discriminate | exact Hwf | repeat split].
      + rewrite (hclose_quiet tag h p _ (proj2 (quiet_after _ _ _ _ _ _ _) Hq) Hs).
        rewrite Hk in Hl.
        apply (shape0_update_gen _ _ w _ (mkFstate (st_fs (w_st w)) (N.succ (st_clock (w_st w)))) p (File m c)
                 (File (mkMeta (m_perm m) (m_uid m) (m_gid m) (Now (st_clock (w_st w)))) c'));
          try assumption; try reflexivity.
        * discriminate.
        * intro H; discriminate H.
        * exact (world_okb_perm12 s_root _ _ _ Hok Hl).
        * rewrite <- Hk. reflexivity.
  Qed.

  Lemma openfile_handle0 w p fl perm h w1 :
    quiet w -> swf (V w) -> snolinkpar (V w) p -> snotlink (V w) p ->
    a_openfile A p fl perm w = (MOk h, w1) -> fh_spy h = Some (tag, p) /\ h_key (fh h) = comps p.
  Proof.
    intros Hq Hwf Hnl Hsl Hrun. destruct (snl_setup0 w p Hwf Hnl) as (Hok & Hac & [Hdir | [Hun Hnone]]).
    - apply (snotlink_V0 w p Hok Hac) in Hsl.
      revert Hrun. rewrite (run0_openfile tag w Hq Hok p Hac Hdir fl perm (or_intror Hsl)). unfold finmap.
      dl0 p as [nd |].
      + destruct (o_creat fl && o_excl fl); [intro H; discriminate H |].
        destruct nd as [m | m c | m t].
        * destruct (o_wronly fl || o_rdwr fl || o_creat fl || o_trunc fl); intro H; [discriminate H |].
          cbn [fst snd mres_of mres_map] in H. injection H as H _. subst h. split; reflexivity.
        * destruct (o_trunc fl); intro H; cbn [fst snd mres_of mres_map] in H;
            injection H as H _; subst h; split; reflexivity.
        * intro H; discriminate H.
      + destruct (o_creat fl); intro H; [| discriminate H].
        cbn [fst snd mres_of mres_map] in H. injection H as H _. subst h. split; reflexivity.
    - destruct (run0_openfile_un tag w Hq Hok p Hac Hun fl perm) as [e [E _]]. rewrite E in Hrun. discriminate Hrun.
  Qed.

  Lemma create_handle0 w p h w1 :
    quiet w -> swf (V w) -> snolinkpar (V w) p -> snotlink (V w) p ->
    a_create A p w = (MOk h, w1) -> fh_spy h = Some (tag, p) /\ h_key (fh h) = comps p.
  Proof.
    intros Hq Hwf Hnl Hsl Hrun. destruct (snl_setup0 w p Hwf Hnl) as (Hok & Hac & [Hdir | [Hun Hnone]]).
    - apply (snotlink_V0 w p Hok Hac) in Hsl.
      revert Hrun. rewrite (run0_create tag w Hq Hok p Hac Hdir Hsl). unfold finmap.
      dl0 p as [[m | m c | m t] |]; intro H; try discriminate H;
        cbn [fst snd mres_of mres_map] in H; injection H as H _; subst h; split; reflexivity.
    - destruct (run0_create_un tag w Hq Hok p Hac Hun) as [e E]. rewrite E in Hrun. discriminate Hrun.
  Qed.

  Lemma r_law_user_handle w p r w1 : quiet w -> swf (V w) -> snolinkpar (V w) p -> snotlink (V w) p ->
    (exists fl perm, a_openfile A p fl perm w = (r, w1)) \/ a_create A p w = (r, w1) ->
    forall h data, r = MOk h -> quiet w1 -> swf (V w1) -> framed V V' (write_close h data) w1 [p].
  Proof.
    intros Hq Hwf Hnl Hsl Hopen h data Er Hq1 Hwf1. subst r.
    assert (Hh : fh_spy h = Some (tag, p) /\ h_key (fh h) = comps p).
    { destruct Hopen as [(fl & perm & Hrun) | Hrun].
      - exact (openfile_handle0 w p fl perm h w1 Hq Hwf Hnl Hsl Hrun).
      - exact (create_handle0 w p h w1 Hq Hwf Hnl Hsl Hrun). }
    destruct Hh as [Hs Hk]. exact (write_close_framed0 h p data w1 Hq1 Hwf1 (proj1 Hnl) Hs Hk).
  Qed.

  (* ---------------------------------------------------------------- *)
  (** ** Stat, Readlink, read-only OpenFile, read-only handles, listings *)
  Lemma r_law2_stat w p : quiet w -> swf (V w) -> snolinkpar (V w) p -> framed V V' (a_stat A p) w [].
  Proof.
    intros Hq Hwf Hnl. pose proof (swf_V0_rok w Hwf) as Hok.
    change (framed_res0 (a_stat A p w) w []). rewrite (run0_stat_gen tag w Hq Hok p (proj1 Hnl)). same_tac Hwf.
  Qed.

  Lemma r_law2_readlink w p : quiet w -> swf (V w) -> snolinkpar (V w) p -> framed V V' (a_readlink A p) w [].
  Proof.
    intros Hq Hwf Hnl. pose proof (swf_V0_rok w Hwf) as Hok.
    change (framed_res0 (a_readlink A p w) w []). rewrite (run0_readlink_gen tag w Hq Hok p (proj1 Hnl)). same_tac Hwf.
  Qed.

  Lemma run0_open_ro w p : quiet w ->
    a_openfile A p 0 0 w =
      (mres_map (the_handle0 tag p) (mres_of (fst (fs_open (w_st w) p 0 0))),
       after tag (PM MOpenFile) p [] (err_of (mres_of (fst (fs_open (w_st w) p 0 0)))) w (w_st w)).
  Proof.
    intros Hq. rewrite (A0_openfile_eq tag p 0 0 w).
    rewrite (spied_fs_upd_finmap _ _ _ tag (PM MOpenFile) p [] _ w Hq). unfold finmap.
    rewrite (proj1 (fs_open_ro (w_st w) p)). reflexivity.
  Qed.

  Lemma r_law2_open_ro w p : quiet w -> swf (V w) -> snolinkpar (V w) p -> framed V V' (a_openfile A p 0 0) w [].
  Proof.
    intros Hq Hwf Hnl. change (framed_res0 (a_openfile A p 0 0 w) w []).
    rewrite (run0_open_ro w p Hq). apply framed_res0_same; [nh | exact Hwf].
  Qed.

  Lemma r_law2_ro_handle w p h w1 : quiet w -> swf (V w) -> snolinkpar (V w) p ->
    a_openfile A p 0 0 w = (MOk h, w1) ->
    forall w2, quiet w2 -> swf (V w2) ->
      (forall acc, framed V V' (read_all tree_fuel h acc) w2 []) /\
      framed V V' (hreaddirnames h) w2 [] /\
      framed V V' (hclose h) w2 [] /\
      (forall d, framed V V' (write_close h d) w2 []).
  Proof.
    intros Hq Hwf Hnl Hrun w2 Hq2 Hwf2.
    rewrite (run0_open_ro w p Hq) in Hrun.
    destruct (fs_open_ro (w_st w) p) as [_ Hw].
    destruct (fst (fs_open (w_st w) p 0 0)) as [hh | e] eqn:Ef;
      cbn [mres_of mres_map] in Hrun; [| discriminate Hrun].
    injection Hrun as Eh _. subst h. specialize (Hw hh eq_refl).
    assert (Hs : fh_spy (the_handle0 tag p hh) = Some (tag, p)) by reflexivity.
    split; [| split; [| split]].
    - intros acc. destruct (read_all_pure tag tree_fuel _ p acc w2 Hq2 Hs) as (r & w' & E & Hnh & Hps).
      change (framed_res0 (read_all tree_fuel (the_handle0 tag p hh) acc w2) w2 []). rewrite E.
      apply framed_res0_pure; assumption.
    - change (framed_res0 (hreaddirnames (the_handle0 tag p hh) w2) w2 []).
      rewrite (hreaddirnames_quiet tag _ p w2 Hq2 Hs eq_refl). same_tac Hwf2.
    - change (framed_res0 (hclose (the_handle0 tag p hh) w2) w2 []).
      rewrite (hclose_quiet tag _ p w2 Hq2 Hs). apply framed_res0_same; [discriminate | exact Hwf2].
    - intros d. destruct (write_close_ro_pure tag _ p d w2 Hq2 Hs Hw) as (r & w' & E & Hnh & Hps).
      change (framed_res0 (write_close (the_handle0 tag p hh) d w2) w2 []). rewrite E.
      apply framed_res0_pure; assumption.
  Qed.

  Lemma r_law2_readdir w p m : quiet w -> swf (V w) -> snolinkpar (V w) p -> V w !! p = Some (Dir m) ->
    exists r w', read_dir_names A p w = (r, w') /\ r <> MHalt /\ V w' = V w /\ same_rest V' w w' /\
      forall names, r = MOk names ->
        Forall (fun nm => V w !! join2 p nm <> None /\ In p (ancestors (join2 p nm))) names.
  Proof.
    intros Hq Hwf Hnl Hl. destruct (present_inv w p _ Hl) as (Hok & Hac & Hnd & Hdir).
    assert (Hnlk : not_link_at (st_fs (w_st w)) (comps p)).
    { intros m' t' E. norm_keys. congruence. }
    pose proof (run0_open tag w Hq Hok p Hac Hdir Hnlk) as Hopen.
    revert Hopen. norm_keys. rewrite Hnd. rewrite finmap_ok. intros Hopen.
    unfold read_dir_names. unfold bind at 1. rewrite Hopen.
    match type of Hopen with _ = (MOk ?hh, ?ww) => set (h := hh); set (w1 := ww) end.
    assert (Hq1 : quiet w1) by (apply quiet_after; exact Hq).
    assert (Hs : fh_spy h = Some (tag, p)) by reflexivity.
    unfold bind at 1. unfold try_ at 1.
    rewrite (hreaddirnames_quiet tag h p w1 Hq1 Hs eq_refl).
    rewrite fs_readdirnames_eq. change (h_dir (fh h)) with true. cbv iota. rewrite fin_ok.
    unfold bind at 1. unfold try_ at 1.
    rewrite (hclose_quiet tag h p _ (proj2 (quiet_after _ _ _ _ _ _ _) Hq1) Hs).
    unfold ret. eexists. eexists. split; [reflexivity |]. split; [discriminate |].
    split; [reflexivity |]. split; [repeat split |].
    intros names E. injection E as E. subst names.
    apply List.Forall_forall. intros nm Hin.
    apply (Permutation_in nm (isort_perm str_ltb _)) in Hin.
    change (h_key (fh h)) with (comps p) in Hin. change (w_st w1) with (w_st w) in Hin.
    rewrite (V0_ok w Hok). exact (child_names_rview _ p nm Hok Hac Hin).
  Qed.
  (* ---------------------------------------------------------------- *)
  (** ** MkdirAll: creates the missing directories on the way to [p]; the
      state changes at the keys of [cands p] and of their parents only *)

  Lemma fp_add0 (ps : list str) (s : fstate) (p : str) mk :
    In p ps -> comps p <> [] ->
    fp s_root ps (add_entry s (removelast (comps p)) (last (comps p) []) mk) s.
  Proof.
    intros Hin Hc k Hk. apply add_entry_last_lookup_other.
    - exact Hc.
    - intros ->. apply (Hk p Hin). left. reflexivity.
    - intros ->. apply (Hk p Hin). right. reflexivity.
  Qed.

  Definition mkfp (s s' : fstate) (p : str) : Prop :=
    mk_inv s_root s s' (comps p) /\ fp s_root (cands p) s' s.

  Lemma mkfp_refl s p : rok (st_fs s) -> mkfp s s p.
  Proof. intros H. split; [apply mk_inv_refl; exact H | apply fp_refl]. Qed.

  Lemma fs_stat_root0 s : rok (st_fs s) -> exists fi, fs_stat s s_root = Ok fi.
  Proof.
    intros Hok. pose proof (world_okb_prefix_dir _ _ Hok) as Hpd.
    assert (Hpd' : is_dir_at (st_fs s) (comps s_root)) by exact Hpd.
    rewrite (fs_stat_direct s s_root (direct_root _ Hok) (is_dir_not_link _ _ Hpd')).
    destruct Hpd' as [m Hm]. norm_keys. rewrite Hm. eexists. reflexivity.
  Qed.

  (** Mkdir of [p] after the parents were made *)
  Lemma mkdir_tail0 perm s s1 p :
    abs_cleaned p -> comps p <> [] -> nolinkpar (st_fs s) p -> mkfp s s1 p ->
    exists r s',
      (let '(r2, s2) := fs_mkdir s1 p perm in
       match r2 with
       | Ok _ => (Ok tt, s2)
       | Err e2 =>
           match fs_lstat s2 p with
           | Ok fi => match fi_kind fi with KDir => (Ok tt, s2) | _ => (Err e2, s2) end
           | Err _ => (Err e2, s2)
           end
       end) = (r, s') /\ mkfp s s' p.
  Proof.
    intros Hac Hcp Hnl [Hinv1 Hfp1].
    pose proof Hinv1 as (Hok1 & Hso1 & Hk1).
    pose proof (mk_inv_nolinkpar s_root s s1 _ _ Hinv1 Hnl) as Hnl1.
    assert (Hne : p <> s_root) by (intros ->; apply Hcp; apply comps_root).
    assert (Hinp : In p (cands p)).
    { rewrite (cands_kprefixes p Hac). apply in_or_app. right. left. reflexivity. }
    destruct (direct_decidable (st_fs s1) p Hac) as [Hdir1 | Hnd1].
    - destruct (st_fs s1 !! comps p) as [n1 |] eqn:Hn1.
      + rewrite (fs_mkdir_direct_exists s1 p perm n1 Hdir1 Hn1). cbv beta iota.
        destruct (fs_lstat s1 p) as [fi | e2]; [destruct (fi_kind fi) |];
          eexists; eexists; (split; [reflexivity | split; assumption]).
      + rewrite (fs_mkdir_direct_missing s1 p perm Hdir1 Hcp Hn1). cbv beta iota.
        pose proof (direct_parent_dir _ _ Hdir1 Hcp) as Hpd.
        eexists. eexists. split; [reflexivity |].
        match goal with |- context [add_entry _ _ _ ?f] => set (mk := f) end.
        split; [split; [| split] |].
        * apply (rok_add_entry s1 p mk Hok1 Hac Hne Hpd Hn1). intros t g. unfold mk. apply perm12_mkdir.
        * intros k Hk. discriminate Hk.
        * intros k'. destruct (list_eq_dec str_eq_dec k' (comps p)) as [Ek | Ek].
          -- subst k'. right. split; [| split].
             ++ destruct (Hk1 (comps p)) as [H | (Hn & _)]; [| exact Hn].
                norm_keys. rewrite Hn1 in H. exact (onode_eqv_None_l _ H).
             ++ unfold is_dir_at. rewrite (add_entry_last_lookup_new s1 (comps p) mk Hcp).
                unfold mk. eexists. reflexivity.
             ++ exists []. rewrite app_nil_r. reflexivity.
          -- assert (Hadd : onode_eqv (st_fs (add_entry s1 (removelast (comps p)) (last (comps p) []) mk) !! k')
                                      (st_fs s1 !! k')).
             { apply add_entry_onode_eqv. rewrite (comps_split p Hcp). exact Ek. }
             destruct (Hk1 k') as [H | (Hn & Hdr & r & Er)].
             ++ left. eapply onode_eqv_trans; eassumption.
             ++ right. split; [exact Hn |]. split; [| exists r; exact Er].
                apply (onode_eqv_is_dir_at _ _ k' Hadd). exact Hdr.
        * eapply fp_trans; [| exact Hfp1]. apply fp_add0; assumption.
    - destruct (fs_mkdir_unresolvable s1 p Hac
                  (nolinkpar_unresolvable _ _ (world_okb_wf _ _ Hok1) Hnl1 Hnd1) perm) as [e2 [E2 _]].
      rewrite E2. cbv beta iota.
      destruct (fs_lstat s1 p) as [fi | e3]; [destruct (fi_kind fi) |];
        eexists; eexists; (split; [reflexivity | split; assumption]).
  Qed.

  Lemma mkfp_weaken s s1 p : abs_cleaned p -> comps p <> [] -> mkfp s s1 (vparent p) -> mkfp s s1 p.
  Proof.
    intros Hac Hcp [Hinv Hfp].
    assert (Hne : p <> s_root) by (intros ->; apply Hcp; apply comps_root).
    split.
    - apply (mk_inv_weaken s_root s s1 (comps (vparent p)) (comps p) [last (comps p) []]); [| exact Hinv].
      rewrite (comps_vparent p (proj2 Hac)). symmetry. apply comps_split. exact Hcp.
    - apply (fp_mono s_root (cands (vparent p))); [| exact Hfp].
      rewrite (cands_vparent p Hac Hne). intros x Hx. apply in_or_app. left. exact Hx.
  Qed.

  Lemma kpath_nonempty (k : key) : kpath k <> [].
  Proof. destruct k as [| c r]; [discriminate |]. unfold kpath. discriminate. Qed.

  Lemma fs_mkdirall_aux_inv0 : forall fuel perm s p,
    rok (st_fs s) -> abs_cleaned p -> nolinkpar (st_fs s) p ->
    exists r s', fs_mkdirall_aux fuel s p perm = (r, s') /\ mkfp s s' p.
  Proof.
    induction fuel as [| fuel IH]; intros perm s p Hok Hac Hnl.
    - exists (Err EFUEL), s. split; [reflexivity | apply mkfp_refl; exact Hok].
    - destruct (fs_stat s p) as [fi | e] eqn:Est.
      + rewrite fs_mkdirall_aux_S, Est.
        destruct (fi_kind fi); eexists; eexists; (split; [reflexivity | apply mkfp_refl; exact Hok]).
      + assert (Hne : p <> s_root).
        { intro E. subst p. destruct (fs_stat_root0 s Hok) as [fi Efi]. rewrite Efi in Est. discriminate Est. }
        pose proof (comps_ne_root p Hac Hne) as Hcp.
        pose proof (vparent_abs_cleaned p (proj2 Hac)) as Hpac.
        assert (Hpar : removelast (upto_last_sep (strip_trailing_seps p)) =
                       match removelast (comps p) with [] => [] | k => kpath k end).
        { rewrite (strip_trailing_seps_abs_cleaned p Hac Hcp). exact (parent_string_abs_cleaned p Hac Hcp). }
        destruct (removelast (comps p)) as [| c0 r0] eqn:Erl.
        * (* the parent is the root: no recursive call *)
          rewrite fs_mkdirall_aux_S, Est. cbv zeta. rewrite Hpar.
          apply (mkdir_tail0 perm s s p Hac Hcp Hnl). apply mkfp_refl. exact Hok.
        * assert (Hvp : kpath (c0 :: r0) = vparent p) by (unfold vparent; rewrite Erl; reflexivity).
          rewrite Hvp in Hpar.
          assert (Hnlp : nolinkpar (st_fs s) (vparent p)).
          { split; [exact Hpac |]. rewrite (comps_vparent p (proj2 Hac)).
            destruct Hnl as [_ Hnl]. rewrite <- (comps_split p Hcp), kprefixes_snoc in Hnl.
            apply List.Forall_app in Hnl. exact (proj1 Hnl). }
          rewrite (fs_mkdirall_aux_step fuel s p perm e (vparent p) Est Hpar).
          2:{ rewrite <- Hvp. apply kpath_nonempty. }
          destruct (IH perm s (vparent p) Hok Hpac Hnlp) as (r1 & s1 & E1 & Hinv1). rewrite E1.
          pose proof (mkfp_weaken s s1 p Hac Hcp Hinv1) as Hinv1'.
          destruct r1 as [[] | e1]; [| eexists; eexists; split; [reflexivity | exact Hinv1']].
          exact (mkdir_tail0 perm s s1 p Hac Hcp Hnl Hinv1').
  Qed.

  Lemma run0_mkdirall_gen w p perm : quiet w ->
    a_mkdirall A p perm w = fin tag (PM MMkdirAll) p [] w (fs_mkdirall (w_st w) p perm).
  Proof. intros Hq. cbn [spy osfs a_mkdirall]. apply spied_fs_upd_fin. exact Hq. Qed.

  Lemma r_law_user_mkdirall w p perm : quiet w -> swf (V w) -> snolinkpar (V w) p ->
    framed V V' (a_mkdirall A p perm) w (cands p).
  Proof.
    intros Hq Hwf Hnl. pose proof (swf_V0_rok w Hwf) as Hok. pose proof (proj1 Hnl) as Hac.
    rewrite (V0_ok w Hok) in Hnl. apply (snolinkpar_rview _ p (rok_keys_good _ Hok) Hac) in Hnl.
    change (framed_res0 (a_mkdirall A p perm w) w (cands p)).
    rewrite (run0_mkdirall_gen w p perm Hq). unfold fs_mkdirall.
    destruct (fs_mkdirall_aux_inv0 (S (length p)) perm (w_st w) p Hok Hac Hnl)
      as (r & s' & E & (Hok' & Hso & Hk) & _).
    rewrite E. unfold fin; cbn [fst snd].
    apply framed_res0_after; try assumption; [apply mres_of_not_halt |].
    apply rview_eqv_except; try (apply rok_keys_good; assumption); [apply cands_abs_cleaned; exact Hac |].
    intros k Hk'. destruct (Hk k) as [H | (Hn & Hdr & r0 & Er)]; [exact H |]. exfalso.
    assert (Gx : good_key k).
    { pose proof (good_key_comps p (proj2 Hac)) as G. rewrite Er in G. apply good_key_app in G. tauto. }
    apply (Hk' (kpath k)).
    - rewrite (cands_kprefixes p Hac). apply in_or_app.
      destruct (list_eq_dec str_eq_dec r0 []) as [E0 | E0].
      + right. left. subst r0. rewrite app_nil_r in Er. rewrite <- Er. symmetry. apply kpath_comps. exact Hac.
      + left. apply in_map. apply kprefixes_In. exists r0. split; assumption.
    - rewrite (comps_kpath_good k Gx). reflexivity.
  Qed.

  (** the footprint of MkdirAll *)
  Lemma fp_mkdirall0 w p perm : quiet w -> swf (V w) -> snolinkpar (V w) p ->
    fp s_root (cands p) (w_st (snd (a_mkdirall A p perm w))) (w_st w).
  Proof.
    intros Hq Hwf Hnl. pose proof (swf_V0_rok w Hwf) as Hok. pose proof (proj1 Hnl) as Hac.
    rewrite (V0_ok w Hok) in Hnl. apply (snolinkpar_rview _ p (rok_keys_good _ Hok) Hac) in Hnl.
    rewrite (run0_mkdirall_gen w p perm Hq). unfold fs_mkdirall.
    destruct (fs_mkdirall_aux_inv0 (S (length p)) perm (w_st w) p Hok Hac Hnl) as (r & s' & E & _ & Hfp).
    rewrite E. exact Hfp.
  Qed.

  (* ---------------------------------------------------------------- *)
  (** ** the records *)
  Theorem root_api_laws :
    api_laws A V V' tn_0 acc_r rh wh nohid nohid.
  Proof.
    constructor.
    - apply r_law_infos_indep.
    - apply r_law_lstat_some.
    - apply r_law_lstat_none.
    - apply r_law_readlink.
    - apply r_law_open_file.
    - apply r_law_open_err.
    - apply r_law_hread.
    - apply r_law_hstat.
    - apply r_law_hclose_r.
    - intros w p perm Hq Hwf Hdir Hnone _. apply r_law_mkdirall_new; assumption.
    - apply r_law_mkdirall_dir.
    - apply r_law_chmod.
    - apply r_law_chtimes.
    - apply r_law_chown.
    - apply r_law_lchown.
    - intros w t p Hq Hwf Hdir Hnone Ht Hacc _. apply r_law_symlink; assumption.
    - intros w p perm Hq Hwf Hdir Hnone _. apply r_law_openfile_new; assumption.
    - apply r_law_openfile_trunc.
    - apply r_law_hwrite.
    - apply r_law_hclose_w.
    - intros w p n Hq Hwf Hnlp Hp Hnc Hne _. eapply r_law_remove_leaf; eassumption.
    - apply r_law_removeall_leaf.
    - apply r_law_remove_none.
    - apply r_law_remove_nonempty.
    - apply r_law_user_create.
    - apply r_law_user_openfile.
    - apply r_law_user_handle.
    - apply r_law_user_mkdir.
    - apply r_law_user_mkdirall.
    - apply r_law_user_remove.
    - apply r_law_user_rename.
    - apply r_law_user_chmod.
    - apply r_law_user_chown.
    - apply r_law_user_chtimes.
    - apply r_law_user_lchown.
    - apply r_law_user_symlink.
    - reflexivity.
    - intros w p [].
    - intros w p [].
    - intros w p _ _ [].
    - intros p. right. intros [].
  Qed.

  Theorem root_api_laws2 : api_laws2 A V V' tn_0 acc_r rh wh.
  Proof.
    constructor.
    - apply r_law2_stat.
    - apply r_law2_readlink.
    - apply r_law2_open_ro.
    - apply r_law2_ro_handle.
    - apply r_law2_readdir.
  Qed.
End LawsRoot.

Print Assumptions root_api_laws.
Print Assumptions root_api_laws2.
