(** Component-level specification vocabulary used by the theorems.
    These are *not* string-prefix notions: [inside pfx p] compares
    normalised component lists. *)
From BFS Require Export Base.Bytes Path.GoPath.
From Coq Require Export Permutation Sorted.

(** [p] is [pfx] itself or lies below it, component-wise. *)
Definition inside (pfx p : str) : Prop :=
  is_abs pfx = is_abs p /\ exists rest, comps p = comps pfx ++ rest.

Fixpoint list_prefixb (a b : list str) : bool :=
  match a, b with
  | [], _ => true
  | x :: a', y :: b' => str_eqb x y && list_prefixb a' b'
  | _ :: _, [] => false
  end.

Definition insideb (pfx p : str) : bool :=
  Bool.eqb (is_abs pfx) (is_abs p) && list_prefixb (comps pfx) (comps p).

(** proper ancestor; the relative "." is not counted as an ancestor
    (the chain of a relative path starts at its first component). *)
Definition ancestor (a p : str) : Prop := a <> p /\ inside a p /\ a <> s_dot.

(** [x] occurs strictly before [y] in [s]. *)
Definition before (x y : str) (s : list str) : Prop :=
  exists s1 s2 s3, s = s1 ++ x :: s2 ++ y :: s3.

Definition sorted_by (lt : str -> str -> bool) (s : list str) : Prop :=
  StronglySorted (fun x y => lt x y = true) s.
