(** Model of [IterateDirTree] (fs_utils.go): the loop over byte indices,
    with [lastIndex = max i 1] at a separator and [lastIndex = i+1] at the last
    index.  [cands name] is the list of prefixes handed to the visitor when the
    visitor always proceeds; [visit] adds the early stop. *)
From BFS Require Export Base.Bytes Path.GoPath.

Fixpoint cands_from (i : nat) (rest name : str) : list str :=
  match rest with
  | [] => []
  | c :: r' =>
      match r' with
      | [] => [firstn (S i) name]
      | _ =>
          if N.eqb c sep then firstn (Nat.max i 1) name :: cands_from (S i) r' name
          else cands_from (S i) r' name
      end
  end.

Definition cands (name : str) : list str := cands_from 0 name name.

(** Visiting with a pure visitor: returns the visited elements and [aborted]. *)
Fixpoint visit (v : str -> bool) (l : list str) : list str * bool :=
  match l with
  | [] => ([], false)
  | x :: r =>
      if v x then let '(a, b) := visit v r in (x :: a, b)
      else ([x], true)
  end.

Definition iterate_dir_tree (name : str) (v : str -> bool) : list str * bool :=
  visit v (cands name).

(** Specification side: the ancestor chain of a cleaned path, computed from
    its components: root (or first component), ..., parent, path. *)
Fixpoint prefixes_from {A} (acc : list A) (l : list A) : list (list A) :=
  match l with
  | [] => []
  | x :: r => (acc ++ [x]) :: prefixes_from (acc ++ [x]) r
  end.

Definition chain (p : str) : list str :=
  if is_abs p then
    s_root :: map (fun cs => sep :: join_sep cs) (prefixes_from [] (comps p))
  else
    match comps p with
    | [] => [s_dot]
    | cs => map join_sep (prefixes_from [] cs)
    end.
