(** Model of Go's [path/filepath] on Linux (separator '/', no volume names):
    [Clean], [Join] (two arguments), [Dir], [Base], [IsAbs], [Rel].
    Defined by: parse into components, normalise the component list, render.
    These are *modelled* standard-library functions; the correspondence check
    (stream T1) validates them against the real [path/filepath] exhaustively
    up to a length bound on every run. *)
From BFS Require Export Base.Bytes.

Definition is_abs (p : str) : bool :=
  match p with c :: _ => N.eqb c sep | [] => false end.

(** Normalise a component list.  [stk] is the output stack, reversed. *)
Fixpoint norm (rooted : bool) (cs : list str) (stk : list str) : list str :=
  match cs with
  | [] => rev stk
  | c :: r =>
      if str_eqb c [] || str_eqb c s_dot then norm rooted r stk
      else if str_eqb c s_dotdot then
        match stk with
        | t :: stk' =>
            if str_eqb t s_dotdot then norm rooted r (c :: stk)
            else norm rooted r stk'
        | [] => if rooted then norm rooted r [] else norm rooted r [c]
        end
      else norm rooted r (c :: stk)
  end.

(** Normalised components of a path (no empty, no ".", ".." only leading and
    only when relative). *)
Definition comps (p : str) : list str := norm (is_abs p) (split_sep p) [].

Definition render (rooted : bool) (cs : list str) : str :=
  if rooted then sep :: join_sep cs
  else match cs with [] => s_dot | _ => join_sep cs end.

(** [filepath.Clean] *)
Definition clean (p : str) : str := render (is_abs p) (comps p).

(** [filepath.Join(a, b)] *)
Definition join2 (a b : str) : str :=
  match a, b with
  | [], [] => []
  | [], _ => clean b
  | _, _ => clean (a ++ sep :: b)
  end.

(** Everything up to and including the last separator. *)
Fixpoint upto_last_sep (p : str) : str :=
  match p with
  | [] => []
  | c :: r =>
      match upto_last_sep r with
      | [] => if N.eqb c sep then [c] else []
      | l => c :: l
      end
  end.

(** [filepath.Dir] *)
Definition dir (p : str) : str := clean (upto_last_sep p).

Fixpoint strip_trailing_sep_rev (r : str) : str :=
  match r with
  | c :: r' => if N.eqb c sep then strip_trailing_sep_rev r' else r
  | [] => []
  end.

Fixpoint take_until_sep (r : str) : str :=
  match r with
  | c :: r' => if N.eqb c sep then [] else c :: take_until_sep r'
  | [] => []
  end.

(** [filepath.Base] *)
Definition base (p : str) : str :=
  match p with
  | [] => s_dot
  | _ =>
      match strip_trailing_sep_rev (rev p) with
      | [] => s_root
      | r => rev (take_until_sep r)
      end
  end.

Fixpoint strip_common (a b : list str) : list str * list str :=
  match a, b with
  | x :: a', y :: b' => if str_eqb x y then strip_common a' b' else (a, b)
  | _, _ => (a, b)
  end.

(** [filepath.Rel base targ]; [None] models the "can't make relative" error. *)
Definition rel (basep targ : str) : option str :=
  let cb := clean basep in
  let ct := clean targ in
  if str_eqb cb ct then Some s_dot
  else if negb (Bool.eqb (is_abs cb) (is_abs ct)) then None
  else
    let bcs := comps cb in
    let tcs := comps ct in
    let '(b', t') := strip_common bcs tcs in
    match b' with
    | [] => Some (join_sep t')
    | h :: _ =>
        if str_eqb h s_dotdot then None
        else Some (join_sep (map (fun _ => s_dotdot) b' ++ t'))
    end.

Definition cleaned (p : str) : Prop := clean p = p.
Definition cleanedb (p : str) : bool := str_eqb (clean p) p.
