module verif/harness

go 1.21

require github.com/jxsl13/backupfs v0.0.0

replace github.com/jxsl13/backupfs => /repo
