//go:build verif

// vrace: stress one shared BackupFS from many goroutines (mutators, readers,
// Map, MarshalJSON, Rollback) inside a private directory; built with -race,
// the race detector is the failing-input search for the data-race half of C10.
package main

import (
	"encoding/json"
	"fmt"
	"math/rand"
	"os"
	"path/filepath"
	"strconv"
	"sync"

	"github.com/jxsl13/backupfs"
)

func main() {
	seed := int64(1)
	n := 200
	if len(os.Args) > 1 {
		seed, _ = strconv.ParseInt(os.Args[1], 10, 64)
	}
	if len(os.Args) > 2 {
		n, _ = strconv.Atoi(os.Args[2])
	}
	base := "/dev/shm"
	if st, err := os.Stat(base); err != nil || !st.IsDir() {
		base = os.TempDir()
	}
	dir, err := os.MkdirTemp(base, "vrace.")
	if err != nil {
		fmt.Println("setup:", err)
		os.Exit(2)
	}
	defer os.RemoveAll(dir)
	root := filepath.Join(dir, "base")
	bk := filepath.Join(dir, "backup")
	os.MkdirAll(filepath.Join(root, "d"), 0o755)
	os.MkdirAll(bk, 0o755)
	for i := 0; i < 8; i++ {
		os.WriteFile(filepath.Join(root, "d", fmt.Sprintf("f%d", i)), []byte("content"), 0o644)
	}
	bfs, _ := backupfs.NewPrefixFS(backupfs.NewOSFS(), root)
	kfs, _ := backupfs.NewPrefixFS(backupfs.NewOSFS(), bk)
	b := backupfs.NewBackupFS(bfs, kfs)
	var wg sync.WaitGroup
	for g := 0; g < 8; g++ {
		wg.Add(1)
		go func(g int) {
			defer wg.Done()
			r := rand.New(rand.NewSource(seed*100 + int64(g)))
			for i := 0; i < n; i++ {
				p := fmt.Sprintf("/d/f%d", r.Intn(10))
				switch r.Intn(12) {
				case 0:
					if f, err := b.Create(p); err == nil {
						f.Write([]byte("x"))
						f.Close()
					}
				case 1:
					b.Remove(p)
				case 2:
					b.Chmod(p, 0o600)
				case 3:
					b.Rename(p, fmt.Sprintf("/d/f%d", r.Intn(10)))
				case 4:
					b.Stat(p)
				case 5:
					b.Lstat(p)
				case 6:
					_ = b.Map()
				case 7:
					json.Marshal(b)
				case 8:
					b.MkdirAll(fmt.Sprintf("/d/n%d/x", r.Intn(3)), 0o755)
				case 9:
					b.RemoveAll(fmt.Sprintf("/d/n%d", r.Intn(3)))
				case 10:
					if f, err := b.Open(p); err == nil {
						f.Close()
					}
				case 11:
					if r.Intn(10) == 0 {
						b.Rollback()
					} else {
						b.ForceBackup(p)
					}
				}
			}
		}(g)
	}
	wg.Wait()
	if err := b.Rollback(); err != nil {
		fmt.Println("final rollback:", err)
	}
	fmt.Println("done")
}
