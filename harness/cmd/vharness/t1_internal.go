//go:build verif

package main

import (
	"errors"
	"io/fs"
	"os"
	"strconv"
	"strings"
	"syscall"

	"github.com/jxsl13/backupfs"
)

// error classes shared by all streams
func errClass(err error) string {
	if err == nil {
		return "ok"
	}
	switch {
	case errors.Is(err, backupfs.ErrRollbackFailed):
		return "RollbackFailed"
	case errors.Is(err, backupfs.ErrHiddenNotExist):
		return "HiddenNotExist"
	case errors.Is(err, backupfs.ErrHiddenPermission):
		return "HiddenPermission"
	}
	var en syscall.Errno
	if errors.As(err, &en) {
		switch en {
		case syscall.ENOENT:
			return "ENOENT"
		case syscall.EEXIST:
			return "EEXIST"
		case syscall.ENOTDIR:
			return "ENOTDIR"
		case syscall.EISDIR:
			return "EISDIR"
		case syscall.ENOTEMPTY:
			return "ENOTEMPTY"
		case syscall.EINVAL:
			return "EINVAL"
		case syscall.ELOOP:
			return "ELOOP"
		case syscall.EPERM:
			return "EPERM"
		case syscall.EACCES:
			return "EACCES"
		case syscall.EBUSY:
			return "EBUSY"
		case syscall.EIO:
			return "EIO"
		case syscall.EBADF:
			return "EBADF"
		case syscall.EXDEV:
			return "EXDEV"
		case syscall.ENAMETOOLONG:
			return "ENAMETOOLONG"
		}
		return "errno" + strconv.Itoa(int(en))
	}
	switch {
	case errors.Is(err, fs.ErrNotExist):
		return "ENOENT"
	case errors.Is(err, fs.ErrExist):
		return "EEXIST"
	case errors.Is(err, fs.ErrPermission):
		return "EPERM"
	case errors.Is(err, os.ErrInvalid):
		return "EINVAL"
	}
	return "Other"
}

func t1Internal(f []string) (string, bool) {
	switch f[0] {
	case "prefixpath":
		// prefixpath <prefix> <name>
		p, err := backupfs.NewPrefixFS(backupfs.NewOSFS(), dec(f[1]))
		if err != nil {
			return "ctor-err", true
		}
		r, err := backupfs.VerifPrefixPath(p, dec(f[2]))
		if err != nil {
			return "err " + errClass(err), true
		}
		return "ok " + enc(r), true
	case "prefixclean":
		p, err := backupfs.NewPrefixFS(backupfs.NewOSFS(), dec(f[1]))
		if err != nil {
			return "ctor-err", true
		}
		return enc(backupfs.VerifPrefix(p)), true
	case "volpath":
		v := backupfs.NewVolumeFS(dec(f[1]), backupfs.NewOSFS())
		r, err := backupfs.VerifVolumePrefixPath(v, dec(f[2]))
		if err != nil {
			return "err " + errClass(err), true
		}
		return "ok " + enc(r) + " " + enc(backupfs.VerifVolume(v)), true
	case "hiddenctor":
		h, err := backupfs.NewHiddenFS(backupfs.NewOSFS(), decList(f[1])...)
		if err != nil {
			return "ctor-err", true
		}
		return encList(backupfs.VerifHiddenPaths(h)), true
	case "ishidden":
		// ishidden <name> <hiddenlist>   (hidden list used as given: normalised by the caller)
		b, err := backupfs.VerifIsHidden(dec(f[1]), decList(f[2]))
		if err != nil {
			return "err", true
		}
		return boolStr(b), true
	case "parenthidden":
		b, err := backupfs.VerifIsParentOfHiddenDir(dec(f[1]), decList(f[2]))
		if err != nil {
			return "err", true
		}
		return boolStr(b), true
	case "dircontains":
		b, err := backupfs.VerifDirContains(dec(f[1]), dec(f[2]))
		if err != nil {
			return "err", true
		}
		return boolStr(b), true
	case "toabssymlink":
		return enc(backupfs.VerifToAbsSymlink(dec(f[1]), dec(f[2]))), true
	case "finfo":
		return finfoEval(f), true
	case "hlist":
		return hlistEval(f), true
	case "layer":
		return layerEval(f), true
	case "bisabs":
		return boolStr(backupfs.VerifIsAbs(dec(f[1]))), true
	}
	return "", false
}

// finfo <name> <mode> <modtimeNs> <size> <uid> <gid>: build an fInfo, push it
// through toFInfo and a JSON round trip inside a BackupFS, compare accessors.
func finfoEval(f []string) string {
	atoi := func(s string) int64 { v, _ := strconv.ParseInt(s, 10, 64); return v }
	name := dec(f[1])
	orig := backupfs.VerifNewFInfo(name, uint32(atoi(f[2])), atoi(f[3]), atoi(f[4]), int(atoi(f[5])), int(atoi(f[6])))
	b := backupfs.NewBackupFS(&recFS{}, &recFS{})
	b.SetMap(map[string]fs.FileInfo{name: orig, "/nil": nil})
	data, err := b.MarshalJSON()
	if err != nil {
		return "marshal-error"
	}
	b2 := backupfs.NewBackupFS(&recFS{}, &recFS{})
	if err := b2.UnmarshalJSON(data); err != nil {
		return "unmarshal-error"
	}
	m := b2.Map()
	got, ok := m[name]
	if !ok || got == nil {
		return "entry-lost"
	}
	if v, ok := m["/nil"]; !ok || v != nil {
		return "nil-entry-lost"
	}
	var diffs []string
	if got.Mode() != orig.Mode() {
		diffs = append(diffs, "mode")
	}
	if !got.ModTime().Equal(orig.ModTime()) {
		diffs = append(diffs, "modtime")
	}
	if got.Size() != orig.Size() {
		diffs = append(diffs, "size")
	}
	if got.IsDir() != orig.IsDir() {
		diffs = append(diffs, "isdir")
	}
	if got.Name() != orig.Name() {
		diffs = append(diffs, "name")
	}
	if backupfs.VerifToUID(got) != backupfs.VerifToUID(orig) || backupfs.VerifToGID(got) != backupfs.VerifToGID(orig) {
		diffs = append(diffs, "owner")
	}
	if len(diffs) == 0 {
		return "same"
	}
	return "diff:" + strings.Join(diffs, ",")
}
