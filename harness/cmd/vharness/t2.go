//go:build verif

package main

import (
	"bufio"
	"encoding/json"
	"errors"
	"fmt"
	"io"
	"io/fs"
	"os"
	"path/filepath"
	"sort"
	"strconv"
	"strings"
	"sync"
	"sync/atomic"
	"syscall"
	"time"
	"unsafe"

	"github.com/jxsl13/backupfs"
)

const presetEpoch = 1000000000 // preset mtime n  <->  epoch+n seconds, 0 ns

func presetTime(n int64) time.Time { return time.Unix(presetEpoch+n, 0) }

func mtToken(t time.Time) string {
	s := t.Unix()
	if s >= presetEpoch && s < presetEpoch+100000000 && t.Nanosecond() == 0 {
		return "P" + strconv.FormatInt(s-presetEpoch, 10)
	}
	return "NOW"
}

// content specs: parts joined by '+':  R<byte>x<len>  |  B<percent-encoded bytes>
func parseContent(spec string) []byte {
	if spec == "-" || spec == "" {
		return nil
	}
	var out []byte
	for _, part := range strings.Split(spec, "+") {
		if part == "" {
			continue
		}
		switch part[0] {
		case 'R':
			xs := strings.SplitN(part[1:], "x", 2)
			b, _ := strconv.Atoi(xs[0])
			n, _ := strconv.Atoi(xs[1])
			for i := 0; i < n; i++ {
				out = append(out, byte(b))
			}
		case 'B':
			out = append(out, []byte(dec(part[1:]))...)
		}
	}
	return out
}

func rle(b []byte) string {
	if len(b) == 0 {
		return "-"
	}
	var sb strings.Builder
	i := 0
	for i < len(b) {
		j := i
		for j < len(b) && b[j] == b[i] {
			j++
		}
		if sb.Len() > 0 {
			sb.WriteByte(',')
		}
		fmt.Fprintf(&sb, "%d*%d", b[i], j-i)
		i = j
	}
	return sb.String()
}

func octal(s string) uint32 {
	v, _ := strconv.ParseUint(s, 8, 32)
	return uint32(v)
}

// unix 12-bit permission word -> fs.FileMode
func toFileMode(p uint32) fs.FileMode {
	m := fs.FileMode(p & 0o777)
	if p&0o4000 != 0 {
		m |= fs.ModeSetuid
	}
	if p&0o2000 != 0 {
		m |= fs.ModeSetgid
	}
	if p&0o1000 != 0 {
		m |= fs.ModeSticky
	}
	return m
}

func fromFileMode(m fs.FileMode) uint32 {
	p := uint32(m.Perm())
	if m&fs.ModeSetuid != 0 {
		p |= 0o4000
	}
	if m&fs.ModeSetgid != 0 {
		p |= 0o2000
	}
	if m&fs.ModeSticky != 0 {
		p |= 0o1000
	}
	return p
}

func kindOf(m fs.FileMode) string {
	switch {
	case m.IsDir():
		return "D"
	case m&fs.ModeSymlink != 0:
		return "L"
	case m.IsRegular():
		return "F"
	}
	return "?"
}

type pauseSpec struct {
	a, k, b int
}

type t2case struct {
	pause  *pauseSpec
	direct *directFS
	id     string
	cfg    map[string]string
	inits  [][]string
	ops    [][]string
	faults []faultSpec
	crash  int
}

func readCases(path string) ([]*t2case, error) {
	f, err := os.Open(path)
	if err != nil {
		return nil, err
	}
	defer f.Close()
	sc := bufio.NewScanner(f)
	sc.Buffer(make([]byte, 1<<20), 1<<26)
	var cases []*t2case
	var cur *t2case
	for sc.Scan() {
		line := sc.Text()
		if line == "" || line[0] == '#' {
			continue
		}
		w := strings.Split(line, " ")
		switch w[0] {
		case "CASE":
			cur = &t2case{id: w[1], cfg: map[string]string{}, crash: -1}
		case "CFG":
			for _, kv := range w[1:] {
				i := strings.IndexByte(kv, '=')
				cur.cfg[kv[:i]] = kv[i+1:]
			}
		case "D", "F", "L":
			cur.inits = append(cur.inits, w)
		case "FAULT":
			occ, _ := strconv.Atoi(w[4])
			cur.faults = append(cur.faults, faultSpec{w[1], w[2], dec(w[3]), occ})
		case "CRASH":
			cur.crash, _ = strconv.Atoi(w[1])
		case "PAUSE":
			// PAUSE <op index A> <k> THEN <op index B>
			a, _ := strconv.Atoi(w[1])
			k, _ := strconv.Atoi(w[2])
			b, _ := strconv.Atoi(w[4])
			cur.pause = &pauseSpec{a, k, b}
		case "OP":
			cur.ops = append(cur.ops, w[1:])
		case "END":
			cases = append(cases, cur)
			cur = nil
		}
	}
	return cases, sc.Err()
}

// ---- the private world ----

type jail struct {
	dir  string
	root *os.File
}

func enterJail() (*jail, error) {
	base := "/dev/shm"
	if st, err := os.Stat(base); err != nil || !st.IsDir() {
		base = os.TempDir()
	}
	dir, err := os.MkdirTemp(base, "verif.")
	if err != nil {
		return nil, err
	}
	if err := os.Chmod(dir, 0o755); err != nil {
		return nil, err
	}
	root, err := os.Open("/")
	if err != nil {
		return nil, err
	}
	if err := syscall.Chroot(dir); err != nil {
		root.Close()
		os.RemoveAll(dir)
		return nil, fmt.Errorf("chroot: %w", err)
	}
	if err := os.Chdir("/"); err != nil {
		return nil, err
	}
	return &jail{dir: dir, root: root}, nil
}

func (j *jail) leave() {
	_ = j.root.Chdir()
	_ = syscall.Chroot(".")
	j.root.Close()
	_ = os.Chdir("/")
	_ = os.RemoveAll(j.dir)
}

func lutimes(path string, t time.Time) error {
	ts := [2]syscall.Timespec{syscall.NsecToTimespec(t.UnixNano()), syscall.NsecToTimespec(t.UnixNano())}
	p, err := syscall.BytePtrFromString(path)
	if err != nil {
		return err
	}
	const atFdcwd = -100
	const atSymlinkNofollow = 0x100
	_, _, e := syscall.Syscall6(syscall.SYS_UTIMENSAT, uintptr(atFdcwd&0xffffffffffffffff), uintptr(unsafe.Pointer(p)),
		uintptr(unsafe.Pointer(&ts[0])), atSymlinkNofollow, 0, 0)
	if e != 0 {
		return e
	}
	return nil
}

func buildWorld(inits [][]string) error {
	type mt struct {
		path string
		t    time.Time
		link bool
	}
	var times []mt
	for _, w := range inits {
		p := dec(w[1])
		switch w[0] {
		case "D":
			perm := octal(w[2])
			uid, _ := strconv.Atoi(w[3])
			gid, _ := strconv.Atoi(w[4])
			n, _ := strconv.ParseInt(w[5], 10, 64)
			if p != "/" {
				if err := os.Mkdir(p, 0o755); err != nil {
					return err
				}
			}
			if err := os.Lchown(p, uid, gid); err != nil {
				return err
			}
			if err := syscall.Chmod(p, perm); err != nil {
				return err
			}
			times = append(times, mt{p, presetTime(n), false})
		case "F":
			perm := octal(w[2])
			uid, _ := strconv.Atoi(w[3])
			gid, _ := strconv.Atoi(w[4])
			n, _ := strconv.ParseInt(w[5], 10, 64)
			if err := os.WriteFile(p, parseContent(w[6]), 0o600); err != nil {
				return err
			}
			if err := os.Lchown(p, uid, gid); err != nil {
				return err
			}
			if err := syscall.Chmod(p, perm); err != nil {
				return err
			}
			times = append(times, mt{p, presetTime(n), false})
		case "L":
			uid, _ := strconv.Atoi(w[2])
			gid, _ := strconv.Atoi(w[3])
			n, _ := strconv.ParseInt(w[4], 10, 64)
			if err := os.Symlink(dec(w[5]), p); err != nil {
				return err
			}
			if err := os.Lchown(p, uid, gid); err != nil {
				return err
			}
			times = append(times, mt{p, presetTime(n), true})
		}
	}
	// set times last, deepest first (creating children touches directories)
	for i := len(times) - 1; i >= 0; i-- {
		if err := lutimes(times[i].path, times[i].t); err != nil {
			return err
		}
	}
	return nil
}

func dumpWorld(w *bufio.Writer, label string) {
	var lines []string
	var walk func(p string)
	walk = func(p string) {
		fi, err := os.Lstat(p)
		if err != nil {
			lines = append(lines, fmt.Sprintf("S %s %s ? lstat-error", label, enc(p)))
			return
		}
		st := fi.Sys().(*syscall.Stat_t)
		k := kindOf(fi.Mode())
		data := "-"
		mtok := mtToken(fi.ModTime())
		switch k {
		case "F":
			b, err := os.ReadFile(p)
			if err != nil {
				data = "read-error"
			} else {
				data = rle(b)
			}
		case "L":
			t, _ := os.Readlink(p)
			data = enc(t)
			mtok = "-"
		}
		lines = append(lines, fmt.Sprintf("S %s %s %s %o %d %d %s %s", label, enc(p), k, fromFileMode(fi.Mode()), st.Uid, st.Gid, mtok, data))
		if k == "D" {
			ents, _ := os.ReadDir(p)
			for _, e := range ents {
				walk(filepath.Join(p, e.Name()))
			}
		}
	}
	walk("/")
	sort.Strings(lines)
	for _, l := range lines {
		fmt.Fprintln(w, l)
	}
}

func infoStr(fi fs.FileInfo) string {
	uid, gid := backupfs.VerifToUID(fi), backupfs.VerifToGID(fi)
	k := kindOf(fi.Mode())
	size := "-"
	if k == "F" || k == "L" {
		size = strconv.FormatInt(fi.Size(), 10)
	}
	mt := mtToken(fi.ModTime())
	if k == "L" {
		mt = "-"
	}
	return fmt.Sprintf("%s %s %o %d %d %s %s", enc(fi.Name()), k, fromFileMode(fi.Mode()), uid, gid, mt, size)
}

func dumpMap(w *bufio.Writer, label string, b *backupfs.BackupFS) {
	m := b.Map()
	keys := make([]string, 0, len(m))
	for k := range m {
		keys = append(keys, k)
	}
	sort.Strings(keys)
	for _, k := range keys {
		if m[k] == nil {
			fmt.Fprintf(w, "M %s %s nil\n", label, enc(k))
		} else {
			fmt.Fprintf(w, "M %s %s %s\n", label, enc(k), infoStr(m[k]))
		}
	}
}

func buildBackupFS(cfg map[string]string, rec *recorder) (*backupfs.BackupFS, error) {
	q := dec(cfg["q"])
	wrap := func(base, backup backupfs.FS) (backupfs.FS, backupfs.FS) {
		return &spyFS{tag: "base", inner: base, rec: rec}, &spyFS{tag: "backup", inner: backup, rec: rec}
	}
	switch cfg["ctor"] {
	case "new":
		b := backupfs.New(q)
		backupfs.VerifWrap(b, wrap)
		return b, nil
	case "newwithfs":
		b := backupfs.NewWithFS(backupfs.NewOSFS(), q)
		backupfs.VerifWrap(b, wrap)
		return b, nil
	}
	var base backupfs.FS = backupfs.NewOSFS()
	if cfg["ctor"] == "readme" {
		// the layering documented in the README: HiddenFS + PrefixFS over one filesystem
		h, err := backupfs.NewHiddenFS(base, q)
		if err != nil {
			return nil, err
		}
		base = h
	} else if cfg["ctor"] != "generic" {
		return nil, fmt.Errorf("unknown ctor %q", cfg["ctor"])
	}
	if p, ok := cfg["p"]; ok && p != "-" {
		pf, err := backupfs.NewPrefixFS(base, dec(p))
		if err != nil {
			return nil, err
		}
		base = pf
	}
	if hs, ok := cfg["hs"]; ok && hs != "%n" {
		h, err := backupfs.NewHiddenFS(base, decList(hs)...)
		if err != nil {
			return nil, err
		}
		base = h
	}
	backup, err := backupfs.NewPrefixFS(backupfs.NewOSFS(), q)
	if err != nil {
		return nil, err
	}
	sb, sk := wrap(base, backup)
	return backupfs.NewBackupFS(sb, sk), nil
}

func writeClose(f backupfs.File, data []byte) error {
	var err error
	if len(data) > 0 {
		_, err = f.Write(data)
	}
	cerr := f.Close()
	if err != nil {
		return err
	}
	return cerr
}

type opResult struct {
	err   error
	data  string
	extra string // facts computed independently by the harness (not produced by the model)
}

// realpathFacts checks a resolved path against the operating system:
// parents=<n> number of proper ancestors of the result that are symlinks,
// same=<t|f> the result names the same entry (device+inode, or both missing
// with the parent directory being the same) as the original name.
func realpathFacts(c *t2case, name, resolved string) string {
	// map view paths to world paths (only prefix layerings differ)
	pfx := ""
	if p, ok := c.cfg["p"]; ok && p != "-" && c.cfg["ctor"] == "generic" {
		pfx = filepath.Clean(dec(p))
	}
	world := func(v string) string {
		if pfx == "" || pfx == "/" {
			return v
		}
		return filepath.Join(pfx, v)
	}
	links := 0
	_, _ = backupfs.IterateDirTree(resolved, func(sub string) (bool, error) {
		if sub == resolved {
			return true, nil
		}
		if fi, err := os.Lstat(world(sub)); err == nil && fi.Mode()&fs.ModeSymlink != 0 {
			links++
		}
		return true, nil
	})
	same := "f"
	cn := filepath.Clean(name)
	if !filepath.IsAbs(cn) {
		cn = "/" + cn
	}
	o1, e1 := os.Lstat(world(cn))
	o2, e2 := os.Lstat(world(resolved))
	switch {
	case e1 == nil && e2 == nil:
		if os.SameFile(o1, o2) {
			same = "t"
		}
	case e1 != nil && e2 != nil:
		// both missing: compare the parents (following links) and the final names
		p1, ee1 := os.Stat(world(filepath.Dir(cn)))
		p2, ee2 := os.Stat(world(filepath.Dir(resolved)))
		if ee1 == nil && ee2 == nil && os.SameFile(p1, p2) && filepath.Base(cn) == filepath.Base(resolved) {
			same = "t"
		} else if ee1 != nil {
			same = "?" // the original parent does not exist either: lexical tail, not decided here
		}
	}
	return fmt.Sprintf("parents=%d same=%s", links, same)
}

// directFS: the twin of a BackupFS run for C03 - every operation is issued
// directly on the base filesystem, with the symlinked parent directories of
// the path resolved first by the operating system (filepath.EvalSymlinks).
type directFS struct {
	base backupfs.FS
	cfg  map[string]string
}

func (d *directFS) resolveParents(name string) string {
	if d.cfg["raw"] == "1" {
		// layer streams: the name reaches the layer exactly as given
		return name
	}
	cn := filepath.Clean(name)
	pfx := ""
	if p, ok := d.cfg["p"]; ok && p != "-" && d.cfg["ctor"] == "generic" {
		pfx = filepath.Clean(dec(p))
	}
	if cn == "/" || cn == "." {
		return cn
	}
	abs := cn
	if !filepath.IsAbs(abs) {
		// relative names are handed to the base as they are
		return cn
	}
	dir, base := filepath.Dir(abs), filepath.Base(abs)
	wdir := dir
	if pfx != "" && pfx != "/" {
		wdir = filepath.Join(pfx, dir)
	}
	rd, err := filepath.EvalSymlinks(wdir)
	if err != nil {
		return cn
	}
	if pfx != "" && pfx != "/" {
		if rd == pfx {
			rd = "/"
		} else if strings.HasPrefix(rd, pfx+"/") {
			rd = rd[len(pfx):]
		} else {
			return cn
		}
	}
	return filepath.Join(rd, base)
}

func execDirect(d *directFS, op []string) (res opResult) {
	b := d.base
	a := func(i int) string { return d.resolveParents(dec(op[i])) }
	raw := func(i int) string { return dec(op[i]) }
	num := func(i int) int { v, _ := strconv.Atoi(op[i]); return v }
	switch op[0] {
	case "create":
		f, err := b.Create(a(1))
		if err != nil {
			return opResult{err: err}
		}
		return opResult{err: writeClose(f, parseContent(op[2]))}
	case "openwrite":
		f, err := b.OpenFile(a(1), num(2), toFileMode(octal(op[3])))
		if err != nil {
			return opResult{err: err}
		}
		return opResult{err: writeClose(f, parseContent(op[4]))}
	case "mkdir":
		return opResult{err: b.Mkdir(a(1), toFileMode(octal(op[2])))}
	case "mkdirall":
		return opResult{err: b.MkdirAll(a(1), toFileMode(octal(op[2])))}
	case "remove":
		return opResult{err: b.Remove(a(1))}
	case "removeall":
		return opResult{err: b.RemoveAll(a(1))}
	case "rename":
		return opResult{err: b.Rename(a(1), a(2))}
	case "symlink":
		return opResult{err: b.Symlink(raw(1), a(2))}
	case "chmod":
		return opResult{err: b.Chmod(a(1), toFileMode(octal(op[2])))}
	case "chown":
		return opResult{err: b.Chown(a(1), num(2), num(3))}
	case "lchown":
		return opResult{err: b.Lchown(a(1), num(2), num(3))}
	case "chtimes":
		t := presetTime(int64(num(2)))
		return opResult{err: b.Chtimes(a(1), t, t)}
	case "stat":
		fi, err := b.Stat(raw(1))
		if err != nil {
			return opResult{err: err}
		}
		return opResult{data: infoStr(fi)}
	case "lstat":
		fi, err := b.Lstat(raw(1))
		if err != nil {
			return opResult{err: err}
		}
		return opResult{data: infoStr(fi)}
	case "readlink":
		t, err := b.Readlink(raw(1))
		if err != nil {
			return opResult{err: err}
		}
		return opResult{data: enc(t)}
	case "read":
		f, err := b.Open(raw(1))
		if err != nil {
			return opResult{err: err}
		}
		data, err := io.ReadAll(f)
		_ = f.Close()
		if err != nil {
			return opResult{err: err}
		}
		return opResult{data: rle(data)}
	case "readdir":
		f, err := b.Open(raw(1))
		if err != nil {
			return opResult{err: err}
		}
		names, err := f.Readdirnames(-1)
		_ = f.Close()
		if err != nil {
			return opResult{err: err}
		}
		sort.Strings(names)
		return opResult{data: encList(names)}
	}
	return opResult{err: errors.New("unsupported in direct mode " + op[0])}
}

func execOp(bp **backupfs.BackupFS, c *t2case, rec *recorder, op []string) (res opResult) {
	if c.direct != nil {
		return execDirect(c.direct, op)
	}
	b := *bp
	a := func(i int) string { return dec(op[i]) }
	num := func(i int) int { v, _ := strconv.Atoi(op[i]); return v }
	switch op[0] {
	case "create":
		f, err := b.Create(a(1))
		if err != nil {
			return opResult{err: err}
		}
		return opResult{err: writeClose(f, parseContent(op[2]))}
	case "openwrite":
		f, err := b.OpenFile(a(1), num(2), toFileMode(octal(op[3])))
		if err != nil {
			return opResult{err: err}
		}
		return opResult{err: writeClose(f, parseContent(op[4]))}
	case "mkdir":
		return opResult{err: b.Mkdir(a(1), toFileMode(octal(op[2])))}
	case "mkdirall":
		return opResult{err: b.MkdirAll(a(1), toFileMode(octal(op[2])))}
	case "remove":
		return opResult{err: b.Remove(a(1))}
	case "removeall":
		return opResult{err: b.RemoveAll(a(1))}
	case "rename":
		return opResult{err: b.Rename(a(1), a(2))}
	case "symlink":
		return opResult{err: b.Symlink(a(1), a(2))}
	case "chmod":
		return opResult{err: b.Chmod(a(1), toFileMode(octal(op[2])))}
	case "chown":
		return opResult{err: b.Chown(a(1), num(2), num(3))}
	case "lchown":
		return opResult{err: b.Lchown(a(1), num(2), num(3))}
	case "chtimes":
		t := presetTime(int64(num(2)))
		return opResult{err: b.Chtimes(a(1), t, t)}
	case "stat":
		fi, err := b.Stat(a(1))
		if err != nil {
			return opResult{err: err}
		}
		return opResult{data: infoStr(fi)}
	case "lstat":
		fi, err := b.Lstat(a(1))
		if err != nil {
			return opResult{err: err}
		}
		return opResult{data: infoStr(fi)}
	case "readlink":
		t, err := b.Readlink(a(1))
		if err != nil {
			return opResult{err: err}
		}
		return opResult{data: enc(t)}
	case "read":
		f, err := b.Open(a(1))
		if err != nil {
			return opResult{err: err}
		}
		data, err := io.ReadAll(f)
		_ = f.Close()
		if err != nil {
			return opResult{err: err}
		}
		return opResult{data: rle(data)}
	case "readdir":
		f, err := b.Open(a(1))
		if err != nil {
			return opResult{err: err}
		}
		names, err := f.Readdirnames(-1)
		_ = f.Close()
		if err != nil {
			return opResult{err: err}
		}
		sort.Strings(names)
		return opResult{data: encList(names)}
	case "forcebackup":
		return opResult{err: b.ForceBackup(a(1))}
	case "realpath":
		r, err := backupfs.VerifRealPath(b, a(1))
		if err != nil {
			return opResult{err: err}
		}
		return opResult{data: enc(r), extra: realpathFacts(c, a(1), r)}
	case "rollback":
		return opResult{err: b.Rollback()}
	case "persist":
		data, err := json.Marshal(b)
		if err != nil {
			return opResult{err: err}
		}
		nb, err := buildBackupFS(c.cfg, rec)
		if err != nil {
			return opResult{err: err}
		}
		if err := json.Unmarshal(data, nb); err != nil {
			return opResult{err: err}
		}
		*bp = nb
		return opResult{}
	case "extwrite":
		return opResult{err: os.WriteFile(a(1), parseContent(op[2]), 0o644)}
	case "extmkdirall":
		return opResult{err: os.MkdirAll(a(1), 0o755)}
	case "extremoveall":
		return opResult{err: os.RemoveAll(a(1))}
	case "extsymlink":
		return opResult{err: os.Symlink(a(1), a(2))}
	}
	return opResult{err: errors.New("unknown op " + op[0])}
}

func runCase(c *t2case, w *bufio.Writer) (err error) {
	fmt.Fprintf(w, "CASE %s\n", c.id)
	j, err := enterJail()
	if err != nil {
		return err
	}
	defer j.leave()
	syscall.Umask(0)
	if err := buildWorld(c.inits); err != nil {
		fmt.Fprintf(w, "BUILD-ERROR %v\nEND\n", err)
		return nil
	}
	rec := newRecorder()
	rec.crashAt = c.crash
	rec.faults = c.faults
	if c.cfg["direct"] == "1" {
		// base filesystem only, assembled exactly as for the BackupFS run
		cfg2 := map[string]string{}
		for k, v := range c.cfg {
			cfg2[k] = v
		}
		bb, err := buildBackupFS(cfg2, rec)
		if err != nil {
			fmt.Fprintf(w, "CTOR-ERROR %v\nEND\n", err)
			return nil
		}
		base := bb.BaseFS()
		if sp, ok := base.(*spyFS); ok {
			base = sp.inner
		}
		c.direct = &directFS{base: base, cfg: c.cfg}
	}
	b, err := buildBackupFS(c.cfg, rec)
	if err != nil {
		fmt.Fprintf(w, "CTOR-ERROR %v\nEND\n", err)
		return nil
	}
	halted := false
	for i, op := range c.ops {
		if halted {
			break
		}
		if op[0] == "dump" {
			dumpWorld(w, strconv.Itoa(i))
			dumpMap(w, strconv.Itoa(i), b)
			continue
		}
		if c.pause != nil && i == c.pause.b {
			continue // executed concurrently with operation A
		}
		if c.pause != nil && i == c.pause.a {
			runPaused(c, rec, &b, w)
			continue
		}
		func() {
			defer func() {
				if r := recover(); r != nil {
					if _, ok := r.(crashSentinel); ok {
						halted = true
						fmt.Fprintf(w, "R %d halt\n", i)
						return
					}
					panic(r)
				}
			}()
			res := execOp(&b, c, rec, op)
			switch {
			case res.err != nil:
				fmt.Fprintf(w, "R %d err:%s\n", i, errClassX(res.err))
			case res.data != "":
				fmt.Fprintf(w, "R %d ok %s\n", i, res.data)
				if res.extra != "" {
					fmt.Fprintf(w, "X %d %s\n", i, res.extra)
				}
			default:
				fmt.Fprintf(w, "R %d ok\n", i)
			}
		}()
		for _, t := range rec.take() {
			fmt.Fprintf(w, "T %d %s %s %s %s -> %s\n", i, t.tag, t.meth, enc(t.a), enc(t.b), t.err)
		}
	}
	dumpWorld(w, "final")
	if !halted {
		dumpMap(w, "final", b)
	}
	fmt.Fprintln(w, "END")
	return nil
}

func runT2(in, out string) error {
	cases, err := readCases(in)
	if err != nil {
		return err
	}
	fo, err := os.Create(out)
	if err != nil {
		return err
	}
	defer fo.Close()
	w := bufio.NewWriterSize(fo, 1<<20)
	defer w.Flush()
	for _, c := range cases {
		if err := runCase(c, w); err != nil {
			return fmt.Errorf("case %s: %w", c.id, err)
		}
	}
	return nil
}


// runPaused starts operation A, holds it at its k-th primitive call, starts
// operation B meanwhile and watches whether B makes progress while A is held.
func runPaused(c *t2case, rec *recorder, bp **backupfs.BackupFS, w *bufio.Writer) {
	ps := c.pause
	paused := make(chan struct{})
	resume := make(chan struct{})
	var once sync.Once
	rec.mu.Lock()
	start := rec.ticks
	rec.mu.Unlock()
	var holdTick int32 = -1
	heldAt := "-" // filesystem and method of the primitive call A is held at (written before paused is closed)
	rec.onCall = func(tag, meth, path string, tick int) {
		if tick-start == ps.k && atomic.CompareAndSwapInt32(&holdTick, -1, int32(tick)) {
			heldAt = tag + "." + meth
			once.Do(func() { close(paused) })
			<-resume
		}
	}
	var resA, resB opResult
	doneA := make(chan struct{})
	doneB := make(chan struct{})
	go func() { resA = execOp(bp, c, rec, c.ops[ps.a]); close(doneA) }()
	wasPaused := false
	select {
	case <-paused:
		wasPaused = true
	case <-doneA:
	}
	rec.mu.Lock()
	if !wasPaused {
		rec.onCall = nil // A finished before its k-th call: nobody must be held any more
	}
	t0 := rec.ticks
	rec.mu.Unlock()
	go func() { resB = execOp(bp, c, rec, c.ops[ps.b]); close(doneB) }()
	bDone := false
	bTicks := 0
	held := false
	if wasPaused {
		held = backupfs.VerifMuLocked(*bp) // is A inside its critical section at this call?
		select {
		case <-doneB:
			bDone = true
		case <-time.After(25 * time.Millisecond):
		}
		rec.mu.Lock()
		bTicks = rec.ticks - t0
		rec.onCall = nil
		rec.mu.Unlock()
		close(resume)
	}
	<-doneA
	<-doneB
	if !wasPaused {
		heldAt = "-"
	}
	fmt.Fprintf(w, "P %d %d paused=%v held=%v b_ticks=%d b_done=%v locked=%v at=%s\n", ps.a, ps.k, wasPaused, held, bTicks, bDone, backupfs.VerifMuLocked(*bp), heldAt)
	pr := func(i int, res opResult) {
		switch {
		case res.err != nil:
			fmt.Fprintf(w, "R %d err:%s\n", i, errClassX(res.err))
		case res.data != "":
			fmt.Fprintf(w, "R %d ok %s\n", i, res.data)
		default:
			fmt.Fprintf(w, "R %d ok\n", i)
		}
	}
	pr(ps.a, resA)
	pr(ps.b, resB)
	rec.take()
}
