//go:build verif

package main

import (
	"fmt"
	"io/fs"
	"strings"
	"time"

	"github.com/jxsl13/backupfs"
)

func errClassX(err error) string {
	c := errClass(err)
	if c == "Other" && err != nil && strings.Contains(err.Error(), "hidden check failed") {
		return "HiddenCheckFailed"
	}
	return c
}

// layer <kind> <cfg> <meth> <a> <b> <aux> <stub-readlink>
func layerEval(f []string) string {
	rec := &recFS{readlink: dec(f[7])}
	var l backupfs.FS
	switch f[1] {
	case "prefix":
		p, err := backupfs.NewPrefixFS(rec, dec(f[2]))
		if err != nil {
			return "ctor-err"
		}
		l = p
	case "volume":
		l = backupfs.NewVolumeFS(dec(f[2]), rec)
	case "hidden":
		h, err := backupfs.NewHiddenFS(rec, decList(f[2])...)
		if err != nil {
			return "ctor-err"
		}
		l = h
	default:
		return "bad-kind"
	}
	a, b := dec(f[4]), dec(f[5])
	aux := parseAux(f[6])
	ax := func(i int) int64 {
		if i < len(aux) {
			return aux[i]
		}
		return 0
	}
	var err error
	reported := "-"
	switch f[3] {
	case "create":
		var fl backupfs.File
		fl, err = l.Create(a)
		if err == nil {
			reported = "name=" + enc(fl.Name())
		}
	case "mkdir":
		err = l.Mkdir(a, fs.FileMode(ax(0)))
	case "mkdirall":
		err = l.MkdirAll(a, fs.FileMode(ax(0)))
	case "open":
		var fl backupfs.File
		fl, err = l.Open(a)
		if err == nil {
			reported = "name=" + enc(fl.Name())
		}
	case "openfile":
		var fl backupfs.File
		fl, err = l.OpenFile(a, int(ax(0)), fs.FileMode(ax(1)))
		if err == nil {
			reported = "name=" + enc(fl.Name())
		}
	case "remove":
		err = l.Remove(a)
	case "removeall":
		err = l.RemoveAll(a)
	case "rename":
		err = l.Rename(a, b)
	case "stat":
		var fi fs.FileInfo
		fi, err = l.Stat(a)
		if err == nil {
			reported = "finame=" + enc(fi.Name())
		}
	case "chmod":
		err = l.Chmod(a, fs.FileMode(ax(0)))
	case "chown":
		err = l.Chown(a, int(ax(0)), int(ax(1)))
	case "chtimes":
		err = l.Chtimes(a, time.Unix(ax(0), 0), time.Unix(ax(1), 0))
	case "lstat":
		var fi fs.FileInfo
		fi, err = l.Lstat(a)
		if err == nil {
			reported = "finame=" + enc(fi.Name())
		}
	case "symlink":
		err = l.Symlink(a, b)
	case "readlink":
		var s string
		s, err = l.Readlink(a)
		if err == nil {
			reported = "link=" + enc(s)
		}
	case "lchown":
		err = l.Lchown(a, int(ax(0)), int(ax(1)))
	default:
		return "bad-meth"
	}
	if err != nil {
		if len(rec.calls) != 0 {
			return fmt.Sprintf("rej %s after-%d-calls", errClassX(err), len(rec.calls))
		}
		return "rej " + errClassX(err)
	}
	if len(rec.calls) != 1 {
		return "multi"
	}
	c := rec.calls[0]
	return fmt.Sprintf("fwd %s %s %s %s %s", c.meth, enc(c.a), enc(c.b), auxStr(c.aux), reported)
}
