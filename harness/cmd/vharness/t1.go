package main

import (
	"bufio"
	"fmt"
	"os"
	"path/filepath"
	"sort"
	"strconv"
	"strings"

	"github.com/jxsl13/backupfs"
)

func boolStr(b bool) string {
	if b {
		return "t"
	}
	return "f"
}

// t1Basic evaluates the exported pure functions; t1Internal (export_verif
// hooks) handles the rest.
func t1Eval(f []string) string {
	switch f[0] {
	case "clean":
		return enc(filepath.Clean(dec(f[1])))
	case "join":
		return enc(filepath.Join(dec(f[1]), dec(f[2])))
	case "dir":
		return enc(filepath.Dir(dec(f[1])))
	case "base":
		return enc(filepath.Base(dec(f[1])))
	case "isabs":
		return boolStr(filepath.IsAbs(dec(f[1])))
	case "rel":
		r, err := filepath.Rel(dec(f[1]), dec(f[2]))
		if err != nil {
			return "err"
		}
		return "ok " + enc(r)
	case "less":
		return boolStr(backupfs.LessFilePathSeparators(dec(f[1]), dec(f[2])))
	case "sortmost":
		l := decList(f[1])
		sort.Sort(backupfs.ByMostFilePathSeparators(l))
		return encList(l)
	case "sortleast":
		l := decList(f[1])
		sort.Sort(backupfs.ByLeastFilePathSeparators(l))
		return encList(l)
	case "iter":
		// iter <name> <k>: visitor says stop at its k-th call (0-based); k=-1 never
		k, _ := strconv.Atoi(f[2])
		var visited []string
		n := 0
		aborted, err := backupfs.IterateDirTree(dec(f[1]), func(s string) (bool, error) {
			visited = append(visited, s)
			n++
			return n-1 != k, nil
		})
		if err != nil {
			return "err"
		}
		return encList(visited) + " " + boolStr(aborted)
	}
	if r, ok := t1Internal(f); ok {
		return r
	}
	return "unknown-function"
}

func runT1(in, out string) error {
	fi, err := os.Open(in)
	if err != nil {
		return err
	}
	defer fi.Close()
	fo, err := os.Create(out)
	if err != nil {
		return err
	}
	defer fo.Close()
	w := bufio.NewWriterSize(fo, 1<<20)
	defer w.Flush()
	sc := bufio.NewScanner(fi)
	sc.Buffer(make([]byte, 1<<20), 1<<26)
	for sc.Scan() {
		line := sc.Text()
		if line == "" {
			continue
		}
		f := strings.Split(line, " ")
		fmt.Fprintln(w, t1Eval(f))
	}
	return sc.Err()
}
