//go:build verif

package main

import (
	"errors"
	"io"
	"io/fs"
	"strconv"
	"strings"

	"github.com/jxsl13/backupfs"
)

// hlist <dirpath> <hiddenlist(raw, normalised by NewHiddenFS)> <entries> <counts> <names|infos>
// output: one token per call:  ok:<list> | eof:<list> | err
func hlistEval(f []string) string {
	rec := &recFS{}
	h, err := backupfs.NewHiddenFS(rec, decList(f[2])...)
	if err != nil {
		return "ctor-err"
	}
	stub := &stubFile{name: dec(f[1]), entries: decList(f[3])}
	hf := backupfs.VerifNewHiddenFile(stub, dec(f[1]), backupfs.VerifHiddenPaths(h))
	var out []string
	for _, cs := range strings.Split(f[4], ",") {
		c, _ := strconv.Atoi(cs)
		var names []string
		var err error
		if f[5] == "names" {
			names, err = hf.Readdirnames(c)
		} else {
			var infos []fs.FileInfo
			infos, err = hf.Readdir(c)
			for _, i := range infos {
				names = append(names, i.Name())
			}
		}
		switch {
		case err == nil:
			out = append(out, "ok:"+encList(names))
		case errors.Is(err, io.EOF):
			out = append(out, "eof:"+encList(names))
		default:
			out = append(out, "err")
		}
	}
	return strings.Join(out, " ")
}
