package main

import (
	"io"
	"io/fs"
	"os"
	"path/filepath"
	"strconv"
	"strings"
	"time"

	"github.com/jxsl13/backupfs"
)

// recFS records every call and answers with success and dummy objects.
type recCall struct {
	meth string
	a, b string
	aux  []int64
}

type recFS struct {
	calls    []recCall
	readlink string
}

var _ backupfs.FS = (*recFS)(nil)

func (r *recFS) rec(m, a, b string, aux ...int64) {
	r.calls = append(r.calls, recCall{m, a, b, aux})
}

func (r *recFS) Create(name string) (backupfs.File, error) {
	r.rec("create", name, "")
	return &stubFile{name: name}, nil
}
func (r *recFS) Mkdir(name string, perm fs.FileMode) error {
	r.rec("mkdir", name, "", int64(perm))
	return nil
}
func (r *recFS) MkdirAll(name string, perm fs.FileMode) error {
	r.rec("mkdirall", name, "", int64(perm))
	return nil
}
func (r *recFS) Open(name string) (backupfs.File, error) {
	r.rec("open", name, "")
	return &stubFile{name: name}, nil
}
func (r *recFS) OpenFile(name string, flag int, perm fs.FileMode) (backupfs.File, error) {
	r.rec("openfile", name, "", int64(flag), int64(perm))
	return &stubFile{name: name}, nil
}
func (r *recFS) Remove(name string) error    { r.rec("remove", name, ""); return nil }
func (r *recFS) RemoveAll(name string) error { r.rec("removeall", name, ""); return nil }
func (r *recFS) Rename(o, n string) error    { r.rec("rename", o, n); return nil }
func (r *recFS) Stat(name string) (fs.FileInfo, error) {
	r.rec("stat", name, "")
	return &stubInfo{name: filepath.Base(name)}, nil
}
func (r *recFS) Name() string { return "recFS" }
func (r *recFS) Chmod(name string, mode fs.FileMode) error {
	r.rec("chmod", name, "", int64(mode))
	return nil
}
func (r *recFS) Chown(name string, uid, gid int) error {
	r.rec("chown", name, "", int64(uid), int64(gid))
	return nil
}
func (r *recFS) Chtimes(name string, a, m time.Time) error {
	r.rec("chtimes", name, "", a.Unix(), m.Unix())
	return nil
}
func (r *recFS) Lstat(name string) (fs.FileInfo, error) {
	r.rec("lstat", name, "")
	return &stubInfo{name: filepath.Base(name)}, nil
}
func (r *recFS) Symlink(o, n string) error { r.rec("symlink", o, n); return nil }
func (r *recFS) Readlink(name string) (string, error) {
	r.rec("readlink", name, "")
	return r.readlink, nil
}
func (r *recFS) Lchown(name string, uid, gid int) error {
	r.rec("lchown", name, "", int64(uid), int64(gid))
	return nil
}

type stubInfo struct {
	name string
	mode fs.FileMode
}

func (s *stubInfo) Name() string       { return s.name }
func (s *stubInfo) Size() int64        { return 0 }
func (s *stubInfo) Mode() fs.FileMode  { return s.mode }
func (s *stubInfo) ModTime() time.Time { return time.Unix(0, 0) }
func (s *stubInfo) IsDir() bool        { return s.mode.IsDir() }
func (s *stubInfo) Sys() interface{}   { return nil }

// stubFile: a File whose directory listing is scripted.
type stubFile struct {
	name    string
	entries []string // remaining directory entries
	log     []string
}

var _ backupfs.File = (*stubFile)(nil)

func (f *stubFile) Name() string { return f.name }
func (f *stubFile) take(n int) ([]string, error) {
	if n <= 0 {
		out := f.entries
		f.entries = nil
		return out, nil
	}
	if len(f.entries) == 0 {
		return nil, io.EOF
	}
	if n > len(f.entries) {
		n = len(f.entries)
	}
	out := f.entries[:n]
	f.entries = f.entries[n:]
	return out, nil
}
func (f *stubFile) Readdir(count int) ([]fs.FileInfo, error) {
	f.log = append(f.log, "readdir:"+strconv.Itoa(count))
	names, err := f.take(count)
	out := make([]fs.FileInfo, 0, len(names))
	for _, n := range names {
		out = append(out, &stubInfo{name: n})
	}
	return out, err
}
func (f *stubFile) Readdirnames(n int) ([]string, error) {
	f.log = append(f.log, "readdirnames:"+strconv.Itoa(n))
	names, err := f.take(n)
	return append([]string{}, names...), err
}
func (f *stubFile) Stat() (fs.FileInfo, error)           { return &stubInfo{name: filepath.Base(f.name)}, nil }
func (f *stubFile) Sync() error                          { return nil }
func (f *stubFile) Truncate(int64) error                 { return nil }
func (f *stubFile) WriteString(s string) (int, error)    { return len(s), nil }
func (f *stubFile) Close() error                         { return nil }
func (f *stubFile) Read(p []byte) (int, error)           { return 0, io.EOF }
func (f *stubFile) ReadAt(p []byte, o int64) (int, error) { return 0, io.EOF }
func (f *stubFile) Seek(o int64, w int) (int64, error)   { return 0, nil }
func (f *stubFile) Write(p []byte) (int, error)          { return len(p), nil }
func (f *stubFile) WriteAt(p []byte, o int64) (int, error) { return len(p), nil }

func auxStr(a []int64) string {
	if len(a) == 0 {
		return "-"
	}
	s := make([]string, len(a))
	for i, v := range a {
		s[i] = strconv.FormatInt(v, 10)
	}
	return strings.Join(s, ",")
}

func parseAux(s string) []int64 {
	if s == "-" || s == "" {
		return nil
	}
	var out []int64
	for _, p := range strings.Split(s, ",") {
		v, _ := strconv.ParseInt(p, 10, 64)
		out = append(out, v)
	}
	return out
}

var _ = os.O_RDONLY
