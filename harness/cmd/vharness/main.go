// vharness runs case files against the real jxsl13/backupfs code.
package main

import (
	"fmt"
	"os"
)

func main() {
	if len(os.Args) < 2 {
		fmt.Fprintln(os.Stderr, "usage: vharness t1 <in> <out> | t2 <in> <out>")
		os.Exit(2)
	}
	var err error
	switch os.Args[1] {
	case "t1":
		err = runT1(os.Args[2], os.Args[3])
	case "t2":
		err = runT2(os.Args[2], os.Args[3])
	default:
		err = fmt.Errorf("unknown subcommand %s", os.Args[1])
	}
	if err != nil {
		fmt.Fprintln(os.Stderr, "vharness:", err)
		os.Exit(2)
	}
}
