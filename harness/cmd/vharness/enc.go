package main

import (
	"fmt"
	"strings"
)

// percent-encoding shared with the OCaml driver and the python orchestrator:
// bytes outside [A-Za-z0-9._/-] become %XX; the empty string is "%e";
// lists are comma separated, the empty list is "%n".

func enc(s string) string {
	if s == "" {
		return "%e"
	}
	var b strings.Builder
	for i := 0; i < len(s); i++ {
		c := s[i]
		if (c >= 'a' && c <= 'z') || (c >= 'A' && c <= 'Z') || (c >= '0' && c <= '9') || c == '.' || c == '_' || c == '/' || c == '-' {
			b.WriteByte(c)
		} else {
			fmt.Fprintf(&b, "%%%02X", c)
		}
	}
	return b.String()
}

func dec(s string) string {
	if s == "%e" {
		return ""
	}
	var b strings.Builder
	for i := 0; i < len(s); i++ {
		if s[i] == '%' && i+2 < len(s) {
			var v int
			fmt.Sscanf(s[i+1:i+3], "%02X", &v)
			b.WriteByte(byte(v))
			i += 2
		} else {
			b.WriteByte(s[i])
		}
	}
	return b.String()
}

func encList(l []string) string {
	if len(l) == 0 {
		return "%n"
	}
	out := make([]string, len(l))
	for i, s := range l {
		out[i] = enc(s)
	}
	return strings.Join(out, ",")
}

func decList(s string) []string {
	if s == "%n" {
		return []string{}
	}
	parts := strings.Split(s, ",")
	out := make([]string, len(parts))
	for i, p := range parts {
		out[i] = dec(p)
	}
	return out
}
