//go:build verif

package main

import (
	"fmt"
	"io/fs"
	"sync"
	"syscall"
	"time"

	"github.com/jxsl13/backupfs"
)

// crashSentinel is panicked by the spy at the crash point and recovered by the runner.
type crashSentinel struct{}

type faultSpec struct {
	tag, meth, path string
	occ             int
}

type traceRec struct {
	tag, meth, a, b string
	err             string
}

// recorder is shared by the base and the backup spy of one case.
type recorder struct {
	mu      sync.Mutex
	trace   []traceRec
	ticks   int
	crashAt int // -1: never
	faults  []faultSpec
	counts  map[string]int
	// scheduling hook (C10): called at every primitive call before it runs
	onCall func(tag, meth, path string, tick int)
}

func newRecorder() *recorder {
	return &recorder{crashAt: -1, counts: map[string]int{}}
}

// enter is called before a primitive call; it returns an injected error or nil.
func (r *recorder) enter(tag, meth, a string) (bool, int) {
	r.mu.Lock()
	if r.crashAt >= 0 && r.ticks >= r.crashAt {
		r.mu.Unlock()
		panic(crashSentinel{})
	}
	tick := r.ticks
	r.ticks++
	key := tag + "\x00" + meth + "\x00" + a
	n := r.counts[key]
	r.counts[key] = n + 1
	inject := false
	for _, f := range r.faults {
		if f.tag == tag && f.meth == meth && f.path == a && f.occ == n {
			inject = true
		}
	}
	cb := r.onCall
	r.mu.Unlock()
	if cb != nil {
		cb(tag, meth, a, tick)
	}
	return inject, tick
}

func (r *recorder) leave(tag, meth, a, b string, err error) {
	r.mu.Lock()
	r.trace = append(r.trace, traceRec{tag, meth, a, b, errClassX(err)})
	r.mu.Unlock()
}

func (r *recorder) take() []traceRec {
	r.mu.Lock()
	t := r.trace
	r.trace = nil
	r.mu.Unlock()
	return t
}

var errInjected = &fs.PathError{Op: "injected", Path: "fault", Err: syscall.EIO}

type spyFS struct {
	tag   string
	inner backupfs.FS
	rec   *recorder
}

var _ backupfs.FS = (*spyFS)(nil)

func (s *spyFS) Name() string { return "spy(" + s.inner.Name() + ")" }

func (s *spyFS) do(meth, a, b string, f func() error) error {
	inject, _ := s.rec.enter(s.tag, meth, a)
	var err error
	if inject {
		err = errInjected
	} else {
		err = f()
	}
	s.rec.leave(s.tag, meth, a, b, err)
	return err
}

func (s *spyFS) wrapFile(f backupfs.File, p string) backupfs.File {
	return &spyFile{File: f, tag: s.tag, path: p, rec: s.rec}
}

func (s *spyFS) Create(name string) (f backupfs.File, err error) {
	err = s.do("create", name, "", func() (e error) { f, e = s.inner.Create(name); return })
	if err != nil {
		return nil, err
	}
	return s.wrapFile(f, name), nil
}
func (s *spyFS) Open(name string) (f backupfs.File, err error) {
	err = s.do("open", name, "", func() (e error) { f, e = s.inner.Open(name); return })
	if err != nil {
		return nil, err
	}
	return s.wrapFile(f, name), nil
}
func (s *spyFS) OpenFile(name string, flag int, perm fs.FileMode) (f backupfs.File, err error) {
	err = s.do("openfile", name, "", func() (e error) { f, e = s.inner.OpenFile(name, flag, perm); return })
	if err != nil {
		return nil, err
	}
	return s.wrapFile(f, name), nil
}
func (s *spyFS) Mkdir(name string, perm fs.FileMode) error {
	return s.do("mkdir", name, "", func() error { return s.inner.Mkdir(name, perm) })
}
func (s *spyFS) MkdirAll(name string, perm fs.FileMode) error {
	return s.do("mkdirall", name, "", func() error { return s.inner.MkdirAll(name, perm) })
}
func (s *spyFS) Remove(name string) error {
	return s.do("remove", name, "", func() error { return s.inner.Remove(name) })
}
func (s *spyFS) RemoveAll(name string) error {
	return s.do("removeall", name, "", func() error { return s.inner.RemoveAll(name) })
}
func (s *spyFS) Rename(o, n string) error {
	return s.do("rename", o, n, func() error { return s.inner.Rename(o, n) })
}
func (s *spyFS) Stat(name string) (fi fs.FileInfo, err error) {
	err = s.do("stat", name, "", func() (e error) { fi, e = s.inner.Stat(name); return })
	return
}
func (s *spyFS) Lstat(name string) (fi fs.FileInfo, err error) {
	err = s.do("lstat", name, "", func() (e error) { fi, e = s.inner.Lstat(name); return })
	return
}
func (s *spyFS) Chmod(name string, mode fs.FileMode) error {
	return s.do("chmod", name, "", func() error { return s.inner.Chmod(name, mode) })
}
func (s *spyFS) Chown(name string, uid, gid int) error {
	return s.do("chown", name, "", func() error { return s.inner.Chown(name, uid, gid) })
}
func (s *spyFS) Lchown(name string, uid, gid int) error {
	return s.do("lchown", name, "", func() error { return s.inner.Lchown(name, uid, gid) })
}
func (s *spyFS) Chtimes(name string, a, m time.Time) error {
	return s.do("chtimes", name, "", func() error { return s.inner.Chtimes(name, a, m) })
}
func (s *spyFS) Symlink(o, n string) error {
	return s.do("symlink", n, o, func() error { return s.inner.Symlink(o, n) })
}
func (s *spyFS) Readlink(name string) (t string, err error) {
	err = s.do("readlink", name, "", func() (e error) { t, e = s.inner.Readlink(name); return })
	return
}

// spyFile ticks on the handle methods the code under study uses.
type spyFile struct {
	backupfs.File
	tag, path string
	rec       *recorder
}

func (f *spyFile) do(meth string, fn func() error) error {
	inject, _ := f.rec.enter(f.tag, meth, f.path)
	var err error
	if inject {
		err = errInjected
	} else {
		err = fn()
	}
	// io.EOF from Read is the normal end, recorded as ok
	rec := err
	if err != nil && err.Error() == "EOF" {
		rec = nil
	}
	f.rec.leave(f.tag, meth, f.path, "", rec)
	return err
}

func (f *spyFile) Read(p []byte) (n int, err error) {
	err = f.do("read", func() (e error) { n, e = f.File.Read(p); return })
	return
}
func (f *spyFile) Write(p []byte) (n int, err error) {
	err = f.do("write", func() (e error) { n, e = f.File.Write(p); return })
	return
}
func (f *spyFile) Close() error {
	return f.do("close", func() error { return f.File.Close() })
}
func (f *spyFile) Stat() (fi fs.FileInfo, err error) {
	err = f.do("hstat", func() (e error) { fi, e = f.File.Stat(); return })
	return
}
func (f *spyFile) Readdirnames(n int) (names []string, err error) {
	err = f.do("readdirnames", func() (e error) { names, e = f.File.Readdirnames(n); return })
	return
}

var _ = fmt.Sprint
