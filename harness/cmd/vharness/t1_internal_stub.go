//go:build !verif

package main

func t1Internal(f []string) (string, bool) { return "", false }

func runT2(in, out string) error { return nil }
