"""Shared generators/oracle helpers for the HiddenFS properties (C06, C15, C11)."""
import pathlib_go as pg

HIDDEN_SETS = [
    [b"/h"], [b"/var/backups"], [b"/h", b"/h/sub"], [b"/a/b", b"/c"], [b"/backups", b"/backups2/x"],
    [b"/var/backups/", b"//x/./y"], [b"h"], [b"rel/h", b"c"], [b"/a/b/c/d"], [b"/\xc3\xa4"],
]
HCOMPS = [b"h", b"sub", b"var", b"backups", b"backups2", b"a", b"b", b"c", b"d", b"x", b"y", b"rel", b"..", b".", b"", b"\xc3\xa4", b"hh"]


def hnames(rnd, n, maxc=5):
    out = []
    for _ in range(n):
        k = rnd.randint(0, maxc)
        s = b"/".join(rnd.choice(HCOMPS) for _ in range(k))
        if rnd.random() < 0.7:
            s = b"/" + s
        if rnd.random() < 0.1:
            s += b"/"
        out.append(s)
    return out


def spellings(rnd, p):
    """unclean spellings of a cleaned path p"""
    outs = [p, p + b"/", p + b"/.", p.replace(b"/", b"//", 1)]
    if b"/" in p.strip(b"/"):
        head, tail = p.rsplit(b"/", 1)
        outs.append(head + b"/zz/../" + tail)
        outs.append(head + b"/./" + tail)
    return outs


def norm_hidden(hs):
    return [pg.goclean(h) for h in hs]


def comparable(hs, name):
    cn = pg.goclean(name)
    return all(h.startswith(b"/") == cn.startswith(b"/") for h in norm_hidden(hs)) and not any(
        (not h.startswith(b"/")) and (h == b".." or h.startswith(b"../")) for h in norm_hidden(hs)) and not (
        (not cn.startswith(b"/")) and (cn == b".." or cn.startswith(b"../")))


def below(hs, name):
    cn = pg.goclean(name)
    return any(pg.within(h, cn) for h in norm_hidden(hs))


def parent_of_hidden(hs, name):
    cn = pg.goclean(name)
    return any(h != cn and pg.within(cn, h) for h in norm_hidden(hs))
