"""Two-phase fault / crash enumeration: run the fault-free history first, read
its primitive trace from the implementation, then derive one variant per call."""
import t2
import worldrun
from common import dec


def fault_variants(pid, base_cases, model_ok, rnd, per_history, select, tags):
    """returns (info about the fault-free stream, list of variant cases)"""
    impl, mod = t2.run_both("%s.base" % pid, base_cases, model=model_ok)
    stream = {"name": "fault_free", "n": len(base_cases), "mismatch": [], "oracle": [], "nontrivial": len(base_cases),
              "desc": "the fault-free runs of the same histories, primitive traces compared with the model (L2)", "exhaustive": False}
    trig = {}
    variants = []
    kinds = {}
    for c in base_cases:
        a = impl[c.id]
        if mod is not None:
            b = mod[c.id]
            d = t2.compare(c, a, b, 2)
            if d and len(stream["mismatch"]) < 20:
                stream["mismatch"].append({"input": c.id, "diff": d[:5], "case": c.to_text(), "impl": "", "model": ""})
            trig[c.id] = sorted(b["F"])
        aligned = mod is None or all(a["T"].get(i, []) == mod[c.id]["T"].get(i, []) for i in set(a["T"]) | set(mod[c.id]["T"]))
        # count occurrences over the whole case trace
        seen = {}
        sites = []
        for i in sorted(a["T"]):
            for t in a["T"][i]:
                f = t.split(" ")
                key = (f[0], f[1], f[2])
                occ = seen.get(key, 0)
                seen[key] = occ + 1
                if f[0] in tags and select(c, i, c.ops[i]):
                    sites.append((f[0], f[1], dec(f[2]), occ, i))
        if len(sites) > per_history:
            # stratified: prefer the (filesystem, method) kinds least covered so far over the
            # whole stream, so that rare calls (Close, Write, Chtimes ...) are not crowded out
            rnd.shuffle(sites)
            chosen = []
            pool = list(sites)
            while len(chosen) < per_history and pool:
                pool.sort(key=lambda s: kinds.get((s[0], s[1]), 0))
                s0 = pool.pop(0)
                kinds[(s0[0], s0[1])] = kinds.get((s0[0], s0[1]), 0) + 1
                chosen.append(s0)
            sites = chosen
        else:
            for s0 in sites:
                kinds[(s0[0], s0[1])] = kinds.get((s0[0], s0[1]), 0) + 1
        for k, s in enumerate(sites):
            v = t2.Case("%s!%d" % (c.id, k), c.cfg, c.inits, c.ops, faults=[s[:4]], meta={"parent": c.id, "fault_op": s[4], "twin": not aligned})
            variants.append(v)
    stream["distribution"] = {"fault_sites_by_kind": {"%s %s" % k: v for k, v in sorted(kinds.items())}}
    return {"stream": stream, "triggers": trig}, variants


def history_triggers(r0):
    """a variant inherits the known-finding triggers the model reports for its fault-free history"""
    trig = r0["triggers"]

    def f(case, a, b):
        # ... and those the model reports for the variant's own run: a failed operation changes
        # what the later operations of the history meet (e.g. a link that a failed RemoveAll left)
        own = sorted(b["F"]) if b and b.get("F") else []
        return sorted(set(trig.get(case.meta.get("parent"), [])) | set(own))
    return f
