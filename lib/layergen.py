"""Generators for the 'layer' correspondence stream (PrefixFS/VolumeFS/HiddenFS
as call transformers over a recording stub filesystem)."""
import itertools
import random

from common import enc, enc_list, all_strings, ALPHABET

METHS1 = ["create", "mkdir", "mkdirall", "open", "openfile", "remove", "removeall", "stat",
          "chmod", "chown", "chtimes", "lstat", "readlink", "lchown"]
METHS2 = ["rename", "symlink"]

AUX = {
    "create": ["-"], "mkdir": ["493"], "mkdirall": ["448"], "open": ["-"],
    "openfile": ["0,0", "577,420", "2,0", "1089,384", "66,438"],
    "remove": ["-"], "removeall": ["-"], "rename": ["-"], "stat": ["-"], "chmod": ["420"],
    "chown": ["1000,1001"], "chtimes": ["1000,2000"], "lstat": ["-"], "symlink": ["-"],
    "readlink": ["-"], "lchown": ["0,1000"],
}

COMPS = [b"a", b"b", b"app", b"app2", b"ap", b"..", b".", b"", b"\xc3\xa4", b"x.y", b"..."]


def names(rnd, n, maxc=5):
    """structured path strings: absolute/relative, '..' runs, doubled/trailing separators"""
    out = []
    for _ in range(n):
        k = rnd.randint(0, maxc)
        cs = [rnd.choice(COMPS) for _ in range(k)]
        s = b"/".join(cs)
        r = rnd.random()
        if r < 0.6:
            s = b"/" + s
        if rnd.random() < 0.15:
            s += b"/"
        out.append(s)
    return out


def layer_line(kind, cfg, meth, a, b=b"", aux="-", stub=b"/x"):
    cfgs = enc_list(cfg) if isinstance(cfg, list) else enc(cfg)
    return "layer %s %s %s %s %s %s %s" % (kind, cfgs, meth, enc(a), enc(b), aux, enc(stub))
