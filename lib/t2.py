"""T2: histories on real trees (Go harness in a chroot) vs the extracted model."""
import os
import random
import subprocess
from concurrent.futures import ThreadPoolExecutor

from common import BUILD, OUT, enc, dec, enc_list, dec_list, BuildError

NPROC = 12


class Case:
    def __init__(self, cid, cfg, inits, ops, faults=None, crash=-1, meta=None):
        self.id = cid
        self.cfg = cfg          # dict ctor,p,hs,q   (bytes values except ctor; hs list)
        self.inits = inits      # list of tuples ('D', path, perm, uid, gid, mt) / ('F', ..., content) / ('L', path, uid, gid, mt, target)
        self.ops = ops          # list of tuples (name, args...)  (args: bytes for paths, str for specs/numbers)
        self.faults = faults or []   # (tag, meth, path, occ)
        self.crash = crash
        self.meta = meta or {}

    def cfg_line(self):
        c = self.cfg
        parts = ["ctor=" + c["ctor"], "q=" + enc(c.get("q_raw", c["q"]))]
        if self.meta.get("direct"):
            parts.append("direct=1")
        if self.meta.get("raw"):
            parts.append("raw=1")
        if c["ctor"] == "generic":
            parts.append("p=" + (enc(c["p"]) if c.get("p") else "-"))
            parts.append("hs=" + (enc_list(c["hs"]) if c.get("hs") else "%n"))
        return "CFG " + " ".join(parts)

    def to_text(self):
        out = ["CASE " + self.id, self.cfg_line()]
        for i in self.inits:
            if i[0] == "D":
                out.append("D %s %o %d %d %d" % (enc(i[1]), i[2], i[3], i[4], i[5]))
            elif i[0] == "F":
                out.append("F %s %o %d %d %d %s" % (enc(i[1]), i[2], i[3], i[4], i[5], i[6]))
            else:
                out.append("L %s %d %d %d %s" % (enc(i[1]), i[2], i[3], i[4], enc(i[5])))
        for f in self.faults:
            out.append("FAULT %s %s %s %d" % (f[0], f[1], enc(f[2]), f[3]))
        if self.crash >= 0:
            out.append("CRASH %d" % self.crash)
        if self.meta.get("pause"):
            out.append("PAUSE %d %d THEN %d" % self.meta["pause"])
        for o in self.ops:
            out.append("OP " + " ".join([o[0]] + [enc(a) if isinstance(a, bytes) else str(a) for a in o[1:]]))
        out.append("END")
        return "\n".join(out)


def parse_cases(text):
    """inverse of Case.to_text"""
    cases = []
    cur = None
    for line in text.split("\n"):
        w = line.split(" ")
        if w[0] == "CASE":
            cur = Case(w[1], {}, [], [])
        elif cur is None:
            continue
        elif w[0] == "CFG":
            for kv in w[1:]:
                k, v = kv.split("=", 1)
                if k == "ctor":
                    cur.cfg["ctor"] = v
                elif k == "hs":
                    cur.cfg["hs"] = dec_list(v)
                elif k in ("p", "q"):
                    cur.cfg[k] = None if v == "-" else dec(v)
        elif w[0] == "D":
            cur.inits.append(("D", dec(w[1]), int(w[2], 8), int(w[3]), int(w[4]), int(w[5])))
        elif w[0] == "F":
            cur.inits.append(("F", dec(w[1]), int(w[2], 8), int(w[3]), int(w[4]), int(w[5]), w[6]))
        elif w[0] == "L":
            cur.inits.append(("L", dec(w[1]), int(w[2]), int(w[3]), int(w[4]), dec(w[5])))
        elif w[0] == "FAULT":
            cur.faults.append((w[1], w[2], dec(w[3]), int(w[4])))
        elif w[0] == "CRASH":
            cur.crash = int(w[1])
        elif w[0] == "PAUSE":
            cur.meta["pause"] = (int(w[1]), int(w[2]), int(w[4]))
        elif w[0] == "OP":
            cur.ops.append(_parse_op(w[1:]))
        elif w[0] == "END":
            cases.append(cur)
            cur = None
    return cases


_PATH_ARGS = {"create": [1], "openwrite": [1], "mkdir": [1], "mkdirall": [1], "remove": [1], "removeall": [1],
              "rename": [1, 2], "symlink": [1, 2], "chmod": [1], "chown": [1], "lchown": [1], "chtimes": [1],
              "stat": [1], "lstat": [1], "readlink": [1], "read": [1], "readdir": [1], "forcebackup": [1], "realpath": [1],
              "extwrite": [1], "extmkdirall": [1], "extremoveall": [1], "extsymlink": [1, 2]}


def _parse_op(w):
    out = [w[0]]
    for i, a in enumerate(w[1:], 1):
        if i in _PATH_ARGS.get(w[0], []):
            out.append(dec(a))
        elif w[0] in ("chown", "lchown", "chtimes") or (w[0] == "openwrite" and i == 2):
            out.append(int(a))
        else:
            out.append(a)
    return tuple(out)


def load_corpus(subdir="findings", with_force=False):
    """the recorded histories.  Those containing a ForceBackup re-baseline a path, so the
    oracles that compare with the *initial* tree do not apply to them: they are used only by
    the checks that ask for them (C17, C08's ForceBackup stream)."""
    import glob
    from common import VERIF
    cases = []
    for f in sorted(glob.glob(os.path.join(VERIF, "corpus", subdir, "*.case"))):
        cases += parse_cases(open(f).read())
    if not with_force:
        cases = [c for c in cases if not any(o[0] == "forcebackup" for o in c.ops)]
    return cases


def parse_output(path):
    """-> dict case id -> {'R': {i: (status, data)}, 'T': {i: [..]}, 'S': {label: [lines]}, 'M': {label: [lines]}, 'raw': [...]}"""
    res = {}
    cur = None
    for line in open(path, encoding="latin-1"):
        line = line.rstrip("\n")
        if line.startswith("CASE "):
            cur = {"R": {}, "T": {}, "S": {}, "M": {}, "F": set(), "X": {}, "err": None}
            res[line[5:]] = cur
        elif cur is None:
            continue
        elif line.startswith("R "):
            f = line.split(" ", 3)
            cur["R"][int(f[1])] = (f[2], f[3] if len(f) > 3 else "")
        elif line.startswith("T "):
            f = line.split(" ", 2)
            cur["T"].setdefault(int(f[1]), []).append(f[2])
        elif line.startswith("S "):
            f = line.split(" ", 2)
            cur["S"].setdefault(f[1], []).append(f[2])
        elif line.startswith("M "):
            f = line.split(" ", 2)
            cur["M"].setdefault(f[1], []).append(f[2])
        elif line.startswith("P "):
            cur["P"] = dict(kv.split("=") for kv in line.split(" ")[3:])
        elif line.startswith("X "):
            f = line.split(" ", 2)
            cur["X"][int(f[1])] = f[2]
        elif line.startswith("F "):
            cur["F"].add(line.split(" ")[2])
            cur.setdefault("Fi", {}).setdefault(int(line.split(" ")[1]), set()).add(line.split(" ")[2])
        elif line.startswith("BUILD-ERROR") or line.startswith("CTOR-ERROR"):
            cur["err"] = line
    return res


def run_impl_only(tag, cases, nproc=NPROC):
    impl, _ = run_both(tag, cases, model=False, nproc=nproc)
    return impl


def run_model_only(tag, cases):
    os.makedirs(OUT, exist_ok=True)
    inp = os.path.join(OUT, tag + ".m.cases")
    with open(inp, "w") as f:
        f.write("\n".join(c.to_text() for c in cases) + "\n")
    outp = os.path.join(OUT, tag + ".m.model")
    rc, out = _run("modelrun", inp, outp)
    if rc != 0:
        raise BuildError("model run " + tag, out)
    return parse_output(outp)


def _run(binary, inp, outp):
    p = subprocess.run([os.path.join(BUILD, binary), "t2", inp, outp], stdout=subprocess.PIPE, stderr=subprocess.STDOUT, text=True)
    return p.returncode, p.stdout


def run_both(tag, cases, model=True, nproc=NPROC):
    """Run cases through the implementation (sharded over processes) and the model."""
    os.makedirs(OUT, exist_ok=True)
    shards = [cases[i::nproc] for i in range(nproc)]
    shards = [s for s in shards if s]
    jobs = []
    for k, sh in enumerate(shards):
        inp = os.path.join(OUT, "%s.%d.cases" % (tag, k))
        with open(inp, "w") as f:
            f.write("\n".join(c.to_text() for c in sh) + "\n")
        jobs.append(("vharness", inp, os.path.join(OUT, "%s.%d.impl" % (tag, k))))
        if model:
            jobs.append(("modelrun", inp, os.path.join(OUT, "%s.%d.model" % (tag, k))))
    with ThreadPoolExecutor(max_workers=16) as ex:
        rcs = list(ex.map(lambda j: _run(*j), jobs))
    for j, (rc, out) in zip(jobs, rcs):
        if rc != 0:
            raise BuildError("t2 run %s %s rc=%d" % (j[0], j[1], rc), out)
    impl, mod = {}, {}
    for k in range(len(shards)):
        impl.update(parse_output(os.path.join(OUT, "%s.%d.impl" % (tag, k))))
        if model:
            mod.update(parse_output(os.path.join(OUT, "%s.%d.model" % (tag, k))))
    return impl, (mod if model else None)


# ---------------------------------------------------------------- comparison

def norm_trace(op, tr):
    """canonical form of one operation's primitive trace.  Rollback's first loop
    ranges over a Go map: its leading run of base lstat calls is compared as a
    multiset."""
    # copyDir/copyFile compare two kernel-assigned timestamps when the original's own
    # mtime is not a preset one (external modification, earlier write in the same or a
    # previous transaction): whether they coincide depends on the clock tick, so the
    # Chtimes after the Lstat [Chmod] of the same path is dropped on both sides (the
    # resulting mtimes are still compared in the dumps)
    out = []
    for j, t in enumerate(tr):
        f = t.split(" ")
        if f[1] == "chtimes" and j >= 1:
            # copyDir/copyFile: Lstat, [Chmod], Chtimes if the two timestamps differ
            f1 = tr[j - 1].split(" ")
            if f1[0] == f[0] and f1[2] == f[2] and f1[1] == "lstat":
                continue
            if j >= 2:
                f2 = tr[j - 2].split(" ")
                if f1[0] == f[0] and f1[2] == f[2] and f1[1] == "chmod" and f2[0] == f[0] and f2[2] == f[2] and f2[1] == "lstat":
                    continue
        out.append(t)
    tr = out
    if op and op[0] == "rollback":
        i = 0
        while i < len(tr) and tr[i].startswith("base lstat "):
            i += 1
        return sorted(tr[:i]) + tr[i:]
    return tr


def strip_dir_mtime(line):
    """S-line without the mtime token of directories (level L1: directory
    timestamps are not compared)"""
    f = line.split(" ")
    if len(f) >= 6 and f[1] == "D":
        f[5] = "*"
    return " ".join(f)


def compare(case, a, b, level):
    """a = implementation, b = model. Returns list of difference descriptions."""
    diffs = []
    if a.get("err") or b.get("err"):
        if a.get("err") != b.get("err"):
            diffs.append("setup: impl=%s model=%s" % (a.get("err"), b.get("err")))
        return diffs
    for i in sorted(set(a["R"]) | set(b["R"])):
        if a["R"].get(i) != b["R"].get(i):
            diffs.append("op %d %s: impl=%s model=%s" % (i, case.ops[i][0] if i < len(case.ops) else "?", a["R"].get(i), b["R"].get(i)))
    for lab in sorted(set(a["S"]) | set(b["S"])):
        la, lb = a["S"].get(lab, []), b["S"].get(lab, [])
        if level == 1:
            la, lb = [strip_dir_mtime(x) for x in la], [strip_dir_mtime(x) for x in lb]
        if la != lb:
            sa, sb = set(la), set(lb)
            diffs.append("dump %s: only-impl=%s only-model=%s" % (lab, sorted(sa - sb)[:4], sorted(sb - sa)[:4]))
    for lab in sorted(set(a["M"]) | set(b["M"])):
        if sorted(a["M"].get(lab, [])) != sorted(b["M"].get(lab, [])):
            sa, sb = set(a["M"].get(lab, [])), set(b["M"].get(lab, []))
            diffs.append("map %s: only-impl=%s only-model=%s" % (lab, sorted(sa - sb)[:4], sorted(sb - sa)[:4]))
    if level >= 2:
        for i in sorted(set(a["T"]) | set(b["T"])):
            op = case.ops[i] if i < len(case.ops) else None
            ta, tb = norm_trace(op, a["T"].get(i, [])), norm_trace(op, b["T"].get(i, []))
            if ta != tb:
                k = 0
                while k < min(len(ta), len(tb)) and ta[k] == tb[k]:
                    k += 1
                diffs.append("trace op %d %s: first difference at call %d: impl=%s model=%s" % (
                    i, op[0] if op else "?", k, ta[k] if k < len(ta) else "<end>", tb[k] if k < len(tb) else "<end>"))
    return diffs


# ---------------------------------------------------------------- generation

NAMES = [b"a", b"b", b"ab", b"d", b"f", b"l", b"\xc3\xa4", b"e\xe2\x82\xac", b"..d", b"a\\b"]
FILE_PERMS = [0o644, 0o600, 0o755, 0o4755, 0o2755, 0o2644, 0o6755, 0o1644, 0o444, 0o0]
DIR_PERMS = [0o755, 0o700, 0o2755, 0o1777, 0o775]
IDS = [0, 1000, 1001]
CONTENTS = ["-", "Bx", "Bhello", "Bhello+R33x7", "R97x40000", "R98x70000+Bend"]

CONFIGS = [
    {"ctor": "readme", "q": b"/backups"},
    {"ctor": "newwithfs", "q": b"/var/backups"},
    {"ctor": "new", "q": b"/bk/x/y"},
    {"ctor": "generic", "p": b"/base", "hs": [], "q": b"/backup"},
    {"ctor": "generic", "p": b"/base", "hs": [b"/backup"], "q": b"/base/backup"},
]


def view_prefix(cfg):
    # a PrefixFS mounted at "/" re-roots nothing: view paths are world paths
    return cfg["p"] if cfg["ctor"] == "generic" and cfg.get("p") and cfg["p"] != b"/" else b""


def world_path(cfg, v):
    """view path -> world path"""
    p = view_prefix(cfg)
    if v == b"/":
        return p or b"/"
    return p + v


def parents(p):
    out = []
    while p != b"/":
        p = p.rsplit(b"/", 1)[0] or b"/"
        out.append(p)
    return out


def gen_tree(rnd, cfg, size=None):
    """returns (inits, entries) ; entries: dict view path -> kind"""
    ents = {b"/": "D"}
    order = [b"/"]
    n = size if size is not None else rnd.randint(3, 12)
    tries = 0
    while len(order) < n + 1 and tries < 200:
        tries += 1
        dirs = [p for p in order if ents[p] == "D" and p.count(b"/") < 4]
        par = rnd.choice(dirs)
        name = rnd.choice(NAMES)
        path = (par if par != b"/" else b"") + b"/" + name
        if path in ents:
            continue
        r = rnd.random()
        kind = "D" if r < 0.35 else ("F" if r < 0.75 else "L")
        ents[path] = kind
        order.append(path)
    inits = []
    mt = 10
    pfx = view_prefix(cfg)
    # the world root and the chain down to the view root / backup dir
    world_dirs = []
    for wp in ([pfx] if pfx else []) + [cfg["q"]]:
        for a in reversed(parents(wp)):
            if a not in world_dirs:
                world_dirs.append(a)
        if wp not in world_dirs:
            world_dirs.append(wp)
    if b"/" not in world_dirs:
        world_dirs.insert(0, b"/")
    world_dirs.sort(key=lambda x: (x.count(b"/") if x != b"/" else 0, x))
    meta = {}
    for wd in world_dirs:
        mt += 1
        inits.append(("D", wd, 0o755, 0, 0, mt))
    have = set(i[1] for i in inits)
    for path in order:
        k = ents[path]
        wp = world_path(cfg, path)
        if wp in have:
            continue
        have.add(wp)
        mt += 1
        uid, gid = rnd.choice(IDS), rnd.choice(IDS)
        if k == "D":
            inits.append(("D", wp, rnd.choice(DIR_PERMS), uid, gid, mt))
        elif k == "F":
            inits.append(("F", wp, rnd.choice(FILE_PERMS), uid, gid, mt, rnd.choice(CONTENTS)))
        else:
            inits.append(("L", wp, uid, gid, mt, gen_target(rnd, cfg, path, order)))
    return inits, ents


def gen_target(rnd, cfg, linkpath, order):
    r = rnd.random()
    cand = rnd.choice(order)
    if r < 0.35:
        # absolute (view-absolute targets live below the prefix on disk)
        return world_path(cfg, cand)
    if r < 0.75:
        # relative to the link's directory
        d = linkpath.rsplit(b"/", 1)[0] or b"/"
        dc = [c for c in d.split(b"/") if c]
        cc = [c for c in cand.split(b"/") if c]
        i = 0
        while i < len(dc) and i < len(cc) and dc[i] == cc[i]:
            i += 1
        rel = [b".."] * (len(dc) - i) + cc[i:]
        return b"/".join(rel) or b"."
    if r < 0.85:
        return b"nonexistent"
    if r < 0.92:
        return linkpath.rsplit(b"/", 1)[1]  # self cycle
    return rnd.choice([b"..", b"../..", b".", b"x/../" + rnd.choice(NAMES)])


def spell(rnd, p):
    r = rnd.random()
    if r < 0.72 or p == b"/":
        return p
    if r < 0.78:
        return p + b"/"
    if r < 0.84:
        return p.replace(b"/", b"//", 1)
    if r < 0.90:
        head, tail = p.rsplit(b"/", 1)
        return head + b"/./" + tail
    if r < 0.95:
        head, tail = p.rsplit(b"/", 1)
        return head + b"/zz/../" + tail
    return p[1:] if len(p) > 1 else p  # relative spelling


def pick_path(rnd, ents):
    """mostly existing entries, sometimes a fresh name in an existing directory,
    sometimes below a symlink or a file"""
    keys = list(ents)
    r = rnd.random()
    if r < 0.55:
        return rnd.choice(keys)
    par = rnd.choice(keys)
    name = rnd.choice(NAMES + [b"new", b"n2"])
    p = (par if par != b"/" else b"") + b"/" + name
    if r < 0.95:
        return p
    return p + b"/" + rnd.choice(NAMES)


MUTATORS = ["create", "openwrite", "mkdir", "mkdirall", "remove", "removeall", "rename", "symlink",
            "chmod", "chown", "lchown", "chtimes"]
OPEN_FLAGS = [1, 2, 0x41, 0x42, 0x241, 0x242, 0x401, 0x441, 0xC1, 0x201, 0x200, 0x40, 0xC0, 0x240, 0x400, 0x202]


ORIG = {}   # view path -> (perm, uid, gid) of the initial entry (filled by gen_history)


def gen_op(rnd, ents, kinds=None, allow_force=False):
    kinds = kinds or MUTATORS
    k = rnd.choice(kinds)
    p0 = pick_path(rnd, ents)
    p = spell(rnd, p0)
    if k == "chmod" and p0 in ORIG and rnd.random() < 0.4:
        return ("chmod", p, "%o" % ORIG[p0][0])      # back to the original mode
    if k in ("chown", "lchown") and p0 in ORIG and rnd.random() < 0.3:
        return (k, p, ORIG[p0][1], ORIG[p0][2])
    if k == "create":
        return ("create", p, rnd.choice(CONTENTS))
    if k == "openwrite":
        return ("openwrite", p, rnd.choice(OPEN_FLAGS), "%o" % rnd.choice([0o644, 0o600, 0o755]), rnd.choice(CONTENTS))
    if k == "mkdir":
        return ("mkdir", p, "%o" % rnd.choice([0o755, 0o700, 0o750]))
    if k == "mkdirall":
        return ("mkdirall", p, "%o" % rnd.choice([0o755, 0o700]))
    if k in ("remove", "removeall"):
        return (k, p)
    if k == "rename":
        return ("rename", p, spell(rnd, pick_path(rnd, ents)))
    if k == "symlink":
        t = rnd.choice([pick_path(rnd, ents), b"f", b"../f", b"d", b"nonexistent", b"..", b"a/b"])
        return ("symlink", t, p)
    if k == "chmod":
        return ("chmod", p, "%o" % rnd.choice(FILE_PERMS + DIR_PERMS))
    if k in ("chown", "lchown"):
        return (k, p, rnd.choice(IDS), rnd.choice(IDS))
    if k == "chtimes":
        return ("chtimes", p, rnd.randint(5000, 6000))
    if k in ("stat", "lstat", "readlink", "read", "readdir", "forcebackup", "realpath"):
        return (k, p)
    raise ValueError(k)


def apply_guess(ents, op):
    """keep the generator's idea of existing names roughly current (no semantics:
    only so that later operations keep hitting interesting paths)"""
    from pathlib_go import goclean
    k = op[0]
    try:
        if k in ("create", "openwrite", "mkdir", "mkdirall"):
            p = goclean(op[1])
            if p.startswith(b"/"):
                ents.setdefault(p, "D" if k.startswith("mkdir") else "F")
        elif k == "symlink":
            p = goclean(op[2])
            if p.startswith(b"/"):
                ents.setdefault(p, "L")
        elif k == "rename":
            a, b = goclean(op[1]), goclean(op[2])
            if a in ents and a != b"/" and b.startswith(b"/"):
                ents[b] = ents[a]
    except Exception:
        pass


def gen_history(rnd, cfg, nops=None, kinds=None, with_rollback=True, read_ops=0.0):
    inits, ents = gen_tree(rnd, cfg)
    ents = dict(ents)
    ORIG.clear()
    pfx = view_prefix(cfg)
    for i_ in inits:
        if i_[0] in ("D", "F") and i_[1].startswith(pfx or b"/"):
            ORIG[(i_[1][len(pfx):] or b"/")] = (i_[2], i_[3], i_[4])
    n = nops if nops is not None else rnd.randint(1, 12)
    ops = [("dump",)]
    for _ in range(n):
        if read_ops and rnd.random() < read_ops:
            op = gen_op(rnd, ents, ["stat", "lstat", "readlink", "read", "readdir"])
        else:
            op = gen_op(rnd, ents, kinds)
        ops.append(op)
        apply_guess(ents, op)
    if with_rollback:
        ops.append(("dump",))
        ops.append(("rollback",))
    return inits, ops
