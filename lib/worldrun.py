"""Running T2 case streams, oracles, shrinking; shared by the BackupFS properties."""
import os

import t2
import pathlib_go as pg
from common import OUT, dec, enc


def path_of(line):
    return dec(line.split(" ")[0])


def view_root(cfg):
    return t2.view_prefix(cfg) or b"/"


def region(lines, cfg, which):
    """S-lines (without the label) of the base region / backup region.
    base region: inside the base prefix (or everything) and not inside the backup location."""
    q = cfg["q"]
    p = t2.view_prefix(cfg) or b"/"
    out = []
    for l in lines:
        pa = path_of(l)
        in_q = pg.within(q, pa)
        if which == "backup":
            if in_q and pa != q:
                out.append(l)   # the backup filesystem's own root directory is exempt
        else:
            if not in_q and pg.within(p, pa) and pa != p:
                out.append(l)   # the root directory itself is exempt
    return out


def strip_for_c01(line):
    """directory timestamps and the root directory's own metadata are exempt"""
    f = line.split(" ")
    if f[1] == "D":
        f[5] = "*"
    return " ".join(f)


def _variants(case):
    """candidate reductions: one operation or one initial entry removed"""
    out = []
    n = len(case.ops)
    for i, o in enumerate(case.ops):
        if o[0] in ("dump", "rollback") and (i == 0 or i >= n - 2):
            continue
        ops = case.ops[:i] + case.ops[i + 1:]
        out.append(t2.Case(case.id, case.cfg, case.inits, ops, case.faults, case.crash, case.meta))
    protected = set([b"/", case.cfg["q"], t2.view_prefix(case.cfg)])
    for j in range(len(case.inits) - 1, -1, -1):
        pth = case.inits[j][1]
        if pth in protected or any(pg.within(pth, q) for q in protected if q):
            continue
        if any(o[1] != pth and pg.within(pth, o[1]) for o in case.inits):
            continue  # has children
        inits = case.inits[:j] + case.inits[j + 1:]
        out.append(t2.Case(case.id, case.cfg, inits, case.ops, case.faults, case.crash, case.meta))
    return out


def shrink(tag, failing, oracle, rounds=40):
    """delta-debug failing cases on the implementation: drop operations and
    initial entries while the oracle keeps failing"""
    cur = {c.id: c for c in failing}
    active = set(cur)
    for _ in range(rounds):
        if not active:
            break
        batch = []
        for cid in active:
            for k, v in enumerate(_variants(cur[cid])):
                v2 = t2.Case("%s~%d" % (cid, k), v.cfg, v.inits, v.ops, v.faults, v.crash, v.meta)
                batch.append((cid, v2))
        if not batch:
            break
        impl = t2.run_impl_only(tag + ".shrink", [b for _, b in batch])
        progressed = set()
        for cid, v in batch:
            if cid in progressed:
                continue
            a = impl.get(v.id)
            if a is not None and not a.get("err") and oracle(v, a):
                cur[cid] = t2.Case(cid, v.cfg, v.inits, v.ops, v.faults, v.crash, v.meta)
                progressed.add(cid)
        active = progressed
    return cur


def excusable(case, a, b):
    """Is the disagreement between a crashed/faulted implementation run and the model's run of the
    same case explained by the two sources of call-count nondeterminism alone?  True only if the
    raw traces differ and every difference is (i) a crash cut falling at another call because of
    an optional Chtimes: the normalised traces are equal or one is a prefix of the other; (ii) a crash
    inside Rollback's first loop (a Go map range): both sides issued the same number of base
    Lstat calls and nothing else; (iii) a fault aimed at the n-th Chtimes of a path."""
    # the raw traces must differ (equal raw traces mean the same calls were made: then any
    # difference in results or dumps is a real one)
    found = a.get("T") != b.get("T")
    for i in sorted(set(a["T"]) | set(b["T"])):
        op = case.ops[i] if i < len(case.ops) else None
        ta, tb = t2.norm_trace(op, a["T"].get(i, [])), t2.norm_trace(op, b["T"].get(i, []))
        if ta == tb:
            # (the raw traces of this operation may still differ by an optional Chtimes, which
            # shifts the crash cut by one call: covered by 'found')
            continue
        if case.crash >= 0:
            if op and op[0] == "rollback" and len(ta) == len(tb) and all(t.startswith("base lstat ") for t in ta + tb):
                continue
            n = min(len(ta), len(tb))
            if ta[:n] == tb[:n]:
                continue
        if case.faults and all(f[1] == "chtimes" for f in case.faults):
            continue
        return False
    return found


def run_stream(pid, name, cases, model_ok, level, oracle=None, desc="", nontrivial=None, triggers=None, do_shrink=True, post=None, t4_sample=0):
    impl, mod = t2.run_both("%s.%s" % (pid, name), cases, model=model_ok)
    res = {"name": name, "n": len(cases), "mismatch": [], "oracle": [], "nontrivial": 0, "desc": desc, "exhaustive": False}
    seen = set()
    opcount = {}
    errcount = {}
    okops = 0
    totops = 0
    for c in cases:
        a = impl.get(c.id)
        if a is None:
            res["mismatch"].append({"input": c.id, "impl": "missing", "model": ""})
            continue
        for i, o in enumerate(c.ops):
            if o[0] == "dump":
                continue
            opcount[o[0]] = opcount.get(o[0], 0) + 1
            st = a["R"].get(i)
            if st:
                totops += 1
                if st[0] == "ok":
                    okops += 1
                else:
                    errcount[st[0]] = errcount.get(st[0], 0) + 1
        if mod is not None and not c.meta.get("twin"):
            b = mod.get(c.id)
            if b is None:
                res["mismatch"].append({"input": c.id, "impl": "", "model": "missing", "case": c.to_text()})
            else:
                d = t2.compare(c, a, b, level)
                if d and (c.crash >= 0 or c.faults) and excusable(c, a, b):
                    # crash points count primitive calls and fault occurrences count calls of one
                    # kind: an optional Chtimes (t2.norm_trace) or the map order of Rollback's first
                    # loop makes the k-th call of *this* run another call than the model's. Such a run
                    # (and only such a run) is judged by the oracle alone.
                    res["unaligned_runs"] = res.get("unaligned_runs", 0) + 1
                    d = None
                if d:
                    if len(res["mismatch"]) < 40:
                        res["mismatch"].append({"input": c.id, "diff": d[:6], "case": c.to_text(), "impl": "", "model": ""})
                    else:
                        res["mismatch_more"] = res.get("mismatch_more", 0) + 1
        if oracle is not None:
            msg = oracle(c, a)
            if msg:
                trig = []
                if isinstance(msg, tuple):
                    msg, trig = msg
                elif triggers is not None:
                    trig = triggers(c, a, mod.get(c.id) if mod else None)
                key = tuple(trig)
                cnt = res.setdefault("_tc", {})
                cnt[key] = cnt.get(key, 0) + 1
                if cnt[key] <= 15:
                    res["oracle"].append({"input": c.id, "why": msg, "triggers": trig, "case": c.to_text(), "impl": ""})
                else:
                    res["oracle_more"] = res.get("oracle_more", 0) + 1
        nt = nontrivial(c, a) if nontrivial else any(a["R"].get(i, ("",))[0] == "ok" for i, o in enumerate(c.ops) if o[0] not in ("dump", "rollback"))
        if nt:
            key = "\n".join(c.to_text().split("\n")[1:])
            seen.add(hash(key))
    res["model_compared"] = bool(mod is not None and any(not c.meta.get("twin") for c in cases))
    res.setdefault("unaligned_runs", 0)
    if t4_sample and mod is not None:
        import t4
        sample = [c for c in cases if not c.meta.get("twin") and not c.faults and c.crash < 0 and not c.meta.get("pause")][:t4_sample]
        n4, bad4 = t4.run(pid, sample, mod)
        res["in_coq_replayed"] = n4
        for cid, msg in bad4:
            res["mismatch"].append({"input": cid, "diff": ["T4 (vm_compute inside Coq vs extracted OCaml): " + msg], "case": "", "impl": "", "model": ""})
    if post is not None:
        for item in post(cases, impl):
            cid, msg = item[0], item[1]
            if len(res["oracle"]) < 60:
                res["oracle"].append({"input": cid, "why": msg, "triggers": list(item[2]) if len(item) > 2 else [], "case": "", "impl": "", "paired": True})
    res.pop("_tc", None)
    # minimise the failing cases on the implementation, then ask the model which
    # known-finding triggers fire on the minimal history
    if do_shrink and res["oracle"] and oracle is not None:
        byid = {c.id: c for c in cases}
        failing = [byid[o["input"]] for o in res["oracle"] if o["input"] in byid and not o.get("paired")][:60]
        small = shrink("%s.%s" % (pid, name), failing, oracle)
        trig = {}
        if model_ok and small:
            m = t2.run_model_only("%s.%s.trig" % (pid, name), list(small.values()))
            trig = {cid: sorted(m[cid]["F"]) for cid in m}
        # paired (twin) failures are not shrunk; the model names the triggers of the whole history
        paired = [byid[o["input"]] for o in res["oracle"] if o.get("paired") and o["input"] in byid]
        if model_ok and paired:
            m = t2.run_model_only("%s.%s.ptrig" % (pid, name), paired)
            for o in res["oracle"]:
                if o.get("paired") and o["input"] in m:
                    o["triggers"] = sorted(set(o.get("triggers", [])) | m[o["input"]]["F"])
                    o["case"] = byid[o["input"]].to_text()
        for o in res["oracle"]:
            c = small.get(o["input"])
            if c is not None:
                o["case"] = c.to_text()
                o["triggers"] = trig.get(o["input"], o.get("triggers", []))
    res["nontrivial"] = len(seen)
    res["distribution"] = {"ops_by_kind": opcount, "error_classes": errcount, "ops_ok_fraction": round(okops / max(totops, 1), 3),
                           "avg_tree_entries": round(sum(len(c.inits) for c in cases) / max(len(cases), 1), 1)}
    res["samples"] = [{"case": cases[i].to_text().split("\n")[:40]} for i in sorted(set([0, len(cases) // 2]))] if cases else []
    res["mismatch"].sort(key=lambda m: len(m.get("case", "")))
    res["oracle"].sort(key=lambda m: len(m.get("case", "")))
    return res
