"""Generic per-property runner: build, prove, run streams, decide, write evidence."""
import json
import re
import os
import sys
import time
import traceback

from common import *  # noqa


class Stream:
    """One correspondence stream.  kind 't1': lines of pure-function calls.
    oracle(i, line, impl_out) -> None or message (a violation *on the implementation*).
    nontrivial(i, line, impl_out) -> bool."""

    def __init__(self, name, lines, oracle=None, nontrivial=None, post=None, exhaustive=False, desc=""):
        self.name = name
        self.lines = lines
        self.oracle = oracle
        self.nontrivial = nontrivial
        self.post = post  # post(lines, impl_outs) -> list of (line_index or None, message)
        self.exhaustive = exhaustive
        self.desc = desc


def run_t1_stream(pid, st, model_ok):
    res = {"name": st.name, "n": len(st.lines), "mismatch": [], "oracle": [], "nontrivial": 0, "desc": st.desc,
           "exhaustive": st.exhaustive}
    if not st.lines:
        return res
    tag = "%s.%s" % (pid, st.name)
    if model_ok:
        impl, model = run_both_t1(tag, st.lines)
    else:
        impl, _ = run_impl_t1(tag, st.lines)
        model = None
    seen = set()
    for i, line in enumerate(st.lines):
        if model is not None and impl[i] != model[i]:
            if len(res["mismatch"]) < 50:
                res["mismatch"].append({"input": line, "impl": impl[i], "model": model[i]})
            else:
                res["mismatch_more"] = res.get("mismatch_more", 0) + 1
        if st.oracle is not None:
            msg = st.oracle(i, line, impl[i])
            if msg:
                trig = []
                if isinstance(msg, tuple):
                    msg, trig = msg
                # keep every distinct trigger set, cap the rest
                key = tuple(trig)
                cnt = res.setdefault("_trigcount", {})
                cnt[key] = cnt.get(key, 0) + 1
                if cnt[key] <= 25:
                    res["oracle"].append({"input": line, "impl": impl[i], "why": msg, "triggers": trig})
                else:
                    res["oracle_more"] = res.get("oracle_more", 0) + 1
        if st.nontrivial is None or st.nontrivial(i, line, impl[i]):
            if line not in seen:
                seen.add(line)
    if st.post is not None:
        for (i, msg) in st.post(st.lines, impl):
            if len(res["oracle"]) < 50:
                res["oracle"].append({"input": st.lines[i] if i is not None else "", "impl": impl[i] if i is not None else "", "why": msg})
    res["nontrivial"] = len(seen)
    res.pop("_trigcount", None)
    res["samples"] = [{"input": st.lines[i], "impl": impl[i]} for i in sorted(set([0, len(st.lines) // 2, len(st.lines) - 1]))]
    # shortest first: the replay should be minimal
    res["mismatch"].sort(key=lambda m: len(m["input"]))
    res["oracle"].sort(key=lambda m: len(m["input"]))
    return res


def run_impl_t1(tag, lines):
    import subprocess
    os.makedirs(OUT, exist_ok=True)
    inp = os.path.join(OUT, tag + ".in")
    with open(inp, "w") as f:
        f.write("\n".join(lines) + "\n")
    oi = os.path.join(OUT, tag + ".impl")
    r = subprocess.call([os.path.join(BUILD, "vharness"), "t1", inp, oi])
    if r != 0:
        raise BuildError("t1 impl run " + tag, "")
    return open(oi).read().split("\n")[:-1], None


def write_replay(pid, tier, kind, payload):
    d = os.path.join(OUT, "replay")
    os.makedirs(d, exist_ok=True)
    p = os.path.join(d, "%s.%s.json" % (pid, tier))
    with open(p, "w") as f:
        json.dump({"property": pid, "kind": kind, **payload}, f, indent=1, default=str)
    return p


def match_known(pid, item, known):
    """A failing implementation case is attributed to a known finding only if the
    finding's matcher (exact input, or a named trigger evaluated by the property
    module) accepts it."""
    for k in known:
        if pid not in k.get("properties", [k.get("property")]) or k.get("status") != "known":
            continue
        if "inputs" in k and item.get("input") in k["inputs"]:
            return k
        trig = k.get("trigger")
        if trig and item.get("triggers") and trig in item["triggers"]:
            return k
    return None


def run_property(pid, tier, seed, mod):
    t0 = time.time()
    known = load_known_findings()
    try:
        os.remove(os.path.join(OUT, 'replay', '%s.%s.json' % (pid, tier)))
    except OSError:
        pass
    b = build_all(clean=False)
    notes = []
    proof_ok = True
    model_ok = b["model"][0] == 0
    broken = []
    if b["forbidden"][0] != 0:
        proof_ok = False
        broken.append("forbidden vernacular: " + b["forbidden"][1])
    if b.get("srcfacts", (0, ""))[0] != 0:
        broken.append("srcfacts failed: " + b["srcfacts"][1][-2000:])
        proof_ok = False
    if b["harness"][0] != 0:
        # the repository does not build: nothing can be decided
        rp = write_replay(pid, tier, "build", {"stage": "harness", "log": b["harness"][1][-4000:]})
        print("VIOLATION property=%s replay=%s no-failing-input-found" % (pid, rp))
        write_evidence(pid, tier, seed, {"evaluations": 0, "distinct_nontrivial": 0, "obligations": 1, "discharged": 0,
                                         "checker_cmd": "go build -tags verif", "trusted_base": [],
                                         "explanation": "harness/repository build failed"}, [], time.time() - t0, 1)
        return 1
    if b["coq"][0] != 0:
        # other parts of the development do not build; this property is judged on its own
        # Props file (re-checked below with everything it depends on) and on the model build
        notes.append("make reported errors elsewhere in the development: " + b["coq"][1][-400:])
    prc, pout, nobl, axioms, closed = check_props_file(pid)
    if prc != 0:
        proof_ok = False
        broken.append("Props/%s.v does not check:\n%s" % (pid, pout[-3000:]))
    else:
        # axiom-freeness is a checked condition: every Print Assumptions in the property's
        # files must answer "Closed under the global context"
        if axioms:
            proof_ok = False
            broken.append("Props/%s depends on axioms: %s" % (pid, ", ".join(axioms)))
        elif closed != nobl or nobl == 0:
            proof_ok = False
            broken.append("Props/%s: %d statements, %d closed under the global context" % (pid, nobl, closed))
    chk_note = None
    if tier == "thorough" and prc == 0:
        crc, cout = coqchk_props(pid)
        chk_note = cout
        if crc != 0:
            proof_ok = False
            broken.append("coqchk rejects Props/%s: %s" % (pid, cout[-1500:]))
    # streams
    ctx = {"tier": tier, "seed": seed, "model_ok": model_ok, "known": known}
    stream_results = []
    extra = {}
    try:
        out = mod.run(ctx)
        stream_results = out["streams"]
        extra = out.get("extra", {})
    except BuildError as e:
        broken.append("stream execution failed: %s\n%s" % (e.stage, e.log[-2000:]))
        model_ok = False
    violations = []   # genuine, on the implementation
    knowns = []
    ties = []
    for r in stream_results:
        for o in r["oracle"]:
            k = match_known(pid, o, known)
            if k:
                knowns.append((k, o, r["name"]))
            else:
                violations.append((r["name"], o))
        for m in r["mismatch"]:
            ties.append((r["name"], m))
    # fixed findings must not come back: they are ordinary violations if they do (no suppression)
    evaluations = sum(r["n"] for r in stream_results)
    nontriv = sum(r["nontrivial"] for r in stream_results)
    status = 0
    seen_known = set()
    for (k, o, sname) in knowns:
        if k["id"] not in seen_known:
            seen_known.add(k["id"])
            print("KNOWN-FINDING: property=%s %s (%s)" % (pid, k["what"], k["id"]))
    if violations:
        sname, o = violations[0]
        rp = write_replay(pid, tier, "oracle", {"stream": sname, "case": o, "more": [v[1] for v in violations[1:10]],
                                                  "how_to_replay": "./check replay <this file>"})
        print("VIOLATION property=%s replay=%s" % (pid, rp))
        status = 1
    elif ties or not proof_ok or not model_ok:
        why = []
        if ties:
            why.append("correspondence stream '%s' disagrees (model vs implementation)" % ties[0][0])
        if not proof_ok:
            why.append("proof obligation broken")
        if not model_ok:
            if b["model"][0] != 0:
                why.append("model build failed: " + b["model"][1][-1500:])
            else:
                why.append("a stream could not be executed (harness or model run failed, killed or timed out): see below")
        rp = write_replay(pid, tier, "tie-or-proof", {"broken": why + broken, "theorems_file": "coq/theories/Props/%s.v" % pid,
                                                       "mismatches": [t[1] for t in ties[:10]],
                                                       "streams": [t[0] for t in ties[:10]]})
        print("VIOLATION property=%s replay=%s no-failing-input-found" % (pid, rp))
        status = 1
    cov = {
        "obligations": max(nobl, 1) + len(extra.get("generated_obligations", [])),
        "discharged": (max(nobl, 1) if prc == 0 else 0) + (sum(1 for g in extra.get("generated_obligations", []) if g.get("ok")) if prc == 0 else 0),
        "checker_cmd": "make -j16 (coq_makefile, full .vo) ; coqc -Q theories BFS theories/Props/%s.v" % pid,
        "trusted_base": [
            "Coq 8.16.1 kernel (coqc; vm_compute used in Examples and finite sweeps; no native_compute)",
            "axioms reported by Print Assumptions for every statement of Props/%s*.v: %s (%d statements 'Closed under the global context')" % (
                pid, ", ".join(axioms) if axioms else "none", closed),
            "extraction: ExtrOcamlBasic only (bool, option, unit, list, prod, sumbool, sumor to OCaml types); no Extract Constant; N/Z/positive/nat inductive",
            "hand-written OCaml driver (parsing/printing), Go harness (vharness), python orchestrator (generators, oracles, comparison)",
            "modelled, validated by correspondence only: path/filepath, strings, sort.Sort, Linux VFS as root, os.MkdirAll/RemoveAll",
        ],
        "evaluations": evaluations,
        "distinct_nontrivial": nontriv,
        "traces_validated_against_impl": (sum(r["n"] for r in stream_results if r.get("model_compared", True)) if model_ok else 0),
        "rule": "; ".join("%s: %s" % (r["name"], r["desc"]) for r in stream_results),
        "streams": [{k: r[k] for k in ("name", "n", "nontrivial", "exhaustive", "in_coq_replayed", "unaligned_runs", "model_compared", "distribution") if k in r} |
                    {"mismatches": len(r["mismatch"]) + r.get("mismatch_more", 0),
                     "oracle_failures": len(r["oracle"]) + r.get("oracle_more", 0)} for r in stream_results],
        "samples": [s for r in stream_results for s in r.get("samples", [])][:12],
        "exhaustive": False,
        "known_findings_reproduced": sorted(seen_known),
        "build_notes": notes,
    }
    if chk_note is not None:
        cov["trusted_base"].append("coqchk -o (independent checker) on %s: %s" % (" ".join("BFS.Props." + os.path.basename(r)[:-2] for r in props_files(pid)), chk_note[-400:].replace("\n", " ")))
    cov.update(extra.get("coverage", {}))
    write_evidence(pid, tier, seed, cov, mod.ASSUMPTIONS, time.time() - t0, 1 if status else 0)
    return status
