"""C05: PrefixFS confines every access to its prefix."""
import random

from common import *  # noqa
from runner import Stream, run_t1_stream
import pathlib_go as pg
import layergen as lg

ASSUMPTIONS = [
    "Linux path semantics; PrefixFS is a lexical layer: containment is component-wise on cleaned paths, symlinks inside the underlying tree are not followed by the check",
    "the recording stub filesystem under PrefixFS sees exactly the calls a real filesystem would",
]

PREFIXES = [b"/", b"/r", b"/r/app", b"/a", b"/a/b", b"a", b"a/b", b".", b"..", b"../a", b"", b"/a/", b"//a", b"/a/../b", b"/\xc3\xa4"]


def run(ctx):
    tier, seed, model_ok = ctx["tier"], ctx["seed"], ctx["model_ok"]
    rnd = random.Random(seed)
    results = []
    L = 5 if tier == "quick" else 6
    strings = list(all_strings(ALPHABET, L))
    pairs = [(p, s) for p in PREFIXES for s in strings]
    extra_names = lg.names(rnd, 3000 if tier == "quick" else 60000)
    pairs += [(rnd.choice(PREFIXES), n) for n in extra_names]
    lines = ["prefixpath %s %s" % (enc(p), enc(s)) for p, s in pairs]

    def pp_oracle(i, line, out):
        p, s = pairs[i]
        if out.startswith("ok "):
            r = dec(out[3:])
            cp = pg.goclean(p)
            if pg.goclean(r) != r:
                return "prefixPath(%r,%r) = %r is not cleaned" % (p, s, r)
            if not pg.within(cp, r):
                return "prefixPath(%r,%r) = %r lies outside the prefix %r" % (p, s, r, cp)
        return None
    st = Stream("prefixpath", lines, oracle=pp_oracle,
                nontrivial=lambda i, l, o: True,
                desc="PrefixFS.prefixPath for %d prefixes x all byte strings over {/ . a b C3 A4 \\} up to length %d plus random structured names; oracle: result is cleaned and component-wise within the cleaned prefix" % (len(PREFIXES), L),
                exhaustive=True)
    results.append(run_t1_stream("C05", st, model_ok))

    # all 16 methods through the layer over a recording stub
    cases = []
    pool = lg.names(rnd, 400 if tier == "quick" else 4000) + [b"../app2/secret", b"/../x", b"..", b"/a/b", b"a", b""]
    targets = [b"../../../x", b"../x", b"x", b"/x", b"/../x", b"../../r/app2", b"..", b".", b"a/../../..", b"/r/app", b"/"] + lg.names(rnd, 60)
    for pfx in PREFIXES:
        for m in lg.METHS1:
            for n in rnd.sample(pool, 40 if tier == "quick" else 400):
                cases.append((pfx, m, n, b"", rnd.choice(lg.AUX[m])))
        for n in rnd.sample(pool, 60 if tier == "quick" else 400):
            n2 = rnd.choice(pool)
            cases.append((pfx, "rename", n, n2, "-"))
        for n in rnd.sample(pool, 60 if tier == "quick" else 400):
            for t in rnd.sample(targets, 8 if tier == "quick" else 30):
                cases.append((pfx, "symlink", t, n, "-"))
    lines = [lg.layer_line("prefix", p, m, a, b, aux) for (p, m, a, b, aux) in cases]

    def layer_oracle(i, line, out):
        pfx, m, a, b, aux = cases[i]
        cp = pg.goclean(pfx)
        f = out.split(" ")
        if f[0] == "rej":
            if len(f) > 2:
                return "rejected but the underlying filesystem was called: " + out
            return None
        if f[0] != "fwd":
            return "unexpected outcome " + out
        fa, fb = dec(f[2]), dec(f[3])
        if m == "symlink":
            # fa is the stored target, fb the link location
            if not pg.within(cp, fb):
                return "Symlink location %r outside prefix %r" % (fb, cp)
            eff = fa if fa.startswith(b"/") else pg.gojoin(pg.godir(fb), fa)
            if not pg.within(cp, pg.goclean(eff)):
                trig = ["relative_prefix_absolute_target"] if (not cp.startswith(b"/") and a.startswith(b"/")) else []
                return ("Symlink(%r, %r) under prefix %r creates link %r -> %r whose target %r leaves the prefix" % (a, b, cp, fb, fa, pg.goclean(eff)), trig)
            return None
        if not pg.within(cp, fa):
            return "%s(%r) under prefix %r reaches %r outside the prefix" % (m, a, cp, fa)
        if m == "rename" and not pg.within(cp, fb):
            return "rename destination %r outside prefix %r" % (fb, cp)
        return None
    st = Stream("layer_prefix", lines, oracle=layer_oracle,
                nontrivial=lambda i, l, o: o.startswith("fwd") or o.startswith("rej"),
                desc="every PrefixFS method (both arguments of Rename/Symlink) over a recording stub FS, %d prefixes x structured names (absolute, relative, '..' runs, doubled/trailing separators, siblings app/app2, non-ASCII); oracle: every forwarded path and every created link's effective target is within the prefix; a rejection makes no underlying call" % len(PREFIXES))
    results.append(run_t1_stream("C05", st, model_ok))
    return {"streams": results}
