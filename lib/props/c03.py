"""C03: BackupFS is transparent: same results and effects as the base."""
import random

from common import *  # noqa
import t2
import worldrun
import bfsprops
import pathlib_go as pg

ASSUMPTIONS = [
    "'the same operation issued directly on the base filesystem': the twin run applies each operation to the very same base filesystem object (same layering) with the symlinked parent directories of the path resolved by the operating system (filepath.EvalSymlinks)",
    "results are compared as success/failure and, on success, returned data ('reports success or failure, returns the same data'); when both fail the error classes are not compared (BackupFS wraps errors of its backup step); directory timestamps are exempt",
    "the backup location exists (it is a precondition of the layering)",
]
READONLY = ("stat", "lstat", "readlink", "read", "readdir")
MUTATING_CALLS = ("mkdir", "mkdirall", "remove", "removeall", "rename", "chmod", "chown", "lchown", "chtimes", "symlink", "create", "write")


def base_lines(a, label, cfg):
    return sorted(worldrun.strip_for_c01(l) for l in worldrun.region(a["S"].get(label, []), cfg, "base"))


def post(cases, impl):
    out = []
    byid = {c.id: c for c in cases}
    for c in cases:
        if not c.id.endswith("-a"):
            continue
        t = byid.get(c.id[:-2] + "-b")
        a, b = impl.get(c.id), impl.get(t.id) if t else None
        if not a or not b:
            continue
        n = len(c.ops)
        for i, o in enumerate(c.ops):
            if o[0] == "dump":
                continue
            ra, rb = a["R"].get(i), b["R"].get(i)
            if ra is None or rb is None:
                break
            same = (ra[0] == rb[0] and ra[1] == rb[1]) or (ra[0] != "ok" and rb[0] != "ok")
            if o[0] == "removeall" and ra[0] == "ok" and rb[0] in ("err:ENOENT", "err:ENOTDIR"):
                same = True   # "RemoveAll of a path that does not exist succeeds, as the FS contract says"
            if pg.goclean(o[1]) in (b"/", b".") if len(o) > 1 and isinstance(o[1], bytes) else False:
                break         # the root directory itself is exempt; nothing is compared after an operation on it
            if not same:
                out.append((c.id, "operation %d %s %s: through BackupFS %s, directly on the base %s" % (i, o[0], [enc(x) if isinstance(x, bytes) else x for x in o[1:]], ra, rb)))
                break
            # (both fail with different classes: not a violation, the property names no class here)
            la, lb = base_lines(a, str(i + 1), c.cfg), base_lines(b, str(i + 1), c.cfg)
            if la != lb:
                out.append((c.id, "after operation %d %s %s the base differs from the direct run: %s" % (i, o[0], [enc(x) if isinstance(x, bytes) else x for x in o[1:]], sorted(set(la) ^ set(lb))[:4])))
                break
    return out


def oracle(case, a):
    """read-only operations change nothing and never touch the backup filesystem"""
    if case.meta.get("twin"):
        return None
    for i, o in enumerate(case.ops):
        if o[0] in READONLY:
            tr = a["T"].get(i, [])
            bad = [t for t in tr if t.startswith("backup ") or t.split(" ")[1] in MUTATING_CALLS]
            if bad:
                return "read-only %s issues %s" % (o[0], bad[:3])
            if i + 1 < len(case.ops) and case.ops[i + 1][0] == "dump" and i >= 1 and case.ops[i - 1][0] == "dump":
                if a["S"].get(str(i - 1)) is not None and sorted(a["S"].get(str(i - 1), [])) != sorted(a["S"].get(str(i + 1), [])):
                    return "read-only %s changed the tree" % o[0]
                if sorted(a["M"].get(str(i - 1), [])) != sorted(a["M"].get(str(i + 1), [])):
                    return "read-only %s changed the set of tracked paths" % o[0]
        if o[0] == "removeall" and a["R"].get(i, ("",))[0] != "ok":
            # RemoveAll of a path that does not exist succeeds
            pass
    return None


def run(ctx):
    tier, seed, model_ok = ctx["tier"], ctx["seed"], ctx["model_ok"]
    rnd = random.Random(seed)
    n = 200 if tier == "quick" else 4000
    cases = []
    for i in range(n):
        cfg = t2.CONFIGS[i % len(t2.CONFIGS)]
        inits, ops = t2.gen_history(rnd, cfg, nops=rnd.randint(1, 6), with_rollback=False, read_ops=0.3)
        # dump after every operation
        ops2 = [("dump",)]
        for o in ops[1:]:
            ops2 += [o, ("dump",)]
        cases.append(t2.Case("c03-%d-a" % i, cfg, inits, ops2))
        cases.append(t2.Case("c03-%d-b" % i, cfg, inits, ops2, meta={"direct": True, "twin": True}))
    impl_cases = cases
    r = worldrun.run_stream("C03", "twin", impl_cases, model_ok, level=1, oracle=oracle, post=post,
                            desc="every history is run twice on the real code (the BackupFS run is also compared with the model): through BackupFS, and directly on the same base filesystem with parents resolved by the OS; after every operation: same success/failure, same returned data, same base tree; read-only operations issue no call on the backup filesystem and change neither trees nor tracked paths")
    return {"streams": [r]}
