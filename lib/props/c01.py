"""C01: Rollback restores the base filesystem exactly."""
import random

from common import *  # noqa
import t2
import worldrun
import bfsprops

ASSUMPTIONS = [
    "Linux VFS semantics as root with umask 0 on one filesystem (tmpfs chroot), no hard links or special files",
    "directory timestamps and the root directory's own metadata are exempt (as the property says)",
]


def run(ctx):
    tier, seed, model_ok = ctx["tier"], ctx["seed"], ctx["model_ok"]
    rnd = random.Random(seed)
    n = 300 if tier == "quick" else 6000
    cases = t2.load_corpus()
    for i in range(n):
        cfg = t2.CONFIGS[i % len(t2.CONFIGS)]
        inits, ops = t2.gen_history(rnd, cfg)
        cases.append(t2.Case("c01-%d" % i, cfg, inits, ops))
    # several transactions in a row on the same BackupFS
    for i in range(n // 5):
        cfg = t2.CONFIGS[i % len(t2.CONFIGS)]
        inits, ops = t2.gen_history(rnd, cfg, nops=rnd.randint(1, 6))
        ents = {}
        more = [t2.gen_op(rnd, {i_[1][len(t2.view_prefix(cfg)):] or b"/": i_[0] for i_ in inits if i_[1].startswith(t2.view_prefix(cfg) or b"/")}) for _ in range(rnd.randint(1, 6))]
        ops2 = ops + more + [("dump",), ("rollback",)]
        cases.append(t2.Case("c01-multi-%d" % i, cfg, inits, ops2))
    r = worldrun.run_stream("C01", "histories", cases, model_ok, level=2, oracle=bfsprops.c01_oracle,
                            t4_sample=(15 if tier == "quick" else 300),
                            desc="corpus of recorded findings + random structured histories of 1-12 mutating operations (all spellings, all entry kinds, special bits, owners, multi-chunk files, all link kinds) over %d layerings, then Rollback (a fifth of them: two transactions in a row); results, trees, tracked state and primitive traces (L2) compared with the model; oracle: Rollback()==nil and base dump before == after (incl. owner, special bits, file mtime); non-trivial = at least one operation succeeded" % len(t2.CONFIGS))
    return {"streams": [r]}
