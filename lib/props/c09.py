"""C09: Rollback never reports success unless it restored."""
import random

from common import *  # noqa
import t2
import worldrun
import bfsprops
import faultgen

ASSUMPTIONS = [
    "a failing primitive call returns EIO and has no effect (the fault-injecting wrapper does not call the underlying filesystem)",
    "single faults, at every primitive call (incl. Read/Write/Close/Stat on file handles) of the Rollback, on either filesystem",
]


def oracle(case, a):
    ri = len(case.ops) - 1
    if case.ops[ri][0] != "rollback":
        return None
    st = a["R"].get(ri)
    if st is None:
        return None
    if st[0] == "ok":
        return bfsprops.c01_oracle(case, a)
    if st[0] != "err:RollbackFailed":
        return "Rollback returned %s which is not ErrRollbackFailed" % st[0]
    return None


def run(ctx):
    tier, seed, model_ok = ctx["tier"], ctx["seed"], ctx["model_ok"]
    rnd = random.Random(seed)
    n = 60 if tier == "quick" else 600
    per = 8 if tier == "quick" else 10 ** 6
    base_cases = t2.load_corpus()
    for i in range(n):
        cfg = t2.CONFIGS[i % len(t2.CONFIGS)]
        inits, ops = t2.gen_history(rnd, cfg, nops=rnd.randint(1, 7))
        base_cases.append(t2.Case("c09-%d" % i, cfg, inits, ops))
    r0, variants = faultgen.fault_variants("C09", base_cases, model_ok, rnd, per,
                                           select=lambda c, i, o: o[0] == "rollback", tags=("base", "backup"))
    r = worldrun.run_stream("C09", "rollback_faults", variants, model_ok, level=2, oracle=oracle, do_shrink=False,
                            triggers=faultgen.history_triggers(r0),
                            nontrivial=lambda c, a: True,
                            desc="for every generated history: one run per primitive call of its Rollback (both filesystems, handle methods included; %s) with that call failing with EIO; primitive traces compared with the model; oracle: Rollback returns an error satisfying errors.Is(err, ErrRollbackFailed), or the base is fully restored" % ("a sample of %d per history" % per if per < 10 ** 6 else "exhaustively"))
    return {"streams": [r0["stream"], r]}
