"""C06: HiddenFS makes hidden paths inaccessible (lexical half over a recording stub;
the 'by any route' half runs on real trees, see world streams)."""
import random

from common import *  # noqa
from runner import Stream, run_t1_stream
import pathlib_go as pg
import layergen as lg
import hiddengen as hg

ASSUMPTIONS = [
    "a name is hidden when its cleaned form is component-wise at or below a cleaned hidden path; names and hidden paths of different absoluteness are not comparable lexically (HiddenFS answers 'hidden check failed'); they are outside the quantifier",
    "no underlying call is observed by the recording stub => the outcome does not depend on the underlying tree and nothing is modified",
]
CREATING = {"create", "mkdir", "mkdirall"}


def want_class(m, aux):
    if m in CREATING:
        return "HiddenPermission"
    if m == "openfile":
        return "HiddenPermission" if int(aux.split(",")[0]) & 0x40 else "HiddenNotExist"
    return "HiddenNotExist"


def run(ctx):
    tier, seed, model_ok = ctx["tier"], ctx["seed"], ctx["model_ok"]
    rnd = random.Random(seed)
    results = []
    cases = []
    for hs in hg.HIDDEN_SETS:
        nh = hg.norm_hidden(hs)
        hidden_names = []
        for h in nh:
            for suffix in [b"", b"/x", b"/x/y", b"/\xc3\xa4"]:
                hidden_names += hg.spellings(rnd, h + suffix)
        pool = hidden_names + hg.hnames(rnd, 60 if tier == "quick" else 600)
        for m in lg.METHS1:
            for n in (pool if tier != "quick" else rnd.sample(pool, min(len(pool), 45))):
                cases.append((hs, m, n, b"", rnd.choice(lg.AUX[m])))
        for n in rnd.sample(pool, min(len(pool), 40 if tier == "quick" else 400)):
            o = rnd.choice(pool)
            cases.append((hs, "rename", n, o, "-"))
            cases.append((hs, "rename", o, n, "-"))
            # symlink: hidden location, or (absolute / relative) target at or below a hidden path
            cases.append((hs, "symlink", rnd.choice([b"/x", b"x", b"../x"]), n, "-"))
            cases.append((hs, "symlink", n, rnd.choice([b"/l", b"/d/l", b"l"]), "-"))
        for h in nh:
            if h.startswith(b"/") and h.count(b"/") >= 1:
                # relative targets that reach a hidden path from the link's directory
                cases.append((hs, "symlink", b".." + h, b"/d/l", "-"))
                cases.append((hs, "symlink", h[1:], b"/l", "-"))
                cases.append((hs, "symlink", h[1:] + b"/in", b"/l", "-"))
    lines = [lg.layer_line("hidden", hs, m, a, b, aux) for (hs, m, a, b, aux) in cases]

    def oracle(i, line, out):
        hs, m, a, b, aux = cases[i]
        f = out.split(" ")
        if m == "rename":
            if not (hg.comparable(hs, a) and hg.comparable(hs, b)):
                return None
            if hg.below(hs, a):
                want = "HiddenNotExist"
            elif hg.below(hs, b):
                want = "HiddenPermission"
            else:
                return None
        elif m == "symlink":
            loc = b
            eff = a if a.startswith(b"/") else pg.gojoin(pg.godir(b), a)
            if not (hg.comparable(hs, loc) and hg.comparable(hs, eff)):
                return None
            if hg.below(hs, eff) or hg.below(hs, loc):
                want = "HiddenPermission"
            else:
                return None
        else:
            if not hg.comparable(hs, a) or not hg.below(hs, a):
                return None
            want = want_class(m, aux)
        if f[0] != "rej":
            return "%s(%r,%r) with hidden %r is not rejected: %s" % (m, a, b, hs, out)
        if len(f) > 2:
            return "hidden name rejected only after underlying calls: " + out
        if f[1] != want:
            return "%s(%r,%r) with hidden %r fails with %s, expected %s" % (m, a, b, hs, f[1], want)
        return None
    st = Stream("layer_hidden", lines, oracle=oracle, nontrivial=lambda i, l, o: o.startswith("rej Hidden"),
                desc="every HiddenFS method on every spelling of hidden and below-hidden names (and other names), %d hidden sets (several, nested, relative, unclean), both arguments of Rename, location and effective target of Symlink; oracle: documented error class and zero underlying calls; non-trivial = rejected as hidden" % len(hg.HIDDEN_SETS))
    results.append(run_t1_stream("C06", st, model_ok))

    # isHidden itself, exhaustively on short strings
    L = 4 if tier == "quick" else 5
    strings = list(all_strings(ALPHABET, L))
    hsets = [[b"/a"], [b"/a/b"], [b"a"], [b"/a", b"/b/a"], [b"/\xc3\xa4"], [b"/"], [b"."], [b".."]]
    pairs = [(s, hs) for hs in hsets for s in strings]
    lines = ["ishidden %s %s" % (enc(s), enc_list(hs)) for s, hs in pairs]

    def ih_oracle(i, line, out):
        s, hs = pairs[i]
        if not hg.comparable(hs, s):
            return None
        want = "t" if hg.below(hs, s) else "f"
        if out != want:
            return "isHidden(%r, %r) = %s, expected %s" % (s, hs, out, want)
        return None
    st = Stream("ishidden", lines, oracle=ih_oracle, nontrivial=lambda i, l, o: o == "t",
                desc="isHidden on all byte strings up to length %d x %d hidden sets; oracle: component-wise containment; non-trivial = hidden" % (L, len(hsets)), exhaustive=True)
    results.append(run_t1_stream("C06", st, model_ok))
    results.append(routes_stream(tier, rnd, model_ok))
    return {"streams": results}


def routes_stream(tier, rnd, model_ok):
    """'by any route, including through symlinks': real trees, names that are not lexically
    hidden but lead into the hidden path through a symlink to one of its ancestors"""
    import t2
    import worldrun
    n = 60 if tier == "quick" else 1200
    cases = []
    for i in range(n):
        hid = rnd.choice([b"/var/backups", b"/h/x/secret", b"/h"])
        anc = rnd.choice([a for a in t2.parents(hid)])
        inits = [("D", b"/", 0o755, 0, 0, 1)]
        mt = 5
        for a in list(reversed(t2.parents(hid)))[1:] + [hid]:
            mt += 1
            inits.append(("D", a, 0o755, 0, 0, mt))
        inits.append(("F", hid + b"/old", 0o600, 0, 0, 50, "Bsecret"))
        inits.append(("D", b"/pub", 0o755, 0, 0, 51))
        link = b"/pub/lnk"
        rest = hid[len(anc):] if anc != b"/" else hid
        tgt = rnd.choice([anc, b"../" + anc[1:] if anc != b"/" else b".."])
        ops = [("dump",), ("symlink", tgt, link), ("dump",)]
        route = link + rest
        for k in rnd.sample(["stat", "lstat", "read", "readdir", "chmod", "remove", "create", "mkdir"], 4):
            name = route + rnd.choice([b"/old", b"", b"/new"])
            if k == "read":
                name = route + b"/old"
            o = t2.gen_op(rnd, {name: "F"}, [k])
            ops += [tuple([o[0], name] + list(o[2:])), ("dump",)]
        cfg = {"ctor": "generic", "q": b"/unused-backup", "p": None, "hs": [hid]}
        cases.append(t2.Case("c06r-%d" % i, cfg, inits, ops, meta={"direct": True, "raw": True, "hid": hid}))

    def oracle(case, a):
        hid_ = case.meta["hid"]
        s0 = sorted(l for l in a["S"].get("0", []) if pg.within(hid_, worldrun.path_of(l)))
        for i, o in enumerate(case.ops):
            if o[0] in ("dump", "symlink"):
                continue
            st_ = a["R"].get(i)
            if st_ and st_[0] == "ok":
                return "%s %s succeeds: hidden content reached through the symlink %s" % (o[0], enc(o[1]), enc(case.ops[1][2]))
        fin = sorted(l for l in a["S"].get("final", []) if pg.within(hid_, worldrun.path_of(l)))
        if s0 != fin:
            return "the hidden subtree changed: %s" % sorted(set(s0) ^ set(fin))[:3]
        return None
    return worldrun.run_stream("C06", "routes_real_trees", cases, model_ok, level=1, oracle=oracle,
                               desc="HiddenFS over OSFS in a chroot: a symlink to an ancestor of the hidden path is created through HiddenFS (accepted: its target is not hidden), then operations name hidden content through it; compared with the model; oracle: no such operation succeeds and the hidden subtree is unchanged (recorded finding D9)")
