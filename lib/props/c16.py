"""C16: path resolution is exact for every symlink topology."""
import itertools
import random

from common import *  # noqa
import t2
import worldrun

ASSUMPTIONS = [
    "the operating system is the reference: no parent component of the resolved path is a symlink on disk, and the resolved path and the caller's path name the same inode (or are both missing below the same parent directory)",
    "termination: resolvePathWithInfo is a single pass over the ancestor chain (structural recursion in the model); the harness would time out on divergence",
]

TARGETS = [b"x", b"/x", b"x/y", b"/x/y", b"../z", b"/z", b"l1", b"/l1", b"nonexistent", b"../x/l2", b"l1/y", b".", b"..", b"/x/l2/w"]
COMPS = [b"x", b"y", b"z", b"l1", b"l2", b"f", b"w"]


def graph_inits(cfg, t1, t2_, extra_link=None):
    pfx = t2.view_prefix(cfg)
    w = lambda v: t2.world_path(cfg, v)
    inits = [("D", b"/", 0o755, 0, 0, 1)]
    have = {b"/"}
    for wd in ([pfx] if pfx else []) + [cfg["q"]]:
        for a in reversed(t2.parents(wd)):
            if a not in have:
                have.add(a)
                inits.append(("D", a, 0o755, 0, 0, 2))
        if wd not in have:
            have.add(wd)
            inits.append(("D", wd, 0o755, 0, 0, 3))
    for d in (b"/x", b"/x/y", b"/z", b"/z/w"):
        inits.append(("D", w(d), 0o755, 0, 0, 4))
    inits.append(("F", w(b"/x/y/f"), 0o644, 0, 0, 5, "Bdata"))
    inits.append(("F", w(b"/z/f"), 0o644, 0, 0, 6, "Bzed"))

    def tgt(t):
        return (pfx + t) if (t.startswith(b"/") and pfx) else t
    inits.append(("L", w(b"/l1"), 0, 0, 7, tgt(t1)))
    inits.append(("L", w(b"/x/l2"), 0, 0, 8, tgt(t2_)))
    return inits


def run(ctx):
    tier, seed, model_ok = ctx["tier"], ctx["seed"], ctx["model_ok"]
    rnd = random.Random(seed)
    paths = []
    for k in (1, 2, 3):
        for cs in itertools.product(COMPS, repeat=k):
            paths.append(b"/" + b"/".join(cs))
    if tier == "quick":
        paths = [p for p in paths if p.count(b"/") <= 2] + rnd.sample([p for p in paths if p.count(b"/") == 3], 60)
    # the New layering, a PrefixFS base, and a PrefixFS mounted at "/" as base (Readlink's prefix
    # trimming then has to keep the leading separator of absolute targets)
    cfgs = [t2.CONFIGS[0], t2.CONFIGS[3], {"ctor": "generic", "p": b"/", "hs": [], "q": b"/backup"}]
    cases = []
    graphs = list(itertools.product(TARGETS, TARGETS))
    if tier == "quick":
        graphs = rnd.sample(graphs, 70)
    for gi, (ta, tb) in enumerate(graphs):
        cfg = cfgs[gi % len(cfgs)]
        if t2.view_prefix(cfg) and ta.startswith(b".."):
            # a top-level link climbing above the view root leaves the prefix on disk: such a tree
            # is not expressible through the PrefixFS view (judged under C05/C14), use the bare layering
            cfg = cfgs[0]
        ops = [("realpath", p) for p in paths]
        # relative spellings (resolved against the working directory, the root of the tree):
        # the first component may itself be a symlink
        rel = [p[1:] for p in paths if p.count(b"/") <= 2]
        ops += [("realpath", p) for p in (rel if tier != "quick" else rnd.sample(rel, 25))]
        # graphs produced by earlier operations of the same transaction
        if gi % 3 == 0:
            tl1 = rnd.choice([t for t in TARGETS if not (t2.view_prefix(cfg) and t.startswith(b".."))])
            ops = [("symlink", rnd.choice(TARGETS), b"/z/l3"), ("remove", b"/l1"), ("symlink", tl1, b"/l1")] + ops + \
                  [("realpath", b"/z/l3/" + c) for c in COMPS]
        if gi % 3 == 1:
            # a directory the transaction already tracks is replaced by a symlink later in the same transaction
            ops = [("create", b"/x/y/tmp", "Bt"), ("remove", b"/x/y/tmp"), ("remove", b"/x/y/f"), ("remove", b"/x/y"),
                   ("symlink", rnd.choice([b"/z", b"../z", b"/z/w"]), b"/x/y")] + \
                  [("realpath", b"/x/y/" + c) for c in COMPS] + [("realpath", b"/x/y/f/" + c) for c in COMPS[:3]] + ops
        cases.append(t2.Case("c16-%d" % gi, cfg, graph_inits(cfg, ta, tb), ops))
    # the kernel's hop limit: 41 passes through a link to its own directory (recorded finding K8)
    for ci, cfg in enumerate(cfgs):
        w = lambda v: t2.world_path(cfg, v)
        pfx = t2.view_prefix(cfg)
        inits = graph_inits(cfg, b"x", b"y") + [("L", w(b"/x/loop"), 0, 0, 9, (pfx + b"/x") if pfx else b"/x")]
        cases.append(t2.Case("c16-hops-%d" % ci, cfg, inits,
                             [("realpath", b"/x" + b"/loop" * k + b"/y") for k in (1, 20, 39, 40, 41, 45)]))
    impl, mod = t2.run_both("C16.graphs", cases, model=model_ok)
    res = {"name": "graphs", "n": 0, "mismatch": [], "oracle": [], "nontrivial": 0, "exhaustive": tier != "quick",
           "desc": "realPath (hook) on paths of up to 3 components (quick: all of up to 2, a sample of 3) and relative spellings, over %s symlink graphs (three layerings: New, a PrefixFS base, a PrefixFS mounted at '/') with two links whose targets range over %d absolute/relative/dangling/cyclic/'..'/through-a-link targets, plus graphs changed by earlier operations and names exceeding the kernel's 40-hop limit; model compared on the resolved string; oracle from the OS: no symlink among the parents of the result, same inode as the caller's path; non-trivial = the path runs through a symlink" % ("a sample of 70 of the %d" % (len(TARGETS) ** 2) if tier == "quick" else "all %d" % (len(TARGETS) ** 2), len(TARGETS))}
    nontriv = set()
    for c in cases:
        a = impl[c.id]
        b = mod.get(c.id) if mod else None
        for i, o in enumerate(c.ops):
            if o[0] != "realpath":
                continue
            res["n"] += 1
            ra = a["R"].get(i)
            if b is not None and ra != b["R"].get(i):
                if len(res["mismatch"]) < 30:
                    res["mismatch"].append({"input": "%s realpath %s" % (c.id, enc(o[1])), "impl": str(ra), "model": str(b["R"].get(i)),
                                            "case": t2.Case(c.id, c.cfg, c.inits, [x for x in c.ops[:i] if x[0] != "realpath"] + [o]).to_text()})
                else:
                    res["mismatch_more"] = res.get("mismatch_more", 0) + 1
            if ra and ra[0] == "ok":
                if dec(ra[1]) != __import__("pathlib_go").goclean(o[1]):
                    nontriv.add((c.id, o[1]))
                x = a["X"].get(i, "")
                f = dict(kv.split("=") for kv in x.split(" ") if "=" in kv)
                msg = None
                if f.get("parents", "0") != "0":
                    msg = "realPath(%s) = %s still has %s symlink(s) among its parent components" % (enc(o[1]), ra[1], f["parents"])
                elif f.get("same") == "f":
                    msg = "realPath(%s) = %s does not name the entry the caller's path names" % (enc(o[1]), ra[1])
                if msg:
                    trig = sorted(b.get("Fi", {}).get(i, set())) if b is not None else []
                    key = tuple(trig)
                    cnt = res.setdefault("_tc", {})
                    cnt[key] = cnt.get(key, 0) + 1
                    if cnt[key] <= 10:
                        mini = t2.Case(c.id, c.cfg, c.inits, [x for x in c.ops[:i] if x[0] != "realpath"] + [o])
                        res["oracle"].append({"input": "%s realpath %s" % (c.id, enc(o[1])), "why": msg, "triggers": trig, "case": mini.to_text(), "impl": str(ra)})
                    else:
                        res["oracle_more"] = res.get("oracle_more", 0) + 1
    res.pop("_tc", None)
    res["nontrivial"] = len(nontriv)
    res["samples"] = [{"case": cases[0].to_text().split("\n")[:20]}]
    return {"streams": [res, mutating_stream(tier, rnd, model_ok, graphs, cfgs)]}


def mutating_stream(tier, rnd, model_ok, graphs, cfgs):
    """the path the base filesystem actually receives from mutating operations whose names run
    through symlinked parents: primitive traces (L2) compared with the model"""
    import bfsprops
    cases = []
    sample = graphs if tier != "quick" else rnd.sample(graphs, min(len(graphs), 40))
    names = [b"/l1/n", b"/x/l2/n", b"/l1/y/n", b"/l1/f", b"/x/l2/f", b"/z/../l1/n"]
    for gi, (ta, tb) in enumerate(sample):
        cfg = cfgs[gi % len(cfgs)]
        if t2.view_prefix(cfg) and ta.startswith(b".."):
            cfg = cfgs[0]
        ops = [("dump",)]
        for n in rnd.sample(names, 3):
            ops.append(rnd.choice([
                ("openwrite", n, rnd.choice([0x40, 0x240, 0xC0, 0x41, 0x242]), "644", "Bw"),
                ("create", n, "Bc"), ("mkdir", n, "755"), ("mkdirall", n + b"/deep", "755"),
                ("chmod", n, "600"), ("lchown", n, 1000, 1000), ("symlink", b"tgt", n), ("remove", n),
                ("rename", n, n + b"2")]))
        ops += [("dump",), ("rollback",)]
        cases.append(t2.Case("c16m-%d" % gi, cfg, graph_inits(cfg, ta, tb), ops))
    return worldrun.run_stream("C16", "mutating_paths", cases, model_ok, level=2, oracle=None, do_shrink=False,
                               desc="mutating operations (OpenFile with every kind of flag incl. read-only access with O_CREATE/O_TRUNC, Create, Mkdir, MkdirAll, Chmod, Lchown, Symlink, Remove, Rename) on names that run through the symlinks of the two-link graphs: results, trees and the exact primitive calls - i.e. the path arguments the base and backup filesystems receive - compared with the model (L2)")

