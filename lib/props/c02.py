"""C02: originals stay recoverable at every step (backup before write)."""
import random

from common import *  # noqa
import t2
import worldrun
import bfsprops
import faultgen

ASSUMPTIONS = [
    "a crash point is the boundary between two primitive calls BackupFS issues on its base or backup filesystem (user-space state is lost at a crash anyway)",
    "a primitive call is atomic (HiddenFS.RemoveAll as the base's RemoveAll counts as one call)",
]


def oracle(case, a):
    s0 = a["S"].get("0", [])
    w = a["S"].get("final", [])
    m = bfsprops.recoverable(case.cfg, s0, w)
    if m:
        return "after %d primitive calls: %s" % (case.crash, m)
    m = bfsprops.backup_clean(case.cfg, s0, w, worldrun.region(s0, case.cfg, "backup"))
    if m:
        return "after %d primitive calls: %s" % (case.crash, m)
    return None


def no_recopy(case, a):
    """a copy once taken is never overwritten by later operations on that path"""
    MUTB = ("openfile", "create", "write", "symlink", "remove", "removeall", "rename", "chmod", "chown", "lchown", "chtimes")
    done = set()
    for i in sorted(a["T"]):
        if case.ops[i][0] in ("rollback", "forcebackup"):
            continue
        opw = set()
        for t in a["T"][i]:
            f = t.split(" ")
            if f[0] == "backup" and f[1] in MUTB and not t.endswith("-> ok") is False:
                if f[2] in done:
                    return "operation %d %s issues %s on a path whose copy was already taken" % (i, case.ops[i][0], t)
                opw.add(f[2])
        done |= opw
    return None


def run(ctx):
    tier, seed, model_ok = ctx["tier"], ctx["seed"], ctx["model_ok"]
    rnd = random.Random(seed)
    n = 50 if tier == "quick" else 500
    per = 10 if tier == "quick" else 10 ** 6
    base_cases = t2.load_corpus()
    for i in range(n):
        cfg = t2.CONFIGS[i % len(t2.CONFIGS)]
        inits, ops = t2.gen_history(rnd, cfg, nops=rnd.randint(1, 7))
        base_cases.append(t2.Case("c02-%d" % i, cfg, inits, ops))
    impl, mod = t2.run_both("C02.base", base_cases, model=model_ok)
    st0 = {"name": "crash_free", "n": len(base_cases), "mismatch": [], "oracle": [], "nontrivial": len(base_cases), "exhaustive": False,
           "desc": "the crash-free runs: primitive traces compared call by call with the model (L2); oracle: no mutating backup call on a path whose copy was already taken"}
    variants = []
    trig = {}
    for c in base_cases:
        a = impl[c.id]
        if mod is not None:
            d = t2.compare(c, a, mod[c.id], 2)
            if d and len(st0["mismatch"]) < 20:
                st0["mismatch"].append({"input": c.id, "diff": d[:5], "case": c.to_text(), "impl": "", "model": ""})
            trig[c.id] = sorted(mod[c.id]["F"])
        m = no_recopy(c, a)
        if m:
            st0["oracle"].append({"input": c.id, "why": m, "triggers": trig.get(c.id, []), "case": c.to_text(), "impl": ""})
        # crash points are counted in primitive calls: if the two raw traces differ in length
        # (an optional Chtimes, see t2.norm_trace) the k-th call is not the same call on both
        # sides, so the crash dumps of this history are judged by the oracle only
        aligned = mod is None or all(a["T"].get(i, []) == mod[c.id]["T"].get(i, []) for i in set(a["T"]) | set(mod[c.id]["T"]))
        total = sum(len(a["T"][i]) for i in a["T"])
        ks = list(range(0, total + 1))
        if len(ks) > per:
            ks = sorted(rnd.sample(ks, per))
        for k in ks:
            variants.append(t2.Case("%s@%d" % (c.id, k), c.cfg, c.inits, c.ops, crash=k, meta={"parent": c.id, "twin": not aligned}))
    r = worldrun.run_stream("C02", "crash_points", variants, model_ok, level=1, oracle=oracle, do_shrink=False,
                            triggers=lambda case, a, b: sorted(set(trig.get(case.meta.get("parent"), [])) | set(b["F"] if b and b.get("F") else [])), nontrivial=lambda c, a: True,
                            desc="for every generated history (operations and the final Rollback): one run per crash point k (%s), stopping the process after exactly k primitive calls; the world at the crash is compared with the model's; oracle: every original entry is intact in the base or exactly copied at the mirrored backup path, and the backup region holds nothing but (possibly still growing) copies of originals" % ("a sample of %d per history" % per if per < 10 ** 6 else "every k"))
    return {"streams": [st0, r]}
