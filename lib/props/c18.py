"""C18: VolumeFS is the identity layer where there are no volumes (Linux half)."""
import random

from common import *  # noqa
from runner import Stream, run_t1_stream
import pathlib_go as pg
import layergen as lg

ASSUMPTIONS = [
    "Linux: filepath.VolumeName is always empty; the parenthesised Windows half of C18 cannot be executed here and is not claimed",
    "'the same operation on the cleaned path': the forwarded call observed by a recording stub is the same method, cleaned path(s), same other arguments",
]
VOLUMES = [b"", b"C:", b"/", b"x", b"C:\\", b"\\\\host\\share"]


def run(ctx):
    tier, seed, model_ok = ctx["tier"], ctx["seed"], ctx["model_ok"]
    rnd = random.Random(seed)
    pool = lg.names(rnd, 400 if tier == "quick" else 5000) + [b"", b"/", b".", b"C:/x", b"C:\\x"]
    strings = list(all_strings(ALPHABET, 4 if tier == "quick" else 5))
    cases = []
    for v in VOLUMES:
        for m in lg.METHS1:
            for n in rnd.sample(pool, 30 if tier == "quick" else 300) + rnd.sample(strings, 30 if tier == "quick" else 300):
                stub = rnd.choice([b"/t", b"/t/../u/", b"rel//x", b"..", b"/"])
                cases.append((v, m, n, b"", rnd.choice(lg.AUX[m]), stub))
        for n in rnd.sample(pool, 40 if tier == "quick" else 300):
            cases.append((v, "rename", n, rnd.choice(pool), "-", b"/x"))
            cases.append((v, "symlink", rnd.choice(pool + [b"../x", b"a//b", b"/a//b/"]), n, "-", b"/x"))
    lines = [lg.layer_line("volume", v, m, a, b, aux, stub) for (v, m, a, b, aux, stub) in cases]

    def oracle(i, line, out):
        v, m, a, b, aux, stub = cases[i]
        f = out.split(" ")
        if f[0] != "fwd":
            return "VolumeFS(%r).%s(%r) did not forward exactly one call: %s" % (v, m, a, out)
        if m == "symlink":
            want_a = pg.goclean(a) if a.startswith(b"/") else a
            want_b = pg.goclean(b)
        elif m == "rename":
            want_a, want_b = pg.goclean(a), pg.goclean(b)
        else:
            want_a, want_b = pg.goclean(a), b""
        if f[1] != m or dec(f[2]) != want_a or dec(f[3]) != want_b or f[4] != aux:
            return "VolumeFS(%r).%s(%r,%r) forwarded %s; expected %s(%r,%r) aux %s" % (v, m, a, b, out, m, want_a, want_b, aux)
        rep = f[5]
        if rep.startswith("name=") and dec(rep[5:]) != want_a:
            return "File.Name() %r differs from the underlying name %r" % (dec(rep[5:]), want_a)
        if rep.startswith("finame=") and dec(rep[7:]) != (want_a.rstrip(b"/").rsplit(b"/", 1)[-1] or b"/"):
            return "FileInfo.Name() %r is not the underlying one" % dec(rep[7:])
        if rep.startswith("link=") and dec(rep[5:]) != pg.goclean(stub):
            return "Readlink returns %r, expected cleaned %r" % (dec(rep[5:]), pg.goclean(stub))
        return None
    st = Stream("layer_volume", lines, oracle=oracle, nontrivial=lambda i, l, o: True,
                desc="every VolumeFS method for %d volume arguments x structured names and all short byte strings over a recording stub; oracle: exactly one forwarded call, same method, cleaned path(s), same other arguments, names pass through, link targets cleaned" % len(VOLUMES))
    return {"streams": [run_t1_stream("C18", st, model_ok)]}
