"""C17: ForceBackup re-baselines a path."""
import random

from common import *  # noqa
import t2
import worldrun
import bfsprops
import pathlib_go as pg

ASSUMPTIONS = [
    "p is a non-directory path - at the ForceBackup moment and when the transaction began (orig_not_dir_cond of the theorem); ForceBackup must have succeeded (ForceBackup below a directory created in the same transaction - fixed finding D22 - is judged too)",
]


def oracle(case, a):
    idx = [i for i, o in enumerate(case.ops) if o[0] == "forcebackup"]
    if len(idx) != 1 or idx[0] + 1 >= len(case.ops) or case.ops[idx[0] + 1][0] != "dump" or case.ops[-1][0] != "rollback":
        return None
    fi = idx[0]
    if a["R"].get(fi, ("",))[0] != "ok":
        return None
    ri = len(case.ops) - 1
    if a["R"].get(ri, ("",))[0] != "ok":
        return "Rollback returned %s after a successful ForceBackup" % (a["R"].get(ri),)
    wp = case.meta["wp"]
    snap = {bfsprops.fields(l)["path"]: worldrun.strip_for_c01(l) for l in worldrun.region(a["S"].get(str(fi + 1), []), case.cfg, "base")}
    init = {bfsprops.fields(l)["path"]: worldrun.strip_for_c01(l) for l in worldrun.region(a["S"].get("0", []), case.cfg, "base")}
    final = {bfsprops.fields(l)["path"]: worldrun.strip_for_c01(l) for l in worldrun.region(a["S"].get("final", []), case.cfg, "base")}
    if snap.get(wp) is not None and bfsprops.fields(snap[wp])["kind"] == "D":
        return None
    if init.get(wp) is not None and bfsprops.fields(init[wp])["kind"] == "D":
        # p was a directory when the transaction began (and has been removed or replaced since):
        # not "a non-directory path p" in the property's sense - re-baselining it to "absent" or to
        # a file is incompatible with rolling its former content back "as usual"
        return None
    if final.get(wp) != snap.get(wp):
        return "after Rollback %s is %s, at the ForceBackup moment it was %s" % (enc(wp), final.get(wp), snap.get(wp))
    for p in set(init) | set(final):
        if p == wp:
            continue
        if init.get(p) != final.get(p):
            return "path %s other than the re-baselined one is not rolled back: %s vs initially %s" % (enc(p), final.get(p), init.get(p))
    return None


def corpus_cases():
    """recorded histories that contain exactly one ForceBackup followed by a dump (D21, D22)"""
    out = []
    for c in t2.load_corpus(with_force=True):
        idx = [i for i, o in enumerate(c.ops) if o[0] == "forcebackup"]
        if len(idx) == 1 and idx[0] + 1 < len(c.ops) and c.ops[idx[0] + 1][0] == "dump":
            wp = t2.world_path(c.cfg, pg.goclean(c.ops[idx[0]][1]))
            out.append(t2.Case(c.id + "-c17", c.cfg, c.inits, c.ops, meta={"force_index": idx[0], "wp": wp}))
    return out


def gen_cases(tier, rnd, n):
    cases = corpus_cases()
    # ForceBackup below a directory created in the same transaction, and after a failed
    # operation that left a "did not exist" record behind a removed symlink
    for i, cfg in enumerate(t2.CONFIGS):
        inits, _ = t2.gen_history(rnd, cfg, nops=1)
        pfx = t2.view_prefix(cfg)
        w = lambda v: t2.world_path(cfg, v)
        nd = b"/nd%d" % i
        ops = [("dump",), ("mkdir", nd, "755"), ("create", nd + b"/f", "Bnew"), ("forcebackup", nd + b"/f"), ("dump",),
               ("dump",), ("rollback",)]
        cases.append(t2.Case("c17-newdir-%d" % i, cfg, inits, ops, meta={"force_index": 3, "wp": w(nd + b"/f")}))
    # a re-baselined file below a directory that is also reachable through a symlink which the
    # transaction later replaces by a real directory with an entry of the same name: the order of
    # Rollback's passes (remove created paths first, then restore) matters
    for i, cfg in enumerate(t2.CONFIGS):
        inits, _ = t2.gen_history(rnd, cfg, nops=1)
        w = lambda v: t2.world_path(cfg, v)
        td, lk = b"/tdir%d" % i, b"/tlink%d" % i
        inits = inits + [("D", w(td), 0o755, 0, 0, 90), ("F", w(td + b"/n"), 0o644, 0, 0, 91, "Borig"), ("L", w(lk), 0, 0, 92, (t2.view_prefix(cfg) or b"") + td)]
        ops = [("dump",), ("openwrite", td + b"/n", 0x241, "644", "Bforced"), ("forcebackup", td + b"/n"), ("dump",),
               ("remove", lk), ("mkdir", lk, "755"), ("create", lk + b"/n", "Bnew"), ("dump",), ("rollback",)]
        cases.append(t2.Case("c17-linkdir-%d" % i, cfg, inits, ops, meta={"force_index": 2, "wp": w(td + b"/n")}))
    for i in range(n):
        cfg = t2.CONFIGS[i % len(t2.CONFIGS)]
        inits, ops = t2.gen_history(rnd, cfg, nops=rnd.randint(1, 8))
        body = ops[1:-2]
        # p: a non-directory initial entry, or a fresh name, whose parents exist initially
        pfx = t2.view_prefix(cfg)
        cand = [x for x in inits if x[0] in ("F", "L") and x[1].startswith(pfx or b"/") and not pg.within(cfg["q"], x[1])]
        dirs0 = [x[1] for x in inits if x[0] == "D" and x[1].startswith(pfx or b"/") and not pg.within(cfg["q"], x[1])]
        if cand and rnd.random() < 0.7:
            wp = rnd.choice(cand)[1]
        else:
            d = rnd.choice(dirs0)
            wp = (d if d != b"/" else b"") + b"/" + rnd.choice(t2.NAMES)
        vp = bfsprops.view_of_world(cfg, wp)
        # make the operations hit p often: unmodified / modified / created / removed / untouched
        pos = rnd.randint(0, len(body))
        pre = body[:pos]
        if rnd.random() < 0.6:
            pre = pre + [rnd.choice([("create", vp, "Bforced"), ("remove", vp), ("chmod", vp, "640"), ("openwrite", vp, 0x441, "644", "Bmore"),
                                     ("chown", vp, 1001, 1000), ("lchown", vp, 1000, 1001), ("chown", vp, 1001, 1000)])]
        rest = body[pos:]
        if rnd.random() < 0.6:
            rest = rest + [rnd.choice([("create", vp, "Blater"), ("remove", vp), ("chown", vp, 1000, 1001)])]
        # the name ForceBackup is given: mostly p itself, sometimes another spelling of it
        # (unclean, or through a symlink to its parent directory)
        fp = vp
        r = rnd.random()
        if r < 0.15 and vp != b"/":
            fp = vp.replace(b"/", b"//", 1)
        elif r < 0.3 and vp != b"/":
            head, tail = vp.rsplit(b"/", 1)
            fp = head + rnd.choice([b"/./", b"/zz/../"]) + tail
        elif r < 0.5:
            par = wp.rsplit(b"/", 1)[0] or b"/"
            via = []
            for x in inits:
                if x[0] != "L" or not x[1].startswith(pfx or b"/") or pg.within(cfg["q"], x[1]):
                    continue
                tgt = x[5] if x[5].startswith(b"/") else pg.gojoin(pg.godir(x[1]), x[5])
                # the lexical computation of where the link leads is only right if the link's own
                # parent directories are real directories (not links themselves)
                dirs_ = {y[1] for y in inits if y[0] == "D"}
                if pg.goclean(tgt) == par and not pg.within(x[1], wp) and all(a in dirs_ for a in t2.parents(x[1])):
                    via.append(x[1])
            # ... and only if no earlier operation of the history names the link or anything on the
            # way to it (it might have removed or replaced it)
            def untouched(link_world):
                lv = bfsprops.view_of_world(cfg, link_world)
                for o in pre:
                    for a in o[1:]:
                        if isinstance(a, bytes):
                            ca = pg.goclean(b"/" + a)
                            if ca == lv or pg.within(ca, lv) or pg.within(lv, ca):
                                return False
                return True
            via = [v for v in via if untouched(v)]
            if via:
                fp = bfsprops.view_of_world(cfg, rnd.choice(via)) + b"/" + wp.rsplit(b"/", 1)[1]
        new_ops = [ops[0]] + pre + [("forcebackup", fp), ("dump",)] + rest + [("dump",), ("rollback",)]
        cases.append(t2.Case("c17-%d" % i, cfg, inits, new_ops, meta={"force_index": 1 + len(pre), "wp": wp}))
    return cases


def run(ctx):
    tier, seed, model_ok = ctx["tier"], ctx["seed"], ctx["model_ok"]
    rnd = random.Random(seed)
    cases = gen_cases(tier, rnd, 250 if tier == "quick" else 5000)
    r = worldrun.run_stream("C17", "forcebackup", cases, model_ok, level=1, oracle=oracle,
                            nontrivial=lambda c, a: any(o[0] == "forcebackup" and a["R"].get(i, ("",))[0] == "ok" for i, o in enumerate(c.ops)),
                            desc="random histories with ForceBackup(p) at a random position, p unmodified / modified / created / removed / never touched at that point, snapshot taken by the harness at that moment; oracle after Rollback: p as in the snapshot, every other path as initially; non-trivial = ForceBackup succeeded")
    return {"streams": [r]}
