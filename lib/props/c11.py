"""C11: HiddenFS listings and recursive operations respect hidden paths."""
import itertools
import random

from common import *  # noqa
from runner import Stream, run_t1_stream
import pathlib_go as pg
import layergen as lg
import hiddengen as hg

ASSUMPTIONS = [
    "the underlying directory handle follows os.File's contract: n<=0 returns everything and no EOF; n>0 returns min(n, remaining) entries and (nothing, io.EOF) when exhausted",
    "a batch returned together with io.EOF counts as returned",
]

ENTRY_NAMES = [b"backups", b"backups2", b"a", b"x", b"\xc3\xa4", b"backup"]


def run(ctx):
    tier, seed, model_ok = ctx["tier"], ctx["seed"], ctx["model_ok"]
    rnd = random.Random(seed)
    results = []
    configs = [(b"/var", [b"/var/backups"]), (b"/", [b"/backups"]), (b"/var", [b"/var/backups", b"/var/x"]),
               (b"/var/", [b"/var/backups/deep"]), (b"var", [b"var/backups"]), (b"/o", [b"/var/backups"]), (b"/var", [])]
    cases = []
    maxn = 4 if tier == "quick" else 5
    for dirp, hs in configs:
        for k in range(0, maxn + 1):
            for content in itertools.permutations(ENTRY_NAMES[:maxn + 1], k):
                if k >= 3 and rnd.random() < (0.8 if tier == "quick" else 0.5):
                    continue
                counts_space = list(range(-1, k + 2))
                seqs = [[c] for c in counts_space]
                seqs += [[a, b] for a in counts_space for b in counts_space if a > 0]
                seqs += [[1] * (k + 2), [2] * (k + 1), [1, 2, 3], [3, 1, 1, 1]]
                for seq in seqs:
                    for kind in ("names", "infos"):
                        cases.append((dirp, hs, list(content), seq, kind))
    if tier == "quick" and len(cases) > 60000:
        cases = rnd.sample(cases, 60000)
    lines = ["hlist %s %s %s %s %s" % (enc(d), enc_list(hs), enc_list(c), ",".join(map(str, s)), kind) for (d, hs, c, s, kind) in cases]

    def oracle(i, line, out):
        dirp, hs, content, seq, kind = cases[i]
        visible = [e for e in content if not hg.below(hs, pg.gojoin(pg.goclean(dirp), e))]
        got = []
        done = False
        for tok in out.split(" "):
            if tok == "err":
                return "%s(%s) on %r with hidden %r fails with a non-EOF error (content %r)" % (
                    "Readdirnames" if kind == "names" else "Readdir", seq, dirp, hs, content)
            st_, lst = tok.split(":", 1)
            if not done:
                got += dec_list(lst)
            elif dec_list(lst):
                return "entries returned after EOF"
            if st_ == "eof" or (st_ == "ok" and not dec_list(lst)):
                done = True
        # the sequence may stop before the directory is exhausted: got must be a prefix-multiset
        if done or any(c <= 0 for c in seq):
            if sorted(got) != sorted(visible):
                return "listing %r of %r with hidden %r returned %r, expected exactly %r" % (seq, content, hs, got, visible)
        else:
            if len(set(got)) != len(got) or any(g not in visible for g in got):
                return "listing returned hidden or duplicate entries: %r (visible %r)" % (got, visible)
        return None
    st = Stream("listing", lines, oracle=oracle, nontrivial=lambda i, l, o: cases[i][2] != [] ,
                desc="hiddenFile.Readdir/Readdirnames over a scripted underlying handle: directory contents up to %d entries (incl. hidden entry, sibling sharing its prefix, non-ASCII), every count -1..size+1, sequences of calls; oracle: no non-EOF error, concatenated batches == exactly the non-hidden entries, each once; non-trivial = non-empty directory" % maxn)
    results.append(run_t1_stream("C11", st, model_ok))

    # no relocation by renaming an ancestor of a hidden path (lexical)
    rcases = []
    for hs in hg.HIDDEN_SETS:
        for h in hg.norm_hidden(hs):
            ch = pg.chain(h)[:-1]
            for anc in ch:
                for sp in hg.spellings(rnd, anc):
                    rcases.append((hs, sp, rnd.choice([b"/elsewhere", b"/var2", b"moved", b"/x/y"])))
    lines = [lg.layer_line("hidden", hs, "rename", a, b) for (hs, a, b) in rcases]

    def roracle(i, line, out):
        hs, a, b = rcases[i]
        if not (hg.comparable(hs, a) and hg.comparable(hs, b)):
            return None
        if out.startswith("fwd"):
            return "Rename(%r,%r) relocates the hidden path(s) %r below it" % (a, b, hs)
        if len(out.split(" ")) > 2:
            return "rejected after underlying calls: " + out
        return None
    st = Stream("rename_ancestor", lines, oracle=roracle,
                desc="HiddenFS.Rename of every spelling of every proper ancestor of every hidden path: must be refused without an underlying call")
    results.append(run_t1_stream("C11", st, model_ok))
    results.append(removeall_stream(tier, rnd, model_ok))
    return {"streams": results}


def removeall_stream(tier, rnd, model_ok):
    import t2
    import worldrun
    import layerworld as lw
    import bfsprops
    n = 150 if tier == "quick" else 3000
    cases = []
    for i in range(n):
        prefix = [None, b"/root"][i % 2]
        inits, view, hs, hdir = lw.hidden_world(rnd, prefix)
        anc = [a for a in t2.parents(hdir + b"/q") if a != b"/"] + [hdir]
        target = rnd.choice(anc + [b"/"] if rnd.random() < 0.1 else anc)
        ops = [("dump",), ("removeall", rnd.choice([target, target + b"/", target.replace(b"/", b"//", 1)])), ("dump",)]
        if rnd.random() < 0.3:
            ops += [("rename", rnd.choice(anc), b"/moved"), ("dump",)]
        cfg = {"ctor": "generic", "q": b"/unused-backup", "p": prefix, "hs": hs}
        cases.append(t2.Case("c11r-%d" % i, cfg, inits, ops, meta={"direct": True, "raw": True, "hs": hs, "prefix": prefix}))

    def oracle(case, a):
        hs_ = case.meta["hs"]
        pfx = case.meta["prefix"] or b""
        o = case.ops[1]
        if o[0] != "removeall" or a["R"].get(1, ("",))[0] != "ok":
            if o[0] == "removeall" and a["R"].get(1):
                return "RemoveAll(%s) on an ancestor of hidden paths failed: %s" % (enc(o[1]), a["R"][1][0])
            return None
        tgt = pg.goclean(o[1])
        before = {bfsprops.fields(l)["path"]: l for l in a["S"].get("0", [])}
        after = {bfsprops.fields(l)["path"]: l for l in a["S"].get("2", [])}
        vw = lambda wp: (wp[len(pfx):] or b"/") if pfx else wp
        for wp, l in before.items():
            v = vw(wp)
            if pfx and not pg.within(pfx, wp):
                keep = True
            elif not pg.within(tgt, v):
                keep = True          # outside the removed subtree
            elif lw.below_any(hs_, v):
                keep = True          # hidden entries and everything below them
            elif any(h != v and pg.within(v, h) for h in hs_):
                keep = True          # directories leading to a hidden path
            else:
                keep = False
            if keep and wp not in after:
                return "RemoveAll(%s) removed %s which is hidden, leads to a hidden path, or lies outside" % (enc(o[1]), enc(wp))
            if keep and bfsprops.fields(after[wp])["kind"] != "D" and after[wp] != l:
                return "RemoveAll(%s) changed %s" % (enc(o[1]), enc(wp))
            if not keep and wp in after:
                return "RemoveAll(%s) left %s behind (not hidden, not leading to a hidden path)" % (enc(o[1]), enc(wp))
        for wp in after:
            if wp not in before:
                return "RemoveAll created %s" % enc(wp)
        # no relocation
        if len(case.ops) > 3 and case.ops[3][0] == "rename" and a["R"].get(3, ("",))[0] == "ok":
            return "Rename(%s) of an ancestor of a hidden path succeeded" % enc(case.ops[3][1])
        return None
    return worldrun.run_stream("C11", "removeall_real_trees", cases, model_ok, level=1, oracle=oracle,
                               desc="HiddenFS (over OSFS or PrefixFS) in a chroot: trees around one or two hidden paths that are a directory / file / symlink / missing, with siblings sorting before and after them, nested content, symlinks to hidden content; RemoveAll on every ancestor spelling, then Rename of an ancestor; compared with the model; oracle: exactly the hidden entries (and what is below them), the directories leading to hidden paths and everything outside the removed subtree remain, unchanged")
