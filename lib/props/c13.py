"""C13: Rollback stays within the transaction's footprint."""
import random

from common import *  # noqa
import t2
import worldrun
import bfsprops
import pathlib_go as pg

ASSUMPTIONS = [
    "foreign entries carry names no operation of the history uses (zz*, keep*); they are created directly on the underlying filesystem inside directories that exist when the transaction begins, or anywhere inside backup directories",
    "Rollback may return an error when foreign content keeps a backup directory non-empty; the property does not forbid that",
]


def oracle(case, a):
    final = {bfsprops.fields(l)["path"]: bfsprops.fields(l) for l in a["S"].get("final", [])}
    if case.ops[-1][0] != "rollback":
        return None
    foreign = []
    for i, o in enumerate(case.ops):
        if a["R"].get(i, ("",))[0] != "ok":
            continue
        if o[0] == "extwrite":
            foreign.append((o[1], "F", rle_of(o[2])))
        elif o[0] == "extmkdirall" and b"zzdir" in o[1]:
            foreign.append((o[1], "D", None))
    for (wp, kind, data) in foreign:
        cur = final.get(wp)
        if cur is None:
            return "foreign entry %s (created outside the transaction) is gone after Rollback" % enc(wp)
        if kind == "F" and cur["data"] != data:
            return "foreign file %s changed: %s, expected %s" % (enc(wp), cur["data"], data)
    return untracked_unchanged(case, a)


def untracked_unchanged(case, a):
    """First clause of the property, judged on Rollback alone: an entry of the base region that is
    not tracked when Rollback starts (its path is not a key of Map()) is the same entry afterwards
    (directory timestamps exempt).  Skipped when a tracked path lies below a symlink (before the
    transaction or when Rollback starts): restoring such a path legitimately writes elsewhere
    (recorded findings D14/D17 live there), and the rule must not judge those."""
    lab = str(len(case.ops) - 2)
    if case.ops[-2][0] != "dump" or lab not in a["S"] or lab not in a["M"] or "final" not in a["S"]:
        return None
    cfg = case.cfg
    tracked = set(dec(l.split(" ")[0]) for l in a["M"][lab])
    # a relatively named path is tracked under its relative spelling (the working directory is the root)
    tracked |= set(pg.goclean(b"/" + k) for k in tracked if not k.startswith(b"/"))
    links = set()
    for label in ("0", lab):
        for l in a["S"].get(label, []):
            f = bfsprops.fields(l)
            if f["kind"] == "L":
                links.add(f["path"])
    for k in tracked:
        wk = t2.world_path(cfg, k)
        if any(anc in links for anc in t2.parents(wk)):
            return None
    final = {worldrun.path_of(l): worldrun.strip_for_c01(l) for l in worldrun.region(a["S"]["final"], cfg, "base")}
    for l in worldrun.region(a["S"][lab], cfg, "base"):
        wp = worldrun.path_of(l)
        if bfsprops.view_of_world(cfg, wp) in tracked or wp == (t2.view_prefix(cfg) or b"/"):
            continue
        before = worldrun.strip_for_c01(l)
        if final.get(wp) != before:
            return "entry %s, never tracked by the transaction, changed during Rollback: %s -> %s" % (enc(wp), before, final.get(wp))
    return None


def targeted_cases(rnd):
    """a symlink that the transaction itself puts in the place of a tracked file / directory and
    that points at an entry no operation names: Rollback must restore the tracked path, not
    write (or chmod/chown) through the link"""
    cases = []
    for i, cfg in enumerate(t2.CONFIGS):
        base, _ = t2.gen_history(rnd, cfg, nops=1)
        w = lambda v: t2.world_path(cfg, v)
        extra = [("F", w(b"/tta"), 0o640, 1000, 1001, 90, "Borig"), ("F", w(b"/ttu"), 0o4755, 1001, 1000, 91, "Bkeep"),
                 ("L", w(b"/ttl"), 0, 0, 92, b"ttu"),
                 ("D", w(b"/ttd"), 0o700, 1000, 1000, 93), ("D", w(b"/ttv"), 0o2775, 1001, 1001, 94), ("F", w(b"/ttv/in"), 0o600, 0, 0, 95, "Bin")]
        for j, body in enumerate([
                [("rename", b"/ttl", b"/tta")],
                [("remove", b"/tta"), ("symlink", b"ttu", b"/tta")],
                [("remove", b"/ttd"), ("symlink", b"ttv", b"/ttd")],
                [("remove", b"/tta"), ("symlink", b"ttu", b"/tta"), ("remove", b"/ttd"), ("symlink", b"/ttv", b"/ttd")]]):
            ops = [("dump",)] + body + [("dump",), ("rollback",)]
            cases.append(t2.Case("c13-link-%d-%d" % (i, j), cfg, base + extra, ops, meta={"foreign": []}))
    return cases


def rle_of(spec):
    # content specs used here are single runs
    b, n = spec[1:].split("x")
    return "%s*%s" % (b, n)


def run(ctx):
    tier, seed, model_ok = ctx["tier"], ctx["seed"], ctx["model_ok"]
    rnd = random.Random(seed)
    n = 200 if tier == "quick" else 4000
    cases = targeted_cases(rnd)
    for i in range(n):
        cfg = t2.CONFIGS[i % len(t2.CONFIGS)]
        inits, ops = t2.gen_history(rnd, cfg, nops=rnd.randint(2, 9))
        dirs0 = [x[1] for x in inits if x[0] == "D" and not pg.within(cfg["q"], x[1]) and pg.within(t2.view_prefix(cfg) or b"/", x[1])]
        foreign = []
        k = 0
        new_ops = []
        body = ops[1:-2]
        for op in [ops[0]] + body:
            new_ops.append(op)
            if rnd.random() < 0.35:
                k += 1
                spec = "R%dx%d" % (rnd.choice([65, 66, 67]), rnd.randint(1, 9))
                r = rnd.random()
                if r < 0.5 and dirs0:
                    d = rnd.choice(dirs0)
                    wp = (d if d != b"/" else b"") + b"/zz%d" % k
                    new_ops.append(("extwrite", wp, spec))
                    foreign.append((wp, "F", rle_of(spec)))
                elif r < 0.8:
                    # inside a backup directory mirroring an initial base directory (or the backup root)
                    d = rnd.choice(dirs0) if dirs0 else (t2.view_prefix(cfg) or b"/")
                    v = bfsprops.view_of_world(cfg, d)
                    bd = bfsprops.mirror(cfg, v)
                    wp = bd + b"/keep%d" % k
                    new_ops.append(("extmkdirall", bd))
                    new_ops.append(("extwrite", wp, spec))
                    foreign.append((wp, "F", rle_of(spec)))
                else:
                    d = rnd.choice(dirs0) if dirs0 else b"/"
                    wp = (d if d != b"/" else b"") + b"/zzdir%d" % k
                    new_ops.append(("extmkdirall", wp))
                    foreign.append((wp, "D", None))
        new_ops += [("dump",), ("rollback",)]
        cases.append(t2.Case("c13-%d" % i, cfg, inits, new_ops, meta={"foreign": foreign}))
    r = worldrun.run_stream("C13", "footprint", cases, model_ok, level=2, oracle=oracle,
                            nontrivial=lambda c, a: any(o[0].startswith("ext") for o in c.ops) or c.id.startswith("c13-link"),
                            desc="random histories interleaved with direct (un-spied) modifications: fresh files/directories in directories that predate the transaction, fresh files inside backup directories; then Rollback; oracle: every foreign entry still present with its content; the primitive traces (L2) are compared with the model too (a RemoveAll in place of Remove is a trace difference); non-trivial = at least one foreign entry; in front, targeted histories in which the transaction puts a symlink to a never-named entry in the place of a tracked file/directory; second oracle: every entry of the base region that is not tracked when Rollback starts is unchanged by Rollback (skipped when a tracked path lies below a symlink)")
    return {"streams": [r]}
