"""C13: Rollback stays within the transaction's footprint."""
import random

from common import *  # noqa
import t2
import worldrun
import bfsprops
import pathlib_go as pg

ASSUMPTIONS = [
    "foreign entries carry names no operation of the history uses (zz*, keep*); they are created directly on the underlying filesystem inside directories that exist when the transaction begins, or anywhere inside backup directories",
    "Rollback may return an error when foreign content keeps a backup directory non-empty; the property does not forbid that",
]


def oracle(case, a):
    final = {bfsprops.fields(l)["path"]: bfsprops.fields(l) for l in a["S"].get("final", [])}
    if case.ops[-1][0] != "rollback":
        return None
    foreign = []
    for i, o in enumerate(case.ops):
        if a["R"].get(i, ("",))[0] != "ok":
            continue
        if o[0] == "extwrite":
            foreign.append((o[1], "F", rle_of(o[2])))
        elif o[0] == "extmkdirall" and b"zzdir" in o[1]:
            foreign.append((o[1], "D", None))
    for (wp, kind, data) in foreign:
        cur = final.get(wp)
        if cur is None:
            return "foreign entry %s (created outside the transaction) is gone after Rollback" % enc(wp)
        if kind == "F" and cur["data"] != data:
            return "foreign file %s changed: %s, expected %s" % (enc(wp), cur["data"], data)
    return None


def rle_of(spec):
    # content specs used here are single runs
    b, n = spec[1:].split("x")
    return "%s*%s" % (b, n)


def run(ctx):
    tier, seed, model_ok = ctx["tier"], ctx["seed"], ctx["model_ok"]
    rnd = random.Random(seed)
    n = 200 if tier == "quick" else 4000
    cases = []
    for i in range(n):
        cfg = t2.CONFIGS[i % len(t2.CONFIGS)]
        inits, ops = t2.gen_history(rnd, cfg, nops=rnd.randint(2, 9))
        dirs0 = [x[1] for x in inits if x[0] == "D" and not pg.within(cfg["q"], x[1]) and pg.within(t2.view_prefix(cfg) or b"/", x[1])]
        foreign = []
        k = 0
        new_ops = []
        body = ops[1:-2]
        for op in [ops[0]] + body:
            new_ops.append(op)
            if rnd.random() < 0.35:
                k += 1
                spec = "R%dx%d" % (rnd.choice([65, 66, 67]), rnd.randint(1, 9))
                r = rnd.random()
                if r < 0.5 and dirs0:
                    d = rnd.choice(dirs0)
                    wp = (d if d != b"/" else b"") + b"/zz%d" % k
                    new_ops.append(("extwrite", wp, spec))
                    foreign.append((wp, "F", rle_of(spec)))
                elif r < 0.8:
                    # inside a backup directory mirroring an initial base directory (or the backup root)
                    d = rnd.choice(dirs0) if dirs0 else (t2.view_prefix(cfg) or b"/")
                    v = bfsprops.view_of_world(cfg, d)
                    bd = bfsprops.mirror(cfg, v)
                    wp = bd + b"/keep%d" % k
                    new_ops.append(("extmkdirall", bd))
                    new_ops.append(("extwrite", wp, spec))
                    foreign.append((wp, "F", rle_of(spec)))
                else:
                    d = rnd.choice(dirs0) if dirs0 else b"/"
                    wp = (d if d != b"/" else b"") + b"/zzdir%d" % k
                    new_ops.append(("extmkdirall", wp))
                    foreign.append((wp, "D", None))
        new_ops += [("dump",), ("rollback",)]
        cases.append(t2.Case("c13-%d" % i, cfg, inits, new_ops, meta={"foreign": foreign}))
    r = worldrun.run_stream("C13", "footprint", cases, model_ok, level=2, oracle=oracle,
                            nontrivial=lambda c, a: any(o[0].startswith("ext") for o in c.ops),
                            desc="random histories interleaved with direct (un-spied) modifications: fresh files/directories in directories that predate the transaction, fresh files inside backup directories; then Rollback; oracle: every foreign entry still present with its content; the primitive traces (L2) are compared with the model too (a RemoveAll in place of Remove is a trace difference); non-trivial = at least one foreign entry")
    return {"streams": [r]}
