"""C12: transaction state survives serialisation and restart."""
import random

from common import *  # noqa
from runner import Stream, run_t1_stream
import t2
import worldrun
import bfsprops

ASSUMPTIONS = [
    "encoding/json is standard library: exercised, not modelled; modification times are within the int64 nanosecond range and ids within uint32 (in_range)",
    "restart = MarshalJSON on the old instance, a new BackupFS over the same two filesystems, UnmarshalJSON",
]


def post(cases, impl):
    out = []
    byid = {c.id: c for c in cases}
    for c in cases:
        if not c.id.endswith("-a"):
            continue
        t = byid.get(c.id[:-2] + "-b")
        a, b = impl.get(c.id), impl.get(t.id) if t else None
        if not a or not b:
            continue
        ra = [a["R"].get(i) for i, o in enumerate(c.ops) if o[0] not in ("persist", "dump")]
        rb = [b["R"].get(i) for i, o in enumerate(t.ops) if o[0] not in ("persist", "dump")]
        if ra != rb:
            out.append((c.id, "results differ after restart: %s vs without restart %s" % (ra, rb)))
            continue
        fa = sorted(worldrun.strip_for_c01(l) for l in a["S"].get("final", []))
        fb = sorted(worldrun.strip_for_c01(l) for l in b["S"].get("final", []))
        if fa != fb:
            out.append((c.id, "final trees differ between the restarted and the uninterrupted run: %s" % sorted(set(fa) ^ set(fb))[:4]))
        # tracked state right after the reload vs right before it
        for i, o in enumerate(c.ops):
            if o[0] == "persist" and i >= 1 and c.ops[i - 1][0] == "dump" and i + 1 < len(c.ops) and c.ops[i + 1][0] == "dump":
                ma, mb = sorted(a["M"].get(str(i - 1), [])), sorted(a["M"].get(str(i + 1), []))
                if ma != mb:
                    out.append((c.id, "Map() after UnmarshalJSON differs from Map() before MarshalJSON: %s" % sorted(set(ma) ^ set(mb))[:4]))
    return out


def run(ctx):
    tier, seed, model_ok = ctx["tier"], ctx["seed"], ctx["model_ok"]
    rnd = random.Random(seed)
    n = 200 if tier == "quick" else 4000
    cases = []
    for i in range(n):
        cfg = t2.CONFIGS[i % len(t2.CONFIGS)]
        inits, ops = t2.gen_history(rnd, cfg, nops=rnd.randint(1, 9))
        body = ops[1:-2]
        pos = rnd.randint(0, len(body))
        opsa = [ops[0]] + body[:pos] + [("dump",), ("persist",), ("dump",)] + body[pos:] + [("dump",), ("rollback",)]
        opsb = [ops[0]] + body + [("dump",), ("rollback",)]
        cases.append(t2.Case("c12-%d-a" % i, cfg, inits, opsa))
        cases.append(t2.Case("c12-%d-b" % i, cfg, inits, opsb, meta={"twin2": True}))

    def orc(case, a):
        if case.meta.get("twin2"):
            return None
        return bfsprops.c01_oracle(case, a)
    r = worldrun.run_stream("C12", "restart", cases, model_ok, level=1, oracle=orc, post=post,
                            nontrivial=lambda c, a: any(a["M"].get(str(i + 1)) for i, o in enumerate(c.ops) if o[0] == "persist"),
                            desc="random histories with a restart (MarshalJSON -> new BackupFS -> UnmarshalJSON) at a random position, and the same history without it as twin; oracle: Map() identical across the reload (paths, nil entries, type, permission bits, mtime, size, owner), same results and final trees as the uninterrupted run, Rollback restores (C01 oracle); non-trivial = something was tracked at the restart")
    res = [r]
    # the conversion functions on a grid
    lines = []
    modes = [0o644, 0o4755, 0o2755, 0o1777, 0o6711, 0, 0o777]
    types = [0, 1 << 31, 1 << 27, (1 << 31) | (1 << 20)]  # regular, dir, symlink, dir+sticky(go bit)
    times = [0, 1, -1, 1000000000 * 1000000000, -5 * 1000000000 + 3, 1700000000123456789, (1 << 62)]
    ids = [0, 1000, (1 << 31), (1 << 32) - 1, -1]
    for m in modes:
        for t in types:
            for tm in times:
                for u in ids:
                    lines.append("finfo %s %d %d %d %d %d" % (enc(b"/d/f"), t | m, tm, rnd.randint(0, 1 << 40), u, rnd.choice(ids)))
    st = Stream("finfo_roundtrip", lines, desc="toFInfo/fInfo accessors and a JSON round trip on a grid of type bits x permission bits x times x ids; oracle: every accessor (Mode, ModTime instant, Size, IsDir, uid, gid, Name) survives",
                oracle=lambda i, l, o: None if o.startswith("same") else "fInfo round trip loses information: " + o)
    r = run_t1_stream_impl_only("C12", st)
    r["model_compared"] = False
    res.append(r)
    return {"streams": res}


def run_t1_stream_impl_only(pid, st):
    from runner import run_t1_stream
    return run_t1_stream(pid, st, False)
