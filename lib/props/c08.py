"""C08: a failed backup never lets the modification through."""
import random

from common import *  # noqa
import t2
import worldrun
import bfsprops
import faultgen

ASSUMPTIONS = [
    "a failing primitive call returns EIO and has no effect on the backup filesystem",
    "single faults at every primitive call an operation issues on the backup filesystem while taking its backup (incl. Write/Close on the copy's handle); double faults sampled in the thorough tier",
]
MUT = ("create", "openwrite", "mkdir", "mkdirall", "remove", "removeall", "rename", "symlink", "chmod", "chown", "lchown", "chtimes")


def oracle(case, a):
    i = case.meta["fault_op"]
    o = case.ops[i]
    st = a["R"].get(i)
    if st is None:
        return None
    # was the fault actually injected in this operation?
    hit = [t for t in a["T"].get(i, []) if t.startswith("backup ") and t.endswith("-> EIO")]
    if not hit:
        return None
    if st[0] == "ok":
        return "%s reports success although its backup call %s failed" % (o[0], hit[0])
    before = bfsprops.c01_lines(a, str(i - 1), case.cfg)
    after = bfsprops.c01_lines(a, str(i + 1), case.cfg)
    if before is not None and after is not None and before != after:
        diff = sorted(set(before) ^ set(after))
        if o[0] == "removeall":
            # RemoveAll works entry by entry: entries it had already backed up may be gone;
            # the entry whose backup failed (and everything below it) must be untouched
            fp = t2.world_path(case.cfg, t2.dec(hit[0].split()[2]))
            diff = [l for l in diff if t2.dec(l.split()[0]) == fp or t2.dec(l.split()[0]).startswith(fp.rstrip(b"/") + b"/")]
        if diff:
            return "%s failed to back up (%s) but modified the base: %s" % (o[0], hit[0], diff[:4])
    if False:
        return "%s failed to back up (%s) but modified the base: %s" % (o[0], hit[0], sorted(set(before) ^ set(after))[:4])
    # the failure must not corrupt the transaction
    m = bfsprops.c01_oracle(case, a)
    if m:
        return "after a failed backup (%s): %s" % (hit[0], m)
    lab = str(len(case.ops) - 2)
    m = bfsprops.recoverable(case.cfg, a["S"].get("0", []), a["S"].get(lab, []))
    if m:
        return "after a failed backup (%s): %s" % (hit[0], m)
    return None


def run(ctx):
    tier, seed, model_ok = ctx["tier"], ctx["seed"], ctx["model_ok"]
    rnd = random.Random(seed)
    n = 60 if tier == "quick" else 600
    per = 8 if tier == "quick" else 10 ** 6
    base_cases = []
    for c in t2.load_corpus():
        body = [o for o in c.ops if o[0] not in ("dump", "rollback")]
        ops = [("dump",)]
        for o in body:
            ops += [o, ("dump",)]
        ops.append(("rollback",))
        base_cases.append(t2.Case(c.id + "-c08", c.cfg, c.inits, ops))
    for i in range(n):
        cfg = t2.CONFIGS[i % len(t2.CONFIGS)]
        inits, ops = t2.gen_history(rnd, cfg, nops=rnd.randint(1, 6))
        ops2 = [("dump",)]
        for o in ops[1:-2]:
            ops2 += [o, ("dump",)]
        ops2.append(("rollback",))
        base_cases.append(t2.Case("c08-%d" % i, cfg, inits, ops2))
    r0, variants = faultgen.fault_variants("C08", base_cases, model_ok, rnd, per,
                                           select=lambda c, i, o: o[0] in MUT, tags=("backup",))
    if tier != "quick":
        # sampled double faults
        by_parent = {}
        for v in variants:
            by_parent.setdefault(v.meta["parent"], []).append(v)
        for v in rnd.sample(variants, min(len(variants), 2000)):
            w = rnd.choice(by_parent[v.meta["parent"]])   # a second fault of the same history
            if w.faults != v.faults:
                variants.append(t2.Case(v.id + "+", v.cfg, v.inits, v.ops, faults=v.faults + w.faults, meta=v.meta))
    r = worldrun.run_stream("C08", "backup_faults", variants, model_ok, level=2, oracle=oracle, do_shrink=False,
                            triggers=faultgen.history_triggers(r0), nontrivial=lambda c, a: True,
                            desc="for every generated history and every mutating operation in it: one run per primitive call the operation issues on the backup filesystem (%s), that call failing with EIO; traces compared with the model; oracle: the operation returns an error, the base tree is unchanged by it, the later Rollback restores the base (C01 oracle) and every original is recoverable (C02 oracle)" % ("a sample of %d per history" % per if per < 10 ** 6 else "exhaustively, plus sampled double faults"))
    return {"streams": [r0["stream"], r, forcebackup_failures(tier, seed, model_ok)]}


def force_oracle(case, a):
    """a ForceBackup that fails (its backup could not be taken) must not corrupt the transaction"""
    fi = case.meta["force_index"]
    st = a["R"].get(fi)
    if st is None or st[0] == "ok" or case.ops[-1][0] != "rollback":
        return None
    ri = len(case.ops) - 1
    if a["R"].get(ri, ("",))[0] != "ok":
        return "after a failed ForceBackup (%s) Rollback returns %s" % (st[0], a["R"].get(ri))
    wp = case.meta["wp"]
    strip = worldrun.strip_for_c01
    snap = {bfsprops.fields(l)["path"]: strip(l) for l in worldrun.region(a["S"].get(str(fi + 1), []), case.cfg, "base")}
    init = {bfsprops.fields(l)["path"]: strip(l) for l in worldrun.region(a["S"].get("0", []), case.cfg, "base")}
    final = {bfsprops.fields(l)["path"]: strip(l) for l in worldrun.region(a["S"].get("final", []), case.cfg, "base")}
    for p in set(init) | set(final):
        if p == wp or p.startswith(wp + b"/"):
            if final.get(p) not in (init.get(p), snap.get(p)):
                return "after a failed ForceBackup %s is neither as initially nor as at the ForceBackup moment" % enc(p)
        elif init.get(p) != final.get(p):
            return "after a failed ForceBackup(%s) path %s is not rolled back: %s vs initially %s" % (enc(wp), enc(p), final.get(p), init.get(p))
    return None


def forcebackup_failures(tier, seed, model_ok):
    import importlib
    c17 = importlib.import_module("props.c17")
    rnd = random.Random(seed + 17)
    cases = c17.gen_cases(tier, rnd, 200 if tier == "quick" else 3000)
    return worldrun.run_stream("C08", "forcebackup_failures", cases, model_ok, level=1, oracle=force_oracle,
                               nontrivial=lambda c, a: a["R"].get(c.meta["force_index"], ("ok",))[0] != "ok",
                               desc="histories with a ForceBackup (the C17 generator, incl. ForceBackup below a directory created in the same transaction): whenever the ForceBackup itself fails - its backup could not be taken - the later Rollback must return nil and restore every other path (C08, second sentence); non-trivial = the ForceBackup failed")

