"""C15: HiddenFS is transparent for everything that is not hidden (lexical half)."""
import random

from common import *  # noqa
from runner import Stream, run_t1_stream
import pathlib_go as pg
import layergen as lg
import hiddengen as hg

ASSUMPTIONS = [
    "names and hidden paths of different absoluteness are outside the quantifier (not lexically comparable)",
    "Create/Open are forwarded as OpenFile with os.Create's / os.Open's flags, which is the same operation",
    "RemoveAll and listings are the intended differences (C11); renaming an ancestor of a hidden path is refused (C11)",
]


def run(ctx):
    tier, seed, model_ok = ctx["tier"], ctx["seed"], ctx["model_ok"]
    rnd = random.Random(seed)
    cases = []
    for hs in hg.HIDDEN_SETS + [[]]:
        pool = hg.hnames(rnd, 150 if tier == "quick" else 1500) + [b"/backups2", b"/hh", b"/h2", b"/var/backups2/x", b"/var", b"/", b""]
        for m in lg.METHS1:
            if m == "removeall":
                continue
            for n in rnd.sample(pool, 40 if tier == "quick" else 400):
                cases.append((hs, m, n, b"", rnd.choice(lg.AUX[m]), rnd.choice([b"/t", b"../x", b"/h/x"])))
        for n in rnd.sample(pool, 60 if tier == "quick" else 600):
            cases.append((hs, "rename", n, rnd.choice(pool), "-", b"/x"))
            cases.append((hs, "symlink", rnd.choice(pool + [b"x", b"../x"]), n, "-", b"/x"))
    lines = [lg.layer_line("hidden", hs, m, a, b, aux, stub) for (hs, m, a, b, aux, stub) in cases]

    def oracle(i, line, out):
        hs, m, a, b, aux, stub = cases[i]
        f = out.split(" ")
        names = [a] if m not in ("rename", "symlink") else ([a, b] if m == "rename" else [b, a if a.startswith(b"/") else pg.gojoin(pg.godir(b), a)])
        if not all(hg.comparable(hs, n) for n in names) or any(hg.below(hs, n) for n in names):
            return None
        if m == "rename" and hg.parent_of_hidden(hs, a):
            return None
        wm, waux = m, aux
        if m == "create":
            wm, waux = "openfile", "578,438"
        if m == "open":
            wm, waux = "openfile", "0,0"
        if f[0] != "fwd":
            return "%s(%r,%r), not hidden under %r, is not forwarded: %s" % (m, a, b, hs, out)
        if f[1] != wm or dec(f[2]) != a or dec(f[3]) != b or f[4] != waux:
            return "%s(%r,%r) under hidden %r forwarded as %s; expected %s with the same arguments" % (m, a, b, hs, out, wm)
        rep = f[5]
        if rep.startswith("name=") and dec(rep[5:]) != a:
            return "File.Name() changed: " + out
        if rep.startswith("link=") and dec(rep[5:]) != stub:
            return "Readlink result changed: " + out
        return None
    st = Stream("layer_hidden_transparent", lines, oracle=oracle, nontrivial=lambda i, l, o: o.startswith("fwd"),
                desc="every HiddenFS method (except RemoveAll) on non-hidden names incl. siblings sharing a string prefix with a hidden path, %d hidden sets; oracle: exactly one forwarded call with unchanged arguments and results; non-trivial = forwarded" % (len(hg.HIDDEN_SETS) + 1))
    return {"streams": [run_t1_stream("C15", st, model_ok)]}
