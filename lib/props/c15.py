"""C15: HiddenFS is transparent for everything that is not hidden (lexical half)."""
import random

from common import *  # noqa
from runner import Stream, run_t1_stream
import pathlib_go as pg
import layergen as lg
import hiddengen as hg
import pathlib_go as pg

ASSUMPTIONS = [
    "names and hidden paths of different absoluteness are outside the quantifier (not lexically comparable)",
    "Create/Open are forwarded as OpenFile with os.Create's / os.Open's flags, which is the same operation",
    "RemoveAll and listings are the intended differences (C11); renaming an ancestor of a hidden path is refused (C11)",
]


def run(ctx):
    tier, seed, model_ok = ctx["tier"], ctx["seed"], ctx["model_ok"]
    rnd = random.Random(seed)
    cases = []
    for hs in hg.HIDDEN_SETS + [[]]:
        pool = hg.hnames(rnd, 150 if tier == "quick" else 1500) + [b"/backups2", b"/hh", b"/h2", b"/var/backups2/x", b"/var", b"/", b""]
        for m in lg.METHS1:
            if m == "removeall":
                continue
            for n in rnd.sample(pool, 40 if tier == "quick" else 400):
                cases.append((hs, m, n, b"", rnd.choice(lg.AUX[m]), rnd.choice([b"/t", b"../x", b"/h/x"])))
        for n in rnd.sample(pool, 60 if tier == "quick" else 600):
            cases.append((hs, "rename", n, rnd.choice(pool), "-", b"/x"))
            cases.append((hs, "symlink", rnd.choice(pool + [b"x", b"../x"]), n, "-", b"/x"))
    lines = [lg.layer_line("hidden", hs, m, a, b, aux, stub) for (hs, m, a, b, aux, stub) in cases]

    def oracle(i, line, out):
        hs, m, a, b, aux, stub = cases[i]
        f = out.split(" ")
        names = [a] if m not in ("rename", "symlink") else ([a, b] if m == "rename" else [b, a if a.startswith(b"/") else pg.gojoin(pg.godir(b), a)])
        if not all(hg.comparable(hs, n) for n in names) or any(hg.below(hs, n) for n in names):
            return None
        if m == "rename" and hg.parent_of_hidden(hs, a):
            return None
        wm, waux = m, aux
        if m == "create":
            wm, waux = "openfile", "578,438"
        if m == "open":
            wm, waux = "openfile", "0,0"
        if f[0] != "fwd":
            return "%s(%r,%r), not hidden under %r, is not forwarded: %s" % (m, a, b, hs, out)
        if f[1] != wm or dec(f[2]) != a or dec(f[3]) != b or f[4] != waux:
            return "%s(%r,%r) under hidden %r forwarded as %s; expected %s with the same arguments" % (m, a, b, hs, out, wm)
        rep = f[5]
        if rep.startswith("name=") and dec(rep[5:]) != a:
            return "File.Name() changed: " + out
        if rep.startswith("link=") and dec(rep[5:]) != stub:
            return "Readlink result changed: " + out
        return None
    st = Stream("layer_hidden_transparent", lines, oracle=oracle, nontrivial=lambda i, l, o: o.startswith("fwd"),
                desc="every HiddenFS method (except RemoveAll) on non-hidden names incl. siblings sharing a string prefix with a hidden path, %d hidden sets; oracle: exactly one forwarded call with unchanged arguments and results; non-trivial = forwarded" % (len(hg.HIDDEN_SETS) + 1))
    return {"streams": [run_t1_stream("C15", st, model_ok), listing_stream(tier, rnd, model_ok), twin_stream(tier, rnd, model_ok)]}


def listing_stream(tier, rnd, model_ok):
    """directories without hidden entries (incl. the sibling sharing a hidden path's prefix):
    the listing through HiddenFS is the underlying listing, batch by batch"""
    import itertools
    names = [b"a", b"b", b"backups", b"backups2", b"\xc3\xa4", b"c"]
    configs = [(b"/var/backups2", [b"/var/backups"]), (b"/o", [b"/var/backups"]), (b"/var", []), (b"/", [b"/var/backups/deep"]),
               (b"var2", [b"var/backups"])]
    cases = []
    maxn = 4 if tier == "quick" else 6
    for dirp, hs in configs:
        for k in range(0, maxn + 1):
            content = names[:k]
            counts = list(range(-1, k + 2))
            seqs = [[c] for c in counts] + [[a, b] for a in counts for b in counts if a > 0] + [[1] * (k + 2), [2] * (k + 1), [1, 2, 3], [3, 1, 1, 1]]
            for seq in seqs:
                for kind in ("names", "infos"):
                    cases.append((dirp, hs, content, seq, kind))
    lines = ["hlist %s %s %s %s %s" % (enc(d), enc_list(hs), enc_list(c), ",".join(map(str, sq)), kind) for (d, hs, c, sq, kind) in cases]

    def oracle(i, line, out):
        dirp, hs, content, seq, kind = cases[i]
        rest = list(content)
        toks = out.split(" ")
        if len(toks) != len(seq):
            return "%d calls, %d results: %s" % (len(seq), len(toks), out)
        for cnt, tok in zip(seq, toks):
            if tok == "err":
                return "listing %r of %r (nothing hidden in it) fails" % (seq, content)
            got = dec_list(tok.split(":", 1)[1])
            want = rest if cnt <= 0 else rest[:cnt]
            if got != want:
                return "%s(%d) on %r with %r remaining (hidden %r elsewhere) returned %r, the underlying directory returns %r" % (
                    "Readdirnames" if kind == "names" else "Readdir", cnt, dirp, rest, hs, got, want)
            rest = rest[len(want):]
        return None
    st = Stream("listing_transparent", lines, oracle=oracle, nontrivial=lambda i, l, o: cases[i][2] != [],
                desc="Readdir/Readdirnames through HiddenFS on directories that contain nothing hidden (sibling of a hidden path, unrelated directory, no hidden paths at all), every count -1..size+1 and sequences of calls; oracle: each batch is exactly the batch the underlying directory returns (entries and order)")
    return run_t1_stream("C15", st, model_ok)


def twin_stream(tier, rnd, model_ok):
    """the same operations through HiddenFS and directly on the underlying filesystem, on real trees"""
    import t2
    import worldrun
    import layerworld as lw
    n = 150 if tier == "quick" else 3000
    cases = []
    for i in range(n):
        prefix = [None, b"/root"][i % 2]
        inits, view, hs, hdir = lw.hidden_world(rnd, prefix)
        visible = [v for v in view if not lw.below_any(hs, v)]
        ents = {v: view[v][0] for v in visible}
        ops = [("dump",)]
        for _ in range(rnd.randint(1, 6)):
            k = rnd.choice(list(t2.MUTATORS) + ["stat", "lstat", "readlink", "read", "removeall"])
            o = t2.gen_op(rnd, ents, [k])
            # keep to names that are lexically not hidden, and do not rename ancestors of hidden paths
            names = [x for j, x in enumerate(o[1:], 1) if isinstance(x, bytes) and j in t2._PATH_ARGS.get(o[0], [])]
            if any((not x.startswith(b"/")) or lw.below_any(hs, pg.goclean(x)) for x in names):
                continue
            if o[0] == "symlink" and (lw.below_any(hs, pg.goclean(o[1])) if o[1].startswith(b"/") else lw.below_any(hs, pg.gojoin(pg.godir(pg.goclean(o[2])), o[1]))):
                continue
            if o[0] in ("rename", "removeall") and any(h != pg.goclean(o[1]) and pg.within(pg.goclean(o[1]), h) for h in hs):
                continue   # ancestors of hidden paths: the intended differences (C11)
            ops += [o, ("dump",)]
        for v in visible:
            # RemoveAll of a symlink (dangling, looping or not) and of plain files
            if view[v][0] in ("L", "F") and rnd.random() < 0.4 and not any(pg.within(v, h) for h in hs):
                ops += [("removeall", v), ("dump",)]
        cfga = {"ctor": "generic", "q": b"/unused-backup", "p": prefix, "hs": hs}
        cfgb = {"ctor": "generic", "q": b"/unused-backup", "p": prefix, "hs": []}
        cases.append(t2.Case("c15t-%d-a" % i, cfga, inits, ops, meta={"direct": True, "raw": True}))
        cases.append(t2.Case("c15t-%d-b" % i, cfgb, inits, ops, meta={"direct": True, "raw": True, "twin": True}))

    def post(cases_, impl):
        out = []
        byid = {c.id: c for c in cases_}
        for c in cases_:
            if not c.id.endswith("-a"):
                continue
            a, b = impl.get(c.id), impl.get(c.id[:-2] + "-b")
            if not a or not b:
                continue
            for i, o in enumerate(c.ops):
                if o[0] == "dump":
                    continue
                trig = ["removeall_unclean_name"] if (o[0] == "removeall" and pg.goclean(o[1]) != o[1]) else []
                if a["R"].get(i) != b["R"].get(i):
                    out.append((c.id, "%s %s: through HiddenFS %s, on the underlying filesystem %s" % (o[0], [enc(x) if isinstance(x, bytes) else x for x in o[1:]], a["R"].get(i), b["R"].get(i)), trig))
                    break
                if sorted(a["S"].get(str(i + 1), [])) != sorted(b["S"].get(str(i + 1), [])):
                    out.append((c.id, "after %s %s the tree differs from the run on the underlying filesystem: %s" % (o[0], [enc(x) if isinstance(x, bytes) else x for x in o[1:]],
                                                                                                                      sorted(set(a["S"].get(str(i + 1), [])) ^ set(b["S"].get(str(i + 1), [])))[:4]), trig))
                    break
        return out
    return worldrun.run_stream("C15", "twin_real_trees", cases, model_ok, level=1, post=post,
                               desc="real trees around hidden paths in a chroot: every operation (RemoveAll only where no hidden path lies beneath) on lexically non-hidden absolute names through HiddenFS and, as twin, directly on the underlying filesystem (OSFS or PrefixFS); the HiddenFS run is also compared with the model; oracle: identical results and identical trees after every operation")
