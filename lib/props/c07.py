"""C07: Rollback leaves a clean slate."""
import random

from common import *  # noqa
import t2
import worldrun
import bfsprops

ASSUMPTIONS = [
    "'behaves exactly like a fresh BackupFS' is judged on operation results, final trees and tracked state (directory timestamps exempt)",
]
MUTATING_CALLS = ("mkdir", "mkdirall", "remove", "removeall", "rename", "chmod", "chown", "lchown", "chtimes", "symlink", "create", "openfile", "write")


def oracle(case, a):
    """history; dump; rollback; dump(k); rollback; [txn2...]"""
    rb = [i for i, o in enumerate(case.ops) if o[0] == "rollback"]
    if len(rb) < 2 or rb[1] != rb[0] + 2 or case.ops[rb[0] + 1][0] != "dump" or case.ops[0][0] != "dump":
        return None
    r1 = rb[0]
    if a["R"].get(r1, ("",))[0] != "ok":
        return None  # only a *successful* rollback promises a clean slate
    before = sorted(worldrun.strip_for_c01(l) for l in worldrun.region(a["S"].get("0", []), case.cfg, "backup"))
    after = sorted(worldrun.strip_for_c01(l) for l in worldrun.region(a["S"].get(str(r1 + 1), []), case.cfg, "backup"))
    if before != after:
        return "backup filesystem differs after a successful Rollback: leftover=%s missing=%s" % (
            sorted(set(after) - set(before))[:3], sorted(set(before) - set(after))[:3])
    if a["M"].get(str(r1 + 1)):
        return "paths still tracked after Rollback: %s" % a["M"][str(r1 + 1)][:3]
    r2 = r1 + 2
    if a["R"].get(r2, ("",))[0] != "ok":
        return "second Rollback returned %s" % (a["R"].get(r2),)
    muts = [t for t in a["T"].get(r2, []) if t.split(" ")[1] in MUTATING_CALLS]
    if muts:
        return "second Rollback is not a no-op: %s" % muts[:3]
    return None


def post(cases, impl):
    """transaction 2 on the used instance vs on a fresh instance over the same tree"""
    out = []
    byid = {c.id: c for c in cases}
    for c in cases:
        if not c.id.endswith("-a"):
            continue
        t = byid.get(c.id[:-2] + "-b")
        a, b = impl.get(c.id), impl.get(t.id) if t else None
        if not a or not b:
            continue
        if a["R"].get(c.meta["r1"], ("",))[0] != "ok":
            continue
        off = c.meta["r1"] + 3
        ra = [a["R"].get(off + i) for i in range(len(c.meta["txn2"]))]
        rb = [b["R"].get(1 + i) for i in range(len(c.meta["txn2"]))]
        if ra != rb:
            out.append((c.id, "second transaction behaves differently on the used instance: %s vs fresh %s" % (ra, rb)))
            continue
        q = c.cfg["q"]
        ex = (q, worldrun.view_root(c.cfg))   # both roots are exempt
        fa = sorted(worldrun.strip_for_c01(l) for l in a["S"].get("final", []) if worldrun.path_of(l) not in ex)
        fb = sorted(worldrun.strip_for_c01(l) for l in b["S"].get("final", []) if worldrun.path_of(l) not in ex)
        if fa != fb:
            out.append((c.id, "final tree after the second transaction differs from the fresh-instance run: %s" % sorted(set(fa) ^ set(fb))[:4]))
        def strip_m(l):
            f = l.split(" ")
            if len(f) > 6 and f[2] == "D":
                f[6] = "*"
            return " ".join(f)
        ma = sorted(strip_m(l) for l in a["M"].get("final", []) if not l.startswith("/ "))
        mb = sorted(strip_m(l) for l in b["M"].get("final", []) if not l.startswith("/ "))
        if ma != mb:
            out.append((c.id, "tracked state after the second transaction differs from the fresh-instance run: %s" % sorted(set(ma) ^ set(mb))[:4]))
    return out


def run(ctx):
    tier, seed, model_ok = ctx["tier"], ctx["seed"], ctx["model_ok"]
    rnd = random.Random(seed)
    n = 150 if tier == "quick" else 3000
    cases = []
    for c in t2.load_corpus():
        ops = c.ops + [("dump",), ("rollback",)]
        cases.append(t2.Case(c.id + "-c07", c.cfg, c.inits, ops, meta={"r1": len(c.ops) - 1, "txn2": []}))
    for i in range(n):
        cfg = t2.CONFIGS[i % len(t2.CONFIGS)]
        inits, ops = t2.gen_history(rnd, cfg, nops=rnd.randint(1, 8))
        r1 = len(ops) - 1
        ents = {(i_[1][len(t2.view_prefix(cfg)):] or b"/"): i_[0] for i_ in inits if i_[1].startswith(t2.view_prefix(cfg) or b"/")}
        txn2 = [t2.gen_op(rnd, ents) for _ in range(rnd.randint(1, 5))]
        opsa = ops + [("dump",), ("rollback",)] + txn2
        cases.append(t2.Case("c07-%d-a" % i, cfg, inits, opsa, meta={"r1": r1, "txn2": txn2}))
        cases.append(t2.Case("c07-%d-b" % i, cfg, inits, [("dump",)] + txn2, meta={"r1": -1, "txn2": txn2, "twin": True}))

    def orc(case, a):
        if case.meta.get("twin"):
            return None
        return oracle(case, a)
    r = worldrun.run_stream("C07", "clean_slate", cases, model_ok, level=1, oracle=orc, post=post,
                            desc="history, Rollback, second Rollback, then a second transaction; the same second transaction on a fresh instance over the initial tree as twin; oracle: backup region before == after, Map() empty, second Rollback issues no mutating primitive call, second transaction has the same results / final tree / tracked state as on the fresh instance")
    return {"streams": [r]}
