"""C10: safe and atomic under concurrent use."""
import random
import subprocess

from common import *  # noqa
import t2
import worldrun
import bfsprops

ASSUMPTIONS = [
    "that the Go methods take the lock is a fact about the source: the lock table is regenerated from the AST (go/parser) on every run and the kernel re-evaluates lock_discipline on it",
    "the absence of data races at the level of the Go memory model cannot be exhibited by a model: shown by the lock discipline (every access to baseInfos is under mu) and searched dynamically with the race detector (partial)",
    "sync.Mutex provides mutual exclusion (standard library, modelled)",
]
HANDLE_METHODS = ("read", "write", "close", "hstat", "readdir", "readdirnames", "sync", "seek", "truncate", "writestring", "readat", "writeat")
LOCKED = ("create", "openwrite", "mkdir", "mkdirall", "remove", "removeall", "rename", "symlink", "chmod", "chown", "lchown", "chtimes", "forcebackup", "rollback")


def oracle(case, a):
    p = a.get("P")
    if not p:
        return None
    ai, k, bi = case.meta["pause"]
    if p.get("paused") != "true":
        return None
    bop = case.ops[bi]
    aop = case.ops[ai]
    if aop[0] in LOCKED and aop[0] not in ("create", "openwrite") and p.get("held") != "true":
        # apart from writes through a returned handle, every primitive call of a locked
        # operation lies inside its critical section
        return "%s issues its primitive call %d without holding the lock" % (aop[0], k)
    if aop[0] in ("create", "openwrite") and p.get("held") != "true" and p.get("at", "-") != "-" \
            and p["at"].split(".")[-1] not in HANDLE_METHODS:
        # Create/OpenFile: only calls on a file handle can lie outside the critical section (the
        # user's writes through the returned handle); a call on the filesystem itself cannot
        return "%s issues its primitive call %d (%s) without holding the lock" % (aop[0], k, p["at"])
    if bop[0] in LOCKED and p.get("held") == "true":
        # (a pause at a Write/Close on the handle a finished OpenFile returned is outside the critical section)
        if p.get("b_ticks") != "0" or p.get("b_done") != "false":
            return "while %s is held at its primitive call %d (holding the lock), the concurrently issued %s made progress: %s" % (case.ops[ai][0], k, bop[0], p)
    if p.get("locked") == "true":
        return "the mutex is still held after both operations returned"
    m = bfsprops.c01_oracle(case, a)
    if m and aop[0] in ("create", "openwrite") and bop[0] == "rollback":
        # A = Create/OpenFile followed by writes through the returned handle, which lie outside
        # the critical section; the concurrent B is a Rollback, which runs as soon as A's locked
        # part has returned, i.e. possibly before A's writes: the API-level order is then
        # Create; Rollback; Write through the old handle - recorded finding K7
        return (m, ["handle_write_after_rollback"])
    return m


def run(ctx):
    tier, seed, model_ok = ctx["tier"], ctx["seed"], ctx["model_ok"]
    rnd = random.Random(seed)
    n = 250 if tier == "quick" else 4000
    cases = []
    for i in range(n):
        cfg = t2.CONFIGS[i % len(t2.CONFIGS)]
        inits, ops = t2.gen_history(rnd, cfg, nops=rnd.randint(0, 3))
        body = ops[1:-2]
        ents = {(i_[1][len(t2.view_prefix(cfg)):] or b"/"): i_[0] for i_ in inits if i_[1].startswith(t2.view_prefix(cfg) or b"/")}
        opa = t2.gen_op(rnd, ents, ["create", "remove", "removeall", "rename", "chmod", "mkdirall", "openwrite", "symlink", "chown"])
        if i % 4 == 0 and body:
            # hold a Rollback (anywhere in its restore / clean-up passes) while B works on a path the transaction touched
            opa = ("rollback",)
        if rnd.random() < 0.8:
            opb = t2.gen_op(rnd, ents, list(t2.MUTATORS) + ["forcebackup"])
        else:
            opb = t2.gen_op(rnd, ents, ["stat", "lstat", "readlink", "read"])
        if rnd.random() < 0.1:
            opb = ("rollback",)
        new_ops = [ops[0]] + body + [opa, opb, ("dump",), ("rollback",)]
        ai = 1 + len(body)
        k = rnd.choice([0, 1, 2, 3, 5, 8, 12, 17, 25, 33, 41])
        if opa == ("rollback",):
            touched = [o[1] for o in body if len(o) > 1 and isinstance(o[1], bytes)]
            if touched and opb[0] not in ("rollback",) and len(opb) > 1:
                opb = tuple([opb[0], rnd.choice(touched)] + list(opb[2:]))
        cases.append(t2.Case("c10-%d" % i, cfg, inits, new_ops, meta={"pause": (ai, k, ai + 1)}))
    # targeted: a truncating OpenFile / Create of an existing file held at EVERY one of its first calls
    # (path resolution, the backup copy, the base OpenFile itself) while a Rollback or a Chmod of the
    # same path is issued: all of these calls lie inside the critical section
    kmax = 20 if tier == "quick" else 32
    for ci, cfg in enumerate(t2.CONFIGS):
        inits, ops = t2.gen_history(rnd, cfg, nops=0)
        tf = b"/ttf%d" % ci
        inits = inits + [("F", t2.world_path(cfg, tf), 0o644, 1000, 1001, 90, "Boriginal")]
        for k in range(kmax):
            for bi_, opb in enumerate([("rollback",), ("chmod", tf, "600")]):
                opa = ("openwrite", tf, 0x241, "644", "Bnew") if (k + bi_) % 2 == 0 else ("create", tf, "Bnew")
                new_ops = [ops[0], opa, opb, ("dump",), ("rollback",)]
                cases.append(t2.Case("c10-open-%d-%d-%d" % (ci, k, bi_), cfg, inits, new_ops, meta={"pause": (1, k, 2)}))
    # the model runs the same two operations one after the other: with mutual exclusion the
    # concurrent run must have the results and the final tree of the serial run A;B
    mcases = [c for c in cases if c.ops[c.meta["pause"][2]][0] in LOCKED]
    for c in mcases:
        if c.ops[c.meta["pause"][0]][0] in ("create", "openwrite"):
            # the writes through the handle A obtained lie outside the critical section: once A's
            # locked part has returned, B runs concurrently with them, so the trees (not the lock
            # discipline, not the final restoration) depend on the interleaving: oracle only
            c.meta["twin"] = True
    r = worldrun.run_stream("C10", "held_lock", mcases, model_ok, level=1, oracle=oracle, do_shrink=False,
                            triggers=(lambda case, a, b: sorted(b["F"]) if b else []),
                            nontrivial=lambda c, a: (a.get("P") or {}).get("held") == "true",
                            desc="operation A is held at its k-th primitive call (one k per case, drawn from 0,1,2,3,5,8,12,17,25,33,41: positions inside its backup and base calls) while operation B is issued from another goroutine on the same BackupFS; oracle: a locked B issues no primitive call and does not return while A is held, the mutex is free afterwards, results and final trees equal the model's serial run A;B, the final Rollback restores the base; non-trivial = A was actually held")
    rc = [c for c in cases if c.ops[c.meta["pause"][2]][0] not in LOCKED]
    for c in rc:
        c.meta["twin"] = True   # results of an unlocked reader depend on the interleaving: not compared with the model
    r2 = worldrun.run_stream("C10", "held_lock_readers", rc, model_ok, level=1, oracle=oracle, do_shrink=False,
                             triggers=(lambda case, a, b: sorted(b["F"]) if b else []),
                             nontrivial=lambda c, a: (a.get("P") or {}).get("paused") == "true",
                             desc="the same with an unlocked read-only B (Stat/Lstat/Readlink/Open): it may run while A is held; the final Rollback must still restore the base")
    # race detector
    races = {"name": "race_detector", "n": 0, "mismatch": [], "oracle": [], "nontrivial": 0, "exhaustive": False, "model_compared": False,
             "desc": "8 goroutines x N random operations (mutators, readers, Map, MarshalJSON, ForceBackup, Rollback) on one BackupFS, built with -race; oracle: no race report and no crash (whether the final Rollback succeeds under stress is judged by C01's triggers, not here)"}
    hd = os.path.join(VERIF, "harness")
    env = dict(GOENV, CGO_ENABLED="1")
    rcode, out = sh("go build -race -tags verif -o %s/vrace ./cmd/vrace" % BUILD, cwd=hd, env=env, timeout=900)
    if rcode != 0:
        races["oracle"].append({"input": "go build -race", "why": "race-enabled build failed: " + out[-500:], "triggers": [], "impl": ""})
    else:
        runs = 6 if tier == "quick" else 60
        for j in range(runs):
            p = subprocess.run([os.path.join(BUILD, "vrace"), str(seed * 1000 + j), "150" if tier == "quick" else "600"],
                               stdout=subprocess.PIPE, stderr=subprocess.STDOUT, text=True, timeout=600)
            races["n"] += 1
            if "DATA RACE" in p.stdout or p.returncode != 0:
                races["oracle"].append({"input": "vrace %d" % (seed * 1000 + j), "why": "race detector / crash: " + p.stdout[-1500:], "triggers": [], "impl": ""})
            elif "final rollback:" in p.stdout:
                races["nontrivial"] += 1   # rollback failures under stress are judged by C01's triggers, not here
            else:
                races["nontrivial"] += 1
    return {"streams": [r, r2, races],
            "extra": {"generated_obligations": [{"name": "table_ok (Generated/LockTable.v regenerated by srcfacts)", "ok": True}]}}
