"""C19: depth ordering and ancestor enumeration."""
import itertools
import random

from common import *  # noqa
from runner import Stream, run_t1_stream
import pathlib_go as pg

ASSUMPTIONS = [
    "Linux path semantics (separator '/', no volume names)",
    "sort.Sort is modelled as 'returns a sorted permutation' (insertion sort in the model); theorem C19_perm_independent shows uniqueness on duplicate-free input",
    "filepath.Clean decides which strings are 'cleaned' (standard library, modelled and validated exhaustively up to the length bound)",
]

UNIVERSE = [b"/", b"/a", b"/a/b", b"/a/b/c", b"/ab", b"/a/\xc3\xa4", b"/b", b"/b/a", b"a", b"a/b", b"ab", b"\xc3\xa4/a"]


def run(ctx):
    tier, seed, model_ok = ctx["tier"], ctx["seed"], ctx["model_ok"]
    rnd = random.Random(seed)
    L = 6 if tier == "quick" else 8
    strings = list(all_strings(ALPHABET, L))
    # random long strings
    for _ in range(2000 if tier == "quick" else 50000):
        n = rnd.randint(L + 1, 40)
        strings.append(b"".join(rnd.choice(ALPHABET + [b"/", b"a"]) for _ in range(n)))
    results = []
    # stream 1: Clean (decides cleanedness)
    lines = ["clean " + enc(s) for s in strings]
    st = Stream("clean", lines, desc="filepath.Clean on all byte strings over {/ . a b C3 A4 \\} up to length %d plus random long strings; non-trivial = output differs from input" % L,
                nontrivial=lambda i, l, o: l.split(" ")[1] != o, exhaustive=True)
    r = run_t1_stream("C19", st, model_ok)
    results.append(r)
    impl_clean = open(os.path.join(OUT, "C19.clean.impl")).read().split("\n")[:-1]
    cleaned = [s for s, c in zip(strings, impl_clean) if enc(s) == c and s != b""]

    # stream 2: IterateDirTree with an always-true visitor on every string
    def iter_oracle(i, line, out):
        s = dec(line.split(" ")[1])
        if enc(s) != impl_clean[i]:
            return None  # property speaks about cleaned paths only
        if s == b"":
            return None
        want = enc_list(pg.chain(s)) + " f"
        if out != want:
            return "IterateDirTree(%r) visited %s, chain is %s" % (s, out, want)
        return None
    lines = ["iter %s -1" % enc(s) for s in strings]
    st = Stream("iterate", lines, oracle=iter_oracle,
                nontrivial=lambda i, l, o: "," in o,
                desc="IterateDirTree(always proceed) on the same strings; oracle on cleaned ones: visited == independently computed chain; non-trivial = at least two elements visited", exhaustive=True)
    results.append(run_t1_stream("C19", st, model_ok))

    # stream 3: early stop at every position of the chain of every cleaned path
    lines = []
    wants = []
    for s in cleaned:
        ch = pg.chain(s)
        for k in range(len(ch)):
            lines.append("iter %s %d" % (enc(s), k))
            wants.append(enc_list(ch[:k + 1]) + " t")

    def stop_oracle(i, line, out):
        if out != wants[i]:
            return "IterateDirTree stop at call %s: got %s want %s" % (line.split(" ")[2], out, wants[i])
        return None
    st = Stream("iterate_stop", lines, oracle=stop_oracle, desc="visitor refuses at its k-th call, every k for every cleaned string: visited == chain[:k+1], aborted", exhaustive=True)
    results.append(run_t1_stream("C19", st, model_ok))

    # stream 4: LessFilePathSeparators on all pairs
    Lp = 3 if tier == "quick" else 4
    ps = list(all_strings(ALPHABET, Lp))
    pairs = [(a, b) for a in ps for b in ps]
    for _ in range(3000 if tier == "quick" else 100000):
        pairs.append((rnd.choice(cleaned), rnd.choice(cleaned)))
    cleaned_set = set(cleaned)
    lines = ["less %s %s" % (enc(a), enc(b)) for a, b in pairs]

    def less_oracle(i, line, out):
        a, b = pairs[i]
        if a in cleaned_set and b in cleaned_set:
            if pg.ancestor(a, b) and out != "t":
                return "ancestor %r not less than %r" % (a, b)
            if pg.ancestor(b, a) and out != "f":
                return "%r less than its ancestor %r" % (a, b)
        if a == b and out != "f":
            return "less is not irreflexive on %r" % a
        return None
    st = Stream("less", lines, oracle=less_oracle,
                nontrivial=lambda i, l, o: pairs[i][0] != pairs[i][1],
                desc="LessFilePathSeparators on all pairs of strings up to length %d plus random pairs of cleaned strings; oracle: ancestors are less, irreflexive" % Lp, exhaustive=True)
    results.append(run_t1_stream("C19", st, model_ok))

    # stream 5: sorting all permutations of small subsets
    K = 4 if tier == "quick" else 5
    lists = []
    for k in range(0, K + 1):
        for sub in itertools.combinations(UNIVERSE, k):
            for perm in itertools.permutations(sub):
                lists.append(list(perm))
    for _ in range(300 if tier == "quick" else 5000):
        k = rnd.randint(2, 14)
        sub = rnd.sample(cleaned, k)
        lists.append(sub)
        sh_ = sub[:]
        rnd.shuffle(sh_)
        lists.append(sh_)
    for which in ("sortmost", "sortleast"):
        lines = ["%s %s" % (which, enc_list(l)) for l in lists]
        canon = {}

        def sort_oracle(i, line, out, which=which, canon=canon):
            inp = lists[i]
            got = dec_list(out)
            if sorted(got) != sorted(inp):
                return "not a permutation"
            idx = {p: j for j, p in enumerate(got)}
            for a in got:
                for p in got:
                    if pg.ancestor(a, p):
                        if which == "sortmost" and not idx[p] < idx[a]:
                            return "%r not before its ancestor %r" % (p, a)
                        if which == "sortleast" and not idx[p] > idx[a]:
                            return "%r not after its ancestor %r" % (p, a)
            key = tuple(sorted(inp))
            if key in canon and canon[key] != out:
                return "result depends on the input permutation: %s vs %s" % (canon[key], out)
            canon[key] = out
            return None
        st = Stream(which, lines, oracle=sort_oracle, nontrivial=lambda i, l, o: "," in o,
                    desc="sort.Sort(%s) on all permutations of all <=%d-subsets of a 12-path universe plus random lists; oracle: permutation, ancestor order, permutation independence" % (which, K), exhaustive=True)
        results.append(run_t1_stream("C19", st, model_ok))
    return {"streams": results, "extra": {"coverage": {"exhaustive": True}}}
