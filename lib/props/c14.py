"""C14: PrefixFS is a faithful, leak-free re-rooting."""
import random

from common import *  # noqa
from runner import Stream, run_t1_stream
import pathlib_go as pg
import layergen as lg

ASSUMPTIONS = [
    "Linux path semantics; a name 'stays inside' when Join(prefix, Clean(name)) is component-wise within the cleaned prefix",
    "effects on a real tree follow from the forwarded call being the same method at prefix+clean(name) with the same other arguments (the underlying filesystem is the same object)",
    "claims about link targets are for absolute prefixes (relative prefixes cannot represent absolute targets: known finding K1 under C05)",
]

PREFIXES = [b"/", b"/r", b"/r/app", b"/a", b"/a/b", b"/a/", b"//a", b"/a/../b", b"/\xc3\xa4", b"a", b"a/b", b"."]


def vname(name):
    """the cleaned name as seen from the prefix root"""
    return pg.goclean(b"/" + name)


def run(ctx):
    tier, seed, model_ok = ctx["tier"], ctx["seed"], ctx["model_ok"]
    rnd = random.Random(seed)
    results = []
    pool = lg.names(rnd, 500 if tier == "quick" else 5000) + [b"/", b"", b".", b"/a", b"/app2", b"/r/app", b"/foo", b"f", b"foo"]
    cases = []
    for pfx in PREFIXES + [b"f", b"foo"]:
        for m in lg.METHS1:
            for n in rnd.sample(pool, 40 if tier == "quick" else 400):
                # stub readlink answers: absolute inside, the prefix itself, sibling, relative
                cp = pg.goclean(pfx)
                stub = rnd.choice([pg.gojoin(cp, b"t"), cp, cp + b"2/x", b"../rel", b"rel/x", b"/", cp + b"/x/../y"])
                cases.append((pfx, m, n, b"", rnd.choice(lg.AUX[m]), stub))
        for n in rnd.sample(pool, 50 if tier == "quick" else 400):
            cases.append((pfx, "rename", n, rnd.choice(pool), "-", b"/x"))
    lines = [lg.layer_line("prefix", p, m, a, b, aux, stub) for (p, m, a, b, aux, stub) in cases]

    def oracle(i, line, out):
        pfx, m, a, b, aux, stub = cases[i]
        cp = pg.goclean(pfx)
        want_a = pg.gojoin(cp, pg.goclean(a))
        inside = pg.within(cp, want_a)
        f = out.split(" ")
        if m == "rename":
            want_b = pg.gojoin(cp, pg.goclean(b))
            inside = inside and pg.within(cp, want_b)
        if not inside:
            return None  # C05's business
        if f[0] != "fwd":
            return "in-prefix name rejected: %s" % out
        if f[1] != m or dec(f[2]) != want_a or f[4] != aux:
            return "%s(%r) under %r forwarded as %s, expected same method at %r with aux %s" % (m, a, cp, out, want_a, aux)
        if m == "rename" and dec(f[3]) != want_b:
            return "rename destination forwarded as %r expected %r" % (dec(f[3]), want_b)
        rep = f[5]
        relprefix = not cp.startswith(b"/")
        if rep.startswith("name=") and cp != b".":
            v = b"/" + b"/".join(pg.ccomps(want_a)[len(pg.ccomps(cp)):])
            if dec(rep[5:]) != v:
                return "File.Name() = %r, expected %r (prefix %r, name %r)" % (dec(rep[5:]), v, cp, a)
        if rep.startswith("finame="):
            v = b"/" + b"/".join(pg.ccomps(want_a)[len(pg.ccomps(cp)):])
            want = b"/" if v == b"/" else v.rsplit(b"/", 1)[1]
            if dec(rep[7:]) != want:
                return "FileInfo.Name() = %r, expected %r (prefix %r, name %r)" % (dec(rep[7:]), want, cp, a)
        if rep.startswith("link=") and not relprefix:
            cs = pg.goclean(stub)
            if cs.startswith(b"/") and pg.within(cp, cs):
                want = b"/" + b"/".join(pg.ccomps(cs)[len(pg.ccomps(cp)):])
            else:
                want = cs
            if dec(rep[5:]) != want:
                return "Readlink reports %r for stored target %r under prefix %r, expected %r" % (dec(rep[5:]), stub, cp, want)
        return None
    st = Stream("layer_prefix_inside", lines, oracle=oracle,
                nontrivial=lambda i, l, o: o.startswith("fwd"),
                desc="every PrefixFS method over a recording stub: for names that stay inside, the forwarded call is the same method at Join(prefix, Clean(name)) with the same other arguments; File.Name / FileInfo.Name / Readlink results are prefix-relative; non-trivial = forwarded")
    results.append(run_t1_stream("C14", st, model_ok))

    # Symlink then Readlink round trip (two passes: the stored target is fed back as the stub's answer)
    targets = [b"/", b"/x", b"/x/../y", b"x", b"../x", b"./x/", b"/a//b", b"a/./b", b"/\xc3\xa4", b".."] + lg.names(rnd, 40)
    sym = []
    for pfx in [p for p in PREFIXES if p.startswith(b"/")]:
        for n in [b"/l", b"/d/l", b"/d/e/l", b"l", b"/d/../l"]:
            for t in targets:
                sym.append((pfx, t, n))
    l1 = [lg.layer_line("prefix", p, "symlink", t, n) for (p, t, n) in sym]
    st1 = Stream("symlink_store", l1, desc="Symlink(target, name) through PrefixFS: stored target", nontrivial=lambda i, l, o: o.startswith("fwd"))
    r1 = run_t1_stream("C14", st1, model_ok)
    results.append(r1)
    impl1 = open(os.path.join(OUT, "C14.symlink_store.impl")).read().split("\n")[:-1]
    rt = []
    for (pfx, t, n), o in zip(sym, impl1):
        f = o.split(" ")
        if f[0] == "fwd":
            rt.append((pfx, t, n, dec(f[2])))
    l2 = [lg.layer_line("prefix", p, "readlink", n, b"", "-", stored) for (p, t, n, stored) in rt]

    def rt_oracle(i, line, out):
        pfx, t, n, stored = rt[i]
        f = out.split(" ")
        if f[0] != "fwd":
            return "Readlink of a link just created is rejected: " + out
        got = dec(f[5][5:])
        if got != pg.goclean(t):
            return "Symlink(%r,%r) then Readlink gives %r, expected the cleaned target %r (prefix %r)" % (t, n, got, pg.goclean(t), pg.goclean(pfx))
        return None
    st2 = Stream("symlink_readlink_roundtrip", l2, oracle=rt_oracle,
                 desc="Readlink with the stub answering the target PrefixFS.Symlink stored: result == Clean(given target), absolute prefixes, absolute and relative targets that stay inside")
    results.append(run_t1_stream("C14", st2, model_ok))
    return {"streams": results}
