"""C04: the backup location is sealed off in the documented layering."""
import random

from common import *  # noqa
import t2
import worldrun
import bfsprops
import pathlib_go as pg

ASSUMPTIONS = [
    "documented layerings: New(loc), NewWithFS(OSFS, loc), and HiddenFS+PrefixFS over one filesystem (README); the backup location exists",
    "HiddenFS is lexical: routes through symlinks into the hidden location are recorded finding D9",
]

LOCATIONS = [b"/backups", b"/var/backups/", b"//var//opt/./backups", b"/a/b/c/d", b"/var/../bk"]
HIDDEN_ERR = ("err:HiddenNotExist", "err:HiddenPermission")


def names_below(q):
    return [q, q + b"/x", q + b"/d/f", q + b"/", q.replace(b"/", b"//", 1), q + b"/../" + q.rsplit(b"/", 1)[1] + b"/y"]


def oracle(case, a):
    q = case.cfg["q"]
    for i, o in enumerate(case.ops):
        if o[0] in ("dump", "rollback", "persist") or o[0].startswith("ext"):
            continue
        paths = [x for j, x in enumerate(o[1:], 1) if isinstance(x, bytes) and j in t2._PATH_ARGS.get(o[0], [])]
        if o[0] == "symlink":
            paths = [o[2]]
        st = a["R"].get(i)
        if st is None:
            continue
        hidden = [p for p in paths if p.startswith(b"/") and pg.within(q, pg.goclean(p))]
        if hidden and st[0] == "ok" and o[0] != "removeall":   # RemoveAll of what does not exist (as far as one can see) succeeds
            return "%s %s succeeds although it names the backup location %s" % (o[0], [enc(p) for p in paths], enc(q))
        if o[0] == "readdir" and st[0] == "ok":
            d = pg.goclean(o[1])
            if d.startswith(b"/"):
                for nme in dec_list(st[1]):
                    child = (d if d != b"/" else b"") + b"/" + nme
                    if pg.within(q, child):
                        return "listing %s reveals %s, part of the backup location" % (enc(d), enc(nme))
    # nothing but copies of originals at mirrored paths: in particular the location is never backed up into itself
    s0 = a["S"].get("0", [])
    last = a["S"].get("final", [])
    lab = "final"
    if case.ops[-1][0] == "rollback" and len(case.ops) >= 2 and case.ops[-2][0] == "dump":
        lab = str(len(case.ops) - 2)
    msg = bfsprops.backup_clean(case.cfg, s0, a["S"].get(lab, last), worldrun.region(s0, case.cfg, "backup"))
    if msg:
        return msg
    if case.ops[-1][0] == "rollback":
        return bfsprops.c01_oracle(case, a)
    return None


def run(ctx):
    tier, seed, model_ok = ctx["tier"], ctx["seed"], ctx["model_ok"]
    rnd = random.Random(seed)
    n = 200 if tier == "quick" else 4000
    cases = []
    for i in range(n):
        raw = LOCATIONS[i % len(LOCATIONS)]
        q = pg.goclean(raw)
        cfg = {"ctor": ["readme", "newwithfs", "new"][i % 3], "q": q, "q_raw": raw}
        inits, ops = t2.gen_history(rnd, cfg, nops=rnd.randint(1, 6))
        body = ops[1:-2]
        # pre-existing foreign content inside the location, operations aimed at it, its descendants and its ancestors
        inits = inits + [("F", q + b"/old", 0o600, 0, 0, 900, "Bsecret")]
        anc = [a_ for a_ in t2.parents(q) if a_ != b"/"]
        extra = []
        for _ in range(rnd.randint(2, 6)):
            r = rnd.random()
            if r < 0.5:
                tgt = rnd.choice(names_below(q))
                k = rnd.choice(["create", "mkdir", "mkdirall", "remove", "removeall", "chmod", "chown", "lchown", "chtimes", "stat", "lstat", "readlink", "read", "readdir", "openwrite"])
                extra.append(t2.gen_op(rnd, {tgt: "F"}, [k]))
                extra[-1] = tuple([extra[-1][0], tgt] + list(extra[-1][2:]))
            elif r < 0.65:
                extra.append(("rename", rnd.choice(names_below(q)), b"/stolen"))
            elif r < 0.75:
                extra.append(("rename", rnd.choice([b"/f", b"/d", b"/a"]), rnd.choice(names_below(q))))
            elif r < 0.85 and anc:
                extra.append(rnd.choice([("removeall", rnd.choice(anc)), ("rename", rnd.choice(anc), b"/moved"), ("readdir", rnd.choice(anc + [b"/"]))]))
            elif r < 0.93:
                extra.append(("symlink", rnd.choice([q, q + b"/old", q.rsplit(b"/", 1)[0] or b"/"]), b"/lnk%d" % rnd.randint(0, 3)))
            else:
                extra.append(("readdir", t2.parents(q)[0]))
        body = body + extra
        rnd.shuffle(body)
        # operations on the backup copy of an entry that was just backed up (its mirror path inside the location)
        tops = [x for x in inits if x[0] in ("F", "L", "D") and x[1] != b"/" and not pg.within(q, x[1]) and not any(pg.within(a_, x[1]) and a_ != b"/" for a_ in t2.parents(q) + [q])]
        if b"/..d" not in [x[1] for x in inits] and rnd.random() < 0.5:
            inits = inits + [("F", b"/..d", 0o644, 0, 0, 901, "Bdots")]
            tops.append(inits[-1])
        for x in rnd.sample(tops, min(len(tops), 2)):
            v = x[1]
            body.append(rnd.choice([("chmod", v, "600"), ("chown", v, 1000, 1000), ("remove", v)]))
            body.append(rnd.choice([("stat", q + v), ("lstat", q + v), ("remove", q + v), ("chmod", q + v, "777"), ("read", q + v), ("readdir", q)]))
        ops2 = [ops[0]] + body + [("dump",), ("rollback",)]
        cases.append(t2.Case("c04-%d" % i, cfg, inits, ops2, meta={"before_rollback": str(len(ops2) - 2)}))
    r = worldrun.run_stream("C04", "sealed", cases, model_ok, level=1, oracle=oracle,
                            desc="New / NewWithFS / README layering with %d backup-location spellings (depth 1-4, unclean, trailing separators); histories aimed at the location, its descendants, its ancestors (RemoveAll, Rename, listings) and symlinks to it; oracle: no operation naming the location succeeds, no listing reveals it, the backup region holds only copies of originals at mirrored paths (never itself), Rollback restores everything outside (C01 oracle)" % len(LOCATIONS))
    return {"streams": [r]}
