"""./check replay <file>: re-run what a replay file describes on both sides and print it."""
import json
import os
import subprocess
import sys

from common import BUILD, OUT, build_all


def main(path):
    raw = open(path, encoding="latin-1").read()
    if raw.lstrip().startswith("CASE"):
        # a corpus file: one or more cases in the T2 text format
        d = {"property": "-", "kind": "corpus", "mismatches": [{"case": "CASE" + c} for c in raw.split("CASE")[1:]]}
    else:
        d = json.loads(raw)
    build_all()
    os.makedirs(OUT, exist_ok=True)
    print("property:", d.get("property"), "kind:", d.get("kind"))
    case = d.get("case") or {}
    items = [case] + d.get("more", []) if d.get("kind") == "oracle" else d.get("mismatches", [])
    rc = 0
    for n, it in enumerate(items[:5]):
        if it.get("why"):
            print("---- why:", it["why"])
        text = it.get("case")
        if text and text.startswith("CASE"):
            inp = os.path.join(OUT, "replay.%d.cases" % n)
            open(inp, "w").write(text + "\n")
            for binary, tag in (("vharness", "implementation"), ("modelrun", "model")):
                outp = inp + "." + tag
                r = subprocess.call([os.path.join(BUILD, binary), "t2", inp, outp])
                print("==== %s (rc=%d)" % (tag, r))
                if os.path.exists(outp):
                    sys.stdout.write(open(outp, encoding="latin-1").read())
        elif it.get("input"):
            inp = os.path.join(OUT, "replay.%d.in" % n)
            open(inp, "w").write(it["input"] + "\n")
            for binary, tag in (("vharness", "implementation"), ("modelrun", "model")):
                outp = inp + "." + tag
                subprocess.call([os.path.join(BUILD, binary), "t1", inp, outp])
                print("%s: %s => %s" % (tag, it["input"], open(outp).read().strip() if os.path.exists(outp) else "?"))
        else:
            print(json.dumps(it, indent=1)[:2000])
    if d.get("broken"):
        print("broken:", d["broken"])
    return rc
