"""Oracles shared by the BackupFS properties; all evaluated on the
implementation's own observations."""
import pathlib_go as pg
import t2
import worldrun
from common import dec, enc


def fields(line):
    """S-line body: path kind perm uid gid mt data"""
    f = line.split(" ")
    return {"path": dec(f[0]), "kind": f[1], "perm": f[2], "uid": f[3], "gid": f[4], "mt": f[5], "data": f[6] if len(f) > 6 else "-"}


def c01_oracle(case, a, before_label="0", after_label="final", rollback_index=None):
    ri = rollback_index if rollback_index is not None else len(case.ops) - 1
    if case.ops[ri][0] != "rollback":
        return None
    if any(o[0] == "forcebackup" for o in case.ops[:ri]):
        # a ForceBackup re-baselines its path: "as before the first operation" is then not what
        # Rollback has to produce (C17's and C08's ForceBackup streams judge those histories)
        return None
    st = a["R"].get(ri)
    before = sorted(worldrun.strip_for_c01(l) for l in worldrun.region(a["S"].get(before_label, []), case.cfg, "base"))
    after = sorted(worldrun.strip_for_c01(l) for l in worldrun.region(a["S"].get(after_label, []), case.cfg, "base"))
    if st is None:
        return "no rollback result"
    if st[0] != "ok":
        return "Rollback returned %s" % st[0]
    if before != after:
        sb, sa = set(before), set(after)
        return "base differs after rollback: lost/changed=%s new/changed=%s" % (sorted(sb - sa)[:3], sorted(sa - sb)[:3])
    return None


def c01_lines(a, label, cfg):
    if label not in a["S"]:
        return None
    return sorted(worldrun.strip_for_c01(l) for l in worldrun.region(a["S"][label], cfg, "base"))


def view_of_world(cfg, wp):
    p = t2.view_prefix(cfg)
    if not p:
        return wp
    if wp == p:
        return b"/"
    return wp[len(p):]


def mirror(cfg, view_path):
    """where the backup copy of a base (view) path lives in the world"""
    q = cfg["q"]
    return q if view_path == b"/" else q + view_path


def same_entry(o, c, q=None):
    """is c an exact copy of o (type, content/target, mode, owner, file mtime).
    With q: c lives in the backup PrefixFS at q, where absolute link targets are
    stored re-rooted (q + target) and read back without q."""
    if o["kind"] != c["kind"]:
        return False
    if q is not None and c["kind"] == "L":
        t = dec(c["data"])
        if t.startswith(b"/") and pg.within(q, pg.goclean(t)):
            t = t[len(q):] or b"/"
            c = dict(c, data=enc(t))
    if o["kind"] == "D":
        return o["perm"] == c["perm"] and o["uid"] == c["uid"] and o["gid"] == c["gid"]
    if o["kind"] == "L":
        return o["data"] == c["data"] and o["uid"] == c["uid"] and o["gid"] == c["gid"]
    return o["perm"] == c["perm"] and o["uid"] == c["uid"] and o["gid"] == c["gid"] and o["mt"] == c["mt"] and o["data"] == c["data"]


def view_entry(cfg, o):
    """an original base entry as the base view reports it: absolute link
    targets below the base prefix are read without the prefix"""
    p = t2.view_prefix(cfg)
    if p and o["kind"] == "L":
        t = dec(o["data"])
        if t.startswith(b"/") and pg.within(p, pg.goclean(t)):
            return dict(o, data=enc(t[len(p):] or b"/"))
    return o


def rle_len(d):
    return 0 if d == "-" else sum(int(x.split("*")[1]) for x in d.split(","))


def rle_expand(d):
    if d == "-":
        return []
    out = []
    for x in d.split(","):
        b, n = x.split("*")
        out.append((int(b), int(n)))
    return out


def rle_is_prefix(p, full):
    """content p is a prefix of content full (both rle strings)"""
    a, b = rle_expand(p), rle_expand(full)
    i = 0
    for (bb, n) in a:
        while n > 0:
            if i >= len(b):
                return False
            fb, fn = b[i]
            if fb != bb:
                return False
            t = min(n, fn)
            n -= t
            if t == fn:
                i += 1
            else:
                b[i] = (fb, fn - t)
    return True


def recoverable(cfg, s0_lines, w_lines):
    """C02: every original base entry is intact at its path or has an exact copy
    at the mirrored path in the backup region.  Returns a message or None."""
    w = {fields(l)["path"]: fields(l) for l in w_lines}
    for l in worldrun.region(s0_lines, cfg, "base"):
        o = fields(l)
        cur = w.get(o["path"])
        intact = cur is not None and same_entry(o, cur)
        if intact:
            continue
        cp = w.get(mirror(cfg, view_of_world(cfg, o["path"])))
        if cp is None or not same_entry(view_entry(cfg, o), cp, cfg["q"]):
            return "original %s (%s) is neither intact in the base (now %s) nor exactly copied in the backup (copy %s)" % (
                enc(o["path"]), l, cur, cp)
    return None


def backup_clean(cfg, s0_lines, w_lines, s0_backup_lines):
    """C02: the backup region holds nothing but copies of originals (and of their
    parent directories) at mirrored paths; a copy may still be growing only while
    the original is intact; foreign/initial backup content is tolerated as is."""
    s0 = {fields(l)["path"]: fields(l) for l in s0_lines}
    w = {fields(l)["path"]: fields(l) for l in w_lines}
    pre = set(fields(l)["path"] for l in s0_backup_lines)
    q = cfg["q"]
    for l in worldrun.region(w_lines, cfg, "backup"):
        c = fields(l)
        if c["path"] in pre or c["path"] == q:
            continue
        vp = c["path"][len(q):] or b"/"
        op = t2.world_path(cfg, vp)
        o = s0.get(op)
        if o is None:
            return "backup holds %s but the base had no entry at %s when the transaction began" % (l, enc(op))
        if o["kind"] != c["kind"]:
            return "backup holds %s, the original at %s was of another type (%s)" % (l, enc(op), o["kind"])
        if same_entry(view_entry(cfg, o), c, q):
            continue
        cur = w.get(op)
        if cur is not None and same_entry(o, cur):
            # original still intact: the copy may be in the making
            if c["kind"] == "F" and not rle_is_prefix(c["data"], o["data"]):
                return "backup copy %s is not a prefix of the original's content" % l
            if c["kind"] == "L" and not same_entry(view_entry(cfg, o), dict(c, uid=o["uid"], gid=o["gid"]), q):
                # (the owner of a link copy in the making may still lag behind)
                return "backup link %s differs from the original target" % l
            continue
        return "backup copy %s differs from the original %s which is no longer intact in the base" % (l, o)
    return None
