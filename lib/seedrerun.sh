#!/bin/bash
# usage: seedrerun.sh [ids...]   re-runs the seeded changes against the current machinery:
# applies seeded/<id>/patch.diff to /repo, runs the quick check of the seeded property, records
# the outcome in seeded/<id>/rerun.txt, reverts /repo.  Evidence files are preserved.
set -u
export GOFLAGS=-mod=mod GOPROXY=off GOSUMDB=off GOTOOLCHAIN=local
cd /verif
IDS=${@:-$(ls seeded)}
EVBAK=$(mktemp -d /dev/shm/evidence.bak.XXXXXX); cp -a /verif/evidence/. $EVBAK/
for ID in $IDS; do
  D=/verif/seeded/$ID
  P=$(python3 -c "import json; print(json.load(open('$D/meta.json'))['property'])")
  if [ -n "$(git -C /repo status --short)" ]; then echo "/repo not clean"; exit 2; fi
  git -C /repo apply $D/patch.diff || { echo "$ID: patch does not apply"; echo "patch does not apply to the current /repo" > $D/rerun.txt; continue; }
  OUT=$(./check run $P quick 2>&1 | grep -v "^KNOWN-FINDING" | head -3)
  KIND=$(python3 -c "
import json
try:
    d=json.load(open('/verif/out/replay/$P.quick.json'))
    k=d.get('kind')
    if k=='oracle': print('oracle: '+str(d['case'].get('why'))[:300])
    else: print('tie/proof: '+'; '.join(str(x)[:200] for x in d.get('broken',[])[:2]))
except Exception as e: print('-')
")
  git -C /repo checkout -- .
  if echo "$OUT" | grep -q "^VIOLATION"; then R="CAUGHT by $P ($KIND)"; cp /verif/out/replay/$P.quick.json $D/replay.$P.json 2>/dev/null; else R="missed by $P"; fi
  echo "$ID: $R" | cut -c1-400
  echo "rerun on $(date -u +%Y-%m-%dT%H:%MZ) against /verif $(git -C /verif rev-parse --short HEAD), /repo $(git -C /repo rev-parse --short HEAD) (quick tier, seed 1): $R" > $D/rerun.txt
done
cp -a $EVBAK/. /verif/evidence/; rm -rf $EVBAK
git -C /repo status --short | head -3
