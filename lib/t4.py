"""T4: evaluate a sample of T2 cases *inside Coq* (vm_compute on the model's own
definitions, no extraction) and compare with what the extracted OCaml model
printed for the same cases: a cross-check of the extraction step."""
import os
import re

from common import COQ, OUT, sh, dec


def nlist(b):
    return "[" + "; ".join(str(c) for c in b) + "]"


def content_term(spec):
    if spec in ("-", ""):
        return "[]"
    parts = []
    for part in spec.split("+"):
        if not part:
            continue
        if part[0] == "R":
            b, n = part[1:].split("x")
            parts.append("(repeat %s %s)" % (b, n))
        else:
            parts.append(nlist(dec(part[1:])))
    return "(" + " ++ ".join(parts) + ")%list" if parts else "[]"


def op_term(o):
    k = o[0]
    s = lambda x: nlist(x)
    if k == "create":
        return "OCreate %s %s" % (s(o[1]), content_term(o[2]))
    if k == "openwrite":
        return "OOpenWrite %s %d %d %s" % (s(o[1]), int(o[2]), int(str(o[3]), 8), content_term(o[4]))
    if k == "mkdir":
        return "OMkdir %s %d" % (s(o[1]), int(str(o[2]), 8))
    if k == "mkdirall":
        return "OMkdirAll %s %d" % (s(o[1]), int(str(o[2]), 8))
    if k == "remove":
        return "ORemove %s" % s(o[1])
    if k == "removeall":
        return "ORemoveAll %s" % s(o[1])
    if k == "rename":
        return "ORename %s %s" % (s(o[1]), s(o[2]))
    if k == "symlink":
        return "OSymlink %s %s" % (s(o[1]), s(o[2]))
    if k == "chmod":
        return "OChmod %s %d" % (s(o[1]), int(str(o[2]), 8))
    if k in ("chown", "lchown"):
        return "%s %s (%d)%%Z (%d)%%Z" % ("OChown" if k == "chown" else "OLchown", s(o[1]), o[2], o[3])
    if k == "chtimes":
        return "OChtimes %s %d" % (s(o[1]), o[2])
    if k == "rollback":
        return "ORollback"
    return None


def case_term(c):
    """(config, world, ops) as Gallina; None if the case uses something not covered here"""
    cfg = c.cfg
    if cfg["ctor"] == "generic":
        p = "(Some %s)" % nlist(cfg["p"]) if cfg.get("p") else "None"
        hs = "[" + "; ".join(nlist(h) for h in cfg.get("hs", [])) + "]"
    else:
        p, hs = "None", "[" + nlist(cfg["q"]) + "]"
    conf = "(mkConfig %s %s %s)" % (p, hs, nlist(cfg["q"]))
    w = "init_world"
    for i in c.inits:
        if i[0] == "D":
            w = "(init_dir %s %s %d %d %d %d)" % (w, nlist(i[1]), i[2], i[3], i[4], i[5])
        elif i[0] == "F":
            w = "(init_file %s %s %d %d %d %d %s)" % (w, nlist(i[1]), i[2], i[3], i[4], i[5], content_term(i[6]))
        else:
            w = "(init_link %s %s %d %d %d %s)" % (w, nlist(i[1]), i[2], i[3], i[4], nlist(i[5]))
    ops = []
    for o in c.ops:
        if o[0] == "dump":
            continue
        t = op_term(o)
        if t is None:
            return None
        ops.append("(" + t + ")")
    return "(%s, %s, [%s])" % (conf, w, "; ".join(ops))


PRELUDE = """From stdpp Require Import gmap.
From BFS Require Import Backup.History.
Open Scope N_scope.
Definition cls {A} (r : mres A) : N :=
  match r with MOk _ => 0 | MHalt => 1 | MErr e =>
    match e with ENOENT => 2 | EEXIST => 3 | ENOTDIR => 4 | EISDIR => 5 | ENOTEMPTY => 6 | EINVAL => 7 | ELOOP => 8
    | EBUSY => 9 | EIO => 10 | EBADF => 11 | ELayer EPERM => 12 | ELayer EHiddenNotExist => 13 | ELayer EHiddenPerm => 14
    | ELayer EHiddenCheck => 15 | EBadInfo => 16 | ERollback => 17 | EOther => 16 | EFUEL => 19 end end.
Definition kindn (n : node) : N := match n with Dir _ => 0 | File _ c => 1 + N.of_nat (length c) * 4 | Link _ _ => 2 end.
Definition fingerprint (c : config * world * list op) :=
  let '(cf, w, ops) := c in
  let '(rs, w') := run_history cf ops w in
  (map cls rs, length (dump_fs w'), fold_right (fun kv acc => (acc + kindn (snd kv) + m_perm (node_meta (snd kv)))%N) 0%N (dump_fs w'), length (dump_infos w')).
"""

CLS = {"ok": 0, "halt": 1, "err:ENOENT": 2, "err:EEXIST": 3, "err:ENOTDIR": 4, "err:EISDIR": 5, "err:ENOTEMPTY": 6,
       "err:EINVAL": 7, "err:ELOOP": 8, "err:EBUSY": 9, "err:EIO": 10, "err:EBADF": 11, "err:EPERM": 12,
       "err:HiddenNotExist": 13, "err:HiddenPermission": 14, "err:HiddenCheckFailed": 15, "err:Other": 16,
       "err:RollbackFailed": 17, "err:FUEL": 19}


def expected(c, m):
    """the same fingerprint computed from the OCaml model's printed output"""
    rs = [CLS.get(m["R"][i][0], 99) for i in sorted(m["R"])]
    final = m["S"].get("final", [])
    tot = 0
    for l in final:
        f = l.split(" ")
        kind, perm = f[1], int(f[2], 8)
        if kind == "D":
            k = 0
        elif kind == "L":
            k = 2
        else:
            data = f[6]
            n = 0 if data == "-" else sum(int(x.split("*")[1]) for x in data.split(","))
            k = 1 + 4 * n
        tot += k + perm
    return (rs, len(final), tot, len(m["M"].get("final", [])))


def run(pid, cases, model_out):
    """returns (n checked, list of disagreements)"""
    terms = []
    keep = []
    for c in cases:
        t = case_term(c)
        if t is not None and c.id in model_out:
            terms.append(t)
            keep.append(c)
    if not terms:
        return 0, []
    os.makedirs(OUT, exist_ok=True)
    vf = os.path.join(OUT, "t4_%s.v" % pid)
    with open(vf, "w") as f:
        f.write(PRELUDE)
        for i, t in enumerate(terms):
            f.write("Definition c%d := %s.\nEval vm_compute in (%d%%N, fingerprint c%d).\n" % (i, t, i, i))
    rc, out = sh("timeout 1200 coqc -q -Q theories BFS %s 2>&1" % vf, cwd=COQ, timeout=1300)
    if rc != 0:
        return len(terms), [("coqc failed", out[-1500:])]
    got = {}
    for m in re.finditer(r"=\s*\((\d+)(?:%N)?,\s*\(\[(.*?)\],\s*(\d+)%nat,\s*(\d+)(?:%N)?,\s*(\d+)%nat\)\)", out.replace("\n", " ")):
        i = int(m.group(1))
        rs = [int(x.strip().replace("%N", "")) for x in m.group(2).split(";") if x.strip()]
        got[i] = (rs, int(m.group(3)), int(m.group(4)), int(m.group(5)))
    bad = []
    for i, c in enumerate(keep):
        e = expected(c, model_out[c.id])
        if got.get(i) != e:
            bad.append((c.id, "in-Coq %s vs extracted %s" % (got.get(i), e)))
    for fn in (vf[:-2] + ".vo", vf[:-2] + ".glob", vf[:-2] + ".vok", vf[:-2] + ".vos"):
        try:
            os.remove(fn)
        except OSError:
            pass
    return len(terms), bad
