"""Shared machinery of the /verif checks: build, run both sides, evidence."""
import fcntl
import glob
import hashlib
import json
import os
import re
import subprocess
import sys
import time

VERIF = os.path.dirname(os.path.dirname(os.path.abspath(__file__)))
REPO = os.environ.get("VERIF_REPO", "/repo")
COQ = os.path.join(VERIF, "coq")
BUILD = os.path.join(VERIF, "build")
EVID = os.path.join(VERIF, "evidence")
OUT = os.path.join(VERIF, "out")
GOENV = dict(os.environ, GOFLAGS="-mod=mod", GOPROXY="off", GOSUMDB="off",
             GOTOOLCHAIN="local", CGO_ENABLED="0")

FORBIDDEN = re.compile(
    r"\b(Admitted|admit|Axiom|Axioms|Parameter|Parameters|Conjecture|Conjectures|"
    r"Admit Obligations|Unset Guard Checking|Unset Positivity Checking|Unset Universe Checking|"
    r"bypass_check|native_compute|native_cast_no_check|Extract Constant|Extract Inductive|Extract Inlined Constant|"
    r"Hypothesis|Hypotheses|Variable|Variables|Context)\b|type-in-type|impredicative-set")


class BuildError(Exception):
    def __init__(self, stage, log):
        super().__init__(stage)
        self.stage = stage
        self.log = log


def sh(cmd, cwd=None, env=None, timeout=1800, check=False):
    p = subprocess.run(cmd, cwd=cwd, env=env, shell=isinstance(cmd, str),
                       stdout=subprocess.PIPE, stderr=subprocess.STDOUT,
                       timeout=timeout, text=True, errors="replace")
    if check and p.returncode != 0:
        raise BuildError(str(cmd), p.stdout)
    return p.returncode, p.stdout


class Lock:
    def __init__(self, name="build"):
        os.makedirs(BUILD, exist_ok=True)
        self.path = os.path.join(BUILD, "." + name + ".lock")

    def __enter__(self):
        self.f = open(self.path, "w")
        fcntl.flock(self.f, fcntl.LOCK_EX)
        return self

    def __exit__(self, *a):
        fcntl.flock(self.f, fcntl.LOCK_UN)
        self.f.close()


def vfiles():
    return sorted(glob.glob(os.path.join(COQ, "theories", "**", "*.v"), recursive=True))


def scan_forbidden():
    """Forbidden vernacular anywhere in the development.  Section variables
    are allowed only inside a Section (checked textually)."""
    bad = []
    for f in vfiles() + [os.path.join(VERIF, "extract", "Extract.v")]:
        depth = 0
        in_comment = 0
        for i, line in enumerate(open(f, encoding="utf-8", errors="replace"), 1):
            # strip comments (nesting aware, line granular)
            s = ""
            j = 0
            while j < len(line):
                if line.startswith("(*", j):
                    in_comment += 1
                    j += 2
                elif line.startswith("*)", j) and in_comment:
                    in_comment -= 1
                    j += 2
                else:
                    if not in_comment:
                        s += line[j]
                    j += 1
            if re.match(r"\s*Section\b", s):
                depth += 1
            if re.match(r"\s*End\b", s) and depth > 0:
                depth -= 1
            for m in FORBIDDEN.finditer(s):
                w = m.group(0)
                if w in ("Variable", "Variables", "Hypothesis", "Hypotheses", "Context") and depth > 0:
                    continue
                bad.append("%s:%d: %s" % (os.path.relpath(f, VERIF), i, w))
    return bad


def coq_hash():
    h = hashlib.sha256()
    for f in vfiles() + sorted(glob.glob(os.path.join(VERIF, "extract", "*.ml"))) + \
            [os.path.join(VERIF, "extract", "Extract.v"), os.path.join(VERIF, "extract", "build.sh")]:
        h.update(f.encode())
        h.update(open(f, "rb").read())
    return h.hexdigest()


def build_coq(clean=False):
    """Full .vo build of the development (never -vos)."""
    mk, cp = os.path.join(COQ, "Makefile"), os.path.join(COQ, "_CoqProject")
    if not os.path.exists(mk) or clean or os.path.getmtime(cp) > os.path.getmtime(mk):
        sh("coq_makefile -f _CoqProject -o Makefile", cwd=COQ, check=True)
    if clean:
        sh("make clean", cwd=COQ)
    rc, out = sh("timeout 3000 make -k -j16 2>&1", cwd=COQ, timeout=3100)
    return rc, out


def build_model():
    stamp = os.path.join(BUILD, "modelrun.stamp")
    h = coq_hash()
    if os.path.exists(stamp) and open(stamp).read() == h and os.path.exists(os.path.join(BUILD, "modelrun")):
        return 0, "cached"
    rc, out = sh("./build.sh", cwd=os.path.join(VERIF, "extract"), timeout=900)
    if rc == 0:
        open(stamp, "w").write(h)
    return rc, out


def build_harness():
    hd = os.path.join(VERIF, "harness")
    sh("cp %s/go.sum %s/go.sum" % (REPO, hd))
    rc, out = sh("go build -tags verif -o %s/vharness ./cmd/vharness" % BUILD, cwd=hd, env=GOENV, timeout=900)
    return rc, out


def build_all(clean=False):
    """Returns dict(stage -> (rc, log)).  Serialised by a lock file."""
    res = {}
    with Lock():
        t0 = time.time()
        bad = scan_forbidden()
        res["forbidden"] = (1 if bad else 0, "\n".join(bad))
        gen = os.path.join(VERIF, "srcfacts", "run.sh")
        if os.path.exists(gen):
            res["srcfacts"] = sh(gen, cwd=os.path.join(VERIF, "srcfacts"), env=GOENV, timeout=600)
        res["coq"] = build_coq(clean)
        # the executable model depends on the model files only (not on Proofs/ or Props/):
        # a broken proof elsewhere must not take the model away from the other properties
        res["model"] = build_model()
        res["harness"] = build_harness()
        res["wall"] = time.time() - t0
    return res


def props_files(pid):
    """Props/<pid>.v and its continuation files Props/<pid>_*.v (relative to the Coq root)"""
    rels = [os.path.join("theories", "Props", pid + ".v")]
    rels += sorted(os.path.relpath(f, COQ) for f in glob.glob(os.path.join(COQ, "theories", "Props", pid + "_*.v")))
    return rels


def check_props_file(pid):
    """Re-compile Props/<pid>.v (and Props/<pid>_*.v) on its own, then ask the kernel for the
    assumptions of EVERY statement in them (theorems, lemmas, examples - whether or not the file
    itself prints them).  Returns (rc, output, n_statements, axioms, n_closed)."""
    rc_all, out_all, names = 0, "", []
    for rel in props_files(pid):
        path = os.path.join(COQ, rel)
        if not os.path.exists(path):
            return 1, "missing " + rel, 0, [], 0
        src = open(path).read()
        mod = "BFS.Props." + os.path.basename(rel)[:-2]
        names += [(mod, m) for m in re.findall(r"^\s*(?:Theorem|Lemma|Example|Corollary|Fact|Proposition)\s+([A-Za-z_][\w']*)", src, re.M)]
        with Lock():
            rc, out = sh("timeout 900 coqc -q -Q theories BFS -w -notation-overridden,-deprecated-hint-without-locality %s 2>&1" % rel,
                         cwd=COQ, timeout=1000)
        rc_all = rc_all or rc
        out_all += out
    if rc_all != 0:
        return rc_all, out_all, len(names), [], 0
    os.makedirs(OUT, exist_ok=True)
    pa = os.path.join(OUT, "assumptions_%s.v" % pid)
    with open(pa, "w") as f:
        for mod in sorted(set(m for m, _ in names)):
            f.write("Require Import %s.\n" % mod)
        for mod, n in names:
            f.write("Print Assumptions %s.%s.\n" % (mod, n))
    with Lock():
        rc, out = sh("timeout 900 coqc -q -Q theories BFS -w -notation-overridden,-deprecated-hint-without-locality %s 2>&1" % pa,
                     cwd=COQ, timeout=1000)
    for ext in (".vo", ".vok", ".vos", ".glob"):
        try:
            os.remove(pa[:-2] + ext)
        except OSError:
            pass
    out_all += out
    axioms = []
    # Print Assumptions output: "Closed under the global context" or "Axioms:\n name : type"
    blocks = re.split(r"\n(?=Closed under the global context|Axioms:)", "\n" + out)
    for b in blocks:
        if b.startswith("Axioms:"):
            for line in b.splitlines()[1:]:
                m = re.match(r"^([A-Za-z_][\w.']*)\s*:", line)
                if m:
                    axioms.append(m.group(1))
    closed = out.count("Closed under the global context")
    return (rc_all or rc), out_all, len(names), sorted(set(axioms)), closed


def coqchk_props(pid):
    """independent re-check of Props/<pid>.vo and everything it depends on; cached by the hash of the .vo set"""
    h = hashlib.sha256()
    for f in sorted(glob.glob(os.path.join(COQ, "theories", "**", "*.vo"), recursive=True)):
        h.update(f.encode())
        h.update(open(f, "rb").read())
    d = os.path.join(BUILD, "coqchk")
    os.makedirs(d, exist_ok=True)
    cache = os.path.join(d, "%s.%s.txt" % (pid, h.hexdigest()[:16]))
    if os.path.exists(cache):
        txt = open(cache).read()
        return (0 if txt.startswith("OK") else 1), txt
    with Lock("coqchk"):
        rc, out = sh("timeout 3000 coqchk -silent -o -Q theories BFS %s 2>&1" % " ".join("BFS.Props." + os.path.basename(r)[:-2] for r in props_files(pid)), cwd=COQ, timeout=3100)
    ax = re.search(r"\* Axioms:(.*?)\n\s*\n\* Constants", out, re.S)
    summary = ("OK " if rc == 0 else "FAILED ") + "axioms: " + (" ".join(ax.group(1).split()) if ax else "?")
    if rc != 0:
        summary += " :: " + out[-1200:]
    open(cache, "w").write(summary)
    return rc, summary


def run_both_t1(tag, lines):
    """Run input lines through implementation and model.  Returns (impl, model) output lists."""
    os.makedirs(OUT, exist_ok=True)
    inp = os.path.join(OUT, tag + ".in")
    with open(inp, "w") as f:
        f.write("\n".join(lines) + "\n")
    oi = os.path.join(OUT, tag + ".impl")
    om = os.path.join(OUT, tag + ".model")
    p1 = subprocess.Popen([os.path.join(BUILD, "vharness"), "t1", inp, oi])
    p2 = subprocess.Popen([os.path.join(BUILD, "modelrun"), "t1", inp, om])
    r1 = p1.wait()
    r2 = p2.wait()
    if r1 != 0 or r2 != 0:
        raise BuildError("t1 run %s (impl rc=%d, model rc=%d)" % (tag, r1, r2), "")
    a = open(oi).read().split("\n")[:-1]
    b = open(om).read().split("\n")[:-1]
    if len(a) != len(lines) or len(b) != len(lines):
        raise BuildError("t1 run %s: output length mismatch (%d in, %d impl, %d model)" % (tag, len(lines), len(a), len(b)), "")
    return a, b


def enc(s):
    if isinstance(s, str):
        s = s.encode("latin-1")
    if len(s) == 0:
        return "%e"
    out = []
    for c in s:
        ch = chr(c)
        if ch.isascii() and (ch.isalnum() or ch in "._/-"):
            out.append(ch)
        else:
            out.append("%%%02X" % c)
    return "".join(out)


def dec(s):
    if s == "%e":
        return b""
    out = bytearray()
    i = 0
    while i < len(s):
        if s[i] == "%" and i + 2 < len(s) + 0 and i + 2 <= len(s) - 1:
            out.append(int(s[i + 1:i + 3], 16))
            i += 3
        else:
            out.append(ord(s[i]))
            i += 1
    return bytes(out)


def enc_list(l):
    return "%n" if not l else ",".join(enc(x) for x in l)


def dec_list(s):
    return [] if s == "%n" else [dec(x) for x in s.split(",")]


def all_strings(alphabet, maxlen):
    """All byte strings over alphabet up to maxlen (as bytes)."""
    level = [b""]
    yield b""
    for _ in range(maxlen):
        nxt = []
        for s in level:
            for a in alphabet:
                t = s + a
                nxt.append(t)
                yield t
        level = nxt


ALPHABET = [b"/", b".", b"a", b"b", b"\xc3", b"\xa4", b"\\"]


def write_evidence(pid, tier, seed, coverage, assumptions, wall, violations):
    os.makedirs(EVID, exist_ok=True)
    ev = {
        "property_id": pid,
        "tier": tier,
        "seed": seed,
        "level": "proof",
        "coverage": coverage,
        "assumptions": assumptions,
        "wall_s": round(wall, 2),
        "violations": violations,
    }
    tmp = os.path.join(EVID, pid + ".json.tmp")
    with open(tmp, "w") as f:
        json.dump(ev, f, indent=1, sort_keys=True, default=str)
    os.replace(tmp, os.path.join(EVID, pid + ".json"))


def load_known_findings():
    p = os.path.join(VERIF, "known_findings.json")
    if not os.path.exists(p):
        return []
    return json.load(open(p))["findings"]
