"""Independent (python) path helpers used by the implementation oracles.
They work on *cleaned* paths only; 'cleaned' itself is decided by Go's own
filepath.Clean (standard library, not under test)."""


def comps(p):
    """components of a cleaned path"""
    if p == b"/":
        return []
    if p.startswith(b"/"):
        return p[1:].split(b"/")
    return p.split(b"/")


def chain(p):
    """root (or first component), ..., parent, p for a cleaned path"""
    if p.startswith(b"/"):
        cs = comps(p)
        return [b"/"] + [b"/" + b"/".join(cs[:i]) for i in range(1, len(cs) + 1)]
    cs = p.split(b"/")
    return [b"/".join(cs[:i]) for i in range(1, len(cs) + 1)]


def inside(a, p):
    """component-wise: a == p or a is an ancestor of p (both cleaned, same absoluteness)"""
    if a.startswith(b"/") != p.startswith(b"/"):
        return False
    ca, cp = comps(a), comps(p)
    if not a.startswith(b"/"):
        if a == b".":
            ca = []
        if p == b".":
            cp = []
    return cp[:len(ca)] == ca


def ancestor(a, p):
    return a != p and inside(a, p)


def goclean(p):
    """filepath.Clean on Linux (independent re-implementation for the oracles;
    self-checked against Go's own Clean in the C19 'clean' stream)."""
    if p == b"":
        return b"."
    rooted = p.startswith(b"/")
    out = []
    for c in p.split(b"/"):
        if c == b"" or c == b".":
            continue
        if c == b"..":
            if out and out[-1] != b"..":
                out.pop()
            elif rooted:
                continue
            else:
                out.append(c)
        else:
            out.append(c)
    if rooted:
        return b"/" + b"/".join(out)
    return b"/".join(out) if out else b"."


def gojoin(a, b):
    if a == b"" and b == b"":
        return b""
    if a == b"":
        return goclean(b)
    return goclean(a + b"/" + b)


def godir(p):
    i = p.rfind(b"/")
    return goclean(p[:i + 1])


def ccomps(p):
    """components of a cleaned path, '.' -> []"""
    if p == b".":
        return []
    return comps(p)


def within(pfx, p):
    """semantic containment of cleaned paths: p is pfx or below it and does not climb out"""
    if pfx.startswith(b"/") != p.startswith(b"/"):
        return False
    a, b = ccomps(pfx), ccomps(p)
    if b[:len(a)] != a:
        return False
    return b".." not in b[len(a):]
