"""Independent (python) path helpers used by the implementation oracles.
They work on *cleaned* paths only; 'cleaned' itself is decided by Go's own
filepath.Clean (standard library, not under test)."""


def comps(p):
    """components of a cleaned path"""
    if p == b"/":
        return []
    if p.startswith(b"/"):
        return p[1:].split(b"/")
    return p.split(b"/")


def chain(p):
    """root (or first component), ..., parent, p for a cleaned path"""
    if p.startswith(b"/"):
        cs = comps(p)
        return [b"/"] + [b"/" + b"/".join(cs[:i]) for i in range(1, len(cs) + 1)]
    cs = p.split(b"/")
    return [b"/".join(cs[:i]) for i in range(1, len(cs) + 1)]


def inside(a, p):
    """component-wise: a == p or a is an ancestor of p (both cleaned, same absoluteness)"""
    if a.startswith(b"/") != p.startswith(b"/"):
        return False
    ca, cp = comps(a), comps(p)
    if not a.startswith(b"/"):
        if a == b".":
            ca = []
        if p == b".":
            cp = []
    return cp[:len(ca)] == ca


def ancestor(a, p):
    return a != p and inside(a, p)
