#!/bin/bash
# usage: seedeval.sh <seed-id> <worktree> <patch.diff> "<properties to run>" [tier]
# 1. confirms in the scratch worktree: suite passes with the change, demo fails with / passes without
# 2. applies the patch to /repo, runs the given checks, reverts /repo
set -u
ID=$1; WT=$2; PATCH=$3; PROPS=$4; TIER=${5:-quick}
export GOFLAGS=-mod=mod GOPROXY=off GOSUMDB=off GOTOOLCHAIN=local
OUTD=/verif/seeded/$ID
mkdir -p $OUTD
cp $PATCH $OUTD/patch.diff
cp $WT/seeded_demo_test.go $OUTD/seeded_demo_test.go.txt 2>/dev/null
cd $WT
git checkout -q -- . ; git apply $PATCH || { echo "patch does not apply in worktree"; exit 2; }
mv seeded_demo_test.go /tmp/$ID.demo.go
SUITE=$(go test -vet=off -count=1 ./... 2>&1 | grep -c "^ok")
mv /tmp/$ID.demo.go seeded_demo_test.go
WITH=$(go test -vet=off -count=1 -run 'TestSeededDemo$' . 2>&1 | tail -1)
git checkout -q -- .
WITHOUT=$(go test -vet=off -count=1 -run 'TestSeededDemo$' . 2>&1 | tail -1)
git apply $PATCH
echo "suite_ok_lines=$SUITE"; echo "demo_with_change: $WITH"; echo "demo_without_change: $WITHOUT"
# the evidence files under /verif/evidence must come from runs on the unchanged tree: keep them
EVBAK=$(mktemp -d /dev/shm/evidence.bak.XXXXXX); cp -a /verif/evidence/. $EVBAK/
cd /repo
git apply $PATCH || { echo "patch does not apply to /repo"; exit 2; }
RES=""
for p in $PROPS; do
  OUT=$(cd /verif && ./check run $p $TIER 2>&1 | grep -v "^KNOWN-FINDING" | head -3)
  if echo "$OUT" | grep -q "^VIOLATION"; then RES="$RES $p:CAUGHT"; echo "$p: $OUT" | cut -c1-200; cp /verif/out/replay/$p.$TIER.json $OUTD/replay.$p.json 2>/dev/null; else RES="$RES $p:missed"; fi
done
git -C /repo checkout -- .
cp -a $EVBAK/. /verif/evidence/; rm -rf $EVBAK
git -C /repo status --short | head -3
echo "RESULT $ID:$RES"
cat > $OUTD/run.txt <<EOT
suite_ok_lines=$SUITE
demo_with_change: $WITH
demo_without_change: $WITHOUT
checks ($TIER):$RES
EOT
