"""Real-tree streams for the wrapper layers: operations issued directly on
HiddenFS / PrefixFS over the OS filesystem in a chroot (no BackupFS), compared
with the model's layered api and judged by independent oracles."""
import random

import t2
import pathlib_go as pg
from common import enc, dec

SIB = [b"a", b"b", b"m", b"z", b"secret2", b"\xc3\xa4", b"zz"]


def hidden_world(rnd, prefix):
    """a tree around one or two hidden paths (file / dir / symlink / missing) with siblings before and after"""
    view = {}    # view path -> ('D'|'F'|'L', target/content)
    hs = []
    hdir = rnd.choice([b"/h/x", b"/var/opt", b"/h"])
    for a in reversed(t2.parents(hdir + b"/q")):
        view[a] = ("D", None)
    nh = rnd.choice([1, 1, 2])
    for j in range(nh):
        name = [b"secret", b"n"][j]
        hp = hdir + b"/" + name
        kind = rnd.choice(["D", "F", "L", "missing", "D"])
        hs.append(hp)
        if kind == "D":
            view[hp] = ("D", None)
            view[hp + b"/inner"] = ("F", "Bhidden")
            if rnd.random() < 0.5:
                view[hp + b"/sub"] = ("D", None)
                view[hp + b"/sub/deep"] = ("F", "Bdeep")
        elif kind == "F":
            view[hp] = ("F", "Bhidden")
        elif kind == "L":
            view[hp] = ("L", rnd.choice([b"a", b"../x", b"nonexistent"]))
    for s in rnd.sample(SIB, rnd.randint(1, 5)):
        sp = hdir + b"/" + s
        r = rnd.random()
        if r < 0.5:
            view[sp] = ("F", "Bsib")
        elif r < 0.85:
            view[sp] = ("D", None)
            view[sp + b"/f"] = ("F", "Bx")
            if rnd.random() < 0.4:
                view[sp + b"/d"] = ("D", None)
                view[sp + b"/d/g"] = ("F", "By")
        else:
            view[sp] = ("L", rnd.choice([b"secret", b"secret/inner", b"../x", b"a"]))
    # something outside
    view[b"/other"] = ("D", None)
    view[b"/other/o"] = ("F", "Bo")
    if rnd.random() < 0.5:
        view[b"/lnk"] = ("L", rnd.choice([hdir, b"/", hdir[1:], t2.parents(hdir)[0]]))
    inits = [("D", b"/", 0o755, 0, 0, 1)]
    have = {b"/"}
    if prefix:
        for a in list(reversed(t2.parents(prefix))) + [prefix]:
            if a not in have:
                have.add(a)
                inits.append(("D", a, 0o755, 0, 0, 2))
    mt = 10
    for vp in sorted(view, key=lambda x: (x.count(b"/"), x)):
        wp = (prefix or b"") + vp if vp != b"/" else (prefix or b"/")
        if wp in have:
            continue
        have.add(wp)
        mt += 1
        k, d = view[vp]
        if k == "D":
            inits.append(("D", wp, 0o755, 0, 0, mt))
        elif k == "F":
            inits.append(("F", wp, 0o644, 0, 0, mt, d))
        else:
            tgt = d
            if tgt.startswith(b"/") and prefix:
                tgt = prefix + tgt
            inits.append(("L", wp, 0, 0, mt, tgt))
    return inits, view, hs, hdir


def below_any(hs, p):
    return any(pg.within(h, p) for h in hs)
